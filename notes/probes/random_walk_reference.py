import random, warnings, copy, itertools
warnings.simplefilter('ignore')
from valida import Value, Key, Index, Data, DataPath, Rule, Schema
from valida.conditions import NullCondition
from valida.datapath import MapValue, ListValue, MapOrListValue
R = random.Random(1)
ATOMS = [0, 1, -1, 2, 3, 1.0, 2.5, -0.5, True, False, None, "", "a", "b", "1", "true", "abc"]
KEYS = ["a", "b", "c", "", "1", 0, 1, 2, 1.5, True, None, -1]
def gen_doc(d=0):
    r = R.random()
    if d >= 3 or r < 0.35: return R.choice(ATOMS)
    if r < 0.65: return [gen_doc(d+1) for _ in range(R.randint(0,3))]
    out = {}
    for _ in range(R.randint(0,4)): out[R.choice(KEYS)] = gen_doc(d+1)
    return out
def gen_top():
    while True:
        d = gen_doc(0)
        if isinstance(d,(list,dict)) and d: return d
def leaf(cls):
    c = R.choice(['eq','gt','lt','in','truthy','isinst','len','null'])
    if cls is Value:
        return {'eq': lambda: Value.equal_to(R.choice(ATOMS)), 'gt': lambda: Value.gt(R.choice([0,1,'a'])), 'lt': lambda: Value.lt(R.choice([2,'b'])),
          'in': lambda: Value.in_(R.sample(ATOMS,3)), 'truthy': Value.truthy, 'isinst': lambda: Value.is_instance(R.choice([int,str,dict,list])),
          'len': lambda: Value.length.gt(R.choice([0,1])), 'null': lambda: NullCondition()}[c]()
    if cls is Key:
        return {'eq': lambda: Key.equal_to(R.choice(KEYS)), 'gt': lambda: Key.gt(R.choice([0,'a'])), 'lt': lambda: Key.lt(R.choice([2,'b'])),
          'in': lambda: Key.in_(R.sample(KEYS,3)), 'truthy': Key.truthy, 'isinst': lambda: Key.is_instance(R.choice([int,str])),
          'len': lambda: Key.length.gt(0), 'null': lambda: NullCondition()}[c]()
    return {'eq': lambda: Index.equal_to(R.choice([0,1,2])), 'gt': lambda: Index.gt(0), 'lt': lambda: Index.lt(2),
          'in': lambda: Index.in_([0,2]), 'truthy': Index.truthy, 'isinst': lambda: Index.is_instance(int), 'len': lambda: Index.gt(-1), 'null': lambda: NullCondition()}[c]()
def tree(cls, d=0):
    # avoid D1: never combine null / same-op nesting on the left... build right-nested with distinct ops
    if d>=2 or R.random()<0.6: return leaf(cls)
    a = leaf(cls); b = tree(cls, d+1)
    if a.is_null or b.is_null: return a if b.is_null else b
    op = R.choice(['and','or','xor'])
    # avoid same-operator left operand (D1) - a is a leaf so fine
    return {'and': a & b, 'or': a | b, 'xor': a ^ b}[op] if not (type(b).__name__.lower().endswith(op) and False) else a
def gen_part():
    r = R.random()
    if r < 0.4: return R.choice([k for k in KEYS if k is not None])
    if r < 0.6:
        kw = {}
        if R.random()<0.5: kw['key'] = leaf(Key) if R.random()<0.7 else R.choice(["a","b",1])
        if R.random()<0.4: kw['value'] = tree(Value)
        try: return MapValue(**kw)
        except RecursionError: return MapValue()
    if r < 0.8:
        kw = {}
        if R.random()<0.5: kw['index'] = leaf(Index) if R.random()<0.7 else R.choice([0,1])
        if R.random()<0.4: kw['value'] = tree(Value)
        try: return ListValue(**kw)
        except RecursionError: return ListValue()
    kw = {}
    if R.random()<0.4: kw['key'] = R.choice(["a",1])
    if R.random()<0.4: kw['index'] = R.choice([0,1])
    if R.random()<0.3: kw['value'] = leaf(Value)
    return MapOrListValue(**kw)
def sat1(cond, k, v, is_list):
    # single item satisfaction via impl on a singleton container
    cont = [v] if is_list else {k: v}
    # index conditions need true index: use filter on full container instead (done by caller)
    raise NotImplementedError
def children(part, node):
    if not isinstance(node,(list,dict)) or not node: return []
    if isinstance(part,(str,float)) and not isinstance(part,bool):
        if isinstance(node,dict): return [(k,v) for k,v in node.items() if k == part]
        return []
    if isinstance(part,int):
        if isinstance(node,dict): return [(k,v) for k,v in node.items() if k == part]
        return [(i,v) for i,v in enumerate(node) if i == part]
    if isinstance(part, MapValue) and not isinstance(node, dict): return []
    if isinstance(part, ListValue) and not isinstance(node, list): return []
    try:
        fd = part.filter(node)
    except TypeError:
        return []
    return list(zip(fd.keys, fd.data))
def walk(parts, node, path=()):
    if not parts: return [(node, path)]
    out = []
    for k, c in children(parts[0], node):
        out += walk(parts[1:], c, path+(k,))
    return out
def index(doc, path):
    for k in path: doc = doc[k]
    return doc
def same(a,b):
    return type(a) is type(b) and a == b and repr(a)==repr(b)
stats = dict(n=0, nonempty=0, multi=0, exc=0)
for it in range(30000):
    doc = gen_top(); parts = [gen_part() for _ in range(R.randint(0,3))]
    try:
        p = DataPath(*parts)
    except RecursionError:
        continue
    snap = copy.deepcopy(doc)
    try:
        got = p.get_data(doc, return_paths=True)
        got2 = p.get_data(doc)
    except Exception as e:
        stats['exc'] += 1
        if stats['exc'] < 5: print("EXC", type(e).__name__, e, parts, doc)
        continue
    exp = walk(parts, doc)
    stats['n'] += 1
    if p.is_concrete:
        if not parts: sel = [got]
        else: sel = [] if got is None else [got]
        assert len(exp) <= 1, ("concrete multi", parts, doc)
    else:
        sel = got
    if exp: stats['nonempty'] += 1
    if len(exp) > 1: stats['multi'] += 1
    assert len(sel) == len(exp), ("len", parts, doc, sel, exp)
    for (v,q),(ev,eq) in zip(sel, exp):
        assert q == eq and all(type(x) is type(y) for x,y in zip(q,eq)), ("path", parts, doc, sel, exp)
        assert v is ev or same(v, ev), ("val", parts, doc)
        assert index(doc, q) is v or same(index(doc,q), v), ("index", parts, doc, q)
    assert len(set(map(repr,[q for _,q in sel]))) == len(sel)
    vals = [v for v,_ in sel]
    if p.is_concrete:
        g2 = [] if (got2 is None and parts) else [got2]
        if parts and got2 is None and exp: g2 = [None]
    else: g2 = got2
    assert len(g2) == len(vals) and all(a is b or same(a,b) for a,b in zip(g2, vals)), ("novals", parts, doc, got2, vals)
    assert repr(doc) == repr(snap)
    # entry points
    assert repr(Data(doc).get(p, return_paths=True)) == repr(got)
    assert repr(DataPath(*parts, source_data=doc).get_data(return_paths=True)) == repr(got)
    assert repr(p.get_data(Data(doc), return_paths=True)) == repr(got)
    # rule
    cond = tree(Value)
    try:
        rt = Rule(p, cond).test(doc)
    except Exception as e:
        stats['exc'] += 1
        if stats['exc'] < 8: print("RULE EXC", type(e).__name__, e, parts, cond, doc)
        continue
    fails = [(f.path, f.value) for f in rt.failures]
    expf = [(q, v) for v, q in exp if not cond.test(v)]
    assert rt.tested == bool(exp) and rt.is_valid == (not expf), ("verdict", parts, cond, doc)
    assert len(fails)==len(expf) and all(a[0]==b[0] and (a[1] is b[1] or same(a[1],b[1])) for a,b in zip(fails,expf)), ("fails", parts, cond, doc, fails, expf)
    assert all(len(f.reasons)>=1 for f in rt.failures)
print(stats)
