import random, warnings, copy, traceback, collections, sys
warnings.simplefilter('ignore')
from valida import Value, Key, Index, Data, DataPath, Rule, Schema
from valida.conditions import ConditionLike
from valida.datapath import ContainerValue
from valida.errors import *
sys.setrecursionlimit(400)
R = random.Random(7)
ALLOWED = (MalformedConditionLikeSpec, MalformedContainerItemSpec, MalformedDataPathSpec, MalformedRuleSpec, TypeError, ValueError)
conds = [
 {'value.equal_to': 1}, {'value.length.gt': 2}, {'value.type.in': ['int','str']}, {'value.is_instance': ['dict']},
 {'value.in_range': {'lower':1,'upper':5}}, {'value.in_range': [1,5]}, {'value.items_contain': {'a':1}}, {'value.keys_contain_any_of': ['a','b']},
 {'value.truthy': None}, {'key.in': ['a','b']}, {'index.gt': 0}, {'and': [{'value.gt':1},{'or':[{'value.lt':5},{'value.eq':7}]}]},
 {'value.equal_to': {'path': ['a', {'type':'list_value'}]}}, {'value.equal_to': {'path.length': ['a']}}, {'value.in': [{'path':['b']}, 3]},
 {'value.equal_to': {'\\path': ['a']}}, {'value.equal_to_approx': {'value': 1.0, 'tolerance': 0.1}},
]
parts = [ {'type':'map_value'}, {'type':'map_value','key.equal_to':'a','value.gt':1,'label':'L'}, {'type':'list_value','index':{'index.in':[0,1]}},
 {'type':'map_or_list_value','key':{'key.eq':1},'index.eq':1}, {'key.eq':1}, {'type':'map_value','condition':{'and':[{'key.eq':'a'},{'value.gt':1}]}} ]
paths = [ {'path':['a',1]}, {'path.length':['a',{'type':'list_value'}]}, {'path.first.type':[{'type':'map_value'}]} ]
rules = [ {'path':['a'],'condition':{'value.eq':1}}, {'path':['a',{'type':'list_value'}],'condition':{'value.type.equal_to':'int'},'cast':{'str':'int'},'doc':'hello'},
  {'path':[],'condition':{'value.allowed_keys':['a']},'doc':{'description':['d'],'examples':['e']}} ]
JUNK = [None, 0, 1, -1, 1.5, True, '', 'a', 'path', 'value', 'value.eq', 'and', [], {}, [1], {'a':1}, ['a'], {'path':['a']}, 'int', 'mro', 'value.mro']
def nodes(x, path=()):
    yield path
    if isinstance(x, dict):
        for k in x: yield from nodes(x[k], path+(('k',k),))
    elif isinstance(x, list):
        for i,_ in enumerate(x): yield from nodes(x[i], path+(('i',i),))
def get(x, path):
    for t,k in path: x = x[k]
    return x
def setp(x, path, v):
    if not path: return v
    par = get(x, path[:-1]); par[path[-1][1]] = v; return x
def mutate(spec):
    s = copy.deepcopy(spec)
    ps = list(nodes(s)); p = R.choice(ps)
    op = R.random()
    tgt = get(s, p)
    if op < 0.35: return setp(s, p, copy.deepcopy(R.choice(JUNK)))
    if op < 0.55 and isinstance(tgt, dict) and tgt:
        k = R.choice(list(tgt)); v = tgt.pop(k)
        if R.random()<0.6:
            nk = R.choice([k.upper() if isinstance(k,str) else k, (k+'x') if isinstance(k,str) else k, 1, None, 'value.mro', 'path.simplify', k.replace('.','..') if isinstance(k,str) else k, (k.split('.')[0] if isinstance(k,str) else k)])
            tgt[nk] = v
        return s
    if op < 0.7 and isinstance(tgt, dict): tgt[R.choice(['x','type','value','key','path','cast','doc',1])] = copy.deepcopy(R.choice(JUNK)); return s
    if op < 0.85 and isinstance(tgt, list):
        if tgt and R.random()<0.5: tgt.pop(R.randrange(len(tgt)))
        else: tgt.insert(R.randint(0,len(tgt)), copy.deepcopy(R.choice(JUNK)))
        return s
    return setp(s, p, [copy.deepcopy(tgt)] if R.random()<0.5 else {'a': copy.deepcopy(tgt)})
buckets = collections.Counter(); examples = {}; accepted_weird = collections.Counter(); wex={}
def run(name, parse, seeds, n, okcls):
    for _ in range(n):
        s = mutate(R.choice(seeds))
        if R.random()<0.3: s = mutate(s)
        s0 = copy.deepcopy(s)
        try:
            r = parse(s)
            if not isinstance(r, okcls):
                key=(name, type(r).__name__); accepted_weird[key]+=1; wex.setdefault(key, s0)
        except ALLOWED: pass
        except KeyError as e:
            if name in ('rule',) and e.args and e.args[0] in ('path','condition'): continue
            tb = traceback.extract_tb(sys.exc_info()[2])[-1]
            key=(name,'KeyError',tb.filename.split('/')[-1],tb.lineno); buckets[key]+=1; examples.setdefault(key, s0)
        except BaseException as e:
            tb = traceback.extract_tb(sys.exc_info()[2])[-1]
            key=(name,type(e).__name__,tb.filename.split('/')[-1],tb.lineno); buckets[key]+=1; examples.setdefault(key, s0)
from valida.conditions import ConditionLike as CL
from valida.datapath import ContainerValue as CV, DataPath as DP
run('cond', CL.from_spec, conds, 40000, CL)
run('part', CV.from_spec, parts, 15000, CV)
run('path', DP.from_spec, paths, 15000, (DP,dict))
run('rule', Rule.from_spec, rules, 30000, Rule)
for k,v in sorted(buckets.items()): print(v, k, '   e.g.', repr(examples[k])[:140])
print('--- accepted but wrong type')
for k,v in accepted_weird.items(): print(v,k, repr(wex[k])[:140])
