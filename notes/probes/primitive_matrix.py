import itertools, operator, collections
reps = collections.OrderedDict([
 ('None', None), ('bool', True), ('int', 3), ('float', 2.5), ('str', 'ab'), ('list', [1,'a']), ('tuple', (1,'a')),
 ('dict', {'a':1}), ('type', int)])
def outcome(f):
    try:
        r = f()
        return 'ok:'+type(r).__name__
    except Exception as e:
        return type(e).__name__
names = list(reps)
def matrix(title, op):
    print(f"\n{title}  (row = left operand, col = right operand)")
    print(' '*7 + ' '.join(f"{n[:6]:>8}" for n in names))
    for a in names:
        row = []
        for b in names:
            o = outcome(lambda: op(reps[a], reps[b]))
            row.append({'ok:bool':'bool','TypeError':'TypeE','ok:int':'int','ok:float':'float','ok:str':'str','AttributeError':'AttrE','ZeroDivisionError':'ZeroD','ValueError':'ValE','ok:list':'list','ok:tuple':'tuple','KeyError':'KeyE'}.get(o,o))
        print(f"{a[:6]:>7}" + ' '.join(f"{x:>8}" for x in row))
matrix("a == b", operator.eq)
matrix("a < b", operator.lt)
matrix("a in b", lambda a,b: a in b)
matrix("a % b", operator.mod)
matrix("a - b", operator.sub)
matrix("a in range(b, 5)", lambda a,b: a in range(b,5))
matrix("b[a]  (items_contain: trial_dict[k])", lambda a,b: b[a])
print("\nunary")
for n,v in reps.items():
    print(f"{n:>6}: len={outcome(lambda: len(v)):<10} abs={outcome(lambda: abs(v)):<10} hash={outcome(lambda: hash(v)):<10} keys()={outcome(lambda: v.keys()):<16} truthy={bool(v)} type={type(v).__name__} isinstance(v,int)={isinstance(v,int)}")
print("\nspecials")
print("[1,'a'] < [1, 2]:", outcome(lambda: [1,'a'] < [1,2]), "| [1,'a'] < [2,'a']:", [1,'a'] < [2,'a'], "| [1] < [1, 'x']:", [1] < [1,'x'], "| (1,) < [1]:", outcome(lambda: (1,) < [1]), "| [1]==(1,):", [1]==(1,))
print("True == 1 == 1.0:", True == 1 == 1.0, "| {1:'a'} == {True:'a'}:", {1:'a'}=={True:'a'}, "| 1 in {1.0:0}:", 1 in {1.0:0}, "| 2**53+1 == float(2**53+1):", 2**53+1 == float(2**53+1), "| 2**53+1 < 2.0**53+2:", 2**53+1 < 2.0**53+2)
print("'a' in 'abc':", 'a' in 'abc', "| '' in 'abc':", '' in 'abc', "| 1 in 'abc':", outcome(lambda: 1 in 'abc'), "| [1] in {}:", outcome(lambda: [1] in {}), "| (1,[2]) in {}:", outcome(lambda: (1,[2]) in {}), "| [1] in [[1]]:", [1] in [[1]])
print("2.0 in range(1,5):", 2.0 in range(1,5), "| 2.5 in range(1,5):", 2.5 in range(1,5), "| True in range(1,5):", True in range(1,5), "| 'a' in range(1,5):", 'a' in range(1,5), "| [1] in range(1,5):", [1] in range(1,5), "| range(1.0,5):", outcome(lambda: range(1.0,5)), "| range(True,5):", list(range(True,5)), "| range(5,1):", list(range(5,1)))
print("-7 % 3:", -7 % 3, "| 7 % -3:", 7 % -3, "| -7.5 % 2:", -7.5 % 2, "| 7 % 2.5:", 7 % 2.5, "| 1e300 % 3:", 1e300 % 3, "| 5 % True:", 5 % True, "| 5 % False:", outcome(lambda: 5 % False), "| 5.0 % 0.0:", outcome(lambda: 5.0 % 0.0))
for fmt in ['abc', '%', '%%', '%d', '%s', '%s %s', '%z', '%(a)s', '%c', '%x', '%5', '%.2f', '%r', 'a%']:
    print(f"  {fmt!r:>8}: " + ' '.join(f"{n}={outcome(lambda: fmt % v)[:9]}" for n,v in reps.items()))
print("abs(True - 0.5):", abs(True-0.5), "| abs(3 - 'a'):", outcome(lambda: abs(3-'a')), "| [1]-[1]:", outcome(lambda: [1]-[1]), "| {1}-{1} n/a")
print("isinstance(1,(int,'a')):", isinstance(1,(int,'a')), "| isinstance('s',(int,'a')):", outcome(lambda: isinstance('s',(int,'a'))), "| isinstance(1,()):", isinstance(1,()), "| isinstance(1, 5):", outcome(lambda: isinstance(1,5)), "| isinstance(1,(1,)):", outcome(lambda: isinstance(1,(1,))))
print("set([[1]]):", outcome(lambda: set([[1]])), "| set('ab'):", sorted(set('ab')), "| set(5):", outcome(lambda: set(5)), "| set({'a':1}.keys()) - set(['a']):", set({'a':1}.keys()) - set(['a']))
print("sum(True for _ in range(2)) == 2.0:", sum(True for _ in range(2)) == 2.0, "| sum(...) >= 'a':", outcome(lambda: sum(True for _ in range(2)) >= 'a'), "| sum(())==0:", sum(())==0)
print("not not []:", not not [], "| not not 0.0:", not not 0.0, "| not not int:", not not int, "| not not '0':", not not '0')
print("type(True)==int:", type(True)==int, "| type(1)==1:", type(1)==1, "| int in [int,str]:", int in [int,str], "| int in (int):", outcome(lambda: int in (int)), "| int < str:", outcome(lambda: int < str))
print("len(int):", outcome(lambda: len(int)), "| type(int):", type(int))
import math
print("abs(1e308 - -1e308):", abs(1e308 - -1e308), "| 2**63 - 0.5:", 2**63-0.5, "| 10**400 - 0.5:", outcome(lambda: 10**400 - 0.5), "| 10**400 < 1.5:", 10**400 < 1.5)
