"""Reproduces, against the valida in /repo, every defect witness listed in DESIGN.md section 8.

Design-phase note, not part of the verification framework: run with
    /venv/bin/python notes/defect_witnesses.py
Each line prints the defect id, the expression and what the real code does with it.
"""
import copy
import json
import warnings

warnings.simplefilter("ignore")

from valida import Value, Key, Index, Data, DataPath, Rule, Schema
from valida.conditions import NullCondition, ConditionLike
from valida.datapath import MapValue, ListValue, MapOrListValue, ContainerValue


def show(did, label, f):
    try:
        out = f()
        print(f"{did:4} {label}\n       -> {out!r}")
    except BaseException as e:  # noqa: BLE001 - we want to see RecursionError etc.
        print(f"{did:4} {label}\n       -> raises {type(e).__name__}: {str(e)[:90]}")


def d1():
    ab = Value.gt(1) & Value.lt(4)
    NullCondition() & ab
    return ab.filter([1, 2, 3, 4]).result


def d17():
    s = {"path": ["a"], "condition": {"value.eq": 1}, "cast": {"str": "int"}}
    Rule.from_spec(s)
    return s, Rule.from_spec(s)


def d19():
    S = Schema([Rule(("p",), Value.is_instance(dict))])
    T = Schema([Rule(("x",), Value.eq(1))])
    S.add_schema(T, DataPath("p"))
    S.add_schema(T, DataPath("q"))
    return [r.path for r in T.rules]


def d21():
    s = Schema([Rule((), Value.required_keys("q") & Value.allowed_keys("q", "r"))])
    return [(i.get("path"), i.get("required")) for i in s.to_tree()]


show("D1", "ab = gt(1) & lt(4); NullCondition() & ab; ab.filter(...)", d1)
show("D1", "MapValue(key=Key.gt('a') & Key.lt('z'))", lambda: MapValue(key=Key.gt("a") & Key.lt("z")))
show("D1", "from_spec({'and': [{'and': [x, y]}, z]})", lambda: ConditionLike.from_spec(
    {"and": [{"and": [{"value.gt": 1}, {"value.lt": 4}]}, {"value.gt": 2}]}).filter([1, 2, 3]).result)
show("D2", "Value.factor_of(6).filter([0, 2])", lambda: Value.factor_of(6).filter([0, 2]).result)
show("D2", "Value.has_factor(2).filter(['100%'])", lambda: Value.has_factor(2).filter(["100%"]).result)
show("D2", "path argument with single() and two matches", lambda: Rule(
    ("a",), Value.eq(DataPath(MapValue()).single())).test({"a": 1, "b": 2}).is_valid)
show("D3", "Value.not_in_range(5).filter([1, 7])", lambda: Value.not_in_range(5).filter([1, 7]).result)
show("D4", "valid data: get_failures_string()", lambda: Schema(
    [Rule(("a",), Value.eq(1))]).validate({"a": 1}).get_failures_string())
show("D5", "from_spec({'value.keys_contain_N_of': {...}})", lambda: ConditionLike.from_spec(
    {"value.keys_contain_N_of": {"N": 1, "keys": ["a"]}}))
show("D6", "Value.factor_of(6).to_json_like()", lambda: Value.factor_of(6).to_json_like())
show("D7", "cast str->int on 'abc'", lambda: Rule(("a",), Value.is_instance(int), cast={str: int}).test({"a": "abc"}))
show("D8", "cast inside a list", lambda: Rule(("a", 0), Value.is_instance(int), cast={str: int}).test({"a": ["3"]}))
show("D8", "cast under int key", lambda: Rule((1,), Value.is_instance(int), cast={str: int}).test({1: "3"}))
show("D8", "cast with the empty path", lambda: Rule((), Value.is_instance(dict), cast={str: int}).test({"a": "3"}))
show("D9", "Value.dtype.in_([int, str]).to_json_like()", lambda: Value.dtype.in_([int, str]).to_json_like())
show("D10", "json.dumps(Value.equal_to(DataPath('a')).to_json_like())",
     lambda: json.dumps(Value.equal_to(DataPath("a")).to_json_like()))
show("D11", "round trip of Value.equal_to({'path': ['a']})", lambda: ConditionLike.from_json_like(
    Value.equal_to({"path": ["a"]}).to_json_like()) == Value.equal_to({"path": ["a"]}))
show("D12", "DataPath(MapValue(value=Value.equal_to(1))).to_part_specs()",
     lambda: DataPath(MapValue(value=Value.equal_to(1))).to_part_specs())
show("D12", "DataPath(MapValue(key=Key.greater_than('a'))).to_part_specs()",
     lambda: DataPath(MapValue(key=Key.greater_than("a"))).to_part_specs())
show("D13", "doc: {'examples': [' e ']}", lambda: Rule.from_spec(
    {"path": ["a"], "condition": {}, "doc": {"examples": [" e "]}}).doc)
show("D14", "json.dumps(rule_with_cast.to_json_like())", lambda: json.dumps(Rule.from_spec(
    {"path": ["a"], "condition": {"value.eq": 1}, "cast": {"str": "int"}}).to_json_like()))
show("D15", "DataPath(1) == DataPath(2)", lambda: (DataPath(1) == DataPath(2),
     DataPath(1).get_data([10, 20, 30]), DataPath(2).get_data([10, 20, 30])))
show("D16", "in_range(1,5) == in_range(1.0,5) and their results on [1, 2]", lambda: (
    Value.in_range(1, 5) == Value.in_range(1.0, 5),
    Value.in_range(1, 5).filter([1, 2]).result, Value.in_range(1.0, 5).filter([1, 2]).result))
show("D17", "parse the same rule spec twice", d17)
show("D17", "ContainerValue.from_spec(spec); spec afterwards", lambda: (
    lambda s: (ContainerValue.from_spec(s), s)[1])({"type": "map_value", "key.eq": "a"}))
show("D18", "{'value.in': [{'path': ['b']}, 7]} on {'a': 5, 'b': 5}", lambda: Rule.from_spec(
    {"path": ["a"], "condition": {"value.in": [{"path": ["b"]}, 7]}}).test({"a": 5, "b": 5}).is_valid)
show("D19", "add T under p then under q; T's own rule paths", d19)
show("D20", "from_spec({'value.mro': None})", lambda: ConditionLike.from_spec({"value.mro": None}))
show("D20", "from_spec({1: 2})", lambda: ConditionLike.from_spec({1: 2}))
show("D20", "DataPath.from_spec({'path.simplify': ['a']})", lambda: DataPath.from_spec({"path.simplify": ["a"]}))
show("D21", "required_keys('q') & allowed_keys('q','r') in to_tree", d21)
show("D22", "to_tree with Value.length.gt(2)", lambda: Schema([Rule((), Value.length.gt(2))]).to_tree())
show("D23", "to_tree(from_path=['a'])", lambda: Schema(
    [Rule((), Value.is_instance(dict)), Rule(("a",), Value.is_instance(int))]).to_tree(from_path=["a"]))
show("D24", "from_spec({'value.equal_to': {}})", lambda: ConditionLike.from_spec({"value.equal_to": {}}))
show("D25", "from_spec({'value.dtype.truthy': None})", lambda: ConditionLike.from_spec({"value.dtype.truthy": None}))
show("D26", "3-component part spec == keyword-built part", lambda: ContainerValue.from_spec(
    {"type": "map_value", "key.eq": "a", "value.gt": 1, "condition": {"value.lt": 5}})
    == MapValue(key="a", value=Value.gt(1), condition=Value.lt(5)))
show("D27", "integer key below an untyped node in to_tree", lambda: Schema(
    [Rule((), Value.truthy()), Rule((0,), Value.truthy())]).to_tree())
show("D28", "from_spec({'value.equal_to': {1: 'a'}})", lambda: ConditionLike.from_spec({"value.equal_to": {1: "a"}}))


def d29():
    r1 = Rule.from_spec({"path": ["a"], "condition": {"value.equal_to": 1}, "cast": {}})
    r2 = Rule.from_json_like(json.loads(json.dumps(r1.to_json_like())))
    return (r1.cast, r2.cast, r1 == r2)


show("D29", "rule with cast: {} after the JSON round trip (casts, ==)", d29)


def d30():
    import signal

    def on_alarm(*a):
        raise TimeoutError("add_schema did not return within 3 s")
    signal.signal(signal.SIGALRM, on_alarm)
    signal.alarm(3)
    try:
        S = Schema([Rule(("a",), Value.truthy())])
        S.add_schema(S, DataPath("r"))
        return [len(r.path) for r in S.rules]
    finally:
        signal.alarm(0)


show("D30", "S.add_schema(S, DataPath('r'))", d30)
show("D31", "from_spec({'value.truthy': [1]}) (an argument for a callable without parameters)",
     lambda: ConditionLike.from_spec({"value.truthy": [1]}))
show("D32", "Rule(('xs', ListValue()), Index.equal_to(0) & Value.equal_to(1)).test({'xs': [1, 2, 1]})", lambda: [
    f.path for f in Rule(DataPath("xs", ListValue()), Index.equal_to(0) & Value.equal_to(1)).test({"xs": [1, 2, 1]}).failures])
