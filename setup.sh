#!/bin/sh
# Build the Lean side from scratch (offline): generated tables, model, specs, proofs, driver.
set -e
cd "$(dirname "$0")"
/venv/bin/python tools/extract.py /repo lean/ValidaGen
cd lean
lake build
