/-
  Driver — line protocol between the Python harness and the executable model.
  One JSON request per input line, one JSON response per output line.
-/
import Valida.Codec
import Valida.Heap
import Valida.Spec.Ser
import Valida.AddSchema
import Valida.Tree
import Valida.Html
import Valida.Repr
import Valida.Report
import Valida.TypeFmt
open Lean (Json)
open Valida Valida.Codec ValidaGen

def decDatumSpec (j : Json) : P DatumSpec :=
  match j with
  | .null => pure .none
  | _ => do
    let a ← arr j
    match ← str a[0]! with
    | "c" => do pure (.cond (← decCondLit a[1]!))
    | "v" => do pure (.val (← decVal a[1]!))
    | t => throw s!"bad datum spec {t}"

def decOptCond (j : Json) : P (Option (Cond PyVal)) :=
  match j with
  | .null => pure none
  | _ => do pure (some (← decCondLit j))

def boolR (r : Except Exc Bool) : R := r.map PyVal.bool

def prim (name : String) (xs : List PyVal) : P R :=
  match name, xs with
  | "eq", [a, c] => pure (Py.eq a c)
  | "ne", [a, c] => pure (Py.ne a c)
  | "lt", [a, c] => pure (Py.lt a c)
  | "le", [a, c] => pure (Py.le a c)
  | "gt", [a, c] => pure (Py.gt a c)
  | "ge", [a, c] => pure (Py.ge a c)
  | "contains", [a, c] => pure (Py.contains a c)
  | "inRange", [a, l, u] => pure (Py.inRange a l u)
  | "len", [a] => pure (Py.len a)
  | "type", [a] => pure (Py.type a)
  | "not", [a] => pure (Py.not a)
  | "mod", [a, c] => pure (Py.mod a c)
  | "sub", [a, c] => pure (Py.sub a c)
  | "abs", [a] => pure (Py.abs a)
  | "isinstance", [a, c] => pure (Py.isinstance a c)
  | "hashable", [a] => pure (.ok (.bool (PyVal.hashable a)))
  | "getItem", [a, k] => pure (Py.getItem a k)
  | "setItem", [a, k, v] => pure (setItem a k v)
  | "set", [a] => pure (Py.set a)
  | "int", [.str s] => pure (pyIntOfStr s)
  | "castBool", [.str s] => pure (castStringToBool s)
  | _, _ => throw s!"unknown primitive {name}/{xs.length}"

def encFailure (f : Failure) : Json :=
  .arr #[.num f.index, encVal f.value, encVal f.path, .arr (f.reasons.map encReason).toArray]

def encRuleTest (t : RuleTestR) : Json :=
  Json.mkObj [("tested", .bool t.tested), ("is_valid", .bool t.isValid),
    ("failures", .arr (t.failures.map encFailure).toArray), ("data", encVal t.data)]

def encFD (fd : FD) (d : DataV) : Json :=
  let res := fd.result
  Json.mkObj [("result", encBools res), ("data", encVals (pickBy res d.values)),
    ("keys", encVals (pickBy res d.keys)), ("failure_indices", encNats (failureIndices res)),
    ("pre_err", encBools fd.preErr), ("c_err", encBools fd.cErr), ("c_false", encBools fd.cFalse),
    ("reasons", .arr ((failureIndices res).map (fun i => Json.arr ((fd.reasonsAt i).map encReason).toArray)).toArray)]

/-- marker a legitimate report cannot contain (a raw NUL is always escaped by `repr`) -/
def reprMarker : String := String.ofList [Char.ofNat 0, '?']
def rhoD (v : PyVal) : String := match Repr.pyRepr v with | .ok s => s | .error _ => reprMarker
def kappaD (l : Leaf Arg) : String := match Repr.leafRepr l with | .ok s => s | .error _ => reprMarker
def hasMarker (s : String) : Bool := s.toList.contains (Char.ofNat 0)
def guardMarker (r : Except Exc String) : Except Exc String :=
  match r with
  | .ok s => if hasMarker s then .error .unmodelled else .ok s
  | .error e => .error e

def sortWithIdx (rules : List RuleM) : List (Nat × RuleM) :=
  (List.zip (List.range rules.length) rules).mergeSort (fun a b => ruleLe a.2 b.2)

def strList (j : Json) : P (List String) := do (← arr j).toList.mapM str

partial def decTCond (j : Json) : P TCond := do
  let a ← arr j
  match ← str a[0]! with
  | "leaf" => do pure (.leaf { cls := ← str a[1]!, fn := ← str a[2]!, keyStrs := ← strList a[3]!, keyDisp := ← strList a[4]! })
  | "bin" => do pure (.bin (← str a[1]!) (← decTCond a[2]!) (← decTCond a[3]!))
  | t => throw s!"bad tcond {t}"

def decTRule (j : Json) : P TRule := do
  let a ← arr j
  pure { partStrs := ← strList a[0]!, simpleDisp := ← strList a[1]!, implTypes := ← strList a[2]!, lastBare := ← str a[3]!,
         cond := ← decTCond a[4]! }

def encOptStrs : Option (List String) → Json
  | none => .null
  | some xs => .arr (xs.map Json.str).toArray

def encTItem (i : TItem) : Json :=
  Json.mkObj [("path_str", .arr (i.pathStr.map Json.str).toArray), ("rule", match i.rule with | some n => .num n | none => .null),
    ("path", encOptStrs i.path), ("required", match i.required with | some b => .bool b | none => .null),
    ("type", .str i.typ), ("key_type", .bool i.keyType), ("list_value_type", .bool i.listValueType),
    ("map_value_type", .bool i.mapValueType), ("type_info_in_parent", .bool i.typeInfoInParent),
    ("parent", match i.parent with | .ofNat n => .num n | .negSucc _ => .num (-1 : Int))]

partial def encTNode : TNode → Json
  | .mk item children => Json.mkObj [("item", encTItem item), ("children", .arr (children.map encTNode).toArray)]

def optStr (j : Json) : P (Option String) :=
  match j with
  | .null => pure none
  | _ => do pure (some (← str j))

partial def decHNode (j : Json) : P HtmlNode := do
  let a ← arr j
  let path ← (← arr a[0]!).toList.mapM (fun e => do
    let p ← arr e
    match ← str p[0]! with
    | "map" => pure PathElem.bareMap
    | "list" => pure PathElem.bareList
    | _ => do pure (PathElem.text (← str p[1]!)))
  let children ← match a[12]! with
    | .null => pure none
    | c => do pure (some (← (← arr c).toList.mapM decHNode))
  pure { path := path, pathStr := ← str a[1]!, typeInfoInParent := ← bool a[2]!, typeFmt := ← str a[3]!, keyTypeFmt := ← str a[4]!,
         mapValFmt := ← str a[5]!, listValFmt := ← str a[6]!, required := ← bool a[7]!, condStr := ← str a[8]!,
         hasDoc := ← bool a[9]!, description := ← strList a[10]!, examples := ← strList a[11]!, children := children }

def handle (j : Json) : P Json := do
  let a ← arr j
  match ← str a[0]! with
  | "prim" => do
      let xs ← (← arr a[2]!).toList.mapM decVal
      pure (encOutcome encVal (← prim (← str a[1]!) xs))
  | "call" => do
      let datum ← decVal a[2]!
      let pos ← (← arr a[3]!).toList.mapM decVal
      let kw ← (← arr a[4]!).toList.mapM (fun it => do
        let p ← arr it
        pure ((← str p[0]!), (← decVal p[1]!)))
      pure (encOutcome encVal (callFn (← str a[1]!) datum pos kw))
  | "filter" => do
      let c ← decCond a[1]!
      let doc ← decVal a[2]!
      let r := filterPy (c.resolve none) doc
      pure (encOutcome (fun (p : FD × DataV) => encFD p.1 p.2) r)
  | "mkbin" => do
      let op ← decOp (← str a[1]!)
      let c1 ← decCondLit a[2]!
      let c2 ← decCondLit a[3]!
      pure (encOutcome encCondLit (Cond.mkBin op c1 c2))
  | "build" => do
      let instrs ← (← arr a[1]!).toList.mapM (fun it => do
        let p ← arr it
        match ← str p[0]! with
        | "leaf" => do
            match ← decCondLit p[1]! with
            | .leaf l => pure (HOp.leaf l)
            | _ => throw "build: leaf expected"
        | "comb" => do pure (HOp.comb (← decOp (← str p[1]!)) (← nat p[2]!) (← nat p[3]!))
        | t => throw s!"bad instruction {t}")
      let (h, outs) := runHistory 4096 #[] [] instrs
      let encOut (o : Except Exc Nat) : Json := encOutcome (fun (n : Nat) => Json.num n) o
      let dens := outs.map (fun o => match o with
        | .ok i => encOutcome encCondLit (Heap.den h 4096 i)
        | .error e => encExc e)
      pure (Json.mkObj [("outs", .arr (outs.map encOut).toArray), ("dens", .arr dens.toArray)])
  | "parse_cond" => do
      let spec ← decVal a[1]!
      pure (encOutcome encCond (parseCond 200 spec))
  | "parse_part" => do
      match ← decVal a[1]! with
      | .dict kvs => pure (encOutcome encPart (parsePart 200 kvs))
      | _ => throw "parse_part: mapping expected"
  | "parse_path" => do
      let spec ← decVal a[1]!
      pure (encOutcome (fun (r : Sniffed) => encArg r.toArg) (parsePathSpec 200 spec))
  | "from_part_specs" => do
      let parts ← (← arr a[1]!).toList.mapM decVal
      pure (encOutcome encPath (fromPartSpecs 200 parts))
  | "from_str" => do
      let sTxt ← str a[1]!
      let d ← str a[2]!
      match d.toList with
      | [c] => pure (encOutcome encPath (fromStr sTxt c))
      | _ => throw "from_str: one-character delimiter expected"
  | "parse_rule" => do
      let spec ← decVal a[1]!
      pure (encOutcome (fun (r : ParsedRule) => Json.mkObj [("rule", encRule r.rule), ("doc", encOptVal r.doc)])
        (parseRule 200 spec))
  | "parse_schema" => do
      let spec ← decVal a[1]!
      pure (encOutcome (fun (rs : List RuleM) => Json.arr (rs.map encRule).toArray) (parseSchema 200 spec))
  | "dsl" => do
      let cls ← decClass (← str a[1]!)
      let name ← str a[2]!
      let pos ← (← arr a[3]!).toList.mapM decArg
      let kw ← (← arr a[4]!).toList.mapM (fun it => do
        let p ← arr it
        pure ((← str p[0]!), (← decArg p[1]!)))
      pure (encOutcome encCond (Dsl.call Arg.lit cls name pos kw))
  | "to_json" => do
      let c ← decCond a[1]!
      pure (encOutcome encVal (condToJson c))
  | "to_part_specs" => do
      let p ← decPath a[1]!
      pure (encOutcome (fun (xs : List PyVal) => encVal (.list xs)) (toPartSpecs p))
  | "rule_to_json" => do
      let r ← decRule a[1]!
      pure (encOutcome encVal (ruleToJson r))
  | "schema_to_json" => do
      let rs ← (← arr a[1]!).toList.mapM decRule
      pure (encOutcome encVal (schemaToJson rs))
  | "eq_cond" => do
      pure (Json.bool (condEq (← decCond a[1]!) (← decCond a[2]!)))
  | "eq_part" => do
      pure (Json.bool (partEq (← decPart a[1]!) (← decPart a[2]!)))
  | "eq_path" => do
      pure (Json.bool (pathEq (← decPath a[1]!) (← decPath a[2]!)))
  | "eq_rule" => do
      pure (Json.bool (ruleEq (← decRule a[1]!) (← decRule a[2]!)))
  | "add_schema" => do
      -- [S rules (applied order), [[T rules, root path], ...]]: S after each call
      let s0 ← (← arr a[1]!).toList.mapM decRule
      let calls ← (← arr a[2]!).toList.mapM (fun it => do
        let p ← arr it
        pure ((← (← arr p[0]!).toList.mapM decRule), (← decPath p[1]!)))
      let (_, outs) := calls.foldl (fun (acc : List RuleM × List Json) (c : List RuleM × Path) =>
        let s' := addSchema acc.1 c.1 c.2
        (s', acc.2 ++ [Json.arr (s'.map encRule).toArray])) (Schema.mk' s0, [])
      pure (Json.arr outs.toArray)
  | "tree" => do
      let rules ← (← arr a[1]!).toList.mapM decTRule
      let fromStr ← strList a[2]!
      let fl ← optStr a[3]!
      let fd ← optStr a[4]!
      match toTreeFlat rules fromStr fl fd with
      | .ok flat => pure (Json.arr #["ok", Json.mkObj [("flat", .arr (flat.map encTItem).toArray),
                                                         ("nested", .arr ((toTreeNested flat).map encTNode).toArray)]])
      | .error e => pure (encExc e)
  | "html" => do
      let nodes ← (← arr a[1]!).toList.mapM decHNode
      let anchor ← str a[2]!
      let headStart ← nat a[3]!
      let showRoot ← bool a[4]!
      let toks := writeTree 100000 nodes none anchor headStart showRoot 0
      pure (Json.mkObj [("html", .str (renderToks toks)), ("dyck", .bool (dyck [] toks))])
  | "mkpart" => do
      let kind ← decPartKind (← str a[1]!)
      let key ← decDatumSpec a[2]!
      let index ← decDatumSpec a[3]!
      let value ← decDatumSpec a[4]!
      let lc ← decOptCond a[5]!
      let mc ← decOptCond a[6]!
      let c ← decOptCond a[7]!
      let label ← decOptVal a[8]!
      let r := match kind with
        | .map => Part.mkMap key value c label
        | .list => Part.mkList index value c label
        | .molv => Part.mkMolv key index value lc mc c label
      pure (encOutcome encPart r)
  | "mkpath" => do
      let args ← (← arr a[1]!).toList.mapM (fun it => do
        let p ← arr it
        match ← str p[0]! with
        | "prim" => do pure (PartArg.prim (← decVal p[1]!))
        | "part" => do pure (PartArg.part (← decPart p[1]!))
        | t => throw s!"bad part arg {t}")
      pure (encOutcome encPath (Path.mk' args))
  | "get" => do
      let p ← decPath a[1]!
      let doc ← decOptVal a[2]!
      let rp ← bool a[3]!
      pure (encOutcome encVal (p.getData doc rp))
  | "test" => do
      let r ← decRule a[1]!
      let doc ← decVal a[2]!
      pure (encOutcome encRuleTest (r.testAlone doc))
  | "validate" => do
      let rules ← (← arr a[1]!).toList.mapM decRule
      let doc ← decVal a[2]!
      let sorted := sortWithIdx rules
      let r := validate (sorted.map (·.2)) doc
      pure (encOutcome (fun (v : Validated) => Json.mkObj [
        ("order", encNats (sorted.map (·.1))),
        ("tests", .arr (v.tests.map encRuleTest).toArray),
        ("cast_data", encVal v.castData),
        ("is_valid", .bool v.isValid), ("num_failures", .num v.numFailures),
        ("num_rules_tested", .num v.numRulesTested)]) r)
  | "repr" => do
      let v ← decVal a[1]!
      pure (encOutcome (fun (s : String) => Json.str s) (Repr.pyRepr v))
  | "cond_repr" => do
      let c ← decCond a[1]!
      match c with
      | .leaf l => pure (encOutcome (fun (s : String) => Json.str s) (Repr.leafRepr l))
      | _ => throw "cond_repr: leaf expected"
  | "type_fmt" => do
      let cs ← (← arr a[1]!).toList.mapM decCond
      let ls ← cs.mapM (fun c => match c with
        | Cond.leaf l => pure l
        | _ => throw "type_fmt: leaf expected")
      pure (encOutcome (fun (s : String) => Json.str s) (TypeFmt.format ls))
  | "report" => do
      let rules ← (← arr a[1]!).toList.mapM decRule
      let doc ← decVal a[2]!
      let sorted := (sortWithIdx rules).map (·.2)
      let r : Except Exc (String × List String) := do
        let v ← validate sorted doc
        let whole ← guardMarker (Report.report rhoD kappaD sorted v)
        let texts ← Report.allTexts kappaD sorted v.tests
        let each ← (List.zipWith (fun t x => guardMarker (.ok (Report.ruleReport rhoD t x))) v.tests texts).mapM id
        pure (whole, each)
      pure (encOutcome (fun (x : String × List String) => Json.mkObj [
        ("report", .str x.1), ("rule_reports", .arr (x.2.map Json.str).toArray)]) r)
  | op => throw s!"unknown op {op}"

partial def loop (hIn : IO.FS.Stream) (hOut : IO.FS.Stream) : IO Unit := do
  let line ← hIn.getLine
  if line.isEmpty then return ()
  let resp : Json :=
    match Json.parse line with
    | .error e => Json.mkObj [("driver_error", .str s!"parse: {e}")]
    | .ok j =>
      match handle j with
      | .ok r => r
      | .error e => Json.mkObj [("driver_error", .str e)]
  hOut.putStrLn resp.compress
  loop hIn hOut

def main : IO Unit := do
  let hIn ← IO.getStdin
  let hOut ← IO.getStdout
  loop hIn hOut
  hOut.flush
