/-
  Audit: `lake env lean --run tools/Audit.lean <Module> <Prefix>`
  Loads the compiled module, lists every theorem declared in it whose name (last component)
  starts with <Prefix>, and prints the axioms each depends on, as one JSON object.
-/
import Lean
open Lean

def main (args : List String) : IO UInt32 := do
  let modName := args[0]!.toName
  let pref := args[1]!
  initSearchPath (← findSysroot)
  let env ← importModules #[{ module := modName }] {}
  let some modIdx := env.getModuleIdx? modName
    | IO.eprintln s!"module {modName} not found"; return 2
  let mut out : Array (String × Json) := #[]
  let names := env.constants.fold (init := #[]) fun acc n ci =>
    match env.getModuleIdxFor? n with
    | some i => if i == modIdx && (match ci with | .thmInfo _ => true | _ => false) then acc.push n else acc
    | none => acc
  for n in names.qsort (fun a b => a.toString < b.toString) do
    let last := match n with | .str _ s => s | _ => ""
    if last.startsWith pref then
      let (axs, _) ← (collectAxioms n : CoreM (Array Name)).toIO
        { fileName := "<audit>", fileMap := default } { env := env }
      out := out.push (n.toString, Json.arr (axs.map (fun a => Json.str a.toString)))
  IO.println (Json.mkObj out.toList).compress
  return 0
