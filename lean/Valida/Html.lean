/-
  Valida.Html — `write_tree_html` (valida/schema.py) as a token stream and its rendering.

  All texts (`str()` of keys, type texts, the condition's `str()`, doc paragraphs) are inputs.
  `html.escape` is the five-character replacement; the back-tick rewriting
  ``re.sub(r"`(.*?)`", r"<code>\1</code>", …)`` is an explicit scanner (`.` does not match a newline).
-/
import Valida.Py.Ops
namespace Valida

inductive Tok
  | op (tag : String) (attrs : String)     -- `<tag attrs>`
  | cl (tag : String)                       -- `</tag>`
  | esc (s : String)                        -- schema-supplied text, already passed through `html.escape`
  | fixed (s : String)                      -- literal text of the template
  | raw (s : String)                        -- caller-supplied text inserted as it is (the anchor root)
  deriving Repr, Inhabited, DecidableEq

def escapeChar (c : Char) : List Char :=
  if c == '&' then "&amp;".toList else if c == '<' then "&lt;".toList else if c == '>' then "&gt;".toList
  else if c == '"' then "&quot;".toList else if c == '\'' then "&#x27;".toList else [c]

/-- `html.escape(s)` (quote=True) -/
def htmlEscapeL (cs : List Char) : List Char := cs.flatMap escapeChar
def htmlEscape (s : String) : String := String.ofList (htmlEscapeL s.toList)

/-- position of the next back-tick and whether a newline lies before it -/
def nextTick : List Char → Nat → Bool → Option (Nat × Bool)
  | [], _, _ => none
  | c :: rest, n, nl => if c == '`' then some (n, nl) else nextTick rest (n + 1) (nl || c == '\n')

/-- tokens of an (already escaped) paragraph: `` `x` `` becomes `<code>x</code>` -/
def codeScanFuel : Nat → List Char → List Char → List Tok
  | 0, acc, cs => [Tok.esc (String.ofList (acc.reverse ++ cs))]
  | _ + 1, acc, [] => if acc.isEmpty then [] else [Tok.esc (String.ofList acc.reverse)]
  | fuel + 1, acc, c :: rest =>
      if c == '`' then
        match nextTick rest 0 false with
        | some (j, false) =>
            (if acc.isEmpty then [] else [Tok.esc (String.ofList acc.reverse)]) ++
            [Tok.op "code" "", Tok.esc (String.ofList (rest.take j)), Tok.cl "code"] ++
            codeScanFuel fuel [] (rest.drop (j + 1))
        | some (j, true) =>
            -- no match starting here: the text up to the next back-tick is literal, try again from there
            codeScanFuel fuel ((rest.take j).reverse ++ (c :: acc)) (rest.drop j)
        | none => [Tok.esc (String.ofList (acc.reverse ++ (c :: rest)))]
      else codeScanFuel fuel (c :: acc) rest

def codeScan (s : String) : List Tok := codeScanFuel (s.length + 1) [] s.toList

inductive PathElem
  | bareMap
  | bareList
  | text (s : String)
  deriving Repr, Inhabited

structure HtmlNode where
  path : List PathElem
  pathStr : String                     -- `str(child["path"])`
  typeInfoInParent : Bool
  typeFmt : String                     -- "" when absent / falsy
  keyTypeFmt : String
  mapValFmt : String
  listValFmt : String
  required : Bool
  condStr : String
  hasDoc : Bool
  description : List String
  examples : List String
  children : Option (List HtmlNode)       -- `"children" in child`
  deriving Inhabited

def intercalateS (sep : String) (xs : List String) : String := String.intercalate sep xs

def spanNull (txt : String) : List Tok :=
  [Tok.op "span" "class=\"valida-tree null-condition-path-elem\"", Tok.fixed txt, Tok.cl "span"]

/-- display tokens, section-id text and title text of one path element -/
def elemParts : PathElem → List Tok × String × String
  | .bareMap => (spanNull "[map-value]", "%5Bmap-value%5D", "[map-value]")
  | .bareList => (spanNull "[list-value]", "%5Blist-value%5D", "[list-value]")
  | .text s => ([Tok.esc (htmlEscape s)], htmlEscape s, htmlEscape s)

mutual
/-- the tokens of `write_tree_html(nested_tree, _path, anchor_root, heading_start_level, show_root_heading, _depth)` -/
def writeTree (fuel : Nat) (nodes : List HtmlNode) (parentPath : Option String) (anchor : String)
    (headStart : Nat) (showRoot : Bool) (depth : Nat) : List Tok :=
  match fuel with
  | 0 => []
  | fuel + 1 =>
    let childrenToks := writeChildren fuel nodes parentPath anchor headStart showRoot depth
    if childrenToks.isEmpty then [] else
      let top := if parentPath.isNone then " top-level-node" else ""
      [Tok.op "div" ("class=\"valida-tree node" ++ top ++ "\" data-node-path=\"" ++ htmlEscape (parentPath.getD "") ++ "\"")] ++
        childrenToks ++ [Tok.cl "div"]

def writeChildren (fuel : Nat) (nodes : List HtmlNode) (parentPath : Option String) (anchor : String)
    (headStart : Nat) (showRoot : Bool) (depth : Nat) : List Tok :=
  match nodes with
  | [] => []
  | child :: rest =>
    let restToks := writeChildren fuel rest parentPath anchor headStart showRoot depth
    let noChildren := match child.children with | none => true | some cs => cs.isEmpty
    if child.typeInfoInParent && noChildren then restToks else
    let parts := child.path.map elemParts
    let anchorL := if anchor.isEmpty then [] else [anchor]
    let secId := "vld-" ++ intercalateS "-" (anchorL ++ parts.map (·.2.1))
    let title := intercalateS " → " (anchorL ++ parts.map (·.2.2))
    let lastDisp : Option (List Tok) :=
      match parts.getLast? with
      | some p => some p.1
      | none => if anchor.isEmpty then none else some [Tok.raw anchor]
    let heading : List Tok :=
      match lastDisp with
      | none => []
      | some disp =>
          if depth > 0 || showRoot then
            let h := "h" ++ toString (headStart + depth)
            [Tok.op "div" "class=\"valida-tree path-name\"", Tok.op h ("title=\"" ++ title ++ "\"")] ++ disp ++
              [Tok.op "a" ("class=\"headerlink\" href=\"#" ++ secId ++ "\""), Tok.fixed "#", Tok.cl "a", Tok.cl h, Tok.cl "div"]
          else []
    let typeLine : List Tok :=
      if child.typeFmt.isEmpty then [] else
        [Tok.op "span" "class=\"valida-tree type-name\"", Tok.fixed "type: ", Tok.esc (htmlEscape child.typeFmt), Tok.cl "span"] ++
        (if child.keyTypeFmt.isEmpty then [] else
          [Tok.fixed " ", Tok.op "span" "class=\"valida-tree key-type-name\"", Tok.fixed "(key: ", Tok.esc (htmlEscape child.keyTypeFmt), Tok.fixed ")", Tok.cl "span"]) ++
        (if child.mapValFmt.isEmpty then [] else
          [Tok.fixed " ", Tok.op "span" "class=\"valida-tree map-val-type-name\"", Tok.fixed "(value: ", Tok.esc (htmlEscape child.mapValFmt), Tok.fixed ")", Tok.cl "span"]) ++
        (if child.listValFmt.isEmpty then [] else
          [Tok.fixed " ", Tok.op "span" "class=\"valida-tree list-type-name\"", Tok.fixed "(of: ", Tok.esc (htmlEscape child.listValFmt), Tok.fixed ")", Tok.cl "span"])
    let reqLine : List Tok :=
      if parentPath.isSome then
        [Tok.op "span" "class=\"valida-tree required-name\"", Tok.fixed (if child.required then "required" else "optional"), Tok.cl "span"]
      else []
    let sep : List Tok := if typeLine.isEmpty || reqLine.isEmpty then [] else [Tok.fixed ", "]
    let docToks : List Tok :=
      if child.hasDoc then
        child.description.flatMap (fun p =>
          [Tok.op "p" "class=\"valida-tree doc\""] ++ codeScan (htmlEscape p) ++ [Tok.cl "p"]) ++
        child.examples.flatMap (fun p =>
          [Tok.op "p" "class=\"valida-tree doc-example\"", Tok.op "span" "class=\"valida-tree doc-example-name\"",
           Tok.fixed "Example: ", Tok.cl "span"] ++ codeScan (htmlEscape p) ++ [Tok.cl "p"])
      else []
    let sub : List Tok :=
      match child.children with
      | some cs => writeTree fuel cs (some child.pathStr) anchor headStart showRoot (depth + 1)
      | none => []
    [Tok.op "div" "class=\"valida-tree node-child\"", Tok.op "section" ("class=\"valida-tree-section\" id=\"" ++ secId ++ "\"")] ++
      heading ++
      [Tok.op "div" "class=\"valida-tree node-info\"", Tok.op "div" "class=\"valida-tree node-metadata\""] ++
      typeLine ++ sep ++ reqLine ++
      [Tok.op "div" "class=\"valida-tree condition\"", Tok.fixed "Condition: ", Tok.op "code" "", Tok.esc (htmlEscape child.condStr),
       Tok.cl "code", Tok.cl "div", Tok.cl "div"] ++
      docToks ++ [Tok.cl "div"] ++ sub ++ [Tok.cl "section", Tok.cl "div"] ++ restToks
end

def Tok.render : Tok → String
  | .op tag attrs => "<" ++ tag ++ (if attrs.isEmpty then "" else " " ++ attrs) ++ ">"
  | .cl tag => "</" ++ tag ++ ">"
  | .esc s => s
  | .fixed s => s
  | .raw s => s

def renderToks (ts : List Tok) : String := String.join (ts.map Tok.render)

/-- well-formedness: every tag closed, in order -/
def dyck : List String → List Tok → Bool
  | stack, [] => stack.isEmpty
  | stack, .op tag _ :: rest => dyck (tag :: stack) rest
  | stack, .cl tag :: rest =>
      match stack with
      | t :: stack' => t == tag && dyck stack' rest
      | [] => false
  | stack, _ :: rest => dyck stack rest

end Valida
