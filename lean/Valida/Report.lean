/-
  Valida.Report — the textual failure report: `FilteredDataLike.get_failure_by_index`
  (valida/data.py), `RuleTest.get_failures_string` (valida/rules.py) and
  `ValidatedData.get_failures_string` (valida/schema.py).

  The two `repr` functions are parameters: `ρ` for values and concrete paths, `κ` for a single
  condition.  (`Valida.Repr` provides the instances the correspondence check uses.)
  Every piece of literal text comes from `ValidaGen.ReportFmt`, regenerated from the three functions
  on every run (their shape is checked against the recorded skeleton by the translator).
-/
import Valida.Rule
import ValidaGen.ReportFmt
namespace Valida
namespace Report
open ValidaGen.ReportFmt

/-- `err_msg.format(cnd_name)` -/
def reasonText (r : FD.Reason) (name : String) : String :=
  match r with
  | .preErr => msgPreErr.1 ++ name ++ msgPreErr.2
  | .cErr => msgCErr.1 ++ name ++ msgCErr.2
  | .cFalse => msgCFalse.1 ++ name ++ msgCFalse.2

/-- `if cnd_name in ("and", "or"): continue` -/
def skipped (name : String) : Bool := name == skipRowA || name == skipRowB

/-- `get_failure_by_index(idx)`: the truth-table rows in order (a leaf's row is named by its
    `repr`, a binary node's by its symbol and placed after its children; `and` / `or` rows are
    skipped), each giving the text of the first of the three tables that holds for the item. -/
def namedReasonsAt (κ : Leaf Arg → String) (idx : Nat) : Cond Arg → FD → List String
  | .leaf l, .leaf _ _ flags =>
      if skipped (κ l) then [] else
      match flags[idx]? with
      | some f => (FD.pick f.preErr f.cErr f.cFalse).map (fun r => reasonText r (κ l))
      | none => []
  | .bin _ a b, .bin op fa fb =>
      namedReasonsAt κ idx a fa ++ namedReasonsAt κ idx b fb ++
        (if !skipped op.symbol then
          (FD.pick ((FD.bin op fa fb).preErr.getD idx false) ((FD.bin op fa fb).cErr.getD idx false)
                   ((FD.bin op fa fb).cFalse.getD idx false)).map (fun r => reasonText r op.symbol)
         else [])
  | _, _ => []

/-- the reason texts of every failure of a rule test, recomputed from `rule_test.filter` (the
    filter of the rule's condition over what its path selects in the judged document) -/
def reasonTextsOf (κ : Leaf Arg → String) (r : RuleM) (t : RuleTestR) : Except Exc (List (List String)) :=
  if t.failures.isEmpty then pure [] else do
    match ← selection r.path t.data with
    | none => throw .unmodelled
    | some sub =>
        let d ← DataV.ofPy (.list sub)
        let c := r.cond.resolve (some t.data)
        let (fd, _, _) ← filterAux c d true
        pure (t.failures.map (fun f => namedReasonsAt κ f.index r.cond fd))

/-- one failure item of `RuleTest.get_failures_string` -/
def failureText (ρ : PyVal → String) (f : Failure) (reasons : List String) : String :=
  failPathPrefix ++ ρ f.path ++ failValuePrefix ++ ρ f.value ++ failReasonsHeader ++
    String.join (reasons.map (fun r => reasonPrefix ++ r ++ reasonSuffix))

/-- `RuleTest.get_failures_string()` -/
def ruleReport (ρ : PyVal → String) (t : RuleTestR) (texts : List (List String)) : String :=
  ruleOutInit ++ (if t.failures.isEmpty then ruleValidMsg else "") ++
    String.join (List.zipWith (failureText ρ) t.failures texts)

/-- `"-" * n` -/
def dashes (n : Nat) : String := String.join (List.replicate n underlineChar)

/-- the section of one rule test in `ValidatedData.get_failures_string()` (`idx` counts from 1) -/
def section_ (ρ : PyVal → String) (idx : Nat) (t : RuleTestR) (texts : List (List String)) : String :=
  if t.isValid then "" else
    let msg := sectionPrefix ++ toString idx
    msg ++ sectionTitleEnd ++ dashes msg.length ++ underlineEnd ++ ruleReport ρ t texts ++ sectionEnd

def sections (ρ : PyVal → String) : Nat → List RuleTestR → List (List (List String)) → List String
  | idx, t :: ts, x :: xs => section_ ρ idx t x :: sections ρ (idx + 1) ts xs
  | _, _, _ => []

def testedMsg (v : Validated) (nRules : Nat) : String :=
  toString v.numRulesTested ++ testedSep ++ toString nRules ++ testedSuffix

/-- `ValidatedData.get_failures_string()` given the reason texts of every rule test -/
def reportWith (ρ : PyVal → String) (v : Validated) (nRules : Nat) (texts : List (List (List String))) : String :=
  if v.isValid then repOutInit ++ validPrefix ++ testedMsg v nRules ++ validSuffix
  else
    repOutInit ++ toString v.numFailures ++ headerRule ++ (if v.numFailures > 1 then headerPlural else headerSingular) ++
      headerFailed ++ testedMsg v nRules ++ headerSuffix ++
      String.join (sections ρ 1 v.tests texts)

def allTexts (κ : Leaf Arg → String) : List RuleM → List RuleTestR → Except Exc (List (List (List String)))
  | r :: rs, t :: ts => do
      let x ← reasonTextsOf κ r t
      let xs ← allTexts κ rs ts
      pure (x :: xs)
  | _, _ => pure []

/-- `schema.validate(doc).get_failures_string()` for the validation `v` of the rules `rules` -/
def report (ρ : PyVal → String) (κ : Leaf Arg → String) (rules : List RuleM) (v : Validated) : Except Exc String := do
  let texts ← allTexts κ rules v.tests
  pure (reportWith ρ v rules.length texts)

end Report
end Valida
