/-
  Valida.Codec — JSON encoding of model terms for the line protocol (DESIGN.md App. A).
  Not part of the verified model: only used by the driver.
-/
import Lean.Data.Json
import Valida.Rule
namespace Valida.Codec
open Lean (Json)
open Valida

abbrev P := Except String

def arr (j : Json) : P (Array Json) :=
  match j with
  | .arr a => pure a
  | _ => throw s!"expected array, got {j.compress}"

def str (j : Json) : P String :=
  match j with
  | .str s => pure s
  | _ => throw s!"expected string, got {j.compress}"

def bool (j : Json) : P Bool :=
  match j with
  | .bool b => pure b
  | _ => throw s!"expected bool, got {j.compress}"

def nat (j : Json) : P Nat :=
  match j with
  | .num n => if n.exponent == 0 && n.mantissa ≥ 0 then pure n.mantissa.toNat else throw "expected nat"
  | _ => throw s!"expected number, got {j.compress}"

def intOfString (s : String) : P Int :=
  match s.toInt? with
  | some n => pure n
  | none => throw s!"bad integer {s}"

def pyTypeOfName (s : String) : P PyType :=
  match s with
  | "NoneType" => pure .none | "bool" => pure .bool | "int" => pure .int | "float" => pure .float
  | "str" => pure .str | "list" => pure .list | "tuple" => pure .tuple | "dict" => pure .dict
  | "path" => pure .path | "type" => pure .type | "obj" => pure .obj
  | _ => throw s!"unknown type name {s}"

def pyTypeName : PyType → String
  | .none => "NoneType" | .bool => "bool" | .int => "int" | .float => "float" | .str => "str"
  | .list => "list" | .tuple => "tuple" | .dict => "dict" | .path => "path" | .type => "type"
  | .obj => "obj"

partial def decVal (j : Json) : P PyVal := do
  let a ← arr j
  let tag ← str (a[0]!)
  match tag with
  | "n" => pure .none
  | "b" => pure (.bool (← bool a[1]!))
  | "i" => pure (.int (← intOfString (← str a[1]!)))
  | "f" => pure (.float (← intOfString (← str a[1]!)))
  | "s" => pure (.str (← str a[1]!))
  | "l" => pure (.list (← (← arr a[1]!).toList.mapM decVal))
  | "t" => pure (.tuple (← (← arr a[1]!).toList.mapM decVal))
  | "d" => do
      let items ← arr a[1]!
      let kvs ← items.toList.mapM (fun it => do
        let p ← arr it
        pure ((← decVal p[0]!), (← decVal p[1]!)))
      pure (.dict kvs)
  | "T" => pure (.type (← pyTypeOfName (← str a[1]!)))
  | "o" => pure (.obj (← nat a[1]!))
  | _ => throw s!"unknown value tag {tag}"

partial def encVal : PyVal → Json
  | .none => .arr #["n"]
  | .bool b => .arr #["b", .bool b]
  | .int n => .arr #["i", .str (toString n)]
  | .float k => .arr #["f", .str (toString k)]
  | .str s => .arr #["s", .str s]
  | .list xs => .arr #["l", .arr (xs.map encVal).toArray]
  | .tuple xs => .arr #["t", .arr (xs.map encVal).toArray]
  | .dict kvs => .arr #["d", .arr (kvs.map (fun kv => Json.arr #[encVal kv.1, encVal kv.2])).toArray]
  | .type t => .arr #["T", .str (pyTypeName t)]
  | .obj n => .arr #["o", .num n]

def excName : Exc → String
  | .typeError => "TypeError" | .attributeError => "AttributeError"
  | .zeroDivision => "ZeroDivisionError" | .valueError => "ValueError" | .overflow => "OverflowError"
  | .keyError => "KeyError" | .indexError => "IndexError" | .stopIteration => "StopIteration"
  | .recursion => "RecursionError" | .runtime => "RuntimeError" | .invalidCallable => "InvalidCallable"
  | .notImplemented => "NotImplementedError" | .unboundLocal => "UnboundLocalError"
  | .malformedCond => "MalformedConditionLikeSpec" | .malformedItem => "MalformedContainerItemSpec"
  | .malformedPath => "MalformedDataPathSpec" | .malformedRule => "MalformedRuleSpec"
  | .duplicateRule => "DuplicateRule" | .incompatibleRules => "IncompatibleRules"
  | .fmt => "FMT" | .unmodelled => "UNMODELLED"

def encExc (e : Exc) : Json := .arr #["exc", .str (excName e)]

def encOutcome {α} (f : α → Json) : Except Exc α → Json
  | .ok v => .arr #["ok", f v]
  | .error e => encExc e

def decClass (s : String) : P CClass :=
  match CClass.all.find? (fun c => c.name == s) with
  | some c => pure c
  | none => throw s!"unknown condition class {s}"

def decOp (s : String) : P BinOp :=
  match s with
  | "and" => pure .and | "or" => pure .or | "xor" => pure .xor
  | _ => throw s!"unknown operator {s}"

def decOptVal (j : Json) : P (Option PyVal) :=
  match j with
  | .null => pure none
  | _ => do pure (some (← decVal j))

partial def decCondWith {α} (decArg : Json → P α) (j : Json) : P (Cond α) := do
  let a ← arr j
  match ← str a[0]! with
  | "leaf" => do
      let cls ← decClass (← str a[1]!)
      let fn ← str a[2]!
      let args ← (← arr a[3]!).toList.mapM decArg
      let kws ← (← arr a[4]!).toList.mapM (fun it => do
        let p ← arr it
        pure ((← str p[0]!), (← decArg p[1]!)))
      pure (.leaf { cls := cls, fn := fn, args := args, kwargs := kws })
  | "bin" => do
      pure (.bin (← decOp (← str a[1]!)) (← decCondWith decArg a[2]!) (← decCondWith decArg a[3]!))
  | t => throw s!"unknown condition tag {t}"

/-- a literal argument inside a part's condition: `["lit", value]` (a data path there is opaque) -/
def decLitArg (j : Json) : P PyVal := do
  let a ← arr j
  match ← str a[0]! with
  | "lit" => decVal a[1]!
  | "path" => pure (.obj 0)
  | t => throw s!"unknown arg tag {t}"

def decPartKind (s : String) : P PartKind :=
  match s with
  | "map" => pure .map | "list" => pure .list | "molv" => pure .molv
  | _ => throw s!"unknown part kind {s}"

def decPart (j : Json) : P Part := do
  let a ← arr j
  pure { kind := ← decPartKind (← str a[1]!), cond := ← decCondWith decLitArg a[2]!,
         listCond := ← decCondWith decLitArg a[3]!, mapCond := ← decCondWith decLitArg a[4]!,
         label := ← decOptVal a[5]! }

def decDatumMod (s : String) : P DatumMod :=
  match s with
  | "NONE" => pure .none | "DTYPE" => pure .dtype | "LENGTH" => pure .length
  | "MAP_KEYS" => pure .mapKeys | "MAP_VALUES" => pure .mapValues
  | _ => throw s!"unknown datum type {s}"

def decMultiMod (s : String) : P MultiMod :=
  match s with
  | "NONE" => pure .none | "FIRST" => pure .first | "LAST" => pure .last | "SINGLE" => pure .single
  | "ALL" => pure .all | "ANY" => pure .any
  | _ => throw s!"unknown multi type {s}"

def decPath (j : Json) : P Path := do
  let a ← arr j
  pure { parts := ← (← arr a[1]!).toList.mapM decPart, concrete := ← bool a[2]!,
         datum := ← decDatumMod (← str a[3]!), multi := ← decMultiMod (← str a[4]!),
         source := ← decOptVal a[5]! }

def decArg (j : Json) : P Arg := do
  let a ← arr j
  match ← str a[0]! with
  | "lit" => do pure (.lit (← decVal a[1]!))
  | "path" => do pure (.path (← decPath a[1]!))
  | t => throw s!"unknown arg tag {t}"

def decCond (j : Json) : P (Cond Arg) := decCondWith decArg j
def decCondLit (j : Json) : P (Cond PyVal) := decCondWith decLitArg j

def decRule (j : Json) : P RuleM := do
  let a ← arr j
  let casts ← (← arr a[3]!).toList.mapM (fun it => do
    let p ← arr it
    pure ((← pyTypeOfName (← str p[0]!)), (← str p[1]!)))
  pure { path := ← decPath a[1]!, cond := ← decCond a[2]!, cast := casts }

/-! encoders of results -/

def encBools (bs : List Bool) : Json := .arr (bs.map Json.bool).toArray
def encVals (vs : List PyVal) : Json := .arr (vs.map encVal).toArray
def encNats (ns : List Nat) : Json := .arr (ns.map (fun (n : Nat) => Json.num n)).toArray

def encReason : FD.Reason → Json
  | .preErr => "pre" | .cErr => "err" | .cFalse => "false"

partial def encCondWith {α} (encArg : α → Json) : Cond α → Json
  | .leaf l => .arr #["leaf", .str l.cls.name, .str l.fn, .arr (l.args.map encArg).toArray,
      .arr (l.kwargs.map (fun kv => Json.arr #[.str kv.1, encArg kv.2])).toArray]
  | .bin op a b => .arr #["bin", .str op.symbol, encCondWith encArg a, encCondWith encArg b]

def encLitArg (v : PyVal) : Json := .arr #["lit", encVal v]
def encCondLit (c : Cond PyVal) : Json := encCondWith encLitArg c

def encOptVal : Option PyVal → Json
  | none => .null
  | some v => encVal v

def encPart (p : Part) : Json :=
  .arr #["part", .str (match p.kind with | .map => "map" | .list => "list" | .molv => "molv"),
         encCondLit p.cond, encCondLit p.listCond, encCondLit p.mapCond, encOptVal p.label]

def encDatumMod : DatumMod → String
  | .none => "NONE" | .dtype => "DTYPE" | .length => "LENGTH" | .mapKeys => "MAP_KEYS" | .mapValues => "MAP_VALUES"
def encMultiMod : MultiMod → String
  | .none => "NONE" | .first => "FIRST" | .last => "LAST" | .single => "SINGLE" | .all => "ALL" | .any => "ANY"

def encPath (p : Path) : Json :=
  .arr #["path", .arr (p.parts.map encPart).toArray, .bool p.concrete, .str (encDatumMod p.datum),
         .str (encMultiMod p.multi), encOptVal p.source]

def encArg : Arg → Json
  | .lit v => .arr #["lit", encVal v]
  | .path p => .arr #["path", encPath p]

def encCond (c : Cond Arg) : Json := encCondWith encArg c

def encRule (r : RuleM) : Json :=
  .arr #["rule", encPath r.path, encCond r.cond,
         .arr (r.cast.map (fun tf => Json.arr #[.str (pyTypeName tf.1), .str tf.2])).toArray]

end Valida.Codec
