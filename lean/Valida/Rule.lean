/-
  Valida.Rule — rules, rule tests, casts, schemas and validation
  (valida/rules.py `Rule.test`, `RuleTest._test`; valida/schema.py `Schema.__init__`,
  `add_schema`, `ValidatedData`; valida/casting.py via ValidaGen.Casting).
-/
import Valida.Path
import ValidaGen.Casting
namespace Valida
open ValidaGen

/-- a condition argument of a rule's condition: a literal or a data path -/
inductive Arg
  | lit (v : PyVal)
  | path (p : Path)
  deriving Repr, Inhabited

/-- `_get_resolved_data_path_args`: without source data the path object itself is passed on -/
def resolveArg (source : Option PyVal) : Arg → RArg
  | .lit v => .ok v
  | .path p =>
      match source with
      | none => .ok (.obj 0)
      | some s => p.getData (some s) false

def Cond.resolve (source : Option PyVal) (c : Cond Arg) : Cond RArg := c.mapArgs (resolveArg source)

/-! ### casts -/

def isAsciiDigit (c : Char) : Bool := '0' ≤ c && c ≤ '9'

/-- digits with single underscores between digits -/
def digitsVal : List Char → Bool → Nat → Option Nat
  | [], lastDigit, acc => if lastDigit then some acc else none
  | c :: rest, lastDigit, acc =>
      if isAsciiDigit c then digitsVal rest true (acc * 10 + (c.toNat - '0'.toNat))
      else if c == '_' && lastDigit && !rest.isEmpty then digitsVal rest false acc
      else none

def isPyAsciiSpace (c : Char) : Bool :=
  c == ' ' || c == '\t' || c == '\n' || c == '\r' || c == '\x0b' || c == '\x0c'
  || c == '\x1c' || c == '\x1d' || c == '\x1e' || c == '\x1f'

/-- the blanks `int()` skips around an ASCII literal: unlike `str.strip()` not the four separators
    `\x1c`–`\x1f` (`int("1\x1f")` is a `ValueError`) -/
def isIntSpace (c : Char) : Bool :=
  c == ' ' || c == '\t' || c == '\n' || c == '\r' || c == '\x0b' || c == '\x0c'

/-- `sys.get_int_max_str_digits()`: `int(str)` refuses more digits (CPython ≥ 3.11) -/
def intMaxStrDigits : Nat := 4300

/-- `int(s)` for an ASCII string (`unmodelled` outside ASCII, where Unicode digits and spaces
    would also be accepted) -/
def pyIntOfStr (s : String) : R :=
  let cs := s.toList
  if cs.any (fun c => c.toNat ≥ 128) then .error .unmodelled else
  if (cs.filter isAsciiDigit).length > intMaxStrDigits then .error .valueError else
  let cs := (cs.dropWhile isIntSpace).reverse.dropWhile isIntSpace |>.reverse
  let (neg, ds) := match cs with
    | '-' :: r => (true, r)
    | '+' :: r => (false, r)
    | r => (false, r)
  match ds with
  | [] => .error .valueError
  | c :: _ =>
    if !isAsciiDigit c then .error .valueError else
    match digitsVal ds false 0 with
    | some n => .ok (.int (if neg then -(Int.ofNat n) else Int.ofNat n))
    | none => .error .valueError

/-- `cast_string_to_bool(s)` (branches and the final raise generated from casting.py) -/
def castStringToBool (s : String) : R :=
  let low := String.ofList (s.toList.map Char.toLower)
  match castStringToBoolBranches.find? (fun br => br.1 == low) with
  | some br => .ok (.bool br.2)
  | none => .error castStringToBoolElse

/-- apply the cast function named `fn` -/
def applyCast (fn : String) (v : PyVal) : R :=
  match v with
  | .str s =>
      if fn == "cast_string_to_bool" then castStringToBool s
      else if fn == "int" then pyIntOfStr s
      else .error .unmodelled
  | _ => .error .unmodelled

/-- the `for k, v in self.cast.items()` loop of `Rule.test` for one node: `some v'` if a cast
    applied and succeeded (then the loop breaks) -/
def castNode (casts : List (PyType × String)) (v : PyVal) : Except Exc (Option PyVal) :=
  match casts with
  | [] => .ok none
  | (t, fn) :: rest =>
      if PyVal.instOf v t then
        match applyCast fn v with
        | .ok v' => .ok (some v')
        | .error e => if caughtBy catchesCast e then castNode rest v else .error e
      else castNode rest v

/-- `parent[key] = v` -/
def setItem (c key v : PyVal) : R :=
  match c with
  | .dict kvs =>
      if !PyVal.hashable key then .error .typeError
      else if Py.dictHasKey key kvs then
        .ok (.dict (kvs.map (fun kv => if PyVal.pyEq key kv.1 then (kv.1, v) else kv)))
      else .ok (.dict (kvs ++ [(key, v)]))
  | .list xs =>
      match Py.asInt key with
      | some i =>
          let n : Int := xs.length
          let j := if i < 0 then i + n else i
          if 0 ≤ j && j < n then .ok (.list (xs.set j.toNat v)) else .error .indexError
      | none => .error .typeError
  | _ => .error .typeError

/-- `parent = data_copy; for key in path[:-1]: parent = parent[key]; parent[path[-1]] = v`
    as a functional update -/
def setAt (doc : PyVal) (path : List PyVal) (v : PyVal) : R :=
  match path with
  | [] => .ok doc
  | [k] => setItem doc k v
  | k :: rest => do
      let child ← Py.getItem doc k
      let child' ← setAt child rest v
      setItem doc k child'

structure RuleM where
  path : Path
  cond : Cond Arg
  cast : List (PyType × String)
  deriving Repr, Inhabited

structure Failure where
  index : Nat
  value : PyVal
  path : PyVal
  reasons : List FD.Reason
  deriving Repr

structure RuleTestR where
  tested : Bool
  isValid : Bool
  failures : List Failure
  /-- the document the rule was judged on -/
  data : PyVal
  deriving Repr

/-- `[sub_data]` for a concrete path, `sub_data` otherwise, as a list of `(value, path)` tuples;
    `none` when `sub_data in [None, []]` -/
def selection (p : Path) (doc : PyVal) : Except Exc (Option (List PyVal)) := do
  if p.datum != .none || p.multi != .none then throw .unmodelled
  let sub ← p.getData (some doc) true
  match sub with
  | .none => pure none
  | .list [] => pure none
  | .list xs => if p.concrete then pure (some [sub]) else pure (some xs)
  | other => if p.concrete then pure (some [other]) else throw .unmodelled

/-- `RuleTest(rule, data)._test()` -/
def ruleTestOn (r : RuleM) (doc : PyVal) : Except Exc RuleTestR := do
  let _ ← DataV.ofPy doc
  match ← selection r.path doc with
  | none => pure { tested := false, isValid := true, failures := [], data := doc }
  | some sub =>
      let d ← DataV.ofPy (.list sub)
      let c := r.cond.resolve (some doc)
      kindCheck c d
      let (fd, d', paths) ← filterAux c d true
      let res := fd.result
      if res.all id then
        pure { tested := true, isValid := true, failures := [], data := doc }
      else
        let ps ← match paths with | some ps => pure ps | none => throw .unmodelled
        let fails ← (failureIndices res).mapM (fun i =>
          match d'.values[i]?, ps[i]? with
          | some v, some p => pure { index := i, value := v, path := p, reasons := fd.reasonsAt i : Failure }
          | _, _ => throw .indexError)
        pure { tested := true, isValid := false, failures := fails, data := doc }

/-- the cast loop of `Rule.test` over the selected nodes, writing into the private copy -/
def castLoop (casts : List (PyType × String)) : List PyVal → PyVal → R
  | [], copy => .ok copy
  | item :: rest, copy =>
      match item with
      | .tuple [v, .tuple path] => do
          match ← castNode casts v with
          | some v' =>
              let copy' ← if path.isEmpty then pure copy else setAt copy path v'
              castLoop casts rest copy'
          | none => castLoop casts rest copy
      | _ => .error .unmodelled

/-- where `Rule.test` looks the nodes to cast up: the document it was given (the generated flag
    `castSelectsInDocument`: `self.path.get_data(data, ...)`), else the working copy -/
def castSource (doc copy : PyVal) : PyVal := if castSelectsInDocument then doc else copy

theorem castSource_eq (doc copy : PyVal) : castSource doc copy = doc := by
  unfold castSource; rw [if_pos (by rfl : castSelectsInDocument = true)]

/-- `rule.test(data, _data_copy=copy)`: returns the rule test and the copy afterwards -/
def RuleM.test (r : RuleM) (doc : PyVal) (copy : PyVal) : Except Exc (RuleTestR × PyVal) := do
  let _ ← DataV.ofPy doc
  if r.cast.isEmpty then
    let t ← ruleTestOn r doc
    pure (t, copy)
  else
    let copy' ← match ← selection r.path (castSource doc copy) with
      | none => pure copy
      | some sub => castLoop r.cast sub copy
    let t ← ruleTestOn r copy'
    pure (t, copy')

/-- `Rule.test(data)` without a shared copy: `copy.deepcopy(data.get_original())` -/
def RuleM.testAlone (r : RuleM) (doc : PyVal) : Except Exc RuleTestR := do
  let (t, _) ← r.test doc doc
  pure t

/-! ### schemas -/

def ruleLe (a b : RuleM) : Bool := a.path.parts.length ≤ b.path.parts.length

/-- `Schema(rules)`: `sorted(rules, key=lambda i: len(i.path))` (stable) -/
def Schema.mk' (rules : List RuleM) : List RuleM := rules.mergeSort ruleLe

structure Validated where
  tests : List RuleTestR
  castData : PyVal
  deriving Repr

def validateLoop : List RuleM → PyVal → PyVal → Except Exc (List RuleTestR × PyVal)
  | [], _, copy => .ok ([], copy)
  | r :: rest, doc, copy => do
      let (t, copy') ← r.test doc copy
      let (ts, copy'') ← validateLoop rest doc copy'
      pure (t :: ts, copy'')

/-- `Schema.validate(data)` for a schema holding `rules` (already in applied order) -/
def validate (rules : List RuleM) (doc : PyVal) : Except Exc Validated := do
  let _ ← DataV.ofPy doc
  let (ts, copy) ← validateLoop rules doc doc
  pure { tests := ts, castData := copy }

def Validated.isValid (v : Validated) : Bool := v.tests.all (·.isValid)
def Validated.numFailures (v : Validated) : Nat := (v.tests.map (·.failures.length)).sum
def Validated.numRulesTested (v : Validated) : Nat := v.tests.countP (·.tested)

end Valida
