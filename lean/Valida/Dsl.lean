/-
  Valida.Dsl — calling a DSL constructor (`Value.in_range(1, 5)`, `Key.length.equal_to(3)` …):
  Python's argument binding against the constructor's signature, then the forwarding into
  `cls(call_funcs.X, …)` as described by the constructor tables generated from the source.
-/
import Valida.Cond
namespace Valida
open ValidaGen

/-- the constructors a class offers, aliases included (an alias is the same classmethod) -/
def ctorsOf (info : CondClassInfo) : List Ctor :=
  let own := (if info.general then generalCtors else []) ++ (if info.map then mapCtors else [])
  let als := (if info.general then generalAliases else []) ++ (if info.map then mapAliases else [])
  own ++ als.filterMap (fun (a : String × String) =>
    (own.find? (fun c => c.name == a.2)).map (fun c => { c with name := a.1 }))

/-- `getattr(Cls, name)` restricted to the DSL constructors -/
def findCtor (cls : CClass) (name : String) : Except Exc Ctor := do
  let info ← cls.info
  match (ctorsOf info).find? (fun c => c.name == name) with
  | some c => pure c
  | none => throw .attributeError

/-- bind the positional-or-keyword parameters: positional values first, then keywords, then
    defaults; every parameter exactly one value -/
def bindCtorParams {α : Type} (lit : PyVal → α) (defaults : List (String × PyVal)) :
    List String → List α → List (String × α) → Except Exc (List (String × α))
  | [], _, _ => .ok []
  | p :: ps, v :: vs, kw =>
      match lookupStr p kw with
      | some _ => .error .typeError
      | none => do pure ((p, v) :: (← bindCtorParams lit defaults ps vs kw))
  | p :: ps, [], kw =>
      match lookupStr p kw with
      | some v => do pure ((p, v) :: (← bindCtorParams lit defaults ps [] kw))
      | none =>
          match lookupStr p defaults with
          | some d => do pure ((p, lit d) :: (← bindCtorParams lit defaults ps [] kw))
          | none => .error .typeError

/-- `Cls.ctor(*pos, **kw)`: the stored positional and keyword arguments of the new condition -/
def buildLeaf {α : Type} (lit : PyVal → α) (cls : CClass) (c : Ctor) (pos : List α) (kw : List (String × α)) :
    Except Exc (Leaf α) := do
  let n := c.params.length
  if pos.length > n && c.varPos.isNone then throw .typeError
  let extraKw := kw.filter (fun kv => !c.params.contains kv.1)
  if !extraKw.isEmpty && c.varKw.isNone then throw .typeError
  -- a `**kwargs` name that is also a parameter the call passes through (`cls`, `self`, `callable`, `func`):
  -- "got multiple values for argument"
  if extraKw.any (fun kv => reservedKwNames.contains kv.1) then throw .typeError
  let bound ← bindCtorParams lit c.defaults c.params (pos.take n) kw
  let star := pos.drop n
  let get (name : String) : Except Exc α :=
    match lookupStr name bound with
    | some v => pure v
    | none => throw .unmodelled
  let fpos ← c.fwdPos.mapM get
  let fkw ← c.fwdKw.mapM (fun (kv : String × String) => do pure (kv.1, ← get kv.2))
  pure { cls := cls, fn := c.target,
         args := fpos ++ (if c.fwdStar then star else []),
         kwargs := fkw ++ (if c.fwdStarStar then extraKw else []) }

/-- `Cls.name(*pos, **kw)` by constructor name -/
def Dsl.call {α : Type} (lit : PyVal → α) (cls : CClass) (name : String) (pos : List α) (kw : List (String × α)) :
    Except Exc (Cond α) := do
  if cls == .null then throw .unmodelled
  let c ← findCtor cls name
  pure (.leaf (← buildLeaf lit cls c pos kw))

/-- kinds of parameters of a constructor, as `get_func_args_by_kind` reports them -/
structure ArgKinds where
  posOrKw : List String
  varPos : Bool
  varKw : Bool

def Ctor.kinds (c : Ctor) : ArgKinds := ⟨c.params, c.varPos.isSome, c.varKw.isSome⟩

end Valida
