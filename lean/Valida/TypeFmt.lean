/-
  Valida.TypeFmt — `format_map_key_value_data_type_conditions` (valida/schema.py): the text shown for
  the always-applicable type-like conditions of a node of the documentation tree
  (`type_fmt`, `key_type_fmt`, and through hoisting `list_value_type_fmt` / `map_value_type_fmt`).
-/
import Valida.Repr
import Valida.Spec.Ser
namespace Valida
namespace TypeFmt
open ValidaGen Repr

/-- `str(x)` -/
def pyStr : PyVal → Except Exc String
  | .str s => .ok s
  | v => pyRepr v

def argVal : Arg → Except Exc PyVal
  | .lit v => .ok v
  | .path _ => .error .unmodelled

/-- `i.callable.kwargs["value"]` -/
def kwValue (l : Leaf Arg) : Except Exc PyVal :=
  match l.kwargs.find? (fun kv => kv.1 == "value") with
  | some kv => argVal kv.2
  | none => .error .keyError

/-- `PRE_PROCESSOR.__name__` of the condition's class ("" when it has none) -/
def preOf (c : CClass) : String :=
  match c.info with
  | .ok i => i.pre
  | .error _ => ""

/-- `try: v = INV_DTYPE_LOOKUP[v] except KeyError: pass`, then `str(v)` -/
def typeText (v : PyVal) : Except Exc String := do
  let v' ← invDtypeLenient v
  pyStr v'

/-- the text of one condition -/
def fmtOne (l : Leaf Arg) : Except Exc String :=
  if preOf l.cls == "len" then do
    let val ←
      if l.fn == "equal_to" then do pyStr (← kwValue l)
      else if l.fn == "in_" then do
        let xs ← Py.iter (← kwValue l)
        let ss ← xs.mapM pyStr
        pure (String.intercalate " or " ss)
      else do
        let a ← l.args.mapM argRepr
        let kw ← l.kwargs.mapM (fun kv => do
          let r ← argRepr kv.2
          pure (kv.1 ++ "=" ++ r))
        pure (l.fn ++ "(" ++ String.intercalate ", " (a ++ kw) ++ ")")
    pure ("length: " ++ val)
  else if l.fn == "equal_to" then do
    typeText (← kwValue l)
  else if l.fn == "is_instance" || l.fn == "keys_is_instance" then do
    let vs ← l.args.mapM argVal
    let ss ← vs.mapM typeText
    pure (String.intercalate " | " ss)
  else if l.fn == "in_" then do
    let xs ← Py.iter (← kwValue l)
    let ss ← xs.mapM pyRepr
    pure ("(" ++ String.intercalate " | " ss ++ ")")
  else pure ""

/-- `format_map_key_value_data_type_conditions(cnds)`; `out[0]` of an empty list is an `IndexError` -/
def format (cnds : List (Leaf Arg)) : Except Exc String := do
  let out ← cnds.mapM fmtOne
  match out with
  | [] => .error .indexError
  | [x] => pure x
  | _ => pure (String.intercalate ", " out)

end TypeFmt
end Valida
