/-
  Valida.Py.Bind — Python's argument binding for the (simple) signatures valida uses, and the
  record types of the generated tables.
-/
import Valida.Py.Ops
namespace Valida

/-- signature of a callable: first parameter (the trial datum), further positional-or-keyword
    parameters, `*args`?, `**kwargs`? -/
structure Sig where
  first : String
  params : List String
  varPos : Bool
  varKw : Bool
  deriving Repr, DecidableEq

structure Bound where
  params : List PyVal
  star : List PyVal
  kw : List (String × PyVal)

def lookupStr {α} (k : String) : List (String × α) → Option α
  | [] => none
  | (k', v) :: rest => if k == k' then some v else lookupStr k rest

/-- bind positional-or-keyword parameters `ps`, `npos` of which were supplied positionally
    (values `pvals`), the others from `kw`; every parameter must end up with exactly one value. -/
def bindParams : List String → List PyVal → List (String × PyVal) → Except Exc (List PyVal)
  | [], _, _ => .ok []
  | p :: ps, v :: vs, kw =>
      match lookupStr p kw with
      | some _ => .error .typeError            -- multiple values for argument
      | none => do pure (v :: (← bindParams ps vs kw))
  | p :: ps, [], kw =>
      match lookupStr p kw with
      | some v => do pure (v :: (← bindParams ps [] kw))
      | none => .error .typeError              -- missing argument

/-- `f(datum, *pos, **kw)` against signature `sig` (no defaults in valida.callables) -/
def bindArgs (sig : Sig) (pos : List PyVal) (kw : List (String × PyVal)) : Except Exc Bound := do
  -- the first parameter is taken by the datum
  if (lookupStr sig.first kw).isSome then throw .typeError
  let n := sig.params.length
  if pos.length > n && !sig.varPos then throw .typeError
  let extraKw := kw.filter (fun kv => !sig.params.contains kv.1)
  if !extraKw.isEmpty && !sig.varKw then throw .typeError
  let ps ← bindParams sig.params (pos.take n) kw
  pure { params := ps, star := pos.drop n, kw := extraKw }

/-- a DSL constructor `classmethod name(cls, params…, *varPos, **varKw): return cls(call_funcs.target, fwd…)` -/
structure Ctor where
  name : String
  params : List String
  defaults : List (String × PyVal)
  varPos : Option String
  varKw : Option String
  target : String
  fwdPos : List String
  fwdStar : Bool
  fwdKw : List (String × String)
  fwdStarStar : Bool
  deriving Repr

structure CondClassInfo where
  name : String
  like : String
  readsKeys : Bool
  pre : String
  general : Bool
  map : Bool
  label : String
  deriving Repr

end Valida
