/-
  Valida.Py.Value — the value domain of the model.

  A Python value of the JSON/YAML-like domain the properties quantify over, plus type objects
  (condition arguments such as `int`) and opaque objects (an unresolved `DataPath` argument).

  Floats: `float k` is the finite double `k · 2^-1074`.  Every finite double is such a `k`
  (the harness computes it exactly with `float.as_integer_ratio`), so every comparison between
  bool / int / float is an exact integer comparison – which is what CPython does.
  NaN, ±inf and -0.0 are outside the domain (properties exclude NaN; -0.0 == 0.0).
-/
namespace Valida

/-- Exceptions of the model.  `fmt` and `unmodelled` are pseudo-outcomes, see `Ops.lean`. -/
inductive Exc
  | typeError | attributeError | zeroDivision | valueError | overflow | keyError | indexError
  | stopIteration | recursion | runtime | invalidCallable | notImplemented | unboundLocal
  | malformedCond | malformedItem | malformedPath | malformedRule
  | duplicateRule | incompatibleRules
  /-- printf-style `str % x` on a string containing `%`: CPython returns a `str` or raises
      `TypeError`, `ValueError`, `KeyError` or `OverflowError`; the model does not say which. -/
  | fmt
  /-- the model declines to predict (operation on an opaque object); never caught, the
      correspondence check skips such cases and counts them. -/
  | unmodelled
  deriving DecidableEq, Repr, Inhabited

/-- Type objects the library names (`INV_DTYPE_LOOKUP`), `NoneType`, `tuple`, `type` itself and
    the class of opaque objects. -/
inductive PyType
  | none | bool | int | float | str | list | tuple | dict | path | type | obj
  deriving DecidableEq, Repr, Inhabited

inductive PyVal
  | none
  | bool (b : Bool)
  | int (n : Int)
  | float (k : Int)
  | str (s : String)
  | list (xs : List PyVal)
  | tuple (xs : List PyVal)
  | dict (kvs : List (PyVal × PyVal))
  | type (t : PyType)
  | obj (n : Nat)
  deriving Repr, Inhabited

namespace PyVal

/-- `2^1074`: one unit of `int` in units of the smallest sub-normal double. -/
def scale : Int := 2 ^ 1074

theorem scale_pos : 0 < scale := by unfold scale; exact Int.pow_pos (by decide)

/-- The exact numeric value of a number, in units of `2^-1074`; `none` for non-numbers. -/
def numKey : PyVal → Option Int
  | .bool b => some (if b then scale else 0)
  | .int n => some (n * scale)
  | .float k => some k
  | _ => Option.none

def typeOf : PyVal → PyType
  | .none => .none | .bool _ => .bool | .int _ => .int | .float _ => .float | .str _ => .str
  | .list _ => .list | .tuple _ => .tuple | .dict _ => .dict | .type _ => .type | .obj _ => .obj

/-- `isinstance(x, T)` for a type object `T` (bool is a subclass of int). -/
def instOf (x : PyVal) (t : PyType) : Bool :=
  typeOf x == t || (typeOf x == .bool && t == .int)

/-- Equality of values that are not both containers of the same kind. -/
def atomEq (x y : PyVal) : Bool :=
  match numKey x, numKey y with
  | some a, some b => a == b
  | _, _ =>
    match x, y with
    | .none, .none => true
    | .str a, .str b => a == b
    | .type a, .type b => a == b
    | .obj a, .obj b => a == b
    | _, _ => false

/-- first value in an association list whose key satisfies `keq`, tested with `veq`. -/
def lookupWith (keq : PyVal → Bool) (veq : PyVal → Bool) : List (PyVal × PyVal) → Bool
  | [] => false
  | (k, v) :: rest => if keq k then veq v else lookupWith keq veq rest

mutual
/-- Python `==` on the value domain (never raises). -/
def pyEq : PyVal → PyVal → Bool
  | .list xs, .list ys => pyEqL xs ys
  | .tuple xs, .tuple ys => pyEqL xs ys
  | .dict a, .dict b => a.length == b.length && pyEqD a b
  | x, y => atomEq x y
termination_by structural x => x
def pyEqL : List PyVal → List PyVal → Bool
  | [], [] => true
  | x :: xs, y :: ys => pyEq x y && pyEqL xs ys
  | _, _ => false
termination_by structural x => x
/-- every item of the first mapping is present, with an equal value, in the second. -/
def pyEqD : List (PyVal × PyVal) → List (PyVal × PyVal) → Bool
  | [], _ => true
  | (k, v) :: rest, b => lookupWith (pyEq k) (pyEq v) b && pyEqD rest b
termination_by structural x => x
end

mutual
/-- `hash(x)` succeeds. -/
def hashable : PyVal → Bool
  | .list _ => false
  | .dict _ => false
  | .obj _ => false            -- DataPath defines `__eq__` and hence no `__hash__`
  | .tuple xs => hashableL xs
  | _ => true
termination_by structural x => x
def hashableL : List PyVal → Bool
  | [] => true
  | x :: xs => hashable x && hashableL xs
termination_by structural x => x
end

def truthy : PyVal → Bool
  | .none => false
  | .bool b => b
  | .int n => n != 0
  | .float k => k != 0
  | .str s => s != ""
  | .list xs => !xs.isEmpty
  | .tuple xs => !xs.isEmpty
  | .dict kvs => !kvs.isEmpty
  | .type _ => true
  | .obj _ => true

end PyVal
end Valida
