/-
  Valida.Py.Ops — CPython 3.12 primitive semantics on the value domain (DESIGN.md App. C).
  Every primitive that can raise returns `Except Exc _`; nothing is totalised with a default.
  These definitions are validated differentially against CPython (op `prim`), not proved.
-/
import Valida.Py.Value
namespace Valida
open PyVal (pyEq numKey scale hashable truthy typeOf instOf atomEq)

abbrev R := Except Exc PyVal

namespace Py

def b (x : Bool) : PyVal := .bool x

/-! ### numbers -/

/-- round an exact value (units of `2^-1074`) to the nearest double, ties to even -/
def roundDouble (m : Int) : Int :=
  let a := m.natAbs
  if a < 2 ^ 53 then m else
    let bits := Nat.log2 a + 1
    let shift := bits - 53
    let q := a >>> shift
    let r := a - (q <<< shift)
    let half := 1 <<< (shift - 1)
    let q' := if r > half || (r == half && q % 2 == 1) then q + 1 else q
    let res : Int := Int.ofNat (q' <<< shift)
    if m < 0 then -res else res

/-- largest finite double is below `2^1024`, i.e. `2^2098` units -/
def floatMaxUnits : Int := 2 ^ 2098

/-- the double a number converts to (`float(n)`), in units; `overflow` beyond the double range -/
def toFloatUnits : PyVal → Except Exc Int
  | .bool x => .ok (if x then scale else 0)
  | .int n =>
      let r := roundDouble (n * scale)
      if r.natAbs < floatMaxUnits.natAbs then .ok r else .error .overflow
  | .float k => .ok k
  | _ => .error .typeError

def isNum : PyVal → Bool
  | .bool _ | .int _ | .float _ => true
  | _ => false

def isFloat : PyVal → Bool
  | .float _ => true
  | _ => false

/-- the integer value of a bool/int -/
def asInt : PyVal → Option Int
  | .bool x => some (if x then 1 else 0)
  | .int n => some n
  | _ => none

def sub (x y : PyVal) : R :=
  match asInt x, asInt y with
  | some a, some c => .ok (.int (a - c))
  | _, _ =>
    if isNum x && isNum y then do
      let a ← toFloatUnits x
      let c ← toFloatUnits y
      pure (.float (roundDouble (a - c)))
    else .error .typeError

def abs (x : PyVal) : R :=
  match x with
  | .bool v => .ok (.int (if v then 1 else 0))
  | .int n => .ok (.int (Int.ofNat n.natAbs))
  | .float k => .ok (.float (Int.ofNat k.natAbs))
  | _ => .error .typeError

def strHasPercent (s : String) : Bool := s.toList.contains '%'

/-- `x % y`.  For a string left operand this is printf-formatting: without any `%` in the
    string the outcome is determined by the kind of `y`; otherwise the pseudo-outcome `fmt`. -/
def mod (x y : PyVal) : R :=
  match x with
  | .str s =>
      if strHasPercent s then .error .fmt else
      match y with
      | .tuple [] => .ok (.str s)
      | .tuple _ => .error .typeError
      | .list _ => .ok (.str s)
      | .dict _ => .ok (.str s)
      | .obj _ => .error .unmodelled
      | _ => .error .typeError
  | _ =>
    match asInt x, asInt y with
    | some a, some c => if c == 0 then .error .zeroDivision else .ok (.int (a.fmod c))
    | _, _ =>
      if isNum x && isNum y then do
        let a ← toFloatUnits x
        let c ← toFloatUnits y
        if c == 0 then .error .zeroDivision else pure (.float (roundDouble (a.fmod c)))
      else .error .typeError

/-! ### comparisons -/

def eq (x y : PyVal) : R := .ok (b (pyEq x y))
def ne (x y : PyVal) : R := .ok (b (!pyEq x y))

inductive CmpOp | lt | le | gt | ge deriving DecidableEq, Repr

def CmpOp.onInt : CmpOp → Int → Int → Bool
  | .lt, a, c => a < c | .le, a, c => a ≤ c | .gt, a, c => a > c | .ge, a, c => a ≥ c

def CmpOp.onNat : CmpOp → Nat → Nat → Bool
  | .lt, a, c => a < c | .le, a, c => a ≤ c | .gt, a, c => a > c | .ge, a, c => a ≥ c

/-- lexicographic comparison of code-point lists -/
def cmpChars (op : CmpOp) : List Char → List Char → Bool
  | [], [] => op.onNat 0 0
  | [], _ :: _ => op.onNat 0 1
  | _ :: _, [] => op.onNat 1 0
  | x :: xs, y :: ys => if x == y then cmpChars op xs ys else op.onNat x.toNat y.toNat

mutual
/-- rich comparison `x op y` -/
def cmp (op : CmpOp) : PyVal → PyVal → Except Exc Bool
  | .list xs, .list ys => cmpL op xs ys
  | .tuple xs, .tuple ys => cmpL op xs ys
  | .str s, .str t => .ok (cmpChars op s.toList t.toList)
  | x, y =>
    match numKey x, numKey y with
    | some a, some c => .ok (op.onInt a c)
    | _, _ => .error .typeError
termination_by structural x => x
/-- lexicographic: the first pair of elements that are not `==` decides (and may raise) -/
def cmpL (op : CmpOp) : List PyVal → List PyVal → Except Exc Bool
  | [], [] => .ok (op.onNat 0 0)
  | [], _ :: _ => .ok (op.onNat 0 1)
  | _ :: _, [] => .ok (op.onNat 1 0)
  | x :: xs, y :: ys => if pyEq x y then cmpL op xs ys else cmp op x y
termination_by structural x => x
end

def lt (x y : PyVal) : R := do pure (b (← cmp .lt x y))
def le (x y : PyVal) : R := do pure (b (← cmp .le x y))
def gt (x y : PyVal) : R := do pure (b (← cmp .gt x y))
def ge (x y : PyVal) : R := do pure (b (← cmp .ge x y))

/-! ### containers -/

def isInfix : List Char → List Char → Bool
  | [], _ => true
  | _ :: _, [] => false
  | n, h :: t => n.isPrefixOf (h :: t) || isInfix n t

def dictHasKey (k : PyVal) (kvs : List (PyVal × PyVal)) : Bool := kvs.any (fun kv => pyEq k kv.1)

def dictGet (k : PyVal) : List (PyVal × PyVal) → Option PyVal
  | [] => none
  | (k', v) :: rest => if pyEq k k' then some v else dictGet k rest

/-- `x in c` -/
def contains (x c : PyVal) : R :=
  match c with
  | .list xs => .ok (b (xs.any (pyEq x)))
  | .tuple xs => .ok (b (xs.any (pyEq x)))
  | .str s => match x with
      | .str n => .ok (b (isInfix n.toList s.toList))
      | _ => .error .typeError
  | .dict kvs => if hashable x then .ok (b (dictHasKey x kvs)) else .error .typeError
  | .obj _ => .error .unmodelled
  | _ => .error .typeError

def notContains (x c : PyVal) : R := do
  match ← contains x c with
  | .bool v => pure (b (!v))
  | _ => .error .unmodelled

/-- `x in range(l, u)` -/
def inRange (x l u : PyVal) : R :=
  match asInt l, asInt u with
  | some lo, some hi =>
      match numKey x with
      | some k => .ok (b (k % scale == 0 && lo ≤ k / scale && k / scale < hi))
      | none => match x with
          | .obj _ => .ok (b false)
          | _ => .ok (b false)
  | _, _ => .error .typeError

def notInRange (x l u : PyVal) : R := do
  match ← inRange x l u with
  | .bool v => pure (b (!v))
  | _ => .error .unmodelled

def len (x : PyVal) : R :=
  match x with
  | .str s => .ok (.int s.length)
  | .list xs => .ok (.int xs.length)
  | .tuple xs => .ok (.int xs.length)
  | .dict kvs => .ok (.int kvs.length)
  | .obj _ => .error .unmodelled
  | _ => .error .typeError

def type (x : PyVal) : R := .ok (.type (typeOf x))

def not (x : PyVal) : R := .ok (b (!truthy x))

mutual
/-- `isinstance(x, c)`: `c` a type, or a (nested) tuple of types examined left to right;
    anything else raises -/
def isinstC (x : PyVal) : PyVal → Except Exc Bool
  | .type t => .ok (instOf x t)
  | .tuple cs => isinstL x cs
  | _ => .error .typeError
termination_by structural c => c
def isinstL (x : PyVal) : List PyVal → Except Exc Bool
  | [] => .ok false
  | c :: rest => do
      if (← isinstC x c) then pure true else isinstL x rest
termination_by structural cs => cs
end

def isinstance (x : PyVal) (classes : PyVal) : R := do pure (b (← isinstC x classes))

/-- `d.keys()` – the model represents the keys view by the mapping itself (`in`, iteration and
    `set()` of a keys view behave like those of the mapping). -/
def keys (d : PyVal) : R :=
  match d with
  | .dict _ => .ok d
  | .obj _ => .error .unmodelled
  | _ => .error .attributeError

/-- the elements `for _ in x` yields -/
def iter (x : PyVal) : Except Exc (List PyVal) :=
  match x with
  | .list xs => .ok xs
  | .tuple xs => .ok xs
  | .dict kvs => .ok (kvs.map (·.1))
  | .str s => .ok (s.toList.map (fun c => .str (String.singleton c)))
  | .obj _ => .error .unmodelled
  | _ => .error .typeError

/-- `b[k]` -/
def getItem (c k : PyVal) : R :=
  match c with
  | .dict kvs => if hashable k then
        match dictGet k kvs with
        | some v => .ok v
        | none => .error .keyError
      else .error .typeError
  | .list xs | .tuple xs =>
      match asInt k with
      | some i =>
          let n : Int := xs.length
          let j := if i < 0 then i + n else i
          if 0 ≤ j && j < n then
            match xs[j.toNat]? with
            | some v => .ok v
            | none => .error .indexError
          else .error .indexError
      | none => .error .typeError
  | .str s =>
      match asInt k with
      | some i =>
          let cs := s.toList
          let n : Int := cs.length
          let j := if i < 0 then i + n else i
          if 0 ≤ j && j < n then
            match cs[j.toNat]? with
            | some c => .ok (.str (String.singleton c))
            | none => .error .indexError
          else .error .indexError
      | none => .error .typeError
  | .obj _ => .error .unmodelled
  | _ => .error .typeError

/-! ### sets (represented as duplicate-free lists) -/

def dedup : List PyVal → List PyVal → List PyVal
  | acc, [] => acc.reverse
  | acc, x :: xs => if acc.any (pyEq x) then dedup acc xs else dedup (x :: acc) xs

/-- `set(x)` -/
def set (x : PyVal) : R := do
  let xs ← iter x
  if xs.all hashable then pure (.list (dedup [] xs)) else .error .typeError

def elems : PyVal → List PyVal
  | .list xs => xs
  | _ => []

def setDiff (x y : PyVal) : R := .ok (.list ((elems x).filter (fun a => !(elems y).any (pyEq a))))
def setInter (x y : PyVal) : R := .ok (.list ((elems x).filter (fun a => (elems y).any (pyEq a))))
def setEq (x y : PyVal) : R :=
  .ok (b ((elems x).all (fun a => (elems y).any (pyEq a)) && (elems y).all (fun a => (elems x).any (pyEq a))))

/-! ### generator-expression consumers (lazy, left to right) -/

def anyM (xs : List PyVal) (f : PyVal → R) : R :=
  match xs with
  | [] => .ok (b false)
  | x :: rest => do
      if truthy (← f x) then pure (b true) else anyM rest f

def allM (xs : List PyVal) (f : PyVal → R) : R :=
  match xs with
  | [] => .ok (b true)
  | x :: rest => do
      if truthy (← f x) then allM rest f else pure (b false)

/-- `sum(f(x) for x in xs)` where every `f(x)` is a bool (or int) -/
def sumM (xs : List PyVal) (f : PyVal → R) : R :=
  match xs with
  | [] => .ok (.int 0)
  | x :: rest => do
      let v ← f x
      let s ← sumM rest f
      match asInt v, asInt s with
      | some a, some c => pure (.int (a + c))
      | _, _ => .error .unmodelled

/-- `for k, v in items.items(): try: if <body k v>: return False  except <caught>: return False`
    followed by `return True` -/
def allItemsM (items : List (String × PyVal)) (caught : Exc → Bool)
    (body : String → PyVal → R) : R :=
  match items with
  | [] => .ok (b true)
  | (k, v) :: rest =>
      match body k v with
      | .ok r => if truthy r then .ok (b false) else allItemsM rest caught body
      | .error e => if caught e then .ok (b false) else .error e

end Py
end Valida

namespace Valida
/-- `e` is an instance of the builtin exception class named `cls` (fixed CPython hierarchy). -/
def Exc.isA (e : Exc) (cls : String) : Bool :=
  cls == "Exception" || cls == "BaseException" ||
  match e with
  | .typeError => cls == "TypeError"
  | .attributeError => cls == "AttributeError"
  | .zeroDivision => cls == "ZeroDivisionError" || cls == "ArithmeticError"
  | .overflow => cls == "OverflowError" || cls == "ArithmeticError"
  | .valueError => cls == "ValueError"
  | .keyError => cls == "KeyError" || cls == "LookupError"
  | .indexError => cls == "IndexError" || cls == "LookupError"
  | .stopIteration => cls == "StopIteration"
  | .recursion => cls == "RecursionError" || cls == "RuntimeError"
  | .runtime => cls == "RuntimeError"
  | .notImplemented => cls == "NotImplementedError" || cls == "RuntimeError"
  | .unboundLocal => cls == "UnboundLocalError" || cls == "NameError"
  | .invalidCallable => cls == "InvalidCallable"
  | .malformedCond => cls == "MalformedConditionLikeSpec"
  | .malformedItem => cls == "MalformedContainerItemSpec"
  | .malformedPath => cls == "MalformedDataPathSpec"
  | .malformedRule => cls == "MalformedRuleSpec"
  | .duplicateRule => cls == "DuplicateRule"
  | .incompatibleRules => cls == "IncompatibleRules"
  | .fmt => false
  | .unmodelled => false

/-- an `except (C₁, …, Cₙ)` clause catches `e`.  The pseudo-outcome `fmt` (a `str`, or one of
    TypeError / ValueError / KeyError / OverflowError) counts as caught only if all four are. -/
def caughtBy (classes : List String) (e : Exc) : Bool :=
  match e with
  | .fmt => [Exc.typeError, .valueError, .keyError, .overflow].all (fun e' => classes.any e'.isA)
  | .unmodelled => false
  | _ => classes.any e.isA
end Valida
