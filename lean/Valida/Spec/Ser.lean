/-
  Valida.Spec.Ser — serialisers, transcribed: `Condition.to_json_like`, `ConditionBinaryOp.to_json_like`,
  `NullCondition.to_json_like`, `DataPath.simplify`, `DataPath.to_part_specs`, `Rule.to_json_like`,
  `Schema.to_json_like`.
-/
import Valida.Eq
import Valida.Spec.Parse
namespace Valida
open ValidaGen

/-- `INV_DTYPE_LOOKUP[v]` -/
def invDtype (v : PyVal) : R :=
  match v with
  | .type t => match invDtypeLookup.find? (fun p => p.1 == t) with
      | some p => .ok (.str p.2)
      | none => .error .keyError
  | x => if PyVal.hashable x then .error .keyError else .error .typeError

/-- `try: spec_val[k] = INV_DTYPE_LOOKUP[v]  except KeyError: continue` -/
def invDtypeLenient (v : PyVal) : R :=
  match invDtype v with
  | .ok s => .ok s
  | .error .keyError => .ok v
  | .error e => .error e

/-- a stored argument as emitted (`copy.deepcopy`): a data path is emitted as the object itself -/
def argOut : Arg → PyVal
  | .lit v => v
  | .path _ => .obj 0

/-- `Condition.to_json_like()` for one condition, `{}` for the null condition -/
def leafToJson (l : Leaf Arg) : R := do
  if l.cls == .null then return .dict []
  let info ← l.cls.info
  let key := info.label ++ "." ++ l.fn
  let castTypes := containsSub "dtype" key || containsSub "is_instance" key
  let sig ← match sigOf l.fn with
    | some s => pure s
    | none => throw .unmodelled
  let kwargs := l.kwargs.map (fun kv => (kv.1, argOut kv.2))
  let kwDict (f : PyVal → R) : R := do
    pure (.dict (← kwargs.mapM (fun kv => do pure (PyVal.str kv.1, ← f kv.2))))
  let val ← (
    if sig.params.isEmpty && !sig.varPos && !sig.varKw then pure PyVal.none
    else if sig.params.length == 1 && !sig.varPos && !sig.varKw then
      -- the first of the keyword arguments
      match kwargs.head? with
      | none => throw .stopIteration
      | some kv =>
          if castTypes then
            match kv.2 with
            | .list xs => do pure (.list (← xs.mapM invDtype))
            | v => invDtype v
          else pure kv.2
    else if sig.params.length > 1 && !sig.varPos && !sig.varKw then
      kwDict (fun v => if castTypes then invDtypeLenient v else pure v)
    else if sig.varPos && sig.params.isEmpty && !sig.varKw then do
      let xs := l.args.map argOut
      pure (.list (← xs.mapM (fun v => if castTypes then invDtypeLenient v else pure v)))
    else if sig.varKw && !sig.varPos then
      kwDict (fun v => if castTypes then invDtypeLenient v else pure v)
    else throw .notImplemented)
  pure (.dict [(.str key, val)])

def condToJson : Cond Arg → R
  | .leaf l => leafToJson l
  | .bin op a b => do
      let ja ← condToJson a
      let jb ← condToJson b
      pure (.dict [(.str op.symbol, .list [ja, jb])])

/-! ### paths -/

/-- a part that `DataPath(v)` would build from the primitive `v`, if any: `simplify()` for one part -/
def simplifyPart (p : Part) : Option PyVal :=
  match p.kind, p.cond, p.listCond, p.mapCond with
  | .map, .leaf l, _, _ =>
      if l.cls == .key && l.fn == "equal_to" then lookupStr "value" l.kwargs else none
  | .molv, c, .leaf li, .leaf lm =>
      if condEqLit c Cond.null && li.cls == .index && li.fn == "equal_to" && lm.cls == .key && lm.fn == "equal_to"
      then lookupStr "value" li.kwargs else none
  | _, _, _, _ => none

/-- `simplify()` raises `KeyError` for a part that passes the structural tests but whose `equal_to`
    condition has no `value` keyword (a condition built directly, not through the DSL) -/
def simplifyRaises (p : Part) : Bool :=
  match p.kind, p.cond, p.listCond, p.mapCond with
  | .map, .leaf l, _, _ =>
      l.cls == .key && l.fn == "equal_to" && (lookupStr "value" l.kwargs).isNone
  | .molv, c, .leaf li, .leaf lm =>
      condEqLit c Cond.null && li.cls == .index && li.fn == "equal_to" && lm.cls == .key && lm.fn == "equal_to"
        && (lookupStr "value" li.kwargs).isNone
  | _, _, _, _ => false

def barePart (k : PartKind) : Part :=
  { kind := k, cond := Cond.null, listCond := Cond.null, mapCond := Cond.null, label := none }

/-- `DataPath.to_part_specs()` (refusing everything that would not be rebuilt as an equal path) -/
def toPartSpecs (p : Path) : Except Exc (List PyVal) := do
  if p.datum != .none || p.multi != .none || p.source.isSome then throw .runtime
  -- `simple_parts = self.simplify()` runs over every part first
  if p.parts.any simplifyRaises then throw .keyError
  let specs ← p.parts.mapM (fun part =>
    if partEq part (barePart .map) then pure (PyVal.dict [(.str "type", .str "map_value")])
    else if partEq part (barePart .list) then pure (PyVal.dict [(.str "type", .str "list_value")])
    else if partEq part (barePart .molv) then pure (PyVal.dict [(.str "type", .str "map_or_list_value")])
    else match simplifyPart part with
      | some v =>
          match v with
          | .str _ | .float _ | .int _ | .bool _ =>
              match Part.ofPrim v with
              | .ok q => if partEq q part then pure v else throw .runtime
              | .error _ => throw .runtime
          | _ => throw .runtime
      | none => throw .runtime)
  if !p.concrete && !(specs.any (fun s => match s with | .dict _ => true | _ => false)) then throw .runtime
  pure specs

/-- `Rule.to_json_like()` -/
def ruleToJson (r : RuleM) : R := do
  let cast ← (if r.cast.isEmpty then pure PyVal.none else do
    let items ← r.cast.mapM (fun (tf : PyType × String) => do
      let nameOf (t : PyType) : Except Exc String :=
        match castDtypeLookup.find? (fun p => p.2 == t) with
        | some p => pure p.1
        | none => throw .keyError
      -- `cast_types = {v: k for k, v in CAST_LOOKUP.items()}` (the last entry of a function wins);
      -- `cast_types[cast_func][1]`: the rule's own from-type is not consulted
      let toT ← match castLookup.reverse.find? (fun e => e.2 == tf.2) with
        | some e => pure e.1.2
        | none => throw .keyError
      pure (PyVal.str (← nameOf tf.1), PyVal.str (← nameOf toT)))
    pure (PyVal.dict items))
  let c ← condToJson r.cond
  let ps ← toPartSpecs r.path
  pure (.dict [(.str "condition", c), (.str "cast", cast), (.str "path", .list ps)])

def schemaToJson (rs : List RuleM) : R := do
  pure (.list (← rs.mapM ruleToJson))

/-- only null / bool / int / float / str / list / str-keyed dict: what survives `json.dumps/loads` -/
def jsonPureFuel : Nat → PyVal → Bool
  | 0, _ => false
  | f + 1, v =>
    match v with
    | .none | .bool _ | .int _ | .float _ | .str _ => true
    | .list xs => xs.all (jsonPureFuel f)
    | .dict kvs => kvs.all (fun kv => (match kv.1 with | .str _ => true | _ => false) && jsonPureFuel f kv.2)
    | _ => false

end Valida
