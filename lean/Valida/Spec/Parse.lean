/-
  Valida.Spec.Parse — the spec parsers, transcribed:
    `ConditionLike.from_spec`, `ContainerValue.from_spec`, `DataPath.from_spec`,
    `DataPath.from_part_specs`, `DataPath.from_str`, `Rule.from_spec`, `Schema.from_json_like`.
  Specs are Python structures (`PyVal`).  The parsers call each other (a condition argument may be a
  path spec, whose parts may carry condition specs, …): they recurse on a fuel argument that bounds
  the nesting depth (running out of fuel is `RecursionError`).
  All lookup tables and the constructor signatures come from ValidaGen.
-/
import Valida.Dsl
import Valida.Rule
namespace Valida
open ValidaGen

/-! ### strings -/

def isAscii (s : String) : Bool := s.toList.all (fun c => c.toNat < 128)

/-- `str.lower()` (ASCII; `unmodelled` beyond) -/
def pyLower (s : String) : Except Exc String :=
  if isAscii s then .ok (String.ofList (s.toList.map Char.toLower)) else .error .unmodelled

def splitOnChar (sep : Char) : List Char → List Char → List (List Char)
  | acc, [] => [acc.reverse]
  | acc, c :: rest => if c == sep then acc.reverse :: splitOnChar sep [] rest else splitOnChar sep (c :: acc) rest

/-- `s.split(".")` -/
def splitDot (s : String) : List String := (splitOnChar '.' [] s.toList).map String.ofList

def lookupPy (k : PyVal) : List (PyVal × PyVal) → Option PyVal := Py.dictGet k

/-- `d.pop(key, None)` for a string key: value (if present) and the rest -/
def popStr (key : String) (kvs : List (PyVal × PyVal)) : Option PyVal × List (PyVal × PyVal) :=
  match kvs.find? (fun kv => PyVal.pyEq (.str key) kv.1) with
  | some kv => (some kv.2, kvs.filter (fun kv' => !PyVal.pyEq (.str key) kv'.1))
  | none => (none, kvs)

/-! ### type names -/

/-- `DTYPE_LOOKUP[x.lower() if isinstance(x, str) else x]` with `KeyError → MalformedConditionLikeSpec` -/
def convType (x : PyVal) : R :=
  match x with
  | .str s => do
      let low ← pyLower s
      match lookupStr low dtypeLookupStr with
      | some t => pure (.type t)
      | none => throw .malformedCond
  | .type t =>
      match dtypeLookupType.find? (fun p => p.1 == t) with
      | some p => pure (.type p.2)
      | none => throw .malformedCond
  | v => if PyVal.hashable v then throw .malformedCond else throw .typeError

/-- the "convert strings to types" block: a list elementwise, anything else as one type -/
def convTypes (v : PyVal) : R :=
  match v with
  | .list xs => do pure (.list (← xs.mapM convType))
  | x => convType x

/-! ### nested data paths inside an argument are opaque objects (D18: never resolved) -/

/-- an item of a list / mapping argument after data-path sniffing -/
inductive SElem
  | path (p : Path)
  | val (v : PyVal)

def SElem.toArg : SElem → Arg
  | .path p => .path p
  | .val v => .lit v

/-- as an element of an enclosing list / mapping argument: a nested data path stays an (opaque) object -/
def SElem.toVal : SElem → PyVal
  | .path _ => .obj 0
  | .val v => v

/-- an argument after data-path sniffing: a path, a plain value, or a mapping / list / tuple whose
    items have been sniffed one level deep -/
inductive Sniffed
  | path (p : Path)
  | val (v : PyVal)
  | dictS (items : List (PyVal × SElem))
  | listS (items : List SElem)
  | tupleS (items : List SElem)

/-- the argument passed as a whole -/
def Sniffed.toArg : Sniffed → Arg
  | .path p => .path p
  | .val v => .lit v
  | .dictS items => .lit (.dict (items.map (fun kv => (kv.1, kv.2.toVal))))
  | .listS items => .lit (.list (items.map SElem.toVal))
  | .tupleS items => .lit (.tuple (items.map SElem.toVal))

def Sniffed.toElem : Sniffed → SElem
  | .path p => .path p
  | .val v => .val v
  | s => .val (match s.toArg with | .lit v => v | .path _ => .obj 0)

def strKeysS (kvs : List (PyVal × SElem)) : Except Exc (List (String × Arg)) :=
  kvs.mapM (fun kv => match kv.1 with
    | .str s => .ok (s, kv.2.toArg)
    | _ => .error .typeError)      -- keywords must be strings

def strKeys (kvs : List (PyVal × PyVal)) : Except Exc (List (String × PyVal)) :=
  kvs.mapM (fun kv => match kv.1 with
    | .str s => .ok (s, kv.2)
    | _ => .error .typeError)      -- keywords must be strings

def modifierOf (name : String) : Option (String × String) :=
  (pathModifiers.find? (fun m => m.1 == name)).map (fun m => m.2)

def datumModOf : String → Option DatumMod
  | "DTYPE" => some .dtype | "LENGTH" => some .length | "MAP_KEYS" => some .mapKeys
  | "MAP_VALUES" => some .mapValues | _ => none
def multiModOf : String → Option MultiMod
  | "FIRST" => some .first | "LAST" => some .last | "SINGLE" => some .single | "ALL" => some .all
  | "ANY" => some .any | _ => none

/-- `getattr(obj, name)()` for the modifier methods of `DataPath` -/
def applyModifier (p : Path) (name : String) : Except Exc Path :=
  match modifierOf name with
  | some ("datum", m) => match datumModOf m with
      | some d => p.withDatum d
      | none => .error .unmodelled
  | some ("multi", m) => match multiModOf m with
      | some d => p.withMulti d
      | none => .error .unmodelled
  | _ => .error .attributeError

def containsSub (needle hay : String) : Bool := Py.isInfix needle.toList hay.toList

def argOfVal (v : PyVal) : Arg := .lit v

/-- conditions stored inside path parts keep data-path arguments as opaque objects -/
def litArg : Arg → PyVal
  | .lit v => v
  | .path _ => .obj 0

def litCond (c : Cond Arg) : Cond PyVal := c.mapArgs litArg

def normLabel : Option PyVal → Option PyVal
  | some .none => none
  | x => x

/-- `{k: v for k, v in pairs}`: a repeated key keeps its first position and takes the last value -/
def dictOfPairs (pairs : List (PyVal × PyVal)) : List (PyVal × PyVal) :=
  pairs.foldl (fun acc kv =>
    if acc.any (fun kv' => PyVal.pyEq kv.1 kv'.1)
    then acc.map (fun kv' => if PyVal.pyEq kv.1 kv'.1 then (kv'.1, kv.2) else kv')
    else acc ++ [kv]) []

/-- `any(isinstance(k, str) and ESC_CODE in k for k in spec)` -/
def escScan (kvs : List (PyVal × PyVal)) : Except Exc Bool :=
  .ok (kvs.any (fun kv => match kv.1 with
    | .str s => containsSub "\\path" s
    | _ => false))

/-- `k.replace("\\path", "path")` -/
def replaceEsc : List Char → List Char
  | [] => []
  | c :: rest =>
      if c == '\\' && ("path".toList).isPrefixOf rest then "path".toList ++ replaceEsc (rest.drop 4)
      else c :: replaceEsc rest
termination_by l => l.length
decreasing_by all_goals simp_wf <;> (try simp [List.length_drop]) <;> omega

def unescapeKey (k : String) : String := String.ofList (replaceEsc k.toList)

mutual

/-- `ConditionLike.from_spec(spec)` -/
def parseCond : Nat → PyVal → Except Exc (Cond Arg)
  | 0, _ => .error .recursion
  | fuel + 1, spec =>
    if !PyVal.truthy spec then .ok Cond.null else
    match spec with
    | .dict kvs =>
      match kvs with
      | [(key, val)] =>
        match key with
        | .str keyS => do
          let toks ← (splitDot keyS).mapM pyLower
          match lookupStr keyS binaryOps with
          | some opCls =>
              -- and / or / xor over a list of condition specs, folded from NullCondition()
              let op ← match (binaryClasses.find? (fun b => b.1 == opCls)).map (fun b => b.2.1) with
                | some "and" => pure BinOp.and
                | some "or" => pure BinOp.or
                | some "xor" => pure BinOp.xor
                | _ => throw .unmodelled
              let items ← match val with
                | .list xs => pure xs
                | .tuple xs => pure xs
                | _ => throw .malformedCond
              items.foldlM (fun acc s => do
                let c ← parseCond fuel s
                Cond.mkBin op acc c) Cond.null
          | none =>
            match toks with
            | [] => throw .malformedCond
            | t0 :: _ =>
              match lookupStr t0 conditionDatumTypes with
              | none => throw .malformedCond
              | some clsName =>
                let n := toks.length
                let last := toks.getLastD ""
                if !(n == 2 || n == 3) || (n == 2 && (preProcLookup.any (fun p => p.1 == last))) then
                  throw .malformedCond
                else do
                let base ← match CClass.all.find? (fun c => c.name == clsName) with
                  | some c => pure c
                  | none => throw .unmodelled
                -- pre-processor
                let (cls, val, pre) ← (if n == 3 then do
                    let tok := toks.getD 1 ""
                    match lookupStr tok preProcLookup with
                    | none => if preProcStrict then throw .malformedCond else throw .unmodelled
                    | some pre =>
                      let val' ← if pre == "dtype" then convTypes val else pure val
                      match classProps.find? (fun cp => cp.1 == base.name && cp.2.1 == pre) with
                      | some cp =>
                          match CClass.all.find? (fun c => c.name == cp.2.2) with
                          | some c => pure (c, val', some pre)
                          | none => throw .unmodelled
                      | none => throw .malformedCond
                  else pure (base, val, none) : Except Exc (CClass × PyVal × Option String))
                let _ := pre
                -- callable name
                let call := (lookupStr last callableLookup).getD last
                let val ← if call == "is_instance" || call == "keys_is_instance" then convTypes val else pure val
                let info ← cls.info
                if !callableFromCtorTables then throw .unmodelled
                let ctor ← match (ctorsOf info).find? (fun c => c.name.toList.map Char.toLower == call.toList) with
                  | some c => pure c
                  | none => throw .malformedCond
                -- data-path sniffing of the argument
                let sn ← sniffArg fuel val
                -- invoke according to the constructor's signature
                let k := ctor.kinds
                let leaf ← (
                  if k.posOrKw.isEmpty && !k.varPos && !k.varKw then
                    buildLeaf Arg.lit cls ctor [] []
                  else if k.posOrKw.length == 1 && !k.varPos && !k.varKw then
                    buildLeaf Arg.lit cls ctor [sn.toArg] []
                  else if k.posOrKw.length > 1 && !k.varPos && !k.varKw then
                    match sn with
                    | .dictS items => do buildLeaf Arg.lit cls ctor [] (← strKeysS items)
                    | .val (.dict items) => do
                        buildLeaf Arg.lit cls ctor [] ((← strKeys items).map (fun kv => (kv.1, argOfVal kv.2)))
                    | .listS xs => buildLeaf Arg.lit cls ctor (xs.map SElem.toArg) []
                    | .tupleS xs => buildLeaf Arg.lit cls ctor (xs.map SElem.toArg) []
                    | _ => throw .malformedCond
                  else if k.varPos && k.posOrKw.isEmpty && !k.varKw then
                    match sn with
                    | .listS xs => buildLeaf Arg.lit cls ctor (xs.map SElem.toArg) []
                    | _ => throw .malformedCond
                  else if k.varKw && !k.varPos then
                    match sn with
                    | .dictS items => do buildLeaf Arg.lit cls ctor [] (← strKeysS items)
                    | .val (.dict items) => do
                        buildLeaf Arg.lit cls ctor [] ((← strKeys items).map (fun kv => (kv.1, argOfVal kv.2)))
                    | _ => throw .malformedCond
                  else throw .malformedCond)
                pure (.leaf leaf)
        | _ => if condKeyStrGuard then .error .malformedCond else .error .attributeError
      | _ => .error .malformedCond        -- several keys
    | _ => .error .typeError

/-- the data-path sniffing of `ConditionLike.from_spec`: a mapping may be a path spec or an escaped
    literal; otherwise the values of a mapping / the items of a list are sniffed one level deep -/
def sniffArg : Nat → PyVal → Except Exc Sniffed
  | 0, _ => .error .recursion
  | fuel + 1, .dict kvs =>
      match parsePathSpec fuel (.dict kvs) with
      | .ok r => .ok r
      | .error .malformedPath => do
          let kvs' ← kvs.mapM (fun kv => do
            match parsePathSpec fuel kv.2 with
            | .ok r => pure (kv.1, r.toElem)
            | .error .malformedPath => pure (kv.1, SElem.val kv.2)
            | .error e => throw e)
          pure (.dictS kvs')
      | .error e => .error e
  | fuel + 1, .list xs => do
      let xs' ← xs.mapM (fun x => do
        match parsePathSpec fuel x with
        | .ok r => pure r.toElem
        | .error .malformedPath => pure (SElem.val x)
        | .error e => throw e)
      pure (.listS xs')
  | fuel + 1, .tuple xs => do
      let xs' ← xs.mapM (fun x => do
        match parsePathSpec fuel x with
        | .ok r => pure r.toElem
        | .error .malformedPath => pure (SElem.val x)
        | .error e => throw e)
      pure (.tupleS xs')
  | _ + 1, v => .ok (.val v)

/-- `DataPath.from_spec(spec)`: a path, or (for an escaped mapping) the un-escaped literal mapping -/
def parsePathSpec : Nat → PyVal → Except Exc Sniffed
  | 0, _ => .error .recursion
  | fuel + 1, spec =>
    match spec with
    | .dict [] => if pathSpecRefusesEmpty then .error .malformedPath else .error .stopIteration
    | .dict ((key0, val0) :: rest) => do
        -- escaped keys: `any(ESC_CODE in k for k in spec)` (a non-string key raises TypeError once reached)
        let kvs := (key0, val0) :: rest
        let esc ← escScan kvs
        if esc then
          pure (.val (.dict (dictOfPairs (kvs.map (fun kv => match kv.1 with
            | .str s => (PyVal.str (unescapeKey s), kv.2)
            | k => (k, kv.2))))))
        else
        if !rest.isEmpty then throw .malformedPath
        match key0 with
        | .str keyS =>
            let toks ← (splitDot keyS).mapM pyLower
            if toks.head? != some "path" || !(toks.length ≥ 1 && toks.length < 4) then throw .malformedPath
            let parts ← Py.iter val0
            let p ← fromPartSpecs fuel parts
            let p ← toks.tail.foldlM (fun (acc : Path) tok => do
              let name := (lookupStr tok datumMultiLookup).getD tok
              if pathSuffixWhitelist then
                if name == "none" || (modifierOf name).isNone then throw .malformedPath
              match applyModifier acc name with
              | .ok q => pure q
              | .error .attributeError => throw .malformedPath
              | .error e => throw e) p
            pure (.path p)
        | _ => throw .malformedPath
    | _ => .error .malformedPath

/-- `DataPath.from_part_specs(*parts)` -/
def fromPartSpecs : Nat → List PyVal → Except Exc Path
  | 0, _ => .error .recursion
  | fuel + 1, parts => do
      let args ← parts.mapM (fun p => match p with
        | .dict kvs => do pure (PartArg.part (← parsePart fuel kvs))
        | v => pure (PartArg.prim v))
      Path.mk' args

/-- `ContainerValue.from_spec(spec)` for a mapping -/
def parsePart : Nat → List (PyVal × PyVal) → Except Exc Part
  | 0, _ => .error .recursion
  | fuel + 1, spec0 => do
      let (ty, spec) := popStr "type" spec0
      let kind ← match ty with
        | none => pure PartKind.molv
        | some t =>
            if !PyVal.hashable t then throw .typeError else
            match t with
            | .str s => match lookupStr s clsLookup with
                | some "MapValue" => pure PartKind.map
                | some "ListValue" => pure PartKind.list
                | some "MapOrListValue" => pure PartKind.molv
                | _ => throw .typeError
            | _ => throw .typeError
      let parseOpt (v : Option PyVal) : Except Exc (Cond PyVal) :=
        match v with
        | none => pure Cond.null
        | some .none => pure Cond.null
        | some s => do pure (litCond (← parseCond fuel s))
      let (c, spec) := popStr "condition" spec
      let condition ← parseOpt c
      let (c, spec) := popStr "list_condition" spec
      let listCond ← parseOpt c
      let (c, spec) := popStr "map_condition" spec
      let mapCond ← parseOpt c
      -- "value" long form
      let (v, spec) := popStr "value" spec
      let condition ← match v with
        | none => pure condition
        | some .none => pure condition
        | some s => do
            let nc := litCond (← parseCond fuel s)
            if !(nc.isLike "value") then throw .valueError
            Cond.mkBin .and condition nc
      -- shorthand "value.*"
      let shortOf (pref : String) (sp : List (PyVal × PyVal)) : List (PyVal × PyVal) × List (PyVal × PyVal) :=
        sp.partition (fun kv => match kv.1 with | .str s => pref.toList.isPrefixOf s.toList | _ => false)
      let foldShort (acc : Cond PyVal) (items : List (PyVal × PyVal)) : Except Exc (Cond PyVal) :=
        items.foldlM (fun a kv => do
          let nc := litCond (← parseCond fuel (.dict [kv]))
          Cond.mkBin .and a nc) acc
      let (vs, spec) := shortOf "value." spec
      let condition ← foldShort condition vs
      let longForm (name like : String) (sp : List (PyVal × PyVal)) (acc : Cond PyVal) :
          Except Exc (Cond PyVal × List (PyVal × PyVal)) := do
        let (v, sp') := popStr name sp
        match v with
        | none => pure (acc, sp')
        | some .none => pure (acc, sp')
        | some s =>
            let nc := litCond (← parseCond fuel s)
            if !(nc.isLike like) then throw .valueError
            pure (← Cond.mkBin .and acc nc, sp')
      match kind with
      | .map => do
          let (ks, spec) := shortOf "key." spec
          let condition ← foldShort condition ks
          let (condition, spec) ← longForm "key" "key" spec condition
          let (label, spec) := popStr "label" spec
          if !spec.isEmpty then throw .valueError
          Part.mkMap .none .none (some condition) (normLabel label)
      | .list => do
          let (is_, spec) := shortOf "index." spec
          let condition ← foldShort condition is_
          let (condition, spec) ← longForm "index" "index" spec condition
          let (label, spec) := popStr "label" spec
          if !spec.isEmpty then throw .valueError
          Part.mkList .none .none (some condition) (normLabel label)
      | .molv => do
          let (is_, spec) := shortOf "index." spec
          let listCond ← foldShort listCond is_
          let (ks, spec) := shortOf "key." spec
          let mapCond ← foldShort mapCond ks
          let (listCond, spec) ← longForm "index" "index" spec listCond
          let (mapCond, spec) ← longForm "key" "key" spec mapCond
          let (label, spec) := popStr "label" spec
          if !spec.isEmpty then throw .valueError
          Part.mkMolv .none .none .none (some listCond) (some mapCond) (some condition) (normLabel label)

end

/-- the double nearest to `n / 10^k` (round half to even), in units of 2^-1074 -/
def nearestDouble (n : Nat) (k : Nat) : Int :=
  let num := n * 2 ^ 1074
  let den := 10 ^ k
  let q := num / den
  let bits := if q == 0 then 0 else Nat.log2 q + 1
  let shift := bits - 53
  let d := den * 2 ^ shift
  let q' := num / d
  let rem := num % d
  let q'' := if 2 * rem > d || (2 * rem == d && q' % 2 == 1) then q' + 1 else q'
  Int.ofNat (q'' * 2 ^ shift)

/-- `float(s)` for plain decimal text `[+-]digits[.digits]` (anything else: `unmodelled`, or
    `valueError` when it certainly is not a number) -/
def pyFloatOfStr (s : String) : R :=
  let cs := s.toList
  let (neg, ds) := match cs with
    | '-' :: r => (true, r)
    | '+' :: r => (false, r)
    | r => (false, r)
  let intPart := ds.takeWhile isAsciiDigit
  let rest := ds.dropWhile isAsciiDigit
  let (frac, tail) := match rest with
    | '.' :: r => (r.takeWhile isAsciiDigit, r.dropWhile isAsciiDigit)
    | r => ([], r)
  if !tail.isEmpty || (intPart.isEmpty && frac.isEmpty) then .error .unmodelled else
  let digits := intPart ++ frac
  let n := digits.foldl (fun acc c => acc * 10 + (c.toNat - '0'.toNat)) 0
  let v := nearestDouble n frac.length
  -- beyond the largest double Python answers `inf`, which is outside the value domain
  if v ≥ 2 ^ 2098 then .error .unmodelled else
  .ok (.float (if neg then -v else v))

/-- `int(i)` / `float(i)` attempts of `DataPath.from_str` on one token -/
def fromStrToken (tok : String) : Except Exc PartArg :=
  match pyIntOfStr tok with
  | .ok (.int n) => do
      let keyC : Cond PyVal := .leaf { cls := .key, fn := "in_", args := [], kwargs := [("value", .tuple [.str tok, .int n])] }
      pure (.part (← Part.mkMolv (.cond keyC) (.val (.int n)) .none none none none none))
  | .ok _ => .error .unmodelled
  | .error .valueError =>
      -- `float(tok)` needs a digit or one of inf / nan / infinity
      let low := String.ofList (tok.toList.map Char.toLower)
      let hasDigit := tok.toList.any isAsciiDigit
      let special := ["inf", "nan", "infinity"].any (fun w => containsSub w low)
      if !hasDigit && !special then .ok (.prim (.str tok)) else
      match pyFloatOfStr tok with
      | .ok f => do
          let keyC : Cond PyVal := .leaf { cls := .key, fn := "in_", args := [], kwargs := [("value", .tuple [.str tok, f])] }
          pure (.part (← Part.mkMap (.cond keyC) .none none none))
      | .error e => .error e
  | .error e => .error e

/-- `DataPath.from_str(path_str, delimiter)` for a one-character delimiter -/
def fromStr (s : String) (delim : Char) : Except Exc Path := do
  let toks := if s.isEmpty then [] else (splitOnChar delim [] s.toList).map String.ofList
  let args ← toks.mapM fromStrToken
  Path.mk' args

/-- the normalised `doc` of a rule spec (or the exception) -/
def normDoc (doc : Option PyVal) : Except Exc (Option PyVal) :=
  match doc with
  | none => .ok none
  | some .none => .ok none
  | some d =>
    if !PyVal.truthy d then .ok (some d) else
    let strList (v : PyVal) : Except Exc (List PyVal) :=
      match v with
      | .list xs => if xs.all (fun x => match x with | .str _ => true | _ => false) then .ok xs else .error .malformedRule
      | _ => .error .malformedRule
    let strip (v : PyVal) : Except Exc PyVal :=
      match v with
      | .str s => if isAscii s then .ok (.str (String.ofList ((s.toList.dropWhile isPyAsciiSpace).reverse.dropWhile isPyAsciiSpace).reverse))
                  else .error .unmodelled
      | x => .ok x
    do
    let d' ← match d with
      | .dict kvs => pure kvs
      | .str s => pure [(PyVal.str "description", PyVal.list [.str s]), (.str "examples", .list [])]
      | .list xs => pure [(PyVal.str "description", PyVal.list xs), (.str "examples", .list [])]
      | _ => throw .malformedRule
    -- description default / string form
    let d' ← match Py.dictGet (.str "description") d' with
      | none => pure (d' ++ [(PyVal.str "description", PyVal.list [])])
      | some (.str s) => pure (d'.map (fun kv => if PyVal.pyEq (.str "description") kv.1 then (kv.1, PyVal.list [.str s]) else kv))
      | some _ => pure d'
    let d' := match Py.dictGet (.str "examples") d' with
      | none => d' ++ [(PyVal.str "examples", PyVal.list [])]
      | some _ => d'
    let desc ← match Py.dictGet (.str "description") d' with | some v => strList v | none => throw .unmodelled
    let exs ← match Py.dictGet (.str "examples") d' with | some v => strList v | none => throw .unmodelled
    let desc' ← desc.mapM strip
    let exs' ← exs.mapM strip
    pure (some (.dict (d'.map (fun kv =>
      if PyVal.pyEq (.str "description") kv.1 then (kv.1, .list desc')
      else if PyVal.pyEq (.str "examples") kv.1 then (kv.1, .list exs') else kv))))

/-- the cast block of `Rule.from_spec` -/
def parseCasts (cast : Option PyVal) : Except Exc (List (PyType × String)) :=
  match cast with
  | none => .ok []
  | some .none => .ok []
  | some (.dict kvs) =>
      kvs.mapM (fun kv => do
        let look (v : PyVal) : Except Exc PyType :=
          if !PyVal.hashable v then throw .typeError else
          match v with
          | .str s => match lookupStr s castDtypeLookup with
              | some t => pure t
              | none => throw .malformedRule
          | _ => throw .malformedRule
        let f ← look kv.1
        let t ← look kv.2
        match castLookup.find? (fun e => e.1.1 == f && e.1.2 == t) with
        | some e => pure (f, e.2)
        | none => throw .malformedRule)
  | some _ => .error .malformedRule

structure ParsedRule where
  rule : RuleM
  doc : Option PyVal

/-- `Rule.from_spec(spec)` -/
def parseRule (fuel : Nat) (spec : PyVal) : Except Exc ParsedRule :=
  match spec with
  | .dict kvs => do
      let pathSpec ← match Py.dictGet (.str "path") kvs with
        | some v => pure v
        | none => throw .keyError
      let parts ← Py.iter pathSpec
      let path ← fromPartSpecs fuel parts
      let condSpec ← match Py.dictGet (.str "condition") kvs with
        | some v => pure v
        | none => throw .keyError
      let cond ← parseCond fuel condSpec
      let doc ← normDoc (Py.dictGet (.str "doc") kvs)
      let casts ← parseCasts (Py.dictGet (.str "cast") kvs)
      pure { rule := { path := path, cond := cond, cast := casts }, doc := doc }
  | .obj _ => .error .unmodelled
  | _ => .error .typeError

/-- `Schema.from_json_like(json_like)` / `init_rules`: the rules, in the order `Schema.__init__` keeps them -/
def parseSchema (fuel : Nat) (specs : PyVal) : Except Exc (List RuleM) := do
  let items ← Py.iter specs
  let rules ← items.mapM (fun s => do pure (← parseRule fuel s).rule)
  pure (Schema.mk' rules)

end Valida
