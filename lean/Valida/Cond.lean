/-
  Valida.Cond — conditions and their filter (valida/conditions.py `Condition._filter`,
  `ConditionBinaryOp._filter`, `KeyLike/IndexLike.filter`; valida/data.py `Data`, `FilteredData*`).
  A literal transcription of the control flow; the callables, their binder, the class table and the
  two `except` tuples come from ValidaGen (regenerated from the source on every run).
-/
import Valida.Py.Ops
import Valida.Py.Bind
import ValidaGen.Callables
import ValidaGen.Tables
namespace Valida
open ValidaGen

inductive BinOp | and | or | xor
  deriving DecidableEq, Repr, Inhabited

def BinOp.apply : BinOp → Bool → Bool → Bool
  | .and, a, b => a && b
  | .or, a, b => a || b
  | .xor, a, b => a != b

def BinOp.symbol : BinOp → String
  | .and => "and" | .or => "or" | .xor => "xor"

/-- the seven condition classes of the DSL and `NullCondition` -/
inductive CClass | value | valueLength | valueDataType | key | keyLength | keyDataType | index | null
  deriving DecidableEq, Repr, Inhabited

def CClass.name : CClass → String
  | .value => "Value" | .valueLength => "ValueLength" | .valueDataType => "ValueDataType"
  | .key => "Key" | .keyLength => "KeyLength" | .keyDataType => "KeyDataType"
  | .index => "Index" | .null => "NullCondition"

def CClass.all : List CClass :=
  [.value, .valueLength, .valueDataType, .key, .keyLength, .keyDataType, .index, .null]

/-- the row of the generated class table -/
def CClass.info (c : CClass) : Except Exc CondClassInfo :=
  match condClasses.find? (fun i => i.name == c.name) with
  | some i => .ok i
  | none => .error .unmodelled

/-- a single condition: class, callable name, stored positional and keyword arguments
    (`PreparedConditionCallable`) -/
structure Leaf (α : Type) where
  cls : CClass
  fn : String
  args : List α
  kwargs : List (String × α)
  deriving Repr, Inhabited

inductive Cond (α : Type)
  | leaf (l : Leaf α)
  | bin (op : BinOp) (l r : Cond α)
  deriving Repr, Inhabited

namespace Cond
variable {α β : Type}

/-- `NullCondition()` -/
def null : Cond α := .leaf { cls := .null, fn := "null", args := [], kwargs := [] }

def isNull : Cond α → Bool
  | .leaf l => l.cls == .null
  | .bin .. => false

def leaves : Cond α → List (Leaf α)
  | .leaf l => [l]
  | .bin _ a b => a.leaves ++ b.leaves

/-- `flatten()[1]`: the operator symbols, each recorded after its first child -/
def ops : Cond α → List BinOp
  | .leaf _ => []
  | .bin op a b => a.ops ++ [op] ++ b.ops

def mapArgs (f : α → β) : Cond α → Cond β
  | .leaf l => .leaf { cls := l.cls, fn := l.fn, args := l.args.map f,
                       kwargs := l.kwargs.map (fun kv => (kv.1, f kv.2)) }
  | .bin op a b => .bin op (a.mapArgs f) (b.mapArgs f)

def likeOf (c : CClass) : String :=
  match c.info with
  | .ok i => i.like
  | .error _ => ""

/-- `is_like(KeyLike)` etc.: every flattened leaf is of that kind -/
def isLike (like : String) (c : Cond α) : Bool := c.leaves.all (fun l => likeOf l.cls == like)

/-- `ConditionBinaryOp(a, b)` seen as a tree: the null short-circuit of `__new__`, then the
    key/index mixing check of `__init__`. -/
def mkBin (op : BinOp) (a b : Cond α) : Except Exc (Cond α) :=
  if b.isNull then .ok a
  else if a.isNull then .ok b
  else
    let ls := a.leaves ++ b.leaves
    let nKey := ls.countP (fun l => likeOf l.cls == "key")
    let nIdx := ls.countP (fun l => likeOf l.cls == "index")
    if nKey > 0 && nIdx > 0 then .error .typeError else .ok (.bin op a b)

end Cond

/-! ### `Data` -/

structure DataV where
  isList : Bool
  keys : List PyVal
  values : List PyVal
  deriving Repr, Inhabited

def rangeVals (n : Nat) : List PyVal := (List.range n).map (fun (i : Nat) => PyVal.int (Int.ofNat i))

/-- `Data(data)` -/
def emptyData (isList : Bool) : Except Exc DataV :=
  match dataGuardEmptyExc with
  | some e => .error e
  | none => .ok ⟨isList, [], []⟩

/-- the guard of `Data.__init__` is generated from the source (`dataGuardTypes`, `dataGuardTypeExc`,
    `dataGuardEmptyExc`) -/
def DataV.ofPy (v : PyVal) : Except Exc DataV :=
  if !(dataGuardTypes.any (PyVal.instOf v)) then .error dataGuardTypeExc else
  match v with
  | .list xs => if xs.isEmpty then emptyData true else .ok ⟨true, rangeVals xs.length, xs⟩
  | .dict kvs => if kvs.isEmpty then emptyData false
                 else .ok ⟨false, kvs.map (·.1), kvs.map (·.2)⟩
  | _ => .error .unmodelled

/-- `Data.original` / `get_original()` -/
def DataV.original (d : DataV) : PyVal :=
  if d.isList then .list d.values else .dict (d.keys.zip d.values)

/-! ### filtered data -/

/-- the three per-item flags `Condition._filter` records -/
structure ItemFlags where
  preErr : Bool
  cErr : Bool
  cFalse : Bool
  deriving Repr, DecidableEq, Inhabited

/-- `FilteredData.result` entry: `False if i else (False if j else (False if k else True))` -/
def ItemFlags.result (f : ItemFlags) : Bool :=
  if f.preErr then false else if f.cErr then false else if f.cFalse then false else true

inductive FD
  | leaf (cls : CClass) (fn : String) (flags : List ItemFlags)
  | bin (op : BinOp) (l r : FD)
  deriving Repr, Inhabited

namespace FD

def result : FD → List Bool
  | .leaf _ _ flags => flags.map ItemFlags.result
  | .bin op a b => List.zipWith op.apply a.result b.result

def preErr : FD → List Bool
  | .leaf _ _ flags => flags.map (·.preErr)
  | .bin _ a b => List.zipWith (· || ·) a.preErr b.preErr

def cErr : FD → List Bool
  | .leaf _ _ flags => flags.map (·.cErr)
  | .bin _ a b => List.zipWith (· || ·) a.cErr b.cErr

def cFalse : FD → List Bool
  | .leaf _ _ flags => flags.map (·.cFalse)
  | .bin op a b => (FD.bin op a b).result.map (!·)

/-- kinds of failure reason (the text is `"…: `{repr}`."`, not modelled) -/
inductive Reason | preErr | cErr | cFalse
  deriving DecidableEq, Repr

def pick (p c f : Bool) : List Reason :=
  if p then [.preErr] else if c then [.cErr] else if f then [.cFalse] else []

/-- `get_failure_by_index(idx)` for an item with `result[idx] = False`: one entry per truth-table
    row that is not `and` / `or`, the first of the three tables that is true for the item. -/
def reasonsAt (idx : Nat) : FD → List Reason
  | .leaf _ _ flags =>
      match flags[idx]? with
      | some f => pick f.preErr f.cErr f.cFalse
      | none => []
  | .bin op a b =>
      a.reasonsAt idx ++ b.reasonsAt idx ++
        (if op == .xor then
          pick ((FD.bin op a b).preErr.getD idx false) ((FD.bin op a b).cErr.getD idx false)
               ((FD.bin op a b).cFalse.getD idx false)
         else [])

end FD

/-! ### evaluation of one item -/

abbrev RArg := Except Exc PyVal

/-- `self.PRE_PROCESSOR(datum)` -/
def applyPre (pre : String) (datum : PyVal) : R :=
  if pre == "len" then Py.len datum
  else if pre == "type" then Py.type datum
  else if pre == "" then .ok datum
  else .error .unmodelled

def resolveAll : List RArg → Except Exc (List PyVal)
  | [] => .ok []
  | a :: rest => do
      let v ← a
      pure (v :: (← resolveAll rest))

def resolveKw : List (String × RArg) → Except Exc (List (String × PyVal))
  | [] => .ok []
  | (k, a) :: rest => do
      let v ← a
      pure ((k, v) :: (← resolveKw rest))

/-- the body of the second `try` of `Condition._filter`: resolve data-path arguments, call the
    callable, insist on a bool -/
def callLeaf (fn : String) (args : List RArg) (kwargs : List (String × RArg)) (processed : PyVal) :
    Except Exc Bool := do
  let a ← resolveAll args
  let k ← resolveKw kwargs
  match ← callFn fn processed a k with
  | .bool r => pure r
  | _ => throw .invalidCallable

/-- one iteration of the loop of `Condition._filter` -/
def evalItem (pre : String) (fn : String) (args : List RArg) (kwargs : List (String × RArg))
    (datum : PyVal) : Except Exc ItemFlags :=
  match applyPre pre datum with
  | .error e =>
      if caughtBy catchesFilterPreproc e then .ok ⟨true, false, false⟩ else .error e
  | .ok processed =>
      match callLeaf fn args kwargs processed with
      | .ok r => .ok ⟨false, false, !r⟩
      | .error e =>
          if caughtBy catchesFilterCallable e then .ok ⟨false, true, false⟩ else .error e

/-- `datum, _ = datum` -/
def unpack2 : PyVal → Except Exc PyVal
  | .tuple [a, _] => .ok a
  | .list [a, _] => .ok a
  | .tuple _ => .error .valueError
  | .list _ => .error .valueError
  | .str _ => .error .unmodelled
  | .dict _ => .error .unmodelled
  | .obj _ => .error .unmodelled
  | _ => .error .typeError

/-- `Data.extract_paths()`: values become the first components -/
def extractPaths (d : DataV) : Except Exc (DataV × List PyVal) := do
  let vs ← d.values.mapM unpack2
  let ps ← d.values.mapM (fun v => match v with
    | .tuple [_, p] => .ok p
    | .list [_, p] => .ok p
    | _ => .error .unmodelled)
  pure ({ d with values := vs }, ps)

/-- `_filter(data, data_has_paths, source_data)` on a condition whose data-path arguments have
    been replaced by the outcome of resolving them; returns the filtered data, the (possibly
    path-stripped) `Data`, and the concrete paths if this call extracted them. -/
def filterAux : Cond RArg → DataV → Bool → Except Exc (FD × DataV × Option (List PyVal))
  | .leaf l, d, hasPaths => do
      let info ← l.cls.info
      let raw := if info.readsKeys then d.keys else d.values
      -- `if data_has_paths [and self.DATUM_TYPE is FilterDatumType.VALUES]: datum, _ = datum`
      let data ← if hasPaths && !(filterUnpacksValuesOnly && info.readsKeys) then raw.mapM unpack2 else pure raw
      let flags ← data.mapM (evalItem info.pre l.fn l.args l.kwargs)
      if hasPaths then
        let (d', ps) ← extractPaths d
        pure (.leaf l.cls l.fn flags, d', some ps)
      else
        pure (.leaf l.cls l.fn flags, d, none)
  | .bin op a b, d, hasPaths => do
      let (fa, d1, pa) ← filterAux a d hasPaths
      let (fb, d2, _) ← filterAux b d1 false
      pure (.bin op fa fb, d2, pa)

/-- the kind checks of `KeyLike.filter` / `IndexLike.filter` (entry point `filter` of a single
    condition; combinations have none) -/
def kindCheck : Cond RArg → DataV → Except Exc Unit
  | .leaf l, d =>
      let like := Cond.likeOf l.cls
      if like == "key" && d.isList then .error .typeError
      else if like == "index" && !d.isList then .error .typeError
      else .ok ()
  | .bin .., _ => .ok ()

/-- `cond.filter(data)` for already-wrapped data, no paths -/
def filterData (c : Cond RArg) (d : DataV) : Except Exc FD := do
  kindCheck c d
  let (fd, _, _) ← filterAux c d false
  pure fd

/-- `cond.filter(data)` on a raw Python value (`Data(data)` first; for key-like / index-like single
    conditions the kind check comes before the wrapping and also rejects non-containers) -/
def filterPy (c : Cond RArg) (data : PyVal) : Except Exc (FD × DataV) := do
  match c with
  | .leaf l =>
      let like := Cond.likeOf l.cls
      if like == "key" then
        match data with | .dict _ => pure () | _ => throw .typeError
      if like == "index" then
        match data with | .list _ => pure () | _ => throw .typeError
  | .bin .. => pure ()
  let d ← DataV.ofPy data
  let fd ← filterData c d
  pure (fd, d)

/-- literal arguments only -/
def Cond.lit (c : Cond PyVal) : Cond RArg := c.mapArgs .ok

/-- `FilteredDataLike.data`, `.keys`, `.failure_indices` -/
def pickBy (res : List Bool) (xs : List PyVal) : List PyVal :=
  (xs.zip res).filterMap (fun p => if p.2 then some p.1 else none)

def failureIndices (res : List Bool) : List Nat :=
  (List.range res.length).filter (fun i => !(res.getD i true))

end Valida
