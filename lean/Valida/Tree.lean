/-
  Valida.Tree — `Schema.to_tree` (valida/schema.py), structure only.

  `str(part)` / `str(key)` are opaque strings handed in by the harness (the item dictionary is keyed
  by tuples of these strings and `sorted` orders them); the formatted type texts are not modelled
  (only whether a node has a type, a key type, list / map value types).  Everything else –
  sub-tree selection, item creation and merging, always-applicable key conditions and the `required`
  flag, type-like conditions, implicit parents, hoisting of list / map value types, sorting, parent
  references, re-attachment of the sub-tree root, nesting – is transcribed.
-/
import Valida.Py.Ops
import ValidaGen.Tables
namespace Valida
open ValidaGen

/-- a single condition of a rule as `to_tree` sees it: class, callable, and for every positional
    argument `k` the string form of the part `DataPath(k)` builds and the display form of `k` -/
structure TLeaf where
  cls : String
  fn : String
  keyStrs : List String
  keyDisp : List String
  deriving Repr, Inhabited

inductive TCond
  | leaf (l : TLeaf)
  | bin (op : String) (l r : TCond)
  deriving Repr, Inhabited

/-- `flatten()`: leaves and operator symbols -/
def TCond.leaves : TCond → List TLeaf
  | .leaf l => [l]
  | .bin _ a b => a.leaves ++ b.leaves
def TCond.ops : TCond → List String
  | .leaf _ => []
  | .bin op a b => a.ops ++ [op] ++ b.ops

/-- `not binary_ops or set(binary_ops) == {"and"}` -/
def TCond.alwaysApplicable (c : TCond) : Bool := c.ops.all (· == "and")

structure TRule where
  partStrs : List String        -- str(part) of every part of the rule's path
  simpleDisp : List String      -- display form of every element of `path.simplify()`
  implTypes : List String       -- "MAP" | "LIST" | "CONTAINER" per part
  lastBare : String             -- "map" if the last part == MapValue(), "list" if == ListValue(), else ""
  cond : TCond
  deriving Repr, Inhabited

structure TItem where
  pathStr : List String
  rule : Option Nat := none       -- the rule whose condition and doc the node carries
  path : Option (List String) := none
  required : Option Bool := none
  typ : String := ""              -- "" | "conds" | "dict" | "list"
  keyType : Bool := false
  listValueType : Bool := false
  mapValueType : Bool := false
  typeInfoInParent : Bool := false
  parent : Int := -1
  deriving Repr, Inhabited

abbrev Items := List TItem

def Items.find (items : Items) (k : List String) : Option TItem := List.find? (fun i => i.pathStr == k) items

/-- `if k not in items: items[k] = init`, then update -/
def Items.upsert (items : Items) (k : List String) (init : TItem) (f : TItem → TItem) : Items :=
  if items.any (fun i => i.pathStr == k) then items.map (fun i => if i.pathStr == k then f i else i)
  else items ++ [f init]

/-- the class / callable tests of `get_always_applicable_type_like_conditions` -/
def TLeaf.isKeyType (l : TLeaf) : Bool :=
  l.cls == "KeyDataType" || (l.cls == "Value" && l.fn == "keys_is_instance")
def TLeaf.isValueType (l : TLeaf) : Bool :=
  l.cls == "ValueDataType" || l.cls == "ValueLength" ||
  (l.cls == "Value" && (l.fn == "is_instance" || l.fn == "in_"))

def impTypeLookup : String → Option String
  | "MAP" => some "dict"
  | "LIST" => some "list"
  | _ => none

/-- one iteration of the loop over `self.rules` -/
def treeStep (fromStr : List String) (items : Items) (idx : Nat) (r : TRule) : Items :=
  let k := fromStr.length
  if r.partStrs.take k != fromStr then items else
  let pathStr := r.partStrs.drop k
  let pathSimple := r.simpleDisp.drop k
  -- the node of the rule itself
  let items := items.upsert pathStr { pathStr := pathStr } (fun i => { i with rule := some idx, path := some pathSimple })
  -- always-applicable allowed_keys / required_keys conditions
  let keyConds := if r.cond.alwaysApplicable then
      r.cond.leaves.filter (fun l => l.fn == "allowed_keys" || l.fn == "required_keys") else []
  let items := keyConds.foldl (fun (acc : Items) l =>
    (l.keyStrs.zip l.keyDisp).foldl (fun (acc : Items) kd =>
      let pi := pathStr ++ [kd.1]
      acc.upsert pi { pathStr := pi, path := some (pathSimple ++ [kd.2]) }
        (fun i =>
          let before := if treeRequiredSticky then i.required.getD false else false
          { i with required := some (before || l.fn == "required_keys") })) acc) items
  -- always-applicable type-like conditions
  let leaves := if r.cond.alwaysApplicable then r.cond.leaves else []
  let hasKey := leaves.any TLeaf.isKeyType
  let hasVal := leaves.any TLeaf.isValueType
  let items := if hasKey then items.upsert pathStr { pathStr := pathStr } (fun i => { i with keyType := true }) else items
  let items := if hasVal then items.upsert pathStr { pathStr := pathStr } (fun i => { i with typ := "conds" }) else items
  -- the implicitly typed parent
  match r.implTypes.getLast? with
  | none => items
  | some parImp =>
      let parentStr := if r.implTypes.length == 1 then [] else pathStr.dropLast
      let items := items.upsert parentStr { pathStr := parentStr } (fun i =>
        if i.typ == "" then
          match impTypeLookup parImp with
          | some t => { i with typ := t }
          | none => if treeImplicitTypeGuard then i else { i with typ := "KeyError" }
        else i)
      let selfHasType := match items.find pathStr with | some i => i.typ != "" | none => false
      let items := if selfHasType && r.lastBare == "list" then
          (items.upsert parentStr { pathStr := parentStr } (fun i => { i with listValueType := true })).upsert pathStr
            { pathStr := pathStr } (fun i => { i with typeInfoInParent := true })
        else items
      let items := if selfHasType && r.lastBare == "map" then
          (items.upsert parentStr { pathStr := parentStr } (fun i => { i with mapValueType := true })).upsert pathStr
            { pathStr := pathStr } (fun i => { i with typeInfoInParent := true })
        else items
      items

/-- Python's ordering of tuples of strings -/
def strLt (a b : String) : Bool := Py.cmpChars .lt a.toList b.toList
def keyLe : List String → List String → Bool
  | [], _ => true
  | _ :: _, [] => false
  | x :: xs, y :: ys => if x == y then keyLe xs ys else strLt x y

/-- the conversion "to a list with parent references": `KeyError` if a node's parent is missing -/
def assignParents : List TItem → List (List String × Int) → Nat → Except Exc (List TItem)
  | [], _, _ => .ok []
  | it :: rest, refs, n =>
      match refs.find? (fun r => r.1 == it.pathStr.dropLast) with
      | none => .error .keyError
      | some r => do
          -- `parent_refs[k] = index` (a later entry for the same key overrides an earlier one)
          let tail ← assignParents rest ((it.pathStr, Int.ofNat n) :: refs) (n + 1)
          pure ({ it with parent := r.2 } :: tail)

/-- the flat tree: nodes sorted by their path strings, each with the index of its parent -/
def toTreeFlat (rules : List TRule) (fromStr : List String) (fromLastStr fromLastDisp : Option String) :
    Except Exc (List TItem) := do
  let items := (List.zip (List.range rules.length) rules).foldl (fun acc ir => treeStep fromStr acc ir.1 ir.2) []
  let sorted := items.mergeSort (fun a b => keyLe a.pathStr b.pathStr)
  let lst ← assignParents sorted [([], -1)] 0
  -- add the final component of `from_path` back on to all paths
  match fromLastStr, fromLastDisp with
  | some s, some d =>
      -- `item["path"] = …` reads the item's own path: an implicit parent that no rule described has none
      if lst.any (fun i => i.path.isNone) then throw .keyError
      pure (lst.map (fun i => { i with pathStr := s :: i.pathStr, path := i.path.map (d :: ·) }))
  | _, _ => pure lst

/-- nested form -/
inductive TNode
  | mk (item : TItem) (children : List TNode)
  deriving Inhabited

/-- `items_lst.pop(idx)` appended to its parent's children, from the last index down: built here by
    collecting, for every node, its children in decreasing index order -/
def nestFrom (flat : List TItem) : Nat → Nat → List TNode
  | 0, _ => []
  | fuel + 1, parent =>
      ((List.zip (List.range flat.length) flat).reverse.filter (fun ix => ix.2.parent == Int.ofNat parent)).map
        (fun ix => TNode.mk ix.2 (nestFrom flat fuel ix.1))

def toTreeNested (flat : List TItem) : List TNode :=
  ((List.zip (List.range flat.length) flat).filter (fun ix => ix.2.parent == -1)).map
    (fun ix => TNode.mk ix.2 (nestFrom flat flat.length ix.1))

end Valida
