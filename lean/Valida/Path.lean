/-
  Valida.Path — path parts and data paths (valida/datapath.py): the part constructors,
  `MapValue/ListValue/MapOrListValue.filter`, `DataPath.__init__` and `DataPath.get_data`
  (the level-by-level frontier walk with its two parallel lists), modifiers.
-/
import Valida.Cond
namespace Valida
open ValidaGen

inductive PartKind | map | list | molv
  deriving DecidableEq, Repr, Inhabited

/-- a `ContainerValue`: `condition` (all kinds), `list_condition` / `map_condition`
    (`MapOrListValue` only; null otherwise), `label` -/
structure Part where
  kind : PartKind
  cond : Cond PyVal
  listCond : Cond PyVal
  mapCond : Cond PyVal
  label : Option PyVal
  deriving Repr, Inhabited

/-- datum argument of a part constructor: nothing, a condition, or a bare value
    (turned into `cls.equal_to(value)`) -/
inductive DatumSpec
  | none
  | cond (c : Cond PyVal)
  | val (v : PyVal)
  deriving Repr, Inhabited

def eqLeaf (cls : CClass) (v : PyVal) : Cond PyVal :=
  .leaf { cls := cls, fn := "equal_to", args := [], kwargs := [("value", v)] }

/-- `get_container_value_condition(condition, datum_condition, cls, cls_like)` -/
def containerCond (condition : Option (Cond PyVal)) (datum : DatumSpec) (cls : CClass) (like : String) :
    Except Exc (Cond PyVal) := do
  let c := condition.getD Cond.null
  match datum with
  | .none => pure c
  | .cond dc =>
      if dc.isNull then Cond.mkBin .and c dc
      else if !(dc.isLike like) then throw .typeError
      else Cond.mkBin .and c dc
  | .val v =>
      let dc := eqLeaf cls v
      if !(dc.isLike like) then throw .typeError
      Cond.mkBin .and c dc

/-- `MapValue(key, value, condition, label)` -/
def Part.mkMap (key value : DatumSpec) (condition : Option (Cond PyVal)) (label : Option PyVal) :
    Except Exc Part := do
  let c ← containerCond condition key .key "key"
  let c ← containerCond (some c) value .value "value"
  pure { kind := .map, cond := c, listCond := Cond.null, mapCond := Cond.null, label := label }

/-- `ListValue(index, value, condition, label)` -/
def Part.mkList (index value : DatumSpec) (condition : Option (Cond PyVal)) (label : Option PyVal) :
    Except Exc Part := do
  let c ← containerCond condition index .index "index"
  let c ← containerCond (some c) value .value "value"
  pure { kind := .list, cond := c, listCond := Cond.null, mapCond := Cond.null, label := label }

/-- `MapOrListValue(key, index, value, list_condition, map_condition, condition, label)` -/
def Part.mkMolv (key index value : DatumSpec) (listCondition mapCondition condition : Option (Cond PyVal))
    (label : Option PyVal) : Except Exc Part := do
  let lc ← containerCond listCondition index .index "index"
  let mc ← containerCond mapCondition key .key "key"
  let c ← containerCond condition value .value "value"
  pure { kind := .molv, cond := c, listCond := lc, mapCond := mc, label := label }

/-- `DataPath.__init__` on a part that is not a part object: the first entry of the generated
    `isinstance` chain (`primCoercions`) one of whose types the value is an instance of (bool ⊂ int) -/
def Part.ofPrim (v : PyVal) : Except Exc Part :=
  match primCoercions.find? (fun e => e.1.any (PyVal.instOf v)) with
  | some (_, "MapValue") => Part.mkMap (.val v) .none none none
  | some (_, "MapOrListValue") => Part.mkMolv (.val v) (.val v) .none none none none none
  | some (_, "ListValue") => Part.mkList (.val v) .none none none
  | some _ => .error .unmodelled
  | none => .error primCoercionElse

/-- `part.filter(data)` on a raw node -/
def Part.filter (p : Part) (node : PyVal) : Except Exc (FD × DataV) := do
  let d ← DataV.ofPy node
  match p.kind with
  | .map =>
      if d.isList then throw .typeError
      let fd ← filterData p.cond.lit d
      pure (fd, d)
  | .list =>
      if !d.isList then throw .typeError
      let fd ← filterData p.cond.lit d
      pure (fd, d)
  | .molv =>
      let c ← if d.isList then Cond.mkBin .and p.listCond p.cond else Cond.mkBin .and p.mapCond p.cond
      let fd ← filterData c.lit d
      pure (fd, d)

inductive DatumMod | none | dtype | length | mapKeys | mapValues
  deriving DecidableEq, Repr, Inhabited
inductive MultiMod | none | first | last | single | all | any
  deriving DecidableEq, Repr, Inhabited

structure Path where
  parts : List Part
  concrete : Bool
  datum : DatumMod
  multi : MultiMod
  source : Option PyVal
  deriving Repr, Inhabited

/-- an element handed to `DataPath(*parts)` -/
inductive PartArg
  | prim (v : PyVal)
  | part (p : Part)
  deriving Repr, Inhabited

/-- `DataPath(*parts)`: concrete iff no part was given as a part object -/
def Path.mk' (args : List PartArg) : Except Exc Path := do
  let parts ← args.mapM (fun a => match a with
    | .prim v => Part.ofPrim v
    | .part p => pure p)
  let concrete := args.all (fun a => match a with | .prim _ => true | .part _ => false)
  pure { parts := parts, concrete := concrete, datum := .none, multi := .none, source := none }

/-- `_copy_with_datum_type` -/
def Path.withDatum (p : Path) (m : DatumMod) : Except Exc Path :=
  if p.datum != .none then .error .valueError else .ok { p with datum := m }

/-- `_copy_with_multi_type` (the `MULTI_TYPE` setter refuses concrete paths) -/
def Path.withMulti (p : Path) (m : MultiMod) : Except Exc Path :=
  if p.multi != .none then .error .valueError
  else if p.concrete && m != .none then .error .valueError
  else .ok { p with multi := m }

/-- `_extract_specified_datum_type` on one node -/
def datumFn (m : DatumMod) (v : PyVal) : R :=
  match m with
  | .none => .ok v
  | .dtype => Py.type v
  | .length => Py.len v
  | .mapKeys => match v with
      | .dict kvs => .ok (.list (kvs.map (·.1)))
      | .obj _ => .error .unmodelled
      | _ => .error .attributeError
  | .mapValues => match v with
      | .dict kvs => .ok (.list (kvs.map (·.2)))
      | .obj _ => .error .unmodelled
      | _ => .error .attributeError

/-- one step of the frontier walk for one frontier node: the matching children with their keys;
    a part that does not apply (exceptions in `catchesGetData`) contributes nothing -/
def stepNode (part : Part) (node : PyVal) : Except Exc (List (PyVal × PyVal)) :=
  match part.filter node with
  | .ok (fd, d) => .ok ((pickBy fd.result d.keys).zip (pickBy fd.result d.values))
  | .error e => if caughtBy catchesGetData e then .ok [] else .error e

/-- the loop body over the frontier: `data` and `concrete_paths` in lock-step
    (`concrete_paths[datum_idx]` is a checked index: `indexError` if the lists ever disagree) -/
def stepFrontier (part : Part) (first : Bool) :
    List PyVal → List (List PyVal) → Nat → Except Exc (List PyVal × List (List PyVal))
  | [], _, _ => .ok ([], [])
  | node :: rest, paths, idx => do
      let kvs ← stepNode part node
      let newPaths ←
        if first then pure (kvs.map (fun kv => [kv.1]))
        else match paths[idx]? with
          | some pre => pure (kvs.map (fun kv => pre ++ [kv.1]))
          | none => if kvs.isEmpty then pure [] else throw .indexError
      let (d', p') ← stepFrontier part first rest paths (idx + 1)
      pure (kvs.map (·.2) ++ d', newPaths ++ p')

def walkParts : List Part → Bool → List PyVal → List (List PyVal) →
    Except Exc (List PyVal × List (List PyVal))
  | [], _, data, paths => .ok (data, paths)
  | part :: rest, first, data, paths => do
      let (d', p') ← stepFrontier part first data paths 0
      walkParts rest false d' p'

/-- `_match_specified_multi_type(out, concrete_paths)` -/
def matchMulti (multi : MultiMod) (concrete : Bool) (out : List PyVal) : R :=
  match multi with
  | .first => match out.head? with | some v => .ok v | none => .error .indexError
  | .last => match out.getLast? with | some v => .ok v | none => .error .indexError
  | .single =>
      if out.length > 1 then .error .valueError
      else match out.head? with | some v => .ok v | none => .error .indexError
  | .all => .ok (.list out)
  | .any => .ok (.list out)
  | .none =>
      if concrete then match out.head? with | some v => .ok v | none => .error .indexError
      else .ok (.list out)

/-- `DataPath.get_data(data, return_paths)`; `data = none` models calling it without data -/
def Path.getData (p : Path) (data : Option PyVal) (returnPaths : Bool) : R := do
  let data ← match p.source with
    | some s => if PyVal.truthy s then pure s else
        match data with
        | some d => if PyVal.truthy d then pure d else throw .valueError
        | none => throw .valueError
    | none => match data with
        | some d => if PyVal.truthy d then pure d else throw .valueError
        | none => throw .valueError
  if p.parts.isEmpty then
    let v ← datumFn p.datum data
    if returnPaths then pure (.tuple [v, .tuple []]) else pure v
  else
    let (nodes, paths) ← walkParts p.parts true [data] []
    if nodes.isEmpty then
      pure (if p.concrete then .none else .list [])
    else
      let vals ← nodes.mapM (datumFn p.datum)
      let out := if returnPaths then (vals.zip paths).map (fun vp => PyVal.tuple [vp.1, .tuple vp.2]) else vals
      matchMulti p.multi p.concrete out

end Valida
