/-
  Valida.AddSchema — `DataPath.__truediv__` and `Schema.add_schema` (valida/schema.py, datapath.py).
-/
import Valida.Rule
namespace Valida
open ValidaGen

/-- `a / b` for two data paths: `DataPath(*a.parts, *b.parts)`.  The parts are handed over as part
    objects, so the result is non-concrete (unless there are no parts at all); datum / multiplicity
    modifiers and bound data of the operands are not carried over. -/
def Path.div (a b : Path) : Path :=
  { parts := a.parts ++ b.parts, concrete := (a.parts ++ b.parts).isEmpty, datum := .none, multi := .none,
    source := none }

/-- the rule `add_schema` adds for a rule of the added schema -/
def reroot (root : Path) (r : RuleM) : RuleM := { r with path := root.div r.path }

/-- `S.add_schema(T, root)`: the rules of S afterwards (S and T given by their rule lists, in
    applied order).  The rules of T are not touched: new rule objects are built. -/
def addSchema (s t : List RuleM) (root : Path) : List RuleM :=
  Schema.mk' (s ++ t.map (reroot root))

end Valida
