/-
  Valida.Eq — every `__eq__` of the library (`Condition`, `ConditionBinaryOp`, `ContainerValue`,
  `MapOrListValue`, `DataPath`, `Rule`, `Schema`), transcribed.
-/
import Valida.Rule
namespace Valida

/-- `dict.__eq__` on keyword dictionaries (string keys): same size, every item of the first present
    with an equal value in the second -/
def kwEq {α : Type} (eqA : α → α → Bool) (a b : List (String × α)) : Bool :=
  a.length == b.length &&
  a.all (fun kv => match lookupStr kv.1 b with
                   | some v => eqA kv.2 v
                   | none => false)

/-- `tuple.__eq__` elementwise -/
def listEq {α : Type} (eqA : α → α → Bool) : List α → List α → Bool
  | [], [] => true
  | x :: xs, y :: ys => eqA x y && listEq eqA xs ys
  | _, _ => false

/-- `Condition.__eq__`: same exact class, `(callable.name, args, kwargs)` equal;
    `ConditionBinaryOp.__eq__`: same class and children equal pairwise or crosswise -/
def condEqWith {α : Type} (eqA : α → α → Bool) : Cond α → Cond α → Bool
  | .leaf a, .leaf b =>
      a.cls == b.cls && a.fn == b.fn && listEq eqA a.args b.args && kwEq eqA a.kwargs b.kwargs
  | .bin op a b, .bin op' a' b' =>
      op == op' &&
      ((condEqWith eqA a a' && condEqWith eqA b b') || (condEqWith eqA a b' && condEqWith eqA b a'))
  | _, _ => false

/-- conditions inside path parts: literal arguments -/
def condEqLit (a b : Cond PyVal) : Bool := condEqWith PyVal.pyEq a b

def optValEq : Option PyVal → Option PyVal → Bool
  | none, none => true
  | some a, some b => PyVal.pyEq a b
  | none, some b => PyVal.pyEq .none b
  | some a, none => PyVal.pyEq a .none

/-- `ContainerValue.__eq__` (+ `MapOrListValue.__eq__`): class, condition, label
    (and the list / map conditions of a map-or-list part) -/
def partEq (a b : Part) : Bool :=
  a.kind == b.kind && condEqLit a.cond b.cond && optValEq a.label b.label &&
  (a.kind != .molv || (condEqLit a.listCond b.listCond && condEqLit a.mapCond b.mapCond))

/-- `DataPath.__eq__` -/
def pathEq (a b : Path) : Bool :=
  listEq partEq a.parts b.parts && a.concrete == b.concrete && a.datum == b.datum && a.multi == b.multi &&
  optValEq a.source b.source

/-- equality of stored arguments: Python `==` between literals, `DataPath.__eq__` between paths,
    never equal across -/
def argEq : Arg → Arg → Bool
  | .lit a, .lit b => PyVal.pyEq a b
  | .path p, .path q => pathEq p q
  | _, _ => false

def condEq (a b : Cond Arg) : Bool := condEqWith argEq a b

/-- `{type: function}` dictionaries -/
def castEq (a b : List (PyType × String)) : Bool :=
  a.length == b.length && a.all (fun tf => b.any (fun tf' => tf.1 == tf'.1 && tf.2 == tf'.2))

/-- `Rule.__eq__`: path, condition, cast (not doc) -/
def ruleEq (a b : RuleM) : Bool := pathEq a.path b.path && condEq a.cond b.cond && castEq a.cast b.cast

/-- `Schema.__eq__` for schemas that have not been validated (`rule_tests is None`) -/
def schemaEq (a b : List RuleM) : Bool := listEq ruleEq a b

end Valida
