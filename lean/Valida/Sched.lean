/-
  Valida.Sched — several validations running against one store in an arbitrary interleaving.

  A validation (valida/schema.py `ValidatedData.__init__`, valida/rules.py `Rule.test`) acts on the
  heap in two ways only: it allocates its private working copy (`copy.deepcopy(data.get_original())`)
  and it writes cast values into that copy (`parent[datum_path[-1]] = datum`).  Which values it
  writes where is a function of the caller's document and the schema – the cast loop selects in the
  *original* document – so a validation is a fixed program `alloc doc :: writes`.  Threads sharing the
  caller's document and the schema interleave the actions of their programs arbitrarily; reads of
  shared objects are not actions (nothing writes to what is shared: C02, C08).
-/
import Valida.Store
namespace Valida
namespace Sched

inductive Act
  | alloc (v : PyVal)
  | write (path : List PyVal) (v : PyVal)
  deriving Repr, Inhabited

structure Thread where
  pending : List Act
  /-- the working copy, once allocated -/
  root : Option Nat
  deriving Repr, Inhabited

/-- the program of one validation: the copy, then the cast write-backs in order -/
def program (doc : PyVal) (writes : List (List PyVal × PyVal)) : List Act :=
  .alloc doc :: writes.map (fun w => .write w.1 w.2)

/-- one action of a thread -/
def stepThread (fuel : Nat) (s : Store) (t : Thread) : Store × Thread :=
  match t.pending with
  | [] => (s, t)
  | .alloc v :: rest =>
      let (s', r) := Store.alloc s fuel v
      (s', { pending := rest, root := some r })
  | .write p v :: rest =>
      match t.root with
      | some r =>
          (match Store.setAt s r p v with
           | some s' => s'
           | none => s, { t with pending := rest })      -- a write that fails changes nothing (as `Store.writes`)
      | none => (s, { t with pending := rest })

/-- run a schedule: the i-th entry names the thread that takes the next step -/
def run (fuel : Nat) : Store → List Thread → List Nat → Store × List Thread
  | s, ts, [] => (s, ts)
  | s, ts, i :: sched =>
      match ts[i]? with
      | some t =>
          let (s', t') := stepThread fuel s t
          run fuel s' (ts.set i t') sched
      | none => run fuel s ts sched

/-- a thread run to completion on its own -/
def alone (fuel : Nat) (s : Store) (doc : PyVal) (writes : List (List PyVal × PyVal)) : Store × Nat :=
  let (s1, r) := Store.alloc s fuel doc
  (Store.writes s1 r writes, r)

end Sched
end Valida
