/-
  Valida.Heap — conditions as *objects* (identity matters): `ConditionBinaryOp.__new__/__init__`
  under CPython's `type.__call__` protocol, i.e. what `a & b`, `a | b`, `a ^ b` and
  `ConditionAnd(a, b)` do to the object graph.

  `type.__call__(cls, a, b)`:  obj = cls.__new__(cls, a, b);
                               if isinstance(obj, cls): obj.__init__(a, b);   return obj
  `__new__` returns one of the operands when the other is a NullCondition, so `__init__` can be
  run on an *existing* object.  Whether `__init__` then leaves that object alone is read from the
  source (`ValidaGen.binopInitGuard`).
-/
import Valida.Cond
import ValidaGen.Tables
namespace Valida
open ValidaGen

inductive HNode
  | leaf (l : Leaf PyVal)
  | bin (op : BinOp) (l r : Nat)
  deriving Repr, Inhabited

abbrev Heap := Array HNode

namespace Heap

def isNullAt (h : Heap) (i : Nat) : Bool :=
  match h[i]? with
  | some (.leaf l) => l.cls == .null
  | _ => false

/-- the object is an instance of the binary class for `op` -/
def isBinOf (h : Heap) (i : Nat) (op : BinOp) : Bool :=
  match h[i]? with
  | some (.bin op' _ _) => op' == op
  | _ => false

/-- the tree an object denotes; `fuel` bounds the depth (a cyclic graph – possible only when an
    existing object is re-initialised – runs out of fuel: Python's RecursionError) -/
def den (h : Heap) : Nat → Nat → Except Exc (Cond PyVal)
  | 0, _ => .error .recursion
  | fuel + 1, i =>
      match h[i]? with
      | none => .error .unmodelled
      | some (.leaf l) => .ok (.leaf l)
      | some (.bin op l r) => do
          let a ← den h fuel l
          let b ← den h fuel r
          pure (.bin op a b)

/-- `flatten()[0]` of an object, as leaves -/
def leavesAt (h : Heap) (fuel : Nat) (i : Nat) : Except Exc (List (Leaf PyVal)) := do
  let c ← den h fuel i
  pure c.leaves

/-- `__init__(self = obj, a, b)`: the heap afterwards (the object may have been written even when
    an exception propagates) and the exception, if any -/
def init (h : Heap) (fuel : Nat) (obj a b : Nat) (op : BinOp) : Heap × Option Exc :=
  -- the guard added by the fix: `if null_condition_binary_check(*conditions) is not None: return`
  if binopInitGuard && (h.isNullAt b || h.isNullAt a) then
    (h, none)
  else
    let h' := h.setIfInBounds obj (.bin op a b)
    match leavesAt h' fuel obj with
    | .error e => (h', some e)
    | .ok ls =>
      let nKey := ls.countP (fun l => Cond.likeOf l.cls == "key")
      let nIdx := ls.countP (fun l => Cond.likeOf l.cls == "index")
      if binopMixCheck && nKey > 0 && nIdx > 0 then (h', some .typeError) else (h', none)

/-- `BinCls(a, b)` (equivalently `a & b` …): the heap afterwards and the object returned or the
    exception raised. -/
def construct (h : Heap) (fuel : Nat) (op : BinOp) (a b : Nat) : Heap × Except Exc Nat :=
  -- __new__: null_condition_binary_check(a, b) or object.__new__(cls)
  if h.isNullAt b then
    -- returns `a`; __init__ runs on it iff it is an instance of the class being called
    if h.isBinOf a op then
      match init h fuel a a b op with
      | (h', none) => (h', .ok a)
      | (h', some e) => (h', .error e)
    else (h, .ok a)
  else if h.isNullAt a then
    if h.isBinOf b op then
      match init h fuel b a b op with
      | (h', none) => (h', .ok b)
      | (h', some e) => (h', .error e)
    else (h, .ok b)
  else
    let obj := h.size
    let h1 := h.push (HNode.bin op a b)     -- the fresh object; `init` sets its children
    match init h1 fuel obj a b op with
    | (h', none) => (h', .ok obj)
    | (h', some e) => (h', .error e)

/-- allocate a leaf object -/
def alloc (h : Heap) (l : Leaf PyVal) : Heap × Nat := (h.push (.leaf l), h.size)

/-- well-formedness: every combination refers to older objects only (hence no cycles) -/
def Acyclic (h : Heap) : Prop :=
  ∀ i op l r, h[i]? = some (HNode.bin op l r) → l < i ∧ r < i

end Heap

/-- one instruction of an object history; operands name the results of earlier instructions -/
inductive HOp
  | leaf (l : Leaf PyVal)
  | comb (op : BinOp) (a b : Nat)
  deriving Repr

/-- run a history.  `objs` holds, per instruction so far, the object it returned (`none` if it
    raised).  Returns the final heap and the outcome of every instruction. -/
def runHistory (fuel : Nat) : Heap → List (Option Nat) → List HOp → Heap × List (Except Exc Nat)
  | h, _, [] => (h, [])
  | h, objs, .leaf l :: rest =>
      let (h', i) := h.alloc l
      let (hf, outs) := runHistory fuel h' (objs ++ [some i]) rest
      (hf, .ok i :: outs)
  | h, objs, .comb op ia ib :: rest =>
      match objs[ia]?, objs[ib]? with
      | some (some a), some (some b) =>
          match Heap.construct h fuel op a b with
          | (h', .ok i) =>
              let (hf, outs) := runHistory fuel h' (objs ++ [some i]) rest
              (hf, .ok i :: outs)
          | (h', .error e) =>
              let (hf, outs) := runHistory fuel h' (objs ++ [none]) rest
              (hf, .error e :: outs)
      | _, _ =>
          let (hf, outs) := runHistory fuel h (objs ++ [none]) rest
          (hf, .error .unmodelled :: outs)

end Valida
