/-
  Valida.Store — documents as *objects*: a store of cells (lists and mappings hold references), so
  that aliasing between the caller's document and the copy validation works on can be expressed.
  Used only for C08 / C15 ("the caller's document is never written").
-/
import Valida.Rule
namespace Valida
open ValidaGen

inductive Cell
  | scalar (v : PyVal)
  | list (items : List Nat)
  | dict (items : List (PyVal × Nat))
  deriving Repr, Inhabited

abbrev Store := Array Cell

namespace Store

/-- the value a reference denotes -/
def read (s : Store) : Nat → Nat → Option PyVal
  | 0, _ => none
  | fuel + 1, r =>
      match s[r]? with
      | none => none
      | some (.scalar v) => some v
      | some (.list items) => (items.mapM (read s fuel)).map PyVal.list
      | some (.dict items) => (items.mapM (fun kv => (read s fuel kv.2).map (fun v => (kv.1, v)))).map PyVal.dict

/-- allocate the structure `v` in fresh cells; returns the store and the reference of its root -/
def alloc (s : Store) : Nat → PyVal → Store × Nat
  | 0, v => (s.push (.scalar v), s.size)
  | fuel + 1, v =>
      match v with
      | .list xs =>
          let (s', refs) := xs.foldl (fun (acc : Store × List Nat) x =>
            let (s1, r) := alloc acc.1 fuel x
            (s1, acc.2 ++ [r])) (s, [])
          (s'.push (.list refs), s'.size)
      | .dict kvs =>
          let (s', refs) := kvs.foldl (fun (acc : Store × List (PyVal × Nat)) kv =>
            let (s1, r) := alloc acc.1 fuel kv.2
            (s1, acc.2 ++ [(kv.1, r)])) (s, [])
          (s'.push (.dict refs), s'.size)
      | x => (s.push (.scalar x), s.size)

/-- `copy.deepcopy(obj)`: fresh cells for the whole structure -/
def deepcopy (s : Store) (fuel : Nat) (r : Nat) : Store × Nat :=
  match read s fuel r with
  | some v => alloc s fuel v
  | none => (s, r)

/-- `Data.get_original()`: a new top-level container holding the *same* children -/
def shallowcopy (s : Store) (r : Nat) : Store × Nat :=
  match s[r]? with
  | some c => (s.push c, s.size)
  | none => (s, r)

/-- the copy validation works on: deep (as in the source) or only shallow -/
def workingCopy (s : Store) (fuel : Nat) (r : Nat) : Store × Nat :=
  if validateDeepCopies then deepcopy s fuel r else shallowcopy s r

def childRef (c : Cell) (key : PyVal) : Option Nat :=
  match c with
  | .dict items => (items.find? (fun kv => PyVal.pyEq key kv.1)).map (·.2)
  | .list items => match Py.asInt key with
      | some i => if 0 ≤ i then items[i.toNat]? else none
      | none => none
  | .scalar _ => none

/-- `parent = root; for key in path[:-1]: parent = parent[key]; parent[path[-1]] = v`:
    the last container cell is rewritten to refer to a fresh scalar cell -/
def setAt (s : Store) : Nat → List PyVal → PyVal → Option Store
  | _, [], _ => some s
  | r, [k], v =>
      match s[r]? with
      | some (.dict items) =>
          if items.any (fun kv => PyVal.pyEq k kv.1) then
            let nr := s.size
            some ((s.push (.scalar v)).setIfInBounds r (.dict (items.map (fun kv => if PyVal.pyEq k kv.1 then (kv.1, nr) else kv))))
          else none
      | some (.list items) =>
          match Py.asInt k with
          | some i => if 0 ≤ i ∧ i.toNat < items.length then
                let nr := s.size
                some ((s.push (.scalar v)).setIfInBounds r (.list (items.set i.toNat nr)))
              else none
          | none => none
      | _ => none
  | r, k :: rest, v =>
      match s[r]? with
      | some c => match childRef c k with
          | some r' => setAt s r' rest v
          | none => none
      | none => none

/-- references reachable from `r` (within fuel) -/
def reach (s : Store) : Nat → Nat → List Nat
  | 0, r => [r]
  | fuel + 1, r =>
      r :: (match s[r]? with
        | some (.list items) => items.flatMap (reach s fuel)
        | some (.dict items) => items.flatMap (fun kv => reach s fuel kv.2)
        | _ => [])

/-- a sequence of cast write-backs through the copy's root -/
def writes (s : Store) (root : Nat) : List (List PyVal × PyVal) → Store
  | [] => s
  | (path, v) :: rest =>
      match setAt s root path v with
      | some s' => writes s' root rest
      | none => writes s root rest

end Store
end Valida
