/-
  Valida.Repr — `repr()` of the value domain and of a single condition
  (valida/conditions.py `Condition.__repr__`), as far as the failure report needs it.

  `repr(str)`: printable ASCII, `\t \n \r` and the other C0 controls are modelled; any character
  from U+0080 on depends on the Unicode database (`str.isprintable`) and is `unmodelled`.
  `repr(float)`: the shortest decimal text that reads back as the same double, the closest to the
  true value among those (CPython `float_repr_style == 'short'`), in fixed notation when
  `-4 < decpt <= 16` and in exponent notation otherwise.
-/
import Valida.Py.Ops
import Valida.Cond
import Valida.Rule
namespace Valida
namespace Repr

def hexDigit (n : Nat) : Char := if n < 10 then Char.ofNat (48 + n) else Char.ofNat (87 + n)

/-- one character inside `repr(str)` quoted with `q` -/
def escChar (q : Char) (c : Char) : Except Exc (List Char) :=
  if c == '\\' then .ok ['\\', '\\']
  else if c == q then .ok ['\\', q]
  else if c == '\t' then .ok ['\\', 't']
  else if c == '\n' then .ok ['\\', 'n']
  else if c == '\r' then .ok ['\\', 'r']
  else if c.toNat < 32 || c.toNat == 127 then .ok ['\\', 'x', hexDigit (c.toNat / 16), hexDigit (c.toNat % 16)]
  else if c.toNat < 127 then .ok [c]
  else .error .unmodelled

def escChars (q : Char) : List Char → Except Exc (List Char)
  | [] => .ok []
  | c :: rest => do
      let a ← escChar q c
      let b ← escChars q rest
      pure (a ++ b)

/-- `repr(s)` for a `str` -/
def reprStr (s : String) : Except Exc String := do
  let cs := s.toList
  let q : Char := if cs.contains '\'' && !cs.contains '"' then '"' else '\''
  let body ← escChars q cs
  pure (String.ofList ([q] ++ body ++ [q]))

/-! ### floats -/

/-- the double nearest to `num / den` (round half to even), in units of 2^-1074 -/
def nearestDoubleQ (num den : Nat) : Nat :=
  let n := num * 2 ^ 1074
  let q := n / den
  let bits := if q == 0 then 0 else Nat.log2 q + 1
  let shift := bits - 53
  let d := den * 2 ^ shift
  let q' := n / d
  let rem := n % d
  let q'' := if 2 * rem > d || (2 * rem == d && q' % 2 == 1) then q' + 1 else q'
  q'' * 2 ^ shift

/-- smallest `z ≤ fuel` with `k * 10^z ≥ bound` -/
def upTo (k bound : Nat) : Nat → Nat → Nat
  | 0, z => z
  | fuel + 1, z => if k * 10 ^ z ≥ bound then z else upTo k bound fuel (z + 1)

/-- `decpt`: the `e` with `10^(e-1) ≤ k / 2^1074 < 10^e`, for `k > 0` -/
def decpt (k : Nat) : Int :=
  let one := 2 ^ 1074
  if k ≥ one then Int.ofNat (toString (k / one)).length
  else
    -- smallest z ≥ 1 with k * 10^z ≥ 2^1074: then 10^(-z) ≤ v < 10^(1-z)
    let z := upTo k one 400 1
    1 - Int.ofNat z

/-- the value `m · 10^(e-n)` as a fraction -/
def candFrac (m : Nat) (sh : Int) : Nat × Nat :=
  if sh ≥ 0 then (m, 10 ^ sh.toNat) else (m * 10 ^ (-sh).toNat, 1)

/-- the `n`-digit decimal (mantissa and decimal point position) that reads back as `k`, closest
    to the value, if any; the upper neighbour of `99…9` is `10^n`, i.e. `10…0` one place higher -/
def shortestAt (k : Nat) (e : Int) (n : Nat) : Option (Nat × Int) :=
  let sh : Int := Int.ofNat n - e          -- candidates are m / 10^sh
  let one := 2 ^ 1074
  -- v * 10^sh = k * 10^sh / 2^1074
  let (num, den) := if sh ≥ 0 then (k * 10 ^ sh.toNat, one) else (k, one * 10 ^ (-sh).toNat)
  let lo := num / den
  let hi := lo + 1
  let ok (m : Nat) : Bool :=
    let (a, b) := candFrac m sh
    m ≥ 10 ^ (n - 1) && m ≤ 10 ^ n && nearestDoubleQ a b == k
  let norm (m : Nat) : Nat × Int := if m == 10 ^ n then (10 ^ (n - 1), e + 1) else (m, e)
  let twice := 2 * num                     -- compare v*10^sh - lo with hi - v*10^sh
  let dLo := twice - 2 * lo * den
  let dHi := 2 * hi * den - twice
  -- exactly half-way: the even digit (dtoa's round-half-even)
  let loCloser := dLo < dHi || (dLo == dHi && lo % 2 == 0)
  if num % den == 0 && ok lo then some (norm lo)
  else if ok lo && ok hi then (if loCloser then some (norm lo) else some (norm hi))
  else if ok lo then some (norm lo)
  else if ok hi then some (norm hi)
  else none

def shortestFrom (k : Nat) (e : Int) : Nat → Nat → Option (Nat × Int × Nat)
  | 0, _ => none
  | fuel + 1, n =>
      match shortestAt k e n with
      | some (m, e') => some (m, e', n)
      | none => shortestFrom k e fuel (n + 1)

def zeros (n : Nat) : String := String.ofList (List.replicate n '0')

/-- `repr(x)` for a positive finite double `k · 2^-1074` -/
def reprPosFloat (k : Nat) : Except Exc String :=
  match shortestFrom k (decpt k) 17 1 with
  | none => .error .unmodelled
  | some (m, e, n0) =>
    -- trailing zeros (only after a carry) are not digits of the shortest text
    let ds0 := (toString m).toList
    let dsl := (ds0.reverse.dropWhile (· == '0')).reverse
    let ds := String.ofList dsl
    let n := if dsl.length == 0 then n0 else dsl.length
    if e > -4 && e ≤ 16 then
      if e ≤ 0 then .ok ("0." ++ zeros (-e).toNat ++ ds)
      else if e.toNat ≥ n then .ok (ds ++ zeros (e.toNat - n) ++ ".0")
      else .ok (String.ofList (ds.toList.take e.toNat) ++ "." ++ String.ofList (ds.toList.drop e.toNat))
    else
      let x := e - 1
      let mant := if n == 1 then ds else String.ofList (ds.toList.take 1) ++ "." ++ String.ofList (ds.toList.drop 1)
      let ax := x.natAbs
      let xs := if ax < 10 then "0" ++ toString ax else toString ax
      .ok (mant ++ "e" ++ (if x < 0 then "-" else "+") ++ xs)

def reprFloat (k : Int) : Except Exc String :=
  if k == 0 then .ok "0.0"
  else if k > 0 then reprPosFloat k.toNat
  else do
    let s ← reprPosFloat (-k).toNat
    pure ("-" ++ s)

def typeName : PyType → Except Exc String
  | .none => .ok "NoneType" | .bool => .ok "bool" | .int => .ok "int" | .float => .ok "float"
  | .str => .ok "str" | .list => .ok "list" | .tuple => .ok "tuple" | .dict => .ok "dict"
  | .path => .ok "pathlib.Path" | .type => .ok "type" | .obj => .error .unmodelled

mutual
/-- `repr(x)` -/
def pyRepr : PyVal → Except Exc String
  | .none => .ok "None"
  | .bool b => .ok (if b then "True" else "False")
  | .int n =>
      -- `sys.get_int_max_str_digits()`: more than 4300 digits is a `ValueError` (CPython ≥ 3.11)
      if n.natAbs ≥ 10 ^ 4300 then .error .valueError else .ok (toString n)
  | .float k => reprFloat k
  | .str s => reprStr s
  | .list xs => do
      let parts ← pyReprL xs
      pure ("[" ++ String.intercalate ", " parts ++ "]")
  | .tuple xs => do
      let parts ← pyReprL xs
      match parts with
      | [p] => pure ("(" ++ p ++ ",)")
      | _ => pure ("(" ++ String.intercalate ", " parts ++ ")")
  | .dict kvs => do
      let parts ← pyReprD kvs
      pure ("{" ++ String.intercalate ", " parts ++ "}")
  | .type t => do
      let n ← typeName t
      pure ("<class '" ++ n ++ "'>")
  | .obj _ => .error .unmodelled
termination_by structural x => x
def pyReprL : List PyVal → Except Exc (List String)
  | [] => .ok []
  | x :: xs => do
      let a ← pyRepr x
      let b ← pyReprL xs
      pure (a :: b)
termination_by structural x => x
def pyReprD : List (PyVal × PyVal) → Except Exc (List String)
  | [] => .ok []
  | (k, v) :: rest => do
      let a ← pyRepr k
      let b ← pyRepr v
      let c ← pyReprD rest
      pure ((a ++ ": " ++ b) :: c)
termination_by structural x => x
end

def argRepr : Arg → Except Exc String
  | .lit v => pyRepr v
  | .path _ => .error .unmodelled

/-- `Condition.__repr__`: `Cls.name(args…, k=v…)`; `NullCondition()` -/
def leafRepr (l : Leaf Arg) : Except Exc String :=
  if l.cls == .null then .ok "NullCondition()" else do
    let a ← l.args.mapM argRepr
    let kw ← l.kwargs.mapM (fun kv => do
      let r ← argRepr kv.2
      pure (kv.1 ++ "=" ++ r))
    pure (l.cls.name ++ "." ++ l.fn ++ "(" ++ String.intercalate ", " (a ++ kw) ++ ")")

end Repr
end Valida
