/-
  C10 (headline) – part specs, path specs and rule specs build the same objects as the Python API.

  (a) a part given as a mapping `{type, key… / index…, value…, label}` – each datum condition in the
      long form `key: <condition spec>` or as the shorthand `key.<callable>: args`, the entries in
      ANY order – is the part that `MapValue` / `ListValue` / `MapOrListValue` builds from the same
      conditions;
  (b) `from_part_specs` on primitives and such mappings is `DataPath(...)` on the primitives and the
      API parts, and the suffixes of a path spec are the modifier methods;
  (c) a rule spec is `Rule(path, condition, cast)`.

  "The same": identical, except that the parser joins a value condition and a key (index) condition as
  `value & key` where the constructor builds `key & value` (`PartSame`); `ContainerValue.__eq__`
  compares the two operands of `&` pairwise or crosswise, so the parts are equal (`partEq`) whenever
  the API part equals itself.

  Restriction (finding D26): at most ONE entry per datum and no `condition` / `list_condition` /
  `map_condition` entry.  With three or more components the parser and the constructor associate the
  `&`-combination differently (`(condition & value) & key` against `(condition & key) & value`), and
  `__eq__` – which only looks at the two operands of the top `&` – says the parts differ, although
  they select the same nodes; see `C10_three_components_differ`.
-/
import Valida.Spec.Parse
import Valida.Eq
import ValidaProofs.Lemmas.C10SpecPath
import ValidaProofs.C10
namespace ValidaProofs
open Valida ValidaGen
open C10S (Dat Ent kvs optKv dspec PartSame PathSame SameResult ArgRel All2)

/-- `e` is an entry of a part spec for the datum `d` (`key`, `index` or `value`): in the long form
    `d: <condition spec>` or as the shorthand `d.<callable>: args` (read as the one-entry condition spec
    `{d.<callable>: args}`); the condition spec parses, with `fuel`, to `e.c`, and `e.c` is a condition
    of the datum's kind (all its single conditions are key-like / index-like / value-like) -/
def EntryOk (fuel : Nat) (d : Dat) (e : Ent) : Prop :=
  ((e.name = d.name ∧ parseCond fuel e.arg = .ok e.c) ∨
   (d.dot.toList.isPrefixOf e.name.toList = true ∧ parseCond fuel (.dict [(.str e.name, e.arg)]) = .ok e.c)) ∧
  (litCond e.c).isLike d.name = true

/-- the API constructor of the kind on the conditions of the entries -/
def apiPart (kind : PartKind) (K I V : Option Ent) (label : Option PyVal) : Except Exc Part :=
  match kind with
  | .map => Part.mkMap (dspec K) (dspec V) none label
  | .list => Part.mkList (dspec I) (dspec V) none label
  | .molv => Part.mkMolv (dspec K) (dspec I) (dspec V) none none none label

theorem parseCond_none (fuel : Nat) (c : Cond Arg) (h : parseCond fuel .none = .ok c) : c = Cond.null := by
  cases fuel with
  | zero => rw [parseCond.eq_1] at h; cases h
  | succ f =>
    unfold parseCond at h
    simp only [PyVal.truthy, Bool.not_false, if_true] at h
    cases h; rfl

theorem entryOk_opt (fuel : Nat) (d : Dat) (o : Option Ent) (h : ∀ e, o = some e → EntryOk fuel d e) :
    C10S.OptOk d (parseCond fuel) o := by
  intro e he
  obtain ⟨h1 | h1, h2⟩ := h e he
  · refine Or.inl ⟨h1.1, ?_, h1.2, h2⟩
    intro hn
    rw [hn] at h1
    rw [parseCond_none fuel e.c h1.2] at h2
    cases d <;> exact absurd h2 (by decide)
  · exact Or.inr ⟨h1.1, h1.2, h2⟩

-- STATEMENT (restriction, finding D26): one entry per datum at most, no `condition` /
-- `list_condition` / `map_condition` entry; the conclusion is `PartSame` (identical up to the order of the
-- operands of the one `&`), and `partEq` under the hypothesis that the API part equals itself.  Both are
-- needed: see `C10_three_components_differ` (three components: `partEq` is `false`) and the remark on
-- self-equality in `C13Schema.lean` (a keyword list with a repeated name is not equal to itself).
/-- **(a) A part spec is the API part.**  For every kind: a mapping made of the `type` entry (optional
    for a map-or-list part), at most one key entry (map, map-or-list), at most one index entry (list,
    map-or-list), at most one value entry – each in the long form or as a shorthand – and possibly a
    `label`, *in any order* (`spec.Perm …`), parses to a part `p`; the constructor of the kind applied
    to the same conditions and the label returns a part `q`; `p` and `q` are the same part up to the
    order of the operands of `&`, and equal (`ContainerValue.__eq__`) if `q` equals itself. -/
theorem C10_part_spec_is_api (fuel : Nat) (kind : PartKind) (ty : Option PyVal) (K I V : Option Ent)
    (L : Option PyVal) (spec : List (PyVal × PyVal))
    (hty : C10S.TyOk ty kind)
    (hK : ∀ e, K = some e → EntryOk fuel .key e) (hI : ∀ e, I = some e → EntryOk fuel .index e)
    (hV : ∀ e, V = some e → EntryOk fuel .value e)
    (hmap : kind = .map → I = none) (hlist : kind = .list → K = none)
    (hspec : spec.Perm (optKv "type" ty ++ (kvs K ++ (kvs I ++ (kvs V ++ optKv "label" L))))) :
    ∃ p q, parsePart (fuel + 1) spec = .ok p ∧ apiPart kind K I V (normLabel L) = .ok q ∧
      PartSame p q ∧ (partEq q q = true → partEq p q = true) := by
  have oK := entryOk_opt fuel .key K hK
  have oI := entryOk_opt fuel .index I hI
  have oV := entryOk_opt fuel .value V hV
  rw [C10L.parsePart_succ]
  rcases hty with ⟨rfl, rfl⟩ | ⟨rfl, rfl⟩ | hty
  · -- map
    rw [hmap rfl] at hspec
    simp only [kvs, List.nil_append] at hspec
    obtain ⟨p, q, h1, h2, h3⟩ := C10S.part_map (parseCond fuel) spec K V L oK oV
      (hspec.trans ((C10S.perm_mid _ _ _).append_left _))
    exact ⟨p, q, h1, h2, h3, C10S.partSame_partEq p q h3⟩
  · -- list
    rw [hlist rfl] at hspec
    simp only [kvs, List.nil_append] at hspec
    obtain ⟨p, q, h1, h2, h3⟩ := C10S.part_list (parseCond fuel) spec I V L oI oV
      (hspec.trans ((C10S.perm_mid _ _ _).append_left _))
    exact ⟨p, q, h1, h2, h3, C10S.partSame_partEq p q h3⟩
  · -- map-or-list
    have hk : kind = .molv := by rcases hty with ⟨_, h⟩ | ⟨_, h⟩ <;> exact h
    have hty' : ty = none ∨ ty = some (.str "map_or_list_value") := by
      rcases hty with ⟨h, _⟩ | ⟨h, _⟩
      · exact Or.inr h
      · exact Or.inl h
    subst hk
    have hperm : (kvs K ++ (kvs I ++ (kvs V ++ optKv "label" L))).Perm
        (kvs V ++ (kvs I ++ (kvs K ++ optKv "label" L))) :=
      ((C10S.perm_mid _ _ _).trans (((C10S.perm_mid _ _ _).append_left _))).trans (C10S.perm_mid _ _ _)
    obtain ⟨p, h1, h2⟩ := C10S.part_molv (parseCond fuel) spec ty K I V L hty' oK oI oV
      (hspec.trans (hperm.append_left _))
    exact ⟨p, p, h1, h2, C10S.PartSame.rfl' p, fun h => h⟩

/-- … for a map-or-list part the parsed part *is* the API part -/
theorem C10_molv_spec_is_api (fuel : Nat) (ty : Option PyVal) (K I V : Option Ent) (L : Option PyVal)
    (spec : List (PyVal × PyVal)) (hty : ty = none ∨ ty = some (.str "map_or_list_value"))
    (hK : ∀ e, K = some e → EntryOk fuel .key e) (hI : ∀ e, I = some e → EntryOk fuel .index e)
    (hV : ∀ e, V = some e → EntryOk fuel .value e)
    (hspec : spec.Perm (optKv "type" ty ++ (kvs V ++ (kvs I ++ (kvs K ++ optKv "label" L))))) :
    ∃ p, parsePart (fuel + 1) spec = .ok p ∧
      Part.mkMolv (dspec K) (dspec I) (dspec V) none none none (normLabel L) = .ok p := by
  rw [C10L.parsePart_succ]
  exact C10S.part_molv (parseCond fuel) spec ty K I V L hty (entryOk_opt fuel .key K hK)
    (entryOk_opt fuel .index I hI) (entryOk_opt fuel .value V hV) hspec

/-- … and with one datum condition only (no `&` to commute) the parsed part is the API part for the
    other kinds too: a corollary of `PartSame` -/
theorem C10_part_same_eq (p q : Part) (h : PartSame p q) (hc : ∀ op a b, q.cond ≠ .bin op a b) : p = q := by
  obtain ⟨k, c, lc, mc, l⟩ := p
  obtain ⟨k', c', lc', mc', l'⟩ := q
  obtain ⟨h1, h2, h3, h4, h5⟩ := h
  simp only at h1 h2 h3 h4 h5 hc
  subst h1 h3 h4 h5
  rcases h2 with rfl | ⟨x, y, rfl, rfl⟩
  · rfl
  · exact absurd rfl (hc _ _ _)

/-- the restriction to at most one entry per datum and no `condition` entry is needed (D26): with a
    `condition`, a key and a value the parser builds `(condition & value) & key`, the constructor
    `(condition & key) & value`, and `__eq__` says they differ (the API part does equal itself) -/
theorem C10_three_components_differ :
    (match parsePart 6 [(.str "type", .str "map_value"), (.str "key.equal_to", .str "a"),
              (.str "value.length.lt", .int 3), (.str "condition", .dict [(.str "value.type.eq", .str "int")])],
           Part.mkMap (.cond (eqLeaf .key (.str "a")))
              (.cond (.leaf { cls := .valueLength, fn := "less_than", args := [], kwargs := [("value", .int 3)] }))
              (some (.leaf { cls := .valueDataType, fn := "equal_to", args := [], kwargs := [("value", .type .int)] }))
              none with
     | .ok p, .ok q => !partEq p q && partEq q q
     | _, _ => false) = true := by
  decide +kernel

/-! ### (b) paths -/

/-- **(b) A list of part specs is the API path.**  Each spec is a primitive (handed on as it is) or a
    mapping that parses to a part the same as the API part in its place (`ArgRel`, e.g. by (a)); if
    `DataPath(*args)` builds `P`, then `from_part_specs(*specs)` builds a path `P'` that is the same as
    `P` part by part, concrete iff every spec is a primitive, without modifiers and bound data – and
    equal to it (`DataPath.__eq__`) if `P` equals itself. -/
theorem C10_path_spec_is_api (fuel : Nat) (specs : List PyVal) (args : List PartArg) (P : Path)
    (h : All2 (ArgRel fuel) specs args) (hP : Path.mk' args = .ok P) :
    ∃ P', fromPartSpecs (fuel + 1) specs = .ok P' ∧ PathSame P' P ∧
      (P'.concrete = true ↔ ∀ s ∈ specs, ∀ kvs, s ≠ .dict kvs) ∧
      (pathEq P P = true → pathEq P' P = true) := by
  obtain ⟨P', h1, h2⟩ := C10S.path_spec fuel specs args P h hP
  refine ⟨P', h1, h2, ?_, C10S.pathSame_pathEq P' P h2⟩
  rw [h2.concrete, C10L.mk'_concrete args P hP]
  clear hP h1 h2
  induction h with
  | nil => simp
  | cons h1 _ ih =>
    cases h1 with
    | prim _ hv =>
      simp only [List.all_cons, C10L.argIsPrim, Bool.true_and, ih, List.mem_cons, forall_eq_or_imp]
      exact ⟨fun h => ⟨hv, h⟩, fun h => h.2⟩
    | part kvs p q hp hs =>
      simp only [List.all_cons, C10L.argIsPrim, Bool.false_and, Bool.false_eq_true, List.mem_cons,
        forall_eq_or_imp, false_iff, not_and]
      intro hh
      exact absurd rfl (hh kvs)

/-- the modifier methods give the same result on the same paths -/
theorem C10_modifiers_same (P' P : Path) (h : PathSame P' P) (d : DatumMod) (m : MultiMod) :
    SameResult (P'.withDatum d) (P.withDatum d) ∧ SameResult (P'.withMulti m) (P.withMulti m) ∧
    SameResult ((P'.withDatum d).bind (fun q => q.withMulti m)) ((P.withDatum d).bind (fun q => q.withMulti m)) ∧
    SameResult ((P'.withMulti m).bind (fun q => q.withDatum d)) ((P.withMulti m).bind (fun q => q.withDatum d)) :=
  ⟨C10S.withDatum_same P' P h d, C10S.withMulti_same P' P h m,
   C10S.bind_same _ _ _ (C10S.withDatum_same P' P h d) (fun a b hab => C10S.withMulti_same a b hab m),
   C10S.bind_same _ _ _ (C10S.withMulti_same P' P h m) (fun a b hab => C10S.withDatum_same a b hab d)⟩

/-- **… with suffixes**: a path spec `{path[.suffix…]: specs}` is the API path with the modifier methods
    applied (`C10_suffixes` for the suffix tokens, `C10_modifiers_same` for the methods): each spelling
    returns `r.map Sniffed.path` for a result `r` that is the same as the API's -/
theorem C10_path_spec_suffixes_is_api (fuel : Nat) (specs : List PyVal) (args : List PartArg) (P : Path)
    (h : All2 (ArgRel fuel) specs args) (hP : Path.mk' args = .ok P) :
    (∃ P', parsePathSpec (fuel + 2) (.dict [(.str "path", .list specs)]) = .ok (.path P') ∧ PathSame P' P) ∧
    (∃ r, parsePathSpec (fuel + 2) (.dict [(.str "path.len", .list specs)]) = r.map Sniffed.path ∧
      SameResult r (P.withDatum .length)) ∧
    (∃ r, parsePathSpec (fuel + 2) (.dict [(.str "path.type", .list specs)]) = r.map Sniffed.path ∧
      SameResult r (P.withDatum .dtype)) ∧
    (∃ r, parsePathSpec (fuel + 2) (.dict [(.str "path.first", .list specs)]) = r.map Sniffed.path ∧
      SameResult r (P.withMulti .first)) ∧
    (∃ r, parsePathSpec (fuel + 2) (.dict [(.str "path.map_keys.single", .list specs)]) = r.map Sniffed.path ∧
      SameResult r ((P.withDatum .mapKeys).bind (fun q => q.withMulti .single))) ∧
    (∃ r, parsePathSpec (fuel + 2) (.dict [(.str "path.single.map_keys", .list specs)]) = r.map Sniffed.path ∧
      SameResult r ((P.withMulti .single).bind (fun q => q.withDatum .mapKeys))) := by
  obtain ⟨P', h1, h2⟩ := C10S.path_spec fuel specs args P h hP
  obtain ⟨s1, _, s3, s4, s5, s6, s7⟩ := C10_suffixes fuel (.list specs) P' specs rfl h1
  exact ⟨⟨P', s1, h2⟩,
    ⟨_, s3, (C10_modifiers_same P' P h2 .length .first).1⟩,
    ⟨_, s4, (C10_modifiers_same P' P h2 .dtype .first).1⟩,
    ⟨_, s5, (C10_modifiers_same P' P h2 .length .first).2.1⟩,
    ⟨_, s6, (C10_modifiers_same P' P h2 .mapKeys .single).2.2.1⟩,
    ⟨_, s7, (C10_modifiers_same P' P h2 .mapKeys .single).2.2.2⟩⟩

/-! ### (c) rules -/

/-- **(c) A rule spec is the API rule.**  `{path: specs, condition: cspec[, cast: {str: int | bool}]}`
    whose path specs are as in (b) and whose condition spec parses to `c` parses to a rule with that
    condition, that cast, and a path the same as the API path `P` – equal (`Rule.__eq__`) to
    `Rule(P, c, cast)` whenever `P` and `c` equal themselves. -/
theorem C10_rule_spec_is_api (fuel : Nat) (specs : List PyVal) (args : List PartArg) (P : Path)
    (cspec : PyVal) (c : Cond Arg)
    (h : All2 (ArgRel fuel) specs args) (hP : Path.mk' args = .ok P) (hc : parseCond (fuel + 1) cspec = .ok c) :
    (∃ r, parseRule (fuel + 1) (.dict [(.str "path", .list specs), (.str "condition", cspec)]) = .ok r ∧
        r.rule.cond = c ∧ r.rule.cast = [] ∧ r.doc = none ∧ PathSame r.rule.path P ∧
        (pathEq P P = true → condEq c c = true → ruleEq r.rule { path := P, cond := c, cast := [] } = true)) ∧
    (∃ r, parseRule (fuel + 1) (.dict [(.str "condition", cspec), (.str "cast", .dict [(.str "str", .str "int")]),
          (.str "path", .list specs)]) = .ok r ∧
        r.rule.cond = c ∧ r.rule.cast = [(PyType.str, "int")] ∧ PathSame r.rule.path P ∧
        (pathEq P P = true → condEq c c = true →
          ruleEq r.rule { path := P, cond := c, cast := [(PyType.str, "int")] } = true)) := by
  obtain ⟨P', h1, h2⟩ := C10S.path_spec fuel specs args P h hP
  obtain ⟨⟨r1, a1, a2, a3, a4, a5⟩, ⟨r2, b1, b2, b3, b4⟩, _⟩ :=
    C10_rule_fields (fuel + 1) (.list specs) cspec specs P' c rfl h1 hc
  refine ⟨⟨r1, a1, a3, a4, a5, a2 ▸ h2, ?_⟩, ⟨r2, b1, b3, b4, b2 ▸ h2, ?_⟩⟩
  · intro e1 e2
    simp only [ruleEq, a2, a3, a4, C10S.pathSame_pathEq P' P h2 e1, e2, Bool.true_and]
    decide
  · intro e1 e2
    simp only [ruleEq, b2, b3, b4, C10S.pathSame_pathEq P' P h2 e1, e2, Bool.true_and]
    decide

/-! ### non-vacuity: the theorems on concrete specs -/

theorem parse_key_equal_to (fuel : Nat) :
    parseCond (fuel + 3) (.dict [(.str "key.equal_to", .str "a")]) =
      .ok (.leaf { cls := .key, fn := "equal_to", args := [], kwargs := [("value", .lit (.str "a"))] }) := by
  rw [parseCond.eq_2]; rfl

theorem parse_value_length_lt (fuel : Nat) :
    parseCond (fuel + 3) (.dict [(.str "value.length.lt", .int 3)]) =
      .ok (.leaf { cls := .valueLength, fn := "less_than", args := [], kwargs := [("value", .lit (.int 3))] }) := by
  rw [parseCond.eq_2]; rfl

theorem parse_index_in (fuel : Nat) :
    parseCond (fuel + 3) (.dict [(.str "index.in", .list [.int 0, .int 2])]) =
      .ok (.leaf { cls := .index, fn := "in_", args := [], kwargs := [("value", .lit (.list [.int 0, .int 2]))] }) := by
  rw [parseCond.eq_2]; rfl

/-- `{label: "x", value.length.lt: 3, key.equal_to: "a", type: map_value}` (shorthands, the entries in
    an order of no significance) is `MapValue(key=Key.equal_to("a"), value=ValueLength.less_than(3),
    label="x")` – through `C10_part_spec_is_api` -/
theorem C10_part_spec_example_map (fuel : Nat) :
    ∃ p q,
      parsePart (fuel + 4) [(.str "label", .str "x"), (.str "value.length.lt", .int 3),
        (.str "key.equal_to", .str "a"), (.str "type", .str "map_value")] = .ok p ∧
      Part.mkMap (.cond (eqLeaf .key (.str "a")))
        (.cond (.leaf { cls := .valueLength, fn := "less_than", args := [], kwargs := [("value", .int 3)] }))
        none (some (.str "x")) = .ok q ∧
      PartSame p q ∧ partEq p q = true := by
  obtain ⟨p, q, h1, h2, h3, h4⟩ := C10_part_spec_is_api (fuel + 3) .map (some (.str "map_value"))
    (some ⟨"key.equal_to", .str "a", .leaf { cls := .key, fn := "equal_to", args := [], kwargs := [("value", .lit (.str "a"))] }⟩)
    none
    (some ⟨"value.length.lt", .int 3, .leaf { cls := .valueLength, fn := "less_than", args := [], kwargs := [("value", .lit (.int 3))] }⟩)
    (some (.str "x"))
    [(.str "label", .str "x"), (.str "value.length.lt", .int 3), (.str "key.equal_to", .str "a"), (.str "type", .str "map_value")]
    (Or.inl ⟨rfl, rfl⟩)
    (by intro e he; cases he; exact ⟨Or.inr ⟨by decide, parse_key_equal_to fuel⟩, by decide⟩)
    (by intro e he; cases he)
    (by intro e he; cases he; exact ⟨Or.inr ⟨by decide, parse_value_length_lt fuel⟩, by decide⟩)
    (fun _ => rfl) (by intro h; cases h)
    (List.reverse_perm [(PyVal.str "type", PyVal.str "map_value"), (.str "key.equal_to", .str "a"),
      (.str "value.length.lt", .int 3), (.str "label", .str "x")])
  refine ⟨p, q, h1, h2, h3, h4 ?_⟩
  have : q = { kind := .map, cond := .bin .and (eqLeaf .key (.str "a")) (.leaf { cls := .valueLength, fn := "less_than", args := [], kwargs := [("value", .int 3)] }), listCond := Cond.null, mapCond := Cond.null, label := some (.str "x") } := by
    have h2' : apiPart .map _ _ _ _ = Except.ok _ := h2
    cases h2'; rfl
  subst this
  decide +kernel

/-- `{type: list_value, index: {index.in: [0, 2]}}` (long form) is `ListValue(index=Index.in_([0, 2]))`:
    here the very same part -/
theorem C10_part_spec_example_list (fuel : Nat) :
    ∃ p,
      parsePart (fuel + 4) [(.str "type", .str "list_value"),
        (.str "index", .dict [(.str "index.in", .list [.int 0, .int 2])])] = .ok p ∧
      Part.mkList (.cond (.leaf { cls := .index, fn := "in_", args := [], kwargs := [("value", .list [.int 0, .int 2])] }))
        .none none none = .ok p := by
  obtain ⟨p, q, h1, h2, h3, _⟩ := C10_part_spec_is_api (fuel + 3) .list (some (.str "list_value"))
    none
    (some ⟨"index", .dict [(.str "index.in", .list [.int 0, .int 2])],
      .leaf { cls := .index, fn := "in_", args := [], kwargs := [("value", .lit (.list [.int 0, .int 2]))] }⟩)
    none none
    [(.str "type", .str "list_value"), (.str "index", .dict [(.str "index.in", .list [.int 0, .int 2])])]
    (Or.inr (Or.inl ⟨rfl, rfl⟩))
    (by intro e he; cases he)
    (by intro e he; cases he; exact ⟨Or.inl ⟨rfl, parse_index_in fuel⟩, by decide⟩)
    (by intro e he; cases he)
    (by intro h; cases h) (fun _ => rfl)
    (List.Perm.refl _)
  have h2' : Part.mkList (.cond (.leaf { cls := .index, fn := "in_", args := [], kwargs := [("value", .list [.int 0, .int 2])] }))
      .none none none = .ok q := h2
  have hq : ∀ op a b, q.cond ≠ .bin op a b := by
    have : q = { kind := .list, cond := .leaf { cls := .index, fn := "in_", args := [], kwargs := [("value", .list [.int 0, .int 2])] }, listCond := Cond.null, mapCond := Cond.null, label := none } := by
      cases h2'; rfl
    subst this
    intro op a b hh; cases hh
  rw [C10_part_same_eq p q h3 hq] at h1
  exact ⟨q, h1, h2'⟩

/-- the path spec `["a", {type: list_value, index: {index.in: [0, 2]}}]` is
    `DataPath("a", ListValue(index=Index.in_([0, 2])))`, and the rule spec with that path, the condition
    `{value.length.lt: 3}` and the cast `{str: int}` is the API rule – through (b) and (c) -/
theorem C10_rule_spec_example (fuel : Nat) :
    ∃ q P r,
      Part.mkList (.cond (.leaf { cls := .index, fn := "in_", args := [], kwargs := [("value", .list [.int 0, .int 2])] }))
        .none none none = .ok q ∧
      Path.mk' [.prim (.str "a"), .part q] = .ok P ∧
      parseRule (fuel + 5) (.dict [(.str "condition", .dict [(.str "value.length.lt", .int 3)]),
        (.str "cast", .dict [(.str "str", .str "int")]),
        (.str "path", .list [.str "a", .dict [(.str "type", .str "list_value"),
          (.str "index", .dict [(.str "index.in", .list [.int 0, .int 2])])]])]) = .ok r ∧
      ruleEq r.rule { path := P, cond := .leaf { cls := .valueLength, fn := "less_than", args := [], kwargs := [("value", .lit (.int 3))] }, cast := [(PyType.str, "int")] } = true := by
  obtain ⟨q, hq1, hq2⟩ := C10_part_spec_example_list fuel
  have hq : q = { kind := .list, cond := .leaf { cls := .index, fn := "in_", args := [], kwargs := [("value", .list [.int 0, .int 2])] }, listCond := Cond.null, mapCond := Cond.null, label := none } := by
    cases hq2; rfl
  have hrel : All2 (ArgRel (fuel + 4)) [.str "a", .dict [(.str "type", .str "list_value"),
      (.str "index", .dict [(.str "index.in", .list [.int 0, .int 2])])]] [.prim (.str "a"), .part q] :=
    .cons (.prim _ (by intro kvs hk; cases hk)) (.cons (.part _ q q hq1 (C10S.PartSame.rfl' q)) .nil)
  have hP : Path.mk' [.prim (.str "a"), .part q] = .ok { parts := [{ kind := .map, cond := eqLeaf .key (.str "a"), listCond := Cond.null, mapCond := Cond.null, label := none }, q], concrete := false, datum := .none, multi := .none, source := none } := rfl
  obtain ⟨_, ⟨r, h1, _, _, _, h5⟩⟩ := C10_rule_spec_is_api (fuel + 4) _ _ _
    (.dict [(.str "value.length.lt", .int 3)]) _ hrel hP (parse_value_length_lt (fuel + 2))
  refine ⟨q, _, r, hq2, hP, h1, h5 ?_ ?_⟩
  · subst hq; decide +kernel
  · decide +kernel

/-- direct evaluations on the model: long forms in another order against `MapValue(...)`; a
    map-or-list part with key, index and value entries and no `type` against `MapOrListValue(...)` -/
example :
    (match parsePart 6 [(.str "value", .dict [(.str "value.length.lt", .int 3)]), (.str "type", .str "map_value"),
              (.str "label", .str "x"), (.str "key", .dict [(.str "key.equal_to", .str "a")])],
           Part.mkMap (.cond (eqLeaf .key (.str "a")))
              (.cond (.leaf { cls := .valueLength, fn := "less_than", args := [], kwargs := [("value", .int 3)] }))
              none (some (.str "x")) with
     | .ok p, .ok q => partEq p q
     | _, _ => false) = true := by
  decide +kernel

example :
    (match parsePart 6 [(.str "value.length.lt", .int 3), (.str "index.in", .list [.int 0, .int 2]),
              (.str "key", .dict [(.str "key.equal_to", .str "a")])],
           Part.mkMolv (.cond (eqLeaf .key (.str "a")))
              (.cond (.leaf { cls := .index, fn := "in_", args := [], kwargs := [("value", .list [.int 0, .int 2])] }))
              (.cond (.leaf { cls := .valueLength, fn := "less_than", args := [], kwargs := [("value", .int 3)] }))
              none none none none with
     | .ok p, .ok q => partEq p q
     | _, _ => false) = true := by
  decide +kernel

end ValidaProofs
