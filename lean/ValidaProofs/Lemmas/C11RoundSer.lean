/-
  ValidaProofs.Lemmas.C11RoundSer — one unfolding of `leafToJson` for each branch the signature of
  the callable selects.
-/
import Valida.Spec.Ser
import ValidaProofs.Lemmas.C11RoundSniff
namespace ValidaProofs.C11R
open Valida ValidaGen

/-- branch "no parameter" -/
theorem ser_nullary (cls : CClass) (fn : String) (info : CondClassInfo) (sig : Sig) (args : List Arg)
    (kwargs : List (String × Arg))
    (hcls : (cls == .null) = false) (hinfo : cls.info = .ok info) (hsig : sigOf fn = some sig)
    (hp : sig.params = []) (hvp : sig.varPos = false) (hvk : sig.varKw = false) :
    leafToJson { cls := cls, fn := fn, args := args, kwargs := kwargs } =
      .ok (.dict [(.str (info.label ++ "." ++ fn), .none)]) := by
  simp [leafToJson, hcls, hinfo, hsig, hp, hvp, hvk, bind, Except.bind, pure, Except.pure]

/-- branch "one parameter": the first keyword argument, written as it is or as a type name -/
theorem ser_single (cls : CClass) (fn : String) (info : CondClassInfo) (sig : Sig) (args : List Arg) (k : String)
    (a : Arg) (rest : List (String × Arg)) (cast : Bool)
    (hcls : (cls == .null) = false) (hinfo : cls.info = .ok info) (hsig : sigOf fn = some sig)
    (hp : sig.params.length = 1) (hvp : sig.varPos = false) (hvk : sig.varKw = false)
    (hcast : (containsSub "dtype" (info.label ++ "." ++ fn) ||
              containsSub "is_instance" (info.label ++ "." ++ fn)) = cast)
    (hnl : ∀ xs, argOut a ≠ .list xs) :
    leafToJson { cls := cls, fn := fn, args := args, kwargs := (k, a) :: rest } =
      (do let v ← (if cast then invDtype (argOut a) else pure (argOut a))
          pure (.dict [(.str (info.label ++ "." ++ fn), v)])) := by
  have hne : sig.params ≠ [] := by intro h; simp [h] at hp
  subst hcast
  cases hc : (containsSub "dtype" (info.label ++ "." ++ fn) || containsSub "is_instance" (info.label ++ "." ++ fn))
  · simp [leafToJson, hcls, hinfo, hsig, hp, hvp, hvk, hc, hne, bind, Except.bind, pure, Except.pure]
  · simp [leafToJson, hcls, hinfo, hsig, hp, hvp, hvk, hc, hne, bind, Except.bind, pure, Except.pure]

theorem mapM_pair_pure : ∀ l : List (String × PyVal),
    l.mapM (fun kv => (Except.ok (PyVal.str kv.1, kv.2) : Except Exc (PyVal × PyVal))) =
      .ok (l.map (fun kv => (PyVal.str kv.1, kv.2))) := by
  intro l
  exact mapM_pointwise _ _ l (fun _ _ => rfl)

/-- branches "several parameters" and "var-keyword": the mapping of the keyword arguments, no type
    names involved -/
theorem ser_kw (cls : CClass) (fn : String) (info : CondClassInfo) (sig : Sig) (args : List Arg)
    (kwargs : List (String × Arg))
    (hcls : (cls == .null) = false) (hinfo : cls.info = .ok info) (hsig : sigOf fn = some sig)
    (hbr : (1 < sig.params.length ∧ sig.varPos = false ∧ sig.varKw = false) ∨
           (sig.params = [] ∧ sig.varPos = false ∧ sig.varKw = true))
    (hcast : (containsSub "dtype" (info.label ++ "." ++ fn) ||
              containsSub "is_instance" (info.label ++ "." ++ fn)) = false) :
    leafToJson { cls := cls, fn := fn, args := args, kwargs := kwargs } =
      .ok (.dict [(.str (info.label ++ "." ++ fn),
                   .dict (kwargs.map (fun kv => (PyVal.str kv.1, argOut kv.2))))]) := by
  have h := C11L.ser_kw cls fn info sig args kwargs hcls hinfo hsig (by
    rcases hbr with ⟨h1, h2, h3⟩ | ⟨h1, h2, h3⟩
    · have hne : sig.params ≠ [] := by intro h; simp [h] at h1
      have hne1 : ¬ sig.params.length = 1 := by omega
      simp [h1, h2, h3, hne, hne1]
    · simp [h1, h2, h3]) hcast
  simpa [condToJson] using h

/-- branch "var-positional": the list of the positional arguments, each written as it is or (where
    the library has a name for it) as a type name -/
theorem ser_varpos (cls : CClass) (fn : String) (info : CondClassInfo) (sig : Sig) (args : List Arg)
    (kwargs : List (String × Arg)) (cast : Bool) (ys : List PyVal)
    (hcls : (cls == .null) = false) (hinfo : cls.info = .ok info) (hsig : sigOf fn = some sig)
    (hp : sig.params = []) (hvp : sig.varPos = true) (hvk : sig.varKw = false)
    (hcast : (containsSub "dtype" (info.label ++ "." ++ fn) ||
              containsSub "is_instance" (info.label ++ "." ++ fn)) = cast)
    (hys : (args.map argOut).mapM (fun v => if cast then invDtypeLenient v else pure v) = .ok ys) :
    leafToJson { cls := cls, fn := fn, args := args, kwargs := kwargs } =
      .ok (.dict [(.str (info.label ++ "." ++ fn), .list ys)]) := by
  subst hcast
  simp only [leafToJson, hcls, hinfo, hsig, hp, hvp, hvk, bind, Except.bind, pure, Except.pure] at hys ⊢
  rw [hys]
  rfl

end ValidaProofs.C11R
