/-
  ValidaProofs.Lemmas.Basic — vocabulary shared by the property files.
-/
import Valida.Cond
namespace ValidaProofs
open Valida ValidaGen

/-- exceptions raised inside the callable's `try` of `Condition._filter` that make the item fail:
    those the `except` tuple (generated from the source) catches – or the model's pseudo-outcome
    `unmodelled` (operations on an opaque object), which the theorems always list explicitly. -/
def Caught (e : Exc) : Prop := caughtBy catchesFilterCallable e = true ∨ e = .unmodelled

instance (e : Exc) : Decidable (Caught e) := by unfold Caught; infer_instance

/-- `r` raises nothing outside `S` -/
def RaisesOnly (S : Exc → Prop) {α : Type} (r : Except Exc α) : Prop := ∀ e, r = .error e → S e

/-- when `r` returns, it returns a `bool` -/
def ReturnsBool (r : R) : Prop := ∀ v, r = .ok v → ∃ b, v = .bool b

/-- Bool-valued comparison of a filter outcome (for kernel-evaluated examples) -/
def resultIs (r : Except Exc (FD × DataV)) (expected : List Bool) : Bool :=
  match r with
  | .ok p => p.1.result == expected
  | .error _ => false

/-- Bool-valued comparison of an outcome with an expected value (for kernel-evaluated examples) -/
def valueIs (r : R) (expected : PyVal) : Bool :=
  match r with
  | .ok v => PyVal.pyEq v expected && PyVal.pyEq expected v
  | .error _ => false

end ValidaProofs
