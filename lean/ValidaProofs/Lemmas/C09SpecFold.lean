/-
  ValidaProofs.Lemmas.C09SpecFold — an `and` / `or` / `xor` list (or tuple) of specs parses to the
  left fold, from the null condition, of what the items parse to.
-/
import Valida.Spec.Parse
namespace ValidaProofs.C09S
open Valida ValidaGen

theorem parse_op_list (fuel : Nat) (op : BinOp) (specs : List PyVal) :
    parseCond (fuel + 1) (.dict [(.str op.symbol, .list specs)]) =
      specs.foldlM (fun acc s => do let c ← parseCond fuel s; Cond.mkBin op acc c) Cond.null := by
  cases op <;> rfl

theorem parse_op_tuple (fuel : Nat) (op : BinOp) (specs : List PyVal) :
    parseCond (fuel + 1) (.dict [(.str op.symbol, .tuple specs)]) =
      specs.foldlM (fun acc s => do let c ← parseCond fuel s; Cond.mkBin op acc c) Cond.null := by
  cases op <;> rfl

/-- the specs parse, item by item and with the same fuel, to the conditions -/
def AllParse (fuel : Nat) : List PyVal → List (Cond Arg) → Prop
  | [], [] => True
  | s :: ss, c :: cs => parseCond fuel s = .ok c ∧ AllParse fuel ss cs
  | _, _ => False

theorem fold_parsed (fuel : Nat) (op : BinOp) : ∀ (specs : List PyVal) (cs : List (Cond Arg)) (acc : Cond Arg),
    AllParse fuel specs cs →
    specs.foldlM (fun acc s => do let c ← parseCond fuel s; Cond.mkBin op acc c) acc =
      cs.foldlM (fun acc c => Cond.mkBin op acc c) acc
  | [], [], _, _ => rfl
  | s :: specs, c :: cs, acc, h => by
      obtain ⟨h1, h2⟩ := h
      simp only [List.foldlM_cons, h1, bind, Except.bind]
      cases hm : Cond.mkBin op acc c with
      | error e => rfl
      | ok acc' => exact fold_parsed fuel op specs cs acc' h2
  | [], _ :: _, _, h => h.elim
  | _ :: _, [], _, h => h.elim

end ValidaProofs.C09S
