/-
  ValidaProofs.Lemmas.C14BehaveCall — a call `f(datum, *args, **kwargs)` does not depend on the order of
  the keyword arguments (distinct names): name lookup, Python's argument binding, the collected
  `**kwargs` (only `items_contain` takes one, and its loop gives the same outcome in any order), the
  dispatcher, and finally one iteration of the loop of `Condition._filter`.
-/
import Valida.Cond
import ValidaProofs.Lemmas.C14Eq
namespace ValidaProofs.C14B
open Valida ValidaGen

variable {α : Type}

/-! ### lookup by name -/

/-- keyword arguments are looked up by name: with distinct names the order is irrelevant -/
theorem lookupStr_perm {kw kw' : List (String × α)} (hp : kw.Perm kw') (hn : (kw.map (·.1)).Nodup)
    (k : String) : lookupStr k kw = lookupStr k kw' := by
  have hn' : (kw'.map (·.1)).Nodup := (hp.map _).nodup_iff.1 hn
  cases h : lookupStr k kw with
  | some v => exact (C14L.lookupStr_of_nodup hn' (hp.subset (C14L.lookupStr_mem h))).symm
  | none =>
    cases h' : lookupStr k kw' with
    | none => rfl
    | some v =>
      rw [C14L.lookupStr_of_nodup hn (hp.symm.subset (C14L.lookupStr_mem h'))] at h
      cases h

theorem nodup_perm {kw kw' : List (String × α)} (hp : kw.Perm kw') (hn : (kw.map (·.1)).Nodup) :
    (kw'.map (·.1)).Nodup := (hp.map _).nodup_iff.1 hn

/-! ### binding -/

theorem bindParams_perm {kw kw' : List (String × PyVal)} (hp : kw.Perm kw') (hn : (kw.map (·.1)).Nodup) :
    ∀ (ps : List String) (vs : List PyVal), bindParams ps vs kw = bindParams ps vs kw'
  | [], _ => by simp only [bindParams]
  | p :: ps, v :: vs => by
    simp only [bindParams, lookupStr_perm hp hn p, bindParams_perm hp hn ps vs]
  | p :: ps, [] => by
    simp only [bindParams, lookupStr_perm hp hn p, bindParams_perm hp hn ps []]

/-- `bindArgs` as a plain case distinction -/
theorem bindArgs_eq (sig : Sig) (pos : List PyVal) (kw : List (String × PyVal)) :
    bindArgs sig pos kw =
      if (lookupStr sig.first kw).isSome then .error .typeError
      else if (decide (pos.length > sig.params.length) && !sig.varPos) = true then .error .typeError
      else if (!(kw.filter (fun kv => !sig.params.contains kv.1)).isEmpty && !sig.varKw) = true then
        .error .typeError
      else match bindParams sig.params (pos.take sig.params.length) kw with
        | .error e => .error e
        | .ok ps => .ok ⟨ps, pos.drop sig.params.length, kw.filter (fun kv => !sig.params.contains kv.1)⟩ := by
  unfold bindArgs
  simp only [bind, Except.bind, pure, Except.pure, throw, throwThe, MonadExceptOf.throw]
  split
  · rfl
  · split
    · rfl
    · split
      · rfl
      · cases bindParams sig.params (List.take sig.params.length pos) kw <;> rfl

/-- the part of a `Bound` the order of the keywords cannot influence, and the collected `**kwargs` -/
theorem bindArgs_perm (sig : Sig) (pos : List PyVal) {kw kw' : List (String × PyVal)} (hp : kw.Perm kw')
    (hn : (kw.map (·.1)).Nodup) :
    (∃ e, bindArgs sig pos kw = .error e ∧ bindArgs sig pos kw' = .error e) ∨
    (∃ ps ek ek', bindArgs sig pos kw = .ok ⟨ps, pos.drop sig.params.length, ek⟩ ∧
      bindArgs sig pos kw' = .ok ⟨ps, pos.drop sig.params.length, ek'⟩ ∧ ek.Perm ek') := by
  have hf : (kw.filter (fun kv => !sig.params.contains kv.1)).Perm
      (kw'.filter (fun kv => !sig.params.contains kv.1)) := hp.filter _
  have he : (kw'.filter (fun kv => !sig.params.contains kv.1)).isEmpty =
      (kw.filter (fun kv => !sig.params.contains kv.1)).isEmpty := by
    rw [Bool.eq_iff_iff, List.isEmpty_iff_length_eq_zero, List.isEmpty_iff_length_eq_zero, hf.length_eq]
  rw [bindArgs_eq, bindArgs_eq, ← lookupStr_perm hp hn sig.first, he, ← bindParams_perm hp hn]
  split
  · exact Or.inl ⟨_, rfl, rfl⟩
  · split
    · exact Or.inl ⟨_, rfl, rfl⟩
    · split
      · exact Or.inl ⟨_, rfl, rfl⟩
      · cases bindParams sig.params (List.take sig.params.length pos) kw with
        | error e => exact Or.inl ⟨_, rfl, rfl⟩
        | ok ps => exact Or.inr ⟨ps, _, _, rfl, rfl, hf⟩

/-! ### the `**items` loop of `items_contain` -/

/-- what one iteration of `allItemsM` does: `none` = go on, `some r` = return `r` -/
def step (caught : Exc → Bool) (body : String → PyVal → R) (kv : String × PyVal) : Option R :=
  match body kv.1 kv.2 with
  | .ok r => if PyVal.truthy r then some (.ok (Py.b false)) else none
  | .error e => some (if caught e then .ok (Py.b false) else .error e)

theorem allItemsM_eq (caught : Exc → Bool) (body : String → PyVal → R) :
    ∀ items, Py.allItemsM items caught body =
      match items.findSome? (step caught body) with
      | some r => r
      | none => .ok (Py.b true)
  | [] => rfl
  | (k, v) :: rest => by
    rw [Py.allItemsM, List.findSome?_cons]
    simp only [step]
    cases hb : body k v with
    | ok r =>
      simp only
      split
      · rfl
      · exact allItemsM_eq caught body rest
    | error e => rfl

/-- if every iteration that returns returns the same thing, the outcome is order independent -/
theorem findSome_uniform {β γ : Type} (f : β → Option γ) (r0 : γ) :
    ∀ l : List β, (∀ x ∈ l, f x = none ∨ f x = some r0) →
      l.findSome? f = if l.any (fun x => (f x).isSome) then some r0 else none
  | [], _ => rfl
  | x :: l, h => by
    rw [List.findSome?_cons, List.any_cons]
    rcases h x List.mem_cons_self with hx | hx
    · rw [hx]
      simpa using findSome_uniform f r0 l (fun y hy => h y (List.mem_cons_of_mem _ hy))
    · rw [hx]; simp

theorem allItemsM_perm (caught : Exc → Bool) (body : String → PyVal → R) (r0 : R)
    (h : ∀ kv, step caught body kv = none ∨ step caught body kv = some r0)
    {items items' : List (String × PyVal)} (hp : items.Perm items') :
    Py.allItemsM items caught body = Py.allItemsM items' caught body := by
  rw [allItemsM_eq, allItemsM_eq, findSome_uniform _ r0 items (fun x _ => h x),
    findSome_uniform _ r0 items' (fun x _ => h x), hp.any_eq]

/-- `items_contain(trial, **items)`: a non-mapping fails the same way at whatever item comes first, a
    mapping returns `False` at the first missing or different item, whichever it is -/
theorem items_contain_perm (x : PyVal) {items items' : List (String × PyVal)} (hp : items.Perm items') :
    Callables.items_contain x items = Callables.items_contain x items' := by
  unfold Callables.items_contain
  cases x with
  | dict kvs =>
    refine allItemsM_perm _ _ (.ok (Py.b false)) (fun kv => ?_) hp
    simp only [step, Py.getItem, PyVal.hashable, if_true, bind, Except.bind]
    cases Py.dictGet (PyVal.str kv.1) kvs with
    | none => right; rfl
    | some t =>
      simp only [Py.ne]
      split
      · right; rfl
      · left; rfl
  | list xs =>
    refine allItemsM_perm _ _ (.error .typeError) (fun kv => ?_) hp
    right; rfl
  | tuple xs =>
    refine allItemsM_perm _ _ (.error .typeError) (fun kv => ?_) hp
    right; rfl
  | str s =>
    refine allItemsM_perm _ _ (.error .typeError) (fun kv => ?_) hp
    right; rfl
  | obj n =>
    refine allItemsM_perm _ _ (.error .unmodelled) (fun kv => ?_) hp
    right; rfl
  | none => exact allItemsM_perm _ _ (.error .typeError) (fun kv => Or.inr rfl) hp
  | bool _ => exact allItemsM_perm _ _ (.error .typeError) (fun kv => Or.inr rfl) hp
  | int _ => exact allItemsM_perm _ _ (.error .typeError) (fun kv => Or.inr rfl) hp
  | float _ => exact allItemsM_perm _ _ (.error .typeError) (fun kv => Or.inr rfl) hp
  | type _ => exact allItemsM_perm _ _ (.error .typeError) (fun kv => Or.inr rfl) hp

/-! ### the dispatcher and the call -/

theorem applyFn_perm (name : String) (datum : PyVal) (ps star : List PyVal)
    {skw skw' : List (String × PyVal)} (hp : skw.Perm skw') :
    applyFn name datum ps star skw = applyFn name datum ps star skw' := by
  unfold applyFn
  rw [items_contain_perm datum hp]

/-- `func(trial_datum, *args, **kwargs)` is independent of the order of `kwargs` -/
theorem callFn_perm (name : String) (datum : PyVal) (pos : List PyVal) {kw kw' : List (String × PyVal)}
    (hp : kw.Perm kw') (hn : (kw.map (·.1)).Nodup) :
    callFn name datum pos kw = callFn name datum pos kw' := by
  unfold callFn
  cases sigOf name with
  | none => rfl
  | some sig =>
    simp only
    rcases bindArgs_perm sig pos hp hn with ⟨e, h1, h2⟩ | ⟨ps, ek, ek', h1, h2, hek⟩
    · rw [h1, h2]
    · rw [h1, h2]
      simp only [bind, Except.bind]
      exact applyFn_perm name datum ps _ hek

/-! ### resolution of the stored arguments -/

theorem resolveKw_cons_ok {n : String} {a : RArg} {kw : List (String × RArg)} {k : List (String × PyVal)}
    (h : resolveKw ((n, a) :: kw) = .ok k) :
    ∃ v k0, a = .ok v ∧ resolveKw kw = .ok k0 ∧ k = (n, v) :: k0 := by
  rw [resolveKw] at h
  cases a with
  | error e => simp [bind, Except.bind] at h
  | ok v =>
    cases h0 : resolveKw kw with
    | error e => simp [h0, bind, Except.bind] at h
    | ok k0 =>
      simp [h0, bind, Except.bind, pure, Except.pure] at h
      exact ⟨v, k0, rfl, rfl, h.symm⟩

theorem resolveKw_cons_of_ok {n : String} {v : PyVal} {kw : List (String × RArg)} {k0 : List (String × PyVal)}
    (h : resolveKw kw = .ok k0) : resolveKw ((n, .ok v) :: kw) = .ok ((n, v) :: k0) := by
  rw [resolveKw, h]; rfl

/-- all keyword arguments resolve: in another order they resolve to the same values in that order -/
theorem resolveKw_perm_ok {kw kw' : List (String × RArg)} (hp : kw.Perm kw') :
    ∀ k, resolveKw kw = .ok k → ∃ k', resolveKw kw' = .ok k' ∧ k.Perm k' := by
  induction hp with
  | nil => intro k h; exact ⟨k, h, List.Perm.refl _⟩
  | cons x _ ih =>
    intro k h
    obtain ⟨n, a⟩ := x
    obtain ⟨v, k0, rfl, h0, rfl⟩ := resolveKw_cons_ok h
    obtain ⟨k0', h0', hp0⟩ := ih k0 h0
    exact ⟨_, resolveKw_cons_of_ok h0', hp0.cons _⟩
  | swap x y l =>
    intro k h
    obtain ⟨n, a⟩ := x
    obtain ⟨m, c⟩ := y
    obtain ⟨v, k0, rfl, h0, rfl⟩ := resolveKw_cons_ok h
    obtain ⟨w, k1, rfl, h1, rfl⟩ := resolveKw_cons_ok h0
    exact ⟨_, resolveKw_cons_of_ok (resolveKw_cons_of_ok h1), List.Perm.swap _ _ _⟩
  | trans _ _ ih1 ih2 =>
    intro k h
    obtain ⟨k', h', hp'⟩ := ih1 k h
    obtain ⟨k'', h'', hp''⟩ := ih2 k' h'
    exact ⟨k'', h'', hp'.trans hp''⟩

theorem resolveKw_names : ∀ (kw : List (String × RArg)) (k : List (String × PyVal)),
    resolveKw kw = .ok k → k.map (·.1) = kw.map (·.1)
  | [], k, h => by cases h; rfl
  | (n, a) :: kw, k, h => by
    obtain ⟨v, k0, rfl, h0, rfl⟩ := resolveKw_cons_ok h
    simp [resolveKw_names kw k0 h0]

/-- a failing resolution is the failure of one of the arguments -/
theorem resolveKw_error : ∀ (kw : List (String × RArg)) (e : Exc),
    resolveKw kw = .error e → ∃ n, (n, (.error e : RArg)) ∈ kw
  | [], e, h => by cases h
  | (n, a) :: kw, e, h => by
    rw [resolveKw] at h
    cases a with
    | error e' =>
      simp [bind, Except.bind] at h
      subst h
      exact ⟨n, List.mem_cons_self⟩
    | ok v =>
      cases h0 : resolveKw kw with
      | error e' =>
        simp [h0, bind, Except.bind] at h
        subst h
        obtain ⟨m, hm⟩ := resolveKw_error kw e' h0
        exact ⟨m, List.mem_cons_of_mem _ hm⟩
      | ok k0 => simp [h0, bind, Except.bind, pure, Except.pure] at h

/-! ### one item -/

/-- any two failing keyword arguments are treated alike by the `except` clause around the call -/
def ErrAgree (kw : List (String × RArg)) : Prop :=
  ∀ n₁ e₁ n₂ e₂, (n₁, (.error e₁ : RArg)) ∈ kw → (n₂, (.error e₂ : RArg)) ∈ kw →
    caughtBy catchesFilterCallable e₁ = caughtBy catchesFilterCallable e₂

theorem callLeaf_perm_ok (fn : String) (args : List RArg) {kw kw' : List (String × RArg)}
    (hp : kw.Perm kw') (hn : (kw.map (·.1)).Nodup) (p : PyVal) (k : List (String × PyVal))
    (hk : resolveKw kw = .ok k) : callLeaf fn args kw p = callLeaf fn args kw' p := by
  obtain ⟨k', hk', hkp⟩ := resolveKw_perm_ok hp k hk
  have hnk : (k.map (·.1)).Nodup := by rw [resolveKw_names kw k hk]; exact hn
  unfold callLeaf
  rw [hk, hk']
  cases resolveAll args with
  | error e => rfl
  | ok a =>
    simp only [bind, Except.bind]
    rw [callFn_perm fn p a hkp hnk]

theorem callLeaf_kw_error (fn : String) (args : List RArg) (kw : List (String × RArg)) (p : PyVal) (e : Exc)
    (hk : resolveKw kw = .error e) :
    callLeaf fn args kw p = match resolveAll args with
      | .error e' => .error e'
      | .ok _ => .error e := by
  unfold callLeaf
  rw [hk]
  cases resolveAll args <;> rfl

/-- one iteration of the loop of `Condition._filter`: whatever flags it records with the keyword
    arguments in one order, it records with them in any other -/
theorem evalItem_perm (pre fn : String) (args : List RArg) {kw kw' : List (String × RArg)}
    (hp : kw.Perm kw') (hn : (kw.map (·.1)).Nodup) (ha : ErrAgree kw) (datum : PyVal) (fl : ItemFlags)
    (h : evalItem pre fn args kw datum = .ok fl) : evalItem pre fn args kw' datum = .ok fl := by
  unfold evalItem at h ⊢
  cases hpre : applyPre pre datum with
  | error e => rw [hpre] at h; exact h
  | ok processed =>
    rw [hpre] at h
    simp only at h ⊢
    cases hk : resolveKw kw with
    | ok k => rw [← callLeaf_perm_ok fn args hp hn processed k hk]; exact h
    | error e₁ =>
      cases hk' : resolveKw kw' with
      | ok k' =>
        obtain ⟨k, hk2, _⟩ := resolveKw_perm_ok hp.symm k' hk'
        rw [hk] at hk2; cases hk2
      | error e₂ =>
        obtain ⟨n₁, h₁⟩ := resolveKw_error kw e₁ hk
        obtain ⟨n₂, h₂⟩ := resolveKw_error kw' e₂ hk'
        have hc := ha n₁ e₁ n₂ e₂ h₁ (hp.symm.subset h₂)
        rw [callLeaf_kw_error fn args kw processed e₁ hk] at h
        rw [callLeaf_kw_error fn args kw' processed e₂ hk']
        revert h
        cases resolveAll args with
        | error e => exact id
        | ok a =>
          simp only
          rw [← hc]
          cases caughtBy catchesFilterCallable e₁ with
          | true => exact id
          | false => intro h; simp at h

end ValidaProofs.C14B
