/-
  ValidaProofs.Lemmas.Meaning — what each generated callable computes (DESIGN.md App. D), proved
  against the independent specification `ValidaSpec.Meaning`.  The property theorems of C01 are
  one-line consequences.
-/
import ValidaProofs.Lemmas.Sets
import ValidaProofs.Lemmas.Prim
import ValidaSpec.Meaning
namespace ValidaProofs
open Valida ValidaGen ValidaGen.Callables ValidaSpec
open PyVal (pyEq numKey scale hashable instOf atomEq)

theorem equal_to_meaning (x v : PyVal) : asBool (Callables.equal_to x v) = ValidaSpec.equal_to x v := by
  rfl

theorem not_equal_to_meaning (x v : PyVal) : asBool (Callables.not_equal_to x v) = ValidaSpec.not_equal_to x v := by
  rfl

theorem asBool_cmp (op : Py.CmpOp) (x v : PyVal) :
    asBool (do let r ← Py.cmp op x v; pure (Py.b r) : R) = ordered op x v := by
  unfold ordered
  cases Py.cmp op x v <;> rfl

theorem less_than_meaning (x v : PyVal) : asBool (Callables.less_than x v) = ordered .lt x v := asBool_cmp _ _ _

theorem greater_than_meaning (x v : PyVal) : asBool (Callables.greater_than x v) = ordered .gt x v := asBool_cmp _ _ _

theorem any_pyEq_eq_decide (x : PyVal) (xs : List PyVal) : xs.any (pyEq x) = decide (MemEq x xs) := by
  rw [Bool.eq_iff_iff, decide_eq_true_iff]; simp [MemEq]

theorem dictHasKey_eq_decide (x : PyVal) (kvs : List (PyVal × PyVal)) :
    Py.dictHasKey x kvs = decide (MemEq x (kvs.map (·.1))) := by
  rw [Bool.eq_iff_iff, decide_eq_true_iff]; simp [MemEq, Py.dictHasKey]

theorem in_meaning (x c : PyVal) (hc : ∀ n, c ≠ .obj n) : asBool (Callables.in_ x c) = ValidaSpec.in_ x c := by
  unfold Callables.in_ Py.contains ValidaSpec.in_
  cases c with
  | obj n => exact absurd rfl (hc n)
  | list xs => simp [asBool, Py.b, any_pyEq_eq_decide]
  | tuple xs => simp [asBool, Py.b, any_pyEq_eq_decide]
  | str s => cases x <;> simp [asBool, Py.b]
  | dict kvs => 
    simp only
    split <;> simp [asBool, Py.b, dictHasKey_eq_decide]
  | _ => simp [asBool]

theorem not_in_meaning (x c : PyVal) (hc : ∀ n, c ≠ .obj n) :
    asBool (Callables.not_in x c) = (ValidaSpec.in_ x c).map (!·) := by
  rw [← in_meaning x c hc]
  unfold Callables.not_in Py.notContains Callables.in_
  have := (contains_safe x c).2
  cases h : Py.contains x c with
  | error e => rfl
  | ok v =>
    obtain ⟨b, rfl⟩ := this v h
    rfl

theorem atomEq_int_right (x : PyVal) (n : Int) : atomEq x (.int n) = (numKey x == some (n * scale)) := by
  cases x <;> simp [atomEq, numKey]

theorem range_arith (k s lo hi : Int) (hs : 0 < s) :
    (k % s = 0 ∧ lo ≤ k / s ∧ k / s < hi) ↔ ∃ n, lo ≤ n ∧ n < hi ∧ k = n * s := by
  constructor
  · rintro ⟨h0, h1, h2⟩
    exact ⟨k / s, h1, h2, (Int.ediv_mul_cancel (Int.dvd_of_emod_eq_zero h0)).symm⟩
  · rintro ⟨n, h1, h2, rfl⟩
    have hs' : s ≠ 0 := by omega
    rw [Int.mul_emod_left, Int.mul_ediv_cancel _ hs']
    exact ⟨rfl, h1, h2⟩

theorem inRange_spec (x l u : PyVal) (lo hi : Int) (hl : Py.asInt l = some lo) (hu : Py.asInt u = some hi) :
    ∃ r, Py.inRange x l u = .ok (.bool r) ∧ (r = true ↔ InRange x lo hi) := by
  unfold Py.inRange InRange
  rw [hl, hu]
  simp only [pyEq_int_right, atomEq_int_right]
  cases hk : numKey x with
  | none =>
    refine ⟨false, ?_, by simp⟩
    simp only
    split <;> rfl
  | some k =>
    refine ⟨_, rfl, ?_⟩
    simp only [Bool.and_eq_true, beq_iff_eq, decide_eq_true_eq, Option.some.injEq, Bool.and_assoc]
    exact range_arith k scale lo hi PyVal.scale_pos

theorem notInRange_spec (x l u : PyVal) (lo hi : Int) (hl : Py.asInt l = some lo) (hu : Py.asInt u = some hi) :
    ∃ r, Py.notInRange x l u = .ok (.bool r) ∧ (r = true ↔ ¬ InRange x lo hi) := by
  obtain ⟨r, hr, hiff⟩ := inRange_spec x l u lo hi hl hu
  refine ⟨!r, ?_, ?_⟩
  · unfold Py.notInRange; rw [hr]; rfl
  · rw [← hiff]; cases r <;> simp

theorem inRange_undefined (x l u : PyVal) (h : Py.asInt l = none ∨ Py.asInt u = none) :
    Py.inRange x l u = .error .typeError := by
  unfold Py.inRange
  split
  · rename_i h1 h2; rcases h with h | h <;> simp_all
  · rfl

theorem in_range_undefined_meaning (x l u : PyVal) (h : Py.asInt l = none ∨ Py.asInt u = none) :
    asBool (Callables.in_range x l u) = none ∧ asBool (Callables.not_in_range x l u) = none := by
  unfold Callables.in_range Callables.not_in_range Py.notInRange
  rw [inRange_undefined x l u h]
  exact ⟨rfl, rfl⟩

theorem truthy_meaning (x : PyVal) : asBool (Callables.truthy x) = some (PyVal.truthy x) := by
  simp [Callables.truthy, Py.not, asBool, Py.b, bind, Except.bind, PyVal.truthy]

theorem falsy_meaning (x : PyVal) : asBool (Callables.falsy x) = some (!PyVal.truthy x) := by
  rfl

theorem null_meaning (x : PyVal) : asBool (Callables.null x) = some true := by
  rfl

theorem int_scale_eq_zero (n : Int) : (n * scale == 0 * scale) = (n == 0) := by
  have := PyVal.scale_pos
  rw [Bool.eq_iff_iff]
  simp only [beq_iff_eq, Int.zero_mul, Int.mul_eq_zero]
  constructor
  · rintro (h | h)
    · exact h
    · omega
  · exact Or.inl

theorem pyEq_int_int (a c : Int) : pyEq (.int a) (.int c) = (a == c) := by
  have := PyVal.scale_pos
  simp only [pyEq, atomEq, numKey]
  rw [Bool.eq_iff_iff]
  simp only [beq_iff_eq]
  constructor
  · intro h; exact Int.eq_of_mul_eq_mul_right (by omega) h
  · rintro rfl; rfl

theorem fmod_eq_zero_iff (a c : Int) (hc : c ≠ 0) : a.fmod c = 0 ↔ c ∣ a := by
  rw [Int.fmod_eq_emod]
  constructor
  · intro h
    by_cases hd : c ∣ a
    · exact hd
    · by_cases h0 : 0 ≤ c
      · simp [h0] at h; exact Int.dvd_of_emod_eq_zero h
      · simp [h0, hd] at h
        have := Int.emod_nonneg a hc
        have := Int.emod_lt_of_pos a (b := -c) (by omega)
        rw [Int.emod_neg] at this
        omega
  · intro hd
    simp [hd, Int.emod_eq_zero_of_dvd hd]

theorem has_factor_int_meaning (a c : Int) :
    asBool (Callables.has_factor (.int a) (.int c)) = if c = 0 then none else some (decide (c ∣ a)) := by
  unfold Callables.has_factor Py.mod
  simp only [Py.asInt]
  by_cases hc : c = 0
  · simp [hc, bind, Except.bind, asBool]
  · simp only [beq_iff_eq, hc, if_false, bind, Except.bind, Py.eq, pyEq_int_int, asBool, Py.b]
    congr 1
    rw [Bool.eq_iff_iff]
    simp [fmod_eq_zero_iff a c hc]

theorem factor_of_int_meaning (a c : Int) :
    asBool (Callables.factor_of (.int a) (.int c)) = if a = 0 then none else some (decide (a ∣ c)) :=
  has_factor_int_meaning c a

theorem has_factor_str_meaning (s : String) (v : PyVal) :
    asBool (Callables.has_factor (.str s) v) = none ∨ asBool (Callables.has_factor (.str s) v) = some false := by
  unfold Callables.has_factor Py.mod
  simp only
  split
  · exact Or.inl rfl
  · split <;> first | exact Or.inl rfl | exact Or.inr rfl

theorem onInt_scale (op : Py.CmpOp) (a c : Int) : op.onInt (a * scale) (c * scale) = op.onInt a c := by
  have hs := PyVal.scale_pos
  have hlt : ∀ a c : Int, a * scale < c * scale ↔ a < c := fun a c => Int.mul_lt_mul_right hs
  have hle : ∀ a c : Int, a * scale ≤ c * scale ↔ a ≤ c := fun a c => by
    rw [← Int.not_lt, ← Int.not_lt, hlt]
  cases op <;> unfold Py.CmpOp.onInt <;> apply decide_eq_decide.2
  · exact hlt a c
  · exact hle a c
  · exact hlt c a
  · exact hle c a

theorem cmp_int_int (op : Py.CmpOp) (a c : Int) :
    Py.cmp op (.int a) (.int c) = .ok (op.onInt a c) := by
  simp only [Py.cmp, numKey, onInt_scale]

theorem lt_int_int (a c : Int) : Py.lt (.int a) (.int c) = .ok (.bool (decide (a < c))) := by
  unfold Py.lt
  rw [cmp_int_int]
  rfl

theorem equal_to_approx_int_meaning (a c t : Int) :
    asBool (Callables.equal_to_approx (.int a) (.int c) (.int t)) = some (decide (((a - c).natAbs : Int) < t)) := by
  simp only [Callables.equal_to_approx, Py.sub, Py.asInt, bind, Except.bind, Py.abs, lt_int_int]
  rfl

theorem isinstL_types (x : PyVal) (ts : List PyType) :
    Py.isinstL x (ts.map PyVal.type) = .ok (ts.any (fun t => instOf x t)) := by
  induction ts with
  | nil => simp [Py.isinstL]
  | cons t ts ih =>
    simp only [List.map_cons, Py.isinstL, Py.isinstC, bind, Except.bind, ih, List.any_cons, pure, Except.pure]
    cases instOf x t <;> simp

theorem isinstance_types (x : PyVal) (ts : List PyType) :
    Py.isinstance x (.tuple (ts.map PyVal.type)) = .ok (Py.b (ts.any (fun t => instOf x t))) := by
  simp only [Py.isinstance, Py.isinstC, isinstL_types, bind, Except.bind, pure, Except.pure]

theorem is_instance_meaning (x : PyVal) (ts : List PyType) :
    asBool (Callables.is_instance x (ts.map PyVal.type)) = some (ts.any (fun t => instOf x t)) := by
  unfold Callables.is_instance
  rw [isinstance_types]; rfl

theorem keysOf_eq_some {x : PyVal} {xs : List PyVal} (h : keysOf x = some xs) :
    ∃ kvs, x = .dict kvs ∧ xs = kvs.map (·.1) := by
  cases x <;> simp [keysOf] at h
  exact ⟨_, rfl, h.symm⟩

theorem keys_error {x : PyVal} (hx : keysOf x = none) (hx' : ∀ n, x ≠ .obj n) :
    Py.keys x = .error .attributeError := by
  cases x <;> first | rfl | exact absurd rfl (hx' _) | simp [keysOf] at hx

/-- the generator body `k in trial_dict.keys()` on a mapping, for a hashable `k` -/
theorem keyTest_dict (kvs : List (PyVal × PyVal)) (k : PyVal) (hk : hashable k = true) :
    (do let t1 ← Py.keys (.dict kvs); Py.contains k t1 : R) =
      .ok (Py.b (decide (MemEq k (kvs.map (·.1))))) := by
  simp only [Py.keys, Py.contains, bind, Except.bind, hk, if_true, dictHasKey_eq_decide]

theorem anyM_ok (ks : List PyVal) (f : PyVal → R) (p : PyVal → Bool)
    (h : ∀ k ∈ ks, f k = .ok (Py.b (p k))) : Py.anyM ks f = .ok (Py.b (ks.any p)) := by
  induction ks with
  | nil => rfl
  | cons k ks ih =>
    unfold Py.anyM
    rw [h k (by simp), ih fun k' hk' => h k' (by simp [hk'])]
    cases hp : p k <;> simp [bind, Except.bind, Py.b, PyVal.truthy, pure, Except.pure, hp]

theorem allM_ok (ks : List PyVal) (f : PyVal → R) (p : PyVal → Bool)
    (h : ∀ k ∈ ks, f k = .ok (Py.b (p k))) : Py.allM ks f = .ok (Py.b (ks.all p)) := by
  induction ks with
  | nil => rfl
  | cons k ks ih =>
    unfold Py.allM
    rw [h k (by simp), ih fun k' hk' => h k' (by simp [hk'])]
    cases hp : p k <;> simp [bind, Except.bind, Py.b, PyVal.truthy, pure, Except.pure, hp]

theorem sumM_ok (ks : List PyVal) (f : PyVal → R) (p : PyVal → Bool)
    (h : ∀ k ∈ ks, f k = .ok (Py.b (p k))) : Py.sumM ks f = .ok (.int (ks.countP p : Nat)) := by
  induction ks with
  | nil => rfl
  | cons k ks ih =>
    unfold Py.sumM
    rw [h k (by simp), ih fun k' hk' => h k' (by simp [hk'])]
    simp only [bind, Except.bind, Py.b, Py.asInt, pure, Except.pure, List.countP_cons]
    cases hp : p k <;> simp <;> omega

theorem keys_contain_meaning (x k : PyVal) (hx : ∀ n, x ≠ .obj n) :
    asBool (Callables.keys_contain x k) =
      (match keysOf x with
       | some xs => if hashable k then some (decide (MemEq k xs)) else none
       | none => none) := by
  unfold Callables.keys_contain
  cases x with
  | obj n => exact absurd rfl (hx n)
  | dict kvs =>
    simp only [Py.keys, Py.contains, bind, Except.bind, keysOf, dictHasKey_eq_decide]
    split <;> rfl
  | _ => rfl

theorem keys_contain_any_of_meaning (x : PyVal) (xs ks : List PyVal) (hx : keysOf x = some xs)
    (hk : ∀ k ∈ ks, hashable k = true) :
    asBool (Callables.keys_contain_any_of x ks) = some (decide (∃ k ∈ ks, MemEq k xs)) := by
  obtain ⟨kvs, rfl, rfl⟩ := keysOf_eq_some hx
  show asBool (Py.anyM ks (fun k => do let t1 ← Py.keys (.dict kvs); Py.contains k t1)) = _
  rw [anyM_ok ks _ (fun k => decide (MemEq k (kvs.map (·.1)))) fun k h => keyTest_dict kvs k (hk k h)]
  simp only [asBool, Py.b, Option.some.injEq]
  rw [Bool.eq_iff_iff, decide_eq_true_iff]; simp

theorem keys_contain_all_of_meaning (x : PyVal) (xs ks : List PyVal) (hx : keysOf x = some xs)
    (hk : ∀ k ∈ ks, hashable k = true) :
    asBool (Callables.keys_contain_all_of x ks) = some (decide (∀ k ∈ ks, MemEq k xs)) := by
  obtain ⟨kvs, rfl, rfl⟩ := keysOf_eq_some hx
  show asBool (Py.allM ks (fun k => do let t1 ← Py.keys (.dict kvs); Py.contains k t1)) = _
  rw [allM_ok ks _ (fun k => decide (MemEq k (kvs.map (·.1)))) fun k h => keyTest_dict kvs k (hk k h)]
  simp only [asBool, Py.b, Option.some.injEq]
  rw [Bool.eq_iff_iff, decide_eq_true_iff]; simp

theorem keys_of_non_mapping_meaning (x k : PyVal) (ks : List PyVal) (hx : keysOf x = none) (hx' : ∀ n, x ≠ .obj n) :
    asBool (Callables.keys_contain x k) = none ∧
    asBool (Callables.keys_contain_any_of x (k :: ks)) = none ∧
    asBool (Callables.keys_contain_all_of x (k :: ks)) = none ∧
    asBool (Callables.keys_equal_to x ks) = none ∧
    asBool (Callables.allowed_keys x ks) = none ∧
    asBool (Callables.required_keys x ks) = none ∧
    asBool (Callables.forbidden_keys x ks) = none := by
  have hk := keys_error hx hx'
  refine ⟨?_, ?_, ?_, ?_, ?_, ?_, ?_⟩
  · simp [Callables.keys_contain, hk, bind, Except.bind, asBool]
  · simp [Callables.keys_contain_any_of, Py.iter, Py.anyM, hk, bind, Except.bind, asBool]
  · simp [Callables.keys_contain_all_of, Py.iter, Py.allM, hk, bind, Except.bind, asBool]
  · simp [Callables.keys_equal_to, hk, bind, Except.bind, asBool]
  · simp [Callables.allowed_keys, hk, bind, Except.bind, asBool]
  · unfold Callables.required_keys
    cases Py.set (.tuple ks) <;> simp [hk, bind, Except.bind, asBool]
  · unfold Callables.forbidden_keys
    cases Py.set (.tuple ks) <;> simp [hk, bind, Except.bind, asBool]

/-- the counting generator of the `N_of` family -/
theorem count_ok (x c : PyVal) (xs ks : List PyVal) (hx : keysOf x = some xs) (hc : Py.iter c = .ok ks)
    (hk : ∀ k ∈ ks, hashable k = true) :
    (do let t2 ← Py.iter c; Py.sumM t2 (fun k => do let t1 ← Py.keys x; Py.contains k t1) : R) =
      .ok (.int (countPresent xs ks)) := by
  obtain ⟨kvs, rfl, rfl⟩ := keysOf_eq_some hx
  rw [hc]
  simp only [bind, Except.bind]
  exact sumM_ok ks _ (fun k => decide (MemEq k (kvs.map (·.1)))) fun k h => keyTest_dict kvs k (hk k h)

theorem N_of_general (x N c : PyVal) (xs ks : List PyVal) (hx : keysOf x = some xs) (hc : Py.iter c = .ok ks)
    (hk : ∀ k ∈ ks, hashable k = true) :
    Callables.keys_contain_N_of x N c = Py.eq (.int (countPresent xs ks)) N ∧
    Callables.keys_contain_at_least_N_of x N c = Py.ge (.int (countPresent xs ks)) N ∧
    Callables.keys_contain_at_most_N_of x N c = Py.le (.int (countPresent xs ks)) N := by
  have h := count_ok x c xs ks hx hc hk
  simp only [bind, Except.bind] at h
  unfold Callables.keys_contain_N_of Callables.keys_contain_at_least_N_of Callables.keys_contain_at_most_N_of
  simp only [bind, Except.bind]
  revert h
  cases Py.iter c with
  | error e => intro h; cases h
  | ok t2 =>
    simp only
    intro h
    rw [h]
    exact ⟨rfl, rfl, rfl⟩

theorem keys_contain_N_of_meaning (x N : PyVal) (xs ks : List PyVal) (hx : keysOf x = some xs)
    (hk : ∀ k ∈ ks, hashable k = true) :
    Callables.keys_contain_N_of x N (.list ks) = Py.eq (.int (countPresent xs ks)) N ∧
    Callables.keys_contain_at_least_N_of x N (.list ks) = Py.ge (.int (countPresent xs ks)) N ∧
    Callables.keys_contain_at_most_N_of x N (.list ks) = Py.le (.int (countPresent xs ks)) N :=
  N_of_general x N (.list ks) xs ks hx rfl hk

theorem keys_contain_one_of_meaning (x : PyVal) (xs ks : List PyVal) (hx : keysOf x = some xs)
    (hk : ∀ k ∈ ks, hashable k = true) :
    asBool (Callables.keys_contain_one_of x ks) = some (countPresent xs ks == 1) ∧
    asBool (Callables.keys_contain_at_least_one_of x (.list ks)) = some (decide (countPresent xs ks ≥ 1)) ∧
    asBool (Callables.keys_contain_at_most_one_of x (.list ks)) = some (decide (countPresent xs ks ≤ 1)) := by
  unfold Callables.keys_contain_one_of Callables.keys_contain_at_least_one_of
    Callables.keys_contain_at_most_one_of
  rw [(N_of_general x (.int 1) (.tuple ks) xs ks hx rfl hk).1,
    (N_of_general x (.int 1) (.list ks) xs ks hx rfl hk).2.1,
    (N_of_general x (.int 1) (.list ks) xs ks hx rfl hk).2.2]
  simp only [Py.eq, Py.ge, Py.le, cmp_int_int, pyEq_int_int, bind, Except.bind, pure, Except.pure, asBool,
    Py.b, Py.CmpOp.onInt, Option.some.injEq]
  refine ⟨?_, ?_, ?_⟩ <;> rw [Bool.eq_iff_iff] <;> simp <;> omega

/-- the two sets the key-set callables compare, for a mapping with hashable keys -/
theorem keysets (x : PyVal) (ks : List PyVal) (h : KeysDefined x ks) :
    ∃ xs, keysOf x = some xs ∧ (∀ k ∈ xs, hashable k = true) ∧ (∀ k ∈ ks, hashable k = true) ∧
      (do let t1 ← Py.keys x; Py.set t1 : R) = .ok (.list (Py.dedup [] xs)) ∧
      Py.set (.tuple ks) = .ok (.list (Py.dedup [] ks)) := by
  obtain ⟨xs, hx, hxs, hks⟩ := h
  obtain ⟨kvs, rfl, rfl⟩ := keysOf_eq_some hx
  exact ⟨_, hx, hxs, hks, set_dict kvs hxs, set_tuple ks hks⟩

theorem filter_isEmpty {α} (p : α → Bool) (l : List α) : (l.filter p).isEmpty = l.all (fun a => !p a) := by
  induction l with
  | nil => rfl
  | cons a l ih => simp only [List.filter_cons, List.all_cons]; cases p a <;> simp [ih]

theorem not_list (l : List PyVal) : Py.not (.list l) = .ok (.bool l.isEmpty) := by
  simp [Py.not, Py.b, PyVal.truthy]

theorem allowed_keys_spec (x : PyVal) (ks : List PyVal) (h : KeysDefined x ks) :
    ∃ r, Callables.allowed_keys x ks = .ok (.bool r) ∧ (r = true ↔ AllowedKeys x ks) := by
  obtain ⟨xs, hx, hxs, hks, h1, h2⟩ := keysets x ks h
  refine ⟨(xs.all fun a => ks.any (pyEq a)), ?_, ?_⟩
  · unfold Callables.allowed_keys
    simp only [bind, Except.bind] at h1 ⊢
    revert h1
    cases Py.keys x with
    | error e => intro h1; cases h1
    | ok t1 =>
      simp only
      intro h1
      rw [h1, h2]
      simp only [Py.setDiff, Py.elems, not_list, filter_isEmpty, Bool.not_not]
      rw [all_any_dedup xs _ hxs]
      simp only [any_dedup _ ks hks]
  · unfold AllowedKeys MemEq
    simp only [hx, Option.some.injEq, exists_eq_left', List.all_eq_true, List.any_eq_true]

theorem required_keys_spec (x : PyVal) (ks : List PyVal) (h : KeysDefined x ks) :
    ∃ r, Callables.required_keys x ks = .ok (.bool r) ∧ (r = true ↔ RequiredKeys x ks) := by
  obtain ⟨xs, hx, hxs, hks, h1, h2⟩ := keysets x ks h
  refine ⟨(ks.all fun a => xs.any (pyEq a)), ?_, ?_⟩
  · unfold Callables.required_keys
    simp only [bind, Except.bind] at h1 ⊢
    rw [h2]
    revert h1
    cases Py.keys x with
    | error e => intro h1; cases h1
    | ok t1 =>
      simp only
      intro h1
      rw [h1]
      simp only [Py.setDiff, Py.elems, not_list, filter_isEmpty, Bool.not_not]
      rw [all_any_dedup ks _ hks]
      simp only [any_dedup _ xs hxs]
  · unfold RequiredKeys MemEq
    simp only [hx, Option.some.injEq, exists_eq_left', List.all_eq_true, List.any_eq_true]

theorem forbidden_keys_spec (x : PyVal) (ks : List PyVal) (h : KeysDefined x ks) :
    ∃ r, Callables.forbidden_keys x ks = .ok (.bool r) ∧ (r = true ↔ ForbiddenKeys x ks) := by
  obtain ⟨xs, hx, hxs, hks, h1, h2⟩ := keysets x ks h
  refine ⟨(ks.all fun a => !xs.any (pyEq a)), ?_, ?_⟩
  · unfold Callables.forbidden_keys
    simp only [bind, Except.bind] at h1 ⊢
    rw [h2]
    revert h1
    cases Py.keys x with
    | error e => intro h1; cases h1
    | ok t1 =>
      simp only
      intro h1
      rw [h1]
      simp only [Py.setInter, Py.elems, not_list, filter_isEmpty]
      rw [all_not_any_dedup ks _ hks]
      simp only [any_dedup _ xs hxs]
  · unfold ForbiddenKeys MemEq
    simp only [hx, Option.some.injEq, exists_eq_left', List.all_eq_true, List.any_eq_true,
      Bool.not_eq_true', ← Bool.not_eq_true]

theorem keys_equal_to_spec (x : PyVal) (ks : List PyVal) (h : KeysDefined x ks) :
    ∃ r, Callables.keys_equal_to x ks = .ok (.bool r) ∧ (r = true ↔ (AllowedKeys x ks ∧ RequiredKeys x ks)) := by
  obtain ⟨xs, hx, hxs, hks, h1, h2⟩ := keysets x ks h
  refine ⟨(xs.all fun a => ks.any (pyEq a)) && (ks.all fun a => xs.any (pyEq a)), ?_, ?_⟩
  · unfold Callables.keys_equal_to
    simp only [bind, Except.bind] at h1 ⊢
    revert h1
    cases Py.keys x with
    | error e => intro h1; cases h1
    | ok t1 =>
      simp only
      intro h1
      rw [h1, h2]
      simp only [Py.setEq, Py.elems, Py.b]
      rw [all_any_dedup xs _ hxs, all_any_dedup ks _ hks]
      simp only [any_dedup _ xs hxs, any_dedup _ ks hks]
  · unfold AllowedKeys RequiredKeys MemEq
    simp only [hx, Option.some.injEq, exists_eq_left', List.all_eq_true, List.any_eq_true, Bool.and_eq_true]

theorem keys_is_instance_meaning (x : PyVal) (xs : List PyVal) (ts : List PyType) (hx : keysOf x = some xs) :
    asBool (Callables.keys_is_instance x (ts.map PyVal.type)) =
      some (xs.all (fun k => ts.any (fun t => instOf k t))) := by
  obtain ⟨kvs, rfl, rfl⟩ := keysOf_eq_some hx
  show asBool (Py.allM (kvs.map (·.1)) (fun i => Py.isinstance i (.tuple (ts.map PyVal.type)))) = _
  rw [allM_ok _ _ (fun k => ts.any (fun t => instOf k t)) fun k _ => isinstance_types k ts]
  rfl

theorem itemTest_dict (kvs : List (PyVal × PyVal)) (k : String) (v : PyVal) :
    (do let t1 ← Py.getItem (.dict kvs) (.str k); Py.ne t1 v : R) =
      match Py.dictGet (.str k) kvs with
      | some v' => .ok (.bool (!pyEq v' v))
      | none => .error .keyError := by
  simp only [Py.getItem, hashable, if_true]
  cases Py.dictGet (.str k) kvs <;> rfl

theorem allItemsM_dict (kvs : List (PyVal × PyVal)) (items : List (String × PyVal))
    (body : String → PyVal → R)
    (hb : ∀ k v, body k v = match Py.dictGet (.str k) kvs with
      | some v' => .ok (.bool (!pyEq v' v))
      | none => .error .keyError) :
    Py.allItemsM items (caughtBy ["KeyError"]) body =
      .ok (.bool (items.all (fun kv => match Py.dictGet (.str kv.1) kvs with
                                 | some v => pyEq v kv.2
                                 | none => false))) := by
  induction items with
  | nil => rfl
  | cons kv rest ih =>
    obtain ⟨k, v⟩ := kv
    unfold Py.allItemsM
    rw [hb k v, ih]
    simp only [List.all_cons]
    cases hg : Py.dictGet (.str k) kvs with
    | none =>
      have : caughtBy ["KeyError"] Exc.keyError = true := by decide
      simp [this, Py.b]
    | some v' =>
      cases hv : pyEq v' v <;> simp [Py.b, PyVal.truthy, hv]

theorem items_contain_meaning (kvs : List (PyVal × PyVal)) (items : List (String × PyVal)) :
    asBool (Callables.items_contain (.dict kvs) items) =
      some (items.all (fun kv => match Py.dictGet (.str kv.1) kvs with
                                 | some v => pyEq v kv.2
                                 | none => false)) := by
  unfold Callables.items_contain
  rw [allItemsM_dict kvs items _ (itemTest_dict kvs)]
  rfl

end ValidaProofs
