/-
  ValidaProofs.Lemmas.C07CastsRel — the invariant of validation with casts: the working copy is the
  document with some string leaves replaced (`Rel`), well-formed documents (`DocWF`), reading along a
  path of the document in the copy (`index`), and writing one node of the copy (`setAt`).
-/
import Valida.Rule
import ValidaSpec.Walk
import ValidaProofs.Lemmas.Basic
import ValidaProofs.Lemmas.DataGuard
import ValidaProofs.Lemmas.PyEq
namespace ValidaProofs.C07C
open Valida ValidaGen ValidaSpec
open PyVal (pyEq pyEqL hashable hashableL atomEq numKey)

/-! ### well-formed documents -/

mutual
/-- well-formed document: every mapping has hashable, pairwise different keys, at every depth -/
def DocWF : PyVal → Prop
  | .list xs => DocWFL xs
  | .tuple xs => DocWFL xs
  | .dict kvs => (∀ kv ∈ kvs, PyVal.hashable kv.1 = true) ∧ DistinctKeys kvs ∧ DocWFD kvs
  | _ => True
termination_by structural x => x
def DocWFL : List PyVal → Prop
  | [] => True
  | x :: xs => DocWF x ∧ DocWFL xs
termination_by structural x => x
def DocWFD : List (PyVal × PyVal) → Prop
  | [] => True
  | (_, v) :: rest => DocWF v ∧ DocWFD rest
termination_by structural x => x
end

theorem docWFL_getElem? (xs : List PyVal) (h : DocWFL xs) (i : Nat) (c : PyVal) (hc : xs[i]? = some c) :
    DocWF c := by
  induction xs generalizing i with
  | nil => simp at hc
  | cons x xs ih =>
    simp only [DocWFL] at h
    cases i with
    | zero => simp at hc; subst hc; exact h.1
    | succ i => simp at hc; exact ih h.2 i hc

theorem docWFD_dictGet (kvs : List (PyVal × PyVal)) (h : DocWFD kvs) (k c : PyVal)
    (hc : Py.dictGet k kvs = some c) : DocWF c := by
  induction kvs with
  | nil => simp [Py.dictGet] at hc
  | cons kv rest ih =>
    obtain ⟨k0, v0⟩ := kv
    simp only [DocWFD] at h
    simp only [Py.dictGet] at hc
    split at hc
    · cases hc; exact h.1
    · exact ih h.2 hc

theorem docWF_childAt (node k c : PyVal) (h : DocWF node) (hc : childAt node k = some c) : DocWF c := by
  cases node with
  | dict kvs =>
    simp only [DocWF] at h
    exact docWFD_dictGet kvs h.2.2 k c hc
  | list xs =>
    simp only [DocWF] at h
    simp only [childAt] at hc
    split at hc
    · split at hc
      · exact docWFL_getElem? xs h _ c hc
      · cases hc
    · cases hc
  | _ => simp [childAt] at hc

theorem docWF_index (q : List PyVal) (doc x : PyVal) (h : DocWF doc) (hx : index doc q = some x) : DocWF x := by
  induction q generalizing doc with
  | nil => simp [index] at hx; subst hx; exact h
  | cons k ks ih =>
    simp only [index] at hx
    cases hc : childAt doc k with
    | none => simp [hc] at hx
    | some c =>
      simp [hc] at hx
      exact ih c (docWF_childAt doc k c h hc) hx

/-! ### `==` against a hashable value -/

mutual
theorem hashable_of_pyEq (x y : PyVal) (hy : hashable y = true) (h : pyEq x y = true) : hashable x = true := by
  cases y with
  | tuple ys =>
    obtain ⟨xs, rfl, hxs⟩ := pyEq_tuple_right h
    simp only [hashable] at hy ⊢
    exact hashableL_of_pyEqL xs ys hy hxs
  | list _ => simp [hashable] at hy
  | dict _ => simp [hashable] at hy
  | obj _ => simp [hashable] at hy
  | _ => cases x <;> simp [pyEq, atomEq, numKey, hashable] at h ⊢
termination_by structural y
theorem hashableL_of_pyEqL (xs ys : List PyVal) (hy : hashableL ys = true) (h : pyEqL xs ys = true) :
    hashableL xs = true := by
  cases ys with
  | nil =>
    cases xs with
    | nil => rfl
    | cons => simp [pyEqL] at h
  | cons y ys =>
    cases xs with
    | nil => rfl
    | cons x xs =>
      simp only [hashableL, Bool.and_eq_true] at hy ⊢
      simp only [pyEqL, Bool.and_eq_true] at h
      exact ⟨hashable_of_pyEq x y hy.1 h.1, hashableL_of_pyEqL xs ys hy.2 h.2⟩
termination_by structural ys
end

/-! ### the relation between the document and the working copy -/

section
variable (P : String → PyVal → Prop)

mutual
/-- `Rel P doc copy`: the copy is the document with some strings `s` replaced by a `v` with `P s v` -/
def Rel : PyVal → PyVal → Prop
  | .list xs, y => ∃ ys, y = .list ys ∧ RelL xs ys
  | .dict kvs, y => ∃ kvs', y = .dict kvs' ∧ RelD kvs kvs'
  | .str s, y => y = .str s ∨ P s y
  | .none, y => y = .none
  | .bool b, y => y = .bool b
  | .int n, y => y = .int n
  | .float k, y => y = .float k
  | .tuple xs, y => y = .tuple xs
  | .type t, y => y = .type t
  | .obj n, y => y = .obj n
termination_by structural x => x
def RelL : List PyVal → List PyVal → Prop
  | [], ys => ys = []
  | x :: xs, ys => ∃ y ys', ys = y :: ys' ∧ Rel x y ∧ RelL xs ys'
termination_by structural x => x
def RelD : List (PyVal × PyVal) → List (PyVal × PyVal) → Prop
  | [], l => l = []
  | (k, v) :: rest, l => ∃ v' rest', l = (k, v') :: rest' ∧ Rel v v' ∧ RelD rest rest'
termination_by structural x => x
end

mutual
theorem rel_refl : ∀ x : PyVal, Rel P x x
  | .list xs => by simp only [Rel]; exact ⟨xs, rfl, relL_refl xs⟩
  | .dict kvs => by simp only [Rel]; exact ⟨kvs, rfl, relD_refl kvs⟩
  | .str s => by simp [Rel]
  | .none => by simp only [Rel]
  | .bool _ => by simp only [Rel]
  | .int _ => by simp only [Rel]
  | .float _ => by simp only [Rel]
  | .tuple _ => by simp only [Rel]
  | .type _ => by simp only [Rel]
  | .obj _ => by simp only [Rel]
theorem relL_refl : ∀ xs : List PyVal, RelL P xs xs
  | [] => by simp only [RelL]
  | x :: xs => by simp only [RelL]; exact ⟨x, xs, rfl, rel_refl x, relL_refl xs⟩
theorem relD_refl : ∀ kvs : List (PyVal × PyVal), RelD P kvs kvs
  | [] => by simp only [RelD]
  | (k, v) :: rest => by simp only [RelD]; exact ⟨v, rest, rfl, rel_refl v, relD_refl rest⟩
end

end

section
variable {P Q : String → PyVal → Prop}

mutual
theorem rel_mono (hPQ : ∀ s v, P s v → Q s v) : ∀ x y : PyVal, Rel P x y → Rel Q x y
  | .list xs, y, h => by
    simp only [Rel] at h ⊢
    obtain ⟨ys, rfl, h⟩ := h
    exact ⟨ys, rfl, relL_mono hPQ xs ys h⟩
  | .dict kvs, y, h => by
    simp only [Rel] at h ⊢
    obtain ⟨kvs', rfl, h⟩ := h
    exact ⟨kvs', rfl, relD_mono hPQ kvs kvs' h⟩
  | .str s, y, h => by
    simp only [Rel] at h ⊢
    exact h.imp id (hPQ s y)
  | .none, y, h => by simp only [Rel] at h ⊢; exact h
  | .bool _, y, h => by simp only [Rel] at h ⊢; exact h
  | .int _, y, h => by simp only [Rel] at h ⊢; exact h
  | .float _, y, h => by simp only [Rel] at h ⊢; exact h
  | .tuple _, y, h => by simp only [Rel] at h ⊢; exact h
  | .type _, y, h => by simp only [Rel] at h ⊢; exact h
  | .obj _, y, h => by simp only [Rel] at h ⊢; exact h
theorem relL_mono (hPQ : ∀ s v, P s v → Q s v) : ∀ xs ys : List PyVal, RelL P xs ys → RelL Q xs ys
  | [], ys, h => by simp only [RelL] at h ⊢; exact h
  | x :: xs, ys, h => by
    simp only [RelL] at h ⊢
    obtain ⟨y, ys', rfl, h1, h2⟩ := h
    exact ⟨y, ys', rfl, rel_mono hPQ x y h1, relL_mono hPQ xs ys' h2⟩
theorem relD_mono (hPQ : ∀ s v, P s v → Q s v) : ∀ kvs kvs' : List (PyVal × PyVal), RelD P kvs kvs' → RelD Q kvs kvs'
  | [], l, h => by simp only [RelD] at h ⊢; exact h
  | (k, v) :: rest, l, h => by
    simp only [RelD] at h ⊢
    obtain ⟨v', rest', rfl, h1, h2⟩ := h
    exact ⟨v', rest', rfl, rel_mono hPQ v v' h1, relD_mono hPQ rest rest' h2⟩
end

end

section
variable {P : String → PyVal → Prop}

/-! ### shape -/

theorem relL_length (xs ys : List PyVal) (h : RelL P xs ys) : ys.length = xs.length := by
  induction xs generalizing ys with
  | nil => simp only [RelL] at h; subst h; rfl
  | cons x xs ih =>
    simp only [RelL] at h
    obtain ⟨y, ys', rfl, _, h2⟩ := h
    simp [ih ys' h2]

theorem relD_keys (kvs kvs' : List (PyVal × PyVal)) (h : RelD P kvs kvs') :
    kvs'.map (·.1) = kvs.map (·.1) := by
  induction kvs generalizing kvs' with
  | nil => simp only [RelD] at h; subst h; rfl
  | cons kv rest ih =>
    obtain ⟨k, v⟩ := kv
    simp only [RelD] at h
    obtain ⟨v', rest', rfl, _, h2⟩ := h
    simp [ih rest' h2]

/-- the conclusion of C15 at one node, read off `Rel` -/
theorem rel_shape (x y : PyVal) : Rel P x y →
    (match x with
     | .str s => y = .str s ∨ P s y
     | .list xs => ∃ ys, y = .list ys ∧ ys.length = xs.length
     | .tuple xs => y = .tuple xs
     | .dict kvs => ∃ kvs', y = .dict kvs' ∧ kvs'.map (·.1) = kvs.map (·.1)
     | other => y = other) := by
  intro h
  cases x with
  | list xs =>
    simp only [Rel] at h
    obtain ⟨ys, rfl, h⟩ := h
    exact ⟨ys, rfl, relL_length xs ys h⟩
  | dict kvs =>
    simp only [Rel] at h
    obtain ⟨kvs', rfl, h⟩ := h
    exact ⟨kvs', rfl, relD_keys kvs kvs' h⟩
  | _ => simpa only [Rel] using h

/-- a non-empty container stays a non-empty container of the same kind -/
theorem rel_ofPy (x y : PyVal) (h : Rel P x y) (d : DataV) (hd : DataV.ofPy x = .ok d) :
    ∃ d', DataV.ofPy y = .ok d' := by
  cases x with
  | list xs =>
    simp only [Rel] at h
    obtain ⟨ys, rfl, h⟩ := h
    have hl := relL_length xs ys h
    cases xs with
    | nil => simp [DataV.ofPy_list] at hd
    | cons x xs =>
      cases ys with
      | nil => simp at hl
      | cons y ys => exact ⟨_, rfl⟩
  | dict kvs =>
    simp only [Rel] at h
    obtain ⟨kvs', rfl, h⟩ := h
    have hl := congrArg List.length (relD_keys kvs kvs' h)
    simp only [List.length_map] at hl
    cases kvs with
    | nil => simp [DataV.ofPy_dict] at hd
    | cons x xs =>
      cases kvs' with
      | nil => simp at hl
      | cons y ys => exact ⟨_, rfl⟩
  | _ => cases hd

/-! ### reading -/

theorem relL_getElem? (xs ys : List PyVal) (h : RelL P xs ys) (i : Nat) (c : PyVal) (hc : xs[i]? = some c) :
    ∃ c', ys[i]? = some c' ∧ Rel P c c' := by
  induction xs generalizing ys i with
  | nil => simp at hc
  | cons x xs ih =>
    simp only [RelL] at h
    obtain ⟨y, ys', rfl, h1, h2⟩ := h
    cases i with
    | zero => simp at hc; subst hc; exact ⟨y, by simp, h1⟩
    | succ i => simp at hc; simpa using ih ys' h2 i hc

theorem relD_dictGet (kvs kvs' : List (PyVal × PyVal)) (h : RelD P kvs kvs') (k c : PyVal)
    (hc : Py.dictGet k kvs = some c) : ∃ c', Py.dictGet k kvs' = some c' ∧ Rel P c c' := by
  induction kvs generalizing kvs' with
  | nil => simp [Py.dictGet] at hc
  | cons kv rest ih =>
    obtain ⟨k0, v0⟩ := kv
    simp only [RelD] at h
    obtain ⟨v', rest', rfl, h1, h2⟩ := h
    simp only [Py.dictGet] at hc ⊢
    split at hc
    · rename_i hkk; cases hc; exact ⟨v', by rw [if_pos hkk], h1⟩
    · rename_i hkk; rw [if_neg hkk]; exact ih rest' h2 hc

theorem rel_childAt (x y : PyVal) (h : Rel P x y) (k c : PyVal) (hc : childAt x k = some c) :
    ∃ c', childAt y k = some c' ∧ Rel P c c' := by
  cases x with
  | dict kvs =>
    simp only [Rel] at h
    obtain ⟨kvs', rfl, h⟩ := h
    exact relD_dictGet kvs kvs' h k c hc
  | list xs =>
    simp only [Rel] at h
    obtain ⟨ys, rfl, h⟩ := h
    simp only [childAt] at hc ⊢
    split at hc
    · split at hc
      · rename_i i _ hi
        simp only [hi, if_true]
        exact relL_getElem? xs ys h _ c hc
      · cases hc
    · cases hc
  | _ => simp [childAt] at hc

theorem rel_index (q : List PyVal) (x y : PyVal) (h : Rel P x y) (c : PyVal) (hc : index x q = some c) :
    ∃ c', index y q = some c' ∧ Rel P c c' := by
  induction q generalizing x y with
  | nil => simp only [index] at hc ⊢; cases hc; exact ⟨y, rfl, h⟩
  | cons k ks ih =>
    simp only [index] at hc ⊢
    cases hk : childAt x k with
    | none => simp [hk] at hc
    | some c1 =>
      simp only [hk, Option.bind_some] at hc
      obtain ⟨c1', hk', hr⟩ := rel_childAt x y h k c1 hk
      simp only [hk', Option.bind_some]
      exact ih c1 c1' hr hc

/-! ### writing one level -/

theorem relL_set (xs ys : List PyVal) (h : RelL P xs ys) (i : Nat) (c c' : PyVal) (hc : xs[i]? = some c)
    (hr : Rel P c c') : RelL P xs (ys.set i c') := by
  induction xs generalizing ys i with
  | nil => simp at hc
  | cons x xs ih =>
    simp only [RelL] at h
    obtain ⟨y, ys', rfl, h1, h2⟩ := h
    cases i with
    | zero =>
      simp at hc; subst hc
      simp only [List.set_cons_zero, RelL]
      exact ⟨c', ys', rfl, hr, h2⟩
    | succ i =>
      simp at hc
      simp only [List.set_cons_succ, RelL]
      exact ⟨y, _, rfl, h1, ih ys' h2 i hc⟩

theorem map_write_id (k v : PyVal) (l : List (PyVal × PyVal)) (h : ∀ kv ∈ l, pyEq k kv.1 = false) :
    l.map (fun kv => if pyEq k kv.1 then (kv.1, v) else kv) = l := by
  induction l with
  | nil => rfl
  | cons a l ih =>
    simp only [List.map_cons, h a (by simp), Bool.false_eq_true, if_false]
    rw [ih (fun kv hkv => h kv (by simp [hkv]))]

theorem relD_write (kvs kvs' : List (PyVal × PyVal)) (h : RelD P kvs kvs')
    (hh : ∀ kv ∈ kvs, hashable kv.1 = true) (hd : DistinctKeys kvs)
    (k c c' : PyVal) (hk : hashable k = true) (hc : Py.dictGet k kvs = some c) (hr : Rel P c c') :
    RelD P kvs (kvs'.map (fun kv => if pyEq k kv.1 then (kv.1, c') else kv)) := by
  induction kvs generalizing kvs' with
  | nil => simp [Py.dictGet] at hc
  | cons kv rest ih =>
    obtain ⟨k0, v0⟩ := kv
    simp only [RelD] at h
    obtain ⟨v', rest', rfl, h1, h2⟩ := h
    unfold DistinctKeys at hd
    rw [List.pairwise_cons] at hd
    simp only [Py.dictGet] at hc
    simp only [List.map_cons]
    split at hc
    · rename_i hkk
      cases hc
      simp only [hkk, if_true, RelD]
      refine ⟨c', _, rfl, hr, ?_⟩
      rw [map_write_id]
      · exact h2
      · intro kv hkv
        have hkeys := relD_keys rest rest' h2
        have hmem : kv.1 ∈ rest.map (·.1) := by
          rw [← hkeys]; exact List.mem_map_of_mem hkv
        obtain ⟨kv0, hkv0, hkv0e⟩ := List.mem_map.1 hmem
        have hdis : pyEq k0 kv0.1 = false := hd.1 kv0 hkv0
        rw [hkv0e] at hdis
        cases hkk2 : pyEq k kv.1 with
        | false => rfl
        | true =>
          have h0 : pyEq k0 k = true := by
            rw [pyEq_symm k0 k (hh _ List.mem_cons_self)]; exact hkk
          rw [pyEq_trans k0 k kv.1 hk h0 hkk2] at hdis
          cases hdis
    · rename_i hkk
      simp only [hkk, RelD]
      exact ⟨v', _, rfl, h1, ih rest' h2 (fun kv hkv => hh kv (by simp [hkv])) hd.2 hc⟩

theorem dictHasKey_of_dictGet (k c : PyVal) (kvs : List (PyVal × PyVal)) (h : Py.dictGet k kvs = some c) :
    Py.dictHasKey k kvs = true := by
  induction kvs with
  | nil => simp [Py.dictGet] at h
  | cons kv rest ih =>
    obtain ⟨k0, v0⟩ := kv
    simp only [Py.dictGet] at h
    simp only [Py.dictHasKey, List.any_cons, Bool.or_eq_true]
    split at h
    · rename_i hkk; exact Or.inl hkk
    · exact Or.inr (ih h)

theorem hashable_of_dictGet (k c : PyVal) (kvs : List (PyVal × PyVal))
    (hh : ∀ kv ∈ kvs, hashable kv.1 = true) (h : Py.dictGet k kvs = some c) : hashable k = true := by
  induction kvs with
  | nil => simp [Py.dictGet] at h
  | cons kv rest ih =>
    obtain ⟨k0, v0⟩ := kv
    simp only [Py.dictGet] at h
    split at h
    · rename_i hkk; exact hashable_of_pyEq k k0 (hh (k0, v0) (by simp)) hkk
    · exact ih (fun kv hkv => hh kv (by simp [hkv])) h

/-- `copy[k]` succeeds where the document has a child, and gives the related child -/
theorem rel_getItem (doc copy : PyVal) (h : Rel P doc copy) (hwf : DocWF doc) (k c : PyVal)
    (hc : childAt doc k = some c) : ∃ cc, Py.getItem copy k = .ok cc ∧ Rel P c cc := by
  cases doc with
  | dict kvs =>
    simp only [Rel] at h
    obtain ⟨kvs', rfl, h⟩ := h
    simp only [DocWF] at hwf
    simp only [childAt] at hc
    obtain ⟨cc, hcc, hr⟩ := relD_dictGet kvs kvs' h k c hc
    exact ⟨cc, by simp [Py.getItem, hashable_of_dictGet k c kvs hwf.1 hc, hcc], hr⟩
  | list xs =>
    simp only [Rel] at h
    obtain ⟨ys, rfl, h⟩ := h
    simp only [childAt] at hc
    split at hc
    · rename_i i hi
      split at hc
      · rename_i hi0
        obtain ⟨cc, hcc, hr⟩ := relL_getElem? xs ys h _ c hc
        refine ⟨cc, ?_, hr⟩
        have hlt : i.toNat < ys.length := by
          rcases Nat.lt_or_ge i.toNat ys.length with hl | hl
          · exact hl
          · rw [List.getElem?_eq_none hl] at hcc; cases hcc
        have h1 : ¬ (i < 0) := by omega
        have h2 : (decide (0 ≤ i) && decide (i < (ys.length : Int))) = true := by
          simp; omega
        simp only [Py.getItem, hi, h1, if_false, h2, if_true, hcc]
      · cases hc
    · cases hc
  | _ => simp [childAt] at hc

/-- `copy[k] = c'` succeeds where the document has a child `c` and keeps the relation when `c'` is
    related to `c` -/
theorem rel_setItem (doc copy : PyVal) (h : Rel P doc copy) (hwf : DocWF doc) (k c c' : PyVal)
    (hc : childAt doc k = some c) (hr : Rel P c c') :
    ∃ copy', setItem copy k c' = .ok copy' ∧ Rel P doc copy' := by
  cases doc with
  | dict kvs =>
    simp only [Rel] at h
    obtain ⟨kvs', rfl, h⟩ := h
    simp only [DocWF] at hwf
    simp only [childAt] at hc
    have hk := hashable_of_dictGet k c kvs hwf.1 hc
    obtain ⟨cc, hcc, _⟩ := relD_dictGet kvs kvs' h k c hc
    refine ⟨.dict (kvs'.map (fun kv => if pyEq k kv.1 then (kv.1, c') else kv)),
      by simp only [setItem, hk, Bool.not_true, Bool.false_eq_true, if_false,
        dictHasKey_of_dictGet k cc kvs' hcc, if_true], ?_⟩
    simp only [Rel]
    exact ⟨_, rfl, relD_write kvs kvs' h hwf.1 hwf.2.1 k c c' hk hc hr⟩
  | list xs =>
    simp only [Rel] at h
    obtain ⟨ys, rfl, h⟩ := h
    simp only [childAt] at hc
    split at hc
    · rename_i i hi
      split at hc
      · rename_i hi0
        obtain ⟨cc, hcc, _⟩ := relL_getElem? xs ys h _ c hc
        have hlt : i.toNat < ys.length := by
          rcases Nat.lt_or_ge i.toNat ys.length with hl | hl
          · exact hl
          · rw [List.getElem?_eq_none hl] at hcc; cases hcc
        have h1 : ¬ (i < 0) := by omega
        have h2 : (decide (0 ≤ i) && decide (i < (ys.length : Int))) = true := by
          simp; omega
        refine ⟨.list (ys.set i.toNat c'), by simp only [setItem, hi, h1, if_false, h2, if_true], ?_⟩
        simp only [Rel]
        exact ⟨_, rfl, relL_set xs ys h _ c c' hc hr⟩
      · cases hc
    · cases hc
  | _ => simp [childAt] at hc

/-! ### writing along a path -/

/-- replacing the node at a path of the document by a related value keeps the relation -/
theorem rel_setAt (q : List PyVal) (hq : q ≠ []) (doc copy : PyVal) (h : Rel P doc copy) (hwf : DocWF doc)
    (c c' : PyVal) (hc : index doc q = some c) (hr : Rel P c c') :
    ∃ copy', setAt copy q c' = .ok copy' ∧ Rel P doc copy' := by
  induction q generalizing doc copy with
  | nil => exact absurd rfl hq
  | cons k ks ih =>
    simp only [index] at hc
    cases hk : childAt doc k with
    | none => simp [hk] at hc
    | some c1 =>
      simp only [hk, Option.bind_some] at hc
      cases ks with
      | nil =>
        simp only [index] at hc
        cases hc
        simpa only [setAt] using rel_setItem doc copy h hwf k _ c' hk hr
      | cons k2 ks2 =>
        obtain ⟨cc, hg, hrc⟩ := rel_getItem doc copy h hwf k c1 hk
        obtain ⟨cc', hs, hrc'⟩ := ih (by simp) c1 cc hrc (docWF_childAt doc k c1 hwf hk) hc
        obtain ⟨copy', hw, hrw⟩ := rel_setItem doc copy h hwf k c1 cc' hk hrc'
        exact ⟨copy', by simp only [setAt, hg, hs, hw, bind, Except.bind], hrw⟩

end

end ValidaProofs.C07C

