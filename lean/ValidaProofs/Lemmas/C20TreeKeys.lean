/-
  ValidaProofs.Lemmas.C20TreeKeys — exactly which node paths the items dictionary of `to_tree` has:
  the (relative) paths of the rules of the sub-tree, those paths plus a key named by an
  always-applicable `allowed_keys` / `required_keys` condition, and the implicitly typed parents.
-/
import Valida.Tree
import ValidaProofs.Lemmas.C20Tree
import ValidaProofs.Lemmas.C20TreeOrder
import ValidaProofs.Lemmas.C20TreeFold
import ValidaProofs.Lemmas.C20TreeReq
import ValidaProofs.Lemmas.C20TreeFlat
import ValidaProofs.Lemmas.C20TreeGen
namespace ValidaProofs.C20H
open Valida ValidaGen ValidaProofs.C20L

/-- the node paths one rule of the sub-tree creates -/
def ExactKey (fromStr : List String) (r : TRule) (q : List String) : Prop :=
  q = rel fromStr r ∨
  (r.cond.alwaysApplicable = true ∧ ∃ l ∈ r.cond.leaves, (l.fn = "allowed_keys" ∨ l.fn = "required_keys") ∧
    ∃ k ∈ leafKeys l, q = rel fromStr r ++ [k]) ∨
  (r.implTypes ≠ [] ∧ q = parentStrOf r (rel fromStr r))

/-- the node paths of the sub-tree -/
def NodeKey (fromStr : List String) (rules : List TRule) (q : List String) : Prop :=
  ∃ r ∈ rules, Sel fromStr r ∧ ExactKey fromStr r q

theorem mem_keyCondsOf (r : TRule) (l : TLeaf) (h : l ∈ keyCondsOf r) :
    r.cond.alwaysApplicable = true ∧ l ∈ r.cond.leaves ∧ (l.fn = "allowed_keys" ∨ l.fn = "required_keys") := by
  unfold keyCondsOf at h
  split at h
  · rename_i ha
    simp only [List.mem_filter, Bool.or_eq_true, beq_iff_eq] at h
    exact ⟨ha, h.1, h.2⟩
  · cases h

theorem tailOps_key (r : TRule) (p : List String) (sel : Bool) :
    ∀ o ∈ tailOps r p sel, r.implTypes ≠ [] ∧ (o.k = parentStrOf r p ∨ o.k = p) := by
  intro o ho
  unfold tailOps at ho
  split at ho
  · cases ho
  · rename_i parImp hlast
    have hne : r.implTypes ≠ [] := by
      intro e; rw [e] at hlast; cases hlast
    refine ⟨hne, ?_⟩
    simp only [List.mem_append, List.mem_singleton] at ho
    rcases ho with (ho | ho) | ho
    · subst ho; exact Or.inl rfl
    · split at ho
      · simp only [List.mem_cons, List.mem_nil_iff, or_false] at ho
        rcases ho with rfl | rfl
        · exact Or.inl rfl
        · exact Or.inr rfl
      · cases ho
    · split at ho
      · simp only [List.mem_cons, List.mem_nil_iff, or_false] at ho
        rcases ho with rfl | rfl
        · exact Or.inl rfl
        · exact Or.inr rfl
      · cases ho

theorem stepOps_exactKey (fromStr : List String) (r : TRule) (idx : Nat) (sel : Bool) :
    ∀ o ∈ stepOps r idx fromStr.length sel, ExactKey fromStr r o.k := by
  intro o ho
  simp only [stepOps, List.mem_append, List.mem_singleton, keysOps, List.mem_flatMap, List.mem_map] at ho
  rcases ho with (((ho | ⟨l, hl, kd, hkd, rfl⟩) | ho) | ho) | ho
  · subst ho; exact Or.inl rfl
  · obtain ⟨ha, hl', hfn⟩ := mem_keyCondsOf r l hl
    exact Or.inr (Or.inl ⟨ha, l, hl', hfn, kd.1, List.mem_map.2 ⟨kd, hkd, rfl⟩, rfl⟩)
  · split at ho
    · simp only [List.mem_singleton] at ho; subst ho; exact Or.inl rfl
    · cases ho
  · split at ho
    · simp only [List.mem_singleton] at ho; subst ho; exact Or.inl rfl
    · cases ho
  · obtain ⟨hne, hk | hk⟩ := tailOps_key r _ sel o ho
    · exact Or.inr (Or.inr ⟨hne, hk⟩)
    · exact Or.inl hk

/-- every key of the dictionary is a node path of a rule of the sub-tree -/
theorem stepsFrom_exact_from (fromStr : List String) (irs : List (Nat × TRule)) :
    ∀ (items : Items), ∀ it ∈ stepsFrom fromStr irs items,
      (∃ it₀ ∈ items, it₀.pathStr = it.pathStr) ∨
      (∃ ir ∈ irs, Sel fromStr ir.2 ∧ ExactKey fromStr ir.2 it.pathStr) := by
  induction irs with
  | nil => intro items it h; exact Or.inl ⟨it, h, rfl⟩
  | cons ir irs ih =>
    intro items it h
    rw [stepsFrom_cons] at h
    rcases ih _ it h with ⟨it1, h1, hk1⟩ | ⟨ir', hir', hs', hk'⟩
    · have := treeStep_forall
        (fun x => (∃ it₀ ∈ items, it₀.pathStr = x.pathStr) ∨ (Sel fromStr ir.2 ∧ ExactKey fromStr ir.2 x.pathStr))
        fromStr items ir.1 ir.2
        (by
          intro hs sel o ho
          have hwf := stepOps_WF ir.2 ir.1 fromStr.length sel o ho
          have hkey := stepOps_exactKey fromStr ir.2 ir.1 sel o ho
          refine ⟨fun i _ hJ => by rw [hwf.1 i]; exact hJ, ?_⟩
          rw [hwf.1, hwf.2]
          exact Or.inr ⟨hs, hkey⟩)
        (fun x hx => Or.inl ⟨x, hx, rfl⟩) it1 h1
      rcases this with ⟨it0, h0, hk0⟩ | ⟨hs, hk⟩
      · exact Or.inl ⟨it0, h0, hk0.trans hk1⟩
      · exact Or.inr ⟨ir, by simp, hs, hk1 ▸ hk⟩
    · exact Or.inr ⟨ir', by simp [hir'], hs', hk'⟩

/-- the key of every update is a key afterwards -/
theorem applyOps_key_mem (ops : List Op) (hwf : ∀ o ∈ ops, o.WF) :
    ∀ (items : Items), (∀ k ∈ items.map (·.pathStr), k ∈ (applyOps ops items).map (·.pathStr)) ∧
      ∀ o ∈ ops, o.k ∈ (applyOps ops items).map (·.pathStr) := by
  induction ops with
  | nil => intro items; exact ⟨fun k hk => hk, fun o ho => by cases ho⟩
  | cons o ops ih =>
    intro items
    rw [applyOps_cons]
    obtain ⟨hsub, hk⟩ := keys_upsert_sub items o (hwf o (by simp))
    obtain ⟨ih1, ih2⟩ := ih (fun o' ho' => hwf o' (by simp [ho'])) (items.upsert o.k o.init o.f)
    refine ⟨fun k hk' => ih1 k (hsub k hk'), ?_⟩
    intro o' ho'
    rcases List.mem_cons.1 ho' with rfl | ho'
    · exact ih1 _ hk
    · exact ih2 o' ho'

/-- the implicitly typed parent of a rule of the sub-tree has a node -/
theorem stepsFrom_parent_key (fromStr : List String) (irs : List (Nat × TRule)) :
    ∀ (items : Items), ∀ ir ∈ irs, Sel fromStr ir.2 → ir.2.implTypes ≠ [] →
      ∃ it ∈ stepsFrom fromStr irs items, it.pathStr = parentStrOf ir.2 (rel fromStr ir.2) := by
  induction irs with
  | nil => intro items ir h; cases h
  | cons ir0 irs ih =>
    intro items ir hir hs hne
    rw [stepsFrom_cons]
    rcases List.mem_cons.1 hir with rfl | hir
    · obtain ⟨sel, he⟩ := treeStep_sel fromStr items ir.1 ir.2 hs
      cases hlast : ir.2.implTypes.getLast? with
      | none => rw [List.getLast?_eq_none_iff] at hlast; exact absurd hlast hne
      | some parImp =>
        have hmem : opPar (parentStrOf ir.2 (rel fromStr ir.2)) parImp ∈ stepOps ir.2 ir.1 fromStr.length sel := by
          rw [stepOps_eq]
          apply List.mem_append_right
          unfold tailOps
          rw [hlast]
          exact List.mem_append_left _ (List.mem_append_left _ (List.mem_singleton.2 rfl))
        have := (applyOps_key_mem _ (stepOps_WF ir.2 ir.1 fromStr.length sel) items).2 _ hmem
        rw [← he] at this
        obtain ⟨it1, h1, hk1⟩ := List.mem_map.1 this
        obtain ⟨it2, h2, hk2⟩ := stepsFrom_keeps_key fromStr irs _ it1 h1
        exact ⟨it2, h2, hk2.trans hk1⟩
    · exact ih _ ir hir hs hne

/-- the keys of the items dictionary, exactly -/
theorem treeItems_keys_exact (rules : List TRule) (fromStr : List String) (q : List String) :
    q ∈ (treeItems rules fromStr).map (·.pathStr) ↔ NodeKey fromStr rules q := by
  constructor
  · intro h
    obtain ⟨it, hit, rfl⟩ := List.mem_map.1 h
    rcases stepsFrom_exact_from fromStr _ [] it hit with ⟨_, h0, _⟩ | ⟨ir, hir, hs, hk⟩
    · cases h0
    · exact ⟨ir.2, enum_mem_rules rules ir hir, hs, hk⟩
  · rintro ⟨r, hr, hs, hk | ⟨ha, l, hl, hfn, k, hk, hq⟩ | ⟨hne, hq⟩⟩
    · obtain ⟨it, hit, hk'⟩ := rule_has_item rules fromStr r hr hs
      exact List.mem_map.2 ⟨it, hit, hk'.trans hk.symm⟩
    · have hnamed : KeyNamedIn fromStr rules "allowed_keys" q ∨ KeyNamedIn fromStr rules "required_keys" q := by
        rcases hfn with hfn | hfn
        · exact Or.inl ⟨r, hr, hs, ha, l, hl, hfn, k, hk, hq⟩
        · exact Or.inr ⟨r, hr, hs, ha, l, hl, hfn, k, hk, hq⟩
      have hmem : ∃ b, (q, b) ∈ rules.flatMap (ruleEvs fromStr) := by
        rcases hnamed with hn | hn
        · exact ⟨false, (mem_evs_false fromStr rules q).2 hn⟩
        · exact ⟨true, (mem_evs_true fromStr rules q).2 hn⟩
      obtain ⟨b, hb⟩ := hmem
      exact (treeItems_reqInv rules fromStr).2 _ hb
    · obtain ⟨j, hj⟩ := mem_rules_enum rules r hr
      obtain ⟨it, hit, hk'⟩ := stepsFrom_parent_key fromStr _ [] (j, r) hj hs hne
      exact List.mem_map.2 ⟨it, hit, hk'.trans hq.symm⟩

/-- the node paths of the flat list, exactly -/
theorem gen_keys_exact (rules : List TRule) (fromStr : List String) (lst : List TItem)
    (h : Assigned rules fromStr lst) (q : List String) :
    (∃ it ∈ lst, it.pathStr = q) ↔ NodeKey fromStr rules q := by
  rw [← treeItems_keys_exact]
  constructor
  · rintro ⟨it, hit, rfl⟩
    obtain ⟨it0, h0, he⟩ := (assigned_mem rules fromStr lst h).1 it hit
    have h2 := congrArg TItem.pathStr he
    rw [noParent_pathStr, noParent_pathStr] at h2
    exact List.mem_map.2 ⟨it0, h0, h2.symm⟩
  · intro hq
    obtain ⟨it0, h0, rfl⟩ := List.mem_map.1 hq
    obtain ⟨it, hit, he⟩ := (assigned_mem rules fromStr lst h).2 it0 h0
    have h2 := congrArg TItem.pathStr he
    rw [noParent_pathStr, noParent_pathStr] at h2
    exact ⟨it, hit, h2⟩

/-- the list is produced exactly when the node paths are closed -/
theorem gen_total_iff (rules : List TRule) (fromStr : List String) :
    (∃ lst, Assigned rules fromStr lst) ↔
      ∀ q, NodeKey fromStr rules q → q.dropLast = [] ∨ NodeKey fromStr rules q.dropLast := by
  constructor
  · rintro ⟨lst, h⟩ q hq
    obtain ⟨it, hit, rfl⟩ := (gen_keys_exact rules fromStr lst h q).2 hq
    obtain ⟨i, hi⟩ := List.mem_iff_getElem?.1 hit
    rcases gen_parents rules fromStr lst h i it hi with ⟨_, h0⟩ | ⟨j, p, _, _, hj, hpk⟩
    · exact Or.inl h0
    · exact Or.inr ((gen_keys_exact rules fromStr lst h _).1 ⟨p, List.mem_of_getElem? hj, hpk⟩)
  · intro hc
    apply assigned_total
    intro it hit
    have hq : NodeKey fromStr rules it.pathStr :=
      (treeItems_keys_exact rules fromStr _).1 (List.mem_map.2 ⟨it, hit, rfl⟩)
    rcases hc _ hq with h0 | hn
    · exact Or.inl h0
    · obtain ⟨p, hp, hpk⟩ := List.mem_map.1 ((treeItems_keys_exact rules fromStr _).2 hn)
      exact Or.inr ⟨p, hp, hpk⟩

end ValidaProofs.C20H
