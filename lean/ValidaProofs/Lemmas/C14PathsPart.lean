/-
  ValidaProofs.Lemmas.C14PathsPart — `CondSame` is preserved by argument maps (`Cond.lit`, `Cond.resolve`)
  and by `Cond.mkBin`; related conditions pass the same kind check and `filterData` gives the same booleans
  or the same exception; hence related parts filter and step alike, and the walk over related part lists
  is the same walk.
-/
import Valida.Path
import Valida.Eq
import ValidaProofs.C02
import ValidaProofs.C14Behave
namespace ValidaProofs.C14P
open Valida ValidaGen

variable {α β : Type}

/-! ### `CondSame` and the constructions on conditions -/

theorem same_mapArgs (f : α → β) {c d : Cond α} (h : CondSame c d) : CondSame (c.mapArgs f) (d.mapArgs f) := by
  induction h with
  | leaf cls fn args kw kw' hperm hnodup =>
    simp only [Cond.mapArgs]
    refine .leaf cls fn (args.map f) _ _ (hperm.map _) ?_
    simpa [List.map_map, Function.comp_def] using hnodup
  | straight op a b a' b' _ _ iha ihb => exact .straight op _ _ _ _ iha ihb
  | crossed op a b a' b' _ _ iha ihb => exact .crossed op _ _ _ _ iha ihb

theorem same_lit {c d : Cond PyVal} (h : CondSame c d) : CondSame c.lit d.lit := same_mapArgs _ h

theorem same_isNull {c d : Cond α} (h : CondSame c d) : c.isNull = d.isNull := by
  cases h <;> rfl

/-- the classes of the single conditions, up to order -/
theorem same_classes {c d : Cond α} (h : CondSame c d) :
    (c.leaves.map (·.cls)).Perm (d.leaves.map (·.cls)) := by
  induction h with
  | leaf cls fn args kw kw' hperm hnodup => exact .refl _
  | straight op a b a' b' _ _ iha ihb =>
    simp only [Cond.leaves, List.map_append]
    exact iha.append ihb
  | crossed op a b a' b' _ _ iha ihb =>
    simp only [Cond.leaves, List.map_append]
    exact (iha.append ihb).trans List.perm_append_comm

theorem countP_cls (P : CClass → Bool) (ls : List (Leaf α)) :
    ls.countP (fun l => P l.cls) = (ls.map (·.cls)).countP P := by
  rw [List.countP_map]; rfl

/-- `a & b` of related operands: related results, or the same refusal -/
theorem mkBin_same (op : BinOp) {a a' b b' : Cond α} (ha : CondSame a a') (hb : CondSame b b') :
    (∃ e, Cond.mkBin op a b = .error e ∧ Cond.mkBin op a' b' = .error e) ∨
    (∃ c c', Cond.mkBin op a b = .ok c ∧ Cond.mkBin op a' b' = .ok c' ∧ CondSame c c') := by
  have hperm : ((a.leaves ++ b.leaves).map (·.cls)).Perm ((a'.leaves ++ b'.leaves).map (·.cls)) := by
    simp only [List.map_append]
    exact (same_classes ha).append (same_classes hb)
  unfold Cond.mkBin
  rw [← same_isNull ha, ← same_isNull hb]
  simp only [countP_cls (fun c => Cond.likeOf c == "key"), countP_cls (fun c => Cond.likeOf c == "index"),
    ← hperm.countP_eq]
  split
  · exact Or.inr ⟨_, _, rfl, rfl, ha⟩
  · split
    · exact Or.inr ⟨_, _, rfl, rfl, hb⟩
    · split
      · exact Or.inl ⟨_, rfl, rfl⟩
      · exact Or.inr ⟨_, _, rfl, rfl, .straight op _ _ _ _ ha hb⟩

theorem kindCheck_same {c d : Cond RArg} (h : CondSame c d) (data : DataV) : kindCheck c data = kindCheck d data := by
  cases h <;> rfl

/-! ### `filterData` -/

/-- related conditions with literal arguments: the same booleans, or the same exception -/
theorem filterData_same {c d : Cond PyVal} (h : CondSame c d) (data : DataV) :
    (filterData c.lit data).map FD.result = (filterData d.lit data).map FD.result := by
  have hl : CondSame c.lit d.lit := same_lit h
  unfold filterData
  rw [kindCheck_same hl data]
  cases kindCheck d.lit data with
  | error e => rfl
  | ok _ =>
    simp only [bind, Except.bind, pure, Except.pure]
    cases hf : filterAux c.lit data false with
    | ok r =>
      obtain ⟨f, d', p⟩ := r
      obtain ⟨f', hf', e, _⟩ := C14_same_behaviour_lit c d hl data false f d' p hf
      rw [hf']
      simp only [Except.map, e]
    | error e =>
      have he := C02_never_aborts c data e hf
      subst he
      cases hf' : filterAux d.lit data false with
      | ok r =>
        obtain ⟨f', d', p⟩ := r
        obtain ⟨f, hf'', _⟩ := C14_same_behaviour_lit d c hl.symm' data false f' d' p hf'
        rw [hf] at hf''; cases hf''
      | error e' =>
        have he' := C02_never_aborts d data e' hf'
        subst he'
        rfl

theorem bind_pair_same (X Y : Except Exc FD) (h : X.map FD.result = Y.map FD.result) (d : DataV) :
    (do let fd ← X; pure (fd, d) : Except Exc (FD × DataV)).map (fun r => (r.1.result, r.2)) =
    (do let fd ← Y; pure (fd, d) : Except Exc (FD × DataV)).map (fun r => (r.1.result, r.2)) := by
  cases X <;> cases Y <;> simp_all [Except.map, bind, Except.bind, pure, Except.pure]

/-! ### parts -/

theorem part_filter_same (p q : Part) (hk : p.kind = q.kind) (hc : CondSame p.cond q.cond)
    (hl : CondSame p.listCond q.listCond) (hm : CondSame p.mapCond q.mapCond) (node : PyVal) :
    (Part.filter p node).map (fun r => (r.1.result, r.2)) =
      (Part.filter q node).map (fun r => (r.1.result, r.2)) := by
  unfold Part.filter
  rw [hk]
  cases DataV.ofPy node with
  | error e => rfl
  | ok d =>
    simp only [bind, Except.bind]
    cases q.kind with
    | map =>
      simp only
      split
      · rfl
      · exact bind_pair_same _ _ (filterData_same hc d) d
    | list =>
      simp only
      split
      · rfl
      · exact bind_pair_same _ _ (filterData_same hc d) d
    | molv =>
      simp only
      split
      · rcases mkBin_same .and hl hc with ⟨e, h1, h2⟩ | ⟨c, c', h1, h2, hcc⟩
        · rw [h1, h2]
        · rw [h1, h2]
          exact bind_pair_same _ _ (filterData_same hcc d) d
      · rcases mkBin_same .and hm hc with ⟨e, h1, h2⟩ | ⟨c, c', h1, h2, hcc⟩
        · rw [h1, h2]
        · rw [h1, h2]
          exact bind_pair_same _ _ (filterData_same hcc d) d

theorem stepNode_same (p q : Part) (node : PyVal)
    (h : (Part.filter p node).map (fun r => (r.1.result, r.2)) =
      (Part.filter q node).map (fun r => (r.1.result, r.2))) : stepNode p node = stepNode q node := by
  unfold stepNode
  cases hp : Part.filter p node with
  | error e =>
    cases hq : Part.filter q node with
    | error e' => rw [hp, hq] at h; simp only [Except.map, Except.error.injEq] at h; subst h; rfl
    | ok r => rw [hp, hq] at h; simp [Except.map] at h
  | ok r =>
    cases hq : Part.filter q node with
    | error e' => rw [hp, hq] at h; simp [Except.map] at h
    | ok r' =>
      rw [hp, hq] at h
      simp only [Except.map, Except.ok.injEq, Prod.mk.injEq] at h
      obtain ⟨fd, d⟩ := r
      obtain ⟨fd', d'⟩ := r'
      simp only at h ⊢
      rw [h.1, h.2]

/-! ### the walk -/

theorem stepFrontier_same (p q : Part) (h : ∀ node, stepNode p node = stepNode q node) (first : Bool) :
    ∀ (nodes : List PyVal) (paths : List (List PyVal)) (idx : Nat),
      stepFrontier p first nodes paths idx = stepFrontier q first nodes paths idx
  | [], _, _ => rfl
  | node :: rest, paths, idx => by
    simp only [stepFrontier, h node, stepFrontier_same p q h first rest paths (idx + 1)]

theorem walkParts_same : ∀ (ps qs : List Part), ps.length = qs.length →
    (∀ x ∈ ps.zip qs, ∀ node, stepNode x.1 node = stepNode x.2 node) →
    ∀ (first : Bool) (data : List PyVal) (paths : List (List PyVal)),
      walkParts ps first data paths = walkParts qs first data paths
  | [], [], _, _, _, _, _ => rfl
  | [], _ :: _, hl, _, _, _, _ => by simp at hl
  | _ :: _, [], hl, _, _, _, _ => by simp at hl
  | p :: ps, q :: qs, hl, h, first, data, paths => by
    simp only [walkParts, stepFrontier_same p q (h (p, q) (by simp)) first data paths 0]
    cases stepFrontier q first data paths 0 with
    | error e => rfl
    | ok r =>
      simp only [bind, Except.bind]
      exact walkParts_same ps qs (by simpa using hl) (fun x hx => h x (by simp [hx])) false _ _

theorem getData_same (ps qs : List Part) (hl : ps.length = qs.length)
    (h : ∀ x ∈ ps.zip qs, ∀ node, stepNode x.1 node = stepNode x.2 node)
    (concrete : Bool) (datum : DatumMod) (multi : MultiMod) (source : Option PyVal)
    (data : Option PyVal) (rp : Bool) :
    Path.getData ⟨ps, concrete, datum, multi, source⟩ data rp =
      Path.getData ⟨qs, concrete, datum, multi, source⟩ data rp := by
  have he : ps.isEmpty = qs.isEmpty := by
    cases ps <;> cases qs <;> simp at hl ⊢
  unfold Path.getData
  simp only [he, walkParts_same ps qs hl h]

/-! ### `==` -/

theorem listEq_of_zip {γ : Type} (R : γ → γ → Bool) : ∀ (xs ys : List γ), xs.length = ys.length →
    (∀ x ∈ xs.zip ys, R x.1 x.2 = true) → listEq R xs ys = true
  | [], [], _, _ => rfl
  | [], _ :: _, hl, _ => by simp at hl
  | _ :: _, [], hl, _ => by simp at hl
  | x :: xs, y :: ys, hl, h => by
    simp only [listEq, Bool.and_eq_true]
    exact ⟨h (x, y) (by simp), listEq_of_zip R xs ys (by simpa using hl) (fun z hz => h z (by simp [hz]))⟩

theorem optValEq_self (o : Option PyVal) (h : ∀ l, o = some l → PyVal.pyEq l l = true) : optValEq o o = true := by
  cases o with
  | none => rfl
  | some l => exact h l rfl

/-- related parts compare equal, `==` being reflexive on their stored literals -/
theorem partEq_same (p q : Part) (hk : p.kind = q.kind) (hlab : p.label = q.label)
    (hc : CondSame p.cond q.cond) (hl : CondSame p.listCond q.listCond) (hm : CondSame p.mapCond q.mapCond)
    (hrefl : ∀ a ∈ condArgs p.cond ++ condArgs p.listCond ++ condArgs p.mapCond, PyVal.pyEq a a = true)
    (hlabel : ∀ l, p.label = some l → PyVal.pyEq l l = true) : partEq p q = true := by
  simp only [List.mem_append] at hrefl
  have h1 : condEqLit p.cond q.cond = true :=
    C14_same_is_equal_on _ _ _ hc (fun a ha => hrefl a (Or.inl (Or.inl ha)))
  have h2 : condEqLit p.listCond q.listCond = true :=
    C14_same_is_equal_on _ _ _ hl (fun a ha => hrefl a (Or.inl (Or.inr ha)))
  have h3 : condEqLit p.mapCond q.mapCond = true :=
    C14_same_is_equal_on _ _ _ hm (fun a ha => hrefl a (Or.inr ha))
  have h4 : optValEq p.label q.label = true := by rw [← hlab]; exact optValEq_self _ hlabel
  simp only [partEq, hk, beq_self_eq_true, h1, h2, h3, h4, Bool.and_self, Bool.or_true]

end ValidaProofs.C14P
