/-
  ValidaProofs.Lemmas.Prim — "raises only" / "returns a bool" facts about the primitives of
  `Valida.Py.Ops`, the binder and the monadic glue.
-/
import ValidaProofs.Lemmas.Basic
namespace ValidaProofs
open Valida ValidaGen
open PyVal (pyEq numKey scale hashable truthy instOf)

/-! ### glue -/

section glue
variable {S : Exc → Prop} {α β : Type}

theorem RaisesOnly.ok (v : α) : RaisesOnly S (Except.ok v : Except Exc α) := by
  intro e h; cases h

theorem RaisesOnly.pure (v : α) : RaisesOnly S (Pure.pure v : Except Exc α) := by
  intro e h; cases h

theorem RaisesOnly.error {e : Exc} (h : S e) : RaisesOnly S (Except.error e : Except Exc α) := by
  intro e' h'; cases h'; exact h

theorem RaisesOnly.throw {e : Exc} (h : S e) : RaisesOnly S (throw e : Except Exc α) :=
  RaisesOnly.error h

theorem RaisesOnly.bind {r : Except Exc α} {f : α → Except Exc β}
    (hr : RaisesOnly S r) (hf : ∀ a, RaisesOnly S (f a)) : RaisesOnly S (r >>= f) := by
  intro e h
  cases r with
  | error e' => cases h; exact hr _ rfl
  | ok a => exact hf a e h

theorem RaisesOnly.mono {S' : Exc → Prop} {r : Except Exc α} (h : RaisesOnly S r)
    (hs : ∀ e, S e → S' e) : RaisesOnly S' r := fun e he => hs e (h e he)

theorem ReturnsBool.error (e : Exc) : ReturnsBool (Except.error e) := by
  intro v h; cases h

theorem ReturnsBool.okb (v : Bool) : ReturnsBool (Except.ok (Py.b v)) := by
  intro v' h; cases h; exact ⟨v, rfl⟩

theorem ReturnsBool.okbool (v : Bool) : ReturnsBool (Except.ok (PyVal.bool v)) := by
  intro v' h; cases h; exact ⟨v, rfl⟩

theorem ReturnsBool.pureb (v : Bool) : ReturnsBool (Pure.pure (Py.b v)) := ReturnsBool.okb v

theorem ReturnsBool.bind {r : Except Exc α} {f : α → R} (hf : ∀ a, ReturnsBool (f a)) :
    ReturnsBool (r >>= f) := by
  intro v h
  cases r with
  | error e' => cases h
  | ok a => exact hf a v h

end glue

/-- a callable outcome is *safe*: raises only caught exceptions (or `unmodelled`), returns a bool -/
def Safe (r : R) : Prop := RaisesOnly Caught r ∧ ReturnsBool r

theorem Safe.bind {α : Type} {r : Except Exc α} {f : α → R}
    (hr : RaisesOnly Caught r) (hf : ∀ a, Safe (f a)) : Safe (r >>= f) :=
  ⟨RaisesOnly.bind hr (fun a => (hf a).1), ReturnsBool.bind (fun a => (hf a).2)⟩

theorem Safe.okb (v : Bool) : Safe (Except.ok (Py.b v)) := ⟨RaisesOnly.ok _, ReturnsBool.okb v⟩
theorem Safe.error {e : Exc} (h : Caught e) : Safe (Except.error e) :=
  ⟨RaisesOnly.error h, ReturnsBool.error e⟩

/-- closes `RaisesOnly Caught r` / `Safe r` / `ReturnsBool r` goals for a concrete outcome `r` -/
macro "leaf_safe" : tactic =>
  `(tactic| first
    | exact RaisesOnly.ok _
    | exact RaisesOnly.pure _
    | exact RaisesOnly.error (by decide)
    | exact RaisesOnly.throw (by decide)
    | exact Safe.okb _
    | exact Safe.error (by decide)
    | exact ReturnsBool.okb _
    | exact ReturnsBool.okbool _
    | exact ReturnsBool.pureb _
    | exact ReturnsBool.error _)

/-! ### numbers -/

theorem toFloatUnits_raises (x : PyVal) : RaisesOnly Caught (Py.toFloatUnits x) := by
  cases x <;> simp only [Py.toFloatUnits] <;> (try split) <;> leaf_safe

theorem sub_raises (x y : PyVal) : RaisesOnly Caught (Py.sub x y) := by
  unfold Py.sub
  split
  · leaf_safe
  · split
    · exact RaisesOnly.bind (toFloatUnits_raises _) fun _ =>
        RaisesOnly.bind (toFloatUnits_raises _) fun _ => RaisesOnly.pure _
    · leaf_safe

theorem abs_raises (x : PyVal) : RaisesOnly Caught (Py.abs x) := by
  unfold Py.abs
  split <;> leaf_safe

theorem mod_raises (x y : PyVal) : RaisesOnly Caught (Py.mod x y) := by
  unfold Py.mod
  split
  · split
    · leaf_safe
    · split <;> leaf_safe
  · split
    · split <;> leaf_safe
    · split
      · refine RaisesOnly.bind (toFloatUnits_raises _) fun _ =>
          RaisesOnly.bind (toFloatUnits_raises _) fun _ => ?_
        split <;> leaf_safe
      · leaf_safe

/-! ### comparisons -/

theorem eq_safe (x y : PyVal) : Safe (Py.eq x y) := Safe.okb _
theorem ne_safe (x y : PyVal) : Safe (Py.ne x y) := Safe.okb _

mutual
theorem cmp_raises (op : Py.CmpOp) (x y : PyVal) : RaisesOnly Caught (Py.cmp op x y) := by
  cases x <;> cases y <;> simp only [Py.cmp] <;> (try split) <;>
    first
    | leaf_safe
    | exact cmpL_raises op _ _
termination_by structural x
theorem cmpL_raises (op : Py.CmpOp) (xs ys : List PyVal) : RaisesOnly Caught (Py.cmpL op xs ys) := by
  cases xs with
  | nil => cases ys <;> simp only [Py.cmpL] <;> leaf_safe
  | cons x xs =>
    cases ys with
    | nil => simp only [Py.cmpL]; leaf_safe
    | cons y ys =>
      simp only [Py.cmpL]
      split
      · exact cmpL_raises op xs ys
      · exact cmp_raises op x y
termination_by structural xs
end

theorem cmpb_safe (op : Py.CmpOp) (x y : PyVal) :
    Safe (do let r ← Py.cmp op x y; Pure.pure (Py.b r) : R) :=
  Safe.bind (cmp_raises op x y) fun _ => Safe.okb _

theorem lt_safe (x y : PyVal) : Safe (Py.lt x y) := cmpb_safe .lt x y
theorem le_safe (x y : PyVal) : Safe (Py.le x y) := cmpb_safe .le x y
theorem gt_safe (x y : PyVal) : Safe (Py.gt x y) := cmpb_safe .gt x y
theorem ge_safe (x y : PyVal) : Safe (Py.ge x y) := cmpb_safe .ge x y

/-! ### containers -/

theorem contains_safe (x c : PyVal) : Safe (Py.contains x c) := by
  unfold Py.contains
  split <;> (try split) <;> leaf_safe

theorem notContains_safe (x c : PyVal) : Safe (Py.notContains x c) := by
  unfold Py.notContains
  refine Safe.bind (contains_safe x c).1 fun a => ?_
  split <;> leaf_safe

theorem inRange_safe (x l u : PyVal) : Safe (Py.inRange x l u) := by
  unfold Py.inRange
  split <;> (try split) <;> (try split) <;> leaf_safe

theorem notInRange_safe (x l u : PyVal) : Safe (Py.notInRange x l u) := by
  unfold Py.notInRange
  refine Safe.bind (inRange_safe x l u).1 fun a => ?_
  split <;> leaf_safe

theorem len_raises (x : PyVal) : RaisesOnly Caught (Py.len x) := by
  unfold Py.len
  split <;> leaf_safe

theorem not_safe (x : PyVal) : Safe (Py.not x) := Safe.okb _

mutual
theorem isinstC_raises (x c : PyVal) : RaisesOnly Caught (Py.isinstC x c) := by
  cases c <;> simp only [Py.isinstC] <;>
    first
    | leaf_safe
    | exact isinstL_raises x _
termination_by structural c
theorem isinstL_raises (x : PyVal) (cs : List PyVal) : RaisesOnly Caught (Py.isinstL x cs) := by
  cases cs with
  | nil => simp only [Py.isinstL]; leaf_safe
  | cons c rest =>
    simp only [Py.isinstL]
    refine RaisesOnly.bind (isinstC_raises x c) fun a => ?_
    split
    · leaf_safe
    · exact isinstL_raises x rest
termination_by structural cs
end

theorem isinstance_safe (x c : PyVal) : Safe (Py.isinstance x c) :=
  Safe.bind (isinstC_raises x c) fun _ => Safe.okb _

theorem keys_raises (d : PyVal) : RaisesOnly Caught (Py.keys d) := by
  unfold Py.keys
  split <;> leaf_safe

theorem iter_raises (x : PyVal) : RaisesOnly Caught (Py.iter x) := by
  unfold Py.iter
  split <;> leaf_safe

theorem getItem_raises (c k : PyVal) : RaisesOnly Caught (Py.getItem c k) := by
  unfold Py.getItem
  dsimp only
  repeat' split
  all_goals leaf_safe

theorem set_raises (x : PyVal) : RaisesOnly Caught (Py.set x) := by
  unfold Py.set
  refine RaisesOnly.bind (iter_raises x) fun _ => ?_
  split <;> leaf_safe

theorem setDiff_raises (x y : PyVal) : RaisesOnly Caught (Py.setDiff x y) := RaisesOnly.ok _
theorem setInter_raises (x y : PyVal) : RaisesOnly Caught (Py.setInter x y) := RaisesOnly.ok _
theorem setEq_safe (x y : PyVal) : Safe (Py.setEq x y) := Safe.okb _

/-! ### generator-expression consumers -/

theorem anyM_safe (xs : List PyVal) (f : PyVal → R) (hf : ∀ a, RaisesOnly Caught (f a)) :
    Safe (Py.anyM xs f) := by
  induction xs with
  | nil => unfold Py.anyM; leaf_safe
  | cons x rest ih =>
    unfold Py.anyM
    refine Safe.bind (hf x) fun a => ?_
    split
    · leaf_safe
    · exact ih

theorem allM_safe (xs : List PyVal) (f : PyVal → R) (hf : ∀ a, RaisesOnly Caught (f a)) :
    Safe (Py.allM xs f) := by
  induction xs with
  | nil => unfold Py.allM; leaf_safe
  | cons x rest ih =>
    unfold Py.allM
    refine Safe.bind (hf x) fun a => ?_
    split
    · exact ih
    · leaf_safe

theorem sumM_raises (xs : List PyVal) (f : PyVal → R) (hf : ∀ a, RaisesOnly Caught (f a)) :
    RaisesOnly Caught (Py.sumM xs f) := by
  induction xs with
  | nil => unfold Py.sumM; leaf_safe
  | cons x rest ih =>
    unfold Py.sumM
    refine RaisesOnly.bind (hf x) fun a => RaisesOnly.bind ih fun s => ?_
    split <;> leaf_safe

theorem allItemsM_safe (items : List (String × PyVal)) (caught : Exc → Bool)
    (body : String → PyVal → R) (hb : ∀ k v, RaisesOnly Caught (body k v)) :
    Safe (Py.allItemsM items caught body) := by
  induction items with
  | nil => unfold Py.allItemsM; leaf_safe
  | cons kv rest ih =>
    obtain ⟨k, v⟩ := kv
    unfold Py.allItemsM
    split
    · split
      · leaf_safe
      · exact ih
    · rename_i e he
      split
      · leaf_safe
      · exact Safe.error (hb k v e he)

/-! ### argument binding -/

theorem bindParams_raises (ps : List String) (vs : List PyVal) (kw : List (String × PyVal)) :
    RaisesOnly Caught (bindParams ps vs kw) := by
  induction ps generalizing vs with
  | nil => unfold bindParams; leaf_safe
  | cons p ps ih =>
    cases vs with
    | nil =>
      unfold bindParams
      split
      · exact RaisesOnly.bind (ih _) fun _ => RaisesOnly.pure _
      · leaf_safe
    | cons v vs =>
      unfold bindParams
      split
      · leaf_safe
      · exact RaisesOnly.bind (ih _) fun _ => RaisesOnly.pure _

theorem bindArgs_raises (sig : Sig) (pos : List PyVal) (kw : List (String × PyVal)) :
    RaisesOnly Caught (bindArgs sig pos kw) := by
  unfold bindArgs
  intro e h
  simp only [bind, Except.bind, pure, Except.pure, throw, throwThe, MonadExceptOf.throw] at h
  repeat' split at h
  all_goals first
    | (cases h; first | decide | exact bindParams_raises _ _ _ _ (by assumption))
    | cases h

end ValidaProofs
