/-
  ValidaProofs.Lemmas.C10SpecPart — helper lemmas for the C10 headline: `ContainerValue.from_spec` on a
  mapping with a `type`, at most one entry per datum (long form or shorthand) and a label, in any
  order, computed stage by stage; the API constructors on the same conditions.
-/
import Valida.Spec.Parse
import Valida.Eq
import ValidaProofs.Lemmas.C10Parse
import ValidaProofs.Lemmas.C10SpecPop
import ValidaProofs.Lemmas.C10SpecEnt
namespace ValidaProofs.C10S
open Valida ValidaGen

theorem lk1 : lookupStr "map_value" clsLookup = some "MapValue" := by decide
theorem lk2 : lookupStr "list_value" clsLookup = some "ListValue" := by decide
theorem lk3 : lookupStr "map_or_list_value" clsLookup = some "MapOrListValue" := by decide

/-- the `type` entry of a part of the kind (none: a map-or-list part) -/
def TyOk (ty : Option PyVal) (kind : PartKind) : Prop :=
  (ty = some (.str "map_value") ∧ kind = .map) ∨ (ty = some (.str "list_value") ∧ kind = .list) ∨
  (ty = some (.str "map_or_list_value") ∧ kind = .molv) ∨ (ty = none ∧ kind = .molv)

/-- the stages before `finish`, given what each lookup returns -/
theorem front_eval (pc : PyVal → Except Exc (Cond Arg)) (s s1 s5 s6 : List KV) (V : Option Ent)
    (hV : OptOk .value pc V) (ty : Option PyVal) (kind : PartKind) (hty : TyOk ty kind)
    (e1 : popStr "type" s = (ty, s1))
    (e2 : popStr "condition" s1 = (none, s1))
    (e3 : popStr "list_condition" s1 = (none, s1))
    (e4 : popStr "map_condition" s1 = (none, s1))
    (e5 : popStr "value" s1 = (longVal .value V, s5))
    (e6 : C10L.shortOf "value." s5 = (shortKvs .value V, s6)) :
    C10L.partBody pc s = (addC Cond.null V).bind (fun c => C10L.finish pc kind c Cond.null Cond.null s6) := by
  unfold C10L.partBody
  rcases hty with ⟨rfl, rfl⟩ | ⟨rfl, rfl⟩ | ⟨rfl, rfl⟩ | ⟨rfl, rfl⟩ <;>
  (simp only [e1, e2, e3, e4, e5, e6, C10L.parseOpt, lk1, lk2, lk3, PyVal.hashable, pure_bind, Bool.not_true,
      Bool.false_eq_true, if_false]
   cases V with
   | none => rfl
   | some e =>
     by_cases hn : e.name = Dat.value.name
     · obtain ⟨_, harg, hc, hlike⟩ := long_of_name .value pc e (hV e rfl) hn
       have hlike' : (litCond e.c).isLike "value" = true := hlike
       simp only [longVal, shortKvs, hn, if_true, addC]
       cases ha : e.arg <;> first
         | exact absurd ha harg
         | (rw [ha] at hc
            simp only [hc, hlike', bind, Except.bind, Bool.not_true, Bool.false_eq_true, if_false, C10L.foldShort,
              List.foldlM_nil, pure, Except.pure])
     · obtain ⟨_, hc, _⟩ := short_of_not_name .value pc e (hV e rfl) hn
       simp only [longVal, shortKvs, hn, if_false, addC, C10L.foldShort, List.foldlM_cons, List.foldlM_nil, hc,
         bind, Except.bind, pure, Except.pure]
       cases Cond.mkBin BinOp.and Cond.null (litCond e.c) <;> rfl)

/-- the entries that follow the value entry: none of them is seen by the stages before `finish` -/
structure RestOk (rest : List KV) : Prop where
  ty : Foreign (keyIs "type") rest
  cond : Foreign (keyIs "condition") rest
  lcond : Foreign (keyIs "list_condition") rest
  mcond : Foreign (keyIs "map_condition") rest
  value : Foreign (keyIs "value") rest
  valueDot : Foreign (C10L.hasPref "value.") rest

/-- up to `finish`: the type, no `condition` / `list_condition` / `map_condition`, the value entry -/
theorem partBody_front (pc : PyVal → Except Exc (Cond Arg)) (s rest : List KV) (ty : Option PyVal)
    (kind : PartKind) (V : Option Ent) (hV : OptOk .value pc V) (hty : TyOk ty kind)
    (hs : s.Perm (optKv "type" ty ++ (kvs V ++ rest))) (hr : RestOk rest) :
    ∃ s6, s6.Perm rest ∧
      C10L.partBody pc s = (addC Cond.null V).bind (fun c => C10L.finish pc kind c Cond.null Cond.null s6) := by
  obtain ⟨s1, e1, p1⟩ := pop_opt "type" ty s _ hs
    ((foreign_append _ _ _).2 ⟨foreign_kvs_name .value pc V hV "type" (by decide) (by decide), hr.ty⟩)
  have e2 := pop_miss "condition" s1 _ p1
    ((foreign_append _ _ _).2 ⟨foreign_kvs_name .value pc V hV "condition" (by decide) (by decide), hr.cond⟩)
  have e3 := pop_miss "list_condition" s1 _ p1
    ((foreign_append _ _ _).2 ⟨foreign_kvs_name .value pc V hV "list_condition" (by decide) (by decide), hr.lcond⟩)
  have e4 := pop_miss "map_condition" s1 _ p1
    ((foreign_append _ _ _).2 ⟨foreign_kvs_name .value pc V hV "map_condition" (by decide) (by decide), hr.mcond⟩)
  have p1' : s1.Perm (optKv "value" (longVal .value V) ++ (shortKvs .value V ++ rest)) := by
    rw [kvs_split .value V, List.append_assoc] at p1; exact p1
  obtain ⟨s5, e5, p5⟩ := pop_opt "value" _ s1 _ p1'
    ((foreign_append _ _ _).2 ⟨foreign_shortKvs_name .value pc V hV "value" (by decide), hr.value⟩)
  obtain ⟨s6, e6, p6⟩ := short_perm "value." _ s5 rest p5 (shortKvs_length _ _)
    (shortKvs_hasPref .value pc V hV) hr.valueDot
  exact ⟨s6, p6, front_eval pc s s1 s5 s6 V hV ty kind hty e1 e2 e3 e4 e5 e6⟩

/-! ### `finish` for the three kinds -/

theorem label_last (L : Option PyVal) (s8 : List KV) (h : s8.Perm (optKv "label" L)) :
    popStr "label" s8 = (L, []) := by
  obtain ⟨s9, e9, p9⟩ := pop_opt "label" L s8 [] (by simpa using h) (foreign_nil _)
  rw [e9, List.perm_nil.1 p9]

/-- key entry (map) / index entry (list): shorthand scan, then the long form, then the label -/
theorem finish_one (d : Dat) (pc : PyVal → Except Exc (Cond Arg)) (s6 : List KV)
    (D : Option Ent) (L : Option PyVal) (hD : OptOk d pc D) (hd : d ≠ .value)
    (h : s6.Perm (kvs D ++ optKv "label" L)) :
    ∃ s8, C10L.shortOf d.dot s6 = (shortKvs d D, (C10L.shortOf d.dot s6).2) ∧
      popStr d.name (C10L.shortOf d.dot s6).2 = (longVal d D, s8) ∧ popStr "label" s8 = (L, []) := by
  have hlab : Foreign (C10L.hasPref d.dot) (optKv "label" L) :=
    foreign_optKv_pref "label" L d.dot (by cases d <;> decide)
  have h' : s6.Perm (shortKvs d D ++ (optKv d.name (longVal d D) ++ optKv "label" L)) := by
    rw [kvs_split d D] at h
    refine h.trans ?_
    rw [← List.append_assoc]
    exact (List.perm_append_comm).append_right _
  obtain ⟨s7, e7, p7⟩ := short_perm d.dot _ s6 _ h' (shortKvs_length _ _) (shortKvs_hasPref d pc D hD)
    ((foreign_append _ _ _).2 ⟨foreign_longKvs_pref d d D, hlab⟩)
  obtain ⟨s8, e8, p8⟩ := pop_opt d.name _ s7 _ p7
    (foreign_optKv_name "label" L d.name (by cases d <;> decide))
  refine ⟨s8, ?_, ?_, label_last L s8 p8⟩
  · rw [e7]
  · rw [e7]; exact e8

theorem finish_map (pc : PyVal → Except Exc (Cond Arg)) (c lc mc : Cond PyVal) (s6 : List KV)
    (K : Option Ent) (L : Option PyVal) (hK : OptOk .key pc K) (h : s6.Perm (kvs K ++ optKv "label" L)) :
    C10L.finish pc .map c lc mc s6 =
      (addC c K).bind (fun c => Part.mkMap .none .none (some c) (normLabel L)) := by
  obtain ⟨s8, e7, e8, e9⟩ := finish_one .key pc s6 K L hK (by decide) h
  have e7' : C10L.shortOf "key." s6 = (shortKvs .key K, (C10L.shortOf "key." s6).2) := e7
  have e8' : popStr "key" (C10L.shortOf "key." s6).2 = (longVal .key K, s8) := e8
  have hl : ∀ acc, C10L.longForm pc "key" "key" (C10L.shortOf "key." s6).2 acc =
      (addC acc (longPart .key K)).map (fun c => (c, s8)) := fun acc => longForm_sem .key pc acc K hK _ s8 e8'
  unfold C10L.finish
  rw [e7']
  simp only [foldShort_sem .key pc _ K hK, hl]
  rcases parts_cases .key K with ⟨h1, h2⟩ | ⟨h1, h2⟩
  · simp only [h1, h2, addC_none, bind, Except.bind, pure, Except.pure, Except.map]
    cases addC c K <;> simp [normLabel, e9]
  · simp only [h1, h2, addC_none, bind, Except.bind, pure, Except.pure, Except.map]
    cases addC c K <;> simp [normLabel, e9]

theorem finish_list (pc : PyVal → Except Exc (Cond Arg)) (c lc mc : Cond PyVal) (s6 : List KV)
    (I : Option Ent) (L : Option PyVal) (hI : OptOk .index pc I) (h : s6.Perm (kvs I ++ optKv "label" L)) :
    C10L.finish pc .list c lc mc s6 =
      (addC c I).bind (fun c => Part.mkList .none .none (some c) (normLabel L)) := by
  obtain ⟨s8, e7, e8, e9⟩ := finish_one .index pc s6 I L hI (by decide) h
  have e7' : C10L.shortOf "index." s6 = (shortKvs .index I, (C10L.shortOf "index." s6).2) := e7
  have e8' : popStr "index" (C10L.shortOf "index." s6).2 = (longVal .index I, s8) := e8
  have hl : ∀ acc, C10L.longForm pc "index" "index" (C10L.shortOf "index." s6).2 acc =
      (addC acc (longPart .index I)).map (fun c => (c, s8)) := fun acc => longForm_sem .index pc acc I hI _ s8 e8'
  unfold C10L.finish
  rw [e7']
  simp only [foldShort_sem .index pc _ I hI, hl]
  rcases parts_cases .index I with ⟨h1, h2⟩ | ⟨h1, h2⟩
  · simp only [h1, h2, addC_none, bind, Except.bind, pure, Except.pure, Except.map]
    cases addC c I <;> simp [normLabel, e9]
  · simp only [h1, h2, addC_none, bind, Except.bind, pure, Except.pure, Except.map]
    cases addC c I <;> simp [normLabel, e9]

theorem perm_mid {α : Type} (a b c : List α) : (a ++ (b ++ c)).Perm (b ++ (a ++ c)) := by
  rw [← List.append_assoc, ← List.append_assoc]
  exact (List.perm_append_comm).append_right c

/-- the condition of an optional entry (null if absent) -/
def condOf : Option Ent → Cond PyVal
  | none => Cond.null
  | some e => litCond e.c

theorem ent_isLike (d : Dat) (pc : PyVal → Except Exc (Cond Arg)) (e : Ent) (h : e.Long d pc ∨ e.Short d pc) :
    (litCond e.c).isLike d.name = true := by
  rcases h with h | h
  · exact h.2.2.2
  · exact h.2.2

theorem ent_not_null (d : Dat) (pc : PyVal → Except Exc (Cond Arg)) (e : Ent) (h : e.Long d pc ∨ e.Short d pc) :
    (litCond e.c).isNull = false :=
  isNull_of_isLike d.name _ (ent_isLike d pc e h) (by cases d <;> decide)

theorem addC_null (d : Dat) (pc : PyVal → Except Exc (Cond Arg)) (o : Option Ent) (ho : OptOk d pc o) :
    addC Cond.null o = .ok (condOf o) := by
  cases o with
  | none => rfl
  | some e => exact mkBin_null_left _ _ (ent_not_null d pc e (ho e rfl))

/-- map-or-list parts: index and key shorthand scans, then the two long forms, then the label -/
theorem finish_molv (pc : PyVal → Except Exc (Cond Arg)) (c : Cond PyVal) (s6 : List KV)
    (I K : Option Ent) (L : Option PyVal) (hI : OptOk .index pc I) (hK : OptOk .key pc K)
    (h : s6.Perm (kvs I ++ (kvs K ++ optKv "label" L))) :
    C10L.finish pc .molv c Cond.null Cond.null s6 =
      Part.mkMolv .none .none .none (some (condOf I)) (some (condOf K)) (some c) (normLabel L) := by
  -- index shorthand
  have ha : s6.Perm (shortKvs .index I ++ (optKv "index" (longVal .index I) ++ (kvs K ++ optKv "label" L))) := by
    rw [kvs_split .index I, List.append_assoc] at h
    exact h.trans (perm_mid _ _ _)
  obtain ⟨sa, ea, pa⟩ := short_perm "index." _ s6 _ ha (shortKvs_length _ _) (shortKvs_hasPref .index pc I hI)
    ((foreign_append _ _ _).2 ⟨foreign_longKvs_pref .index .index I,
      (foreign_append _ _ _).2 ⟨foreign_kvs_pref .key .index (by decide) pc K hK,
        foreign_optKv_pref "label" L "index." (by decide)⟩⟩)
  -- key shorthand
  have hb : sa.Perm (shortKvs .key K ++
      (optKv "index" (longVal .index I) ++ (optKv "key" (longVal .key K) ++ optKv "label" L))) := by
    rw [kvs_split .key K, List.append_assoc] at pa
    exact pa.trans (((perm_mid _ _ _).append_left _).trans (perm_mid _ _ _))
  obtain ⟨sb, eb, pb⟩ := short_perm "key." _ sa _ hb (shortKvs_length _ _) (shortKvs_hasPref .key pc K hK)
    ((foreign_append _ _ _).2 ⟨foreign_longKvs_pref .index .key I,
      (foreign_append _ _ _).2 ⟨foreign_longKvs_pref .key .key K,
        foreign_optKv_pref "label" L "key." (by decide)⟩⟩)
  -- long forms
  obtain ⟨sc, ec, pcm⟩ := pop_opt "index" _ sb _ pb
    ((foreign_append _ _ _).2 ⟨foreign_longKvs_name .key K "index" (by decide),
      foreign_optKv_name "label" L "index" (by decide)⟩)
  obtain ⟨sd, ed, pd⟩ := pop_opt "key" _ sc _ pcm (foreign_optKv_name "label" L "key" (by decide))
  have el := label_last L sd pd
  have hli : ∀ acc, C10L.longForm pc "index" "index" sb acc =
      (addC acc (longPart .index I)).map (fun c => (c, sc)) := fun acc => longForm_sem .index pc acc I hI _ sc ec
  have hlk : ∀ acc, C10L.longForm pc "key" "key" sc acc =
      (addC acc (longPart .key K)).map (fun c => (c, sd)) := fun acc => longForm_sem .key pc acc K hK _ sd ed
  have nI := addC_null .index pc I hI
  have nK := addC_null .key pc K hK
  unfold C10L.finish
  simp only [ea, eb, foldShort_sem .index pc _ I hI, foldShort_sem .key pc _ K hK]
  rcases parts_cases .index I with ⟨h1, h2⟩ | ⟨h1, h2⟩ <;> rcases parts_cases .key K with ⟨h3, h4⟩ | ⟨h3, h4⟩ <;>
    simp [h2, h4, addC_none, bind, Except.bind, pure, Except.pure, hli, hlk, h1, h3, nI, nK, Except.map, el,
      normLabel]

end ValidaProofs.C10S
