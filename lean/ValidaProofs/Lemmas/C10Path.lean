/-
  ValidaProofs.Lemmas.C10Path — helper lemmas for C10: `mapM` in `Except`, `fromPartSpecs` as a `mapM`
  followed by `Path.mk'`, `fromStr`, `parsePathSpec` on a one-key mapping (suffix tokens), `parseRule`.
-/
import Valida.Spec.Parse
import Valida.Eq
namespace ValidaProofs.C10L
open Valida ValidaGen

/-! ### `mapM` in `Except` -/

theorem mapM_cons_ok {ε α β : Type} (f : α → Except ε β) (x : α) (xs : List α) (bs : List β) :
    (x :: xs).mapM f = .ok bs ↔ ∃ b bs', f x = .ok b ∧ xs.mapM f = .ok bs' ∧ bs = b :: bs' := by
  rw [List.mapM_cons]
  cases hx : f x with
  | error e => simp [bind, Except.bind]
  | ok b =>
    cases hxs : xs.mapM f with
    | error e => simp [bind, Except.bind]
    | ok bs' =>
      simp only [bind, Except.bind, pure, Except.pure, Except.ok.injEq]
      constructor
      · intro h; exact ⟨b, bs', rfl, rfl, h.symm⟩
      · rintro ⟨b', bs'', hb, hbs, rfl⟩; cases hb; cases hbs; rfl

theorem mapM_ok_of {ε α β : Type} (f : α → Except ε β) (g : α → β) :
    ∀ xs : List α, (∀ x ∈ xs, f x = .ok (g x)) → xs.mapM f = .ok (xs.map g) := by
  intro xs
  induction xs with
  | nil => intro _; rfl
  | cons x xs ih =>
    intro h
    exact (mapM_cons_ok f _ _ _).2 ⟨g x, xs.map g, h x (by simp), ih (fun y hy => h y (by simp [hy])), rfl⟩

theorem mapM_ok_mem_fwd {ε α β : Type} (f : α → Except ε β) :
    ∀ (xs : List α) (bs : List β), xs.mapM f = .ok bs → ∀ x ∈ xs, ∃ b ∈ bs, f x = .ok b := by
  intro xs
  induction xs with
  | nil => intro bs _ x hx; simp at hx
  | cons y ys ih =>
    intro bs h x hx
    obtain ⟨b0, bs1, hb0, hbs, rfl⟩ := (mapM_cons_ok f _ _ _).1 h
    rcases List.mem_cons.1 hx with rfl | hx
    · exact ⟨b0, by simp, hb0⟩
    · obtain ⟨b, hb, hfx⟩ := ih bs1 hbs x hx
      exact ⟨b, by simp [hb], hfx⟩

/-! ### `fromPartSpecs` -/

def toArg (fuel : Nat) (p : PyVal) : Except Exc PartArg :=
  match p with
  | .dict kvs => do pure (PartArg.part (← parsePart fuel kvs))
  | v => pure (PartArg.prim v)

def argIsPrim (a : PartArg) : Bool := match a with | .prim _ => true | .part _ => false

theorem fromPartSpecs_eq (fuel : Nat) (specs : List PyVal) :
    fromPartSpecs (fuel + 1) specs = (do let args ← specs.mapM (toArg fuel); Path.mk' args) := by
  rw [fromPartSpecs.eq_2]; rfl

theorem mk'_concrete (args : List PartArg) (p : Path) (h : Path.mk' args = .ok p) :
    p.concrete = args.all argIsPrim := by
  unfold Path.mk' at h
  generalize List.mapM (m := Except Exc) _ args = m at h
  cases m with
  | error e => simp [bind, Except.bind] at h
  | ok parts =>
    simp only [bind, Except.bind, pure, Except.pure, Except.ok.injEq] at h
    subst h; rfl

theorem prim_specs (fuel : Nat) (prims : List PyVal) (h : ∀ v ∈ prims, ∀ kvs, v ≠ .dict kvs) :
    fromPartSpecs (fuel + 1) prims = Path.mk' (prims.map PartArg.prim) := by
  rw [fromPartSpecs_eq, mapM_ok_of (toArg fuel) PartArg.prim prims]
  · rfl
  · intro v hv
    cases v <;> first | rfl | exact absurd rfl (h _ hv _)

theorem mapping_part_non_concrete (fuel : Nat) (pre post : List PyVal) (kvs : List (PyVal × PyVal)) (p : Path)
    (h : fromPartSpecs (fuel + 1) (pre ++ [.dict kvs] ++ post) = .ok p) : p.concrete = false := by
  rw [fromPartSpecs_eq] at h
  cases hm : (pre ++ [PyVal.dict kvs] ++ post).mapM (toArg fuel) with
  | error e => rw [hm] at h; cases h
  | ok args =>
    rw [hm] at h
    replace h : Path.mk' args = .ok p := h
    rw [mk'_concrete args p h]
    obtain ⟨a, ha, hta⟩ := mapM_ok_mem_fwd _ _ _ hm (.dict kvs) (by simp)
    have : argIsPrim a = false := by
      simp only [toArg] at hta
      cases hp : parsePart fuel kvs with
      | error e => simp [hp, bind, Except.bind] at hta
      | ok q => simp [hp, bind, Except.bind, pure, Except.pure] at hta; subst hta; rfl
    rw [List.all_eq_false]
    exact ⟨a, ha, by simp [this]⟩


/-! ### `fromStr` -/

theorem from_str_plain (toks : List String) (delim : Char)
    (h : ∀ t ∈ toks, fromStrToken t = .ok (.prim (.str t)))
    (hs : (splitOnChar delim [] (String.intercalate (String.singleton delim) toks).toList).map String.ofList = toks)
    (hne' : String.intercalate (String.singleton delim) toks ≠ "") :
    fromStr (String.intercalate (String.singleton delim) toks) delim =
      Path.mk' (toks.map (fun t => PartArg.prim (.str t))) := by
  have he : (String.intercalate (String.singleton delim) toks).isEmpty = false := by simp [hne']
  unfold fromStr
  simp only [he, Bool.false_eq_true, if_false, hs]
  rw [mapM_ok_of fromStrToken (fun t => PartArg.prim (.str t)) toks h]
  rfl


/-! ### `parsePathSpec` on a one-key mapping -/

/-- `try: getattr(obj, name)() except AttributeError: raise MalformedDataPathSpec` -/
def reraise (r : Except Exc Path) : Except Exc Path :=
  match r with
  | .ok q => pure q
  | .error .attributeError => throw .malformedPath
  | .error e => throw e

/-- one suffix token of a path-spec key -/
def suffixStep (acc : Path) (tok : String) : Except Exc Path := do
  let name := (lookupStr tok datumMultiLookup).getD tok
  if pathSuffixWhitelist then
    if name == "none" || (modifierOf name).isNone then throw .malformedPath
  reraise (applyModifier acc name)

/-- `DataPath.from_spec` on a one-key mapping whose key has no escape code -/
def pathSpecBody (fuel : Nat) (keyS : String) (val0 : PyVal) : Except Exc Sniffed := do
  let toks ← (splitDot keyS).mapM pyLower
  if toks.head? != some "path" || !(toks.length ≥ 1 && toks.length < 4) then throw .malformedPath
  let parts ← Py.iter val0
  let p ← fromPartSpecs fuel parts
  let p ← toks.tail.foldlM suffixStep p
  pure (.path p)

theorem parsePathSpec_body (fuel : Nat) (keyS : String) (val0 : PyVal)
    (hesc : containsSub "\\path" keyS = false) :
    parsePathSpec (fuel + 1) (.dict [(.str keyS, val0)]) = pathSpecBody fuel keyS val0 := by
  have he : escScan [(PyVal.str keyS, val0)] = .ok false := by simp [escScan, hesc]
  rw [parsePathSpec.eq_3, he]
  rfl

theorem parsePathSpec_one (fuel : Nat) (keyS : String) (parts : PyVal) (toks : List String) (items : List PyVal)
    (p : Path)
    (hesc : containsSub "\\path" keyS = false)
    (htoks : (splitDot keyS).mapM pyLower = .ok toks)
    (hhead : (toks.head? != some "path" || !(decide (toks.length ≥ 1) && decide (toks.length < 4))) = false)
    (hi : Py.iter parts = .ok items) (hp : fromPartSpecs fuel items = .ok p) :
    parsePathSpec (fuel + 1) (.dict [(.str keyS, parts)]) = (toks.tail.foldlM suffixStep p).map Sniffed.path := by
  rw [parsePathSpec_body fuel keyS parts hesc]
  simp only [pathSpecBody, bind, Except.bind, htoks, hi, hp, hhead, Bool.false_eq_true, if_false, pure, Except.pure]
  cases List.foldlM suffixStep p toks.tail <;> rfl


theorem reraise_withDatum (p : Path) (m : DatumMod) : reraise (p.withDatum m) = p.withDatum m := by
  unfold Path.withDatum; split <;> rfl

theorem reraise_withMulti (p : Path) (m : MultiMod) : reraise (p.withMulti m) = p.withMulti m := by
  unfold Path.withMulti; split
  · rfl
  · split <;> rfl

theorem suffix_tokens (p : Path) :
    suffixStep p "length" = p.withDatum .length ∧ suffixStep p "len" = p.withDatum .length ∧
    suffixStep p "type" = p.withDatum .dtype ∧ suffixStep p "first" = p.withMulti .first ∧
    suffixStep p "map_keys" = p.withDatum .mapKeys ∧ suffixStep p "single" = p.withMulti .single :=
  ⟨(rfl : suffixStep p "length" = reraise _).trans (reraise_withDatum _ _),
   (rfl : suffixStep p "len" = reraise _).trans (reraise_withDatum _ _),
   (rfl : suffixStep p "type" = reraise _).trans (reraise_withDatum _ _),
   (rfl : suffixStep p "first" = reraise _).trans (reraise_withMulti _ _),
   (rfl : suffixStep p "map_keys" = reraise _).trans (reraise_withDatum _ _),
   (rfl : suffixStep p "single" = reraise _).trans (reraise_withMulti _ _)⟩

theorem bind_pure_map (r : Except Exc Path) : (r >>= fun q => (pure q : Except Exc Path)) = r := by
  cases r <;> rfl

theorem suffixes (fuel : Nat) (parts : PyVal) (p : Path) (items : List PyVal)
    (hi : Py.iter parts = .ok items) (hp : fromPartSpecs (fuel + 1) items = .ok p) :
    parsePathSpec (fuel + 2) (.dict [(.str "path", parts)]) = .ok (.path p) ∧
    parsePathSpec (fuel + 2) (.dict [(.str "PATH.Length", parts)]) = (p.withDatum .length).map Sniffed.path ∧
    parsePathSpec (fuel + 2) (.dict [(.str "path.len", parts)]) = (p.withDatum .length).map Sniffed.path ∧
    parsePathSpec (fuel + 2) (.dict [(.str "path.type", parts)]) = (p.withDatum .dtype).map Sniffed.path ∧
    parsePathSpec (fuel + 2) (.dict [(.str "path.first", parts)]) = (p.withMulti .first).map Sniffed.path ∧
    parsePathSpec (fuel + 2) (.dict [(.str "path.map_keys.single", parts)]) =
      ((p.withDatum .mapKeys).bind (fun q => q.withMulti .single)).map Sniffed.path ∧
    parsePathSpec (fuel + 2) (.dict [(.str "path.single.map_keys", parts)]) =
      ((p.withMulti .single).bind (fun q => q.withDatum .mapKeys)).map Sniffed.path := by
  have st := fun q => suffix_tokens q
  refine ⟨?_, ?_, ?_, ?_, ?_, ?_, ?_⟩
  · rw [parsePathSpec_one (fuel + 1) "path" parts ["path"] items p rfl rfl rfl hi hp]; rfl
  · rw [parsePathSpec_one (fuel + 1) "PATH.Length" parts ["path", "length"] items p rfl rfl rfl hi hp]
    simp only [List.tail_cons, List.foldlM_cons, List.foldlM_nil, (st _).1, bind_pure_map]
  · rw [parsePathSpec_one (fuel + 1) "path.len" parts ["path", "len"] items p rfl rfl rfl hi hp]
    simp only [List.tail_cons, List.foldlM_cons, List.foldlM_nil, (st _).2.1, bind_pure_map]
  · rw [parsePathSpec_one (fuel + 1) "path.type" parts ["path", "type"] items p rfl rfl rfl hi hp]
    simp only [List.tail_cons, List.foldlM_cons, List.foldlM_nil, (st _).2.2.1, bind_pure_map]
  · rw [parsePathSpec_one (fuel + 1) "path.first" parts ["path", "first"] items p rfl rfl rfl hi hp]
    simp only [List.tail_cons, List.foldlM_cons, List.foldlM_nil, (st _).2.2.2.1, bind_pure_map]
  · rw [parsePathSpec_one (fuel + 1) "path.map_keys.single" parts ["path", "map_keys", "single"] items p rfl rfl rfl hi hp]
    simp only [List.tail_cons, List.foldlM_cons, List.foldlM_nil, (st _).2.2.2.2.1, (st _).2.2.2.2.2, bind_pure_map]
    rfl
  · rw [parsePathSpec_one (fuel + 1) "path.single.map_keys" parts ["path", "single", "map_keys"] items p rfl rfl rfl hi hp]
    simp only [List.tail_cons, List.foldlM_cons, List.foldlM_nil, (st _).2.2.2.2.1, (st _).2.2.2.2.2, bind_pure_map]
    rfl


/-! ### rule specs -/

theorem parseRule_of (fuel : Nat) (kvs : List (PyVal × PyVal)) (pathSpec condSpec : PyVal) (items : List PyVal)
    (p : Path) (c : Cond Arg) (doc : Option PyVal) (casts : List (PyType × String))
    (h1 : Py.dictGet (.str "path") kvs = some pathSpec) (h2 : Py.dictGet (.str "condition") kvs = some condSpec)
    (hi : Py.iter pathSpec = .ok items) (hp : fromPartSpecs fuel items = .ok p) (hc : parseCond fuel condSpec = .ok c)
    (hd : normDoc (Py.dictGet (.str "doc") kvs) = .ok doc)
    (hcast : parseCasts (Py.dictGet (.str "cast") kvs) = .ok casts) :
    parseRule fuel (.dict kvs) = .ok { rule := { path := p, cond := c, cast := casts }, doc := doc } := by
  simp only [parseRule, h1, h2, hi, hp, hc, hd, hcast, bind, Except.bind, pure, Except.pure]

theorem rule_fields (fuel : Nat) (pathSpec condSpec : PyVal) (items : List PyVal) (p : Path) (c : Cond Arg)
    (hi : Py.iter pathSpec = .ok items) (hp : fromPartSpecs fuel items = .ok p) (hc : parseCond fuel condSpec = .ok c) :
    (∃ r, parseRule fuel (.dict [(.str "path", pathSpec), (.str "condition", condSpec)]) = .ok r ∧
        r.rule.path = p ∧ r.rule.cond = c ∧ r.rule.cast = [] ∧ r.doc = none) ∧
    (∃ r, parseRule fuel (.dict [(.str "condition", condSpec), (.str "cast", .dict [(.str "str", .str "int")]), (.str "path", pathSpec)]) = .ok r ∧
        r.rule.path = p ∧ r.rule.cond = c ∧ r.rule.cast = [(PyType.str, "int")]) ∧
    (∃ r, parseRule fuel (.dict [(.str "path", pathSpec), (.str "condition", condSpec), (.str "cast", .dict [(.str "str", .str "bool")])]) = .ok r ∧
        r.rule.cast = [(PyType.str, "cast_string_to_bool")]) :=
  ⟨⟨_, parseRule_of fuel _ pathSpec condSpec items p c none [] rfl rfl hi hp hc rfl rfl, rfl, rfl, rfl, rfl⟩,
   ⟨_, parseRule_of fuel _ pathSpec condSpec items p c none [(PyType.str, "int")] rfl rfl hi hp hc rfl rfl, rfl, rfl, rfl⟩,
   ⟨_, parseRule_of fuel _ pathSpec condSpec items p c none [(PyType.str, "cast_string_to_bool")] rfl rfl hi hp hc rfl rfl, rfl⟩⟩

end ValidaProofs.C10L
