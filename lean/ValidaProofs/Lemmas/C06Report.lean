/-
  ValidaProofs.Lemmas.C06Report — helper lemmas for the report part of C06: occurrences in strings,
  the shape of a filter's outcome, what a returned rule test records, the report's building blocks.
-/
import Valida.Report
import ValidaProofs.Lemmas.Basic
import ValidaProofs.Lemmas.C02Tree
import ValidaProofs.Lemmas.C05Rule
namespace ValidaProofs.C06R
open Valida ValidaGen Valida.Report ValidaGen.ReportFmt
open ValidaProofs.C05L

/-! ### occurrences -/

/-- `piece` occurs in `s` (the `Mentions` of C06Report) -/
def Occurs (s piece : String) : Prop := ∃ pre post : String, s = pre ++ piece ++ post

theorem Occurs.refl (s : String) : Occurs s s := ⟨"", "", by simp⟩

theorem Occurs.trans {a b c : String} : Occurs a b → Occurs b c → Occurs a c
  | ⟨p1, q1, h1⟩, ⟨p2, q2, h2⟩ => ⟨p1 ++ p2, q2 ++ q1, by subst h1 h2; simp [String.append_assoc]⟩

theorem Occurs.wrap {a p : String} (pre post : String) : Occurs a p → Occurs (pre ++ a ++ post) p
  | ⟨p1, q1, h1⟩ => ⟨pre ++ p1, q1 ++ post, by subst h1; simp [String.append_assoc]⟩

theorem Occurs.after {a p : String} (pre : String) (h : Occurs a p) : Occurs (pre ++ a) p := by
  have := h.wrap pre ""
  simpa using this

theorem Occurs.before {a p : String} (post : String) (h : Occurs a p) : Occurs (a ++ post) p := by
  have := h.wrap "" post
  simpa using this

theorem Occurs.pre (p rest : String) : Occurs (p ++ rest) p := ⟨"", rest, by simp⟩

theorem occurs_join_of_mem {x : String} {xs : List String} (h : x ∈ xs) : Occurs (String.join xs) x := by
  induction xs with
  | nil => cases h
  | cons y ys ih =>
    rw [String.join_cons]
    rcases List.mem_cons.1 h with rfl | h'
    · exact Occurs.pre _ _
    · exact (ih h').after y

/-! ### the shape of a filter's outcome -/

/-- the filtered data has the tree shape of the condition -/
def Shape {α : Type} : Cond α → FD → Prop
  | .leaf _, .leaf _ _ _ => True
  | .bin op a b, .bin op' fa fb => op = op' ∧ Shape a fa ∧ Shape b fb
  | _, _ => False

theorem filterAux_leaf_inv (l : Leaf RArg) (d : DataV) (hp : Bool) (fd : FD) (d' : DataV)
    (ps : Option (List PyVal)) (h : filterAux (.leaf l) d hp = .ok (fd, d', ps)) :
    ∃ flags, fd = .leaf l.cls l.fn flags := by
  simp only [filterAux, bind, Except.bind, pure, Except.pure] at h
  repeat' split at h
  all_goals first | cases h | skip
  all_goals first | exact ⟨_, rfl⟩ | skip

theorem filterAux_shape {α : Type} (f : α → RArg) (c : Cond α) :
    ∀ (d : DataV) (hp : Bool) (fd : FD) (d' : DataV) (ps : Option (List PyVal)),
      filterAux (c.mapArgs f) d hp = .ok (fd, d', ps) → Shape c fd := by
  induction c with
  | leaf l =>
    intro d hp fd d' ps h
    obtain ⟨flags, rfl⟩ := filterAux_leaf_inv _ _ _ _ _ _ h
    trivial
  | bin op a b iha ihb =>
    intro d hp fd d' ps h
    simp only [Cond.mapArgs] at h
    rw [filterAux_bin] at h
    split at h
    · cases h
    · rename_i fa d1 pa ha
      split at h
      · cases h
      · rename_i fb d2 pb hb
        cases h
        exact ⟨rfl, iha _ _ _ _ _ ha, ihb _ _ _ _ _ hb⟩

/-- the guard facts about the generated skip rows (proved in C06Report as `C06_report_skip_rows`) -/
def SkipRows : Prop :=
  skipped BinOp.and.symbol = true ∧ skipped BinOp.or.symbol = true ∧ skipped BinOp.xor.symbol = false

theorem SkipRows.not_skipped (h : SkipRows) (op : BinOp) : (!skipped op.symbol) = (op == .xor) := by
  obtain ⟨h1, h2, h3⟩ := h
  cases op
  · rw [h1]; rfl
  · rw [h2]; rfl
  · rw [h3]; rfl

theorem length_namedReasonsAt {κ : Leaf Arg → String} (hκ : ∀ l, skipped (κ l) = false) (hskip : SkipRows)
    (idx : Nat) (c : Cond Arg) :
    ∀ fd : FD, Shape c fd → (namedReasonsAt κ idx c fd).length = (fd.reasonsAt idx).length := by
  induction c with
  | leaf l =>
    intro fd hs
    cases fd with
    | leaf cls fn flags =>
      simp only [namedReasonsAt, FD.reasonsAt, hκ l, Bool.false_eq_true, if_false]
      cases flags[idx]? <;> simp
    | bin op fa fb => exact absurd hs (by simp [Shape])
  | bin op a b iha ihb =>
    intro fd hs
    cases fd with
    | leaf cls fn flags => exact absurd hs (by simp [Shape])
    | bin op' fa fb =>
      obtain ⟨_, ha, hb⟩ := hs
      simp only [namedReasonsAt, FD.reasonsAt, List.length_append, iha fa ha, ihb fb hb,
        hskip.not_skipped op']
      split <;> simp

/-! ### what a returned rule test records -/

theorem ruleTestOn_spec (r : RuleM) (doc : PyVal) (t : RuleTestR) (h : ruleTestOn r doc = .ok t) :
    t.data = doc ∧ (t.isValid = true → t.failures = []) ∧
    (t.failures = [] ∨ ∃ sub d fd d' ps, selection r.path doc = .ok (some sub) ∧
        DataV.ofPy (.list sub) = .ok d ∧
        filterAux (r.cond.resolve (some doc)) d true = .ok (fd, d', ps) ∧
        ∀ f ∈ t.failures, f.reasons = fd.reasonsAt f.index ∧ fd.result[f.index]? = some false) := by
  unfold ruleTestOn at h
  simp only [bind, Except.bind, pure, Except.pure] at h
  split at h
  · cases h
  split at h
  · cases h
  rename_i sel hsel
  cases sel with
  | none => simp at h; cases h; simp
  | some sub =>
    simp only at h
    split at h
    · cases h
    rename_i d hd
    split at h
    · cases h
    split at h
    · cases h
    rename_i res hf
    obtain ⟨fd, d', paths⟩ := res
    simp only at h
    split at h
    · cases h; simp
    cases paths with
    | none => simp at h
    | some ps =>
    simp only at h
    split at h
    · cases h
    rename_i fails hm
    cases h
    refine ⟨rfl, by simp, Or.inr ⟨sub, d, fd, d', some ps, hsel, hd, hf, ?_⟩⟩
    intro f hfm
    obtain ⟨j, hj⟩ := List.getElem?_of_mem hfm
    obtain ⟨i, hi, hF⟩ := mapM_ok_getElem? _ _ _ hm j f hj
    have hmem : i ∈ failureIndices fd.result := List.mem_of_getElem? hi
    have hres := failureIndices_mem_false _ _ hmem
    split at hF
    · cases hF; exact ⟨rfl, hres⟩
    · cases hF

/-- pointwise relation of two lists of the same length -/
inductive All2 {α β : Type} (R : α → β → Prop) : List α → List β → Prop
  | nil : All2 R [] []
  | cons {a : α} {b : β} {as : List α} {bs : List β} : R a b → All2 R as bs → All2 R (a :: as) (b :: bs)

theorem all2_getElem? {α β : Type} {R : α → β → Prop} {as : List α} {bs : List β} (h : All2 R as bs) :
    ∀ (i : Nat) (b : β), bs[i]? = some b → ∃ a, as[i]? = some a ∧ R a b := by
  induction h with
  | nil => intro i b hb; simp at hb
  | cons hr _ ih =>
    intro i b hb
    cases i with
    | zero => simp at hb; subst hb; exact ⟨_, by simp, hr⟩
    | succ i => simpa using ih i b (by simpa using hb)

/-- the rule test `t` is what judging rule `r` on some document returned -/
def Tested (r : RuleM) (t : RuleTestR) : Prop := ∃ x, ruleTestOn r x = .ok t

theorem Tested.valid_nil {r : RuleM} {t : RuleTestR} (h : Tested r t) (hv : t.isValid = true) :
    t.failures = [] := by
  obtain ⟨x, hx⟩ := h
  exact (ruleTestOn_spec r x t hx).2.1 hv

theorem test_tested (r : RuleM) (doc copy : PyVal) (t : RuleTestR) (copy' : PyVal)
    (h : r.test doc copy = .ok (t, copy')) : Tested r t := by
  unfold RuleM.test at h
  rw [castSource_eq] at h
  simp only [bind, Except.bind, pure, Except.pure] at h
  split at h
  · cases h
  split at h
  · split at h
    · cases h
    · rename_i t' ht
      cases h
      exact ⟨_, ht⟩
  · split at h
    · cases h
    · split at h
      · split at h
        · cases h
        · rename_i t' ht
          cases h
          exact ⟨_, ht⟩
      · split at h
        · cases h
        · split at h
          · cases h
          · rename_i t' ht
            cases h
            exact ⟨_, ht⟩

theorem validateLoop_tested (rs : List RuleM) (doc : PyVal) :
    ∀ (copy : PyVal) (ts : List RuleTestR) (copy' : PyVal),
      validateLoop rs doc copy = .ok (ts, copy') → All2 Tested rs ts := by
  induction rs with
  | nil =>
    intro copy ts copy' h
    simp only [validateLoop] at h
    cases h
    exact .nil
  | cons r rs ih =>
    intro copy ts copy' h
    simp only [validateLoop, bind, Except.bind, pure, Except.pure] at h
    split at h
    · cases h
    rename_i r1 h1
    obtain ⟨t, c1⟩ := r1
    simp only at h
    split at h
    · cases h
    rename_i r2 h2
    obtain ⟨ts', c2⟩ := r2
    cases h
    exact .cons (test_tested _ _ _ _ _ h1) (ih _ _ _ h2)

theorem validate_tested (rs : List RuleM) (doc : PyVal) (v : Validated) (h : validate rs doc = .ok v) :
    All2 Tested rs v.tests := by
  unfold validate at h
  simp only [bind, Except.bind, pure, Except.pure] at h
  split at h
  · cases h
  split at h
  · cases h
  rename_i r2 h2
  obtain ⟨ts, c⟩ := r2
  cases h
  exact validateLoop_tested _ _ _ _ _ h2

/-! ### the reason texts -/

/-- the reason texts exist (whatever `κ`): one list per failure, read off a filter outcome of the
    shape of the rule's condition in which the failure's item is false -/
theorem reasonTextsOf_ok (κ : Leaf Arg → String) (r : RuleM) (t : RuleTestR) (h : Tested r t) :
    ∃ texts, reasonTextsOf κ r t = .ok texts ∧ texts.length = t.failures.length ∧
      ∀ (i : Nat) (f : Failure) (x : List String), t.failures[i]? = some f → texts[i]? = some x →
        ∃ fd, Shape r.cond fd ∧ x = namedReasonsAt κ f.index r.cond fd ∧
          f.reasons = fd.reasonsAt f.index ∧ fd.result[f.index]? = some false := by
  obtain ⟨doc, h⟩ := h
  obtain ⟨hdata, _, hcase⟩ := ruleTestOn_spec r doc t h
  rcases hcase with hnil | ⟨sub, d, fd, d', ps, hsel, hd, hf, hall⟩
  · refine ⟨[], ?_, by simp [hnil], ?_⟩
    · simp [reasonTextsOf, hnil, pure, Except.pure]
    · intro i f x _ hx; simp at hx
  · by_cases hnil : t.failures = []
    · refine ⟨[], ?_, by simp [hnil], ?_⟩
      · simp [reasonTextsOf, hnil, pure, Except.pure]
      · intro i f x _ hx; simp at hx
    · refine ⟨t.failures.map (fun f => namedReasonsAt κ f.index r.cond fd), ?_, by simp, ?_⟩
      · have : t.failures.isEmpty = false := by
          cases hfs : t.failures with
          | nil => exact absurd hfs hnil
          | cons a b => rfl
        simp [reasonTextsOf, this, hdata, hsel, hd, hf, bind, Except.bind, pure, Except.pure]
      · intro i f x hfi hx
        simp only [List.getElem?_map, hfi, Option.map_some, Option.some.injEq] at hx
        subst hx
        obtain ⟨hr, hres⟩ := hall f (List.mem_of_getElem? hfi)
        exact ⟨fd, filterAux_shape (resolveArg (some doc)) r.cond d true fd d' ps hf, rfl, hr, hres⟩

theorem reasonTextsOf_spec (κ : Leaf Arg → String) (hκ : ∀ l, skipped (κ l) = false) (hskip : SkipRows)
    (r : RuleM) (t : RuleTestR) (h : Tested r t) :
    ∃ texts, reasonTextsOf κ r t = .ok texts ∧ texts.length = t.failures.length ∧
      ∀ (i : Nat) (f : Failure) (x : List String), t.failures[i]? = some f → texts[i]? = some x →
        x.length = f.reasons.length ∧ x ≠ [] := by
  obtain ⟨texts, hok, hlen, hall⟩ := reasonTextsOf_ok κ r t h
  refine ⟨texts, hok, hlen, ?_⟩
  intro i f x hfi hx
  obtain ⟨fd, hshape, rfl, hr, hres⟩ := hall i f x hfi hx
  have hl := length_namedReasonsAt hκ hskip f.index r.cond fd hshape
  refine ⟨by rw [hl, hr], ?_⟩
  intro hx
  have hne := reasonsAt_ne_nil fd f.index hres
  rw [hx] at hl
  exact hne (List.length_eq_zero_iff.1 hl.symm)

theorem allTexts_spec (κ : Leaf Arg → String) (rs : List RuleM) (ts : List RuleTestR)
    (h : All2 Tested rs ts) :
    ∃ texts, allTexts κ rs ts = .ok texts ∧
      All2 (fun t x => x.length = t.failures.length) ts texts := by
  induction h with
  | nil => exact ⟨[], rfl, .nil⟩
  | cons hrt _ ih =>
    obtain ⟨x, hx, hlen, _⟩ := reasonTextsOf_ok κ _ _ hrt
    obtain ⟨xs, hxs, hall⟩ := ih
    exact ⟨x :: xs, by simp [allTexts, hx, hxs, bind, Except.bind, pure, Except.pure], .cons hlen hall⟩

theorem report_eq (ρ : PyVal → String) (κ : Leaf Arg → String) (rs : List RuleM) (v : Validated) (s : String)
    (hs : report ρ κ rs v = .ok s) :
    ∃ texts, allTexts κ rs v.tests = .ok texts ∧ s = reportWith ρ v rs.length texts := by
  unfold report at hs
  simp only [bind, Except.bind, pure, Except.pure] at hs
  split at hs
  · cases hs
  · rename_i texts ht
    cases hs
    exact ⟨texts, ht, rfl⟩

/-! ### the building blocks of the text -/

theorem failureText_block (ρ : PyVal → String) (f : Failure) (reasons : List String) :
    Occurs (failureText ρ f reasons)
      (failPathPrefix ++ ρ f.path ++ failValuePrefix ++ ρ f.value ++ failReasonsHeader) :=
  Occurs.pre _ _

theorem ruleReport_failure (ρ : PyVal → String) (t : RuleTestR) (texts : List (List String))
    (hlen : texts.length = t.failures.length) (f : Failure) (hf : f ∈ t.failures) :
    ∃ reasons, Occurs (ruleReport ρ t texts) (failureText ρ f reasons) := by
  obtain ⟨j, hj⟩ := List.getElem?_of_mem hf
  have hjlt : j < texts.length := by
    rw [hlen]; exact (List.getElem?_eq_some_iff.1 hj).1
  refine ⟨texts[j], ?_⟩
  unfold ruleReport
  apply Occurs.after
  apply occurs_join_of_mem
  apply List.mem_of_getElem? (i := j)
  simp [List.getElem?_zipWith, hj, List.getElem?_eq_getElem hjlt]

theorem section_head (ρ : PyVal → String) (idx : Nat) (t : RuleTestR) (texts : List (List String))
    (hinv : t.isValid = false) :
    Occurs (section_ ρ idx t texts) (sectionPrefix ++ toString idx ++ sectionTitleEnd) := by
  simp only [section_, hinv, Bool.false_eq_true, if_false]
  exact (((Occurs.pre _ _).before _).before _).before _

theorem section_report (ρ : PyVal → String) (idx : Nat) (t : RuleTestR) (texts : List (List String))
    (hinv : t.isValid = false) :
    Occurs (section_ ρ idx t texts) (ruleReport ρ t texts) := by
  simp only [section_, hinv, Bool.false_eq_true, if_false]
  exact ((Occurs.refl _).after _).before _

theorem sections_mem (ρ : PyVal → String) :
    ∀ (ts : List RuleTestR) (texts : List (List (List String))) (start i : Nat) (t : RuleTestR),
      All2 (fun t x => x.length = t.failures.length) ts texts → ts[i]? = some t →
      ∃ x, x.length = t.failures.length ∧ section_ ρ (start + i) t x ∈ sections ρ start ts texts := by
  intro ts texts start i t h
  induction h generalizing start i with
  | nil => intro ht; simp at ht
  | cons hx _ ih =>
    rename_i t0 x0 ts0 xs0 _
    intro ht
    cases i with
    | zero =>
      simp at ht; subst ht
      exact ⟨x0, hx, by simp [sections]⟩
    | succ i =>
      simp only [List.getElem?_cons_succ] at ht
      obtain ⟨x, hxl, hm⟩ := ih (start + 1) i ht
      refine ⟨x, hxl, ?_⟩
      simp only [sections, List.mem_cons]
      right
      have : start + (i + 1) = start + 1 + i := by omega
      rw [this]; exact hm

theorem reportWith_invalid (ρ : PyVal → String) (v : Validated) (n : Nat) (texts : List (List (List String)))
    (hv : v.isValid = false) :
    reportWith ρ v n texts =
      repOutInit ++ toString v.numFailures ++ headerRule ++
        (if v.numFailures > 1 then headerPlural else headerSingular) ++ headerFailed ++
        toString v.numRulesTested ++ testedSep ++ toString n ++ testedSuffix ++ headerSuffix ++
        String.join (sections ρ 1 v.tests texts) := by
  simp only [reportWith, hv, testedMsg, String.append_assoc, Bool.false_eq_true, if_false]

theorem reportWith_valid (ρ : PyVal → String) (v : Validated) (n : Nat) (texts : List (List (List String)))
    (hv : v.isValid = true) :
    reportWith ρ v n texts =
      repOutInit ++ validPrefix ++ toString v.numRulesTested ++ testedSep ++ toString n ++ testedSuffix ++
        validSuffix := by
  simp only [reportWith, hv, testedMsg, String.append_assoc, if_true]

theorem invalid_of_test (v : Validated) (t : RuleTestR) (ht : t ∈ v.tests) (hinv : t.isValid = false) :
    v.isValid = false := by
  cases hv : v.isValid with
  | false => rfl
  | true =>
    have := List.all_eq_true.1 hv t ht
    simp [hinv] at this

/-- every not-valid rule test has its section in the report of a validation that returned -/
theorem report_section (ρ : PyVal → String) (κ : Leaf Arg → String) (rs : List RuleM) (v : Validated)
    (s : String) (h : All2 Tested rs v.tests) (hs : report ρ κ rs v = .ok s)
    (i : Nat) (t : RuleTestR) (ht : v.tests[i]? = some t) (hinv : t.isValid = false) :
    ∃ x, x.length = t.failures.length ∧ Occurs s (section_ ρ (i + 1) t x) := by
  obtain ⟨texts, hall, rfl⟩ := report_eq ρ κ rs v s hs
  obtain ⟨texts', hall', hF⟩ := allTexts_spec κ rs v.tests h
  rw [hall] at hall'; cases hall'
  obtain ⟨x, hxl, hm⟩ := sections_mem ρ v.tests texts 1 i t hF ht
  refine ⟨x, hxl, ?_⟩
  rw [reportWith_invalid ρ v _ _ (invalid_of_test v t (List.mem_of_getElem? ht) hinv)]
  apply Occurs.after
  rw [Nat.add_comm] 
  exact occurs_join_of_mem hm

end ValidaProofs.C06R
