/-
  ValidaProofs.Lemmas.C08Store — helper lemmas for C08: stores only grow, reads are stable under
  growth, allocation is fresh, writes through a fresh root stay in fresh cells.
-/
import Valida.Store
import ValidaProofs.Lemmas.Basic
namespace ValidaProofs.C08L
open Valida ValidaGen

/-! ### store extension -/

/-- `s'` extends `s`: every cell of `s` is still there, unchanged -/
def Ext (s s' : Store) : Prop := ∀ (i : Nat) (c : Cell), s[i]? = some c → s'[i]? = some c

theorem Ext.refl (s : Store) : Ext s s := fun _ _ h => h

theorem Ext.trans {a b c : Store} (h1 : Ext a b) (h2 : Ext b c) : Ext a c :=
  fun i x h => h2 i x (h1 i x h)

theorem ext_push (s : Store) (c : Cell) : Ext s (s.push c) := by
  intro i x h
  have hi : i < s.size := by
    rcases Nat.lt_or_ge i s.size with hi | hi
    · exact hi
    · simp [Array.getElem?_eq_none hi] at h
  rw [Array.getElem?_push]
  simp [Nat.ne_of_lt hi, h]

theorem Ext.size_le {s s' : Store} (h : Ext s s') : s.size ≤ s'.size := by
  rcases Nat.eq_zero_or_pos s.size with h0 | hpos
  · omega
  · have h1 : s[s.size - 1]? = some (s[s.size - 1]'(by omega)) := Array.getElem?_eq_getElem (by omega)
    have h2 := h _ _ h1
    have h3 : s.size - 1 < s'.size := by
      rcases Nat.lt_or_ge (s.size - 1) s'.size with hi | hi
      · exact hi
      · simp [Array.getElem?_eq_none hi] at h2
    omega

theorem Ext.below {s s' : Store} (h : Ext s s') (i : Nat) (hi : i < s.size) : s'[i]? = s[i]? := by
  have h1 : s[i]? = some (s[i]'hi) := Array.getElem?_eq_getElem hi
  rw [h _ _ h1, h1]

theorem ext_of_below {s s' : Store} (h : ∀ i, i < s.size → s'[i]? = s[i]?) : Ext s s' := by
  intro i c hc
  have hi : i < s.size := by
    rcases Nat.lt_or_ge i s.size with hi | hi
    · exact hi
    · simp [Array.getElem?_eq_none hi] at hc
  rw [h i hi, hc]

/-! ### reads are stable under extension -/

theorem mapM_opt_congr {α β : Type} (f g : α → Option β) :
    ∀ (l : List α) (vs : List β), (∀ x ∈ l, ∀ v, f x = some v → g x = some v) →
      l.mapM f = some vs → l.mapM g = some vs := by
  intro l
  induction l with
  | nil => intro vs _ h; simpa using h
  | cons x xs ih =>
    intro vs hfg h
    rw [List.mapM_cons] at h ⊢
    cases hx : f x with
    | none => simp [hx] at h
    | some b =>
      cases hxs : xs.mapM f with
      | none => simp [hx, hxs] at h
      | some bs =>
        rw [hfg x (by simp) b hx, ih bs (fun y hy => hfg y (by simp [hy])) hxs]
        simpa [hx, hxs] using h

theorem read_mono {s s' : Store} (h : Ext s s') :
    ∀ (fuel r : Nat) (v : PyVal), Store.read s fuel r = some v → Store.read s' fuel r = some v := by
  intro fuel
  induction fuel with
  | zero => intro r v hr; simp [Store.read] at hr
  | succ fuel ih =>
    intro r v hr
    unfold Store.read at hr ⊢
    cases hc : s[r]? with
    | none => simp [hc] at hr
    | some c =>
      rw [h r c hc]; rw [hc] at hr
      cases c with
      | scalar x => exact hr
      | list items =>
        simp only [Option.map_eq_some_iff] at hr ⊢
        obtain ⟨vs, hvs, rfl⟩ := hr
        exact ⟨vs, mapM_opt_congr _ _ _ _ (fun x _ v hv => ih x v hv) hvs, rfl⟩
      | dict items =>
        simp only [Option.map_eq_some_iff] at hr ⊢
        obtain ⟨vs, hvs, rfl⟩ := hr
        refine ⟨vs, mapM_opt_congr _ _ _ _ (fun x _ v hv => ?_) hvs, rfl⟩
        simp only [Option.map_eq_some_iff] at hv ⊢
        obtain ⟨w, hw, rfl⟩ := hv
        exact ⟨w, ih _ _ hw, rfl⟩

/-! ### references held by a cell; stores whose cells from `n` on only refer to cells from `n` on -/

def refs : Cell → List Nat
  | .scalar _ => []
  | .list items => items
  | .dict items => items.map (·.2)

def Fresh (n : Nat) (s : Store) : Prop :=
  ∀ (i : Nat) (c : Cell), n ≤ i → s[i]? = some c → ∀ r ∈ refs c, n ≤ r

theorem fresh_self (s : Store) : Fresh s.size s := by
  intro i c hi hc
  simp [Array.getElem?_eq_none hi] at hc

theorem fresh_push {n : Nat} {s : Store} {c : Cell} (h : Fresh n s) (hc : ∀ r ∈ refs c, n ≤ r) :
    Fresh n (s.push c) := by
  intro i x hi hx
  rw [Array.getElem?_push] at hx
  split at hx
  · cases hx; exact hc
  · exact h i x hi hx

/-! ### allocation -/

structure AllocOK (s : Store) (fuel : Nat) (v : PyVal) : Prop where
  ext : Ext s (Store.alloc s fuel v).1
  lo : s.size ≤ (Store.alloc s fuel v).2
  hi : (Store.alloc s fuel v).2 < (Store.alloc s fuel v).1.size
  fresh : ∀ n, n ≤ s.size → Fresh n s → Fresh n (Store.alloc s fuel v).1
  read : Store.read (Store.alloc s fuel v).1 (fuel + 1) (Store.alloc s fuel v).2 = some v

/-- the step of the folds in `Store.alloc`, for lists (`val = id`) and mappings (`val = (·.2)`) -/
def step {β γ : Type} (fuel : Nat) (val : β → PyVal) (mk : β → Nat → γ) (acc : Store × List γ) (y : β) :
    Store × List γ :=
  ((Store.alloc acc.1 fuel (val y)).1, acc.2 ++ [mk y (Store.alloc acc.1 fuel (val y)).2])

theorem fold_spec {β γ : Type} (fuel : Nat) (ih : ∀ s v, AllocOK s fuel v) (val : β → PyVal) (mk : β → Nat → γ) :
    ∀ (ys : List β) (acc : Store × List γ),
      Ext acc.1 (ys.foldl (step fuel val mk) acc).1 ∧
      (∀ n, n ≤ acc.1.size → Fresh n acc.1 → Fresh n (ys.foldl (step fuel val mk) acc).1) ∧
      ∃ rs : List Nat, (ys.foldl (step fuel val mk) acc).2 = acc.2 ++ List.zipWith mk ys rs ∧
        rs.length = ys.length ∧ (∀ r ∈ rs, acc.1.size ≤ r) ∧
        rs.mapM (Store.read (ys.foldl (step fuel val mk) acc).1 (fuel + 1)) = some (ys.map val) := by
  intro ys
  induction ys with
  | nil => intro acc; exact ⟨Ext.refl _, fun _ _ h => h, [], by simp, rfl, by simp, by simp⟩
  | cons y ys ihy =>
    intro acc
    rw [List.foldl_cons]
    have A := ih acc.1 (val y)
    obtain ⟨h1, h2, rs, h3, h4, h5, h6⟩ := ihy (step fuel val mk acc y)
    have hA : Ext acc.1 (step fuel val mk acc y).1 := A.ext
    refine ⟨hA.trans h1, fun n hn hf => h2 n (Nat.le_trans hn hA.size_le) (A.fresh n hn hf), ?_⟩
    refine ⟨(Store.alloc acc.1 fuel (val y)).2 :: rs, ?_, by simp [h4], ?_, ?_⟩
    · rw [h3]; simp [step]
    · intro r hr
      rcases List.mem_cons.1 hr with rfl | hr
      · exact A.lo
      · exact Nat.le_trans hA.size_le (h5 r hr)
    · rw [List.mapM_cons, read_mono h1 _ _ _ A.read, h6]; rfl

theorem zipWith_snd {β : Type} : ∀ (ys : List β) (rs : List Nat), rs.length = ys.length →
    List.zipWith (fun _ r => r) ys rs = rs := by
  intro ys
  induction ys with
  | nil => intro rs h; cases rs <;> simp_all
  | cons y ys ih => intro rs h; cases rs with
    | nil => simp at h
    | cons r rs => simp [ih rs (by simpa using h)]

theorem zipWith_map_snd {κ : Type} : ∀ (ys : List (κ × PyVal)) (rs : List Nat), rs.length = ys.length →
    (List.zipWith (fun (kv : κ × PyVal) r => (kv.1, r)) ys rs).map (·.2) = rs := by
  intro ys
  induction ys with
  | nil => intro rs h; cases rs <;> simp_all
  | cons y ys ih => intro rs h; cases rs with
    | nil => simp at h
    | cons r rs => simp [ih rs (by simpa using h)]

theorem dict_mapM (g : Nat → Option PyVal) : ∀ (kvs : List (PyVal × PyVal)) (rs : List Nat),
    rs.mapM g = some (kvs.map (·.2)) →
    (List.zipWith (fun (kv : PyVal × PyVal) r => (kv.1, r)) kvs rs).mapM
      (fun kv => (g kv.2).map (fun v => (kv.1, v))) = some kvs := by
  intro kvs
  induction kvs with
  | nil => intro rs h; cases rs <;> simp
  | cons kv kvs ih =>
    intro rs h
    cases rs with
    | nil => simp at h
    | cons r rs =>
      rw [List.mapM_cons] at h
      cases hr : g r with
      | none => simp [hr] at h
      | some w =>
        cases hrs : rs.mapM g with
        | none => simp [hr, hrs] at h
        | some ws =>
          simp [hr, hrs] at h
          obtain ⟨rfl, rfl⟩ := h
          rw [List.zipWith_cons_cons, List.mapM_cons, ih rs hrs]
          simp [hr]

theorem alloc_scalar_ok (s : Store) (fuel : Nat) (v : PyVal)
    (h : Store.alloc s fuel v = (s.push (.scalar v), s.size)) : AllocOK s fuel v := by
  refine ⟨?_, ?_, ?_, ?_, ?_⟩ <;> rw [h]
  · exact ext_push _ _
  · exact Nat.le_refl _
  · simp
  · intro n _ hf; exact fresh_push hf (by simp [refs])
  · simp [Store.read]

theorem alloc_list_eq (s : Store) (fuel : Nat) (xs : List PyVal) :
    Store.alloc s (fuel + 1) (.list xs) =
      (((xs.foldl (step fuel id (fun _ r => r)) (s, [])).1.push
          (.list (xs.foldl (step fuel id (fun _ r => r)) (s, [])).2)),
        (xs.foldl (step fuel id (fun _ r => r)) (s, [])).1.size) := rfl

theorem alloc_dict_eq (s : Store) (fuel : Nat) (kvs : List (PyVal × PyVal)) :
    Store.alloc s (fuel + 1) (.dict kvs) =
      (((kvs.foldl (step fuel (·.2) (fun kv r => (kv.1, r))) (s, [])).1.push
          (.dict (kvs.foldl (step fuel (·.2) (fun kv r => (kv.1, r))) (s, [])).2)),
        (kvs.foldl (step fuel (·.2) (fun kv r => (kv.1, r))) (s, [])).1.size) := rfl

theorem alloc_ok : ∀ (fuel : Nat) (s : Store) (v : PyVal), AllocOK s fuel v := by
  intro fuel
  induction fuel with
  | zero => intro s v; exact alloc_scalar_ok s 0 v rfl
  | succ fuel ih =>
    intro s v
    cases v with
    | list xs =>
      obtain ⟨h1, h2, rs, h3, h4, h5, h6⟩ := fold_spec fuel ih id (fun _ r => r) xs (s, [])
      rw [zipWith_snd xs rs h4, List.nil_append] at h3
      simp only at h1 h2 h5
      refine ⟨?_, ?_, ?_, ?_, ?_⟩ <;> rw [alloc_list_eq] <;> simp only [h3]
      · exact h1.trans (ext_push _ _)
      · exact h1.size_le
      · simp
      · intro n hn hf
        exact fresh_push (h2 n hn hf) (fun r hr => Nat.le_trans hn (h5 r hr))
      · unfold Store.read
        simp only [Array.getElem?_push_size, Option.map_eq_some_iff]
        refine ⟨xs, mapM_opt_congr _ _ _ _ (fun x _ v hv => read_mono (ext_push _ _) _ _ _ hv) ?_, rfl⟩
        simpa using h6
    | dict kvs =>
      obtain ⟨h1, h2, rs, h3, h4, h5, h6⟩ :=
        fold_spec fuel ih (·.2) (fun (kv : PyVal × PyVal) r => (kv.1, r)) kvs (s, [])
      rw [List.nil_append] at h3
      simp only at h1 h2 h5
      refine ⟨?_, ?_, ?_, ?_, ?_⟩ <;> rw [alloc_dict_eq] <;> simp only [h3]
      · exact h1.trans (ext_push _ _)
      · exact h1.size_le
      · simp
      · intro n hn hf
        refine fresh_push (h2 n hn hf) (fun r hr => Nat.le_trans hn (h5 r ?_))
        simpa [refs, zipWith_map_snd kvs rs h4] using hr
      · unfold Store.read
        simp only [Array.getElem?_push_size, Option.map_eq_some_iff]
        refine ⟨kvs, ?_, rfl⟩
        apply dict_mapM
        exact mapM_opt_congr _ _ _ _ (fun x _ v hv => read_mono (ext_push _ _) _ _ _ hv) h6
    | none => exact alloc_scalar_ok _ _ _ rfl
    | bool b => exact alloc_scalar_ok _ _ _ rfl
    | int n => exact alloc_scalar_ok _ _ _ rfl
    | float k => exact alloc_scalar_ok _ _ _ rfl
    | str s => exact alloc_scalar_ok _ _ _ rfl
    | tuple xs => exact alloc_scalar_ok _ _ _ rfl
    | type t => exact alloc_scalar_ok _ _ _ rfl
    | obj n => exact alloc_scalar_ok _ _ _ rfl

/-! ### reachability -/

theorem mem_reach_succ (s : Store) (fuel r x : Nat) :
    x ∈ Store.reach s (fuel + 1) r ↔
      x = r ∨ ∃ c, s[r]? = some c ∧ ∃ r' ∈ refs c, x ∈ Store.reach s fuel r' := by
  simp only [Store.reach]
  cases hc : s[r]? with
  | none => simp
  | some c =>
    cases c with
    | scalar v => simp [refs]
    | list items => simp [refs]
    | dict items =>
      simp only [refs, List.mem_cons, List.mem_flatMap, List.mem_map, Option.some.injEq, exists_eq_left']
      constructor
      · rintro (h | ⟨kv, hkv, hx⟩)
        · exact Or.inl h
        · exact Or.inr ⟨kv.2, ⟨kv, hkv, rfl⟩, hx⟩
      · rintro (h | ⟨r', ⟨kv, hkv, rfl⟩, hx⟩)
        · exact Or.inl h
        · exact Or.inr ⟨kv, hkv, hx⟩

theorem reach_self (s : Store) (fuel r : Nat) : r ∈ Store.reach s fuel r := by
  cases fuel <;> simp [Store.reach]

theorem reach_fresh {n : Nat} {s : Store} (hf : Fresh n s) :
    ∀ (fuel r : Nat), n ≤ r → ∀ x ∈ Store.reach s fuel r, n ≤ x := by
  intro fuel
  induction fuel with
  | zero => intro r hr x hx; simp [Store.reach] at hx; omega
  | succ fuel ih =>
    intro r hr x hx
    rcases (mem_reach_succ s fuel r x).1 hx with rfl | ⟨c, hc, r', hr', hx'⟩
    · exact hr
    · exact ih r' (hf r c hr hc r' hr') x hx'

theorem childRef_mem (c : Cell) (k : PyVal) (r : Nat) (h : Store.childRef c k = some r) : r ∈ refs c := by
  cases c with
  | scalar v => simp [Store.childRef] at h
  | list items =>
    simp only [Store.childRef] at h
    split at h
    · split at h
      · exact List.mem_of_getElem? h
      · cases h
    · cases h
  | dict items =>
    simp only [Store.childRef, Option.map_eq_some_iff] at h
    obtain ⟨kv, hkv, rfl⟩ := h
    exact List.mem_map.2 ⟨kv, List.mem_of_find?_eq_some hkv, rfl⟩

/-! ### writes -/

/-- what `setAt` does: nothing, or push one scalar cell and rewrite one reachable container cell so
    that it refers to its previous children or to the pushed cell -/
def Rewrites (s : Store) (root : Nat) (v : PyVal) (s' : Store) : Prop :=
  s' = s ∨ ∃ (r : Nat) (c c' : Cell), (∃ fuel, r ∈ Store.reach s fuel root) ∧ s[r]? = some c ∧
    s' = (s.push (.scalar v)).setIfInBounds r c' ∧ ∀ x ∈ refs c', x ∈ refs c ∨ x = s.size

theorem setAt_rewrites (s : Store) (v : PyVal) (s' : Store) :
    ∀ (path : List PyVal) (root : Nat), Store.setAt s root path v = some s' → Rewrites s root v s' := by
  intro path
  induction path with
  | nil => intro root h; simp only [Store.setAt, Option.some.injEq] at h; exact Or.inl h.symm
  | cons k rest ih =>
    intro root h
    cases rest with
    | nil =>
      simp only [Store.setAt] at h
      split at h
      · rename_i items hc
        split at h
        · cases h
          refine Or.inr ⟨root, _, _, ⟨0, reach_self _ _ _⟩, hc, rfl, ?_⟩
          intro x hx
          simp only [refs, List.map_map, List.mem_map, Function.comp] at hx ⊢
          obtain ⟨kv, hkv, rfl⟩ := hx
          split
          · exact Or.inr rfl
          · exact Or.inl ⟨kv, hkv, rfl⟩
        · cases h
      · rename_i items hc
        split at h
        · split at h
          · cases h
            refine Or.inr ⟨root, _, _, ⟨0, reach_self _ _ _⟩, hc, rfl, ?_⟩
            intro x hx
            simp only [refs] at hx ⊢
            exact List.mem_or_eq_of_mem_set hx
          · cases h
        · cases h
      · cases h
    | cons k' rest' =>
      simp only [Store.setAt] at h
      split at h
      · rename_i c hc
        split at h
        · rename_i r' hr'
          rcases ih r' h with rfl | ⟨r, c0, c', ⟨fuel, hreach⟩, h1, h2, h3⟩
          · exact Or.inl rfl
          · refine Or.inr ⟨r, c0, c', ⟨fuel + 1, ?_⟩, h1, h2, h3⟩
            exact (mem_reach_succ s fuel root r).2 (Or.inr ⟨c, hc, r', childRef_mem c k r' hr', hreach⟩)
        · cases h
      · cases h

theorem rewrites_frame {s : Store} {root : Nat} {v : PyVal} {s' : Store} (h : Rewrites s root v s') :
    s.size ≤ s'.size ∧
      ∀ i, i < s.size → (∀ fuel, i ∉ Store.reach s fuel root) → s'[i]? = s[i]? := by
  rcases h with rfl | ⟨r, c, c', ⟨fuel, hreach⟩, _, rfl, _⟩
  · exact ⟨Nat.le_refl _, fun _ _ _ => rfl⟩
  · refine ⟨by simp, fun i hi hn => ?_⟩
    have hne : r ≠ i := fun e => hn fuel (e ▸ hreach)
    rw [Array.getElem?_setIfInBounds_ne hne, Array.getElem?_push]
    simp [Nat.ne_of_lt hi]

theorem rewrites_inv {s : Store} {root : Nat} {v : PyVal} {s' : Store} (h : Rewrites s root v s')
    {n : Nat} (hn : n ≤ s.size) (hroot : n ≤ root) (hf : Fresh n s) :
    (∀ i, i < n → s'[i]? = s[i]?) ∧ Fresh n s' ∧ n ≤ s'.size := by
  rcases h with rfl | ⟨r, c, c', ⟨fuel, hreach⟩, hc, rfl, hrefs⟩
  · exact ⟨fun _ _ => rfl, hf, hn⟩
  · have hr : n ≤ r := reach_fresh hf fuel root hroot r hreach
    refine ⟨fun i hi => ?_, ?_, by simp; omega⟩
    · rw [Array.getElem?_setIfInBounds_ne (by omega), Array.getElem?_push]
      simp [show i ≠ s.size by omega]
    · intro i x hi hx
      rw [Array.getElem?_setIfInBounds] at hx
      split at hx
      · split at hx
        · cases hx
          intro y hy
          rcases hrefs y hy with hy | rfl
          · exact hf r c hr hc y hy
          · exact hn
        · cases hx
      · exact fresh_push hf (c := .scalar v) (by simp [refs]) i x hi hx

theorem writes_inv (copy n : Nat) (hcopy : n ≤ copy) :
    ∀ (ws : List (List PyVal × PyVal)) (s1 : Store), n ≤ s1.size → Fresh n s1 →
      ∀ i, i < n → (Store.writes s1 copy ws)[i]? = s1[i]? := by
  intro ws
  induction ws with
  | nil => intro s1 _ _ i _; rfl
  | cons w ws ih =>
    intro s1 hn hf i hi
    obtain ⟨path, v⟩ := w
    simp only [Store.writes]
    cases hs : Store.setAt s1 copy path v with
    | none => exact ih s1 hn hf i hi
    | some s2 =>
      obtain ⟨h1, h2, h3⟩ := rewrites_inv (setAt_rewrites s1 v s2 path copy hs) hn hcopy hf
      simp only
      rw [ih s2 h3 h2 i hi, h1 i hi]

/-! ### the working copy -/

/-- the working copy is the deep copy – because the source says so (`validateDeepCopies`) -/
theorem workingCopy_eq (s : Store) (fuel root : Nat) (v : PyVal) (hv : Store.read s fuel root = some v) :
    Store.workingCopy s fuel root = Store.alloc s fuel v := by
  unfold Store.workingCopy
  rw [if_pos (by rfl : validateDeepCopies = true)]
  simp only [Store.deepcopy, hv]

theorem working_untouched (s : Store) (fuel root : Nat) (v : PyVal) (hv : Store.read s fuel root = some v)
    (ws : List (List PyVal × PyVal)) :
    ∀ i, i < s.size →
      (Store.writes (Store.workingCopy s fuel root).1 (Store.workingCopy s fuel root).2 ws)[i]? = s[i]? := by
  intro i hi
  rw [workingCopy_eq s fuel root v hv]
  have A := alloc_ok fuel s v
  rw [writes_inv _ s.size A.lo ws _ A.ext.size_le (A.fresh _ (Nat.le_refl _) (fresh_self s)) i hi,
    A.ext.below i hi]

end ValidaProofs.C08L
