/-
  ValidaProofs.Lemmas.C07Rule — helper lemmas for C07: testing one rule of the domain, casting one
  node and validating against a cast-free schema raise nothing but the pseudo-outcome.
-/
import ValidaProofs.Lemmas.C07Total
import ValidaProofs.Lemmas.C05Rule
import ValidaProofs.Lemmas.C06Schema
import ValidaProofs.Lemmas.Filter
namespace ValidaProofs.C07L
open Valida ValidaGen
open C05L C06L

theorem like_of_valueKind (cls : CClass) (h : cls.info.map (·.readsKeys) = .ok false) :
    (Cond.likeOf cls == "key") = false ∧ (Cond.likeOf cls == "index") = false := by
  cases cls
  case value => exact ⟨by decide, by decide⟩
  case valueLength => exact ⟨by decide, by decide⟩
  case valueDataType => exact ⟨by decide, by decide⟩
  case null => exact ⟨by decide, by decide⟩
  all_goals (exfalso; revert h; simp [CClass.info, condClasses, CClass.name, Except.map, List.find?])

theorem kindCheck_valueKind (c : Cond RArg) (d : DataV)
    (hv : ∀ l ∈ c.leaves, (l.cls.info.map (·.readsKeys)) = .ok false) : kindCheck c d = .ok () := by
  cases c with
  | bin op a b => rfl
  | leaf l =>
    obtain ⟨h1, h2⟩ := like_of_valueKind l.cls (hv l (by simp [Cond.leaves]))
    simp [kindCheck, h1, h2]

theorem mapArgs_mapArgs {α β γ : Type} (f : α → β) (g : β → γ) (c : Cond α) :
    (c.mapArgs f).mapArgs g = c.mapArgs (g ∘ f) := by
  induction c with
  | leaf l => simp [Cond.mapArgs, List.map_map, Function.comp_def]
  | bin op a b iha ihb => simp [Cond.mapArgs, iha, ihb]

theorem leaves_mapArgs_cls {α β : Type} (f : α → β) (c : Cond α) :
    ∀ l ∈ (c.mapArgs f).leaves, ∃ l0 ∈ c.leaves, l.cls = l0.cls := by
  induction c with
  | leaf l0 => intro l hl; simp [Cond.mapArgs, Cond.leaves] at hl; subst hl; exact ⟨l0, by simp [Cond.leaves], rfl⟩
  | bin op a b iha ihb =>
    intro l hl
    simp only [Cond.mapArgs, Cond.leaves, List.mem_append] at hl
    rcases hl with hl | hl
    · obtain ⟨l0, h0, he⟩ := iha l hl
      exact ⟨l0, by simp [Cond.leaves, h0], he⟩
    · obtain ⟨l0, h0, he⟩ := ihb l hl
      exact ⟨l0, by simp [Cond.leaves, h0], he⟩

theorem resolve_lits (c : Cond PyVal) (src : Option PyVal) : (c.mapArgs Arg.lit).resolve src = c.lit := by
  unfold Cond.resolve Cond.lit
  rw [mapArgs_mapArgs]
  rfl

theorem exists_pairs (sub : List PyVal) (h : ∀ x ∈ sub, IsPair x) :
    ∃ pairs : List (PyVal × PyVal), sub = pairs.map (fun vp => PyVal.tuple [vp.1, vp.2]) := by
  induction sub with
  | nil => exact ⟨[], rfl⟩
  | cons x xs ih =>
    obtain ⟨v, q, rfl⟩ := h x (by simp)
    obtain ⟨ps, rfl⟩ := ih (fun y hy => h y (by simp [hy]))
    exact ⟨(v, .tuple q) :: ps, rfl⟩

theorem truthy_of_ofPy (doc : PyVal) (d : DataV) (h : DataV.ofPy doc = .ok d) : PyVal.truthy doc = true := by
  cases doc with
  | list xs =>
    rw [DataV.ofPy_list] at h
    split at h
    · cases h
    · rename_i hne; simpa [PyVal.truthy] using hne
  | dict kvs =>
    rw [DataV.ofPy_dict] at h
    split at h
    · cases h
    · rename_i hne; simpa [PyVal.truthy] using hne
  | _ => cases h

/-- a rule of the domain tested on a non-empty document raises nothing but the pseudo-outcome -/
theorem ruleTestOn_err (r : RuleM) (doc : PyVal) (d : DataV)
    (hdatum : r.path.datum = .none) (hmulti : r.path.multi = .none) (hsource : r.path.source = none)
    (hlits : ∃ c : Cond PyVal, r.cond = c.mapArgs Arg.lit)
    (hvk : ∀ l ∈ r.cond.leaves, (l.cls.info.map (·.readsKeys)) = .ok false)
    (hdoc : DataV.ofPy doc = .ok d) :
    ∀ e, ruleTestOn r doc = .error e → e = .unmodelled := by
  intro e h
  obtain ⟨c0, hc0⟩ := hlits
  have hres : r.cond.resolve (some doc) = c0.lit := by rw [hc0]; exact resolve_lits c0 _
  have hv : ∀ l ∈ (r.cond.resolve (some doc)).leaves, (l.cls.info.map (·.readsKeys)) = .ok false := by
    intro l hl
    obtain ⟨l0, h0, he⟩ := leaves_mapArgs_cls _ _ l hl
    rw [he]; exact hvk l0 h0
  unfold ruleTestOn at h
  simp only [bind, Except.bind, pure, Except.pure, hdoc] at h
  split at h
  · rename_i e' he'
    cases h
    exact selection_err _ doc hdatum hmulti hsource (truthy_of_ofPy doc d hdoc) _ he'
  · rename_i osub hsel
    split at h
    · cases h
    · rename_i sub
      obtain ⟨hne, hshape⟩ := selection_shape _ doc hdatum hmulti hsource sub hsel
      obtain ⟨pairs, rfl⟩ := exists_pairs sub hshape
      have hpne : pairs ≠ [] := by intro h0; subst h0; exact hne rfl
      have hd : DataV.ofPy (.list (pairs.map (fun vp => PyVal.tuple [vp.1, vp.2]))) = .ok (pairD pairs) := by
        cases pairs with
        | nil => exact absurd rfl hpne
        | cons x xs => simp [DataV.ofPy_list, pairD]
      simp only [hd, kindCheck_valueKind _ _ hv, filterAux_pairs _ pairs hv] at h
      cases hf : filterAux (r.cond.resolve (some doc)) (plainD pairs) false with
      | error e' =>
        simp only [hf, Except.map] at h
        cases h
        rw [hres] at hf
        exact filterAux_never_aborts_of_leaves c0 filterAux_leaf_error _ _ hf
      | ok res =>
        obtain ⟨fd, d', p⟩ := res
        obtain ⟨rfl, rfl⟩ := filterAux_frame _ _ _ _ _ hf
        have hlen : fd.result.length = pairs.length := by
          have := filterAux_result_length _ _ fd _ _ (plainD_lengths pairs) hf
          simpa [plainD] using this
        simp only [hf, Except.map] at h
        split at h
        · cases h
        · exfalso
          split at h
          · rename_i e' he'
            obtain ⟨i, hi, hFi⟩ := mapM_error he'
            have hlt : i < pairs.length := by
              simp only [failureIndices, List.mem_filter, List.mem_range] at hi
              omega
            simp [plainD, hlt] at hFi
          · cases h

/-! ### casts -/

theorem pyIntOfStr_err (s : String) (e : Exc) (h : pyIntOfStr s = .error e) :
    e = .valueError ∨ e = .unmodelled := by
  unfold pyIntOfStr at h
  simp only at h
  repeat' split at h
  all_goals first | (cases h; done) | (cases h; simp; done) | skip

theorem applyCast_err (fn : String) (v : PyVal) (e : Exc) (h : applyCast fn v = .error e) :
    e = .typeError ∨ e = .valueError ∨ e = .unmodelled := by
  unfold applyCast at h
  split at h
  · split at h
    · unfold castStringToBool at h
      simp only at h
      split at h
      · cases h
      · cases h; exact Or.inl rfl
    · split at h
      · exact Or.inr (pyIntOfStr_err _ _ h)
      · cases h; exact Or.inr (Or.inr rfl)
  · cases h; exact Or.inr (Or.inr rfl)

theorem castNode_err (casts : List (PyType × String)) (v : PyVal) :
    ∀ e, castNode casts v = .error e → e = .unmodelled := by
  induction casts with
  | nil => intro e h; cases h
  | cons c rest ih =>
    obtain ⟨t, fn⟩ := c
    intro e h
    unfold castNode at h
    split at h
    · split at h
      · cases h
      · rename_i e' he'
        split at h
        · exact ih e h
        · rename_i hnc
          cases h
          rcases applyCast_err fn v _ he' with rfl | rfl | rfl
          · exact absurd (by decide) hnc
          · exact absurd (by decide) hnc
          · rfl
    · exact ih e h

/-! ### validation -/

theorem validate_err (rs : List RuleM) (doc : PyVal) (d : DataV) (hdoc : DataV.ofPy doc = .ok d)
    (hc : ∀ r ∈ rs, r.cast = [])
    (hr : ∀ r ∈ rs, ∀ e, ruleTestOn r doc = .error e → e = .unmodelled) :
    ∀ e, validate rs doc = .error e → e = .unmodelled := by
  intro e h
  unfold validate at h
  rw [validateLoop_castfree rs doc doc hc] at h
  simp only [hdoc, bind, Except.bind, pure, Except.pure] at h
  cases hm : rs.mapM (fun r => ruleTestOn r doc) with
  | error e' =>
    simp only [hm, Except.map] at h
    cases h
    obtain ⟨r, hrm, hre⟩ := mapM_error hm
    exact hr r hrm _ hre
  | ok ts => simp [hm, Except.map] at h

end ValidaProofs.C07L
