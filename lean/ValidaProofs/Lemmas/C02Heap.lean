/-
  ValidaProofs.Lemmas.C02Heap — helper lemmas for C02 (object level): `Heap.den`, `Heap.init`,
  `Heap.construct`, `runHistory`.
-/
import Valida.Heap
import ValidaProofs.Lemmas.Basic
namespace ValidaProofs
open Valida ValidaGen

namespace HeapL
open Heap

/-! ### `den` -/

theorem den_succ (h : Heap) (fuel i : Nat) :
    den h (fuel + 1) i =
      match h[i]? with
      | none => .error .unmodelled
      | some (.leaf l) => .ok (.leaf l)
      | some (.bin op l r) =>
        match den h fuel l with
        | .error e => .error e
        | .ok a =>
          match den h fuel r with
          | .error e => .error e
          | .ok b => .ok (.bin op a b) := by
  rw [den]
  cases h[i]? with
  | none => rfl
  | some n =>
    cases n with
    | leaf l => rfl
    | bin op l r =>
      simp only [bind, Except.bind, pure, Except.pure]
      cases den h fuel l with
      | error e => rfl
      | ok a =>
        simp only
        cases den h fuel r with
        | error e => rfl
        | ok b => rfl

/-- more fuel does not change a denotation that was found -/
theorem den_mono (h : Heap) : ∀ (fuel i : Nat) (c : Cond PyVal),
    den h fuel i = .ok c → den h (fuel + 1) i = .ok c := by
  intro fuel
  induction fuel with
  | zero => intro i c hc; simp [den] at hc
  | succ f ih =>
    intro i c hc
    rw [den_succ] at hc
    rw [den_succ]
    split at hc
    · cases hc
    · exact hc
    · rename_i op l r hl
      split at hc
      · cases hc
      · rename_i ca hca
        split at hc
        · cases hc
        · rename_i cb hcb
          rw [ih _ _ hca, ih _ _ hcb]; exact hc

/-- two heaps that agree below `n`, the first acyclic, give the same denotations below `n` -/
theorem den_agree (h h' : Heap) (n : Nat) (hac : h.Acyclic) (hag : ∀ i, i < n → h'[i]? = h[i]?) :
    ∀ (fuel i : Nat), i < n → den h' fuel i = den h fuel i := by
  intro fuel
  induction fuel with
  | zero => intro i _; rfl
  | succ f ih =>
    intro i hi
    rw [den_succ, den_succ, hag i hi]
    split
    · rfl
    · rfl
    · rename_i op l r hl
      obtain ⟨h1, h2⟩ := hac _ _ _ _ hl
      rw [ih l (by omega), ih r (by omega)]

theorem den_push (h : Heap) (n : HNode) (hac : h.Acyclic) (fuel i : Nat) (hi : i < h.size) :
    den (h.push n) fuel i = den h fuel i :=
  den_agree h (h.push n) h.size hac (fun j hj => by simp [Array.getElem?_push, Nat.ne_of_lt hj]) fuel i hi

/-! ### `Acyclic` -/

theorem acyclic_push_leaf (h : Heap) (l : Leaf PyVal) (hac : h.Acyclic) : Heap.Acyclic (h.push (.leaf l)) := by
  intro i op x y hi
  rw [Array.getElem?_push] at hi
  split at hi
  · cases hi
  · exact hac _ _ _ _ hi

theorem acyclic_push_bin (h : Heap) (op : BinOp) (a b : Nat) (hac : h.Acyclic)
    (ha : a < h.size) (hb : b < h.size) : Heap.Acyclic (h.push (.bin op a b)) := by
  intro i op' x y hi
  rw [Array.getElem?_push] at hi
  split at hi
  · rename_i hsz
    cases hi; subst hsz; exact ⟨ha, hb⟩
  · exact hac _ _ _ _ hi

/-! ### `init`, `construct` -/

theorem isNullAt_push (h : Heap) (op : BinOp) (a b x : Nat) (hx : h.isNullAt x = false) :
    Heap.isNullAt (h.push (.bin op a b)) x = false := by
  unfold isNullAt at *
  rw [Array.getElem?_push]
  by_cases hxs : x = h.size
  · simp [hxs]
  · simpa [hxs] using hx

/-- with the guard in the source, `__init__` on operands one of which is null does nothing -/
theorem init_null (h : Heap) (fuel obj a b : Nat) (op : BinOp)
    (hn : (h.isNullAt b || h.isNullAt a) = true) : init h fuel obj a b op = (h, none) := by
  have hg : binopInitGuard = true := rfl
  simp [init, hg, hn]

theorem setIfInBounds_push_self (h : Heap) (n : HNode) : (h.push n).setIfInBounds h.size n = h.push n := by
  apply Array.ext_getElem?
  intro i
  rw [Array.getElem?_setIfInBounds]
  split
  · rename_i hi; subst hi; simp
  · rfl

/-- what `__init__` does to the fresh object -/
theorem init_fresh (h : Heap) (fuel a b : Nat) (op : BinOp)
    (ha : h.isNullAt a = false) (hb : h.isNullAt b = false) :
    init (h.push (.bin op a b)) fuel h.size a b op =
      (h.push (.bin op a b),
        match leavesAt (h.push (.bin op a b)) fuel h.size with
        | .error e => some e
        | .ok ls =>
          if binopMixCheck && ls.countP (fun l => Cond.likeOf l.cls == "key") > 0
              && ls.countP (fun l => Cond.likeOf l.cls == "index") > 0
          then some .typeError else none) := by
  have ha' := isNullAt_push h op a b a ha
  have hb' := isNullAt_push h op a b b hb
  simp only [init, ha', hb', Bool.or_false, Bool.and_false, setIfInBounds_push_self]
  simp only [Bool.false_eq_true, if_false]
  split <;> rename_i hl <;> simp only [hl]
  split <;> rfl

theorem construct_null_right (h : Heap) (fuel : Nat) (op : BinOp) (a b : Nat) (hb : h.isNullAt b = true) :
    construct h fuel op a b = (h, .ok a) := by
  simp only [construct, hb, if_true]
  split
  · rw [init_null _ _ _ _ _ _ (by simp [hb])]
  · rfl

theorem construct_null_left (h : Heap) (fuel : Nat) (op : BinOp) (a b : Nat) (hb : h.isNullAt b = false)
    (ha : h.isNullAt a = true) : construct h fuel op a b = (h, .ok b) := by
  simp only [construct, hb, ha, if_true, Bool.false_eq_true, if_false]
  split
  · rw [init_null _ _ _ _ _ _ (by simp [ha])]
  · rfl

theorem construct_fresh (h : Heap) (fuel : Nat) (op : BinOp) (a b : Nat) (hb : h.isNullAt b = false)
    (ha : h.isNullAt a = false) :
    construct h fuel op a b =
      (h.push (.bin op a b),
        match leavesAt (h.push (.bin op a b)) fuel h.size with
        | .error e => .error e
        | .ok ls =>
          if binopMixCheck && ls.countP (fun l => Cond.likeOf l.cls == "key") > 0
              && ls.countP (fun l => Cond.likeOf l.cls == "index") > 0
          then .error .typeError else .ok h.size) := by
  simp only [construct, hb, ha, Bool.false_eq_true, if_false]
  rw [init_fresh h fuel a b op ha hb]
  cases leavesAt (h.push (.bin op a b)) fuel h.size with
  | error e => rfl
  | ok ls =>
    simp only
    generalize (binopMixCheck && decide (List.countP _ ls > 0) && decide (List.countP _ ls > 0)) = c
    cases c <;> rfl

/-- the heap after a construction: the old one, or the old one with one fresh combination -/
theorem construct_heap (h : Heap) (fuel : Nat) (op : BinOp) (a b : Nat) :
    (construct h fuel op a b).1 = h ∨ (construct h fuel op a b).1 = h.push (.bin op a b) := by
  cases hb : h.isNullAt b with
  | true => left; rw [construct_null_right _ _ _ _ _ hb]
  | false =>
    cases ha : h.isNullAt a with
    | true => left; rw [construct_null_left _ _ _ _ _ hb ha]
    | false => right; rw [construct_fresh _ _ _ _ _ hb ha]

theorem construct_frame (h : Heap) (fuel : Nat) (op : BinOp) (a b : Nat) :
    ∀ i, i < h.size → (construct h fuel op a b).1[i]? = h[i]? := by
  intro i hi
  rcases construct_heap h fuel op a b with hh | hh <;> rw [hh]
  simp [Array.getElem?_push, Nat.ne_of_lt hi]

theorem construct_size_le (h : Heap) (fuel : Nat) (op : BinOp) (a b : Nat) :
    h.size ≤ (construct h fuel op a b).1.size := by
  rcases construct_heap h fuel op a b with hh | hh <;> rw [hh] <;> simp

theorem construct_acyclic (h : Heap) (fuel : Nat) (op : BinOp) (a b : Nat) (hac : h.Acyclic)
    (ha : a < h.size) (hb : b < h.size) : (construct h fuel op a b).1.Acyclic := by
  rcases construct_heap h fuel op a b with hh | hh <;> rw [hh]
  · exact hac
  · exact acyclic_push_bin h op a b hac ha hb

theorem construct_den_stable (h : Heap) (fuel fuel' : Nat) (op : BinOp) (a b : Nat) (hac : h.Acyclic) :
    ∀ i, i < h.size → den (construct h fuel op a b).1 fuel' i = den h fuel' i := by
  intro i hi
  rcases construct_heap h fuel op a b with hh | hh <;> rw [hh]
  exact den_push h _ hac fuel' i hi

theorem construct_result_lt (h : Heap) (fuel : Nat) (op : BinOp) (a b : Nat)
    (ha : a < h.size) (hb : b < h.size) (h' : Heap) (r : Nat)
    (hc : construct h fuel op a b = (h', .ok r)) : r < h'.size := by
  cases hnb : h.isNullAt b with
  | true =>
    rw [construct_null_right _ _ _ _ _ hnb] at hc
    cases hc; exact ha
  | false =>
    cases hna : h.isNullAt a with
    | true =>
      rw [construct_null_left _ _ _ _ _ hnb hna] at hc
      cases hc; exact hb
    | false =>
      rw [construct_fresh _ _ _ _ _ hnb hna] at hc
      have h1 := congrArg Prod.fst hc
      have h2 := congrArg Prod.snd hc
      simp only at h1 h2
      subst h1
      split at h2
      · cases h2
      · split at h2
        · cases h2
        · cases h2; simp

/-- the denotation of a null object is a null tree, of a non-null object a non-null tree -/
theorem den_isNull (h : Heap) (fuel i : Nat) (c : Cond PyVal) (hc : den h fuel i = .ok c) :
    c.isNull = h.isNullAt i := by
  cases fuel with
  | zero => simp [den] at hc
  | succ f =>
    rw [den_succ] at hc
    unfold isNullAt
    split at hc
    · cases hc
    · rename_i l hl
      cases hc; rw [hl]; rfl
    · rename_i op l r hl
      rw [hl]
      split at hc
      · cases hc
      · split at hc
        · cases hc
        · cases hc; rfl

theorem construct_den (h : Heap) (fuel : Nat) (op : BinOp) (a b : Nat) (ca cb : Cond PyVal) (r : Nat)
    (hac : h.Acyclic) (ha : a < h.size) (hb : b < h.size)
    (hfa : den h fuel a = .ok ca) (hfb : den h fuel b = .ok cb)
    (h' : Heap) (hc : construct h (fuel + 1) op a b = (h', .ok r)) :
    ∃ c, Cond.mkBin op ca cb = .ok c ∧ den h' (fuel + 1) r = .ok c := by
  have hna := den_isNull _ _ _ _ hfa
  have hnb := den_isNull _ _ _ _ hfb
  cases hnb' : h.isNullAt b with
  | true =>
    rw [construct_null_right _ _ _ _ _ hnb'] at hc
    cases hc
    refine ⟨ca, ?_, den_mono _ _ _ _ hfa⟩
    simp [Cond.mkBin, hnb, hnb']
  | false =>
    cases hna' : h.isNullAt a with
    | true =>
      rw [construct_null_left _ _ _ _ _ hnb' hna'] at hc
      cases hc
      refine ⟨cb, ?_, den_mono _ _ _ _ hfb⟩
      simp [Cond.mkBin, hnb, hnb', hna, hna']
    | false =>
      rw [construct_fresh _ _ _ _ _ hnb' hna'] at hc
      have h1 := congrArg Prod.fst hc
      have h2 := congrArg Prod.snd hc
      simp only at h1 h2
      subst h1
      have hden : den (h.push (.bin op a b)) (fuel + 1) h.size = .ok (.bin op ca cb) := by
        rw [den_succ]
        simp only [Array.getElem?_push_size]
        rw [den_push h _ hac fuel a ha, den_push h _ hac fuel b hb, hfa, hfb]
      have hmc : binopMixCheck = true := rfl
      simp only [leavesAt, hden, bind, Except.bind, pure, Except.pure, Cond.leaves, hmc, Bool.true_and] at h2
      split at h2
      · cases h2
      · rename_i hmix
        cases h2
        refine ⟨.bin op ca cb, ?_, hden⟩
        simp only [Cond.mkBin, hna, hna', hnb, hnb', Bool.false_eq_true, if_false, hmix]

/-! ### histories -/

theorem history_inv (fuel fuel' : Nat) (ops : List HOp) :
    ∀ (h : Heap) (objs : List (Option Nat)), h.Acyclic →
      (∀ o ∈ objs, ∀ i, o = some i → i < h.size) →
      (runHistory fuel h objs ops).1.Acyclic ∧ h.size ≤ (runHistory fuel h objs ops).1.size ∧
      ∀ i, i < h.size → den (runHistory fuel h objs ops).1 fuel' i = den h fuel' i := by
  induction ops with
  | nil => intro h objs hac _; exact ⟨hac, Nat.le_refl _, fun _ _ => rfl⟩
  | cons o rest ih =>
    intro h objs hac hobjs
    -- one step to `h'`/`objs'`, then the induction hypothesis
    have step : ∀ (h' : Heap) (o' : Option Nat), Heap.Acyclic h' → h.size ≤ h'.size →
        (∀ i, i < h.size → den h' fuel' i = den h fuel' i) → (∀ i, o' = some i → i < h'.size) →
        (runHistory fuel h' (objs ++ [o']) rest).1.Acyclic ∧
          h.size ≤ (runHistory fuel h' (objs ++ [o']) rest).1.size ∧
          ∀ i, i < h.size → den (runHistory fuel h' (objs ++ [o']) rest).1 fuel' i = den h fuel' i := by
      intro h' o' hac' hsz hden ho'
      have hobjs' : ∀ o ∈ objs ++ [o'], ∀ i, o = some i → i < h'.size := by
        intro o ho i hoi
        rcases List.mem_append.mp ho with hm | hm
        · exact Nat.lt_of_lt_of_le (hobjs o hm i hoi) hsz
        · simp at hm; subst hm; exact ho' i hoi
      obtain ⟨r1, r2, r3⟩ := ih h' (objs ++ [o']) hac' hobjs'
      exact ⟨r1, Nat.le_trans hsz r2, fun i hi => by rw [r3 i (Nat.lt_of_lt_of_le hi hsz), hden i hi]⟩
    cases o with
    | leaf l =>
      simp only [runHistory, alloc]
      exact step (h.push (.leaf l)) (some h.size) (acyclic_push_leaf h l hac) (by simp)
        (fun i hi => den_push h _ hac fuel' i hi) (by intro i hi; cases hi; simp)
    | comb op ia ib =>
      simp only [runHistory]
      split
      · rename_i a b hia hib
        have ha : a < h.size := hobjs _ (List.mem_of_getElem? hia) a rfl
        have hb : b < h.size := hobjs _ (List.mem_of_getElem? hib) b rfl
        have hac' := construct_acyclic h fuel op a b hac ha hb
        have hsz := construct_size_le h fuel op a b
        have hden := construct_den_stable h fuel fuel' op a b hac
        split
        · rename_i h' i hc
          rw [hc] at hac' hsz hden
          exact step h' (some i) hac' hsz hden
            (by intro j hj; cases hj; exact construct_result_lt h fuel op a b ha hb h' i hc)
        · rename_i h' e hc
          rw [hc] at hac' hsz hden
          exact step h' none hac' hsz hden (by intro j hj; cases hj)
      · exact step h none hac (Nat.le_refl _) (fun _ _ => rfl) (by intro j hj; cases hj)

end HeapL
end ValidaProofs
