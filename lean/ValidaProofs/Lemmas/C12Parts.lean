/-
  ValidaProofs.Lemmas.C12Parts — helper lemmas for C12: `toPartSpecs` as a `mapM` of a per-part emitter,
  what the emitter can return, `mapM` in `Except` index by index, equality against a bare part,
  rebuilding a path from emitted specs.
-/
import Valida.Spec.Ser
namespace ValidaProofs.C12L
open Valida ValidaGen

/-! ### `mapM` in `Except` -/

theorem mapM_cons_ok {ε α β : Type} (f : α → Except ε β) (x : α) (xs : List α) (bs : List β) :
    (x :: xs).mapM f = .ok bs ↔ ∃ b bs', f x = .ok b ∧ xs.mapM f = .ok bs' ∧ bs = b :: bs' := by
  rw [List.mapM_cons]
  cases hx : f x with
  | error e => simp [bind, Except.bind]
  | ok b =>
    cases hxs : xs.mapM f with
    | error e => simp [bind, Except.bind]
    | ok bs' =>
      simp only [bind, Except.bind, pure, Except.pure, Except.ok.injEq]
      constructor
      · intro h; exact ⟨b, bs', rfl, rfl, h.symm⟩
      · rintro ⟨b', bs'', hb, hbs, rfl⟩; cases hb; cases hbs; rfl

theorem mapM_nil_ok {ε α β : Type} (f : α → Except ε β) (bs : List β) :
    ([] : List α).mapM f = .ok bs ↔ bs = [] := by
  simp [pure, Except.pure, eq_comm]

theorem mapM_ok_length {ε α β : Type} (f : α → Except ε β) :
    ∀ (xs : List α) (bs : List β), xs.mapM f = .ok bs → bs.length = xs.length := by
  intro xs
  induction xs with
  | nil => intro bs h; rw [(mapM_nil_ok f bs).1 h]; rfl
  | cons x xs ih =>
    intro bs h
    obtain ⟨b, bs1, _, hbs, rfl⟩ := (mapM_cons_ok f _ _ _).1 h
    simp [ih _ hbs]

/-- `mapM` relates the elements index by index -/
theorem mapM_ok_getElem? {ε α β : Type} (f : α → Except ε β) :
    ∀ (xs : List α) (bs : List β), xs.mapM f = .ok bs →
      ∀ (i : Nat) (x : α) (b : β), xs[i]? = some x → bs[i]? = some b → f x = .ok b := by
  intro xs
  induction xs with
  | nil => intro bs _ i x b hx; simp at hx
  | cons y ys ih =>
    intro bs h i x b hx hb
    obtain ⟨b0, bs1, hb0, hbs, rfl⟩ := (mapM_cons_ok f _ _ _).1 h
    cases i with
    | zero => simp at hx hb; subst hx hb; exact hb0
    | succ i => simp at hx hb; exact ih bs1 hbs i x b hx hb

theorem mapM_ok_mem {ε α β : Type} (f : α → Except ε β) :
    ∀ (xs : List α) (bs : List β), xs.mapM f = .ok bs → ∀ b ∈ bs, ∃ x ∈ xs, f x = .ok b := by
  intro xs
  induction xs with
  | nil => intro bs h b hb; rw [(mapM_nil_ok f bs).1 h] at hb; simp at hb
  | cons y ys ih =>
    intro bs h b hb
    obtain ⟨b0, bs1, hb0, hbs, rfl⟩ := (mapM_cons_ok f _ _ _).1 h
    rcases List.mem_cons.1 hb with rfl | hb
    · exact ⟨y, by simp, hb0⟩
    · obtain ⟨x, hx, hfx⟩ := ih bs1 hbs b hb
      exact ⟨x, by simp [hx], hfx⟩

/-! ### `toPartSpecs` -/

/-- the check that the plain key / index `v` is rebuilt as a part equal to `part` -/
def checkPrim (part : Part) (v : PyVal) : Except Exc PyVal :=
  match Part.ofPrim v with
  | .ok q => if partEq q part then pure v else throw .runtime
  | .error _ => throw .runtime

theorem checkPrim_ok (part : Part) (v spec : PyVal) (h : checkPrim part v = .ok spec) :
    spec = v ∧ ∃ q, Part.ofPrim v = .ok q ∧ partEq q part = true := by
  unfold checkPrim at h
  split at h
  · next q hq =>
    split at h
    · next hpe => cases h; exact ⟨rfl, q, hq, hpe⟩
    · cases h
  · cases h

/-- what `to_part_specs` emits for one part -/
def emit (part : Part) : Except Exc PyVal :=
  if partEq part (barePart .map) then pure (PyVal.dict [(.str "type", .str "map_value")])
  else if partEq part (barePart .list) then pure (PyVal.dict [(.str "type", .str "list_value")])
  else if partEq part (barePart .molv) then pure (PyVal.dict [(.str "type", .str "map_or_list_value")])
  else match simplifyPart part with
    | some v =>
        match v with
        | .str _ | .float _ | .int _ | .bool _ => checkPrim part v
        | _ => throw .runtime
    | none => throw .runtime

def isDict : PyVal → Bool
  | .dict _ => true
  | _ => false

theorem isDict_iff (v : PyVal) : isDict v = true ↔ ∃ kvs, v = .dict kvs := by
  cases v <;> simp [isDict]

theorem isDict_false_iff (v : PyVal) : isDict v = false ↔ ∀ kvs, v ≠ .dict kvs := by
  cases v <;> simp [isDict]

theorem toPartSpecs_eq (p : Path) :
    toPartSpecs p = (do
      if p.datum != .none || p.multi != .none || p.source.isSome then throw .runtime
      if p.parts.any simplifyRaises then throw .keyError
      let specs ← p.parts.mapM emit
      if !p.concrete && !(specs.any isDict) then throw .runtime
      pure specs) := rfl

theorem toPartSpecs_modifiers (p : Path) (h : p.datum ≠ .none ∨ p.multi ≠ .none ∨ p.source.isSome = true) :
    toPartSpecs p = .error .runtime := by
  have : (p.datum != .none || p.multi != .none || p.source.isSome) = true := by
    rcases h with h | h | h <;> simp [h]
  rw [toPartSpecs_eq]
  simp only [this, if_true]
  rfl

/-- `simplify()` raises `KeyError` (checked after the modifiers, before any part is written) -/
theorem toPartSpecs_keyError (p : Path) (hm : p.datum = .none ∧ p.multi = .none ∧ p.source = none)
    (h : p.parts.any simplifyRaises = true) : toPartSpecs p = .error .keyError := by
  rw [toPartSpecs_eq]
  obtain ⟨h1, h2, h3⟩ := hm
  simp only [h1, h2, h3, h, if_true]
  rfl

theorem toPartSpecs_ok (p : Path) (specs : List PyVal) :
    toPartSpecs p = .ok specs ↔
      (p.datum = .none ∧ p.multi = .none ∧ p.source = none) ∧ p.parts.any simplifyRaises = false ∧
      p.parts.mapM emit = .ok specs ∧ (p.concrete = true ∨ specs.any isDict = true) := by
  rw [toPartSpecs_eq]
  by_cases hm : (p.datum != .none || p.multi != .none || p.source.isSome) = true
  · simp only [hm, if_true]
    constructor
    · intro h; cases h
    · rintro ⟨⟨h1, h2, h3⟩, -⟩; simp [h1, h2, h3] at hm
  · have hm' : p.datum = .none ∧ p.multi = .none ∧ p.source = none := by
      simp only [Bool.or_eq_true, bne_iff_ne, ne_eq, not_or, Decidable.not_not, Bool.not_eq_true,
        Option.isSome_eq_false_iff, Option.isNone_iff_eq_none] at hm
      exact ⟨hm.1.1, hm.1.2, hm.2⟩
    simp only [hm, Bool.false_eq_true, if_false]
    cases hr : p.parts.any simplifyRaises with
    | true =>
      simp only [if_true]
      constructor
      · intro h; cases h
      · rintro ⟨-, h, -⟩; cases h
    | false =>
    simp only [Bool.false_eq_true, if_false]
    cases hs : p.parts.mapM emit with
    | error e => simp [bind, Except.bind]
    | ok specs' =>
      by_cases hc : (!p.concrete && !(specs'.any isDict)) = true
      · simp only [bind, Except.bind, pure, Except.pure, hc, if_true]
        constructor
        · intro h; cases h
        · rintro ⟨-, -, h, h'⟩
          cases h
          rcases h' with h' | h' <;> simp [h'] at hc
      · have hc' : (!p.concrete && !(specs'.any isDict)) = false := Bool.eq_false_iff.2 hc
        simp only [bind, Except.bind, pure, Except.pure, hc', Bool.false_eq_true, if_false, Except.ok.injEq]
        constructor
        · rintro rfl
          refine ⟨hm', trivial, rfl, ?_⟩
          cases hcc : p.concrete <;> simp [hcc] at hc' ⊢
          exact hc'
        · rintro ⟨-, -, h, -⟩; exact h

/-! ### what is emitted; equality against a bare part -/

theorem emit_ok (part : Part) (spec : PyVal) (h : emit part = .ok spec) :
    (∃ q, Part.ofPrim spec = .ok q ∧ partEq q part = true ∧ (∀ kvs, spec ≠ .dict kvs)) ∨
    (spec = .dict [(.str "type", .str "map_value")] ∧ partEq part (barePart .map) = true) ∨
    (spec = .dict [(.str "type", .str "list_value")] ∧ partEq part (barePart .list) = true) ∨
    (spec = .dict [(.str "type", .str "map_or_list_value")] ∧ partEq part (barePart .molv) = true) := by
  unfold emit at h
  split at h
  · next h1 => cases h; exact Or.inr (Or.inl ⟨rfl, h1⟩)
  split at h
  · next h1 => cases h; exact Or.inr (Or.inr (Or.inl ⟨rfl, h1⟩))
  split at h
  · next h1 => cases h; exact Or.inr (Or.inr (Or.inr ⟨rfl, h1⟩))
  split at h
  · next v hv =>
    split at h
    all_goals first
      | (obtain ⟨rfl, q, hq, hpe⟩ := checkPrim_ok _ _ _ h
         exact Or.inl ⟨q, hq, hpe, by intro kvs hk; cases hk⟩)
      | cases h
  · cases h

theorem listEq_nil_right {α : Type} (eqA : α → α → Bool) (xs : List α) (h : listEq eqA xs [] = true) : xs = [] := by
  cases xs with
  | nil => rfl
  | cons x xs => simp [listEq] at h

theorem condEqLit_null_right (c : Cond PyVal) (h : condEqLit c Cond.null = true) : c = Cond.null := by
  cases c with
  | bin op a b => simp [condEqLit, condEqWith, Cond.null] at h
  | leaf l =>
    obtain ⟨cls, fn, args, kwargs⟩ := l
    simp only [condEqLit, condEqWith, Cond.null, Bool.and_eq_true, beq_iff_eq, kwEq, List.length_nil,
      List.length_eq_zero_iff] at h
    obtain ⟨⟨⟨h1, h2⟩, h3⟩, h4, -⟩ := h
    have := listEq_nil_right _ _ h3
    subst h1 h2 this h4
    rfl

theorem condEqLit_null_null : condEqLit Cond.null Cond.null = true := by rfl

theorem optValEq_none_right (l : Option PyVal) (h : optValEq l none = true) : optValEq none l = true := by
  cases l with
  | none => rfl
  | some a => cases a <;> simp [optValEq, PyVal.pyEq, PyVal.atomEq, PyVal.numKey] at h ⊢

theorem partEq_bare_symm (part : Part) (k : PartKind) (h : partEq part (barePart k) = true) :
    partEq (barePart k) part = true := by
  obtain ⟨kind, c, lc, mc, l⟩ := part
  simp only [partEq, barePart, Bool.and_eq_true, beq_iff_eq, Bool.or_eq_true, bne_iff_ne, ne_eq] at h ⊢
  obtain ⟨⟨⟨h1, h2⟩, h3⟩, h4⟩ := h
  subst h1
  have h2' := condEqLit_null_right _ h2
  subst h2'
  refine ⟨⟨⟨rfl, condEqLit_null_null⟩, optValEq_none_right _ h3⟩, ?_⟩
  rcases h4 with h4 | ⟨h4, h5⟩
  · exact Or.inl h4
  · have := condEqLit_null_right _ h4
    have := condEqLit_null_right _ h5
    subst_vars
    exact Or.inr ⟨condEqLit_null_null, condEqLit_null_null⟩

/-! ### reading the emitted specs back -/

/-- one spec read back by `from_part_specs` + `DataPath(...)` -/
def rebuild (fuel : Nat) (spec : PyVal) : Except Exc Part :=
  match spec with
  | .dict kvs => parsePart fuel kvs
  | v => Part.ofPrim v

def toArg (fuel : Nat) (p : PyVal) : Except Exc PartArg :=
  match p with
  | .dict kvs => do pure (PartArg.part (← parsePart fuel kvs))
  | v => pure (PartArg.prim v)

def ofArg (a : PartArg) : Except Exc Part :=
  match a with
  | .prim v => Part.ofPrim v
  | .part p => pure p

def argIsPrim (a : PartArg) : Bool := match a with | .prim _ => true | .part _ => false

theorem fromPartSpecs_eq (fuel : Nat) (specs : List PyVal) :
    fromPartSpecs (fuel + 1) specs = (do let args ← specs.mapM (toArg fuel); Path.mk' args) := by
  rw [fromPartSpecs.eq_2]; rfl

theorem mk'_eq (args : List PartArg) :
    Path.mk' args = (do
      let parts ← args.mapM ofArg
      pure { parts := parts, concrete := args.all argIsPrim, datum := .none, multi := .none, source := none }) := rfl

theorem rebuild_split (fuel : Nat) :
    ∀ (specs : List PyVal) (parts : List Part), specs.mapM (rebuild fuel) = .ok parts →
      ∃ args, specs.mapM (toArg fuel) = .ok args ∧ args.mapM ofArg = .ok parts ∧
        args.all argIsPrim = specs.all (fun s => !isDict s) := by
  intro specs
  induction specs with
  | nil => intro parts h; rw [(mapM_nil_ok _ _).1 h]; exact ⟨[], rfl, rfl, rfl⟩
  | cons s ss ih =>
    intro parts h
    obtain ⟨q, qs, hq, hqs, rfl⟩ := (mapM_cons_ok _ _ _ _).1 h
    obtain ⟨args, h1, h2, h3⟩ := ih qs hqs
    have : ∃ a, toArg fuel s = .ok a ∧ ofArg a = .ok q ∧ argIsPrim a = !isDict s := by
      cases s <;> first
        | exact ⟨_, rfl, hq, rfl⟩
        | (simp only [rebuild] at hq
           exact ⟨.part q, by simp [toArg, hq, bind, Except.bind, pure, Except.pure], rfl, rfl⟩)
    obtain ⟨a, ha1, ha2, ha3⟩ := this
    refine ⟨a :: args, (mapM_cons_ok _ _ _ _).2 ⟨a, args, ha1, h1, rfl⟩,
      (mapM_cons_ok _ _ _ _).2 ⟨q, qs, ha2, h2, rfl⟩, ?_⟩
    simp [List.all_cons, ha3, h3]

theorem fromPartSpecs_of_rebuild (fuel : Nat) (specs : List PyVal) (parts : List Part)
    (h : specs.mapM (rebuild fuel) = .ok parts) :
    fromPartSpecs (fuel + 1) specs =
      .ok { parts := parts, concrete := specs.all (fun s => !isDict s), datum := .none, multi := .none,
            source := none } := by
  obtain ⟨args, h1, h2, h3⟩ := rebuild_split fuel specs parts h
  rw [fromPartSpecs_eq, h1]
  simp only [bind, Except.bind, mk'_eq, h2, h3, pure, Except.pure]

set_option maxRecDepth 4000 in
theorem bare_specs_parse (fuel : Nat) :
    parsePart (fuel + 1) [(.str "type", .str "map_value")] = .ok (barePart .map) ∧
    parsePart (fuel + 1) [(.str "type", .str "list_value")] = .ok (barePart .list) ∧
    parsePart (fuel + 1) [(.str "type", .str "map_or_list_value")] = .ok (barePart .molv) := by
  refine ⟨?_, ?_, ?_⟩ <;> rw [parsePart.eq_2] <;> rfl

/-- an emitted spec is read back as a part equal to the original -/
theorem rebuild_emit (fuel : Nat) (part : Part) (spec : PyVal) (h : emit part = .ok spec) :
    ∃ q, rebuild (fuel + 1) spec = .ok q ∧ partEq q part = true := by
  rcases emit_ok part spec h with ⟨q, hq, hpe, hnd⟩ | ⟨rfl, hb⟩ | ⟨rfl, hb⟩ | ⟨rfl, hb⟩
  · refine ⟨q, ?_, hpe⟩
    cases spec <;> first | exact hq | exact absurd rfl (hnd _)
  · exact ⟨_, (bare_specs_parse fuel).1, partEq_bare_symm _ _ hb⟩
  · exact ⟨_, (bare_specs_parse fuel).2.1, partEq_bare_symm _ _ hb⟩
  · exact ⟨_, (bare_specs_parse fuel).2.2, partEq_bare_symm _ _ hb⟩

theorem rebuild_emit_list (fuel : Nat) :
    ∀ (parts : List Part) (specs : List PyVal), parts.mapM emit = .ok specs →
      ∃ parts', specs.mapM (rebuild (fuel + 1)) = .ok parts' ∧ listEq partEq parts' parts = true := by
  intro parts
  induction parts with
  | nil => intro specs h; rw [(mapM_nil_ok _ _).1 h]; exact ⟨[], rfl, rfl⟩
  | cons p ps ih =>
    intro specs h
    obtain ⟨s, ss, hs, hss, rfl⟩ := (mapM_cons_ok _ _ _ _).1 h
    obtain ⟨qs, h1, h2⟩ := ih ss hss
    obtain ⟨q, hq, hpe⟩ := rebuild_emit fuel p s hs
    exact ⟨q :: qs, (mapM_cons_ok _ _ _ _).2 ⟨q, qs, hq, h1, rfl⟩, by simp [listEq, hpe, h2]⟩

/-! ### plain keys and indices; refused parts -/

theorem scale_ne : PyVal.scale ≠ 0 := Int.ne_of_gt PyVal.scale_pos

theorem pyEq_int (n m : Int) : PyVal.pyEq (.int n) (.int m) = decide (n = m) := by
  have : PyVal.pyEq (.int n) (.int m) = (n * PyVal.scale == m * PyVal.scale) := rfl
  rw [this]
  by_cases h : n = m
  · simp [h]
  · simp [h, Int.mul_eq_mul_right_iff scale_ne]

theorem pyEq_str (s t : String) : PyVal.pyEq (.str s) (.str t) = (s == t) := rfl

theorem emit_str (s : String) :
    emit { kind := .map, cond := eqLeaf .key (.str s), listCond := Cond.null, mapCond := Cond.null, label := none }
      = .ok (.str s) := by
  have h : partEq { kind := .map, cond := eqLeaf .key (.str s), listCond := Cond.null, mapCond := Cond.null, label := none }
     { kind := .map, cond := eqLeaf .key (.str s), listCond := Cond.null, mapCond := Cond.null, label := none } = true := by
    simp [partEq, condEqLit, condEqWith, eqLeaf, listEq, kwEq, lookupStr, optValEq, pyEq_str]
  have h1 : Part.ofPrim (.str s) = .ok { kind := .map, cond := eqLeaf .key (.str s), listCond := Cond.null, mapCond := Cond.null, label := none } := rfl
  have h2 : ∀ k, partEq { kind := .map, cond := eqLeaf .key (.str s), listCond := Cond.null, mapCond := Cond.null, label := none } (barePart k) = false := by
    intro k; cases k <;> rfl
  have h3 : simplifyPart { kind := .map, cond := eqLeaf .key (.str s), listCond := Cond.null, mapCond := Cond.null, label := none } = some (.str s) := rfl
  simp [emit, h2, h3, checkPrim, h1, h, pure, Except.pure]

theorem emit_int (n : Int) :
    emit { kind := .molv, cond := Cond.null, listCond := eqLeaf .index (.int n), mapCond := eqLeaf .key (.int n), label := none }
      = .ok (.int n) := by
  have h : partEq { kind := .molv, cond := Cond.null, listCond := eqLeaf .index (.int n), mapCond := eqLeaf .key (.int n), label := none }
     { kind := .molv, cond := Cond.null, listCond := eqLeaf .index (.int n), mapCond := eqLeaf .key (.int n), label := none } = true := by
    simp [partEq, condEqLit, condEqWith, eqLeaf, listEq, kwEq, lookupStr, optValEq, pyEq_int, Cond.null]
  have h1 : Part.ofPrim (.int n) = .ok { kind := .molv, cond := Cond.null, listCond := eqLeaf .index (.int n), mapCond := eqLeaf .key (.int n), label := none } := rfl
  have h2 : ∀ k, partEq { kind := .molv, cond := Cond.null, listCond := eqLeaf .index (.int n), mapCond := eqLeaf .key (.int n), label := none } (barePart k) = false := by
    intro k; cases k <;> rfl
  have h3 : simplifyPart { kind := .molv, cond := Cond.null, listCond := eqLeaf .index (.int n), mapCond := eqLeaf .key (.int n), label := none } = some (.int n) := rfl
  simp [emit, h2, h3, checkPrim, h1, h, pure, Except.pure]


theorem emit_prims :
    ∀ (prims : List PyVal), (∀ v ∈ prims, (∃ s, v = .str s) ∨ (∃ n, v = .int n)) →
      ∀ parts, (prims.map PartArg.prim).mapM ofArg = .ok parts → parts.mapM emit = .ok prims := by
  intro prims
  induction prims with
  | nil => intro _ parts h; rw [(mapM_nil_ok _ _).1 h]; rfl
  | cons v vs ih =>
    intro hp parts h
    rw [List.map_cons] at h
    obtain ⟨q, qs, hq, hqs, rfl⟩ := (mapM_cons_ok _ _ _ _).1 h
    have ih' := ih (fun w hw => hp w (by simp [hw])) qs hqs
    refine (mapM_cons_ok _ _ _ _).2 ⟨v, vs, ?_, ih', rfl⟩
    rcases hp v (by simp) with ⟨s, rfl⟩ | ⟨n, rfl⟩
    · cases hq; exact emit_str s
    · cases hq; exact emit_int n

/-- parts built from plain keys and indices store `value` by keyword: `simplify()` does not raise -/
theorem noRaise_prims :
    ∀ (prims : List PyVal), (∀ v ∈ prims, (∃ s, v = .str s) ∨ (∃ n, v = .int n)) →
      ∀ parts, (prims.map PartArg.prim).mapM ofArg = .ok parts → parts.any simplifyRaises = false := by
  intro prims
  induction prims with
  | nil => intro _ parts h; rw [(mapM_nil_ok _ _).1 h]; rfl
  | cons v vs ih =>
    intro hp parts h
    rw [List.map_cons] at h
    obtain ⟨q, qs, hq, hqs, rfl⟩ := (mapM_cons_ok _ _ _ _).1 h
    have ih' := ih (fun w hw => hp w (by simp [hw])) qs hqs
    rw [List.any_cons, ih', Bool.or_false]
    rcases hp v (by simp) with ⟨s, rfl⟩ | ⟨n, rfl⟩
    · cases hq; rfl
    · cases hq; rfl

theorem all_prim (prims : List PyVal) : (prims.map PartArg.prim).all argIsPrim = true := by
  simp [argIsPrim]

theorem prims_roundtrip (prims : List PyVal) (p : Path)
    (hprim : ∀ v ∈ prims, (∃ s, v = .str s) ∨ (∃ n, v = .int n))
    (h : Path.mk' (prims.map PartArg.prim) = .ok p) : toPartSpecs p = .ok prims := by
  rw [mk'_eq] at h
  cases hm : (prims.map PartArg.prim).mapM ofArg with
  | error e => simp [hm, bind, Except.bind] at h
  | ok parts =>
    simp only [hm, bind, Except.bind, pure, Except.pure, Except.ok.injEq, all_prim] at h
    subst h
    exact (toPartSpecs_ok _ _).2 ⟨⟨rfl, rfl, rfl⟩, noRaise_prims prims hprim parts hm, emit_prims prims hprim parts hm, Or.inl rfl⟩


/-- a single part that `simplify()` accepts (no `KeyError`) and for which nothing can be emitted -/
theorem toPartSpecs_single_error (p : Part) (c : Bool) (h : emit p = .error .runtime ∧ simplifyRaises p = false) :
    toPartSpecs { parts := [p], concrete := c, datum := .none, multi := .none, source := none } = .error .runtime := by
  rw [toPartSpecs_eq]
  simp [List.mapM_cons, h.1, h.2, bind, Except.bind]

theorem refuse_value (n : Int) (p : Part)
    (h : Part.mkMap .none (.cond (eqLeaf .value (.int n))) none none = .ok p) : emit p = .error .runtime ∧ simplifyRaises p = false := by
  have : Part.mkMap .none (.cond (eqLeaf .value (.int n))) none none =
      .ok { kind := .map, cond := eqLeaf .value (.int n), listCond := Cond.null, mapCond := Cond.null, label := none } := rfl
  rw [this] at h; cases h; exact ⟨rfl, rfl⟩

theorem refuse_gt (s : String) (p : Part)
    (h : Part.mkMap (.cond (.leaf { cls := .key, fn := "greater_than", args := [], kwargs := [("value", .str s)] })) .none none none = .ok p) :
    emit p = .error .runtime ∧ simplifyRaises p = false := by
  have : Part.mkMap (.cond (.leaf { cls := .key, fn := "greater_than", args := [], kwargs := [("value", .str s)] })) .none none none =
      .ok { kind := .map, cond := .leaf { cls := .key, fn := "greater_than", args := [], kwargs := [("value", .str s)] },
            listCond := Cond.null, mapCond := Cond.null, label := none } := rfl
  rw [this] at h; cases h; exact ⟨rfl, rfl⟩

theorem refuse_label (s : String) (p : Part)
    (h : Part.mkMap (.val (.str s)) .none none (some (.str "lbl")) = .ok p) : emit p = .error .runtime ∧ simplifyRaises p = false := by
  have : Part.mkMap (.val (.str s)) .none none (some (.str "lbl")) =
      .ok { kind := .map, cond := eqLeaf .key (.str s), listCond := Cond.null, mapCond := Cond.null, label := some (.str "lbl") } := rfl
  rw [this] at h; cases h
  refine ⟨?_, rfl⟩
  have h2 : ∀ k, partEq { kind := .map, cond := eqLeaf .key (.str s), listCond := Cond.null, mapCond := Cond.null, label := some (.str "lbl") } (barePart k) = false := by
    intro k; cases k <;> rfl
  have h3 : simplifyPart { kind := .map, cond := eqLeaf .key (.str s), listCond := Cond.null, mapCond := Cond.null, label := some (.str "lbl") } = some (.str s) := rfl
  have h1 : Part.ofPrim (.str s) = .ok { kind := .map, cond := eqLeaf .key (.str s), listCond := Cond.null, mapCond := Cond.null, label := none } := rfl
  have h4 : partEq { kind := .map, cond := eqLeaf .key (.str s), listCond := Cond.null, mapCond := Cond.null, label := none }
      { kind := .map, cond := eqLeaf .key (.str s), listCond := Cond.null, mapCond := Cond.null, label := some (.str "lbl") } = false := by
    have : optValEq none (some (.str "lbl")) = false := rfl
    simp [partEq, this]
  simp [emit, h2, h3, checkPrim, h1, h4, throw, throwThe, MonadExceptOf.throw]

theorem refuse_list_index (n : Int) (p : Part)
    (h : Part.mkList (.val (.int n)) .none none none = .ok p) : emit p = .error .runtime ∧ simplifyRaises p = false := by
  have : Part.mkList (.val (.int n)) .none none none =
      .ok { kind := .list, cond := eqLeaf .index (.int n), listCond := Cond.null, mapCond := Cond.null, label := none } := rfl
  rw [this] at h; cases h; exact ⟨rfl, rfl⟩

theorem refuse_key_index (n m : Int) (hnm : n ≠ m) (p : Part)
    (h : Part.mkMolv (.val (.int n)) (.val (.int m)) .none none none none none = .ok p) : emit p = .error .runtime ∧ simplifyRaises p = false := by
  have : Part.mkMolv (.val (.int n)) (.val (.int m)) .none none none none none =
      .ok { kind := .molv, cond := Cond.null, listCond := eqLeaf .index (.int m), mapCond := eqLeaf .key (.int n), label := none } := rfl
  rw [this] at h; cases h
  refine ⟨?_, rfl⟩
  have h2 : ∀ k, partEq { kind := .molv, cond := Cond.null, listCond := eqLeaf .index (.int m), mapCond := eqLeaf .key (.int n), label := none } (barePart k) = false := by
    intro k; cases k <;> rfl
  have h3 : simplifyPart { kind := .molv, cond := Cond.null, listCond := eqLeaf .index (.int m), mapCond := eqLeaf .key (.int n), label := none } = some (.int m) := rfl
  have h1 : Part.ofPrim (.int m) = .ok { kind := .molv, cond := Cond.null, listCond := eqLeaf .index (.int m), mapCond := eqLeaf .key (.int m), label := none } := rfl
  have h4 : partEq { kind := .molv, cond := Cond.null, listCond := eqLeaf .index (.int m), mapCond := eqLeaf .key (.int m), label := none }
      { kind := .molv, cond := Cond.null, listCond := eqLeaf .index (.int m), mapCond := eqLeaf .key (.int n), label := none } = false := by
    simp [partEq, condEqLit, condEqWith, eqLeaf, listEq, kwEq, lookupStr, optValEq, pyEq_int, Cond.null, Ne.symm hnm]
  simp [emit, h2, h3, checkPrim, h1, h4, throw, throwThe, MonadExceptOf.throw]


end ValidaProofs.C12L
