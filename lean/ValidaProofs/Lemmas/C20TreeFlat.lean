/-
  ValidaProofs.Lemmas.C20TreeFlat — from the items dictionary to the flat tree: sorting, parent
  references, re-attachment of the sub-tree root.
-/
import Valida.Tree
import ValidaProofs.Lemmas.C20Tree
import ValidaProofs.Lemmas.C20TreeOrder
import ValidaProofs.Lemmas.C20TreeFold
namespace ValidaProofs.C20H
open Valida ValidaGen ValidaProofs.C20L

/-- a node without its parent reference (what the items dictionary holds) -/
def noParent (it : TItem) : TItem := { it with parent := -1 }

theorem noParent_pathStr (it : TItem) : (noParent it).pathStr = it.pathStr := rfl
theorem noParent_rule (it : TItem) : (noParent it).rule = it.rule := rfl
theorem noParent_path (it : TItem) : (noParent it).path = it.path := rfl
theorem noParent_required (it : TItem) : (noParent it).required = it.required := rfl

theorem assignParents_noParent (sorted : List TItem) : ∀ (refs : List (List String × Int)) (n : Nat) (out : List TItem),
    assignParents sorted refs n = .ok out → out.map noParent = sorted.map noParent := by
  induction sorted with
  | nil =>
    intro refs n out h
    unfold assignParents at h
    cases h
    rfl
  | cons x rest ih =>
    intro refs n out h
    obtain ⟨r, tail, _, ht, rfl⟩ := assignParents_cons_ok x rest refs n out h
    simp only [List.map_cons]
    rw [ih _ _ _ ht]
    rfl

/-- the sorted items -/
def sortedItems (rules : List TRule) (fromStr : List String) : List TItem :=
  (treeItems rules fromStr).mergeSort (fun a b => keyLe a.pathStr b.pathStr)

theorem sortedItems_perm (rules : List TRule) (fromStr : List String) :
    (sortedItems rules fromStr).Perm (treeItems rules fromStr) := List.mergeSort_perm _ _

theorem sortedItems_sorted (rules : List TRule) (fromStr : List String) :
    (sortedItems rules fromStr).Pairwise (fun a b => keyLe a.pathStr b.pathStr = true) :=
  List.pairwise_mergeSort (fun a b c => keyLe_trans a.pathStr b.pathStr c.pathStr)
    (fun a b => keyLe_total a.pathStr b.pathStr) _

theorem bind_pure_except {ε α : Type} (x : Except ε α) : (x >>= fun a => pure a) = x := by
  cases x <;> rfl

theorem toTreeFlat_none (rules : List TRule) (fromStr : List String) :
    toTreeFlat rules fromStr none none = assignParents (sortedItems rules fromStr) [([], -1)] 0 := by
  unfold toTreeFlat
  exact bind_pure_except _

theorem toTreeFlat_some (rules : List TRule) (fromStr : List String) (s d : String) :
    toTreeFlat rules fromStr (some s) (some d) =
      (assignParents (sortedItems rules fromStr) [([], -1)] 0 >>= fun lst =>
        if lst.any (fun i => i.path.isNone) then .error .keyError
        else .ok (lst.map (fun i => { i with pathStr := s :: i.pathStr, path := i.path.map (d :: ·) }))) := by
  unfold toTreeFlat
  rfl

/-- the flat list before re-attachment is, parent references aside, a permutation of the items -/
theorem assigned_perm (rules : List TRule) (fromStr : List String) (lst : List TItem)
    (h : assignParents (sortedItems rules fromStr) [([], -1)] 0 = .ok lst) :
    (lst.map noParent).Perm ((treeItems rules fromStr).map noParent) := by
  rw [assignParents_noParent _ _ _ _ h]
  exact (sortedItems_perm rules fromStr).map _

theorem assigned_mem (rules : List TRule) (fromStr : List String) (lst : List TItem)
    (h : assignParents (sortedItems rules fromStr) [([], -1)] 0 = .ok lst) :
    (∀ it ∈ lst, ∃ it₀ ∈ treeItems rules fromStr, noParent it = noParent it₀) ∧
    (∀ it₀ ∈ treeItems rules fromStr, ∃ it ∈ lst, noParent it = noParent it₀) := by
  have hp := assigned_perm rules fromStr lst h
  constructor
  · intro it hit
    have : noParent it ∈ (treeItems rules fromStr).map noParent :=
      hp.mem_iff.1 (List.mem_map.2 ⟨it, hit, rfl⟩)
    obtain ⟨it0, h0, he⟩ := List.mem_map.1 this
    exact ⟨it0, h0, he.symm⟩
  · intro it0 h0
    have : noParent it0 ∈ lst.map noParent :=
      hp.mem_iff.2 (List.mem_map.2 ⟨it0, h0, rfl⟩)
    obtain ⟨it, hit, he⟩ := List.mem_map.1 this
    exact ⟨it, hit, he⟩

theorem assigned_keys_nodup (rules : List TRule) (fromStr : List String) (lst : List TItem)
    (h : assignParents (sortedItems rules fromStr) [([], -1)] 0 = .ok lst) :
    (lst.map (·.pathStr)).Nodup := by
  have hp := (assigned_perm rules fromStr lst h).map (·.pathStr)
  have e1 : (lst.map noParent).map (·.pathStr) = lst.map (·.pathStr) := by
    rw [List.map_map]; rfl
  have e2 : ((treeItems rules fromStr).map noParent).map (·.pathStr) = (treeItems rules fromStr).map (·.pathStr) := by
    rw [List.map_map]; rfl
  rw [e1, e2] at hp
  exact hp.nodup_iff.2 (treeItems_keys_nodup rules fromStr)

theorem assigned_countP (rules : List TRule) (fromStr : List String) (lst : List TItem)
    (h : assignParents (sortedItems rules fromStr) [([], -1)] 0 = .ok lst)
    (p : TItem → Bool) (hp : ∀ it, p (noParent it) = p it) :
    lst.countP p = (treeItems rules fromStr).countP p := by
  have := (assigned_perm rules fromStr lst h).countP_eq p
  rw [List.countP_map, List.countP_map] at this
  have e : p ∘ noParent = p := funext hp
  rw [e] at this
  exact this

/-- in a list with distinct keys, a property that pins the key holds of exactly one node -/
theorem countP_eq_one (l : List TItem) (p : TItem → Bool) (x : TItem) (hn : (l.map (·.pathStr)).Nodup)
    (hx : x ∈ l) (hpx : p x = true) (hkey : ∀ y ∈ l, p y = true → y.pathStr = x.pathStr) :
    l.countP p = 1 := by
  induction l with
  | nil => cases hx
  | cons a l ih =>
    rw [List.map_cons, List.nodup_cons] at hn
    rcases List.mem_cons.1 hx with rfl | hx'
    · rw [List.countP_cons_of_pos hpx]
      have : l.countP p = 0 := by
        rw [List.countP_eq_zero]
        intro y hy hpy
        apply hn.1
        rw [← hkey y (by simp [hy]) hpy]
        exact List.mem_map.2 ⟨y, hy, rfl⟩
      rw [this]
    · have hpa : ¬ p a = true := by
        intro hpa
        apply hn.1
        rw [hkey a (by simp) hpa]
        exact List.mem_map.2 ⟨x, hx', rfl⟩
      rw [List.countP_cons_of_neg hpa]
      exact ih hn.2 hx' (fun y hy => hkey y (by simp [hy]))

/-- the closure condition `assignParents` needs: the key of every node, minus its last component,
    is empty or the key of a node -/
def KeysClosed (items : List TItem) : Prop :=
  ∀ it ∈ items, it.pathStr.dropLast = [] ∨ ∃ p ∈ items, p.pathStr = it.pathStr.dropLast

theorem assigned_total (rules : List TRule) (fromStr : List String) (hc : KeysClosed (treeItems rules fromStr)) :
    ∃ lst, assignParents (sortedItems rules fromStr) [([], -1)] 0 = .ok lst := by
  apply assignParents_total
  intro i it hi
  have hmem : it ∈ treeItems rules fromStr := (sortedItems_perm rules fromStr).mem_iff.1 (List.mem_of_getElem? hi)
  by_cases h0 : it.pathStr.dropLast = []
  · exact Or.inl ⟨([], -1), by simp, h0.symm⟩
  · rcases hc it hmem with h0' | ⟨p, hp, hpk⟩
    · exact absurd h0' h0
    · right
      have hp' : p ∈ sortedItems rules fromStr := (sortedItems_perm rules fromStr).mem_iff.2 hp
      obtain ⟨j, hj⟩ := List.mem_iff_getElem?.1 hp'
      refine ⟨j, ?_, p, hj, hpk⟩
      cases hps : it.pathStr with
      | nil => rw [hps] at h0; exact absurd rfl h0
      | cons x xs =>
        obtain ⟨k, hk⟩ := dropLast_append_getLast_cons x xs
        exact sorted_prefix_before _ (sortedItems_sorted rules fromStr) i j it p hi hj k []
          (by rw [hpk, hps]; exact hk)

end ValidaProofs.C20H
