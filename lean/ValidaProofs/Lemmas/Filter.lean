/-
  ValidaProofs.Lemmas.Filter — one loop iteration of `Condition._filter`, the loop, the entry points.
-/
import ValidaProofs.Lemmas.CallSafe
import ValidaProofs.Lemmas.DataGuard
import ValidaSpec.Meaning
namespace ValidaProofs
open Valida ValidaGen ValidaGen.Callables
open PyVal (pyEq numKey scale hashable truthy instOf)

/-! ### `mapM` in `Except` -/

theorem mapM_error {α β : Type} {f : α → Except Exc β} {xs : List α} {e : Exc}
    (h : xs.mapM f = .error e) : ∃ x ∈ xs, f x = .error e := by
  induction xs with
  | nil => simp [pure, Except.pure] at h
  | cons x xs ih =>
    rw [List.mapM_cons] at h
    cases hx : f x with
    | error e' =>
      rw [hx] at h
      cases h
      exact ⟨x, by simp, hx⟩
    | ok b =>
      rw [hx] at h
      cases hxs : xs.mapM f with
      | error e' =>
        rw [hxs] at h
        cases h
        obtain ⟨y, hy, hfy⟩ := ih hxs
        exact ⟨y, by simp [hy], hfy⟩
      | ok bs =>
        rw [hxs] at h
        cases h

theorem mapM_ok_length {α β : Type} {f : α → Except Exc β} {xs : List α} {ys : List β}
    (h : xs.mapM f = .ok ys) : ys.length = xs.length := by
  induction xs generalizing ys with
  | nil => simp [pure, Except.pure] at h; subst h; rfl
  | cons x xs ih =>
    rw [List.mapM_cons] at h
    cases hx : f x with
    | error e' => rw [hx] at h; cases h
    | ok b =>
      rw [hx] at h
      cases hxs : xs.mapM f with
      | error e' => rw [hxs] at h; cases h
      | ok bs =>
        rw [hxs] at h
        cases h
        simp [ih hxs]

/-! ### one item -/

theorem RaisesOnly.bind' {S : Exc → Prop} {α β : Type} {r : Except Exc α} {f : α → Except Exc β}
    (hr : RaisesOnly S r) (hf : ∀ a, r = .ok a → RaisesOnly S (f a)) : RaisesOnly S (r >>= f) := by
  intro e h
  cases r with
  | error e' => cases h; exact hr _ rfl
  | ok a => exact hf a rfl e h

theorem applyPre_raises (pre : String) (datum : PyVal) :
    RaisesOnly (fun e => e = .typeError ∨ e = .unmodelled) (applyPre pre datum) := by
  unfold applyPre
  split
  · unfold Py.len
    split <;> first | exact RaisesOnly.ok _ | exact RaisesOnly.error (by simp)
  · split
    · exact RaisesOnly.ok _
    · split
      · exact RaisesOnly.ok _
      · exact RaisesOnly.error (by simp)

theorem resolveAll_raises {S : Exc → Prop} (args : List RArg) (h : ∀ a ∈ args, RaisesOnly S a) :
    RaisesOnly S (resolveAll args) := by
  induction args with
  | nil => exact RaisesOnly.ok _
  | cons a rest ih =>
    unfold resolveAll
    exact RaisesOnly.bind (h a (by simp)) fun _ =>
      RaisesOnly.bind (ih fun b hb => h b (by simp [hb])) fun _ => RaisesOnly.pure _

theorem resolveKw_raises {S : Exc → Prop} (kw : List (String × RArg)) (h : ∀ a ∈ kw, RaisesOnly S a.2) :
    RaisesOnly S (resolveKw kw) := by
  induction kw with
  | nil => exact RaisesOnly.ok _
  | cons a rest ih =>
    obtain ⟨k, a⟩ := a
    unfold resolveKw
    exact RaisesOnly.bind (h (k, a) (by simp)) fun _ =>
      RaisesOnly.bind (ih fun b hb => h b (by simp [hb])) fun _ => RaisesOnly.pure _

theorem resolveAll_lit (args : List PyVal) : resolveAll (args.map .ok) = .ok args := by
  induction args with
  | nil => rfl
  | cons a rest ih => simp [resolveAll, ih, bind, Except.bind, pure, Except.pure]

theorem resolveKw_lit (kw : List (String × PyVal)) :
    resolveKw (kw.map (fun kv => (kv.1, .ok kv.2))) = .ok kw := by
  induction kw with
  | nil => rfl
  | cons a rest ih => simp [resolveKw, ih, bind, Except.bind, pure, Except.pure]

theorem callLeaf_raises (fn : String) (args : List RArg) (kwargs : List (String × RArg)) (p : PyVal)
    (hargs : ∀ a ∈ args, RaisesOnly Caught a) (hkw : ∀ a ∈ kwargs, RaisesOnly Caught a.2) :
    RaisesOnly Caught (callLeaf fn args kwargs p) := by
  unfold callLeaf
  refine RaisesOnly.bind (resolveAll_raises _ hargs) fun a =>
    RaisesOnly.bind (resolveKw_raises _ hkw) fun k =>
      RaisesOnly.bind' (callFn_safe fn p a k).1 fun v hv => ?_
  obtain ⟨b, rfl⟩ := (callFn_safe fn p a k).2 v hv
  exact RaisesOnly.pure _

/-- an uncaught exception of one loop iteration can only be the pseudo-outcome `unmodelled` -/
theorem evalItem_error (pre fn : String) (args : List RArg) (kwargs : List (String × RArg)) (datum : PyVal)
    (hargs : ∀ a ∈ args, RaisesOnly Caught a) (hkw : ∀ a ∈ kwargs, RaisesOnly Caught a.2)
    (e : Exc) (h : evalItem pre fn args kwargs datum = .error e) : e = .unmodelled := by
  unfold evalItem at h
  split at h
  · rename_i e' he'
    split at h
    · cases h
    · cases h
      rcases applyPre_raises pre datum _ he' with rfl | rfl
      · rename_i hc; exact absurd (by decide) hc
      · rfl
  · rename_i p hp
    split at h
    · cases h
    · rename_i e' he'
      split at h
      · cases h
      · cases h
        rcases callLeaf_raises fn args kwargs p hargs hkw _ he' with hc | rfl
        · rename_i hn; exact absurd hc hn
        · rfl

theorem lit_args_raise {S : Exc → Prop} (args : List PyVal) : ∀ a ∈ args.map (Except.ok : PyVal → RArg), RaisesOnly S a := by
  intro a ha
  obtain ⟨v, _, rfl⟩ := List.mem_map.1 ha
  exact RaisesOnly.ok _

theorem lit_kw_raise {S : Exc → Prop} (kw : List (String × PyVal)) :
    ∀ a ∈ kw.map (fun kv => (kv.1, (Except.ok kv.2 : RArg))), RaisesOnly S a.2 := by
  intro a ha
  obtain ⟨v, _, rfl⟩ := List.mem_map.1 ha
  exact RaisesOnly.ok _

theorem evalItem_meaning (pre fn : String) (args : List PyVal) (kwargs : List (String × PyVal)) (datum : PyVal)
    (f : ItemFlags)
    (h : evalItem pre fn (args.map .ok) (kwargs.map (fun kv => (kv.1, .ok kv.2))) datum = .ok f) :
    f.result = (match applyPre pre datum with
                | .ok p => (ValidaSpec.asBool (callFn fn p args kwargs)).getD false
                | .error _ => false) := by
  unfold evalItem at h
  cases hp : applyPre pre datum with
  | error e =>
    rw [hp] at h
    simp only at h
    split at h
    · cases h; rfl
    · cases h
  | ok p =>
    rw [hp] at h
    simp only [callLeaf, resolveAll_lit, resolveKw_lit, bind, Except.bind] at h
    simp only
    cases hc : callFn fn p args kwargs with
    | error e =>
      rw [hc] at h
      simp only at h
      split at h
      · cases h; rfl
      · cases h
    | ok v =>
      obtain ⟨b, rfl⟩ := (callFn_safe fn p args kwargs).2 v hc
      rw [hc] at h
      simp only [pure, Except.pure] at h
      cases h
      cases b <;> rfl

/-! ### the loop and the entry points -/

theorem filterAux_leaf_error (l : Leaf PyVal) (d : DataV) (e : Exc)
    (h : filterAux (Cond.lit (.leaf l)) d false = .error e) : e = .unmodelled := by
  simp only [Cond.lit, Cond.mapArgs, filterAux, bind, Except.bind, pure, Except.pure] at h
  split at h
  · rename_i e' he'
    cases h
    unfold CClass.info at he'
    split at he' <;> cases he'
    rfl
  · rename_i info hinfo
    simp only [Bool.false_and, Bool.false_eq_true, if_false] at h
    split at h
    · rename_i e' he'
      cases h
      obtain ⟨x, _, hx⟩ := mapM_error he'
      exact evalItem_error _ _ _ _ _ (lit_args_raise _) (lit_kw_raise _) _ hx
    · cases h

theorem filterAux_leaf_ok (l : Leaf PyVal) (d : DataV) (fd : FD) (d' : DataV) (p : Option (List PyVal))
    (h : filterAux (Cond.lit (.leaf l)) d false = .ok (fd, d', p)) :
    d' = d ∧ p = none ∧
      (fd.result.length = d.values.length ∨ fd.result.length = d.keys.length) := by
  simp only [Cond.lit, Cond.mapArgs, filterAux, bind, Except.bind, pure, Except.pure] at h
  split at h
  · cases h
  · rename_i info hinfo
    simp only [Bool.false_and, Bool.false_eq_true, if_false] at h
    split at h
    · cases h
    · rename_i flags hflags
      cases h
      refine ⟨rfl, rfl, ?_⟩
      have := mapM_ok_length hflags
      simp only [FD.result, List.length_map, this]
      split <;> simp

theorem filterData_leaf_error (l : Leaf PyVal) (d : DataV) (e : Exc)
    (h : filterData (Cond.lit (.leaf l)) d = .error e) : e = .typeError ∨ e = .unmodelled := by
  unfold filterData at h
  simp only [bind, Except.bind] at h
  split at h
  · rename_i e' he'
    cases h
    simp only [Cond.lit, Cond.mapArgs, kindCheck] at he'
    repeat' split at he'
    all_goals first | (cases he'; simp) | cases he'
  · split at h
    · rename_i e' he'
      cases h
      exact Or.inr (filterAux_leaf_error l d _ he')
    · cases h

theorem ofPy_error (doc : PyVal) (e : Exc) (h : DataV.ofPy doc = .error e) : e = .typeError := by
  cases doc with
  | list xs => rw [DataV.ofPy_list] at h; split at h <;> cases h; rfl
  | dict kvs => rw [DataV.ofPy_dict] at h; split at h <;> cases h; rfl
  | _ => cases h; rfl

theorem filterPy_leaf_error (l : Leaf PyVal) (doc : PyVal) (e : Exc)
    (h : filterPy (Cond.lit (.leaf l)) doc = .error e) : e = .typeError ∨ e = .unmodelled := by
  have tail : RaisesOnly (fun e => e = .typeError ∨ e = .unmodelled)
      (do let d ← DataV.ofPy doc; let fd ← filterData (Cond.lit (.leaf l)) d; pure (fd, d) :
        Except Exc (FD × DataV)) :=
    RaisesOnly.bind (fun e h => Or.inl (ofPy_error _ _ h)) fun d =>
      RaisesOnly.bind (fun e h => filterData_leaf_error l d e h) fun _ => RaisesOnly.pure _
  revert e
  show RaisesOnly (fun e => e = .typeError ∨ e = .unmodelled) _
  simp only [Cond.lit, Cond.mapArgs] at tail
  simp only [filterPy, Cond.lit, Cond.mapArgs]
  repeat' split
  all_goals first
    | exact tail
    | (intro e h; cases h; simp)

end ValidaProofs
