/-
  ValidaProofs.Lemmas.C10Parse — helper lemmas for C10: the body of `parsePart` in named stages (the
  nested parser is a parameter), `popStr` / shorthand-scan facts, `fromPartSpecs` as a `mapM`,
  `parsePathSpec` on a one-key mapping.
-/
import Valida.Spec.Parse
import Valida.Eq
namespace ValidaProofs.C10L
open Valida ValidaGen

/-! ### `parsePart` in stages -/

def kindOf (ty : Option PyVal) : Except Exc PartKind :=
  match ty with
  | none => pure PartKind.molv
  | some t =>
      if !PyVal.hashable t then throw .typeError else
      match t with
      | .str s => match lookupStr s clsLookup with
          | some "MapValue" => pure PartKind.map
          | some "ListValue" => pure PartKind.list
          | some "MapOrListValue" => pure PartKind.molv
          | _ => throw .typeError
      | _ => throw .typeError

def parseOpt (pc : PyVal → Except Exc (Cond Arg)) (v : Option PyVal) : Except Exc (Cond PyVal) :=
  match v with
  | none => pure Cond.null
  | some .none => pure Cond.null
  | some s => do pure (litCond (← pc s))

def valueLong (pc : PyVal → Except Exc (Cond Arg)) (condition : Cond PyVal) (v : Option PyVal) :
    Except Exc (Cond PyVal) :=
  match v with
  | none => pure condition
  | some .none => pure condition
  | some s => do
      let nc := litCond (← pc s)
      if !(nc.isLike "value") then throw .valueError
      Cond.mkBin .and condition nc

def hasPref (pref : String) (kv : PyVal × PyVal) : Bool :=
  match kv.1 with | .str s => pref.toList.isPrefixOf s.toList | _ => false

def shortOf (pref : String) (sp : List (PyVal × PyVal)) : List (PyVal × PyVal) × List (PyVal × PyVal) :=
  sp.partition (hasPref pref)

def foldShort (pc : PyVal → Except Exc (Cond Arg)) (acc : Cond PyVal) (items : List (PyVal × PyVal)) :
    Except Exc (Cond PyVal) :=
  items.foldlM (fun a kv => do
    let nc := litCond (← pc (.dict [kv]))
    Cond.mkBin .and a nc) acc

def longForm (pc : PyVal → Except Exc (Cond Arg)) (name like : String) (sp : List (PyVal × PyVal))
    (acc : Cond PyVal) : Except Exc (Cond PyVal × List (PyVal × PyVal)) := do
  let (v, sp') := popStr name sp
  match v with
  | none => pure (acc, sp')
  | some .none => pure (acc, sp')
  | some s =>
      let nc := litCond (← pc s)
      if !(nc.isLike like) then throw .valueError
      pure (← Cond.mkBin .and acc nc, sp')

def finish (pc : PyVal → Except Exc (Cond Arg)) (kind : PartKind) (condition listCond mapCond : Cond PyVal)
    (spec : List (PyVal × PyVal)) : Except Exc Part :=
  match kind with
  | .map => do
      let (ks, spec) := shortOf "key." spec
      let condition ← foldShort pc condition ks
      let (condition, spec) ← longForm pc "key" "key" spec condition
      let (label, spec) := popStr "label" spec
      if !spec.isEmpty then throw .valueError
      Part.mkMap .none .none (some condition) (normLabel label)
  | .list => do
      let (is_, spec) := shortOf "index." spec
      let condition ← foldShort pc condition is_
      let (condition, spec) ← longForm pc "index" "index" spec condition
      let (label, spec) := popStr "label" spec
      if !spec.isEmpty then throw .valueError
      Part.mkList .none .none (some condition) (normLabel label)
  | .molv => do
      let (is_, spec) := shortOf "index." spec
      let listCond ← foldShort pc listCond is_
      let (ks, spec) := shortOf "key." spec
      let mapCond ← foldShort pc mapCond ks
      let (listCond, spec) ← longForm pc "index" "index" spec listCond
      let (mapCond, spec) ← longForm pc "key" "key" spec mapCond
      let (label, spec) := popStr "label" spec
      if !spec.isEmpty then throw .valueError
      Part.mkMolv .none .none .none (some listCond) (some mapCond) (some condition) (normLabel label)

/-- the body of `ContainerValue.from_spec`, the condition parser being a parameter (same text as the
    model, the local helper functions being the definitions above) -/
def partBody (pc : PyVal → Except Exc (Cond Arg)) (spec0 : List (PyVal × PyVal)) : Except Exc Part := do
  let (ty, spec) := popStr "type" spec0
  let kind ← match ty with
    | none => pure PartKind.molv
    | some t =>
        if !PyVal.hashable t then throw .typeError else
        match t with
        | .str s => match lookupStr s clsLookup with
            | some "MapValue" => pure PartKind.map
            | some "ListValue" => pure PartKind.list
            | some "MapOrListValue" => pure PartKind.molv
            | _ => throw .typeError
        | _ => throw .typeError
  let (c, spec) := popStr "condition" spec
  let condition ← parseOpt pc c
  let (c, spec) := popStr "list_condition" spec
  let listCond ← parseOpt pc c
  let (c, spec) := popStr "map_condition" spec
  let mapCond ← parseOpt pc c
  let (v, spec) := popStr "value" spec
  let condition ← match v with
    | none => pure condition
    | some .none => pure condition
    | some s => do
        let nc := litCond (← pc s)
        if !(nc.isLike "value") then throw .valueError
        Cond.mkBin .and condition nc
  let (vs, spec) := shortOf "value." spec
  let condition ← foldShort pc condition vs
  finish pc kind condition listCond mapCond spec

theorem parsePart_succ (fuel : Nat) (spec0 : List (PyVal × PyVal)) :
    parsePart (fuel + 1) spec0 = partBody (parseCond fuel) spec0 := by
  rw [parsePart.eq_2]
  rfl

/-! ### `popStr`, the stages on specs without the optional entries, long form = shorthand -/

theorem pyEq_str (s t : String) : PyVal.pyEq (.str s) (.str t) = (s == t) := rfl

theorem popStr_miss (key : String) (kvs : List (PyVal × PyVal))
    (h : ∀ kv ∈ kvs, PyVal.pyEq (.str key) kv.1 = false) : popStr key kvs = (none, kvs) := by
  unfold popStr
  have : kvs.find? (fun kv => PyVal.pyEq (.str key) kv.1) = none := by
    rw [List.find?_eq_none]; intro kv hkv; simp [h kv hkv]
  rw [this]

theorem popStr_hit (key : String) (x : PyVal) (rest : List (PyVal × PyVal))
    (h : ∀ kv ∈ rest, PyVal.pyEq (.str key) kv.1 = false) :
    popStr key ((.str key, x) :: rest) = (some x, rest) := by
  unfold popStr
  have h1 : PyVal.pyEq (.str key) (.str key) = true := by simp [pyEq_str]
  have h2 : rest.filter (fun kv' => !PyVal.pyEq (.str key) kv'.1) = rest := by
    rw [List.filter_eq_self]; intro kv hkv; simp [h kv hkv]
  simp [h1, h2]

/-- a `{type: …, …}` spec without `condition`, `list_condition`, `map_condition`, `value`,
    `value.*` entries -/
theorem partBody_plain_map (pc : PyVal → Except Exc (Cond Arg)) (spec0 rest : List (PyVal × PyVal))
    (h1 : popStr "type" spec0 = (some (.str "map_value"), rest))
    (h2 : popStr "condition" rest = (none, rest))
    (h3 : popStr "list_condition" rest = (none, rest)) (h4 : popStr "map_condition" rest = (none, rest))
    (h5 : popStr "value" rest = (none, rest)) (h6 : shortOf "value." rest = ([], rest)) :
    partBody pc spec0 = finish pc .map Cond.null Cond.null Cond.null rest := by
  unfold partBody
  simp only [h1, h2, h3, h4, h5, h6]
  rfl

theorem partBody_plain_list (pc : PyVal → Except Exc (Cond Arg)) (spec0 rest : List (PyVal × PyVal))
    (h1 : popStr "type" spec0 = (some (.str "list_value"), rest))
    (h2 : popStr "condition" rest = (none, rest))
    (h3 : popStr "list_condition" rest = (none, rest)) (h4 : popStr "map_condition" rest = (none, rest))
    (h5 : popStr "value" rest = (none, rest)) (h6 : shortOf "value." rest = ([], rest)) :
    partBody pc spec0 = finish pc .list Cond.null Cond.null Cond.null rest := by
  unfold partBody
  simp only [h1, h2, h3, h4, h5, h6]
  rfl


/-- what both spellings of a key condition build -/
def keyResult (c : Cond Arg) : Except Exc Part :=
  (Cond.mkBin .and Cond.null (litCond c)).bind (fun cond => Part.mkMap .none .none (some cond) none)

theorem finish_map_long (pc : PyVal → Except Exc (Cond Arg)) (lc mc : Cond PyVal) (kvs : List (PyVal × PyVal))
    (c : Cond Arg) (hc : pc (.dict kvs) = .ok c) (hlike : (litCond c).isLike "key" = true) :
    finish pc .map Cond.null lc mc [(.str "key", .dict kvs)] = keyResult c := by
  have q : shortOf "key." [(PyVal.str "key", PyVal.dict kvs)] = ([], [(PyVal.str "key", PyVal.dict kvs)]) := rfl
  have p6 : popStr "key" [(PyVal.str "key", PyVal.dict kvs)] = (some (.dict kvs), []) := rfl
  have p7 : popStr "label" [] = (none, []) := rfl
  simp only [finish, q, foldShort, List.foldlM_nil, longForm, p6, hc, hlike, bind, Except.bind, pure, Except.pure,
    keyResult]
  cases Cond.mkBin BinOp.and Cond.null (litCond c) <;> simp [p7, normLabel]

theorem finish_map_short (pc : PyVal → Except Exc (Cond Arg)) (lc mc : Cond PyVal) (k : String) (v : PyVal)
    (c : Cond Arg) (hk : "key.".toList.isPrefixOf k.toList = true) (hc : pc (.dict [(.str k, v)]) = .ok c) :
    finish pc .map Cond.null lc mc [(.str k, v)] = keyResult c := by
  have q : shortOf "key." [(PyVal.str k, v)] = ([(PyVal.str k, v)], []) := by
    have hk' := hk
    simp at hk'
    simp [shortOf, hasPref, hk', List.partition_eq_filter_filter]
  have p6 : popStr "key" [] = (none, []) := rfl
  have p7 : popStr "label" [] = (none, []) := rfl
  simp only [finish, q, foldShort, List.foldlM_cons, List.foldlM_nil, longForm, p6, hc, bind, Except.bind, pure, Except.pure,
    keyResult]
  cases Cond.mkBin BinOp.and Cond.null (litCond c) <;> simp [p7, normLabel]


/-- a key starting with `key.` is none of the reserved keys and does not start with `value.` -/
theorem key_prefix_facts (k : String) (hk : "key.".toList.isPrefixOf k.toList = true) :
    ("type" == k) = false ∧ ("condition" == k) = false ∧ ("list_condition" == k) = false ∧
    ("map_condition" == k) = false ∧ ("value" == k) = false ∧
    "value.".toList.isPrefixOf k.toList = false := by
  simp only [List.isPrefixOf_iff_prefix] at hk
  obtain ⟨t, ht⟩ := hk
  have hne : ∀ a : String, a.toList.head? ≠ some 'k' → (a == k) = false := by
    intro a ha
    rw [beq_eq_false_iff_ne]
    rintro rfl
    rw [← ht] at ha
    simp at ha
  refine ⟨hne _ (by decide), hne _ (by decide), hne _ (by decide), hne _ (by decide), hne _ (by decide), ?_⟩
  rw [← ht]
  rfl

theorem long_is_short (fuel : Nat) (k : String) (v : PyVal) (c : Cond Arg)
    (hk : "key.".toList.isPrefixOf k.toList = true)
    (hc : parseCond (fuel + 1) (.dict [(.str k, v)]) = .ok c) (hlike : (litCond c).isLike "key" = true) :
    parsePart (fuel + 2) [(.str "type", .str "map_value"), (.str "key", .dict [(.str k, v)])] =
    parsePart (fuel + 2) [(.str "type", .str "map_value"), (.str k, v)] := by
  obtain ⟨f1, f2, f3, f4, f5, f6⟩ := key_prefix_facts k hk
  have one : ∀ a : String, (a == k) = false → ∀ kv ∈ [(PyVal.str k, v)], PyVal.pyEq (.str a) kv.1 = false := by
    intro a ha kv hkv
    simp only [List.mem_singleton] at hkv
    subst hkv
    exact ha
  have f6' : hasPref "value." (PyVal.str k, v) = false := f6
  rw [parsePart_succ, parsePart_succ]
  rw [partBody_plain_map _ _ [(.str "key", .dict [(.str k, v)])] rfl rfl rfl rfl rfl rfl,
    finish_map_long _ _ _ _ c hc hlike]
  rw [partBody_plain_map _ _ [(.str k, v)] (popStr_hit _ _ _ (one _ f1)) (popStr_miss _ _ (one _ f2))
      (popStr_miss _ _ (one _ f3)) (popStr_miss _ _ (one _ f4)) (popStr_miss _ _ (one _ f5))
      (by simp [shortOf, f6', List.partition_eq_filter_filter]),
    finish_map_short _ _ _ k v c hk hc]

/-! ### `key.equal_to` / `index.eq` -/

def indexResult (c : Cond Arg) : Except Exc Part :=
  (Cond.mkBin .and Cond.null (litCond c)).bind (fun cond => Part.mkList .none .none (some cond) none)

theorem finish_list_short (pc : PyVal → Except Exc (Cond Arg)) (lc mc : Cond PyVal) (k : String) (v : PyVal)
    (c : Cond Arg) (hk : "index.".toList.isPrefixOf k.toList = true) (hc : pc (.dict [(.str k, v)]) = .ok c) :
    finish pc .list Cond.null lc mc [(.str k, v)] = indexResult c := by
  have q : shortOf "index." [(PyVal.str k, v)] = ([(PyVal.str k, v)], []) := by
    have hk' : hasPref "index." (PyVal.str k, v) = true := hk
    simp [shortOf, hk', List.partition_eq_filter_filter]
  have p6 : popStr "index" [] = (none, []) := rfl
  have p7 : popStr "label" [] = (none, []) := rfl
  simp only [finish, q, foldShort, List.foldlM_cons, List.foldlM_nil, longForm, p6, hc, bind, Except.bind, pure, Except.pure,
    indexResult]
  cases Cond.mkBin BinOp.and Cond.null (litCond c) <;> simp [p7, normLabel]

set_option maxRecDepth 8000 in
theorem parseCond_key_equal_to (fuel : Nat) (s : String) :
    parseCond (fuel + 2) (.dict [(.str "key.equal_to", .str s)]) =
      .ok (.leaf { cls := .key, fn := "equal_to", args := [], kwargs := [("value", .lit (.str s))] }) := by
  rw [parseCond.eq_2]; rfl

set_option maxRecDepth 8000 in
theorem parseCond_index_eq (fuel : Nat) (n : Int) :
    parseCond (fuel + 2) (.dict [(.str "index.eq", .int n)]) =
      .ok (.leaf { cls := .index, fn := "equal_to", args := [], kwargs := [("value", .lit (.int n))] }) := by
  rw [parseCond.eq_2]; rfl


theorem scale_ne : PyVal.scale ≠ 0 := Int.ne_of_gt PyVal.scale_pos

theorem pyEq_int_self (n : Int) : PyVal.pyEq (.int n) (.int n) = true := by
  have : PyVal.pyEq (.int n) (.int n) = (n * PyVal.scale == n * PyVal.scale) := rfl
  rw [this]; simp

theorem key_equal_is_api (fuel : Nat) (s : String) (n : Int) :
    (∃ p q, parsePart (fuel + 4) [(.str "type", .str "map_value"), (.str "key.equal_to", .str s)] = .ok p ∧
            Part.mkMap (.val (.str s)) .none none none = .ok q ∧ partEq p q = true) ∧
    (∃ p q, parsePart (fuel + 4) [(.str "type", .str "list_value"), (.str "index.eq", .int n)] = .ok p ∧
            Part.mkList (.val (.int n)) .none none none = .ok q ∧ partEq p q = true) := by
  constructor
  · refine ⟨{ kind := .map, cond := eqLeaf .key (.str s), listCond := Cond.null, mapCond := Cond.null, label := none },
      _, ?_, rfl, ?_⟩
    · rw [parsePart_succ, partBody_plain_map _ _ [(.str "key.equal_to", .str s)] rfl rfl rfl rfl rfl rfl,
        finish_map_short _ _ _ _ _ _ (by decide) (parseCond_key_equal_to (fuel + 1) s)]
      rfl
    · simp [partEq, condEqLit, condEqWith, eqLeaf, listEq, kwEq, lookupStr, optValEq, pyEq_str, Cond.null]
  · refine ⟨{ kind := .list, cond := eqLeaf .index (.int n), listCond := Cond.null, mapCond := Cond.null, label := none },
      _, ?_, rfl, ?_⟩
    · rw [parsePart_succ, partBody_plain_list _ _ [(.str "index.eq", .int n)] rfl rfl rfl rfl rfl rfl,
        finish_list_short _ _ _ _ _ _ (by decide) (parseCond_index_eq (fuel + 1) n)]
      rfl
    · simp [partEq, condEqLit, condEqWith, eqLeaf, listEq, kwEq, lookupStr, optValEq, pyEq_int_self, Cond.null]

end ValidaProofs.C10L
