/-
  ValidaProofs.Lemmas.C17Lemmas — helper lemmas for C17 (data-path arguments): `mapArgs` fusion,
  closed string facts about the escape code, and fixed-depth unfoldings of the spec parsers on the
  keys `\path` / `path` / `value.equal_to`.
-/
import Valida.Rule
import Valida.Spec.Parse
namespace ValidaProofs.C17L
open Valida ValidaGen

/-! ### `Cond.mapArgs` -/

theorem mapArgs_mapArgs {α β γ : Type} (f : α → β) (g : β → γ) (c : Cond α) :
    (c.mapArgs f).mapArgs g = c.mapArgs (fun a => g (f a)) := by
  induction c with
  | leaf l => simp [Cond.mapArgs, List.map_map, Function.comp_def]
  | bin op a b iha ihb => simp [Cond.mapArgs, iha, ihb]

theorem mapArgs_congr {α β : Type} (f g : α → β) (h : ∀ a, f a = g a) (c : Cond α) :
    c.mapArgs f = c.mapArgs g := by
  have : f = g := funext h
  rw [this]

/-! ### closed string facts -/

theorem unescape_path : unescapeKey "\\path" = "path" := by decide +kernel
theorem esc_in_esc : containsSub "\\path" "\\path" = true := by decide +kernel
theorem esc_not_in_path : containsSub "\\path" "path" = false := by decide +kernel
theorem toks_value_equal_to : (splitDot "value.equal_to").mapM pyLower = .ok ["value", "equal_to"] := by rfl
theorem toks_path : (splitDot "path").mapM pyLower = .ok ["path"] := by rfl

/-! ### the parsers on the escaped / un-escaped key -/

/-- a mapping whose only key is the escaped `\path` is the literal mapping with key `path` -/
theorem pathSpec_escaped (fuel : Nat) (v : PyVal) :
    parsePathSpec (fuel + 1) (.dict [(.str "\\path", v)]) = .ok (.val (.dict [(.str "path", v)])) := by
  rw [parsePathSpec.eq_def]
  simp [escScan, esc_in_esc, unescape_path, dictOfPairs, bind, Except.bind, pure, Except.pure]

theorem sniff_escaped (fuel : Nat) (v : PyVal) :
    sniffArg (fuel + 2) (.dict [(.str "\\path", v)]) = .ok (.val (.dict [(.str "path", v)])) := by
  rw [sniffArg.eq_2, pathSpec_escaped]

/-- `{"path": [s]}` is the data path built from the part specs `[s]` -/
theorem pathSpec_path (fuel : Nat) (s : String) (p : Path) (hp : fromPartSpecs fuel [.str s] = .ok p) :
    parsePathSpec (fuel + 1) (.dict [(.str "path", .list [.str s])]) = .ok (.path p) := by
  rw [parsePathSpec.eq_def]
  simp [escScan, esc_not_in_path, toks_path, Py.iter, hp, bind, Except.bind, pure, Except.pure]

theorem sniff_path (fuel : Nat) (s : String) (p : Path) (hp : fromPartSpecs fuel [.str s] = .ok p) :
    sniffArg (fuel + 2) (.dict [(.str "path", .list [.str s])]) = .ok (.path p) := by
  rw [sniffArg.eq_2, pathSpec_path _ _ _ hp]

/-- one unfolding of `parseCond` on a two-token key `datum.callable` naming a one-parameter
    constructor, for whatever the data-path sniffing makes of the argument -/
theorem parse_single_sn (fuel : Nat) (key : String) (v : PyVal) (sn : Sniffed) (t0 last clsName : String)
    (cls : CClass) (info : CondClassInfo) (ctor : Ctor)
    (hop : lookupStr key binaryOps = none)
    (htoks : (splitDot key).mapM pyLower = .ok [t0, last])
    (hdt : lookupStr t0 conditionDatumTypes = some clsName)
    (hpp : preProcLookup.any (fun p => p.1 == last) = false)
    (hbase : CClass.all.find? (fun c => c.name == clsName) = some cls)
    (hcall : lookupStr last callableLookup = none)
    (hinst : (last == "is_instance" || last == "keys_is_instance") = false)
    (hinfo : cls.info = .ok info)
    (hflag : callableFromCtorTables = true)
    (hctor : (ctorsOf info).find? (fun c => c.name.toList.map Char.toLower == last.toList) = some ctor)
    (hp : ctor.params.length = 1) (hvp : ctor.varPos = none) (hvk : ctor.varKw = none)
    (hsn : sniffArg fuel v = .ok sn) :
    parseCond (fuel + 1) (.dict [(.str key, v)]) =
      (buildLeaf Arg.lit cls ctor [sn.toArg] []).map Cond.leaf := by
  have hne : ctor.params ≠ [] := by intro h; simp [h] at hp
  rw [parseCond.eq_2]
  simp [hop, htoks, hdt, hpp, hbase, hcall, hinst, hinfo, hflag, hctor, hp, hvp, hvk, hsn, hne, PyVal.truthy,
    bind, Except.bind, pure, Except.pure, Ctor.kinds]
  cases buildLeaf Arg.lit cls ctor [sn.toArg] [] <;> rfl

/-- `{"value.equal_to": arg}` is `Value.equal_to(<sniffed arg>)` -/
theorem parse_value_equal_to (fuel : Nat) (v : PyVal) (sn : Sniffed) (hsn : sniffArg fuel v = .ok sn) :
    parseCond (fuel + 1) (.dict [(.str "value.equal_to", v)]) =
      .ok (.leaf { cls := .value, fn := "equal_to", args := [], kwargs := [("value", sn.toArg)] }) := by
  rw [parse_single_sn fuel "value.equal_to" v sn "value" "equal_to" "Value" .value _ _ (by decide +kernel)
    toks_value_equal_to (by decide +kernel) (by decide +kernel) (by decide +kernel) (by decide +kernel)
    (by decide +kernel) rfl (by decide) rfl rfl rfl rfl hsn]
  rfl

end ValidaProofs.C17L
