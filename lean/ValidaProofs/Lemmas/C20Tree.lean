/-
  ValidaProofs.Lemmas.C20Tree — helper lemmas for C20 (tree part): `Items.upsert`, `treeStep` as a
  sequence of upserts, `assignParents`.
-/
import Valida.Tree
namespace ValidaProofs.C20L
open Valida ValidaGen

/-! ### `upsert` -/

/-- one `upsert` call -/
structure Op where
  k : List String
  init : TItem
  f : TItem → TItem

def applyOps (ops : List Op) (items : Items) : Items :=
  ops.foldl (fun acc o => acc.upsert o.k o.init o.f) items

theorem applyOps_nil (items : Items) : applyOps [] items = items := rfl
theorem applyOps_cons (o : Op) (ops : List Op) (items : Items) :
    applyOps (o :: ops) items = applyOps ops (items.upsert o.k o.init o.f) := rfl
theorem applyOps_append (a b : List Op) (items : Items) :
    applyOps (a ++ b) items = applyOps b (applyOps a items) := by
  simp [applyOps, List.foldl_append]

/-- an op is well-formed: the update keeps the key, the fresh node has the key -/
def Op.WF (o : Op) : Prop := (∀ i, (o.f i).pathStr = i.pathStr) ∧ o.init.pathStr = o.k

theorem any_key_iff (items : Items) (k : List String) :
    items.any (fun i => i.pathStr == k) = true ↔ k ∈ items.map (·.pathStr) := by
  simp only [List.any_eq_true, beq_iff_eq, List.mem_map]

/-- forward: every old node survives, related to its new version by any reflexive relation the
    update respects on nodes with the key -/
theorem upsert_fwd (R : TItem → TItem → Prop) (hrefl : ∀ i, R i i) (items : Items) (k : List String)
    (init : TItem) (f : TItem → TItem) (hf : ∀ i, i.pathStr = k → R i (f i)) :
    ∀ it ∈ items, ∃ it' ∈ items.upsert k init f, R it it' := by
  intro it hit
  unfold Items.upsert
  split
  · by_cases hk : it.pathStr = k
    · exact ⟨f it, List.mem_map.2 ⟨it, hit, by simp [hk]⟩, hf it hk⟩
    · exact ⟨it, List.mem_map.2 ⟨it, hit, by simp [hk]⟩, hrefl it⟩
  · exact ⟨it, List.mem_append_left _ hit, hrefl it⟩

/-- backward: every new node is an old node (possibly updated) or the updated fresh node -/
theorem upsert_bwd (items : Items) (k : List String) (init : TItem) (f : TItem → TItem) :
    ∀ it' ∈ items.upsert k init f, (∃ it ∈ items, it' = it ∨ (it.pathStr = k ∧ it' = f it)) ∨ it' = f init := by
  intro it' hit'
  unfold Items.upsert at hit'
  split at hit'
  · obtain ⟨it, hit, h⟩ := List.mem_map.1 hit'
    left
    refine ⟨it, hit, ?_⟩
    split at h
    · rename_i hk; right; exact ⟨by simpa using hk, h.symm⟩
    · left; exact h.symm
  · rcases List.mem_append.1 hit' with h | h
    · left; exact ⟨it', h, Or.inl rfl⟩
    · right; simpa using h

/-- after the upsert there is a node with the key, which is `f` of a node with the key -/
theorem upsert_has (items : Items) (k : List String) (init : TItem) (f : TItem → TItem) (hinit : init.pathStr = k) :
    ∃ it' ∈ items.upsert k init f, ∃ i, i.pathStr = k ∧ it' = f i := by
  unfold Items.upsert
  split
  · rename_i h
    obtain ⟨x, hx, hk⟩ := List.any_eq_true.1 h
    have hk' : x.pathStr = k := by simpa using hk
    exact ⟨f x, List.mem_map.2 ⟨x, hx, by simp [hk']⟩, x, hk', rfl⟩
  · exact ⟨f init, by simp, init, hinit, rfl⟩

theorem upsert_keys (items : Items) (o : Op) (h : o.WF) :
    (items.upsert o.k o.init o.f).map (·.pathStr) =
      if o.k ∈ items.map (·.pathStr) then items.map (·.pathStr) else items.map (·.pathStr) ++ [o.k] := by
  unfold Items.upsert
  by_cases hk : items.any (fun i => i.pathStr == o.k) = true
  · rw [if_pos hk, if_pos ((any_key_iff _ _).1 hk), List.map_map]
    apply List.map_congr_left
    intro a _
    simp only [Function.comp]
    split
    · exact h.1 a
    · rfl
  · rw [if_neg hk, if_neg (fun h' => hk ((any_key_iff _ _).2 h'))]
    simp [h.1, h.2]

theorem upsert_keys_nodup (items : Items) (o : Op) (h : o.WF) (hn : (items.map (·.pathStr)).Nodup) :
    ((items.upsert o.k o.init o.f).map (·.pathStr)).Nodup := by
  rw [upsert_keys items o h]
  split
  · exact hn
  · rename_i hk
    rw [List.nodup_append]
    refine ⟨hn, by simp, ?_⟩
    intro a ha b hb
    simp only [List.mem_singleton] at hb
    subst hb
    intro hab; subst hab; exact hk ha

/-! ### sequences of upserts -/

theorem applyOps_fwd (R : TItem → TItem → Prop) (hrefl : ∀ i, R i i) (htrans : ∀ a b c, R a b → R b c → R a c)
    (ops : List Op) (hops : ∀ o ∈ ops, ∀ i, i.pathStr = o.k → R i (o.f i)) :
    ∀ (items : Items), ∀ it ∈ items, ∃ it' ∈ applyOps ops items, R it it' := by
  induction ops with
  | nil => intro items it hit; exact ⟨it, hit, hrefl it⟩
  | cons o ops ih =>
    intro items it hit
    rw [applyOps_cons]
    obtain ⟨it1, h1, r1⟩ := upsert_fwd R hrefl items o.k o.init o.f (hops o (by simp)) it hit
    obtain ⟨it2, h2, r2⟩ := ih (fun o' ho' => hops o' (by simp [ho'])) _ it1 h1
    exact ⟨it2, h2, htrans _ _ _ r1 r2⟩

theorem applyOps_keys_nodup (ops : List Op) (hops : ∀ o ∈ ops, o.WF) :
    ∀ (items : Items), (items.map (·.pathStr)).Nodup → ((applyOps ops items).map (·.pathStr)).Nodup := by
  induction ops with
  | nil => intro items h; exact h
  | cons o ops ih =>
    intro items h
    rw [applyOps_cons]
    exact ih (fun o' ho' => hops o' (by simp [ho'])) _ (upsert_keys_nodup items o (hops o (by simp)) h)

/-- backward, for a property of new nodes `N` and a relation `B old new` -/
theorem applyOps_bwd (B : TItem → TItem → Prop) (N : TItem → Prop) (hrefl : ∀ i, B i i)
    (htrans : ∀ a b c, B a b → B b c → B a c)
    (ops : List Op) (hB : ∀ o ∈ ops, ∀ i, B i (o.f i)) (hN : ∀ o ∈ ops, N (o.f o.init))
    (hNB : ∀ a b, N a → B a b → N b) :
    ∀ (items : Items), ∀ it' ∈ applyOps ops items, (∃ it ∈ items, B it it') ∨ N it' := by
  induction ops with
  | nil => intro items it' h; exact Or.inl ⟨it', h, hrefl _⟩
  | cons o ops ih =>
    intro items it' h
    rw [applyOps_cons] at h
    rcases ih (fun o' ho' => hB o' (by simp [ho'])) (fun o' ho' => hN o' (by simp [ho'])) _ it' h with
      ⟨it1, h1, b1⟩ | hn
    · rcases upsert_bwd items o.k o.init o.f it1 h1 with ⟨it0, h0, h01⟩ | hnew
      · left
        refine ⟨it0, h0, ?_⟩
        rcases h01 with rfl | ⟨_, rfl⟩
        · exact b1
        · exact htrans _ _ _ (hB o (by simp) it0) b1
      · right
        subst hnew
        exact hNB _ _ (hN o (by simp)) b1
    · exact Or.inr hn

/-! ### `treeStep` as a sequence of upserts -/

def opRule (pathStr pathSimple : List String) (idx : Nat) : Op :=
  ⟨pathStr, { pathStr := pathStr }, fun i => { i with rule := some idx, path := some pathSimple }⟩
def fReq (l : TLeaf) (i : TItem) : TItem :=
  let before := if treeRequiredSticky then i.required.getD false else false
  { i with required := some (before || l.fn == "required_keys") }
def opReq (pathStr pathSimple : List String) (l : TLeaf) (kd : String × String) : Op :=
  ⟨pathStr ++ [kd.1], { pathStr := pathStr ++ [kd.1], path := some (pathSimple ++ [kd.2]) }, fReq l⟩
def opKeyT (pathStr : List String) : Op := ⟨pathStr, { pathStr := pathStr }, fun i => { i with keyType := true }⟩
def opValT (pathStr : List String) : Op := ⟨pathStr, { pathStr := pathStr }, fun i => { i with typ := "conds" }⟩
def fPar (parImp : String) (i : TItem) : TItem :=
  if i.typ == "" then
    match impTypeLookup parImp with
    | some t => { i with typ := t }
    | none => if treeImplicitTypeGuard then i else { i with typ := "KeyError" }
  else i
def opPar (parentStr : List String) (parImp : String) : Op := ⟨parentStr, { pathStr := parentStr }, fPar parImp⟩
def opLV (parentStr : List String) : Op := ⟨parentStr, { pathStr := parentStr }, fun i => { i with listValueType := true }⟩
def opMV (parentStr : List String) : Op := ⟨parentStr, { pathStr := parentStr }, fun i => { i with mapValueType := true }⟩
def opTIP (pathStr : List String) : Op := ⟨pathStr, { pathStr := pathStr }, fun i => { i with typeInfoInParent := true }⟩

def keysOps (pathStr pathSimple : List String) (keyConds : List TLeaf) : List Op :=
  keyConds.flatMap (fun l => (l.keyStrs.zip l.keyDisp).map (opReq pathStr pathSimple l))

def keyCondsOf (r : TRule) : List TLeaf :=
  if r.cond.alwaysApplicable then
    r.cond.leaves.filter (fun l => l.fn == "allowed_keys" || l.fn == "required_keys") else []
def leavesOf (r : TRule) : List TLeaf := if r.cond.alwaysApplicable then r.cond.leaves else []

def parentStrOf (r : TRule) (pathStr : List String) : List String :=
  if r.implTypes.length == 1 then [] else pathStr.dropLast

def tailOps (r : TRule) (pathStr : List String) (sel : Bool) : List Op :=
  match r.implTypes.getLast? with
  | none => []
  | some parImp =>
    [opPar (parentStrOf r pathStr) parImp] ++
    (if sel && r.lastBare == "list" then [opLV (parentStrOf r pathStr), opTIP pathStr] else []) ++
    (if sel && r.lastBare == "map" then [opMV (parentStrOf r pathStr), opTIP pathStr] else [])

def stepOps (r : TRule) (idx : Nat) (k : Nat) (sel : Bool) : List Op :=
  [opRule (r.partStrs.drop k) (r.simpleDisp.drop k) idx] ++
  keysOps (r.partStrs.drop k) (r.simpleDisp.drop k) (keyCondsOf r) ++
  (if (leavesOf r).any TLeaf.isKeyType then [opKeyT (r.partStrs.drop k)] else []) ++
  (if (leavesOf r).any TLeaf.isValueType then [opValT (r.partStrs.drop k)] else []) ++
  tailOps r (r.partStrs.drop k) sel

theorem keysFold_eq (pathStr pathSimple : List String) (keyConds : List TLeaf) : ∀ (items : Items),
    keyConds.foldl (fun (acc : Items) l =>
      (l.keyStrs.zip l.keyDisp).foldl (fun (acc : Items) kd =>
        let pi := pathStr ++ [kd.1]
        acc.upsert pi { pathStr := pi, path := some (pathSimple ++ [kd.2]) }
          (fun i =>
            let before := if treeRequiredSticky then i.required.getD false else false
            { i with required := some (before || l.fn == "required_keys") })) acc) items
    = applyOps (keysOps pathStr pathSimple keyConds) items := by
  induction keyConds with
  | nil => intro items; rfl
  | cons l ls ih =>
    intro items
    rw [List.foldl_cons, ih]
    simp only [keysOps, List.flatMap_cons, applyOps_append]
    congr 1
    simp only [applyOps, List.foldl_map]
    rfl

theorem applyOps_ite (c : Prop) [Decidable c] (a b : List Op) (items : Items) :
    applyOps (if c then a else b) items = if c then applyOps a items else applyOps b items := by
  split <;> rfl

/-- the last part of `treeStep` (the implicitly typed parent), as a function of the items so far -/
def stTail (r : TRule) (pathStr : List String) (items : Items) : Items :=
  match r.implTypes.getLast? with
  | none => items
  | some parImp =>
      let parentStr := if r.implTypes.length == 1 then [] else pathStr.dropLast
      let items := items.upsert parentStr { pathStr := parentStr } (fun i =>
        if i.typ == "" then
          match impTypeLookup parImp with
          | some t => { i with typ := t }
          | none => if treeImplicitTypeGuard then i else { i with typ := "KeyError" }
        else i)
      let selfHasType := match items.find pathStr with | some i => i.typ != "" | none => false
      let items := if selfHasType && r.lastBare == "list" then
          (items.upsert parentStr { pathStr := parentStr } (fun i => { i with listValueType := true })).upsert pathStr
            { pathStr := pathStr } (fun i => { i with typeInfoInParent := true })
        else items
      let items := if selfHasType && r.lastBare == "map" then
          (items.upsert parentStr { pathStr := parentStr } (fun i => { i with mapValueType := true })).upsert pathStr
            { pathStr := pathStr } (fun i => { i with typeInfoInParent := true })
        else items
      items

theorem stTail_ops (r : TRule) (pathStr : List String) (items : Items) :
    ∃ sel, stTail r pathStr items = applyOps (tailOps r pathStr sel) items := by
  unfold stTail tailOps
  cases r.implTypes.getLast? with
  | none => exact ⟨false, rfl⟩
  | some parImp =>
    dsimp only
    refine ⟨match (items.upsert (parentStrOf r pathStr) { pathStr := parentStrOf r pathStr } (fPar parImp)).find pathStr with
      | some i => i.typ != "" | none => false, ?_⟩
    simp only [applyOps_append, applyOps_ite, applyOps_cons, applyOps_nil]
    rfl

/-- the first part of `treeStep` -/
def midOps (r : TRule) (idx : Nat) (k : Nat) : List Op :=
  [opRule (r.partStrs.drop k) (r.simpleDisp.drop k) idx] ++
  keysOps (r.partStrs.drop k) (r.simpleDisp.drop k) (keyCondsOf r) ++
  (if (leavesOf r).any TLeaf.isKeyType then [opKeyT (r.partStrs.drop k)] else []) ++
  (if (leavesOf r).any TLeaf.isValueType then [opValT (r.partStrs.drop k)] else [])

theorem stepOps_eq (r : TRule) (idx k : Nat) (sel : Bool) :
    stepOps r idx k sel = midOps r idx k ++ tailOps r (r.partStrs.drop k) sel := rfl

theorem treeStep_eq (fromStr : List String) (items : Items) (idx : Nat) (r : TRule) :
    treeStep fromStr items idx r =
      if r.partStrs.take fromStr.length != fromStr then items
      else stTail r (r.partStrs.drop fromStr.length) (applyOps (midOps r idx fromStr.length) items) := by
  unfold treeStep
  dsimp only
  split
  · rfl
  · rw [keysFold_eq]
    simp only [midOps, applyOps_append, applyOps_ite, applyOps_cons, applyOps_nil]
    rfl

theorem treeStep_ops (fromStr : List String) (items : Items) (idx : Nat) (r : TRule) :
    ∃ sel, treeStep fromStr items idx r =
      if r.partStrs.take fromStr.length != fromStr then items
      else applyOps (stepOps r idx fromStr.length sel) items := by
  obtain ⟨sel, h⟩ := stTail_ops r (r.partStrs.drop fromStr.length) (applyOps (midOps r idx fromStr.length) items)
  exact ⟨sel, by rw [treeStep_eq, h, stepOps_eq, applyOps_append]⟩


/-- the ops after the first one -/
def restOps (r : TRule) (k : Nat) (sel : Bool) : List Op :=
  keysOps (r.partStrs.drop k) (r.simpleDisp.drop k) (keyCondsOf r) ++
  (if (leavesOf r).any TLeaf.isKeyType then [opKeyT (r.partStrs.drop k)] else []) ++
  (if (leavesOf r).any TLeaf.isValueType then [opValT (r.partStrs.drop k)] else []) ++
  tailOps r (r.partStrs.drop k) sel

theorem stepOps_cons (r : TRule) (idx k : Nat) (sel : Bool) :
    stepOps r idx k sel = opRule (r.partStrs.drop k) (r.simpleDisp.drop k) idx :: restOps r k sel := by
  simp [stepOps, restOps]

theorem forall_restOps (Q : Op → Prop) (r : TRule) (k : Nat) (sel : Bool)
    (h2 : ∀ l ∈ keyCondsOf r, ∀ kd ∈ l.keyStrs.zip l.keyDisp, Q (opReq (r.partStrs.drop k) (r.simpleDisp.drop k) l kd))
    (h3 : Q (opKeyT (r.partStrs.drop k))) (h4 : Q (opValT (r.partStrs.drop k)))
    (h5 : ∀ p, Q (opPar (parentStrOf r (r.partStrs.drop k)) p))
    (h6 : Q (opLV (parentStrOf r (r.partStrs.drop k)))) (h7 : Q (opMV (parentStrOf r (r.partStrs.drop k))))
    (h8 : Q (opTIP (r.partStrs.drop k))) :
    ∀ o ∈ restOps r k sel, Q o := by
  intro o ho
  simp only [restOps, List.mem_append, keysOps, List.mem_flatMap, List.mem_map] at ho
  rcases ho with ((⟨l, hl, kd, hkd, rfl⟩ | ho) | ho) | ho
  · exact h2 l hl kd hkd
  · split at ho
    · simp at ho; subst ho; exact h3
    · simp at ho
  · split at ho
    · simp at ho; subst ho; exact h4
    · simp at ho
  · unfold tailOps at ho
    split at ho
    · simp at ho
    · simp only [List.mem_append, List.mem_singleton] at ho
      rcases ho with (ho | ho) | ho
      · subst ho; exact h5 _
      · split at ho
        · simp at ho; rcases ho with rfl | rfl; exact h6; exact h8
        · simp at ho
      · split at ho
        · simp at ho; rcases ho with rfl | rfl; exact h7; exact h8
        · simp at ho

theorem forall_stepOps (Q : Op → Prop) (r : TRule) (idx k : Nat) (sel : Bool)
    (h1 : Q (opRule (r.partStrs.drop k) (r.simpleDisp.drop k) idx))
    (h2 : ∀ l ∈ keyCondsOf r, ∀ kd ∈ l.keyStrs.zip l.keyDisp, Q (opReq (r.partStrs.drop k) (r.simpleDisp.drop k) l kd))
    (h3 : Q (opKeyT (r.partStrs.drop k))) (h4 : Q (opValT (r.partStrs.drop k)))
    (h5 : ∀ p, Q (opPar (parentStrOf r (r.partStrs.drop k)) p))
    (h6 : Q (opLV (parentStrOf r (r.partStrs.drop k)))) (h7 : Q (opMV (parentStrOf r (r.partStrs.drop k))))
    (h8 : Q (opTIP (r.partStrs.drop k))) :
    ∀ o ∈ stepOps r idx k sel, Q o := by
  intro o ho
  rw [stepOps_cons, List.mem_cons] at ho
  rcases ho with rfl | ho
  · exact h1
  · exact forall_restOps Q r k sel h2 h3 h4 h5 h6 h7 h8 o ho

/-- what `fPar` can change: only `typ` -/
theorem fPar_eq (p : String) (i : TItem) : ∃ t, fPar p i = { i with typ := t } := by
  unfold fPar
  split
  · split
    · exact ⟨_, rfl⟩
    · split
      · exact ⟨i.typ, rfl⟩
      · exact ⟨_, rfl⟩
  · exact ⟨i.typ, rfl⟩

theorem fPar_pathStr (p : String) (i : TItem) : (fPar p i).pathStr = i.pathStr := by
  obtain ⟨t, h⟩ := fPar_eq p i; rw [h]
theorem fPar_rule (p : String) (i : TItem) : (fPar p i).rule = i.rule := by
  obtain ⟨t, h⟩ := fPar_eq p i; rw [h]
theorem fPar_required (p : String) (i : TItem) : (fPar p i).required = i.required := by
  obtain ⟨t, h⟩ := fPar_eq p i; rw [h]

theorem stepOps_WF (r : TRule) (idx k : Nat) (sel : Bool) : ∀ o ∈ stepOps r idx k sel, o.WF := by
  apply forall_stepOps
  · exact ⟨fun _ => rfl, rfl⟩
  · intro l _ kd _; exact ⟨fun _ => rfl, rfl⟩
  · exact ⟨fun _ => rfl, rfl⟩
  · exact ⟨fun _ => rfl, rfl⟩
  · intro p; exact ⟨fun i => fPar_pathStr p i, rfl⟩
  · exact ⟨fun _ => rfl, rfl⟩
  · exact ⟨fun _ => rfl, rfl⟩
  · exact ⟨fun _ => rfl, rfl⟩

/-- the ops after the first keep key and rule -/
theorem restOps_rule (r : TRule) (k : Nat) (sel : Bool) :
    ∀ o ∈ restOps r k sel, ∀ i, (o.f i).pathStr = i.pathStr ∧ (o.f i).rule = i.rule := by
  apply forall_restOps
  · intro l _ kd _ i; exact ⟨rfl, rfl⟩
  · intro i; exact ⟨rfl, rfl⟩
  · intro i; exact ⟨rfl, rfl⟩
  · intro p i; exact ⟨fPar_pathStr p i, fPar_rule p i⟩
  · intro i; exact ⟨rfl, rfl⟩
  · intro i; exact ⟨rfl, rfl⟩
  · intro i; exact ⟨rfl, rfl⟩

/-- with the sticky flag an update never takes `required = some true` away -/
theorem stepOps_sticky (r : TRule) (idx k : Nat) (sel : Bool) :
    ∀ o ∈ stepOps r idx k sel, ∀ i, i.required = some true → (o.f i).required = some true := by
  apply forall_stepOps
  · intro i h; exact h
  · intro l _ kd _ i h
    have hs : treeRequiredSticky = true := rfl
    simp [opReq, fReq, hs, h]
  · intro i h; exact h
  · intro i h; exact h
  · intro p i h; rw [show (opPar _ p).f = fPar p from rfl, fPar_required]; exact h
  · intro i h; exact h
  · intro i h; exact h
  · intro i h; exact h

/-- an op of the sequence establishes `P` on its key and all ops keep `P`: `P` holds somewhere afterwards -/
theorem applyOps_has (P : TItem → Prop) (ops : List Op) (o : Op) (ho : o ∈ ops) (hwf : o.init.pathStr = o.k)
    (hest : ∀ i, i.pathStr = o.k → P (o.f i)) (hkeep : ∀ o' ∈ ops, ∀ i, P i → P (o'.f i)) :
    ∀ (items : Items), ∃ it ∈ applyOps ops items, P it := by
  induction ops with
  | nil => cases ho
  | cons o' ops ih =>
    intro items
    rw [applyOps_cons]
    rcases List.mem_cons.1 ho with rfl | ho'
    · obtain ⟨it', h', i, hi, rfl⟩ := upsert_has items o.k o.init o.f hwf
      obtain ⟨it2, h2, r2⟩ := applyOps_fwd (fun a b => P a → P b) (fun _ h => h) (fun _ _ _ h1 h2 h => h2 (h1 h)) ops
        (fun o' ho' i _ => hkeep o' (by simp [ho']) i) _ _ h'
      exact ⟨it2, h2, r2 (hest i hi)⟩
    · exact ih ho' (fun o'' ho'' => hkeep o'' (by simp [ho''])) _

theorem exists_zip_of_mem {α β} (a : α) : ∀ (xs : List α) (ys : List β), a ∈ xs → xs.length = ys.length →
    ∃ b, (a, b) ∈ xs.zip ys := by
  intro xs
  induction xs with
  | nil => intro ys h; cases h
  | cons x xs ih =>
    intro ys h hl
    cases ys with
    | nil => simp at hl
    | cons y ys =>
      rcases List.mem_cons.1 h with rfl | h
      · exact ⟨y, by simp⟩
      · obtain ⟨b, hb⟩ := ih ys h (by simpa using hl)
        exact ⟨b, by simp [hb]⟩


/-! ### `assignParents` -/

theorem assignParents_cons_ok (it : TItem) (rest : List TItem) (refs : List (List String × Int)) (n : Nat)
    (out : List TItem) (h : assignParents (it :: rest) refs n = .ok out) :
    ∃ r tail, refs.find? (fun r => r.1 == it.pathStr.dropLast) = some r ∧
      assignParents rest ((it.pathStr, Int.ofNat n) :: refs) (n + 1) = .ok tail ∧
      out = { it with parent := r.2 } :: tail := by
  unfold assignParents at h
  split at h
  · cases h
  · rename_i r hr
    cases ht : assignParents rest ((it.pathStr, Int.ofNat n) :: refs) (n + 1) with
    | error e => rw [ht] at h; cases h
    | ok tail =>
      rw [ht] at h
      refine ⟨r, tail, hr, rfl, ?_⟩
      cases h; rfl

/-- every output node keeps its key, gets a parent index below its own index, and that parent index
    belongs to an entry (an earlier output node, or a given reference) whose key is the node's key
    without its last component -/
theorem assignParents_spec (sorted : List TItem) : ∀ (refs : List (List String × Int)) (n : Nat) (out : List TItem),
    assignParents sorted refs n = .ok out → (∀ r ∈ refs, r.2 < (n : Int)) →
    out.length = sorted.length ∧
    ∀ (i : Nat) (it : TItem), out[i]? = some it → it.parent < ((n + i : Nat) : Int) ∧
      ((∃ r ∈ refs, r.1 = it.pathStr.dropLast ∧ r.2 = it.parent) ∨
       (∃ j p, out[j]? = some p ∧ p.pathStr = it.pathStr.dropLast ∧ it.parent = ((n + j : Nat) : Int))) := by
  induction sorted with
  | nil =>
    intro refs n out h _
    unfold assignParents at h
    cases h
    simp
  | cons x rest ih =>
    intro refs n out h hrefs
    obtain ⟨r, tail, hr, ht, rfl⟩ := assignParents_cons_ok x rest refs n out h
    have hrmem := List.mem_of_find?_eq_some hr
    have hrkey : r.1 = x.pathStr.dropLast := by simpa using List.find?_some hr
    have hrefs' : ∀ r' ∈ (x.pathStr, Int.ofNat n) :: refs, r'.2 < ((n + 1 : Nat) : Int) := by
      intro r' hr'
      rcases List.mem_cons.1 hr' with rfl | hr'
      · simp; omega
      · have := hrefs r' hr'; omega
    obtain ⟨hlen, hall⟩ := ih _ _ tail ht hrefs'
    refine ⟨by simp [hlen], ?_⟩
    intro i it hi
    cases i with
    | zero =>
      simp only [List.getElem?_cons_zero, Option.some.injEq] at hi
      subst hi
      exact ⟨by simpa using hrefs r hrmem, Or.inl ⟨r, hrmem, hrkey, rfl⟩⟩
    | succ i =>
      simp only [List.getElem?_cons_succ] at hi
      obtain ⟨hlt, hex⟩ := hall i it hi
      refine ⟨by omega, ?_⟩
      rcases hex with ⟨r', hr', hk', hp'⟩ | ⟨j, p, hj, hpk, hpp⟩
      · rcases List.mem_cons.1 hr' with rfl | hr'
        · right
          exact ⟨0, _, rfl, hk', by simpa using hp'.symm⟩
        · exact Or.inl ⟨r', hr', hk', hp'⟩
      · right
        exact ⟨j + 1, p, by simpa using hj, hpk, by rw [hpp]; congr 1; omega⟩

theorem assignParents_total (sorted : List TItem) : ∀ (refs : List (List String × Int)) (n : Nat),
    (∀ (i : Nat) (it : TItem), sorted[i]? = some it →
      (∃ r ∈ refs, r.1 = it.pathStr.dropLast) ∨
      (∃ j, j < i ∧ ∃ p, sorted[j]? = some p ∧ p.pathStr = it.pathStr.dropLast)) →
    ∃ out, assignParents sorted refs n = .ok out := by
  induction sorted with
  | nil => intro refs n _; exact ⟨[], rfl⟩
  | cons x rest ih =>
    intro refs n h
    have h0 : ∃ r ∈ refs, r.1 = x.pathStr.dropLast := by
      rcases h 0 x rfl with h0 | ⟨j, hj, _⟩
      · exact h0
      · omega
    obtain ⟨r0, hr0, hk0⟩ := h0
    have hfind : (refs.find? (fun r => r.1 == x.pathStr.dropLast)).isSome := by
      rw [List.find?_isSome]
      exact ⟨r0, hr0, by simp [hk0]⟩
    obtain ⟨r, hr⟩ := Option.isSome_iff_exists.1 hfind
    obtain ⟨tail, ht⟩ := ih ((x.pathStr, Int.ofNat n) :: refs) (n + 1) (by
      intro i it hi
      rcases h (i + 1) it (by simpa using hi) with ⟨r', hr', hk'⟩ | ⟨j, hj, p, hp, hpk⟩
      · exact Or.inl ⟨r', by simp [hr'], hk'⟩
      · cases j with
        | zero =>
          simp only [List.getElem?_cons_zero, Option.some.injEq] at hp
          subst hp
          exact Or.inl ⟨(x.pathStr, Int.ofNat n), by simp, hpk⟩
        | succ j =>
          exact Or.inr ⟨j, by omega, p, by simpa using hp, hpk⟩)
    refine ⟨{ x with parent := r.2 } :: tail, ?_⟩
    unfold assignParents
    rw [hr]
    simp only [ht]
    rfl


/-! ### the property statements -/

theorem parents (sorted : List TItem) (refs : List (List String × Int)) (n : Nat) (out : List TItem)
    (h : assignParents sorted refs n = .ok out)
    (hrefs : ∀ r ∈ refs, r.2 < (n : Int)) :
    out.length = sorted.length ∧
    ∀ (i : Nat) (it : TItem), out[i]? = some it → it.parent < ((n + i : Nat) : Int) ∧
      (∃ r ∈ (List.zip (List.range out.length) out).map (fun ix => (ix.2.pathStr, ((n + ix.1 : Nat) : Int))) ++ refs,
        r.1 = it.pathStr.dropLast ∧ r.2 = it.parent) := by
  obtain ⟨hlen, hall⟩ := assignParents_spec sorted refs n out h hrefs
  refine ⟨hlen, fun i it hi => ?_⟩
  obtain ⟨hlt, hex⟩ := hall i it hi
  refine ⟨hlt, ?_⟩
  rcases hex with ⟨r, hr, hk, hp⟩ | ⟨j, p, hj, hpk, hpp⟩
  · exact ⟨r, List.mem_append_right _ hr, hk, hp⟩
  · refine ⟨(p.pathStr, ((n + j : Nat) : Int)), List.mem_append_left _ ?_, hpk, hpp.symm⟩
    refine List.mem_map.2 ⟨(j, p), ?_, rfl⟩
    rw [List.mem_iff_getElem?]
    refine ⟨j, ?_⟩
    rw [List.getElem?_zip_eq_some]
    have hjl : j < out.length := by
      rcases Nat.lt_or_ge j out.length with h | h
      · exact h
      · rw [List.getElem?_eq_none h] at hj; cases hj
    exact ⟨by simp [hjl], hj⟩

theorem flat_parents (rules : List TRule) (flat : List TItem) (h : toTreeFlat rules [] none none = .ok flat) :
    ∀ (i : Nat) (it : TItem), flat[i]? = some it →
      it.parent < (i : Int) ∧
      (it.parent = -1 ∨ ∃ p, flat[it.parent.toNat]? = some p ∧ p.pathStr = it.pathStr.dropLast) := by
  unfold toTreeFlat at h
  dsimp only at h
  generalize hsorted : List.mergeSort _ _ = sorted at h
  cases ha : assignParents sorted [([], -1)] 0 with
  | error e => rw [ha] at h; cases h
  | ok lst =>
    rw [ha] at h
    have hfl : lst = flat := by cases h; rfl
    subst hfl
    obtain ⟨_, hall⟩ := assignParents_spec sorted _ 0 lst ha (by simp)
    intro i it hi
    obtain ⟨hlt, hex⟩ := hall i it hi
    refine ⟨by simpa using hlt, ?_⟩
    rcases hex with ⟨r, hr, hk, hp⟩ | ⟨j, p, hj, hpk, hpp⟩
    · left
      simp only [List.mem_singleton] at hr
      subst hr
      exact hp.symm
    · right
      refine ⟨p, ?_, hpk⟩
      rw [hpp]
      simpa using hj

theorem step_rule_node (fromStr : List String) (items : Items) (idx : Nat) (r : TRule)
    (h : r.partStrs.take fromStr.length = fromStr) :
    ∃ it ∈ treeStep fromStr items idx r, it.pathStr = r.partStrs.drop fromStr.length ∧ it.rule = some idx := by
  obtain ⟨sel, hs⟩ := treeStep_ops fromStr items idx r
  rw [hs, if_neg (by simp [h]), stepOps_cons, applyOps_cons]
  obtain ⟨it1, h1, i, hi, rfl⟩ := upsert_has items _ (opRule (r.partStrs.drop fromStr.length)
    (r.simpleDisp.drop fromStr.length) idx).init (opRule (r.partStrs.drop fromStr.length)
    (r.simpleDisp.drop fromStr.length) idx).f rfl
  obtain ⟨it2, h2, r2⟩ := applyOps_fwd (fun a b => b.pathStr = a.pathStr ∧ b.rule = a.rule)
    (fun _ => ⟨rfl, rfl⟩) (fun _ _ _ h1 h2 => ⟨h2.1.trans h1.1, h2.2.trans h1.2⟩) _
    (fun o ho i _ => restOps_rule r fromStr.length sel o ho i) _ _ h1
  exact ⟨it2, h2, r2.1.trans hi, r2.2⟩

theorem step_keeps_nodes (fromStr : List String) (items : Items) (idx : Nat) (r : TRule) :
    ∀ it ∈ items, ∃ it' ∈ treeStep fromStr items idx r, it'.pathStr = it.pathStr ∧
      (it.rule.isSome → it.pathStr ≠ r.partStrs.drop fromStr.length → it'.rule = it.rule) := by
  intro it hit
  obtain ⟨sel, hs⟩ := treeStep_ops fromStr items idx r
  rw [hs]
  split
  · exact ⟨it, hit, rfl, fun _ _ => rfl⟩
  · obtain ⟨it2, h2, r2⟩ := applyOps_fwd
      (fun a b => b.pathStr = a.pathStr ∧ (a.pathStr ≠ r.partStrs.drop fromStr.length → b.rule = a.rule))
      (fun _ => ⟨rfl, fun _ => rfl⟩)
      (fun a b c h1 h2 => ⟨h2.1.trans h1.1, fun hne => (h2.2 (h1.1 ▸ hne)).trans (h1.2 hne)⟩)
      (stepOps r idx fromStr.length sel)
      (by
        rw [stepOps_cons]
        intro o ho i hi
        rcases List.mem_cons.1 ho with rfl | ho
        · exact ⟨rfl, fun hne => absurd hi hne⟩
        · have := restOps_rule r fromStr.length sel o ho i
          exact ⟨this.1, fun _ => this.2⟩)
      items it hit
    exact ⟨it2, h2, r2.1, fun _ hne => r2.2 hne⟩

theorem step_keys_nodup (fromStr : List String) (items : Items) (idx : Nat) (r : TRule)
    (h : (items.map (·.pathStr)).Nodup) : ((treeStep fromStr items idx r).map (·.pathStr)).Nodup := by
  obtain ⟨sel, hs⟩ := treeStep_ops fromStr items idx r
  rw [hs]
  split
  · exact h
  · exact applyOps_keys_nodup _ (stepOps_WF r idx _ sel) items h

theorem required_after_step (items : Items) (idx : Nat) (r : TRule) (l : TLeaf) (ks : String)
    (hall : r.cond.alwaysApplicable = true) (hl : l ∈ r.cond.leaves) (hfn : l.fn = "required_keys")
    (hk : ks ∈ l.keyStrs) (hlen : ∀ l' ∈ r.cond.leaves, l'.keyStrs.length = l'.keyDisp.length) :
    ∃ it ∈ treeStep [] items idx r, it.pathStr = r.partStrs ++ [ks] ∧ it.required = some true := by
  obtain ⟨sel, hs⟩ := treeStep_ops [] items idx r
  rw [hs, if_neg (by simp)]
  obtain ⟨d, hd⟩ := exists_zip_of_mem ks l.keyStrs l.keyDisp hk (hlen l hl)
  have hmem : opReq (r.partStrs.drop 0) (r.simpleDisp.drop 0) l (ks, d) ∈ stepOps r idx ([] : List String).length sel := by
    rw [stepOps_cons, restOps]
    simp only [List.mem_cons, List.mem_append, keysOps, List.mem_flatMap, List.mem_map, List.length_nil]
    right; left; left; left
    refine ⟨l, ?_, (ks, d), hd, rfl⟩
    simp [keyCondsOf, hall, hl, hfn]
  have := applyOps_has (fun it => it.pathStr = r.partStrs ++ [ks] ∧ it.required = some true) _ _ hmem rfl
    (by
      intro i hi
      refine ⟨by simpa [opReq, fReq] using hi, ?_⟩
      simp [opReq, fReq, hfn])
    (by
      intro o' ho' i hi
      exact ⟨((stepOps_WF r idx _ sel o' ho').1 i).trans hi.1, stepOps_sticky r idx _ sel o' ho' i hi.2⟩)
    items
  exact this

theorem not_always_applicable (items : Items) (idx : Nat) (r : TRule) (hall : r.cond.alwaysApplicable = false) :
    ∀ it ∈ treeStep [] items idx r, it.required.isSome →
      ∃ it₀ ∈ items, it₀.pathStr = it.pathStr ∧ it₀.required = it.required := by
  intro it hit hsome
  obtain ⟨sel, hs⟩ := treeStep_ops [] items idx r
  rw [hs, if_neg (by simp)] at hit
  have hops : ∀ o ∈ stepOps r idx ([] : List String).length sel,
      (∀ i, (o.f i).pathStr = i.pathStr ∧ (o.f i).required = i.required) ∧ (o.f o.init).required = none := by
    apply forall_stepOps
    · exact ⟨fun i => ⟨rfl, rfl⟩, rfl⟩
    · intro l hl; simp [keyCondsOf, hall] at hl
    · exact ⟨fun i => ⟨rfl, rfl⟩, rfl⟩
    · exact ⟨fun i => ⟨rfl, rfl⟩, rfl⟩
    · intro p; exact ⟨fun i => ⟨fPar_pathStr p i, fPar_required p i⟩, by
        rw [show (opPar _ p).f = fPar p from rfl, fPar_required]; rfl⟩
    · exact ⟨fun i => ⟨rfl, rfl⟩, rfl⟩
    · exact ⟨fun i => ⟨rfl, rfl⟩, rfl⟩
    · exact ⟨fun i => ⟨rfl, rfl⟩, rfl⟩
  rcases applyOps_bwd (fun a b => a.pathStr = b.pathStr ∧ a.required = b.required) (fun b => b.required = none)
    (fun _ => ⟨rfl, rfl⟩) (fun _ _ _ h1 h2 => ⟨h1.1.trans h2.1, h1.2.trans h2.2⟩) _
    (fun o ho i => ⟨((hops o ho).1 i).1.symm, ((hops o ho).1 i).2.symm⟩) (fun o ho => (hops o ho).2)
    (fun a b hn hb => hb.2 ▸ hn) items it hit with ⟨it0, h0, hb⟩ | hn
  · exact ⟨it0, h0, hb.1, hb.2⟩
  · rw [hn] at hsome; cases hsome

end ValidaProofs.C20L
