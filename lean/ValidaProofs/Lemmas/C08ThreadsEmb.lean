/-
  ValidaProofs.Lemmas.C08ThreadsEmb — a store region embedded into another store by a renaming of
  cells.  `Emb φ n a s`: the cells of `a` from `n` on appear in `s` at the places `φ` names, with
  their references renamed by `φ`; `φ` is injective there.  Reads agree, and a write through
  corresponding roots succeeds or fails in both, leaving the embedding (extended by the one fresh
  cell) intact and touching nothing of `s` outside the image.
-/
import Valida.Store
import ValidaProofs.Lemmas.C08Store
namespace ValidaProofs.C08T
open Valida ValidaGen
open ValidaProofs.C08L

/-- rename the references a cell holds -/
def ren (φ : Nat → Nat) : Cell → Cell
  | .scalar v => .scalar v
  | .list items => .list (items.map φ)
  | .dict items => .dict (items.map (fun kv => (kv.1, φ kv.2)))

theorem ren_congr {φ ψ : Nat → Nat} (c : Cell) (h : ∀ x ∈ refs c, φ x = ψ x) : ren φ c = ren ψ c := by
  cases c with
  | scalar v => rfl
  | list items =>
    simp only [ren, Cell.list.injEq]
    exact List.map_congr_left (fun x hx => h x (by simpa [refs] using hx))
  | dict items =>
    simp only [ren, Cell.dict.injEq]
    refine List.map_congr_left (fun kv hkv => ?_)
    rw [h kv.2 (by simp only [refs, List.mem_map]; exact ⟨kv, hkv, rfl⟩)]

theorem refs_ren (φ : Nat → Nat) (c : Cell) : refs (ren φ c) = (refs c).map φ := by
  cases c <;> simp [ren, refs, List.map_map, Function.comp_def]

theorem childRef_ren (φ : Nat → Nat) (c : Cell) (k : PyVal) :
    Store.childRef (ren φ c) k = (Store.childRef c k).map φ := by
  cases c with
  | scalar v => rfl
  | list items =>
    simp only [ren, Store.childRef]
    split
    · split
      · simp [List.getElem?_map]
      · rfl
    · rfl
  | dict items =>
    simp only [ren, Store.childRef, List.find?_map, Option.map_map]
    rfl

/-- the store `a`, from cell `n` on, sits inside `s` renamed by `φ` -/
structure Emb (φ : Nat → Nat) (n : Nat) (a s : Store) : Prop where
  cell : ∀ i c, n ≤ i → a[i]? = some c → s[φ i]? = some (ren φ c)
  closed : ∀ i c, n ≤ i → a[i]? = some c → ∀ x ∈ refs c, n ≤ x ∧ x < a.size
  inj : ∀ i j, n ≤ i → i < a.size → n ≤ j → j < a.size → φ i = φ j → i = j
  lo : ∀ i, n ≤ i → i < a.size → n ≤ φ i

theorem lt_of_getElem?_some {s : Store} {i : Nat} {c : Cell} (h : s[i]? = some c) : i < s.size := by
  rcases Nat.lt_or_ge i s.size with hi | hi
  · exact hi
  · simp [Array.getElem?_eq_none hi] at h

theorem Emb.bound {φ : Nat → Nat} {n : Nat} {a s : Store} (E : Emb φ n a s) (i : Nat) (h1 : n ≤ i)
    (h2 : i < a.size) : φ i < s.size :=
  lt_of_getElem?_some (E.cell i _ h1 (Array.getElem?_eq_getElem h2))

theorem emb_empty (φ : Nat → Nat) (a s : Store) : Emb φ a.size a s := by
  refine ⟨?_, ?_, ?_, ?_⟩
  · intro i c h1 h2; have := lt_of_getElem?_some h2; omega
  · intro i c h1 h2; have := lt_of_getElem?_some h2; omega
  · intro i j h1 h2; omega
  · intro i h1 h2; omega

/-- the embedding survives any change of `s` outside the image -/
theorem Emb.frame {φ : Nat → Nat} {n : Nat} {a s s' : Store} (E : Emb φ n a s)
    (h : ∀ i, n ≤ i → i < a.size → s'[φ i]? = s[φ i]?) : Emb φ n a s' := by
  refine ⟨?_, E.closed, E.inj, E.lo⟩
  intro i c h1 h2
  rw [h i h1 (lt_of_getElem?_some h2)]
  exact E.cell i c h1 h2

/-! ### reads agree -/

theorem mapM_ren {α β γ : Type} (φ : α → β) (g : β → Option γ) (h : α → Option γ) :
    ∀ (l : List α), (∀ x ∈ l, g (φ x) = h x) → (l.map φ).mapM g = l.mapM h := by
  intro l
  induction l with
  | nil => intro _; rfl
  | cons x xs ih =>
    intro hx
    rw [List.map_cons, List.mapM_cons, List.mapM_cons, hx x (by simp), ih (fun y hy => hx y (by simp [hy]))]

theorem Emb.read {φ : Nat → Nat} {n : Nat} {a s : Store} (E : Emb φ n a s) :
    ∀ (fuel r : Nat), n ≤ r → r < a.size → Store.read s fuel (φ r) = Store.read a fuel r := by
  intro fuel
  induction fuel with
  | zero => intro r _ _; rfl
  | succ fuel ih =>
    intro r h1 h2
    have hc : a[r]? = some a[r] := Array.getElem?_eq_getElem h2
    have hs := E.cell r _ h1 hc
    have hcl := E.closed r _ h1 hc
    unfold Store.read
    rw [hs, hc]
    generalize a[r] = c at hs hcl
    cases c with
    | scalar v => rfl
    | list items =>
      simp only [ren]
      rw [mapM_ren φ _ (Store.read a fuel) items
        (fun x hx => ih x (hcl x (by simpa [refs] using hx)).1 (hcl x (by simpa [refs] using hx)).2)]
    | dict items =>
      simp only [ren]
      rw [mapM_ren (fun kv : PyVal × Nat => (kv.1, φ kv.2)) _
        (fun kv => (Store.read a fuel kv.2).map (fun v => (kv.1, v))) items]
      intro kv hkv
      have hm : kv.2 ∈ refs (Cell.dict items) := by
        simp only [refs, List.mem_map]; exact ⟨kv, hkv, rfl⟩
      simp only
      rw [ih kv.2 (hcl _ hm).1 (hcl _ hm).2]

/-! ### writes -/

/-- extend a renaming by one pair -/
def upd (φ : Nat → Nat) (x y : Nat) : Nat → Nat := fun i => if i = x then y else φ i

/-- `setAt` as a total step: a failing write changes nothing -/
def wr (s : Store) (r : Nat) (p : List PyVal) (v : PyVal) : Store :=
  match Store.setAt s r p v with
  | some s' => s'
  | none => s

/-- the effect of a successful, store-changing write on both sides of an embedding -/
theorem Emb.update {φ : Nat → Nat} {n : Nat} {a s : Store} (E : Emb φ n a s) (hn : n ≤ s.size)
    (v : PyVal) (x : Nat) (c' : Cell) (hx1 : n ≤ x) (hx2 : x < a.size)
    (hc' : ∀ y ∈ refs c', (n ≤ y ∧ y < a.size) ∨ y = a.size) :
    Emb (upd φ a.size s.size) n ((a.push (.scalar v)).setIfInBounds x c')
      ((s.push (.scalar v)).setIfInBounds (φ x) (ren (upd φ a.size s.size) c')) := by
  have hφx : φ x < s.size := E.bound x hx1 hx2
  have hupd : ∀ i, i < a.size → upd φ a.size s.size i = φ i := by
    intro i hi; simp [upd, Nat.ne_of_lt hi]
  refine ⟨?_, ?_, ?_, ?_⟩
  · intro i c h1 h2
    rw [Array.getElem?_setIfInBounds] at h2
    split at h2
    · -- i = x
      rename_i hix
      subst hix
      split at h2
      · cases h2
        rw [hupd _ hx2, Array.getElem?_setIfInBounds]
        simp [Nat.lt_succ_of_lt hφx]
      · cases h2
    · rename_i hix
      rw [Array.getElem?_push] at h2
      split at h2
      · -- i = a.size
        rename_i hia
        cases h2
        subst hia
        have : upd φ a.size s.size a.size = s.size := by simp [upd]
        rw [this, Array.getElem?_setIfInBounds_ne (Nat.ne_of_lt hφx), Array.getElem?_push_size]
        rfl
      · have hi2 : i < a.size := lt_of_getElem?_some h2
        rw [hupd i hi2]
        have hne : φ x ≠ φ i := fun e => hix (E.inj x i hx1 hx2 h1 hi2 e)
        rw [Array.getElem?_setIfInBounds_ne hne, Array.getElem?_push]
        have hb := E.bound i h1 hi2
        rw [if_neg (Nat.ne_of_lt hb), E.cell i c h1 h2]
        congr 1
        exact ren_congr c (fun y hy => (hupd y (E.closed i c h1 h2 y hy).2).symm)
  · intro i c h1 h2 y hy
    simp only [Array.size_setIfInBounds, Array.size_push]
    rw [Array.getElem?_setIfInBounds] at h2
    split at h2
    · split at h2
      · cases h2
        rcases hc' y hy with h | h <;> omega
      · cases h2
    · rw [Array.getElem?_push] at h2
      split at h2
      · cases h2; simp [refs] at hy
      · have := E.closed i c h1 h2 y hy; omega
  · intro i j hi1 hi2 hj1 hj2 e
    simp only [Array.size_setIfInBounds, Array.size_push] at hi2 hj2
    simp only [upd] at e
    split at e
    · split at e
      · omega
      · have := E.bound j hj1 (by omega); omega
    · split at e
      · have := E.bound i hi1 (by omega); omega
      · exact E.inj i j hi1 (by omega) hj1 (by omega) e
  · intro i h1 h2
    simp only [Array.size_setIfInBounds, Array.size_push] at h2
    simp only [upd]
    split
    · exact hn
    · exact E.lo i h1 (by omega)

/-- the three outcomes of a write, in step on both sides of an embedding -/
theorem setAt_sim {φ : Nat → Nat} {n : Nat} {a s : Store} (E : Emb φ n a s) (v : PyVal) :
    ∀ (path : List PyVal) (r : Nat), n ≤ r → r < a.size →
      (Store.setAt a r path v = none ∧ Store.setAt s (φ r) path v = none) ∨
      (Store.setAt a r path v = some a ∧ Store.setAt s (φ r) path v = some s) ∨
      (∃ (x : Nat) (c' : Cell), n ≤ x ∧ x < a.size ∧
        (∀ y ∈ refs c', (n ≤ y ∧ y < a.size) ∨ y = a.size) ∧
        Store.setAt a r path v = some ((a.push (.scalar v)).setIfInBounds x c') ∧
        Store.setAt s (φ r) path v =
          some ((s.push (.scalar v)).setIfInBounds (φ x) (ren (upd φ a.size s.size) c'))) := by
  intro path
  induction path with
  | nil => intro r _ _; exact Or.inr (Or.inl ⟨rfl, rfl⟩)
  | cons k rest ih =>
    intro r h1 h2
    have hc : a[r]? = some a[r] := Array.getElem?_eq_getElem h2
    have hs := E.cell r _ h1 hc
    have hcl := E.closed r _ h1 hc
    generalize a[r] = c at hc hs hcl
    cases rest with
    | nil =>
      simp only [Store.setAt, hc, hs]
      cases c with
      | scalar w => exact Or.inl ⟨rfl, rfl⟩
      | dict items =>
        simp only [ren, List.any_map, Function.comp_def]
        split
        · refine Or.inr (Or.inr ⟨r, _, h1, h2, ?_, rfl, ?_⟩)
          · intro y hy
            simp only [refs, List.map_map, List.mem_map, Function.comp_def] at hy
            obtain ⟨kv, hkv, rfl⟩ := hy
            split
            · exact Or.inr rfl
            · exact Or.inl (hcl kv.2 (by simp only [refs, List.mem_map]; exact ⟨kv, hkv, rfl⟩))
          · simp only [List.map_map, Option.some.injEq]
            congr 2
            refine List.map_congr_left (fun kv hkv => ?_)
            simp only [Function.comp_def]
            split
            · simp [upd]
            · have := (hcl kv.2 (by simp only [refs, List.mem_map]; exact ⟨kv, hkv, rfl⟩)).2
              simp [upd, Nat.ne_of_lt this]
        · exact Or.inl ⟨rfl, rfl⟩
      | list items =>
        simp only [ren, List.length_map]
        split
        · split
          · rename_i i _ hi
            refine Or.inr (Or.inr ⟨r, _, h1, h2, ?_, rfl, ?_⟩)
            · intro y hy
              simp only [refs] at hy
              rcases List.mem_or_eq_of_mem_set hy with hy | rfl
              · exact Or.inl (hcl y (by simpa [refs] using hy))
              · exact Or.inr rfl
            · simp only [List.map_set, Option.some.injEq]
              congr 2
              have e1 : upd φ a.size s.size a.size = s.size := by simp [upd]
              rw [e1]
              congr 1
              refine List.map_congr_left (fun y hy => ?_)
              have := (hcl y (by simpa [refs] using hy)).2
              simp [upd, Nat.ne_of_lt this]
          · exact Or.inl ⟨rfl, rfl⟩
        · exact Or.inl ⟨rfl, rfl⟩
    | cons k' rest' =>
      simp only [Store.setAt, hc, hs, childRef_ren]
      cases hch : Store.childRef c k with
      | none => exact Or.inl ⟨rfl, rfl⟩
      | some r' =>
        have hm := hcl r' (childRef_mem c k r' hch)
        simp only [Option.map_some]
        exact ih r' hm.1 hm.2

/-- one write, as a total step, on both sides of an embedding: the embedding continues (with a renaming
    that agrees with the old one on the old cells and sends the possible new cell to `s.size`), and `s`
    changes only inside the image -/
theorem wr_sim {φ : Nat → Nat} {n : Nat} {a s : Store} (E : Emb φ n a s) (hn : n ≤ s.size)
    (p : List PyVal) (v : PyVal) (r : Nat) (h1 : n ≤ r) (h2 : r < a.size) :
    ∃ φ', Emb φ' n (wr a r p v) (wr s (φ r) p v) ∧
      (∀ i, i < a.size → φ' i = φ i) ∧
      a.size ≤ (wr a r p v).size ∧ s.size ≤ (wr s (φ r) p v).size ∧
      (∀ i, n ≤ i → i < (wr a r p v).size → i < a.size ∨ φ' i = s.size) ∧
      (∀ j, j < s.size → (∀ i, n ≤ i → i < a.size → j ≠ φ i) → (wr s (φ r) p v)[j]? = s[j]?) := by
  rcases setAt_sim E v p r h1 h2 with ⟨e1, e2⟩ | ⟨e1, e2⟩ | ⟨x, c', hx1, hx2, hc', e1, e2⟩
  · have ha : wr a r p v = a := by simp only [wr, e1]
    have hs : wr s (φ r) p v = s := by simp only [wr, e2]
    rw [ha, hs]
    exact ⟨φ, E, fun _ _ => rfl, Nat.le_refl _, Nat.le_refl _, fun i _ h => Or.inl h, fun _ _ _ => rfl⟩
  · have ha : wr a r p v = a := by simp only [wr, e1]
    have hs : wr s (φ r) p v = s := by simp only [wr, e2]
    rw [ha, hs]
    exact ⟨φ, E, fun _ _ => rfl, Nat.le_refl _, Nat.le_refl _, fun i _ h => Or.inl h, fun _ _ _ => rfl⟩
  · have ha : wr a r p v = (a.push (.scalar v)).setIfInBounds x c' := by simp only [wr, e1]
    have hs : wr s (φ r) p v =
        (s.push (.scalar v)).setIfInBounds (φ x) (ren (upd φ a.size s.size) c') := by simp only [wr, e2]
    rw [ha, hs]
    refine ⟨upd φ a.size s.size, E.update hn v x c' hx1 hx2 hc', ?_, ?_, ?_, ?_, ?_⟩
    · intro i hi; simp [upd, Nat.ne_of_lt hi]
    · simp
    · simp
    · intro i hi1 hi2
      simp only [Array.size_setIfInBounds, Array.size_push] at hi2
      rcases Nat.lt_or_ge i a.size with h | h
      · exact Or.inl h
      · right
        have : i = a.size := by omega
        simp [upd, this]
    · intro j hj hne
      rw [Array.getElem?_setIfInBounds_ne (fun e => hne x hx1 hx2 e.symm), Array.getElem?_push,
        if_neg (Nat.ne_of_lt hj)]

end ValidaProofs.C08T
