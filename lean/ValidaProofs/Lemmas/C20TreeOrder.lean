/-
  ValidaProofs.Lemmas.C20TreeOrder — the order `sorted(items)` uses in `to_tree` (`keyLe`: Python's
  ordering of tuples of strings): total, transitive, a key precedes every extension of it and an
  extension never precedes the key.
-/
import Valida.Tree
namespace ValidaProofs.C20H
open Valida ValidaGen

/-! ### code-point lists -/

def ltC (a b : List Char) : Bool := Py.cmpChars .lt a b

theorem ltC_nil_nil : ltC [] [] = false := by decide
theorem ltC_nil_cons (y : Char) (ys : List Char) : ltC [] (y :: ys) = true := by
  simp [ltC, Py.cmpChars, Py.CmpOp.onNat]
theorem ltC_cons_nil (x : Char) (xs : List Char) : ltC (x :: xs) [] = false := by
  simp [ltC, Py.cmpChars, Py.CmpOp.onNat]
theorem ltC_cons_cons (x y : Char) (xs ys : List Char) :
    ltC (x :: xs) (y :: ys) = if x = y then ltC xs ys else decide (x.toNat < y.toNat) := by
  simp only [ltC, Py.cmpChars, Py.CmpOp.onNat, beq_iff_eq]

theorem ltC_irrefl (a : List Char) : ltC a a = false := by
  induction a with
  | nil => exact ltC_nil_nil
  | cons x xs ih => rw [ltC_cons_cons, if_pos rfl, ih]

theorem ltC_trans : ∀ (a b c : List Char), ltC a b = true → ltC b c = true → ltC a c = true := by
  intro a
  induction a with
  | nil =>
    intro b c h1 h2
    cases c with
    | nil => cases b with
      | nil => simp [ltC_nil_nil] at h1
      | cons y ys => simp [ltC_cons_nil] at h2
    | cons z zs => exact ltC_nil_cons z zs
  | cons x xs ih =>
    intro b c h1 h2
    cases b with
    | nil => simp [ltC_cons_nil] at h1
    | cons y ys =>
      cases c with
      | nil => simp [ltC_cons_nil] at h2
      | cons z zs =>
        rw [ltC_cons_cons] at h1 h2 ⊢
        by_cases hxy : x = y
        · subst hxy
          rw [if_pos rfl] at h1
          by_cases hxz : x = z
          · subst hxz
            rw [if_pos rfl] at h2 ⊢
            exact ih _ _ h1 h2
          · rw [if_neg hxz] at h2 ⊢
            exact h2
        · rw [if_neg hxy] at h1
          by_cases hyz : y = z
          · subst hyz
            rw [if_neg hxy]
            exact h1
          · rw [if_neg hyz] at h2
            have h1' : x.toNat < y.toNat := by simpa using h1
            have h2' : y.toNat < z.toNat := by simpa using h2
            have hxz : x ≠ z := by
              intro h; subst h; omega
            rw [if_neg hxz]
            simp only [decide_eq_true_eq]
            omega

theorem ltC_tri : ∀ (a b : List Char), a = b ∨ ltC a b = true ∨ ltC b a = true := by
  intro a
  induction a with
  | nil =>
    intro b
    cases b with
    | nil => exact Or.inl rfl
    | cons y ys => exact Or.inr (Or.inl (ltC_nil_cons y ys))
  | cons x xs ih =>
    intro b
    cases b with
    | nil => exact Or.inr (Or.inr (ltC_nil_cons x xs))
    | cons y ys =>
      rw [ltC_cons_cons, ltC_cons_cons]
      by_cases hxy : x = y
      · subst hxy
        rw [if_pos rfl, if_pos rfl]
        rcases ih ys with h | h | h
        · exact Or.inl (by rw [h])
        · exact Or.inr (Or.inl h)
        · exact Or.inr (Or.inr h)
      · rw [if_neg hxy, if_neg (fun h => hxy h.symm)]
        have : x.toNat ≠ y.toNat := fun h => hxy (Char.toNat_inj.1 h)
        right
        simp only [decide_eq_true_eq]
        omega

/-! ### strings -/

theorem strLt_irrefl (a : String) : strLt a a = false := ltC_irrefl _
theorem strLt_trans (a b c : String) (h1 : strLt a b = true) (h2 : strLt b c = true) : strLt a c = true :=
  ltC_trans _ _ _ h1 h2
theorem strLt_tri (a b : String) : a = b ∨ strLt a b = true ∨ strLt b a = true := by
  rcases ltC_tri a.toList b.toList with h | h | h
  · exact Or.inl (String.toList_inj.1 h)
  · exact Or.inr (Or.inl h)
  · exact Or.inr (Or.inr h)

/-! ### tuples of strings -/

theorem keyLe_nil (b : List String) : keyLe [] b = true := by
  cases b <;> rfl
theorem keyLe_cons_nil (x : String) (xs : List String) : keyLe (x :: xs) [] = false := rfl
theorem keyLe_cons_cons (x y : String) (xs ys : List String) :
    keyLe (x :: xs) (y :: ys) = if x = y then keyLe xs ys else strLt x y := by
  simp only [keyLe, beq_iff_eq]

theorem keyLe_total : ∀ (a b : List String), (keyLe a b || keyLe b a) = true := by
  intro a
  induction a with
  | nil => intro b; simp [keyLe_nil]
  | cons x xs ih =>
    intro b
    cases b with
    | nil => simp [keyLe_nil]
    | cons y ys =>
      rw [keyLe_cons_cons, keyLe_cons_cons]
      by_cases hxy : x = y
      · subst hxy
        rw [if_pos rfl, if_pos rfl]
        exact ih ys
      · rw [if_neg hxy, if_neg (fun h => hxy h.symm)]
        rcases strLt_tri x y with h | h | h
        · exact absurd h hxy
        · simp [h]
        · simp [h]

theorem keyLe_trans : ∀ (a b c : List String), keyLe a b = true → keyLe b c = true → keyLe a c = true := by
  intro a
  induction a with
  | nil => intro b c _ _; exact keyLe_nil c
  | cons x xs ih =>
    intro b c h1 h2
    cases b with
    | nil => simp [keyLe_cons_nil] at h1
    | cons y ys =>
      cases c with
      | nil => simp [keyLe_cons_nil] at h2
      | cons z zs =>
        rw [keyLe_cons_cons] at h1 h2 ⊢
        by_cases hxy : x = y
        · subst hxy
          rw [if_pos rfl] at h1
          by_cases hxz : x = z
          · subst hxz
            rw [if_pos rfl] at h2 ⊢
            exact ih _ _ h1 h2
          · rw [if_neg hxz] at h2 ⊢
            exact h2
        · rw [if_neg hxy] at h1
          by_cases hyz : y = z
          · subst hyz
            rw [if_neg hxy]
            exact h1
          · rw [if_neg hyz] at h2
            have hxz : x ≠ z := by
              intro h; subst h
              have := strLt_trans _ _ _ h1 h2
              rw [strLt_irrefl] at this
              cases this
            rw [if_neg hxz]
            exact strLt_trans _ _ _ h1 h2

/-- an extension never precedes (or equals, in the order) the key it extends -/
theorem keyLe_append_self (p : List String) (k : String) (ks : List String) : keyLe (p ++ k :: ks) p = false := by
  induction p with
  | nil => rfl
  | cons x xs ih => rw [List.cons_append, keyLe_cons_cons, if_pos rfl, ih]

theorem dropLast_append_getLast_cons (x : String) (xs : List String) :
    ∃ k, x :: xs = (x :: xs).dropLast ++ [k] :=
  ⟨(x :: xs).getLast (by simp), (List.dropLast_concat_getLast (by simp)).symm⟩

/-- in a list sorted by `keyLe` on the keys, a node whose key is a proper prefix of another node's key
    stands before it -/
theorem sorted_prefix_before (l : List TItem)
    (hs : l.Pairwise (fun a b => keyLe a.pathStr b.pathStr = true))
    (i j : Nat) (a b : TItem) (ha : l[i]? = some a) (hb : l[j]? = some b)
    (k : String) (ks : List String) (hk : a.pathStr = b.pathStr ++ k :: ks) : j < i := by
  rcases Nat.lt_or_ge j i with h | h
  · exact h
  · exfalso
    have hij : i ≠ j := by
      intro hij; subst hij
      rw [ha] at hb
      cases hb
      have := congrArg List.length hk
      simp at this
    have hlt : i < j := by omega
    have hi : i < l.length := by
      rcases Nat.lt_or_ge i l.length with h | h
      · exact h
      · rw [List.getElem?_eq_none h] at ha; cases ha
    have hj : j < l.length := by
      rcases Nat.lt_or_ge j l.length with h | h
      · exact h
      · rw [List.getElem?_eq_none h] at hb; cases hb
    have := List.pairwise_iff_getElem.1 hs i j hi hj hlt
    rw [List.getElem?_eq_getElem hi] at ha
    rw [List.getElem?_eq_getElem hj] at hb
    cases ha; cases hb
    rw [hk, keyLe_append_self] at this
    cases this

end ValidaProofs.C20H
