/-
  ValidaProofs.Lemmas.C19Allowed — "every error is a spec error": the closure toolkit (`AllErr`) and the
  primitives the spec parsers are made of.
-/
import Valida.Spec.Parse
import Lean.Elab.Tactic
namespace ValidaProofs.C19L
open Valida ValidaGen

/-- the errors C19 allows the parsers to raise (same list as `ValidaProofs.Allowed`) -/
def SpecErr (e : Exc) : Prop :=
  e = .malformedCond ∨ e = .malformedItem ∨ e = .malformedPath ∨ e = .malformedRule ∨
  e = .typeError ∨ e = .valueError ∨ e = .unmodelled ∨ e = .recursion

instance (e : Exc) : Decidable (SpecErr e) := by unfold SpecErr; infer_instance

/-- every error of `r` is a spec error (a structure, so that `intro` does not look through it) -/
structure AllErr {α : Type} (r : Except Exc α) : Prop where
  h : ∀ e, r = .error e → SpecErr e

namespace AllErr
variable {α β : Type}

theorem ok (a : α) : AllErr (Except.ok a : Except Exc α) := ⟨fun _ h => by cases h⟩
theorem pure (a : α) : AllErr (Pure.pure a : Except Exc α) := ⟨fun _ h => by cases h⟩
theorem err {e : Exc} (he : SpecErr e) : AllErr (Except.error e : Except Exc α) :=
  ⟨fun _ h => by cases h; exact he⟩
theorem throw {e : Exc} (he : SpecErr e) : AllErr (MonadExcept.throw e : Except Exc α) :=
  ⟨fun _ h => by cases h; exact he⟩

theorem bind {x : Except Exc α} {f : α → Except Exc β} (hx : AllErr x) (hf : ∀ a, AllErr (f a)) :
    AllErr (x >>= f) := by
  constructor
  intro e h
  cases x with
  | error e' => cases h; exact hx.h _ rfl
  | ok a => exact (hf a).h e h

theorem map {x : Except Exc α} (f : α → β) (hx : AllErr x) : AllErr (f <$> x) := by
  constructor
  intro e h
  cases x with
  | error e' => cases h; exact hx.h _ rfl
  | ok a => cases h

theorem mapM {f : α → Except Exc β} (hf : ∀ a, AllErr (f a)) (l : List α) : AllErr (l.mapM f) := by
  induction l with
  | nil => exact AllErr.pure _
  | cons a l ih =>
    rw [List.mapM_cons]
    exact AllErr.bind (hf a) (fun _ => AllErr.bind ih (fun _ => AllErr.pure _))

theorem foldlM {f : β → α → Except Exc β} (hf : ∀ b a, AllErr (f b a)) (l : List α) (b : β) :
    AllErr (l.foldlM f b) := by
  induction l generalizing b with
  | nil => exact AllErr.pure _
  | cons a l ih =>
    rw [List.foldlM_cons]
    exact AllErr.bind (hf b a) (fun _ => ih _)

/-- re-raising an error of a computation all of whose errors are spec errors -/
theorem rethrow {x : Except Exc α} {e : Exc} (h : x = .error e) (hx : AllErr x) :
    AllErr (MonadExcept.throw e : Except Exc β) := throw (hx.h e h)
theorem reerr {x : Except Exc α} {e : Exc} (h : x = .error e) (hx : AllErr x) :
    AllErr (Except.error e : Except Exc β) := err (hx.h e h)

/-- from a pointwise description of the errors -/
theorem of_forall {r : Except Exc α} (h : ∀ e, r = .error e → SpecErr e) : AllErr r := ⟨h⟩

end AllErr

open Lean Elab Tactic Meta in
/-- `AllErr (have x := v; b)` ↦ `AllErr b[v]` (head `have` only) -/
elab "ae_zeta" : tactic => do
  let g ← getMainGoal
  g.withContext do
  let t := (← instantiateMVars (← g.getType)).consumeMData
  match t with
  | .app f e =>
    match e.consumeMData with
    | .letE _ _ v b _ =>
      let g' ← g.replaceTargetDefEq (.app f (b.instantiate1 v))
      replaceMainGoal [g']
    | e' =>
      if e'.isHeadBetaTarget then
        let g' ← g.replaceTargetDefEq (.app f e'.headBeta)
        replaceMainGoal [g']
      else throwError "ae_zeta: no head let"
  | _ => throwError "ae_zeta: not an application"

open Lean Elab Tactic Meta in
/-- `AllErr (have jp := fun xs => body; rest)` ↦ `∀ xs, AllErr body` and
    `∀ jp, (∀ xs, AllErr (jp xs)) → AllErr rest`: a local function is analysed once -/
elab "ae_jp" : tactic => do
  let g ← getMainGoal
  g.withContext do
  let t := (← instantiateMVars (← g.getType)).consumeMData
  match t with
  | .app f e =>
    match e.consumeMData with
    | .letE n ty v b _ =>
      unless (← whnfR ty).isForall do throwError "ae_jp: not a function"
      let mkHyp (fn : Expr) : MetaM Expr :=
        forallTelescopeReducing ty fun xs _ => do
          let body := (mkAppN fn xs).headBeta
          mkForallFVars xs (← mkAppM ``AllErr #[body])
      let h1Ty ← mkHyp v
      let h2Ty ← withLocalDecl n .default ty fun jp => do
        let hyp ← mkHyp jp
        withLocalDecl `hjp .default hyp fun hjp =>
          mkForallFVars #[jp, hjp] (.app f (b.instantiate1 jp))
      let m1 ← mkFreshExprSyntheticOpaqueMVar h1Ty
      let m2 ← mkFreshExprSyntheticOpaqueMVar h2Ty
      g.assign (mkApp2 m2 v m1)
      replaceMainGoal [m1.mvarId!, m2.mvarId!]
    | _ => throwError "ae_jp: no head let"
  | _ => throwError "ae_jp: not an application"

open Lean Elab Tactic Meta in
/-- close the goal with a hypothesis `∀ xs, AllErr (f xs)` -/
elab "ae_hyp" : tactic => do
  let g ← getMainGoal
  g.withContext do
  for d in (← getLCtx) do
    if d.isImplementationDetail then continue
    let ty ← instantiateMVars d.type
    let concl := ty.getForallBody
    if concl.isAppOf ``AllErr then
      let s ← saveState
      try
        let gs ← g.apply d.toExpr
        if gs.isEmpty then
          replaceMainGoal []
          return
        else s.restore
      catch _ => s.restore
  throwError "ae_hyp: no hypothesis applies"

syntax "ae_prim" : tactic
macro_rules | `(tactic| ae_prim) => `(tactic| fail "no primitive lemma applies")

syntax "ae_step" : tactic
macro_rules
| `(tactic| ae_step) => `(tactic| with_reducible first
    | exact AllErr.ok _
    | exact AllErr.pure _
    | exact AllErr.err (by decide)
    | exact AllErr.throw (by decide)
    | ae_hyp
    | refine AllErr.rethrow ‹_ = Except.error _› ?_ <;> ae_hyp
    | refine AllErr.reerr ‹_ = Except.error _› ?_ <;> ae_hyp
    | exact absurd (by decide : condKeyStrGuard = true) (by assumption)
    | exact absurd (by decide : pathSpecRefusesEmpty = true) (by assumption)
    | ae_prim
    | apply AllErr.bind
    | apply AllErr.mapM
    | apply AllErr.foldlM
    | ae_jp
    | ae_zeta
    | intro _
    | split)

macro "ae" : tactic => `(tactic| repeat' ae_step)

theorem mkBin_all {α : Type} (op : BinOp) (a b : Cond α) : AllErr (Cond.mkBin op a b) := by
  unfold Cond.mkBin; ae
macro_rules | `(tactic| ae_prim) => `(tactic| exact mkBin_all _ _ _)

theorem pyLower_all (s : String) : AllErr (pyLower s) := by
  unfold pyLower; ae
macro_rules | `(tactic| ae_prim) => `(tactic| exact pyLower_all _)

theorem convType_all (x : PyVal) : AllErr (convType x) := by
  unfold convType; ae
macro_rules | `(tactic| ae_prim) => `(tactic| exact convType_all _)

theorem convTypes_all (x : PyVal) : AllErr (convTypes x) := by
  unfold convTypes; ae
macro_rules | `(tactic| ae_prim) => `(tactic| exact convTypes_all _)

theorem iter_all (x : PyVal) : AllErr (Py.iter x) := by
  unfold Py.iter; ae
macro_rules | `(tactic| ae_prim) => `(tactic| exact iter_all _)

theorem strKeys_all (x) : AllErr (strKeys x) := by
  unfold strKeys; ae
macro_rules | `(tactic| ae_prim) => `(tactic| exact strKeys_all _)
theorem strKeysS_all (x) : AllErr (strKeysS x) := by
  unfold strKeysS; ae
macro_rules | `(tactic| ae_prim) => `(tactic| exact strKeysS_all _)

theorem info_all (c : CClass) : AllErr c.info := by
  unfold CClass.info; ae
macro_rules | `(tactic| ae_prim) => `(tactic| exact info_all _)

theorem bindCtorParams_all {α : Type} (lit : PyVal → α) (d ps vs kw) : AllErr (bindCtorParams lit d ps vs kw) := by
  induction ps generalizing vs with
  | nil => unfold bindCtorParams; ae
  | cons p ps ih =>
    cases vs with
    | nil => rw [bindCtorParams]; ae
    | cons v vs => rw [bindCtorParams]; ae
macro_rules | `(tactic| ae_prim) => `(tactic| exact bindCtorParams_all _ _ _ _ _)

theorem buildLeaf_all {α : Type} (lit : PyVal → α) (cls c pos kw) : AllErr (buildLeaf lit cls c pos kw) := by
  unfold buildLeaf; ae
macro_rules | `(tactic| ae_prim) => `(tactic| exact buildLeaf_all _ _ _ _ _)

theorem containerCond_all (c d cls like) : AllErr (containerCond c d cls like) := by
  unfold containerCond; ae
macro_rules | `(tactic| ae_prim) => `(tactic| exact containerCond_all _ _ _ _)

theorem mkMap_all (a b c d) : AllErr (Part.mkMap a b c d) := by
  unfold Part.mkMap; ae
macro_rules | `(tactic| ae_prim) => `(tactic| exact mkMap_all _ _ _ _)
theorem mkList_all (a b c d) : AllErr (Part.mkList a b c d) := by
  unfold Part.mkList; ae
macro_rules | `(tactic| ae_prim) => `(tactic| exact mkList_all _ _ _ _)
theorem mkMolv_all (a b c d e f g) : AllErr (Part.mkMolv a b c d e f g) := by
  unfold Part.mkMolv; ae
macro_rules | `(tactic| ae_prim) => `(tactic| exact mkMolv_all _ _ _ _ _ _ _)
theorem ofPrim_all (v) : AllErr (Part.ofPrim v) := by
  unfold Part.ofPrim; ae
macro_rules | `(tactic| ae_prim) => `(tactic| exact ofPrim_all _)
theorem pathMk_all (v) : AllErr (Path.mk' v) := by
  unfold Path.mk'; ae
macro_rules | `(tactic| ae_prim) => `(tactic| exact pathMk_all _)
theorem withDatum_all (p m) : AllErr (Path.withDatum p m) := by
  unfold Path.withDatum; ae
macro_rules | `(tactic| ae_prim) => `(tactic| exact withDatum_all _ _)
theorem withMulti_all (p m) : AllErr (Path.withMulti p m) := by
  unfold Path.withMulti; ae
macro_rules | `(tactic| ae_prim) => `(tactic| exact withMulti_all _ _)
theorem escScan_all (p) : AllErr (escScan p) := by
  unfold escScan; ae
macro_rules | `(tactic| ae_prim) => `(tactic| exact escScan_all _)

/-- `getattr(path, name)()`: the only error outside the allowed ones is `AttributeError` -/
theorem applyModifier_err (p : Path) (name : String) (e : Exc) (h : applyModifier p name = .error e) :
    e = .attributeError ∨ SpecErr e := by
  unfold applyModifier at h
  split at h
  · split at h
    · exact Or.inr ((withDatum_all _ _).h e h)
    · cases h; exact Or.inr (by decide)
  · split at h
    · exact Or.inr ((withMulti_all _ _).h e h)
    · cases h; exact Or.inr (by decide)
  · cases h; exact Or.inl rfl

theorem applyModifier_rethrow {α : Type} (p : Path) (name : String) (e : Exc)
    (hne : e = .attributeError → False) (h : applyModifier p name = .error e) :
    AllErr (MonadExcept.throw e : Except Exc α) := by
  rcases applyModifier_err p name e h with h' | h'
  · exact absurd h' hne
  · exact AllErr.throw h'

macro_rules
  | `(tactic| ae_prim) =>
    `(tactic| exact applyModifier_rethrow _ _ _ ‹_ = Exc.attributeError → False› ‹_ = Except.error _›)

end ValidaProofs.C19L
