/-
  ValidaProofs.Lemmas.C16Spec — the copies the parsers work on: `dictOfPairs` (un-escaping builds a
  new mapping) and `popStr` (popping from the copy).
-/
import Valida.Spec.Parse
namespace ValidaProofs.C16L
open Valida ValidaGen

/-- one step of the dict comprehension -/
def dictStep (acc : List (PyVal × PyVal)) (kv : PyVal × PyVal) : List (PyVal × PyVal) :=
  if acc.any (fun kv' => PyVal.pyEq kv.1 kv'.1)
  then acc.map (fun kv' => if PyVal.pyEq kv.1 kv'.1 then (kv'.1, kv.2) else kv')
  else acc ++ [kv]

theorem dictOfPairs_eq (kvs : List (PyVal × PyVal)) : dictOfPairs kvs = kvs.foldl dictStep [] := rfl

theorem dictStep_length (acc : List (PyVal × PyVal)) (kv : PyVal × PyVal) :
    (dictStep acc kv).length ≤ acc.length + 1 := by
  unfold dictStep; split <;> simp

theorem dictStep_vals (acc : List (PyVal × PyVal)) (kv x : PyVal × PyVal) (hx : x ∈ dictStep acc kv) :
    (∃ y ∈ acc, x.2 = y.2) ∨ x.2 = kv.2 := by
  unfold dictStep at hx
  split at hx
  · obtain ⟨y, hy, rfl⟩ := List.mem_map.1 hx
    split
    · exact Or.inr rfl
    · exact Or.inl ⟨y, hy, rfl⟩
  · rcases List.mem_append.1 hx with h | h
    · exact Or.inl ⟨x, h, rfl⟩
    · simp only [List.mem_singleton] at h; exact Or.inr (h ▸ rfl)

theorem foldl_dictStep (kvs : List (PyVal × PyVal)) : ∀ acc : List (PyVal × PyVal),
    (kvs.foldl dictStep acc).length ≤ acc.length + kvs.length ∧
    ∀ x ∈ kvs.foldl dictStep acc, (∃ y ∈ acc, x.2 = y.2) ∨ (∃ y ∈ kvs, x.2 = y.2) := by
  induction kvs with
  | nil => intro acc; exact ⟨Nat.le_refl _, fun x hx => Or.inl ⟨x, hx, rfl⟩⟩
  | cons kv rest ih =>
    intro acc
    obtain ⟨h1, h2⟩ := ih (dictStep acc kv)
    simp only [List.foldl_cons, List.length_cons]
    refine ⟨by have := dictStep_length acc kv; omega, fun x hx => ?_⟩
    rcases h2 x hx with ⟨y, hy, e⟩ | ⟨y, hy, e⟩
    · rcases dictStep_vals acc kv y hy with ⟨z, hz, e'⟩ | e'
      · exact Or.inl ⟨z, hz, e.trans e'⟩
      · exact Or.inr ⟨kv, List.mem_cons_self, e.trans e'⟩
    · exact Or.inr ⟨y, List.mem_cons_of_mem _ hy, e⟩

theorem dictOfPairs_fresh (kvs : List (PyVal × PyVal)) :
    (dictOfPairs kvs).length ≤ kvs.length ∧ ∀ kv ∈ dictOfPairs kvs, ∃ kv' ∈ kvs, kv.2 = kv'.2 := by
  obtain ⟨h1, h2⟩ := foldl_dictStep kvs []
  rw [dictOfPairs_eq]
  refine ⟨by simpa using h1, fun kv hkv => ?_⟩
  rcases h2 kv hkv with ⟨y, hy, _⟩ | h
  · simp at hy
  · exact h

theorem popStr_frame (key : String) (kvs : List (PyVal × PyVal)) :
    (popStr key kvs).2.Sublist kvs ∧ ∀ kv ∈ (popStr key kvs).2, PyVal.pyEq (.str key) kv.1 = false := by
  unfold popStr
  split
  · refine ⟨List.filter_sublist, fun kv hkv => ?_⟩
    simpa using (List.mem_filter.1 hkv).2
  · rename_i hnone
    refine ⟨List.Sublist.refl _, fun kv hkv => ?_⟩
    simpa using List.find?_eq_none.1 hnone kv hkv

end ValidaProofs.C16L
