/-
  ValidaProofs.Lemmas.C03Step — one step of the walk: `Part.filter` / `stepNode` case analysis,
  `pickBy` list facts, primitive parts.
-/
import Valida.Path
import ValidaSpec.Walk
import ValidaProofs.Lemmas.Basic
import ValidaProofs.Lemmas.DataGuard
import ValidaProofs.C02
namespace ValidaProofs.C03
open Valida ValidaGen ValidaSpec

/-! ### `pickBy` -/

/-- the selector `pickBy` maps over the zipped list -/
def sel {α : Type} (p : α × Bool) : Option α := if p.2 then some p.1 else none

theorem pickBy_eq (r : List Bool) (xs : List PyVal) : pickBy r xs = (xs.zip r).filterMap sel := rfl

theorem pickBy_zip (r : List Bool) (ks vs : List PyVal) :
    (pickBy r ks).zip (pickBy r vs) = ((ks.zip vs).zip r).filterMap sel := by
  induction r generalizing ks vs with
  | nil => simp [pickBy_eq]
  | cons b r ih =>
    cases ks with
    | nil => simp [pickBy_eq]
    | cons k ks =>
      cases vs with
      | nil => simp [pickBy_eq]
      | cons v vs =>
        have := ih ks vs
        simp only [pickBy_eq] at this ⊢
        cases b <;> simp [sel, this]

theorem filterMap_sel_sublist {α : Type} (l : List α) (r : List Bool) :
    ((l.zip r).filterMap sel).Sublist l := by
  induction l generalizing r with
  | nil => simp
  | cons x l ih =>
    cases r with
    | nil => simp
    | cons b r =>
      cases b
      · simpa [sel] using (ih r).cons x
      · simpa [sel] using (ih r).cons_cons x

theorem filterMap_sel_keys {α β : Type} (ks : List α) (vs : List β) (g : α → Bool) :
    ((ks.zip vs).zip (ks.map g)).filterMap sel = (ks.zip vs).filter (fun kv => g kv.1) := by
  induction ks generalizing vs with
  | nil => simp
  | cons k ks ih =>
    cases vs with
    | nil => simp
    | cons v vs =>
      cases hg : g k <;> simp [sel, hg, ih vs]

theorem zip_map_fst_snd' {α β : Type} (l : List (α × β)) : (l.map (·.1)).zip (l.map (·.2)) = l := by
  induction l with
  | nil => rfl
  | cons x l ih => simp [ih]

/-! ### failures of `Part.filter` -/

theorem ofPy_error (node : PyVal) (e : Exc) (h : DataV.ofPy node = .error e) : e = .typeError := by
  cases node with
  | list xs => rw [DataV.ofPy_list] at h; split at h <;> simp at h; exact h.symm
  | dict kvs => rw [DataV.ofPy_dict] at h; split at h <;> simp at h; exact h.symm
  | _ => simp at h; exact h.symm

theorem mkBin_error {α : Type} (op : BinOp) (a b : Cond α) (e : Exc) (h : Cond.mkBin op a b = .error e) :
    e = .typeError := by
  unfold Cond.mkBin at h
  split at h
  · simp at h
  · split at h
    · simp at h
    · dsimp only at h
      split at h <;> simp at h
      exact h.symm

theorem kindCheck_error (c : Cond RArg) (d : DataV) (e : Exc) (h : kindCheck c d = .error e) :
    e = .typeError := by
  unfold kindCheck at h
  split at h
  · dsimp only at h
    split at h
    · simp at h; exact h.symm
    · split at h <;> simp at h
      exact h.symm
  · simp at h

/-- `filterData` of a literal condition, paired with the wrapped data -/
def filterWith (c : Cond PyVal) (d : DataV) : Except Exc (FD × DataV) :=
  match filterData c.lit d with
  | .error e => .error e
  | .ok fd => .ok (fd, d)

/-- `Part.filter` without the `do` notation -/
theorem Part.filter_eq (p : Part) (node : PyVal) : p.filter node =
    match DataV.ofPy node with
    | .error e => .error e
    | .ok d => match p.kind with
      | .map => if d.isList then .error .typeError else filterWith p.cond d
      | .list => if !d.isList then .error .typeError else filterWith p.cond d
      | .molv =>
        match (if d.isList then Cond.mkBin .and p.listCond p.cond else Cond.mkBin .and p.mapCond p.cond) with
        | .error e => .error e
        | .ok c => filterWith c d := by
  simp only [Part.filter, bind, Except.bind, filterWith]
  cases hd : DataV.ofPy node with
  | error e' => rfl
  | ok d =>
    cases hk : p.kind <;> simp only
    · cases hl : d.isList <;> simp [throw, throwThe, MonadExceptOf.throw, pure, Except.pure]
      cases filterData p.cond.lit d <;> rfl
    · cases hl : d.isList <;> simp [throw, throwThe, MonadExceptOf.throw, pure, Except.pure]
      cases filterData p.cond.lit d <;> rfl
    · cases hl : d.isList <;> simp [pure, Except.pure]
      · cases Cond.mkBin BinOp.and p.mapCond p.cond with
        | error e => rfl
        | ok c => dsimp only; cases filterData c.lit d <;> rfl
      · cases Cond.mkBin BinOp.and p.listCond p.cond with
        | error e => rfl
        | ok c => dsimp only; cases filterData c.lit d <;> rfl

theorem filterData_lit_error (c : Cond PyVal) (d : DataV) (e : Exc) (h : filterData c.lit d = .error e) :
    e = .typeError ∨ e = .unmodelled := by
  simp only [filterData, bind, Except.bind] at h
  cases hk : kindCheck c.lit d with
  | error e' =>
    simp only [hk] at h
    cases h
    exact Or.inl (kindCheck_error _ _ _ hk)
  | ok u =>
    simp only [hk] at h
    cases hf : filterAux c.lit d false with
    | error e' =>
      simp only [hf] at h
      cases h
      exact Or.inr (C02_never_aborts c d _ hf)
    | ok r => simp [hf, pure, Except.pure] at h

theorem filterWith_error (c : Cond PyVal) (d : DataV) (e : Exc) (h : filterWith c d = .error e) :
    e = .typeError ∨ e = .unmodelled := by
  unfold filterWith at h
  split at h
  · rename_i e' hf
    cases h
    exact filterData_lit_error _ _ _ hf
  · simp at h

theorem filterWith_ok (c : Cond PyVal) (d : DataV) (fd : FD) (d' : DataV) (h : filterWith c d = .ok (fd, d')) :
    d' = d := by
  unfold filterWith at h
  split at h
  · simp at h
  · simp at h; exact h.2.symm

theorem Part.filter_error (p : Part) (node : PyVal) (e : Exc) (h : p.filter node = .error e) :
    e = .typeError ∨ e = .unmodelled := by
  rw [Part.filter_eq] at h
  split at h
  · rename_i e' hd
    cases h
    exact Or.inl (ofPy_error _ _ hd)
  · split at h
    · split at h
      · cases h; exact Or.inl rfl
      · exact filterWith_error _ _ _ h
    · split at h
      · cases h; exact Or.inl rfl
      · exact filterWith_error _ _ _ h
    · split at h
      · rename_i e' hc
        cases h
        split at hc <;> exact Or.inl (mkBin_error _ _ _ _ hc)
      · exact filterWith_error _ _ _ h

theorem Part.filter_ok (p : Part) (node : PyVal) (fd : FD) (d : DataV) (h : p.filter node = .ok (fd, d)) :
    DataV.ofPy node = .ok d := by
  rw [Part.filter_eq] at h
  split at h
  · simp at h
  · rename_i d0 hd
    rw [hd]
    split at h
    · split at h
      · simp at h
      · rw [filterWith_ok _ _ _ _ h]
    · split at h
      · simp at h
      · rw [filterWith_ok _ _ _ _ h]
    · split at h
      · simp at h
      · rw [filterWith_ok _ _ _ _ h]

theorem caught_typeError : caughtBy catchesGetData .typeError = true := by decide

/-- a failing `Part.filter` with `TypeError` is a step matching nothing -/
theorem stepNode_of_filter_typeError (p : Part) (node : PyVal) (h : p.filter node = .error .typeError) :
    stepNode p node = .ok [] := by
  simp [stepNode, h, caught_typeError]

theorem filter_of_ofPy_error (p : Part) (node : PyVal) (e : Exc) (h : DataV.ofPy node = .error e) :
    p.filter node = .error e := by
  simp [Part.filter, bind, Except.bind, h]

theorem stepNode_error (p : Part) (node : PyVal) (e : Exc) (h : stepNode p node = .error e) :
    e = .unmodelled := by
  unfold stepNode at h
  split at h
  · simp at h
  · rename_i e' hf
    split at h
    · simp at h
    · rename_i hc
      simp at h
      subst h
      rcases Part.filter_error p node e' hf with rfl | rfl
      · exact absurd caught_typeError hc
      · rfl

/-- a successful step is a position-wise selection of the node's (key, value) items -/
theorem stepNode_ok (p : Part) (node : PyVal) (kvs : List (PyVal × PyVal)) (h : stepNode p node = .ok kvs) :
    kvs = [] ∨ ∃ d r, DataV.ofPy node = .ok d ∧ kvs = ((d.keys.zip d.values).zip r).filterMap sel := by
  unfold stepNode at h
  split at h
  · rename_i fd d hf
    simp at h
    exact Or.inr ⟨d, fd.result, Part.filter_ok _ _ _ _ hf, by rw [← h, pickBy_zip]⟩
  · split at h
    · simp at h; exact Or.inl h
    · simp at h

/-! ### wrong kind of container -/

theorem stepNode_map_list (p : Part) (xs : List PyVal) (hk : p.kind = .map) : stepNode p (.list xs) = .ok [] := by
  apply stepNode_of_filter_typeError
  rw [Part.filter_eq]
  cases xs with
  | nil => rfl
  | cons x xs => simp [DataV.ofPy_list, hk]

theorem stepNode_list_dict (p : Part) (kvs : List (PyVal × PyVal)) (hk : p.kind = .list) :
    stepNode p (.dict kvs) = .ok [] := by
  apply stepNode_of_filter_typeError
  rw [Part.filter_eq]
  cases kvs with
  | nil => rfl
  | cons x xs => simp [DataV.ofPy_dict, hk]

/-! ### matched children are items of the node -/

theorem ofPy_list_ok (xs : List PyVal) (d : DataV) (h : DataV.ofPy (.list xs) = .ok d) :
    d = ⟨true, rangeVals xs.length, xs⟩ := by
  cases xs with
  | nil => simp [DataV.ofPy_list] at h
  | cons x xs => simp [DataV.ofPy_list] at h; exact h.symm

theorem ofPy_dict_ok (kvs : List (PyVal × PyVal)) (d : DataV) (h : DataV.ofPy (.dict kvs) = .ok d) :
    d = ⟨false, kvs.map (·.1), kvs.map (·.2)⟩ := by
  cases kvs with
  | nil => simp [DataV.ofPy_dict] at h
  | cons x xs => simp [DataV.ofPy_dict] at h; exact h.symm

theorem stepNode_items (p : Part) (node : PyVal) (kvs : List (PyVal × PyVal)) (h : stepNode p node = .ok kvs) :
    (∀ xs, node = .list xs → kvs.Sublist ((rangeVals xs.length).zip xs)) ∧
    (∀ items, node = .dict items → kvs.Sublist items) := by
  rcases stepNode_ok p node kvs h with rfl | ⟨d, r, hd, rfl⟩
  · exact ⟨fun _ _ => List.nil_sublist _, fun _ _ => List.nil_sublist _⟩
  · constructor
    · rintro xs rfl
      rw [ofPy_list_ok xs d hd]
      exact filterMap_sel_sublist _ _
    · rintro items rfl
      rw [ofPy_dict_ok items d hd]
      have := filterMap_sel_sublist ((items.map (·.1)).zip (items.map (·.2))) r
      rw [zip_map_fst_snd'] at this
      simpa only [zip_map_fst_snd'] using this

end ValidaProofs.C03
