/-
  ValidaProofs.Lemmas.C04Modifiers — `get_data(return_paths=True)` with arbitrary modifiers, given the
  outcome of the frontier walk; the list of (value, path) pairs, element by element.
-/
import Valida.Path
import ValidaSpec.Walk
import ValidaProofs.C03
import ValidaProofs.C04
import ValidaProofs.C07Casts
namespace ValidaProofs.C04M
open Valida ValidaGen ValidaSpec

/-- a (value, path) pair as `get_data` returns it -/
def mkPair (vp : PyVal × List PyVal) : PyVal := PyVal.tuple [vp.1, .tuple vp.2]

/-- the pairs `get_data(return_paths=True)` is made of (same text as `ValidaProofs.pairsOf`) -/
def pairs (d : DatumMod) (w : List (PyVal × List PyVal)) : Except Exc (List PyVal) := do
  let vals ← (w.map (·.1)).mapM (datumFn d)
  pure ((vals.zip (w.map (·.2))).map (fun vp => PyVal.tuple [vp.1, .tuple vp.2]))

theorem pairs_nil (d : DatumMod) : pairs d [] = .ok [] := rfl

theorem pairs_cons (d : DatumMod) (n : PyVal) (q : List PyVal) (w : List (PyVal × List PyVal)) :
    pairs d ((n, q) :: w) =
      (datumFn d n).bind (fun v => (pairs d w).bind (fun ps => .ok (PyVal.tuple [v, .tuple q] :: ps))) := by
  simp only [pairs, List.map_cons, List.mapM_cons, bind, Except.bind, pure, Except.pure]
  cases datumFn d n with
  | error e => rfl
  | ok v =>
    simp only
    cases List.mapM (datumFn d) (w.map (·.1)) with
    | error e => rfl
    | ok vs => simp

theorem pairs_cons_ok (d : DatumMod) (n : PyVal) (q : List PyVal) (w : List (PyVal × List PyVal))
    (ps : List PyVal) (h : pairs d ((n, q) :: w) = .ok ps) :
    ∃ v ps', datumFn d n = .ok v ∧ pairs d w = .ok ps' ∧ ps = PyVal.tuple [v, .tuple q] :: ps' := by
  rw [pairs_cons] at h
  cases hv : datumFn d n with
  | error e => simp [hv, Except.bind] at h
  | ok v =>
    cases hp : pairs d w with
    | error e => simp [hv, hp, Except.bind] at h
    | ok ps' =>
      simp only [hv, hp, Except.bind, Except.ok.injEq] at h
      exact ⟨v, ps', rfl, rfl, h.symm⟩

/-- each pair is the datum modifier of a node of the walk with that node's path -/
theorem pairs_mem (d : DatumMod) (w : List (PyVal × List PyVal)) (ps : List PyVal) (h : pairs d w = .ok ps) :
    ∀ x ∈ ps, ∃ nq ∈ w, ∃ v, datumFn d nq.1 = .ok v ∧ x = PyVal.tuple [v, .tuple nq.2] := by
  induction w generalizing ps with
  | nil =>
    rw [pairs_nil] at h
    cases h
    intro x hx
    cases hx
  | cons nq w ih =>
    obtain ⟨n, q⟩ := nq
    obtain ⟨v, ps', hv, hp, rfl⟩ := pairs_cons_ok d n q w ps h
    intro x hx
    rcases List.mem_cons.1 hx with rfl | hx
    · exact ⟨(n, q), List.mem_cons_self, v, hv, rfl⟩
    · obtain ⟨nq, hnq, r⟩ := ih ps' hp x hx
      exact ⟨nq, List.mem_cons_of_mem _ hnq, r⟩

theorem pairs_head? (d : DatumMod) (w : List (PyVal × List PyVal)) (ps : List PyVal) (h : pairs d w = .ok ps)
    (x : PyVal) (hx : ps.head? = some x) :
    ∃ n q v, w.head? = some (n, q) ∧ datumFn d n = .ok v ∧ x = PyVal.tuple [v, .tuple q] := by
  cases w with
  | nil =>
    rw [pairs_nil] at h
    cases h
    cases hx
  | cons nq w =>
    obtain ⟨n, q⟩ := nq
    obtain ⟨v, ps', hv, _, rfl⟩ := pairs_cons_ok d n q w ps h
    simp only [List.head?_cons, Option.some.injEq] at hx
    exact ⟨n, q, v, rfl, hv, hx.symm⟩

theorem pairs_getLast? (d : DatumMod) (w : List (PyVal × List PyVal)) (ps : List PyVal) (h : pairs d w = .ok ps)
    (x : PyVal) (hx : ps.getLast? = some x) :
    ∃ n q v, w.getLast? = some (n, q) ∧ datumFn d n = .ok v ∧ x = PyVal.tuple [v, .tuple q] := by
  induction w generalizing ps with
  | nil =>
    rw [pairs_nil] at h
    cases h
    cases hx
  | cons nq w ih =>
    obtain ⟨n, q⟩ := nq
    obtain ⟨v, ps', hv, hp, rfl⟩ := pairs_cons_ok d n q w ps h
    cases w with
    | nil =>
      rw [pairs_nil] at hp
      cases hp
      simp only [List.getLast?_singleton, Option.some.injEq] at hx
      exact ⟨n, q, v, rfl, hv, hx.symm⟩
    | cons nq' w' =>
      obtain ⟨n', q'⟩ := nq'
      obtain ⟨v', ps'', _, _, rfl⟩ := pairs_cons_ok d n' q' w' ps' hp
      rw [List.getLast?_cons_cons] at hx
      obtain ⟨n0, q0, v0, h0, r⟩ := ih _ hp hx
      refine ⟨n0, q0, v0, ?_, r⟩
      rw [List.getLast?_cons_cons]
      exact h0

/-- `get_data(return_paths=True)` for any modifiers, given the outcome of the frontier walk -/
theorem getData_of_walk_mod (p : Path) (doc : PyVal) (nodes : List PyVal) (paths : List (List PyVal))
    (hne : p.parts ≠ []) (hsrc : p.source = none) (hdoc : PyVal.truthy doc = true)
    (h : walkParts p.parts true [doc] [] = .ok (nodes, paths)) (hl : nodes.length = paths.length) :
    p.getData (some doc) true =
      (if (nodes.zip paths).isEmpty then .ok (if p.concrete then .none else .list [])
       else (pairs p.datum (nodes.zip paths)).bind (matchMulti p.multi p.concrete)) := by
  have hemp : (nodes.zip paths).isEmpty = nodes.isEmpty := by
    cases nodes <;> cases paths <;> simp_all
  have h1 : (nodes.zip paths).map (·.1) = nodes := List.map_fst_zip (Nat.le_of_eq hl)
  have h2 : (nodes.zip paths).map (·.2) = paths := List.map_snd_zip (Nat.le_of_eq hl.symm)
  rw [C04.getData_eq p (some doc) true hne, C04.resolveData_doc p doc hdoc, hsrc]
  simp only [Except.bind, h, C04.afterWalk, hemp, pairs, h1, h2]
  cases nodes.isEmpty with
  | true => rfl
  | false =>
    simp only [Bool.false_eq_true, if_false, if_true, bind, Except.bind, pure, Except.pure]
    cases List.mapM (datumFn p.datum) nodes <;> rfl

/-! ### truthful paths -/

/-- in a well-formed document, every (node, path) of the walk is such that looking the path up gives the node -/
theorem walk_truth (parts : List Part) (doc : PyVal) (hne : parts ≠ []) (hs : StepsOk parts) (hwf : DocWF doc) :
    ∀ nq ∈ walk childrenOf parts doc [], index doc nq.2 = some nq.1 := by
  obtain ⟨nodes, paths, h, hz, _⟩ := C03_walk parts doc hne hs
  have ht := C07C.walkParts_truth_first doc ((docWF_iff doc).1 hwf) parts nodes paths h hne
  intro nq hnq
  rw [← hz] at hnq
  exact (ht nq hnq).1

end ValidaProofs.C04M
