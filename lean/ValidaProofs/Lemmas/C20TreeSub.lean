/-
  ValidaProofs.Lemmas.C20TreeSub — the sub-tree below `from_path`: every node must have a `path` of
  its own when the last component of `from_path` is put back (`item["path"]` is read), which holds
  when the rule paths of the sub-tree are closed, its root included.
-/
import Valida.Tree
import ValidaProofs.Lemmas.C20Tree
import ValidaProofs.Lemmas.C20TreeOrder
import ValidaProofs.Lemmas.C20TreeFold
import ValidaProofs.Lemmas.C20TreeReq
import ValidaProofs.Lemmas.C20TreeFlat
import ValidaProofs.Lemmas.C20TreeSort
import ValidaProofs.Lemmas.C20TreeGen
namespace ValidaProofs.C20H
open Valida ValidaGen ValidaProofs.C20L

/-- putting the last component of `from_path` back on to a node -/
def reattach (s d : String) (i : TItem) : TItem :=
  { i with pathStr := s :: i.pathStr, path := i.path.map (d :: ·) }

theorem toTreeFlat_some_ok_iff (rules : List TRule) (fromStr : List String) (s d : String) (flat : List TItem) :
    toTreeFlat rules fromStr (some s) (some d) = .ok flat ↔
      ∃ lst, Assigned rules fromStr lst ∧ lst.any (fun i => i.path.isNone) = false ∧ flat = lst.map (reattach s d) := by
  rw [toTreeFlat_some]
  unfold Assigned
  cases ha : assignParents (sortedItems rules fromStr) [([], -1)] 0 with
  | error e =>
    constructor
    · intro h; cases h
    · rintro ⟨lst, hl, _⟩; cases hl
  | ok lst =>
    show (if lst.any (fun i => i.path.isNone) then Except.error Exc.keyError
      else Except.ok (lst.map (reattach s d))) = Except.ok flat ↔ _
    constructor
    · intro h
      split at h
      · cases h
      · rename_i hany
        refine ⟨lst, rfl, by simpa using hany, ?_⟩
        cases h; rfl
    · rintro ⟨lst', hl, hany, rfl⟩
      cases hl
      rw [if_neg (by simp [hany])]

/-! ### `path` is never taken away -/

theorem stepOps_path_mono (r : TRule) (idx k : Nat) (sel : Bool) :
    ∀ o ∈ stepOps r idx k sel, ∀ i, i.path.isSome = true → (o.f i).path.isSome = true := by
  intro o ho i hi
  rw [stepOps_cons, List.mem_cons] at ho
  rcases ho with rfl | ho
  · rfl
  · rw [((restOps_rule_path r k sel o ho).1 i).2]; exact hi

/-- a node without `path` sits at the path of a rule of the sub-tree or at an implicitly typed parent -/
def PathJ (fromStr : List String) (all : List (Nat × TRule)) (it : TItem) : Prop :=
  it.path = none → ∃ ir ∈ all, Sel fromStr ir.2 ∧
    (it.pathStr = rel fromStr ir.2 ∨ it.pathStr = [] ∨ it.pathStr = (rel fromStr ir.2).dropLast)

theorem stepOps_init_path (fromStr : List String) (r : TRule) (idx : Nat) (sel : Bool) :
    ∀ o ∈ stepOps r idx fromStr.length sel, (o.f o.init).path = none →
      (o.k = rel fromStr r ∨ o.k = [] ∨ o.k = (rel fromStr r).dropLast) := by
  apply forall_stepOps
  · intro h; cases h
  · intro l _ kd _ h; cases h
  · intro _; exact Or.inl rfl
  · intro _; exact Or.inl rfl
  · intro p _
    right
    show parentStrOf r _ = [] ∨ parentStrOf r _ = _
    unfold parentStrOf
    split
    · exact Or.inl rfl
    · exact Or.inr rfl
  · intro _
    right
    show parentStrOf r _ = [] ∨ parentStrOf r _ = _
    unfold parentStrOf
    split
    · exact Or.inl rfl
    · exact Or.inr rfl
  · intro _
    right
    show parentStrOf r _ = [] ∨ parentStrOf r _ = _
    unfold parentStrOf
    split
    · exact Or.inl rfl
    · exact Or.inr rfl
  · intro _; exact Or.inl rfl

theorem stepsFrom_pathJ (fromStr : List String) (all : List (Nat × TRule)) (irs : List (Nat × TRule))
    (hsub : ∀ ir ∈ irs, ir ∈ all) :
    ∀ (items : Items), (∀ it ∈ items, PathJ fromStr all it) →
      ∀ it ∈ stepsFrom fromStr irs items, PathJ fromStr all it := by
  induction irs with
  | nil => intro items h; exact h
  | cons ir irs ih =>
    intro items h
    rw [stepsFrom_cons]
    apply ih (fun x hx => hsub x (by simp [hx]))
    apply treeStep_forall (PathJ fromStr all)
    · intro hs sel o ho
      have hwf := stepOps_WF ir.2 ir.1 fromStr.length sel o ho
      refine ⟨fun i _ hJ hnone => ?_, fun hnone => ?_⟩
      · rw [hwf.1]
        apply hJ
        cases hp : i.path with
        | none => rfl
        | some v =>
          have := stepOps_path_mono ir.2 ir.1 fromStr.length sel o ho i (by simp [hp])
          rw [hnone] at this
          cases this
      · rw [hwf.1, hwf.2]
        exact ⟨ir, hsub ir (by simp), hs, stepOps_init_path fromStr ir.2 ir.1 sel o ho hnone⟩
    · exact h

/-! ### the node of a rule has a `path` -/

theorem stepsFrom_keeps_path (fromStr : List String) (irs : List (Nat × TRule)) :
    ∀ (items : Items), ∀ it ∈ items, it.path.isSome = true →
      ∃ it' ∈ stepsFrom fromStr irs items, it'.pathStr = it.pathStr ∧ it'.path.isSome = true := by
  induction irs with
  | nil => intro items it h hp; exact ⟨it, h, rfl, hp⟩
  | cons ir irs ih =>
    intro items it h hp
    rw [stepsFrom_cons]
    have h1 : ∃ it1 ∈ treeStep fromStr items ir.1 ir.2, it1.pathStr = it.pathStr ∧ it1.path.isSome = true := by
      by_cases hs : Sel fromStr ir.2
      · obtain ⟨sel, he⟩ := treeStep_sel fromStr items ir.1 ir.2 hs
        rw [he]
        obtain ⟨it1, h1, r1⟩ := applyOps_fwd
          (fun a b => b.pathStr = a.pathStr ∧ (a.path.isSome = true → b.path.isSome = true))
          (fun _ => ⟨rfl, fun h => h⟩)
          (fun a b c h1 h2 => ⟨h2.1.trans h1.1, fun h => h2.2 (h1.2 h)⟩)
          (stepOps ir.2 ir.1 fromStr.length sel)
          (fun o ho i _ => ⟨(stepOps_WF ir.2 ir.1 _ sel o ho).1 i,
            stepOps_path_mono ir.2 ir.1 _ sel o ho i⟩) items it h
        exact ⟨it1, h1, r1.1, r1.2 hp⟩
      · rw [treeStep_not_sel fromStr items ir.1 ir.2 hs]
        exact ⟨it, h, rfl, hp⟩
    obtain ⟨it1, h1, hk1, hp1⟩ := h1
    obtain ⟨it2, h2, hk2, hp2⟩ := ih _ it1 h1 hp1
    exact ⟨it2, h2, hk2.trans hk1, hp2⟩

theorem stepsFrom_rule_path (fromStr : List String) (irs : List (Nat × TRule)) :
    ∀ (items : Items), ∀ ir ∈ irs, Sel fromStr ir.2 →
      ∃ it ∈ stepsFrom fromStr irs items, it.pathStr = rel fromStr ir.2 ∧ it.path.isSome = true := by
  induction irs with
  | nil => intro items ir h; cases h
  | cons ir0 irs ih =>
    intro items ir hir hs
    rw [stepsFrom_cons]
    rcases List.mem_cons.1 hir with rfl | hir
    · obtain ⟨sel, he⟩ := treeStep_sel fromStr items ir.1 ir.2 hs
      have hmem : opRule (ir.2.partStrs.drop fromStr.length) (ir.2.simpleDisp.drop fromStr.length) ir.1 ∈
          stepOps ir.2 ir.1 fromStr.length sel := by rw [stepOps_cons]; simp
      obtain ⟨it1, h1, hk1, hp1⟩ := applyOps_has
        (fun it => it.pathStr = rel fromStr ir.2 ∧ it.path.isSome = true) _ _ hmem rfl
        (fun i hi => ⟨hi, rfl⟩)
        (fun o' ho' i hi => ⟨((stepOps_WF ir.2 ir.1 _ sel o' ho').1 i).trans hi.1,
          stepOps_path_mono ir.2 ir.1 _ sel o' ho' i hi.2⟩) items
      rw [← he] at h1
      obtain ⟨it2, h2, hk2, hp2⟩ := stepsFrom_keeps_path fromStr irs _ it1 h1 hp1
      exact ⟨it2, h2, hk2.trans hk1, hp2⟩
    · exact ih _ ir hir hs

/-! ### closure gives every node a `path` -/

theorem root_of_closed (fromStr : List String) (rules : List TRule) (h : SubtreeClosed fromStr rules) :
    ∀ (n : Nat) (r : TRule), r ∈ rules → Sel fromStr r → (rel fromStr r).length = n →
      ∃ r0 ∈ rules, Sel fromStr r0 ∧ rel fromStr r0 = [] := by
  intro n
  induction n with
  | zero =>
    intro r hr hs hl
    exact ⟨r, hr, hs, List.length_eq_zero_iff.1 hl⟩
  | succ n ih =>
    intro r hr hs hl
    have hne : rel fromStr r ≠ [] := by
      intro e; rw [e] at hl; cases hl
    obtain ⟨r', hr', hs', hk⟩ := h r hr hs hne
    exact ih r' hr' hs' (by rw [hk, List.length_dropLast, hl]; rfl)

theorem gen_paths_some (rules : List TRule) (fromStr : List String) (lst : List TItem)
    (h : Assigned rules fromStr lst) (hc : SubtreeClosed fromStr rules) :
    lst.any (fun i => i.path.isNone) = false := by
  rw [Bool.eq_false_iff]
  intro hany
  obtain ⟨it, hit, hnone⟩ := List.any_eq_true.1 hany
  obtain ⟨it0, h0, he⟩ := (assigned_mem rules fromStr lst h).1 it hit
  have hp0 : it0.path = none := by
    have := congrArg TItem.path he
    rw [noParent_path, noParent_path] at this
    rw [← this]
    simpa using hnone
  have hJ := stepsFrom_pathJ fromStr (List.zip (List.range rules.length) rules) _ (fun _ hx => hx) []
    (by intro x hx; cases hx) it0 h0 hp0
  obtain ⟨ir, hir, hs, hkey⟩ := hJ
  have hr := enum_mem_rules rules ir hir
  -- the key is the path of a rule of the sub-tree
  have hrule : ∃ r' ∈ rules, Sel fromStr r' ∧ rel fromStr r' = it0.pathStr := by
    rcases hkey with hk | hk | hk
    · exact ⟨ir.2, hr, hs, hk.symm⟩
    · obtain ⟨r0, hr0, hs0, hk0⟩ := root_of_closed fromStr rules hc _ ir.2 hr hs rfl
      exact ⟨r0, hr0, hs0, hk0.trans hk.symm⟩
    · by_cases hne : rel fromStr ir.2 = []
      · refine ⟨ir.2, hr, hs, ?_⟩
        rw [hk, hne]; rfl
      · obtain ⟨r', hr', hs', hk'⟩ := hc ir.2 hr hs hne
        exact ⟨r', hr', hs', hk'.trans hk.symm⟩
  obtain ⟨r', hr', hs', hk'⟩ := hrule
  obtain ⟨j, hj⟩ := mem_rules_enum rules r' hr'
  obtain ⟨it1, h1, hk1, hp1⟩ := stepsFrom_rule_path fromStr _ [] (j, r') hj hs'
  have : it1 = it0 := eq_of_key_eq _ (treeItems_keys_nodup rules fromStr) it1 it0 h1 h0 (hk1.trans hk')
  rw [this, hp0] at hp1
  cases hp1

end ValidaProofs.C20H
