/-
  ValidaProofs.Lemmas.C07Total — helper lemmas for C07: the frontier walk, `get_data` and the
  selection of a modifier-free path raise nothing but the pseudo-outcome; shape of the selection.
-/
import Valida.Rule
import ValidaProofs.Lemmas.Basic
import ValidaProofs.C02
import ValidaProofs.C03
namespace ValidaProofs.C07L
open Valida ValidaGen

theorem stepFrontier_cons (part : Part) (first : Bool) (node : PyVal) (rest : List PyVal)
    (paths : List (List PyVal)) (idx : Nat) :
    stepFrontier part first (node :: rest) paths idx =
      match stepNode part node with
      | .error e => .error e
      | .ok kvs =>
        match (if first then (.ok (kvs.map (fun kv => [kv.1])) : Except Exc (List (List PyVal)))
               else match paths[idx]? with
                 | some pre => .ok (kvs.map (fun kv => pre ++ [kv.1]))
                 | none => if kvs.isEmpty then .ok [] else .error .indexError) with
        | .error e => .error e
        | .ok newPaths =>
          match stepFrontier part first rest paths (idx + 1) with
          | .error e => .error e
          | .ok (d', p') => .ok (kvs.map (·.2) ++ d', newPaths ++ p') := by
  simp only [stepFrontier, bind, Except.bind, pure, Except.pure]
  cases stepNode part node with
  | error e => rfl
  | ok kvs =>
    simp only
    cases first with
    | true =>
      simp only [if_true]
      cases stepFrontier part true rest paths (idx + 1) with
      | error e => rfl
      | ok r => rfl
    | false =>
      simp only [Bool.false_eq_true, if_false]
      cases paths[idx]? with
      | some pre =>
        simp only
        cases stepFrontier part false rest paths (idx + 1) with
        | error e => rfl
        | ok r => rfl
      | none =>
        simp only [throw, throwThe, MonadExceptOf.throw]
        cases kvs.isEmpty with
        | true =>
          simp only [if_true]
          cases stepFrontier part false rest paths (idx + 1) with
          | error e => rfl
          | ok r => rfl
        | false => rfl

theorem stepFrontier_len (part : Part) (first : Bool) (paths : List (List PyVal)) :
    ∀ (data : List PyVal) (idx : Nat) (d' : List PyVal) (p' : List (List PyVal)),
      stepFrontier part first data paths idx = .ok (d', p') → d'.length = p'.length := by
  intro data
  induction data with
  | nil => intro idx d' p' h; simp [stepFrontier] at h; obtain ⟨rfl, rfl⟩ := h; rfl
  | cons node rest ih =>
    intro idx d' p' h
    rw [stepFrontier_cons] at h
    split at h
    · cases h
    · rename_i kvs _
      split at h
      · cases h
      · rename_i newPaths hnp
        split at h
        · cases h
        · rename_i d1 p1 hrest
          cases h
          have h1 := ih _ _ _ hrest
          have h2 : newPaths.length = kvs.length := by
            split at hnp
            · cases hnp; simp
            · split at hnp
              · cases hnp; simp
              · split at hnp
                · rename_i he; cases hnp; simp only [List.isEmpty_iff] at he; simp [he]
                · cases hnp
          simp [h1, h2]

theorem stepFrontier_err (part : Part) (first : Bool) (paths : List (List PyVal)) :
    ∀ (data : List PyVal) (idx : Nat), (first = true ∨ idx + data.length ≤ paths.length) →
      ∀ e, stepFrontier part first data paths idx = .error e → e = .unmodelled := by
  intro data
  induction data with
  | nil => intro idx _ e h; simp [stepFrontier] at h
  | cons node rest ih =>
    intro idx hlen e h
    rw [stepFrontier_cons] at h
    split at h
    · rename_i e' he'
      cases h
      exact C03_step_total part node _ he'
    · rename_i kvs _
      split at h
      · rename_i e' hnp
        cases h
        split at hnp
        · cases hnp
        · rename_i hf
          have hlt : idx < paths.length := by
            rcases hlen with h | h
            · exact absurd h hf
            · simp only [List.length_cons] at h; omega
          rw [List.getElem?_eq_getElem hlt] at hnp
          cases hnp
      · split at h
        · rename_i e' hrest
          cases h
          refine ih (idx + 1) ?_ _ hrest
          rcases hlen with h | h
          · exact Or.inl h
          · right; simp only [List.length_cons] at h; omega
        · cases h

theorem walkParts_cons (part : Part) (rest : List Part) (first : Bool) (data : List PyVal)
    (paths : List (List PyVal)) :
    walkParts (part :: rest) first data paths =
      match stepFrontier part first data paths 0 with
      | .error e => .error e
      | .ok (d', p') => walkParts rest false d' p' := by
  simp only [walkParts, bind, Except.bind]
  cases stepFrontier part first data paths 0 with
  | error e => rfl
  | ok r => rfl

theorem walkParts_err (parts : List Part) :
    ∀ (first : Bool) (data : List PyVal) (paths : List (List PyVal)),
      (first = true ∨ data.length = paths.length) →
      ∀ e, walkParts parts first data paths = .error e → e = .unmodelled := by
  induction parts with
  | nil => intro first data paths _ e h; simp [walkParts] at h
  | cons part rest ih =>
    intro first data paths hlen e h
    rw [walkParts_cons] at h
    split at h
    · rename_i e' he'
      cases h
      refine stepFrontier_err part first paths data 0 ?_ _ he'
      rcases hlen with h | h
      · exact Or.inl h
      · right; omega
    · rename_i d' p' hsf
      exact ih false d' p' (Or.inr (stepFrontier_len _ _ _ _ _ _ _ hsf)) e h

theorem mapM_datum_none (xs : List PyVal) : xs.mapM (datumFn .none) = .ok xs := by
  induction xs with
  | nil => rfl
  | cons x xs ih => simp [List.mapM_cons, ih, datumFn, bind, Except.bind, pure, Except.pure]

/-- shape of a `(value, path)` tuple -/
def IsPair (x : PyVal) : Prop := ∃ v q, x = PyVal.tuple [v, PyVal.tuple q]

theorem getData_eq (p : Path) (doc : PyVal) (hs : p.source = none) (hd : p.datum = .none)
    (hm : p.multi = .none) :
    p.getData (some doc) true =
      if PyVal.truthy doc then
        if p.parts.isEmpty then .ok (.tuple [doc, .tuple []])
        else match walkParts p.parts true [doc] [] with
          | .error e => .error e
          | .ok (nodes, paths) =>
            if nodes.isEmpty then .ok (if p.concrete then .none else .list [])
            else if p.concrete then
              (match ((nodes.zip paths).map (fun vp => PyVal.tuple [vp.1, .tuple vp.2])).head? with
               | some v => .ok v
               | none => .error .indexError)
            else .ok (.list ((nodes.zip paths).map (fun vp => PyVal.tuple [vp.1, .tuple vp.2])))
      else .error .valueError := by
  unfold Path.getData
  simp only [hs, hd, hm, bind, Except.bind, pure, Except.pure]
  cases PyVal.truthy doc with
  | false => rfl
  | true =>
    simp only [if_true]
    cases p.parts.isEmpty with
    | true => simp [datumFn]
    | false =>
      simp only [Bool.false_eq_true, if_false]
      cases walkParts p.parts true [doc] [] with
      | error e => rfl
      | ok r =>
        obtain ⟨nodes, paths⟩ := r
        simp only [mapM_datum_none]
        cases nodes.isEmpty with
        | true => rfl
        | false =>
          simp only [Bool.false_eq_true, if_false, matchMulti]
          cases p.concrete <;> rfl


theorem head?_pairs_isPair (zs : List (PyVal × List PyVal)) (v : PyVal)
    (h : (zs.map (fun vp => PyVal.tuple [vp.1, .tuple vp.2])).head? = some v) : IsPair v := by
  cases zs with
  | nil => simp at h
  | cons z zs => simp at h; exact ⟨z.1, z.2, h.symm⟩

theorem getData_err (p : Path) (doc : PyVal) (hs : p.source = none) (hd : p.datum = .none)
    (hm : p.multi = .none) (hdoc : PyVal.truthy doc = true) :
    ∀ e, p.getData (some doc) true = .error e → e = .unmodelled := by
  intro e h
  rw [getData_eq p doc hs hd hm, hdoc] at h
  simp only [if_true] at h
  split at h
  · cases h
  · rename_i hne
    split at h
    · rename_i e' he'
      cases h
      exact walkParts_err _ _ _ _ (Or.inl rfl) _ he'
    · rename_i nodes paths hw
      have hlen : nodes.length = paths.length :=
        C03_lockstep p.parts true [doc] [] nodes paths (Or.inl rfl) hw (by
          intro h0; rw [h0] at hne; exact hne rfl)
      split at h
      · cases h
      · rename_i hnodes
        split at h
        · split at h
          · cases h
          · rename_i hhead
            exfalso
            cases nodes with
            | nil => exact hnodes rfl
            | cons n ns =>
              cases paths with
              | nil => simp at hlen
              | cons q qs => simp at hhead
        · cases h

theorem getData_cases (p : Path) (doc : PyVal) (hs : p.source = none) (hd : p.datum = .none)
    (hm : p.multi = .none) (s : PyVal) (h : p.getData (some doc) true = .ok s) :
    s = .none ∨ s = .list [] ∨ IsPair s ∨
      (∃ out, s = .list out ∧ p.concrete = false ∧ ∀ x ∈ out, IsPair x) := by
  rw [getData_eq p doc hs hd hm] at h
  split at h
  · split at h
    · cases h; exact Or.inr (Or.inr (Or.inl ⟨_, _, rfl⟩))
    · split at h
      · cases h
      · rename_i nodes paths hw
        split at h
        · cases h
          cases p.concrete
          · exact Or.inr (Or.inl rfl)
          · exact Or.inl rfl
        · split at h
          · split at h
            · rename_i v hv
              cases h
              exact Or.inr (Or.inr (Or.inl (head?_pairs_isPair _ _ hv)))
            · cases h
          · rename_i hc
            cases h
            refine Or.inr (Or.inr (Or.inr ⟨_, rfl, by simpa using hc, ?_⟩))
            intro x hx
            obtain ⟨z, _, rfl⟩ := List.mem_map.1 hx
            exact ⟨z.1, z.2, rfl⟩
  · cases h

theorem selection_eq (p : Path) (doc : PyVal) (hd : p.datum = .none) (hm : p.multi = .none) :
    selection p doc =
      match p.getData (some doc) true with
      | .error e => .error e
      | .ok sub =>
        match sub with
        | .none => .ok none
        | .list [] => .ok none
        | .list xs => if p.concrete then .ok (some [sub]) else .ok (some xs)
        | other => if p.concrete then .ok (some [other]) else .error .unmodelled := by
  simp only [selection, hd, hm, bind, Except.bind, pure, Except.pure]
  cases p.getData (some doc) true with
  | error e => rfl
  | ok sub => rfl

theorem selection_err (p : Path) (doc : PyVal) (hd : p.datum = .none) (hm : p.multi = .none)
    (hs : p.source = none) (hdoc : PyVal.truthy doc = true) :
    ∀ e, selection p doc = .error e → e = .unmodelled := by
  intro e h
  rw [selection_eq p doc hd hm] at h
  split at h
  · rename_i e' he'
    cases h
    exact getData_err p doc hs hd hm hdoc _ he'
  · split at h
    · cases h
    · cases h
    · split at h <;> cases h
    · split at h
      · cases h
      · cases h; rfl

theorem selection_shape (p : Path) (doc : PyVal) (hd : p.datum = .none) (hm : p.multi = .none)
    (hs : p.source = none) (sub : List PyVal) (h : selection p doc = .ok (some sub)) :
    sub ≠ [] ∧ ∀ x ∈ sub, IsPair x := by
  rw [selection_eq p doc hd hm] at h
  split at h
  · cases h
  · rename_i s hg
    rcases getData_cases p doc hs hd hm s hg with rfl | rfl | ⟨v, q, rfl⟩ | ⟨out, rfl, hc, hout⟩
    · simp at h
    · simp at h
    · simp only at h
      split at h
      · cases h
        exact ⟨by simp, by intro x hx; simp at hx; subst hx; exact ⟨v, q, rfl⟩⟩
      · cases h
    · cases out with
      | nil => simp at h
      | cons x xs =>
        simp only [hc, Bool.false_eq_true, if_false] at h
        cases h
        exact ⟨by simp, hout⟩

end ValidaProofs.C07L
