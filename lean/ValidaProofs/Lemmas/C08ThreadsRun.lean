/-
  ValidaProofs.Lemmas.C08ThreadsRun — the invariant of an interleaved run (`Valida.Sched.run`).

  Every thread `k` has a private region of the shared store: the image, under a renaming `Φ k`, of the
  store `A k` that the executed prefix of its program produces when run alone from the initial store
  (cells from `s0.size` on).  Regions of different threads are disjoint and lie above `s0.size`; cells
  below `s0.size` are as in `s0`.  A step of a thread changes the shared store only inside that
  thread's region (and appends), and is mirrored by the same step of the alone run.
-/
import Valida.Sched
import ValidaProofs.Lemmas.C08Store
import ValidaProofs.Lemmas.C08ThreadsEmb
import ValidaProofs.Lemmas.C08ThreadsAlloc
namespace ValidaProofs.C08T
open Valida ValidaGen Valida.Sched
open ValidaProofs.C08L

abbrev Job := PyVal × List (List PyVal × PyVal)

/-- the write actions of a program -/
def wacts (ws : List (List PyVal × PyVal)) : List Act := ws.map (fun w => Act.write w.1 w.2)

/-- the thread a job starts as -/
def start (j : Job) : Thread := { pending := program j.1 j.2, root := none }

/-! ### writes as total steps -/

theorem wr_size_le (s : Store) (r : Nat) (p : List PyVal) (v : PyVal) : s.size ≤ (wr s r p v).size := by
  unfold wr
  cases h : Store.setAt s r p v with
  | none => exact Nat.le_refl _
  | some s' => exact (rewrites_frame (setAt_rewrites s v s' p r h)).1

theorem writes_cons (s : Store) (r : Nat) (p : List PyVal) (v : PyVal) (ws : List (List PyVal × PyVal)) :
    Store.writes s r ((p, v) :: ws) = Store.writes (wr s r p v) r ws := by
  simp only [Store.writes, wr]
  cases Store.setAt s r p v <;> rfl

theorem writes_snoc (r : Nat) (p : List PyVal) (v : PyVal) :
    ∀ (ws : List (List PyVal × PyVal)) (s : Store),
      Store.writes s r (ws ++ [(p, v)]) = wr (Store.writes s r ws) r p v := by
  intro ws
  induction ws with
  | nil => intro s; rw [List.nil_append, writes_cons]; rfl
  | cons w ws ih =>
    intro s
    obtain ⟨p', v'⟩ := w
    rw [List.cons_append, writes_cons, writes_cons, ih]

theorem writes_size_le (r : Nat) : ∀ (ws : List (List PyVal × PyVal)) (s : Store),
    s.size ≤ (Store.writes s r ws).size := by
  intro ws
  induction ws with
  | nil => intro s; exact Nat.le_refl _
  | cons w ws ih =>
    intro s
    obtain ⟨p, v⟩ := w
    rw [writes_cons]
    exact Nat.le_trans (wr_size_le s r p v) (ih _)

/-! ### the invariant -/

/-- replace the value of a function at one argument -/
def updf {α : Type} (f : Nat → α) (i : Nat) (x : α) : Nat → α := fun k => if k = i then x else f k

theorem updf_same {α : Type} (f : Nat → α) (i : Nat) (x : α) : updf f i x i = x := by simp [updf]

theorem updf_ne {α : Type} (f : Nat → α) (i : Nat) (x : α) (k : Nat) (h : k ≠ i) : updf f i x k = f k := by
  simp [updf, h]

/-- where a thread stands: not started (`a` is the initial store), or it has allocated its copy and
    executed the writes `done` – `a` is what the alone run of that prefix gives – with `rest` pending -/
def TState (fuel : Nat) (s0 : Store) (job : Job) (t : Thread) (a : Store) (φ : Nat → Nat) : Prop :=
  (t.root = none ∧ t.pending = program job.1 job.2 ∧ a = s0) ∨
  (∃ done rest, job.2 = done ++ rest ∧ t.pending = wacts rest ∧
    t.root = some (φ (Store.alloc s0 fuel job.1).2) ∧
    a = Store.writes (Store.alloc s0 fuel job.1).1 (Store.alloc s0 fuel job.1).2 done)

structure Inv (fuel : Nat) (s0 : Store) (jobs : List Job) (s : Store) (ts : List Thread)
    (A : Nat → Store) (Φ : Nat → Nat → Nat) : Prop where
  len : ts.length = jobs.length
  size : s0.size ≤ s.size
  below : ∀ i, i < s0.size → s[i]? = s0[i]?
  emb : ∀ k, k < jobs.length → Emb (Φ k) s0.size (A k) s
  disj : ∀ j k, j < jobs.length → k < jobs.length → j ≠ k →
    ∀ i i', s0.size ≤ i → i < (A j).size → s0.size ≤ i' → i' < (A k).size → Φ j i ≠ Φ k i'
  thr : ∀ k (hk : k < jobs.length) t, ts[k]? = some t → TState fuel s0 jobs[k] t (A k) (Φ k)

theorem inv_init (fuel : Nat) (s0 : Store) (jobs : List Job) :
    Inv fuel s0 jobs s0 (jobs.map start) (fun _ => s0) (fun _ => id) := by
  refine ⟨by simp, Nat.le_refl _, fun _ _ => rfl, fun _ _ => emb_empty _ _ _, ?_, ?_⟩
  · intro j k _ _ _ i i' h1 h2; omega
  · intro k hk t ht
    rw [List.getElem?_map, List.getElem?_eq_getElem hk] at ht
    simp only [Option.map_some, Option.some.injEq] at ht
    subst ht
    exact Or.inl ⟨rfl, rfl, rfl⟩

/-- one thread moves: the store changes only inside its region (and grows), its alone store and
    renaming are replaced -/
theorem inv_update {fuel : Nat} {s0 : Store} {jobs : List Job} {s : Store} {ts : List Thread}
    {A : Nat → Store} {Φ : Nat → Nat → Nat} (I : Inv fuel s0 jobs s ts A Φ) (i : Nat) (hi : i < jobs.length)
    (s' a' : Store) (φ' : Nat → Nat) (t' : Thread)
    (hsz : s.size ≤ s'.size)
    (hframe : ∀ j, j < s.size → (∀ x, s0.size ≤ x → x < (A i).size → j ≠ Φ i x) → s'[j]? = s[j]?)
    (hE : Emb φ' s0.size a' s')
    (hnew : ∀ x, s0.size ≤ x → x < a'.size → (x < (A i).size ∧ φ' x = Φ i x) ∨ s.size ≤ φ' x)
    (hT : TState fuel s0 jobs[i] t' a' φ') :
    Inv fuel s0 jobs s' (ts.set i t') (updf A i a') (updf Φ i φ') := by
  have hothers : ∀ k, k < jobs.length → k ≠ i → ∀ x, s0.size ≤ x → x < (A k).size →
      Φ k x < s.size ∧ s'[Φ k x]? = s[Φ k x]? := by
    intro k hk hki x hx1 hx2
    have hb := (I.emb k hk).bound x hx1 hx2
    exact ⟨hb, hframe _ hb (fun y hy1 hy2 => I.disj k i hk hi hki x y hx1 hx2 hy1 hy2)⟩
  refine ⟨?_, ?_, ?_, ?_, ?_, ?_⟩
  · rw [List.length_set]; exact I.len
  · exact Nat.le_trans I.size hsz
  · intro j hj
    rw [hframe j (Nat.lt_of_lt_of_le hj I.size), I.below j hj]
    intro x hx1 hx2 e
    have := (I.emb i hi).lo x hx1 hx2
    omega
  · intro k hk
    by_cases hki : k = i
    · subst hki; rw [updf_same, updf_same]; exact hE
    · rw [updf_ne _ _ _ _ hki, updf_ne _ _ _ _ hki]
      exact (I.emb k hk).frame (fun x hx1 hx2 => (hothers k hk hki x hx1 hx2).2)
  · intro j k hj hk hjk x y hx1 hx2 hy1 hy2
    by_cases hji : j = i
    · subst hji
      have hki : k ≠ j := fun e => hjk e.symm
      rw [updf_same] at hx2 ⊢
      rw [updf_ne _ _ _ _ hki] at hy2 ⊢
      rcases hnew x hx1 hx2 with ⟨h1, h2⟩ | h
      · rw [h2]; exact I.disj j k hj hk hjk x y hx1 h1 hy1 hy2
      · have := (hothers k hk hki y hy1 hy2).1; omega
    · rw [updf_ne _ _ _ _ hji] at hx2 ⊢
      by_cases hki : k = i
      · subst hki
        rw [updf_same] at hy2 ⊢
        rcases hnew y hy1 hy2 with ⟨h1, h2⟩ | h
        · rw [h2]; exact I.disj j k hj hk hjk x y hx1 hx2 hy1 h1
        · have := (hothers j hj hji x hx1 hx2).1; omega
      · rw [updf_ne _ _ _ _ hki] at hy2 ⊢
        exact I.disj j k hj hk hjk x y hx1 hx2 hy1 hy2
  · intro k hk t ht
    by_cases hki : k = i
    · subst hki
      rw [List.getElem?_set_self (by rw [I.len]; exact hk)] at ht
      cases ht
      rw [updf_same, updf_same]; exact hT
    · rw [List.getElem?_set_ne (fun e => hki e.symm)] at ht
      rw [updf_ne _ _ _ _ hki, updf_ne _ _ _ _ hki]
      exact I.thr k hk t ht

/-- the root of an allocated copy lies in the alone store of every executed prefix -/
theorem root_in (fuel : Nat) (s0 : Store) (doc : PyVal) (done : List (List PyVal × PyVal)) :
    s0.size ≤ (Store.alloc s0 fuel doc).2 ∧
      (Store.alloc s0 fuel doc).2 <
        (Store.writes (Store.alloc s0 fuel doc).1 (Store.alloc s0 fuel doc).2 done).size := by
  have OK := alloc_ok fuel s0 doc
  exact ⟨OK.lo, Nat.lt_of_lt_of_le OK.hi (writes_size_le _ _ _)⟩

theorem stepThread_alloc (fuel : Nat) (s : Store) (t : Thread) (v : PyVal) (rest : List Act)
    (h : t.pending = .alloc v :: rest) :
    stepThread fuel s t =
      ((Store.alloc s fuel v).1, { pending := rest, root := some (Store.alloc s fuel v).2 }) := by
  unfold stepThread
  rw [h]

theorem stepThread_nil (fuel : Nat) (s : Store) (t : Thread) (h : t.pending = []) :
    stepThread fuel s t = (s, t) := by
  unfold stepThread
  rw [h]

theorem stepThread_write (fuel : Nat) (s : Store) (t : Thread) (p : List PyVal) (v : PyVal)
    (rest : List Act) (r : Nat) (h : t.pending = .write p v :: rest) (hr : t.root = some r) :
    stepThread fuel s t = (wr s r p v, { t with pending := rest }) := by
  unfold stepThread
  rw [h]
  simp only [hr, wr]
  cases Store.setAt s r p v <;> rfl

theorem inv_step {fuel : Nat} {s0 : Store} {jobs : List Job} {s : Store} {ts : List Thread}
    {A : Nat → Store} {Φ : Nat → Nat → Nat} (I : Inv fuel s0 jobs s ts A Φ) (i : Nat) (t : Thread)
    (ht : ts[i]? = some t) :
    ∃ A' Φ', Inv fuel s0 jobs (stepThread fuel s t).1 (ts.set i (stepThread fuel s t).2) A' Φ' := by
  have hi : i < jobs.length := by
    rw [← I.len]
    rcases Nat.lt_or_ge i ts.length with h | h
    · exact h
    · rw [List.getElem?_eq_none h] at ht; cases ht
  rcases I.thr i hi t ht with ⟨hroot, hpend, ha⟩ | ⟨done, rest, hjob, hpend, hroot, ha⟩
  · -- the thread allocates its copy
    rw [stepThread_alloc fuel s t _ _ hpend]
    obtain ⟨hE, hr, hlo⟩ := alloc_emb s0 s fuel jobs[i].1 I.size
    have OK := alloc_ok fuel s jobs[i].1
    refine ⟨_, _, inv_update I i hi _ (Store.alloc s0 fuel jobs[i].1).1 (sh s0.size s.size) _
      OK.ext.size_le (fun j hj _ => OK.ext.below j hj) hE (fun x hx _ => Or.inr (hlo x hx)) ?_⟩
    exact Or.inr ⟨[], jobs[i].2, rfl, rfl, by rw [hr], rfl⟩
  · cases rest with
    | nil =>
      -- the thread has finished
      rw [stepThread_nil fuel s t hpend]
      refine ⟨_, _, inv_update I i hi s (A i) (Φ i) t (Nat.le_refl _) (fun _ _ _ => rfl) (I.emb i hi)
        (fun x _ hx => Or.inl ⟨hx, rfl⟩) (I.thr i hi t ht)⟩
    | cons w rest' =>
      -- the thread writes
      obtain ⟨p, v⟩ := w
      rw [stepThread_write fuel s t p v (wacts rest') _ hpend hroot]
      obtain ⟨hr1, hr2⟩ := root_in fuel s0 jobs[i].1 done
      rw [← ha] at hr2
      obtain ⟨φ', hE, hagree, hsa, hss, hnew, hframe⟩ :=
        wr_sim (I.emb i hi) I.size p v (Store.alloc s0 fuel jobs[i].1).2 hr1 hr2
      refine ⟨_, _, inv_update I i hi _ (wr (A i) (Store.alloc s0 fuel jobs[i].1).2 p v) φ' _
        hss hframe hE ?_ ?_⟩
      · intro x hx1 hx2
        rcases hnew x hx1 hx2 with h | h
        · exact Or.inl ⟨h, hagree x h⟩
        · exact Or.inr (by omega)
      · refine Or.inr ⟨done ++ [(p, v)], rest', ?_, rfl, ?_, ?_⟩
        · rw [hjob, List.append_assoc]; rfl
        · show t.root = _
          rw [hroot, hagree _ hr2]
        · rw [writes_snoc, ← ha]

theorem inv_run (fuel : Nat) (s0 : Store) (jobs : List Job) :
    ∀ (sched : List Nat) (s : Store) (ts : List Thread) (A : Nat → Store) (Φ : Nat → Nat → Nat),
      Inv fuel s0 jobs s ts A Φ →
      ∃ A' Φ', Inv fuel s0 jobs (run fuel s ts sched).1 (run fuel s ts sched).2 A' Φ' := by
  intro sched
  induction sched with
  | nil => intro s ts A Φ I; exact ⟨A, Φ, I⟩
  | cons i sched ih =>
    intro s ts A Φ I
    simp only [run]
    cases ht : ts[i]? with
    | none => exact ih s ts A Φ I
    | some t =>
      obtain ⟨A', Φ', I'⟩ := inv_step I i t ht
      exact ih _ _ A' Φ' I'

/-! ### what the invariant gives -/

theorem inv_callers {fuel : Nat} {s0 : Store} {jobs : List Job} {s : Store} {ts : List Thread}
    {A : Nat → Store} {Φ : Nat → Nat → Nat} (I : Inv fuel s0 jobs s ts A Φ) :
    ∀ i, i < s0.size → s[i]? = s0[i]? := I.below

theorem wacts_eq_nil {ws : List (List PyVal × PyVal)} (h : wacts ws = []) : ws = [] := by
  cases ws with
  | nil => rfl
  | cons w ws => simp [wacts] at h

theorem inv_done {fuel : Nat} {s0 : Store} {jobs : List Job} {s : Store} {ts : List Thread}
    {A : Nat → Store} {Φ : Nat → Nat → Nat} (I : Inv fuel s0 jobs s ts A Φ)
    (hdone : ∀ t ∈ ts, t.pending = []) (k : Nat) (hk : k < jobs.length) (fuel' : Nat) :
    ∃ t r, ts[k]? = some t ∧ t.root = some r ∧
      Store.read s fuel' r =
        Store.read (alone fuel s0 jobs[k].1 jobs[k].2).1 fuel' (alone fuel s0 jobs[k].1 jobs[k].2).2 := by
  have hk' : k < ts.length := by rw [I.len]; exact hk
  have ht : ts[k]? = some ts[k] := List.getElem?_eq_getElem hk'
  have hp : ts[k].pending = [] := hdone _ (List.getElem_mem hk')
  rcases I.thr k hk _ ht with ⟨_, hpend, _⟩ | ⟨done, rest, hjob, hpend, hroot, ha⟩
  · rw [hp] at hpend; simp [program] at hpend
  · rw [hp] at hpend
    have hrest : rest = [] := wacts_eq_nil hpend.symm
    subst hrest
    rw [List.append_nil] at hjob
    subst hjob
    refine ⟨ts[k], _, ht, hroot, ?_⟩
    obtain ⟨hr1, hr2⟩ := root_in fuel s0 jobs[k].1 jobs[k].2
    rw [← ha] at hr2
    rw [(I.emb k hk).read fuel' _ hr1 hr2, ha]
    rfl

end ValidaProofs.C08T
