/-
  ValidaProofs.Lemmas.C20Html — helper lemmas for C20 (HTML part): escaping, the back-tick scanner,
  neutrality of token blocks for `dyck`, token safety.
-/
import Valida.Html
namespace ValidaProofs.C20L
open Valida

/-! ### escaping -/

def SafeC (c : Char) : Prop := c ≠ '<' ∧ c ≠ '>' ∧ c ≠ '"' ∧ c ≠ '\''

theorem escapeChar_safe (a c : Char) (h : c ∈ escapeChar a) : SafeC c := by
  unfold escapeChar at h
  unfold SafeC
  split at h
  · have : c ∈ ['&', 'a', 'm', 'p', ';'] := by simpa using h
    simp at this
    rcases this with h | h | h | h | h <;> subst h <;> decide
  split at h
  · have : c ∈ ['&', 'l', 't', ';'] := by simpa using h
    simp at this
    rcases this with h | h | h | h <;> subst h <;> decide
  split at h
  · have : c ∈ ['&', 'g', 't', ';'] := by simpa using h
    simp at this
    rcases this with h | h | h | h <;> subst h <;> decide
  split at h
  · have : c ∈ ['&', 'q', 'u', 'o', 't', ';'] := by simpa using h
    simp at this
    rcases this with h | h | h | h | h | h <;> subst h <;> decide
  split at h
  · have : c ∈ ['&', '#', 'x', '2', '7', ';'] := by simpa using h
    simp at this
    rcases this with h | h | h | h | h | h <;> subst h <;> decide
  · simp at h
    subst h
    simp_all

theorem htmlEscape_toList (s : String) : (htmlEscape s).toList = s.toList.flatMap escapeChar := by
  simp [htmlEscape, htmlEscapeL]

theorem htmlEscape_safe (s : String) : ∀ c ∈ (htmlEscape s).toList, SafeC c := by
  intro c hc
  rw [htmlEscape_toList, List.mem_flatMap] at hc
  obtain ⟨a, _, ha⟩ := hc
  exact escapeChar_safe a c ha

/-- the weaker three-character safety used for the tokens -/
def Safe3 (c : Char) : Prop := c ≠ '<' ∧ c ≠ '>' ∧ c ≠ '"'

theorem htmlEscape_safe3 (s : String) : ∀ c ∈ (htmlEscape s).toList, Safe3 c := by
  intro c hc
  have := htmlEscape_safe s c hc
  exact ⟨this.1, this.2.1, this.2.2.1⟩

/-! ### neutrality -/

/-- a token block that leaves the tag stack as it found it -/
def Neutral (xs : List Tok) : Prop := ∀ stack rest, dyck stack (xs ++ rest) = dyck stack rest

theorem Neutral.nil : Neutral [] := by intro s r; rfl

theorem Neutral.append {xs ys : List Tok} (hx : Neutral xs) (hy : Neutral ys) : Neutral (xs ++ ys) := by
  intro s r; rw [List.append_assoc, hx, hy]

theorem Neutral.esc (s : String) : Neutral [Tok.esc s] := by intro st r; simp [dyck]
theorem Neutral.fixed (s : String) : Neutral [Tok.fixed s] := by intro st r; simp [dyck]
theorem Neutral.raw (s : String) : Neutral [Tok.raw s] := by intro st r; simp [dyck]

theorem Neutral.cons_esc {xs} (s : String) (h : Neutral xs) : Neutral (Tok.esc s :: xs) :=
  Neutral.append (Neutral.esc s) h
theorem Neutral.cons_fixed {xs} (s : String) (h : Neutral xs) : Neutral (Tok.fixed s :: xs) :=
  Neutral.append (Neutral.fixed s) h
theorem Neutral.cons_raw {xs} (s : String) (h : Neutral xs) : Neutral (Tok.raw s :: xs) :=
  Neutral.append (Neutral.raw s) h

theorem Neutral.wrap {xs} (t a : String) (h : Neutral xs) : Neutral (Tok.op t a :: (xs ++ [Tok.cl t])) := by
  intro st r
  simp only [List.cons_append, List.append_assoc, dyck]
  rw [h]
  simp [dyck]

theorem Neutral.flatMap {α} (f : α → List Tok) (l : List α) (h : ∀ a ∈ l, Neutral (f a)) :
    Neutral (l.flatMap f) := by
  induction l with
  | nil => exact Neutral.nil
  | cons a l ih =>
    rw [List.flatMap_cons]
    exact Neutral.append (h a (by simp)) (ih (fun b hb => h b (by simp [hb])))

theorem Neutral.ite {c : Prop} [Decidable c] {xs ys : List Tok} (hx : Neutral xs) (hy : Neutral ys) :
    Neutral (if c then xs else ys) := by
  split <;> assumption

/-! ### the scanner -/

theorem codeScanFuel_neutral (fuel : Nat) : ∀ (acc cs : List Char), Neutral (codeScanFuel fuel acc cs) := by
  induction fuel with
  | zero => intro acc cs; unfold codeScanFuel; exact Neutral.esc _
  | succ fuel ih =>
    intro acc cs
    cases cs with
    | nil =>
      unfold codeScanFuel
      exact Neutral.ite Neutral.nil (Neutral.esc _)
    | cons c rest =>
      unfold codeScanFuel
      split
      · split
        · refine Neutral.append (Neutral.append (Neutral.ite Neutral.nil (Neutral.esc _)) ?_) (ih _ _)
          exact Neutral.wrap "code" "" (Neutral.esc _)
        · exact ih _ _
        · exact Neutral.esc _
      · exact ih _ _

def CodeTok (t : Tok) : Prop :=
  match t with
  | .esc s => ∀ c ∈ s.toList, c ≠ '<' ∧ c ≠ '>' ∧ c ≠ '"'
  | .op tag attrs => tag = "code" ∧ attrs = ""
  | .cl tag => tag = "code"
  | _ => False

theorem codeScanFuel_tok (fuel : Nat) : ∀ (acc cs : List Char), (∀ c ∈ acc ++ cs, Safe3 c) →
    ∀ t ∈ codeScanFuel fuel acc cs, CodeTok t := by
  induction fuel with
  | zero =>
    intro acc cs h t ht
    unfold codeScanFuel at ht
    simp only [List.mem_singleton] at ht
    subst ht
    simp only [CodeTok, String.toList_ofList]
    intro c hc
    apply h
    simpa using hc
  | succ fuel ih =>
    intro acc cs h t ht
    cases cs with
    | nil =>
      unfold codeScanFuel at ht
      split at ht
      · simp at ht
      · simp only [List.mem_singleton] at ht
        subst ht
        simp only [CodeTok, String.toList_ofList]
        intro c hc
        apply h
        simpa using hc
    | cons c rest =>
      unfold codeScanFuel at ht
      split at ht
      · split at ht
        · simp only [List.mem_append] at ht
          rcases ht with (ht | ht) | ht
          · split at ht
            · simp at ht
            · simp only [List.mem_singleton] at ht
              subst ht
              simp only [CodeTok, String.toList_ofList]
              intro c hc
              apply h
              simp at hc
              simp [hc]
          · simp only [List.mem_cons, List.not_mem_nil, or_false] at ht
            rcases ht with ht | ht | ht
            · subst ht; exact ⟨rfl, rfl⟩
            · subst ht
              simp only [CodeTok, String.toList_ofList]
              intro c' hc'
              apply h
              have := List.mem_of_mem_take hc'
              simp [this]
            · subst ht; rfl
          · refine ih [] _ ?_ t ht
            intro c' hc'
            apply h
            simp only [List.nil_append] at hc'
            have := List.mem_of_mem_drop hc'
            simp [this]
        · refine ih _ _ ?_ t ht
          intro c' hc'
          apply h
          simp only [List.mem_append, List.mem_reverse, List.mem_cons] at hc'
          rcases hc' with (hc' | hc' | hc') | hc'
          · have := List.mem_of_mem_take hc'; simp [this]
          · simp [hc']
          · simp [hc']
          · have := List.mem_of_mem_drop hc'; simp [this]
        · simp only [List.mem_singleton] at ht
          subst ht
          simp only [CodeTok, String.toList_ofList]
          intro c' hc'
          apply h
          simpa using hc'
      · refine ih _ _ ?_ t ht
        intro c' hc'
        apply h
        simp only [List.mem_append, List.mem_cons] at hc' ⊢
        rcases hc' with (hc' | hc') | hc'
        · simp [hc']
        · simp [hc']
        · simp [hc']

theorem codeScan_neutral (s : String) : Neutral (codeScan s) := codeScanFuel_neutral _ _ _

theorem codeScan_htmlEscape_tok (p : String) : ∀ t ∈ codeScan (htmlEscape p), CodeTok t := by
  unfold codeScan
  apply codeScanFuel_tok
  intro c hc
  exact htmlEscape_safe3 p c (by simpa using hc)

/-! ### `writeTree` / `writeChildren`: well-formedness -/

theorem elemParts_neutral (e : PathElem) : Neutral (elemParts e).1 := by
  cases e <;> (intro st r; simp [elemParts, spanNull, dyck])

theorem block_neutral (a1 a2 a3 a4 a5 c : String) (heading typeLine sep reqLine docToks sub restToks : List Tok)
    (h1 : Neutral heading) (h2 : Neutral typeLine) (h3 : Neutral sep) (h4 : Neutral reqLine)
    (h5 : Neutral docToks) (h6 : Neutral sub) (h7 : Neutral restToks) :
    Neutral ([Tok.op "div" a1, Tok.op "section" a2] ++ heading ++ [Tok.op "div" a3, Tok.op "div" a4] ++
      typeLine ++ sep ++ reqLine ++
      [Tok.op "div" a5, Tok.fixed "Condition: ", Tok.op "code" "", Tok.esc c, Tok.cl "code", Tok.cl "div", Tok.cl "div"] ++
      docToks ++ [Tok.cl "div"] ++ sub ++ [Tok.cl "section", Tok.cl "div"] ++ restToks) := by
  intro st r
  unfold Neutral at *
  simp [dyck, *]

theorem wc_of_wt (fuel : Nat) (anchor : String) (hs : Nat) (sr : Bool)
    (hWT : ∀ nodes pp d, Neutral (writeTree fuel nodes pp anchor hs sr d)) :
    ∀ nodes pp d, Neutral (writeChildren fuel nodes pp anchor hs sr d) := by
  intro nodes
  induction nodes with
  | nil => intro pp d; rw [writeChildren.eq_1]; exact Neutral.nil
  | cons child rest ih =>
    intro pp d
    rw [writeChildren.eq_2]
    refine Neutral.ite (ih pp d) ?_
    · dsimp only
      apply block_neutral
      · -- heading
        split
        · exact Neutral.nil
        · rename_i disp hdisp
          have hd : Neutral disp := by
            split at hdisp
            · rename_i p hp
              have hp' := List.mem_of_getLast? hp
              simp only [List.mem_map] at hp'
              obtain ⟨e, _, rfl⟩ := hp'
              cases hdisp
              exact elemParts_neutral e
            · split at hdisp
              · cases hdisp
              · cases hdisp; exact Neutral.raw _
          split
          · intro st r
            unfold Neutral at hd
            simp [dyck, hd]
          · exact Neutral.nil
      · -- typeLine
        split
        · exact Neutral.nil
        · intro st r
          split <;> split <;> split <;> simp [dyck]
      · exact Neutral.ite Neutral.nil (Neutral.fixed _)
      · split
        · intro st r; simp [dyck]
        · exact Neutral.nil
      · split
        · apply Neutral.append
          · apply Neutral.flatMap
            intro p _
            have := codeScan_neutral (htmlEscape p)
            intro st r
            unfold Neutral at this
            simp [dyck, this]
          · apply Neutral.flatMap
            intro p _
            have := codeScan_neutral (htmlEscape p)
            intro st r
            unfold Neutral at this
            simp [dyck, this]
        · exact Neutral.nil
      · split
        · exact hWT _ _ _
        · exact Neutral.nil
      · exact ih pp d


theorem wt_neutral (anchor : String) (hs : Nat) (sr : Bool) (fuel : Nat) :
    ∀ nodes pp d, Neutral (writeTree fuel nodes pp anchor hs sr d) := by
  induction fuel with
  | zero => intro nodes pp d; rw [writeTree.eq_1]; exact Neutral.nil
  | succ fuel ih =>
    intro nodes pp d
    rw [writeTree.eq_2]
    dsimp only
    refine Neutral.ite Neutral.nil ?_
    have := wc_of_wt fuel anchor hs sr ih nodes pp d
    exact Neutral.wrap "div" _ this

theorem wc_neutral (anchor : String) (hs : Nat) (sr : Bool) (fuel : Nat) :
    ∀ nodes pp d, Neutral (writeChildren fuel nodes pp anchor hs sr d) :=
  wc_of_wt fuel anchor hs sr (wt_neutral anchor hs sr fuel)


/-! ### `writeTree` / `writeChildren`: token safety -/

def TokOK (anchor : String) (t : Tok) : Prop :=
  match t with
  | .esc s => ∀ c ∈ s.toList, c ≠ '<' ∧ c ≠ '>' ∧ c ≠ '"'
  | .raw s => s = anchor
  | _ => True

def AllOK (anchor : String) (xs : List Tok) : Prop := ∀ t ∈ xs, TokOK anchor t

theorem AllOK.nil {a} : AllOK a [] := by intro t h; cases h
theorem AllOK.append {a xs ys} (hx : AllOK a xs) (hy : AllOK a ys) : AllOK a (xs ++ ys) := by
  intro t h; rcases List.mem_append.1 h with h | h; exact hx t h; exact hy t h
theorem AllOK.cons {a x xs} (hx : TokOK a x) (hy : AllOK a xs) : AllOK a (x :: xs) := by
  intro t h; rcases List.mem_cons.1 h with h | h; exact h ▸ hx; exact hy t h
theorem AllOK.ite {a} {c : Prop} [Decidable c] {xs ys : List Tok} (hx : AllOK a xs) (hy : AllOK a ys) :
    AllOK a (if c then xs else ys) := by split <;> assumption
theorem AllOK.flatMap {a α} (f : α → List Tok) (l : List α) (h : ∀ x ∈ l, AllOK a (f x)) : AllOK a (l.flatMap f) := by
  intro t ht
  obtain ⟨x, hx, hxt⟩ := List.mem_flatMap.1 ht
  exact h x hx t hxt

theorem TokOK.op {a t at'} : TokOK a (Tok.op t at') := trivial
theorem TokOK.cl {a t} : TokOK a (Tok.cl t) := trivial
theorem TokOK.fixed {a t} : TokOK a (Tok.fixed t) := trivial
theorem TokOK.escHtml {a} (s : String) : TokOK a (Tok.esc (htmlEscape s)) := htmlEscape_safe3 s

theorem codeScan_allOK (a : String) (p : String) : AllOK a (codeScan (htmlEscape p)) := by
  intro t ht
  have := codeScan_htmlEscape_tok p t ht
  cases t <;> simp_all [CodeTok, TokOK]

theorem elemParts_allOK (a : String) (e : PathElem) : AllOK a (elemParts e).1 := by
  cases e
  · intro t ht; simp [elemParts, spanNull] at ht; rcases ht with h | h | h <;> subst h <;> trivial
  · intro t ht; simp [elemParts, spanNull] at ht; rcases ht with h | h | h <;> subst h <;> trivial
  · intro t ht; simp [elemParts] at ht; subst ht; exact TokOK.escHtml _

/-- prove `AllOK` of an explicit token list by going through it -/
macro "all_ok" : tactic =>
  `(tactic| repeat' (with_reducible first
      | exact AllOK.nil
      | (apply AllOK.cons; first | exact TokOK.op | exact TokOK.cl | exact TokOK.fixed | exact TokOK.escHtml _)
      | apply AllOK.ite
      | apply AllOK.append
      | assumption))

theorem block_ok (a : String) (a1 a2 a3 a4 a5 c : String) (heading typeLine sep reqLine docToks sub restToks : List Tok)
    (h1 : AllOK a heading) (h2 : AllOK a typeLine) (h3 : AllOK a sep) (h4 : AllOK a reqLine)
    (h5 : AllOK a docToks) (h6 : AllOK a sub) (h7 : AllOK a restToks) :
    AllOK a ([Tok.op "div" a1, Tok.op "section" a2] ++ heading ++ [Tok.op "div" a3, Tok.op "div" a4] ++
      typeLine ++ sep ++ reqLine ++
      [Tok.op "div" a5, Tok.fixed "Condition: ", Tok.op "code" "", Tok.esc (htmlEscape c), Tok.cl "code", Tok.cl "div", Tok.cl "div"] ++
      docToks ++ [Tok.cl "div"] ++ sub ++ [Tok.cl "section", Tok.cl "div"] ++ restToks) := by
  all_ok

theorem wc_ok_of_wt (fuel : Nat) (anchor : String) (hs : Nat) (sr : Bool)
    (hWT : ∀ nodes pp d, AllOK anchor (writeTree fuel nodes pp anchor hs sr d)) :
    ∀ nodes pp d, AllOK anchor (writeChildren fuel nodes pp anchor hs sr d) := by
  intro nodes
  induction nodes with
  | nil => intro pp d; rw [writeChildren.eq_1]; exact AllOK.nil
  | cons child rest ih =>
    intro pp d
    rw [writeChildren.eq_2]
    refine AllOK.ite (ih pp d) ?_
    dsimp only
    apply block_ok
    · -- heading
      split
      · exact AllOK.nil
      · rename_i disp hdisp
        have hd : AllOK anchor disp := by
          split at hdisp
          · rename_i p hp
            have hp' := List.mem_of_getLast? hp
            simp only [List.mem_map] at hp'
            obtain ⟨e, _, rfl⟩ := hp'
            cases hdisp
            exact elemParts_allOK anchor e
          · split at hdisp
            · cases hdisp
            · cases hdisp; exact AllOK.cons rfl AllOK.nil
        all_ok
    · all_ok
    · all_ok
    · all_ok
    · refine AllOK.ite (AllOK.append ?_ ?_) AllOK.nil
      · apply AllOK.flatMap
        intro p _
        have := codeScan_allOK anchor p
        all_ok
      · apply AllOK.flatMap
        intro p _
        have := codeScan_allOK anchor p
        all_ok
    · split
      · exact hWT _ _ _
      · exact AllOK.nil
    · exact ih pp d

theorem wt_ok (anchor : String) (hs : Nat) (sr : Bool) (fuel : Nat) :
    ∀ nodes pp d, AllOK anchor (writeTree fuel nodes pp anchor hs sr d) := by
  induction fuel with
  | zero => intro nodes pp d; rw [writeTree.eq_1]; exact AllOK.nil
  | succ fuel ih =>
    intro nodes pp d
    rw [writeTree.eq_2]
    dsimp only
    refine AllOK.ite AllOK.nil ?_
    have := wc_ok_of_wt fuel anchor hs sr ih nodes pp d
    all_ok


end ValidaProofs.C20L
