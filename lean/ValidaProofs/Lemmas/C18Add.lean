/-
  ValidaProofs.Lemmas.C18Add — helper lemmas for C18: the walk over concatenated part lists,
  `mapM` in `Except` over `++`, cast-free validation of a concatenation.
-/
import Valida.AddSchema
import ValidaSpec.Walk
import ValidaProofs.Lemmas.Basic
import ValidaProofs.Lemmas.C06Schema
namespace ValidaProofs.C18L
open Valida ValidaGen ValidaSpec
open ValidaProofs.C06L

/-! ### the walk -/

theorem walk_append {P : Type} (children : P → PyVal → List (PyVal × PyVal)) (ps qs : List P) :
    ∀ (node : PyVal) (pre : List PyVal), walk children (ps ++ qs) node pre =
      (walk children ps node pre).flatMap (fun nq => walk children qs nq.1 nq.2) := by
  induction ps with
  | nil => intro node pre; simp [walk]
  | cons p ps ih =>
    intro node pre
    simp only [List.cons_append, walk, List.flatMap_assoc]
    congr 1
    funext kv
    exact ih _ _

theorem walk_prefix {P : Type} (children : P → PyVal → List (PyVal × PyVal)) (qs : List P) :
    ∀ (node : PyVal) (pre : List PyVal), walk children qs node pre =
      (walk children qs node []).map (fun nq => (nq.1, pre ++ nq.2)) := by
  induction qs with
  | nil => intro node pre; simp [walk]
  | cons p ps ih =>
    intro node pre
    simp only [walk, List.map_flatMap]
    congr 1
    funext kv
    rw [ih kv.2 (pre ++ [kv.1]), ih kv.2 ([] ++ [kv.1]), List.map_map]
    apply List.map_congr_left
    intro nq _
    simp

/-! ### re-rooting -/

theorem reroot_parts (root : Path) (r : RuleM) :
    (reroot root r).path.parts = root.parts ++ r.path.parts := rfl

theorem reroot_cast (root : Path) (r : RuleM) : (reroot root r).cast = r.cast := rfl

theorem castfree_map_reroot (root : Path) (t : List RuleM) (ht : ∀ r ∈ t, r.cast = []) :
    ∀ r ∈ t.map (reroot root), r.cast = [] := by
  intro r hr
  obtain ⟨r0, hr0, rfl⟩ := List.mem_map.1 hr
  exact ht r0 hr0

/-! ### `mapM` over `++` -/

theorem mapM_append_ok {ε α β : Type} (f : α → Except ε β) (xs ys : List α) (bs : List β) :
    (xs ++ ys).mapM f = .ok bs ↔
      ∃ b1 b2, xs.mapM f = .ok b1 ∧ ys.mapM f = .ok b2 ∧ bs = b1 ++ b2 := by
  induction xs generalizing bs with
  | nil =>
    simp only [List.nil_append, mapM_nil_ok]
    constructor
    · intro h; exact ⟨[], bs, rfl, h, rfl⟩
    · rintro ⟨b1, b2, rfl, h2, rfl⟩; simpa using h2
  | cons x xs ih =>
    rw [List.cons_append, mapM_cons_ok]
    constructor
    · rintro ⟨b, bs', hb, hbs, rfl⟩
      obtain ⟨b1, b2, h1, h2, rfl⟩ := (ih bs').1 hbs
      exact ⟨b :: b1, b2, (mapM_cons_ok f _ _ _).2 ⟨b, b1, hb, h1, rfl⟩, h2, rfl⟩
    · rintro ⟨b1, b2, h1, h2, rfl⟩
      obtain ⟨b, b1', hb, hb1, rfl⟩ := (mapM_cons_ok f _ _ _).1 h1
      exact ⟨b, b1' ++ b2, hb, (ih _).2 ⟨b1', b2, hb1, h2, rfl⟩, rfl⟩

/-- cast-free validation of rules that are a permutation of `a ++ b` -/
theorem validate_perm_append (rs a b : List RuleM) (doc : PyVal) (hp : rs.Perm (a ++ b))
    (hc : ∀ r ∈ rs, r.cast = []) (v : Validated) (h : validate rs doc = .ok v) :
    ∃ va vb, validate a doc = .ok va ∧ validate b doc = .ok vb ∧
      v.isValid = (va.isValid && vb.isValid) ∧ v.numFailures = va.numFailures + vb.numFailures ∧
      v.numRulesTested = va.numRulesTested + vb.numRulesTested := by
  have hca : ∀ r ∈ a, r.cast = [] := fun r hr => hc r (hp.mem_iff.2 (List.mem_append_left _ hr))
  have hcb : ∀ r ∈ b, r.cast = [] := fun r hr => hc r (hp.mem_iff.2 (List.mem_append_right _ hr))
  obtain ⟨d, hd, hm, _⟩ := (validate_castfree_ok rs doc hc v).1 h
  obtain ⟨ts, hts, hpt⟩ := mapM_perm _ hp _ hm
  obtain ⟨ta, tb, hta, htb, rfl⟩ := (mapM_append_ok _ a b ts).1 hts
  refine ⟨⟨ta, doc⟩, ⟨tb, doc⟩, (validate_castfree_ok a doc hca _).2 ⟨d, hd, hta, rfl⟩,
    (validate_castfree_ok b doc hcb _).2 ⟨d, hd, htb, rfl⟩, ?_, ?_, ?_⟩
  · simp only [Validated.isValid]; rw [hpt.all_eq, List.all_append]
  · simp only [Validated.numFailures]; rw [(hpt.map _).sum_nat, List.map_append, List.sum_append]
  · simp only [Validated.numRulesTested]; rw [hpt.countP_eq, List.countP_append]

end ValidaProofs.C18L
