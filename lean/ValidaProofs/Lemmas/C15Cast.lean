/-
  ValidaProofs.Lemmas.C15Cast — helper lemmas for C15: the cast of one node, the cast loop,
  writing one level, the document a rule is judged on.
-/
import Valida.Rule
import ValidaProofs.Lemmas.Basic
namespace ValidaProofs.C15L
open Valida ValidaGen

/-- a rule test records the document it was run on -/
theorem ruleTestOn_data (r : RuleM) (doc : PyVal) (t : RuleTestR) (h : ruleTestOn r doc = .ok t) :
    t.data = doc := by
  unfold ruleTestOn at h
  simp only [bind, Except.bind, pure, Except.pure] at h
  repeat' split at h
  all_goals first | cases h | skip
  all_goals rfl

theorem castStringToBool_eq (s : String) :
    castStringToBool s =
      (if String.ofList (s.toList.map Char.toLower) = "true" then .ok (.bool true)
       else if String.ofList (s.toList.map Char.toLower) = "false" then .ok (.bool false)
       else .error .typeError) := by
  simp only [castStringToBool, castStringToBoolBranches, castStringToBoolElse, List.find?]
  generalize String.ofList (s.toList.map Char.toLower) = low
  by_cases h1 : low = "true"
  · subst h1; simp
  · by_cases h2 : low = "false"
    · subst h2; simp
    · have e1 : ("true" == low) = false := by
        rw [beq_eq_false_iff_ne]; exact fun h => h1 h.symm
      have e2 : ("false" == low) = false := by
        rw [beq_eq_false_iff_ne]; exact fun h => h2 h.symm
      simp [e1, e2, h1, h2]

theorem castNode_uncastable (casts : List (PyType × String)) (v : PyVal)
    (h : ∀ c ∈ casts, PyVal.instOf v c.1 = false) : castNode casts v = .ok none := by
  induction casts with
  | nil => rfl
  | cons c rest ih =>
    obtain ⟨t, fn⟩ := c
    have ht : PyVal.instOf v t = false := h (t, fn) (by simp)
    simp only [castNode, ht, Bool.false_eq_true, if_false]
    exact ih (fun c hc => h c (by simp [hc]))

theorem castNode_str_single (fn : String) (s : String) :
    castNode [(PyType.str, fn)] (.str s) =
      (match applyCast fn (.str s) with
       | .ok v' => .ok (some v')
       | .error e => if caughtBy catchesCast e then .ok none else .error e) := by
  have hi : PyVal.instOf (.str s) PyType.str = true := rfl
  simp only [castNode, hi, if_true]
  cases applyCast fn (.str s) <;> rfl

theorem test_judged (r : RuleM) (doc copy : PyVal) (t : RuleTestR) (copy' : PyVal)
    (h : r.test doc copy = .ok (t, copy')) :
    (r.cast = [] → t.data = doc ∧ copy' = copy) ∧ (r.cast ≠ [] → t.data = copy') := by
  unfold RuleM.test at h
  rw [castSource_eq] at h
  simp only [bind, Except.bind, pure, Except.pure] at h
  split at h
  · cases h
  · split at h
    · rename_i hc
      have hc' : r.cast = [] := by simpa using hc
      split at h
      · cases h
      · rename_i t' ht
        cases h
        exact ⟨fun _ => ⟨ruleTestOn_data r doc t ht, rfl⟩, fun hn => absurd hc' hn⟩
    · rename_i hc
      have hc' : r.cast ≠ [] := by simpa using hc
      refine ⟨fun he => absurd he hc', fun _ => ?_⟩
      repeat' split at h
      all_goals first | (cases h; done) | skip
      all_goals (cases h; exact ruleTestOn_data r _ _ ‹_›)

theorem setItem_dict_spec (kvs : List (PyVal × PyVal)) (k v : PyVal) (c' : PyVal)
    (hk : Py.dictHasKey k kvs = true) (h : setItem (.dict kvs) k v = .ok c') :
    ∃ kvs', c' = .dict kvs' ∧ kvs'.map (·.1) = kvs.map (·.1) ∧
      ∀ (i : Nat) (kv : PyVal × PyVal), kvs[i]? = some kv →
        kvs'[i]? = some (if PyVal.pyEq k kv.1 then (kv.1, v) else kv) := by
  simp only [setItem, hk, if_true] at h
  split at h
  · cases h
  · cases h
    refine ⟨_, rfl, ?_, ?_⟩
    · rw [List.map_map]
      apply List.map_congr_left
      intro kv _
      simp only [Function.comp]
      split <;> rfl
    · intro i kv hi
      simp [List.getElem?_map, hi]

theorem setItem_list_spec (xs : List PyVal) (i : Nat) (v : PyVal) (hi : i < xs.length) :
    setItem (.list xs) (.int i) v = .ok (.list (xs.set i v)) := by
  have h1 : ¬ ((i : Int) < 0) := by omega
  have h2 : (0 ≤ (i : Int) && decide ((i : Int) < (xs.length : Int))) = true := by
    simp; omega
  simp only [setItem, Py.asInt, h1, if_false, h2, if_true, Int.toNat_natCast]

theorem castLoop_nothing (casts : List (PyType × String)) (sub : List PyVal) (copy : PyVal)
    (h : ∀ x ∈ sub, ∃ v q, x = PyVal.tuple [v, PyVal.tuple q] ∧ castNode casts v = .ok none) :
    castLoop casts sub copy = .ok copy := by
  induction sub with
  | nil => rfl
  | cons x rest ih =>
    obtain ⟨v, q, rfl, hc⟩ := h x (by simp)
    simp only [castLoop, hc, bind, Except.bind]
    exact ih (fun y hy => h y (by simp [hy]))

theorem castLoop_one (casts : List (PyType × String)) (v v' : PyVal) (q : List PyVal) (copy : PyVal)
    (hq : q ≠ []) (hc : castNode casts v = .ok (some v')) :
    castLoop casts [PyVal.tuple [v, PyVal.tuple q]] copy = setAt copy q v' := by
  have hq' : q.isEmpty = false := by cases q <;> simp_all
  simp only [castLoop, hc, bind, Except.bind, hq', Bool.false_eq_true, if_false]
  cases setAt copy q v' <;> rfl

theorem validate_fold (rs : List RuleM) (doc : PyVal) (v : Validated) (h : validate rs doc = .ok v) :
    ∃ ts, validateLoop rs doc doc = .ok (ts, v.castData) ∧ v.tests = ts := by
  unfold validate at h
  simp only [bind, Except.bind, pure, Except.pure] at h
  split at h
  · cases h
  · split at h
    · cases h
    · rename_i r hr
      cases h
      exact ⟨r.1, hr, rfl⟩

end ValidaProofs.C15L
