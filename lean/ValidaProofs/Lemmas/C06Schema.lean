/-
  ValidaProofs.Lemmas.C06Schema — helper lemmas for C06: `mapM` in `Except` under permutation,
  the stable sort of `Schema.mk'`, cast-free `validateLoop`.
-/
import Valida.Rule
import ValidaProofs.Lemmas.Basic
namespace ValidaProofs.C06L
open Valida ValidaGen

/-! ### `mapM` in `Except` -/

theorem mapM_cons_ok {ε α β : Type} (f : α → Except ε β) (x : α) (xs : List α) (bs : List β) :
    (x :: xs).mapM f = .ok bs ↔ ∃ b bs', f x = .ok b ∧ xs.mapM f = .ok bs' ∧ bs = b :: bs' := by
  rw [List.mapM_cons]
  cases hx : f x with
  | error e => simp [bind, Except.bind]
  | ok b =>
    cases hxs : xs.mapM f with
    | error e => simp [bind, Except.bind]
    | ok bs' =>
      simp only [bind, Except.bind, pure, Except.pure, Except.ok.injEq]
      constructor
      · intro h; exact ⟨b, bs', rfl, rfl, h.symm⟩
      · rintro ⟨b', bs'', hb, hbs, rfl⟩; cases hb; cases hbs; rfl

theorem mapM_nil_ok {ε α β : Type} (f : α → Except ε β) (bs : List β) :
    ([] : List α).mapM f = .ok bs ↔ bs = [] := by
  simp [pure, Except.pure, eq_comm]

/-- if `mapM` succeeds on a list it succeeds on every permutation of it, with permuted results -/
theorem mapM_perm {ε α β : Type} (f : α → Except ε β) {xs ys : List α} (hp : xs.Perm ys) :
    ∀ bs, xs.mapM f = .ok bs → ∃ bs', ys.mapM f = .ok bs' ∧ bs.Perm bs' := by
  induction hp with
  | nil => intro bs h; exact ⟨bs, h, List.Perm.refl _⟩
  | cons x _ ih =>
    intro bs h
    obtain ⟨b, bs1, hb, hbs, rfl⟩ := (mapM_cons_ok f _ _ _).1 h
    obtain ⟨bs2, h2, hp2⟩ := ih _ hbs
    exact ⟨b :: bs2, (mapM_cons_ok f _ _ _).2 ⟨b, bs2, hb, h2, rfl⟩, hp2.cons b⟩
  | swap x y l =>
    intro bs h
    obtain ⟨b, bs1, hb, hbs, rfl⟩ := (mapM_cons_ok f _ _ _).1 h
    obtain ⟨c, bs2, hc, hbs2, rfl⟩ := (mapM_cons_ok f _ _ _).1 hbs
    refine ⟨c :: b :: bs2, ?_, List.Perm.swap _ _ _⟩
    exact (mapM_cons_ok f _ _ _).2 ⟨c, _, hc, (mapM_cons_ok f _ _ _).2 ⟨b, _, hb, hbs2, rfl⟩, rfl⟩
  | trans _ _ ih1 ih2 =>
    intro bs h
    obtain ⟨bs1, h1, hp1⟩ := ih1 _ h
    obtain ⟨bs2, h2, hp2⟩ := ih2 _ h1
    exact ⟨bs2, h2, hp1.trans hp2⟩

theorem mapM_ok_len {ε α β : Type} (f : α → Except ε β) :
    ∀ (xs : List α) (bs : List β), xs.mapM f = .ok bs → bs.length = xs.length := by
  intro xs
  induction xs with
  | nil => intro bs h; rw [(mapM_nil_ok f bs).1 h]; rfl
  | cons x xs ih =>
    intro bs h
    obtain ⟨b, bs1, _, hbs, rfl⟩ := (mapM_cons_ok f _ _ _).1 h
    simp [ih _ hbs]

/-! ### the stable sort -/

theorem ruleLe_trans (a b c : RuleM) : ruleLe a b = true → ruleLe b c = true → ruleLe a c = true := by
  simp only [ruleLe, decide_eq_true_eq]; omega

theorem ruleLe_total (a b : RuleM) : (ruleLe a b || ruleLe b a) = true := by
  simp only [ruleLe, Bool.or_eq_true, decide_eq_true_eq]; omega

theorem mk'_perm (rs : List RuleM) : (Schema.mk' rs).Perm rs := List.mergeSort_perm rs ruleLe

theorem mk'_sorted (rs : List RuleM) :
    (Schema.mk' rs).Pairwise (fun a b => a.path.parts.length ≤ b.path.parts.length) := by
  have h := List.pairwise_mergeSort ruleLe_trans ruleLe_total rs
  refine h.imp ?_
  intro a b hab
  simpa [ruleLe] using hab

theorem mk'_stable (rs : List RuleM) (k : Nat) :
    (Schema.mk' rs).filter (fun r => r.path.parts.length == k) =
      rs.filter (fun r => r.path.parts.length == k) := by
  have hsub : (rs.filter (fun r => r.path.parts.length == k)).Sublist (Schema.mk' rs) := by
    refine List.sublist_mergeSort ruleLe_trans ruleLe_total ?_ List.filter_sublist
    rw [List.pairwise_iff_forall_sublist]
    intro a b hab
    have ha := hab.subset (List.mem_cons_self)
    have hb := hab.subset (List.mem_cons_of_mem _ List.mem_cons_self)
    simp only [List.mem_filter, beq_iff_eq] at ha hb
    simp [ruleLe, ha.2, hb.2]
  have hsub2 := hsub.filter (fun r => r.path.parts.length == k)
  rw [List.filter_filter] at hsub2
  simp only [Bool.and_self] at hsub2
  have hlen := ((mk'_perm rs).filter (fun r => r.path.parts.length == k)).length_eq
  exact (hsub2.eq_of_length hlen.symm).symm

/-! ### cast-free rules -/

theorem ruleTestOn_ofPy_error (r : RuleM) (doc : PyVal) (e : Exc) (h : DataV.ofPy doc = .error e) :
    ruleTestOn r doc = .error e := by
  simp [ruleTestOn, h, bind, Except.bind]

theorem test_castfree (r : RuleM) (doc copy : PyVal) (hc : r.cast = []) :
    r.test doc copy = (ruleTestOn r doc).map (fun t => (t, copy)) := by
  unfold RuleM.test
  rw [castSource_eq]
  cases hd : DataV.ofPy doc with
  | error e => simp [ruleTestOn_ofPy_error r doc e hd, bind, Except.bind, Except.map]
  | ok d =>
    simp only [hc, List.isEmpty_nil, if_true, bind, Except.bind, pure, Except.pure]
    cases ruleTestOn r doc <;> rfl

theorem validateLoop_castfree (rs : List RuleM) (doc copy : PyVal) (hc : ∀ r ∈ rs, r.cast = []) :
    validateLoop rs doc copy = (rs.mapM (fun r => ruleTestOn r doc)).map (fun ts => (ts, copy)) := by
  induction rs with
  | nil => simp [validateLoop, pure, Except.pure, Except.map]
  | cons r rs ih =>
    rw [validateLoop, test_castfree r doc copy (hc r (by simp)), List.mapM_cons]
    cases ruleTestOn r doc with
    | error e => simp [bind, Except.bind, Except.map]
    | ok t =>
      simp only [bind, Except.bind, Except.map]
      rw [ih (fun r' hr' => hc r' (by simp [hr']))]
      cases rs.mapM (fun r => ruleTestOn r doc) <;> simp [Except.map, pure, Except.pure]

/-- what a cast-free `validate` is -/
theorem validate_castfree_ok (rs : List RuleM) (doc : PyVal) (hc : ∀ r ∈ rs, r.cast = []) (v : Validated) :
    validate rs doc = .ok v ↔
      ∃ d, DataV.ofPy doc = .ok d ∧ rs.mapM (fun r => ruleTestOn r doc) = .ok v.tests ∧ v.castData = doc := by
  unfold validate
  rw [validateLoop_castfree rs doc doc hc]
  cases hd : DataV.ofPy doc with
  | error e => simp [bind, Except.bind]
  | ok d =>
    cases hm : rs.mapM (fun r => ruleTestOn r doc) with
    | error e => simp [bind, Except.bind, Except.map]
    | ok ts =>
      simp only [bind, Except.bind, Except.map, pure, Except.pure, Except.ok.injEq]
      constructor
      · rintro rfl; exact ⟨d, rfl, rfl, rfl⟩
      · rintro ⟨_, _, h1, h2⟩
        cases v; simp only at h1 h2; subst h1 h2; rfl

end ValidaProofs.C06L
