/-
  ValidaProofs.Lemmas.C02Spec — the left fold of `Cond.mkBin` over non-null conditions is a left-nested
  combination, and filtering it is the item-wise left fold of the operator over the operands' results.
-/
import Valida.Spec.Parse
import ValidaProofs.Lemmas.C02Tree
import ValidaProofs.Lemmas.C09SpecFold
namespace ValidaProofs.C02S
open Valida ValidaGen

/-- combining two non-null conditions, when accepted, is the combination node -/
theorem mkBin_ok {α : Type} (op : BinOp) (a b c : Cond α) (ha : a.isNull = false) (hb : b.isNull = false)
    (h : Cond.mkBin op a b = .ok c) : c = .bin op a b := by
  unfold Cond.mkBin at h
  simp only [ha, hb, Bool.false_eq_true, if_false] at h
  split at h
  · cases h
  · cases h; rfl

theorem resolve_bin (src : Option PyVal) (op : BinOp) (a b : Cond Arg) :
    (Cond.bin op a b).resolve src = .bin op (a.resolve src) (b.resolve src) := rfl

/-- items and conditions, pairwise -/
theorem allParse_of_zip (fuel : Nat) : ∀ (specs : List PyVal) (cs : List (Cond Arg)),
    specs.length = cs.length → (∀ p ∈ specs.zip cs, parseCond fuel p.1 = .ok p.2) → C09S.AllParse fuel specs cs
  | [], [], _, _ => trivial
  | s :: ss, c :: cs, hl, h => by
      refine ⟨h (s, c) (by simp), allParse_of_zip fuel ss cs (by simpa using hl) ?_⟩
      intro p hp
      exact h p (by simp [hp])
  | [], _ :: _, hl, _ => by simp at hl
  | _ :: _, [], hl, _ => by simp at hl

/-- the fold from a non-null accumulator whose filter result is known -/
theorem fold_filter (op : BinOp) (src : Option PyVal) (d : DataV) :
    ∀ (cs : List (Cond Arg)) (rows : List FD) (acc : Cond Arg) (facc : FD) (c : Cond Arg),
      cs.length = rows.length → acc.isNull = false → (∀ c ∈ cs, c.isNull = false) →
      filterAux (acc.resolve src) d false = .ok (facc, d, none) →
      (∀ p ∈ cs.zip rows, filterAux (p.1.resolve src) d false = .ok (p.2, d, none)) →
      cs.foldlM (fun acc c => Cond.mkBin op acc c) acc = .ok c →
      ∃ f, filterAux (c.resolve src) d false = .ok (f, d, none) ∧
        f.result = (rows.map FD.result).foldl (fun acc row => List.zipWith op.apply acc row) facc.result
  | [], [], acc, facc, c, _, _, _, hacc, _, hc => by
      simp only [List.foldlM_nil, pure, Except.pure, Except.ok.injEq] at hc
      subst hc
      exact ⟨facc, hacc, rfl⟩
  | x :: cs, r :: rows, acc, facc, c, hl, hn, hnn, hacc, hrows, hc => by
      simp only [List.foldlM_cons, bind, Except.bind] at hc
      cases hm : Cond.mkBin op acc x with
      | error e => simp [hm] at hc
      | ok acc' =>
        simp only [hm] at hc
        have hx : x.isNull = false := hnn x List.mem_cons_self
        have hacc' := mkBin_ok op acc x acc' hn hx hm
        subst hacc'
        have hfx := hrows (x, r) (by simp)
        have hf := filterAux_bin_ok op (acc.resolve src) (x.resolve src) d facc r hacc hfx
        exact fold_filter op src d cs rows (.bin op acc x) (.bin op facc r) c (by simpa using hl) rfl
          (fun c hc' => hnn c (List.mem_cons_of_mem _ hc')) hf
          (fun p hp => hrows p (by simp [hp])) hc
  | [], _ :: _, _, _, _, hl, _, _, _, _, _ => by simp at hl
  | _ :: _, [], _, _, _, hl, _, _, _, _, _ => by simp at hl

end ValidaProofs.C02S
