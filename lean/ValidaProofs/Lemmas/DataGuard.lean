/-
  ValidaProofs.Lemmas.DataGuard — the guard of `Data.__init__`: the generated constants are pinned
  and the equations of `DataV.ofPy` per constructor are derived from them.
-/
import Valida.Cond
namespace ValidaProofs
open Valida ValidaGen

/-! ### the generated constants -/

theorem dataGuardTypes_eq : dataGuardTypes = [PyType.list, PyType.dict] := rfl
theorem dataGuardTypeExc_eq : dataGuardTypeExc = .typeError := rfl
theorem dataGuardEmptyExc_eq : dataGuardEmptyExc = some .typeError := rfl

theorem emptyData_eq (b : Bool) : emptyData b = .error .typeError := rfl

/-! ### the equations of `DataV.ofPy` -/

@[simp] theorem DataV.ofPy_list (xs : List PyVal) :
    DataV.ofPy (.list xs) =
      if xs.isEmpty then .error .typeError else .ok ⟨true, rangeVals xs.length, xs⟩ := by
  cases xs <;> rfl

@[simp] theorem DataV.ofPy_dict (kvs : List (PyVal × PyVal)) :
    DataV.ofPy (.dict kvs) =
      if kvs.isEmpty then .error .typeError else .ok ⟨false, kvs.map (·.1), kvs.map (·.2)⟩ := by
  cases kvs <;> rfl

@[simp] theorem DataV.ofPy_none : DataV.ofPy .none = .error .typeError := rfl
@[simp] theorem DataV.ofPy_bool (b : Bool) : DataV.ofPy (.bool b) = .error .typeError := rfl
@[simp] theorem DataV.ofPy_int (n : Int) : DataV.ofPy (.int n) = .error .typeError := rfl
@[simp] theorem DataV.ofPy_float (k : Int) : DataV.ofPy (.float k) = .error .typeError := rfl
@[simp] theorem DataV.ofPy_str (s : String) : DataV.ofPy (.str s) = .error .typeError := rfl
@[simp] theorem DataV.ofPy_tuple (xs : List PyVal) : DataV.ofPy (.tuple xs) = .error .typeError := rfl
@[simp] theorem DataV.ofPy_type (t : PyType) : DataV.ofPy (.type t) = .error .typeError := rfl
@[simp] theorem DataV.ofPy_obj (n : Nat) : DataV.ofPy (.obj n) = .error .typeError := rfl

end ValidaProofs
