/-
  ValidaProofs.Lemmas.C14Eq — `listEq`, `kwEq`, `castEq`, `condEqWith` lift an equivalence on the
  stored arguments (keyword names / cast types pairwise distinct, as in any Python dict).
-/
import Valida.Eq
namespace ValidaProofs.C14L
open Valida ValidaGen

variable {α β : Type}

/-! ### pigeonhole -/

theorem subset_of_nodup_length [DecidableEq β] : ∀ (l₁ l₂ : List β), l₁.Nodup → l₁ ⊆ l₂ →
    l₂.length ≤ l₁.length → l₂ ⊆ l₁ ∧ l₂.Nodup
  | [], l₂, _, _, hl => by
    cases l₂ with
    | nil => exact ⟨List.Subset.refl _, List.nodup_nil⟩
    | cons => simp at hl
  | x :: t, l₂, hn, hs, hl => by
    have hx : x ∈ l₂ := hs (List.mem_cons_self)
    rw [List.nodup_cons] at hn
    have hsub : t ⊆ l₂.erase x := by
      intro y hy
      have hne : y ≠ x := fun e => hn.1 (e ▸ hy)
      exact (List.mem_erase_of_ne hne).2 (hs (List.mem_cons_of_mem _ hy))
    have hlen : (l₂.erase x).length ≤ t.length := by
      rw [List.length_erase_of_mem hx]; simp at hl; omega
    obtain ⟨h1, h2⟩ := subset_of_nodup_length t (l₂.erase x) hn.2 hsub hlen
    constructor
    · intro y hy
      by_cases e : y = x
      · subst e; exact List.mem_cons_self
      · exact List.mem_cons_of_mem _ (h1 ((List.mem_erase_of_ne e).2 hy))
    · have hp := List.perm_cons_erase hx
      rw [hp.nodup_iff, List.nodup_cons]
      exact ⟨fun hmem => hn.1 (h1 hmem), h2⟩

/-! ### `listEq` -/

theorem listEq_refl (R : α → α → Bool) : ∀ xs : List α, (∀ x ∈ xs, R x x = true) → listEq R xs xs = true
  | [], _ => rfl
  | x :: xs, h => by
    simp only [listEq, Bool.and_eq_true]
    exact ⟨h x List.mem_cons_self, listEq_refl R xs (fun y hy => h y (List.mem_cons_of_mem _ hy))⟩

theorem listEq_symm (R : α → α → Bool) : ∀ xs ys : List α, (∀ x ∈ xs, ∀ y ∈ ys, R x y = R y x) →
    listEq R xs ys = listEq R ys xs
  | [], [], _ => rfl
  | [], _ :: _, _ => rfl
  | _ :: _, [], _ => rfl
  | x :: xs, y :: ys, h => by
    simp only [listEq]
    rw [h x List.mem_cons_self y List.mem_cons_self,
      listEq_symm R xs ys (fun a ha b hb => h a (List.mem_cons_of_mem _ ha) b (List.mem_cons_of_mem _ hb))]

theorem listEq_trans (R : α → α → Bool) : ∀ xs ys zs : List α,
    (∀ x ∈ xs, ∀ y ∈ ys, ∀ z ∈ zs, R x y = true → R y z = true → R x z = true) →
    listEq R xs ys = true → listEq R ys zs = true → listEq R xs zs = true
  | [], [], [], _, _, _ => rfl
  | [], [], _ :: _, _, _, h2 => by simp [listEq] at h2
  | [], _ :: _, _, _, h1, _ => by simp [listEq] at h1
  | _ :: _, [], _, _, h1, _ => by simp [listEq] at h1
  | _ :: _, _ :: _, [], _, _, h2 => by simp [listEq] at h2
  | x :: xs, y :: ys, z :: zs, h, h1, h2 => by
    simp only [listEq, Bool.and_eq_true] at h1 h2 ⊢
    exact ⟨h x List.mem_cons_self y List.mem_cons_self z List.mem_cons_self h1.1 h2.1,
      listEq_trans R xs ys zs (fun a ha b hb c hc => h a (List.mem_cons_of_mem _ ha) b (List.mem_cons_of_mem _ hb)
        c (List.mem_cons_of_mem _ hc)) h1.2 h2.2⟩

theorem listEq_length (R : α → α → Bool) : ∀ xs ys : List α, listEq R xs ys = true → xs.length = ys.length
  | [], [], _ => rfl
  | [], _ :: _, h => by simp [listEq] at h
  | _ :: _, [], h => by simp [listEq] at h
  | x :: xs, y :: ys, h => by
    simp only [listEq, Bool.and_eq_true] at h
    simp [listEq_length R xs ys h.2]

theorem listEq_map (R : β → β → Bool) (f : α → β) : ∀ xs ys : List α,
    listEq R (xs.map f) (ys.map f) = listEq (fun a b => R (f a) (f b)) xs ys
  | [], [] => rfl
  | [], _ :: _ => rfl
  | _ :: _, [] => rfl
  | x :: xs, y :: ys => by simp only [List.map, listEq, listEq_map R f xs ys]

/-! ### `lookupStr` -/

theorem lookupStr_mem {k : String} {v : α} : ∀ {kw : List (String × α)}, lookupStr k kw = some v → (k, v) ∈ kw
  | [], h => by simp [lookupStr] at h
  | (k', v') :: rest, h => by
    simp only [lookupStr] at h
    split at h
    · rename_i hk
      have : k = k' := by simpa using hk
      cases h; subst this; exact List.mem_cons_self
    · exact List.mem_cons_of_mem _ (lookupStr_mem h)

theorem lookupStr_of_nodup {k : String} {v : α} : ∀ {kw : List (String × α)}, (kw.map (·.1)).Nodup →
    (k, v) ∈ kw → lookupStr k kw = some v
  | [], _, h => by simp at h
  | (k', v') :: rest, hn, h => by
    simp only [List.map_cons, List.nodup_cons] at hn
    simp only [lookupStr]
    rcases List.mem_cons.1 h with h | h
    · cases h; simp
    · have hne : k ≠ k' := fun e => hn.1 (e ▸ List.mem_map_of_mem (f := (·.1)) h)
      simp only [beq_iff_eq, hne, if_false]
      exact lookupStr_of_nodup hn.2 h

theorem lookupStr_map (f : α → β) (k : String) : ∀ kw : List (String × α),
    lookupStr k (kw.map (fun kv => (kv.1, f kv.2))) = (lookupStr k kw).map f
  | [] => rfl
  | (k', v') :: rest => by
    simp only [List.map_cons, lookupStr]
    split
    · rfl
    · exact lookupStr_map f k rest

/-! ### `kwEq` -/

theorem kwEq_iff (eqA : α → α → Bool) (a b : List (String × α)) :
    kwEq eqA a b = true ↔ a.length = b.length ∧
      ∀ kv ∈ a, ∃ v, lookupStr kv.1 b = some v ∧ eqA kv.2 v = true := by
  simp only [kwEq, Bool.and_eq_true, beq_iff_eq, List.all_eq_true]
  refine and_congr Iff.rfl (forall_congr' fun kv => forall_congr' fun _ => ?_)
  cases lookupStr kv.1 b <;> simp

theorem kwEq_refl (eqA : α → α → Bool) (a : List (String × α)) (hn : (a.map (·.1)).Nodup)
    (hr : ∀ x ∈ a.map (·.2), eqA x x = true) : kwEq eqA a a = true := by
  rw [kwEq_iff]
  refine ⟨rfl, fun kv hkv => ⟨kv.2, lookupStr_of_nodup hn hkv, hr _ (List.mem_map_of_mem (f := (·.2)) hkv)⟩⟩

/-- one direction of symmetry -/
theorem kwEq_symm_imp (eqA : α → α → Bool) (a b : List (String × α)) (hn : (a.map (·.1)).Nodup)
    (hs : ∀ x ∈ a.map (·.2), ∀ y ∈ b.map (·.2), eqA x y = true → eqA y x = true)
    (h : kwEq eqA a b = true) : kwEq eqA b a = true := by
  rw [kwEq_iff] at h ⊢
  obtain ⟨hlen, hall⟩ := h
  have hsub : a.map (·.1) ⊆ b.map (·.1) := by
    intro k hk
    obtain ⟨kv, hkv, rfl⟩ := List.mem_map.1 hk
    obtain ⟨v, hv, _⟩ := hall kv hkv
    exact List.mem_map_of_mem (f := (·.1)) (lookupStr_mem hv)
  obtain ⟨hsub', hnb⟩ := subset_of_nodup_length _ _ hn hsub (by simp [hlen])
  refine ⟨hlen.symm, fun kv' hkv' => ?_⟩
  obtain ⟨kv, hkv, hk⟩ := List.mem_map.1 (hsub' (List.mem_map_of_mem (f := (·.1)) hkv'))
  obtain ⟨v, hv, hev⟩ := hall kv hkv
  have hv' : lookupStr kv.1 b = some kv'.2 := lookupStr_of_nodup hnb (by rw [hk]; exact hkv')
  rw [hv'] at hv; cases hv
  refine ⟨kv.2, ?_, hs _ (List.mem_map_of_mem (f := (·.2)) hkv) _ (List.mem_map_of_mem (f := (·.2)) hkv') hev⟩
  rw [← hk]; exact lookupStr_of_nodup hn hkv

theorem kwEq_symm (eqA : α → α → Bool) (a b : List (String × α)) (hna : (a.map (·.1)).Nodup)
    (hnb : (b.map (·.1)).Nodup) (hs : ∀ x ∈ a.map (·.2), ∀ y ∈ b.map (·.2), eqA x y = eqA y x) :
    kwEq eqA a b = kwEq eqA b a := by
  rw [Bool.eq_iff_iff]
  constructor
  · exact kwEq_symm_imp eqA a b hna (fun x hx y hy h => by rw [← hs x hx y hy]; exact h)
  · exact kwEq_symm_imp eqA b a hnb (fun y hy x hx h => by rw [hs x hx y hy]; exact h)

theorem kwEq_trans (eqA : α → α → Bool) (a b c : List (String × α))
    (ht : ∀ x ∈ a.map (·.2), ∀ y ∈ b.map (·.2), ∀ z ∈ c.map (·.2),
      eqA x y = true → eqA y z = true → eqA x z = true)
    (h1 : kwEq eqA a b = true) (h2 : kwEq eqA b c = true) : kwEq eqA a c = true := by
  rw [kwEq_iff] at h1 h2 ⊢
  refine ⟨h1.1.trans h2.1, fun kv hkv => ?_⟩
  obtain ⟨v, hv, hev⟩ := h1.2 kv hkv
  have hmem := lookupStr_mem hv
  obtain ⟨w, hw, hew⟩ := h2.2 _ hmem
  exact ⟨w, hw, ht _ (List.mem_map_of_mem (f := (·.2)) hkv) _ (List.mem_map_of_mem (f := (·.2)) hmem) _
    (List.mem_map_of_mem (f := (·.2)) (lookupStr_mem hw)) hev hew⟩

theorem kwEq_map (eqB : β → β → Bool) (f : α → β) (a b : List (String × α)) :
    kwEq eqB (a.map (fun kv => (kv.1, f kv.2))) (b.map (fun kv => (kv.1, f kv.2))) =
      kwEq (fun x y => eqB (f x) (f y)) a b := by
  simp only [kwEq, List.length_map, List.all_map]
  congr 2
  funext kv
  simp only [Function.comp, lookupStr_map]
  cases lookupStr kv.1 b <;> rfl

/-! ### condition trees -/

/-- every stored argument of a condition tree -/
def args : Cond α → List α
  | .leaf l => l.args ++ l.kwargs.map (·.2)
  | .bin _ a b => args a ++ args b

/-- keyword names of every leaf pairwise distinct -/
def KwNodup (c : Cond α) : Prop := ∀ l ∈ c.leaves, (l.kwargs.map (·.1)).Nodup

theorem kwNodup_leaf (l : Leaf α) : KwNodup (.leaf l) ↔ (l.kwargs.map (·.1)).Nodup := by
  simp [KwNodup, Cond.leaves]

theorem kwNodup_bin (op : BinOp) (a b : Cond α) : KwNodup (.bin op a b) ↔ KwNodup a ∧ KwNodup b := by
  simp only [KwNodup, Cond.leaves, List.mem_append]
  exact ⟨fun h => ⟨fun l hl => h l (Or.inl hl), fun l hl => h l (Or.inr hl)⟩,
    fun h l hl => hl.elim (h.1 l) (h.2 l)⟩

theorem cond_refl (eqA : α → α → Bool) : ∀ c : Cond α, KwNodup c → (∀ a ∈ args c, eqA a a = true) →
    condEqWith eqA c c = true
  | .leaf l, hn, hr => by
    simp only [args, List.mem_append] at hr
    simp only [condEqWith, Bool.and_eq_true, beq_self_eq_true, true_and]
    exact ⟨listEq_refl eqA _ (fun x hx => hr x (Or.inl hx)),
      kwEq_refl eqA _ ((kwNodup_leaf l).1 hn) (fun x hx => hr x (Or.inr hx))⟩
  | .bin op a b, hn, hr => by
    simp only [args, List.mem_append] at hr
    rw [kwNodup_bin] at hn
    simp only [condEqWith, beq_self_eq_true, Bool.true_and,
      cond_refl eqA a hn.1 (fun x hx => hr x (Or.inl hx)),
      cond_refl eqA b hn.2 (fun x hx => hr x (Or.inr hx)), Bool.true_or]

theorem cond_symm (eqA : α → α → Bool) : ∀ c d : Cond α, KwNodup c → KwNodup d →
    (∀ a ∈ args c, ∀ b ∈ args d, eqA a b = eqA b a) → condEqWith eqA c d = condEqWith eqA d c
  | .leaf l, .leaf l', hc, hd, hs => by
    simp only [args, List.mem_append] at hs
    simp only [condEqWith]
    rw [listEq_symm eqA l.args l'.args (fun x hx y hy => hs x (Or.inl hx) y (Or.inl hy)),
      kwEq_symm eqA l.kwargs l'.kwargs ((kwNodup_leaf l).1 hc) ((kwNodup_leaf l').1 hd)
        (fun x hx y hy => hs x (Or.inr hx) y (Or.inr hy)),
      Bool.beq_comm (a := l.cls), Bool.beq_comm (a := l.fn)]
  | .leaf _, .bin _ _ _, _, _, _ => rfl
  | .bin _ _ _, .leaf _, _, _, _ => rfl
  | .bin op a b, .bin op' a' b', hc, hd, hs => by
    simp only [args, List.mem_append] at hs
    rw [kwNodup_bin] at hc hd
    simp only [condEqWith]
    rw [cond_symm eqA a a' hc.1 hd.1 (fun x hx y hy => hs x (Or.inl hx) y (Or.inl hy)),
      cond_symm eqA b b' hc.2 hd.2 (fun x hx y hy => hs x (Or.inr hx) y (Or.inr hy)),
      cond_symm eqA a b' hc.1 hd.2 (fun x hx y hy => hs x (Or.inl hx) y (Or.inr hy)),
      cond_symm eqA b a' hc.2 hd.1 (fun x hx y hy => hs x (Or.inr hx) y (Or.inl hy)),
      Bool.beq_comm (a := op), Bool.and_comm (condEqWith eqA b' a)]

theorem cond_trans (eqA : α → α → Bool) : ∀ c d e : Cond α,
    (∀ x ∈ args c, ∀ y ∈ args d, ∀ z ∈ args e, eqA x y = true → eqA y z = true → eqA x z = true) →
    condEqWith eqA c d = true → condEqWith eqA d e = true → condEqWith eqA c e = true
  | .leaf l, .leaf l', .leaf l'', ht, h1, h2 => by
    simp only [args, List.mem_append] at ht
    simp only [condEqWith, Bool.and_eq_true, beq_iff_eq] at h1 h2 ⊢
    refine ⟨⟨⟨h1.1.1.1.trans h2.1.1.1, h1.1.1.2.trans h2.1.1.2⟩, ?_⟩, ?_⟩
    · exact listEq_trans eqA _ _ _ (fun x hx y hy z hz => ht x (Or.inl hx) y (Or.inl hy) z (Or.inl hz)) h1.1.2 h2.1.2
    · exact kwEq_trans eqA _ _ _ (fun x hx y hy z hz => ht x (Or.inr hx) y (Or.inr hy) z (Or.inr hz)) h1.2 h2.2
  | .leaf _, .bin _ _ _, _, _, h1, _ => by simp [condEqWith] at h1
  | .bin _ _ _, .leaf _, _, _, h1, _ => by simp [condEqWith] at h1
  | .leaf _, .leaf _, .bin _ _ _, _, _, h2 => by simp [condEqWith] at h2
  | .bin _ _ _, .bin _ _ _, .leaf _, _, _, h2 => by simp [condEqWith] at h2
  | .bin op a b, .bin op' a' b', .bin op'' a'' b'', ht, h1, h2 => by
    simp only [args, List.mem_append] at ht
    simp only [condEqWith, Bool.and_eq_true, Bool.or_eq_true, beq_iff_eq] at h1 h2 ⊢
    have taa := fun (u : Cond α) (hu : ∀ x ∈ args u, x ∈ args a' ∨ x ∈ args b')
        (w : Cond α) (hw : ∀ x ∈ args w, x ∈ args a'' ∨ x ∈ args b'') =>
      cond_trans eqA a u w (fun x hx y hy z hz => ht x (Or.inl hx) y (hu y hy) z (hw z hz))
    have tbb := fun (u : Cond α) (hu : ∀ x ∈ args u, x ∈ args a' ∨ x ∈ args b')
        (w : Cond α) (hw : ∀ x ∈ args w, x ∈ args a'' ∨ x ∈ args b'') =>
      cond_trans eqA b u w (fun x hx y hy z hz => ht x (Or.inr hx) y (hu y hy) z (hw z hz))
    refine ⟨h1.1.trans h2.1, ?_⟩
    rcases h1.2 with ⟨p1, p2⟩ | ⟨p1, p2⟩ <;> rcases h2.2 with ⟨q1, q2⟩ | ⟨q1, q2⟩
    · exact Or.inl ⟨taa a' (fun _ => Or.inl) a'' (fun _ => Or.inl) p1 q1,
        tbb b' (fun _ => Or.inr) b'' (fun _ => Or.inr) p2 q2⟩
    · exact Or.inr ⟨taa a' (fun _ => Or.inl) b'' (fun _ => Or.inr) p1 q1,
        tbb b' (fun _ => Or.inr) a'' (fun _ => Or.inl) p2 q2⟩
    · exact Or.inr ⟨taa b' (fun _ => Or.inr) b'' (fun _ => Or.inr) p1 q2,
        tbb a' (fun _ => Or.inl) a'' (fun _ => Or.inl) p2 q1⟩
    · exact Or.inl ⟨taa b' (fun _ => Or.inr) a'' (fun _ => Or.inl) p1 q2,
        tbb a' (fun _ => Or.inl) b'' (fun _ => Or.inr) p2 q1⟩

/-- arguments embedded by `f`: comparison through `f` -/
theorem cond_map (eqB : β → β → Bool) (f : α → β) : ∀ c d : Cond α,
    condEqWith eqB (c.mapArgs f) (d.mapArgs f) = condEqWith (fun x y => eqB (f x) (f y)) c d
  | .leaf l, .leaf l' => by simp only [Cond.mapArgs, condEqWith, listEq_map, kwEq_map]
  | .leaf _, .bin _ _ _ => rfl
  | .bin _ _ _, .leaf _ => rfl
  | .bin op a b, .bin op' a' b' => by
    simp only [Cond.mapArgs, condEqWith, cond_map eqB f a a', cond_map eqB f b b', cond_map eqB f a b',
      cond_map eqB f b a']

theorem kwNodup_map (f : α → β) : ∀ c : Cond α, KwNodup (c.mapArgs f) ↔ KwNodup c
  | .leaf l => by simp [kwNodup_leaf, Cond.mapArgs, Function.comp_def]
  | .bin op a b => by simp only [Cond.mapArgs, kwNodup_bin, kwNodup_map f a, kwNodup_map f b]

end ValidaProofs.C14L
