/-
  ValidaProofs.Lemmas.C11Keys — the key `label ++ "." ++ callable` splits into the tokens of the label
  followed by the callable name (callable names contain no dot), so that the key round trip is a
  property of the seven labels and of the set of callable names separately.
-/
import Valida.Spec.Ser
namespace ValidaProofs.C11K
open Valida ValidaGen

theorem splitOnChar_append (sep : Char) (xs ys acc : List Char) :
    splitOnChar sep acc (xs ++ sep :: ys) = splitOnChar sep acc xs ++ splitOnChar sep [] ys := by
  induction xs generalizing acc with
  | nil => simp [splitOnChar]
  | cons c xs ih =>
    by_cases h : (c == sep) = true <;> simp [splitOnChar, h, ih]

theorem splitOnChar_of_not_mem (sep : Char) (xs acc : List Char) (h : sep ∉ xs) :
    splitOnChar sep acc xs = [acc.reverse ++ xs] := by
  induction xs generalizing acc with
  | nil => simp [splitOnChar]
  | cons c xs ih =>
    have hc : (c == sep) = false := by
      simp only [List.mem_cons, not_or] at h
      exact beq_eq_false_iff_ne.mpr (fun e => h.1 e.symm)
    simp only [List.mem_cons, not_or] at h
    simp [splitOnChar, hc, ih _ h.2]

/-- `(a + "." + b).split(".") == a.split(".") + b.split(".")` -/
theorem splitDot_append (a b : String) : splitDot (a ++ "." ++ b) = splitDot a ++ splitDot b := by
  have hd : (".".toList : List Char) = ['.'] := rfl
  simp [splitDot, String.toList_append, hd, splitOnChar_append]

theorem splitDot_of_no_dot (s : String) (h : s.toList.contains '.' = false) : splitDot s = [s] := by
  have h' : '.' ∉ s.toList := by simpa using h
  simp [splitDot, splitOnChar_of_not_mem _ _ _ h', String.ofList_toList]

/-- `str.lower()` on an (ASCII) token, as `keyRoundTrips` computes it -/
def low (t : String) : String := String.ofList (t.toList.map Char.toLower)

/-- the definition of `keyRoundTrips` in `C11.lean` -/
def keyRoundTrips (info : CondClassInfo) (c : Ctor) : Bool :=
  let toks := (splitDot (info.label ++ "." ++ c.target)).map (fun t => String.ofList (t.toList.map Char.toLower))
  match toks with
  | [d, fn] =>
      (lookupStr d conditionDatumTypes == some info.name) && info.pre == "" &&
      (c.target.toList.map Char.toLower == fn.toList)
  | [d, pre, fn] =>
      (match lookupStr d conditionDatumTypes, lookupStr pre preProcLookup with
       | some base, some p => classProps.any (fun cp => cp.1 == base && cp.2.1 == p && cp.2.2 == info.name)
       | _, _ => false) &&
      (c.target.toList.map Char.toLower == fn.toList)
  | _ => false

/-- the part of `keyRoundTrips` that depends on the class only: its label names the class -/
def labelRoundTrips (info : CondClassInfo) : Bool :=
  match (splitDot info.label).map low with
  | [d] => (lookupStr d conditionDatumTypes == some info.name) && info.pre == ""
  | [d, pre] =>
      (match lookupStr d conditionDatumTypes, lookupStr pre preProcLookup with
       | some base, some p => classProps.any (fun cp => cp.1 == base && cp.2.1 == p && cp.2.2 == info.name)
       | _, _ => false)
  | _ => false

theorem keyRoundTrips_of_no_dot (info : CondClassInfo) (c : Ctor) (h : c.target.toList.contains '.' = false) :
    keyRoundTrips info c = labelRoundTrips info := by
  have hl : ∀ t : String, String.ofList (t.toList.map Char.toLower) = low t := fun _ => rfl
  unfold keyRoundTrips labelRoundTrips
  simp only [splitDot_append, splitDot_of_no_dot _ h, List.map_append, List.map_cons, List.map_nil, hl]
  rcases (splitDot info.label).map low with _ | ⟨d, _ | ⟨p, _ | ⟨q, r⟩⟩⟩ <;>
    simp [low, String.toList_ofList]

/-- all callable names are free of dots -/
theorem targets_no_dot : (generalCtors ++ mapCtors).all (fun c => !c.target.toList.contains '.') = true := by
  decide +kernel

/-- the seven labels name their classes -/
theorem labels_round_trip :
    (condClasses.filter (fun i => i.name != "NullCondition")).all labelRoundTrips = true := by
  decide +kernel

theorem keys_round_trip :
    (condClasses.filter (fun i => i.name != "NullCondition")).all (fun info =>
      ((if info.general then generalCtors else []) ++ (if info.map then mapCtors else [])).all
        (keyRoundTrips info)) = true := by
  have hsub : ∀ (info : CondClassInfo) (c : Ctor),
      c ∈ (if info.general then generalCtors else []) ++ (if info.map then mapCtors else []) →
      c ∈ generalCtors ++ mapCtors := by
    intro info c hc
    simp only [List.mem_append] at hc ⊢
    rcases hc with hc | hc
    · left; split at hc <;> simp_all
    · right; split at hc <;> simp_all
  have ht := targets_no_dot
  have hl := labels_round_trip
  simp only [List.all_eq_true] at ht hl ⊢
  intro info hinfo c hc
  rw [keyRoundTrips_of_no_dot info c (by simpa using ht c (hsub info c hc))]
  exact hl info hinfo

end ValidaProofs.C11K
