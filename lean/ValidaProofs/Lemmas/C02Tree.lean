/-
  ValidaProofs.Lemmas.C02Tree — helper lemmas for C02 (tree level): `filterAux` on combinations,
  `Cond.mkBin`.
-/
import Valida.Cond
import ValidaProofs.Lemmas.Basic
namespace ValidaProofs
open Valida ValidaGen

/-- `mapM` in `Except` keeps the length -/
theorem mapM_except_length {ε α β : Type} (f : α → Except ε β) :
    ∀ (xs : List α) (ys : List β), xs.mapM f = .ok ys → ys.length = xs.length := by
  intro xs
  induction xs with
  | nil => intro ys h; simp [pure, Except.pure] at h; subst h; rfl
  | cons x xs ih =>
    intro ys h
    rw [List.mapM_cons] at h
    cases hx : f x with
    | error e => simp [hx, bind, Except.bind] at h
    | ok y =>
      cases hxs : xs.mapM f with
      | error e => simp [hx, hxs, bind, Except.bind] at h
      | ok ys' =>
        simp [hx, hxs, bind, Except.bind, pure, Except.pure] at h
        subst h
        simp [ih ys' hxs]

/-- the leaf case of `filterAux` without paths, as a plain case distinction -/
theorem filterAux_leaf_false (l : Leaf RArg) (d : DataV) :
    filterAux (.leaf l) d false =
      match l.cls.info with
      | .error e => .error e
      | .ok info =>
        match (if info.readsKeys then d.keys else d.values).mapM (evalItem info.pre l.fn l.args l.kwargs) with
        | .error e => .error e
        | .ok flags => .ok (.leaf l.cls l.fn flags, d, none) := by
  simp only [filterAux]
  cases l.cls.info with
  | error e => simp [bind, Except.bind]
  | ok info =>
    simp only [bind, Except.bind, pure, Except.pure]
    cases (if info.readsKeys then d.keys else d.values).mapM (evalItem info.pre l.fn l.args l.kwargs) with
    | error e => simp
    | ok flags => simp

theorem filterAux_bin (op : BinOp) (a b : Cond RArg) (d : DataV) (hp : Bool) :
    filterAux (.bin op a b) d hp =
      match filterAux a d hp with
      | .error e => .error e
      | .ok (fa, d1, pa) =>
        match filterAux b d1 false with
        | .error e => .error e
        | .ok (fb, d2, _) => .ok (.bin op fa fb, d2, pa) := by
  simp only [filterAux]
  cases filterAux a d hp with
  | error e => simp [bind, Except.bind]
  | ok r =>
    obtain ⟨fa, d1, pa⟩ := r
    simp only [bind, Except.bind, pure, Except.pure]
    cases filterAux b d1 false with
    | error e => simp
    | ok r2 => obtain ⟨fb, d2, pb⟩ := r2; simp

/-- filtering without paths never changes the wrapped data and extracts no paths -/
theorem filterAux_frame (c : Cond RArg) :
    ∀ (d : DataV) (fd : FD) (d' : DataV) (p : Option (List PyVal)),
      filterAux c d false = .ok (fd, d', p) → d' = d ∧ p = none := by
  induction c with
  | leaf l =>
    intro d fd d' p h
    rw [filterAux_leaf_false] at h
    split at h
    · cases h
    · split at h
      · cases h
      · cases h; exact ⟨rfl, rfl⟩
  | bin op a b iha ihb =>
    intro d fd d' p h
    rw [filterAux_bin] at h
    split at h
    · cases h
    · rename_i fa d1 pa ha
      split at h
      · cases h
      · rename_i fb d2 pb hb
        cases h
        obtain ⟨rfl, rfl⟩ := iha _ _ _ _ ha
        obtain ⟨rfl, _⟩ := ihb _ _ _ _ hb
        exact ⟨rfl, rfl⟩

theorem filterAux_bin_inv (op : BinOp) (a b : Cond RArg) (d : DataV) (fd : FD) (d' : DataV)
    (p : Option (List PyVal)) (h : filterAux (.bin op a b) d false = .ok (fd, d', p)) :
    ∃ fa fb, filterAux a d false = .ok (fa, d, none) ∧ filterAux b d false = .ok (fb, d, none) ∧
      fd = .bin op fa fb := by
  rw [filterAux_bin] at h
  split at h
  · cases h
  · rename_i fa d1 pa ha
    split at h
    · cases h
    · rename_i fb d2 pb hb
      cases h
      obtain ⟨rfl, rfl⟩ := filterAux_frame _ _ _ _ _ ha
      obtain ⟨rfl, rfl⟩ := filterAux_frame _ _ _ _ _ hb
      exact ⟨fa, fb, ha, hb, rfl⟩

theorem filterAux_bin_ok (op : BinOp) (a b : Cond RArg) (d : DataV) (fa fb : FD)
    (ha : filterAux a d false = .ok (fa, d, none)) (hb : filterAux b d false = .ok (fb, d, none)) :
    filterAux (.bin op a b) d false = .ok (.bin op fa fb, d, none) := by
  rw [filterAux_bin, ha]; simp only; rw [hb]

theorem filterAux_result_length (c : Cond RArg) :
    ∀ (d : DataV) (fd : FD) (d' : DataV) (p : Option (List PyVal)),
      d.keys.length = d.values.length →
      filterAux c d false = .ok (fd, d', p) → fd.result.length = d.values.length := by
  induction c with
  | leaf l =>
    intro d fd d' p hd h
    rw [filterAux_leaf_false] at h
    split at h
    · cases h
    · rename_i info _
      split at h
      · cases h
      · rename_i flags hm
        cases h
        have := mapM_except_length _ _ _ hm
        simp only [FD.result, List.length_map, this]
        split <;> simp [hd]
  | bin op a b iha ihb =>
    intro d fd d' p hd h
    obtain ⟨fa, fb, ha, hb, rfl⟩ := filterAux_bin_inv _ _ _ _ _ _ _ h
    simp [FD.result, iha _ _ _ _ hd ha, ihb _ _ _ _ hd hb]

/-- a tree filters without aborting as soon as its leaves do -/
theorem filterAux_never_aborts_of_leaves (c : Cond PyVal)
    (hleaf : ∀ (l : Leaf PyVal) (d : DataV) e,
      filterAux (Cond.lit (.leaf l)) d false = .error e → e = .unmodelled) :
    ∀ (d : DataV) e, filterAux c.lit d false = .error e → e = .unmodelled := by
  induction c with
  | leaf l => exact hleaf l
  | bin op a b iha ihb =>
    intro d e h
    have hl : Cond.lit (.bin op a b) = .bin op a.lit b.lit := rfl
    rw [hl, filterAux_bin] at h
    split at h
    · rename_i e' ha
      cases h; exact iha _ _ ha
    · rename_i fa d1 pa ha
      obtain ⟨rfl, rfl⟩ := filterAux_frame _ _ _ _ _ ha
      split at h
      · rename_i e' hb
        cases h; exact ihb _ _ hb
      · cases h

/-! ### `mkBin` -/

theorem mkBin_null_right {α : Type} (op : BinOp) (a : Cond α) : Cond.mkBin op a Cond.null = .ok a := by
  simp [Cond.mkBin, Cond.null, Cond.isNull]

theorem mkBin_null_left {α : Type} (op : BinOp) (b : Cond α) (hb : b.isNull = false) :
    Cond.mkBin op Cond.null b = .ok b := by
  have hn : (Cond.null : Cond α).isNull = true := by simp [Cond.null, Cond.isNull]
  simp [Cond.mkBin, hb, hn]

theorem mkBin_mixed {α : Type} (op : BinOp) (a b : Cond α) (ha : a.isNull = false) (hb : b.isNull = false) :
    Cond.mkBin op a b =
      if (a.leaves ++ b.leaves).any (fun l => Cond.likeOf l.cls == "key") &&
         (a.leaves ++ b.leaves).any (fun l => Cond.likeOf l.cls == "index")
      then .error .typeError else .ok (.bin op a b) := by
  have hany : ∀ (p : Leaf α → Bool) (ls : List (Leaf α)), decide (ls.countP p > 0) = ls.any p := by
    intro p ls
    rw [Bool.eq_iff_iff]
    simp [List.countP_pos_iff]
  simp only [Cond.mkBin, ha, hb, hany]
  simp

end ValidaProofs
