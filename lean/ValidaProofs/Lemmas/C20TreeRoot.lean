/-
  ValidaProofs.Lemmas.C20TreeRoot — when the tree has a node with the empty path (a root rule, or an
  implicitly typed root), that node is the first of the flat list and the only one without a parent.
-/
import Valida.Tree
import ValidaProofs.Lemmas.C20Tree
import ValidaProofs.Lemmas.C20TreeOrder
import ValidaProofs.Lemmas.C20TreeFold
import ValidaProofs.Lemmas.C20TreeFlat
import ValidaProofs.Lemmas.C20TreeGen
namespace ValidaProofs.C20H
open Valida ValidaGen ValidaProofs.C20L

/-- while no node with the empty path is passed, a node directly below the root gets the reference
    that the references hold for the empty path -/
theorem assignParents_root (sorted : List TItem) : ∀ (refs : List (List String × Int)) (n : Nat) (out : List TItem)
    (r0 : List String × Int), assignParents sorted refs n = .ok out → (∀ it ∈ sorted, it.pathStr ≠ []) →
    refs.find? (fun r => r.1 == []) = some r0 →
    ∀ it ∈ out, it.pathStr.dropLast = [] → it.parent = r0.2 := by
  induction sorted with
  | nil =>
    intro refs n out r0 h _ _ it hit
    unfold assignParents at h
    cases h
    cases hit
  | cons x rest ih =>
    intro refs n out r0 h hne hr0 it hit hdl
    obtain ⟨r, tail, hr, ht, rfl⟩ := assignParents_cons_ok x rest refs n out h
    rcases List.mem_cons.1 hit with rfl | hit
    · have hdl' : x.pathStr.dropLast = [] := hdl
      rw [hdl', hr0] at hr
      cases hr
      rfl
    · refine ih _ _ tail r0 ht (fun y hy => hne y (by simp [hy])) ?_ it hit hdl
      rw [List.find?_cons]
      have : (x.pathStr == ([] : List String)) = false := by
        have := hne x (by simp)
        cases hx : x.pathStr with
        | nil => exact absurd hx this
        | cons a as => rfl
      simp only [this]
      exact hr0

theorem keyLe_nil_right (a : List String) (h : keyLe a [] = true) : a = [] := by
  cases a with
  | nil => rfl
  | cons x xs => rw [keyLe_cons_nil] at h; cases h

theorem gen_single_root (rules : List TRule) (fromStr : List String) (lst : List TItem)
    (h : Assigned rules fromStr lst) (hroot : ∃ it ∈ lst, it.pathStr = []) :
    ∃ root rest, lst = root :: rest ∧ root.pathStr = [] ∧ root.parent = -1 ∧
      ∀ it ∈ rest, 0 ≤ it.parent ∧ it.pathStr ≠ [] := by
  have hsorted := sortedItems_sorted rules fromStr
  have hnodup : ((sortedItems rules fromStr).map (·.pathStr)).Nodup :=
    ((sortedItems_perm rules fromStr).map (·.pathStr)).nodup_iff.2 (treeItems_keys_nodup rules fromStr)
  have hmapeq := assignParents_noParent _ _ _ _ h
  -- the sorted items contain a node with the empty path
  obtain ⟨y, hy, hyk⟩ := hroot
  have hy' : ∃ y0 ∈ sortedItems rules fromStr, y0.pathStr = [] := by
    have : noParent y ∈ (sortedItems rules fromStr).map noParent := by
      rw [← hmapeq]; exact List.mem_map.2 ⟨y, hy, rfl⟩
    obtain ⟨y0, h0, he⟩ := List.mem_map.1 this
    refine ⟨y0, h0, ?_⟩
    have := congrArg TItem.pathStr he
    rw [noParent_pathStr, noParent_pathStr] at this
    rw [this]; exact hyk
  unfold Assigned at h
  cases hs : sortedItems rules fromStr with
  | nil =>
    obtain ⟨y0, h0, _⟩ := hy'
    rw [hs] at h0; cases h0
  | cons x rest =>
    rw [hs] at h hsorted hnodup hy'
    rw [List.pairwise_cons] at hsorted
    rw [List.map_cons, List.nodup_cons] at hnodup
    have hx : x.pathStr = [] := by
      obtain ⟨y0, h0, hk0⟩ := hy'
      rcases List.mem_cons.1 h0 with rfl | h0
      · exact hk0
      · have := hsorted.1 y0 h0
        rw [hk0] at this
        exact keyLe_nil_right _ this
    have hrest : ∀ it ∈ rest, it.pathStr ≠ [] := by
      intro it hit e
      apply hnodup.1
      rw [hx, ← e]
      exact List.mem_map.2 ⟨it, hit, rfl⟩
    obtain ⟨r, tail, hr, ht, rfl⟩ := assignParents_cons_ok x rest _ 0 lst h
    have hr' : r = ([], -1) := by
      rw [hx] at hr
      simp only [List.dropLast_nil, List.find?_cons, beq_self_eq_true] at hr
      cases hr; rfl
    refine ⟨{ x with parent := r.2 }, tail, rfl, hx, by rw [hr'], ?_⟩
    intro it hit
    have htailkeys : tail.map noParent = rest.map noParent := assignParents_noParent _ _ _ _ ht
    have hne : it.pathStr ≠ [] := by
      have : noParent it ∈ rest.map noParent := by
        rw [← htailkeys]; exact List.mem_map.2 ⟨it, hit, rfl⟩
      obtain ⟨it0, h0, he⟩ := List.mem_map.1 this
      have hk := congrArg TItem.pathStr he
      rw [noParent_pathStr, noParent_pathStr] at hk
      rw [← hk]; exact hrest it0 h0
    refine ⟨?_, hne⟩
    obtain ⟨_, hall⟩ := assignParents_spec rest _ 1 tail ht (by
      intro r' hr'
      simp only [List.mem_cons, List.mem_nil_iff, or_false] at hr'
      rcases hr' with rfl | rfl
      · exact Int.zero_lt_one
      · decide)
    obtain ⟨i, hi⟩ := List.mem_iff_getElem?.1 hit
    obtain ⟨_, hex⟩ := hall i it hi
    rcases hex with ⟨r', hr'm, hk', _⟩ | ⟨j, p, _, _, hpp⟩
    · have hdl : it.pathStr.dropLast = [] := by
        simp only [List.mem_cons, List.mem_nil_iff, or_false] at hr'm
        rcases hr'm with rfl | rfl
        · rw [← hk']; exact hx
        · rw [← hk']
      have := assignParents_root rest _ 1 tail (x.pathStr, Int.ofNat 0) ht hrest
        (by rw [hx]; rfl) it hit hdl
      rw [this]
      exact Int.le_refl 0
    · rw [hpp]; omega

end ValidaProofs.C20H
