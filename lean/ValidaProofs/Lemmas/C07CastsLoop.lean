/-
  ValidaProofs.Lemmas.C07CastsLoop — the selection of a rule reports truthful paths in a well-formed
  document (no assumption that every step succeeds: the walk that returned did succeed), a declared
  cast from `str` only ever replaces strings, and the cast loop / rule test / schema loop keep the
  relation `Rel` between the document and the working copy and raise nothing but the pseudo-outcome.
-/
import Valida.Rule
import ValidaSpec.Walk
import ValidaProofs.Lemmas.Basic
import ValidaProofs.C03
import ValidaProofs.C04
import ValidaProofs.C07
import ValidaProofs.Lemmas.C07CastsRel
namespace ValidaProofs.C07C
open Valida ValidaGen ValidaSpec
open ValidaProofs.C07L

/-! ### truthful paths -/

/-- every frontier node is what indexing the document along its recorded path gives -/
def Truth (doc : PyVal) (data : List PyVal) (paths : List (List PyVal)) : Prop :=
  ∀ nq ∈ data.zip paths, index doc nq.2 = some nq.1 ∧ DocWF nq.1

theorem step_truth (part : Part) (node : PyVal) (kvs : List (PyVal × PyVal)) (hwf : DocWF node)
    (h : stepNode part node = .ok kvs) : ∀ kv ∈ kvs, childAt node kv.1 = some kv.2 := by
  apply C04_step_truthful_hashable part node kvs h
  intro items hi
  subst hi
  simp only [DocWF] at hwf
  exact ⟨hwf.2.1, hwf.1⟩

theorem index_snoc (doc : PyVal) (pre : List PyVal) (k n c : PyVal) (hp : index doc pre = some n)
    (hc : childAt n k = some c) : index doc (pre ++ [k]) = some c := by
  rw [C04.index_append, hp]; exact hc

theorem drop_cons_getElem? {α : Type} (l : List α) (i : Nat) (a : α) (t : List α) (h : l.drop i = a :: t) :
    l[i]? = some a ∧ l.drop (i + 1) = t := by
  have h1 : l[i]? = some a := by
    have := congrArg List.head? h
    simpa [List.head?_drop] using this
  refine ⟨h1, ?_⟩
  have := congrArg List.tail h
  simpa [List.tail_drop] using this

theorem zip_map_mem (kvs : List (PyVal × PyVal)) (f : PyVal × PyVal → List PyVal)
    (nq : PyVal × List PyVal) (h : nq ∈ (kvs.map (·.2)).zip (kvs.map f)) :
    ∃ kv ∈ kvs, nq = (kv.2, f kv) := by
  rw [List.zip_map'] at h
  obtain ⟨kv, hkv, rfl⟩ := List.mem_map.1 h
  exact ⟨kv, hkv, rfl⟩

theorem stepFrontier_truth (doc : PyVal) (part : Part) (paths : List (List PyVal)) :
    ∀ (data : List PyVal) (idx : Nat) (d' : List PyVal) (p' : List (List PyVal)),
      Truth doc data (paths.drop idx) → data.length ≤ (paths.drop idx).length →
      stepFrontier part false data paths idx = .ok (d', p') → Truth doc d' p' := by
  intro data
  induction data with
  | nil =>
    intro idx d' p' _ _ h
    simp [stepFrontier] at h
    obtain ⟨rfl, rfl⟩ := h
    intro nq hnq; simp at hnq
  | cons node rest ih =>
    intro idx d' p' ht hlen h
    cases hdrop : paths.drop idx with
    | nil => rw [hdrop] at hlen; simp at hlen
    | cons pre tail =>
      obtain ⟨hget, htail⟩ := drop_cons_getElem? paths idx pre tail hdrop
      rw [hdrop] at ht hlen
      have hnode := ht (node, pre) (by simp)
      have hrest : Truth doc rest (paths.drop (idx + 1)) := by
        rw [htail]; intro nq hnq; exact ht nq (by simp [hnq])
      rw [stepFrontier_cons] at h
      split at h
      · cases h
      · rename_i kvs hstep
        simp only [Bool.false_eq_true, if_false, hget] at h
        split at h
        · cases h
        · rename_i d1 p1 hsf
          cases h
          have hl1 := stepFrontier_len _ _ _ _ _ _ _ hsf
          have ht1 := ih (idx + 1) d1 p1 hrest (by rw [htail]; simpa using hlen) hsf
          intro nq hnq
          rw [List.zip_append (by simp)] at hnq
          rcases List.mem_append.1 hnq with hnq | hnq
          · obtain ⟨kv, hkv, rfl⟩ := zip_map_mem kvs (fun kv => pre ++ [kv.1]) nq hnq
            have hch := step_truth part node kvs hnode.2 hstep kv hkv
            exact ⟨index_snoc doc pre kv.1 node kv.2 hnode.1 hch, docWF_childAt node kv.1 kv.2 hnode.2 hch⟩
          · exact ht1 nq hnq

theorem walkParts_truth (doc : PyVal) (parts : List Part) :
    ∀ (data : List PyVal) (paths : List (List PyVal)) (d' : List PyVal) (p' : List (List PyVal)),
      Truth doc data paths → data.length = paths.length →
      walkParts parts false data paths = .ok (d', p') → Truth doc d' p' := by
  induction parts with
  | nil =>
    intro data paths d' p' ht _ h
    simp [walkParts] at h
    obtain ⟨rfl, rfl⟩ := h
    exact ht
  | cons part rest ih =>
    intro data paths d' p' ht hlen h
    rw [walkParts_cons] at h
    split at h
    · cases h
    · rename_i d1 p1 hsf
      have ht1 := stepFrontier_truth doc part paths data 0 d1 p1 (by simpa using ht) (by simp [hlen]) hsf
      exact ih d1 p1 d' p' ht1 (stepFrontier_len _ _ _ _ _ _ _ hsf) h

theorem walkParts_truth_first (doc : PyVal) (hwf : DocWF doc) (parts : List Part)
    (d' : List PyVal) (p' : List (List PyVal))
    (h : walkParts parts true [doc] [] = .ok (d', p')) (hne : parts ≠ []) : Truth doc d' p' := by
  cases parts with
  | nil => exact absurd rfl hne
  | cons part rest =>
    rw [walkParts_cons] at h
    split at h
    · cases h
    · rename_i d1 p1 hsf
      have hl1 := stepFrontier_len _ _ _ _ _ _ _ hsf
      refine walkParts_truth doc rest d1 p1 d' p' ?_ hl1 h
      rw [stepFrontier_cons] at hsf
      split at hsf
      · cases hsf
      · rename_i kvs hstep
        simp only [if_true, stepFrontier] at hsf
        cases hsf
        intro nq hnq
        simp only [List.append_nil] at hnq
        obtain ⟨kv, hkv, rfl⟩ := zip_map_mem kvs (fun kv => [kv.1]) nq hnq
        have hch := step_truth part doc kvs hwf hstep kv hkv
        exact ⟨by simp [index, hch], docWF_childAt doc kv.1 kv.2 hwf hch⟩

/-- a `(value, path)` tuple whose path leads to the value in the document -/
def TruePair (doc : PyVal) (x : PyVal) : Prop :=
  ∃ v q, x = PyVal.tuple [v, PyVal.tuple q] ∧ index doc q = some v

theorem head?_pairs_true (doc : PyVal) (zs : List (PyVal × List PyVal))
    (hz : ∀ nq ∈ zs, index doc nq.2 = some nq.1 ∧ DocWF nq.1) (v : PyVal)
    (h : (zs.map (fun vp => PyVal.tuple [vp.1, .tuple vp.2])).head? = some v) : TruePair doc v := by
  cases zs with
  | nil => simp at h
  | cons z zs => simp at h; exact ⟨z.1, z.2, h.symm, (hz z (by simp)).1⟩

theorem getData_truth (p : Path) (doc : PyVal) (hwf : DocWF doc) (hs : p.source = none) (hd : p.datum = .none)
    (hm : p.multi = .none) (s : PyVal) (h : p.getData (some doc) true = .ok s) :
    s = .none ∨ s = .list [] ∨ TruePair doc s ∨
      (∃ out, s = .list out ∧ p.concrete = false ∧ ∀ x ∈ out, TruePair doc x) := by
  rw [getData_eq p doc hs hd hm] at h
  split at h
  · split at h
    · cases h; exact Or.inr (Or.inr (Or.inl ⟨_, _, rfl, rfl⟩))
    · rename_i hne
      split at h
      · cases h
      · rename_i nodes paths hw
        have htr : Truth doc nodes paths := walkParts_truth_first doc hwf p.parts nodes paths hw
          (by intro h0; rw [h0] at hne; exact hne rfl)
        split at h
        · cases h
          cases p.concrete
          · exact Or.inr (Or.inl rfl)
          · exact Or.inl rfl
        · split at h
          · split at h
            · rename_i v hv
              cases h
              exact Or.inr (Or.inr (Or.inl (head?_pairs_true doc _ htr _ hv)))
            · cases h
          · rename_i hc
            cases h
            refine Or.inr (Or.inr (Or.inr ⟨_, rfl, by simpa using hc, ?_⟩))
            intro x hx
            obtain ⟨z, hz, rfl⟩ := List.mem_map.1 hx
            exact ⟨z.1, z.2, rfl, (htr z hz).1⟩
  · cases h

/-- what `selection` returns in a well-formed document: `(value, path)` pairs with truthful paths -/
theorem selection_truth (p : Path) (doc : PyVal) (hwf : DocWF doc) (hd : p.datum = .none) (hm : p.multi = .none)
    (hs : p.source = none) (sub : List PyVal) (h : selection p doc = .ok (some sub)) :
    ∀ x ∈ sub, TruePair doc x := by
  rw [selection_eq p doc hd hm] at h
  split at h
  · cases h
  · rename_i s hg
    rcases getData_truth p doc hwf hs hd hm s hg with rfl | rfl | ⟨v, q, rfl, hq⟩ | ⟨out, rfl, hc, hout⟩
    · simp at h
    · simp at h
    · simp only at h
      split at h
      · cases h
        intro x hx; simp at hx; subst hx; exact ⟨v, q, rfl, hq⟩
      · cases h
    · cases out with
      | nil => simp at h
      | cons x xs =>
        simp only [hc, Bool.false_eq_true, if_false] at h
        cases h
        exact hout

/-! ### one node's cast -/

theorem castNode_some (casts : List (PyType × String)) (hc : ∀ tf ∈ casts, tf.1 = PyType.str)
    (v v' : PyVal) (h : castNode casts v = .ok (some v')) :
    ∃ s fn, v = .str s ∧ (PyType.str, fn) ∈ casts ∧ applyCast fn (.str s) = .ok v' := by
  induction casts with
  | nil => simp [castNode] at h
  | cons c rest ih =>
    obtain ⟨t, fn⟩ := c
    have ht : t = PyType.str := hc (t, fn) (by simp)
    subst ht
    have hrest : ∀ tf ∈ rest, tf.1 = PyType.str := fun tf htf => hc tf (by simp [htf])
    unfold castNode at h
    split at h
    · rename_i hinst
      split at h
      · rename_i v'' happ
        cases h
        cases v <;> simp [PyVal.instOf, PyVal.typeOf] at hinst
        exact ⟨_, fn, rfl, by simp, happ⟩
      · split at h
        · obtain ⟨s, fn', hv, hmem, happ⟩ := ih hrest h
          exact ⟨s, fn', hv, by simp [hmem], happ⟩
        · cases h
    · obtain ⟨s, fn', hv, hmem, happ⟩ := ih hrest h
      exact ⟨s, fn', hv, by simp [hmem], happ⟩

/-! ### the cast loop, one rule, the schema loop -/

section
variable {P : String → PyVal → Prop}

theorem castLoop_spec (casts : List (PyType × String)) (hc : ∀ tf ∈ casts, tf.1 = PyType.str)
    (hP : ∀ s fn v, (PyType.str, fn) ∈ casts → applyCast fn (.str s) = .ok v → P s v)
    (doc : PyVal) (hwf : DocWF doc) (sub : List PyVal) (hsub : ∀ x ∈ sub, TruePair doc x) :
    ∀ copy, Rel P doc copy →
      (∀ e, castLoop casts sub copy = .error e → e = .unmodelled) ∧
      (∀ c', castLoop casts sub copy = .ok c' → Rel P doc c') := by
  induction sub with
  | nil =>
    intro copy hrel
    simp only [castLoop]
    exact ⟨fun e h => (by cases h), fun c' h => by cases h; exact hrel⟩
  | cons x rest ih =>
    intro copy hrel
    have ihr := ih (fun y hy => hsub y (by simp [hy]))
    obtain ⟨v, q, rfl, hq⟩ := hsub x (by simp)
    simp only [castLoop, bind, Except.bind]
    cases hcn : castNode casts v with
    | error e =>
      simp only
      exact ⟨fun e' h => (by cases h; exact C07_cast_total casts v e hcn), fun c' h => by cases h⟩
    | ok o =>
      cases o with
      | none => simpa only using ihr copy hrel
      | some v' =>
        simp only
        obtain ⟨s, fn, rfl, hmem, happ⟩ := castNode_some casts hc v v' hcn
        have hpv : P s v' := hP s fn v' hmem happ
        cases hqe : q.isEmpty with
        | true => simpa only [if_true, pure, Except.pure] using ihr copy hrel
        | false =>
          simp only [Bool.false_eq_true, if_false]
          have hqne : q ≠ [] := by intro h0; subst h0; simp at hqe
          obtain ⟨copy', hset, hrel'⟩ := rel_setAt q hqne doc copy hrel hwf (.str s) v' hq
            (by simp only [Rel]; exact Or.inr hpv)
          simpa only [hset] using ihr copy' hrel'

theorem truthy_of_ofPy (doc : PyVal) (d : DataV) (h : DataV.ofPy doc = .ok d) : PyVal.truthy doc = true := by
  cases doc with
  | list xs => cases xs <;> simp [DataV.ofPy_list, PyVal.truthy] at h ⊢
  | dict kvs => cases kvs <;> simp [DataV.ofPy_dict, PyVal.truthy] at h ⊢
  | _ => cases h

/-- the rest of `Rule.test` once the copy after this rule's casts is known -/
def castTail (r : RuleM) (x : Except Exc PyVal) : Except Exc (RuleTestR × PyVal) :=
  match x with
  | .error e => .error e
  | .ok copy' =>
    match ruleTestOn r copy' with
    | .error e => .error e
    | .ok t => .ok (t, copy')

/-- the copy this rule's casts leave -/
def castCopy (r : RuleM) (doc copy : PyVal) : Except Exc PyVal :=
  match selection r.path doc with
  | .error e => .error e
  | .ok none => .ok copy
  | .ok (some sub) => castLoop r.cast sub copy

theorem test_casting (r : RuleM) (doc copy : PyVal) (d : DataV) (hdoc : DataV.ofPy doc = .ok d)
    (hce : r.cast.isEmpty = false) : r.test doc copy = castTail r (castCopy r doc copy) := by
  unfold RuleM.test castCopy
  rw [castSource_eq]
  simp only [hdoc, hce, bind, Except.bind, pure, Except.pure, Bool.false_eq_true, if_false]
  cases selection r.path doc with
  | error e => rfl
  | ok o =>
    cases o with
    | none => simp only [castTail]; cases ruleTestOn r copy <;> rfl
    | some sub =>
      simp only [castTail]
      cases castLoop r.cast sub copy with
      | error e => rfl
      | ok c => simp only; cases ruleTestOn r c <;> rfl

theorem castTail_spec (r : RuleM) (hr : RuleOK r) (doc : PyVal) (d : DataV) (hdoc : DataV.ofPy doc = .ok d)
    (x : Except Exc PyVal) (hx1 : ∀ e, x = .error e → e = .unmodelled)
    (hx2 : ∀ c', x = .ok c' → Rel P doc c') :
    (∀ e, castTail r x = .error e → e = .unmodelled) ∧
    (∀ t c', castTail r x = .ok (t, c') → Rel P doc c') := by
  cases x with
  | error e =>
    simp only [castTail]
    exact ⟨fun e' h => (by cases h; exact hx1 e rfl), fun t c' h => by cases h⟩
  | ok copy' =>
    simp only [castTail]
    have hrel' := hx2 copy' rfl
    obtain ⟨d', hd'⟩ := rel_ofPy doc copy' hrel' d hdoc
    cases ht : ruleTestOn r copy' with
    | error e =>
      simp only
      exact ⟨fun e' h => (by cases h; exact C07_rule_total r copy' d' hr hd' e ht), fun t c' h => by cases h⟩
    | ok t =>
      simp only
      exact ⟨fun e h => (by cases h), fun t' c' h => by cases h; exact hrel'⟩

theorem test_spec (r : RuleM) (hr : RuleOK r) (hc : ∀ tf ∈ r.cast, tf.1 = PyType.str)
    (hP : ∀ s fn v, (PyType.str, fn) ∈ r.cast → applyCast fn (.str s) = .ok v → P s v)
    (doc : PyVal) (hwf : DocWF doc) (d : DataV) (hdoc : DataV.ofPy doc = .ok d)
    (copy : PyVal) (hrel : Rel P doc copy) :
    (∀ e, r.test doc copy = .error e → e = .unmodelled) ∧
    (∀ t c', r.test doc copy = .ok (t, c') → Rel P doc c') := by
  have htr := truthy_of_ofPy doc d hdoc
  cases hce : r.cast.isEmpty with
  | true =>
    unfold RuleM.test
    rw [castSource_eq]
    simp only [hdoc, hce, bind, Except.bind, pure, Except.pure, if_true]
    cases ht : ruleTestOn r doc with
    | error e =>
      simp only
      exact ⟨fun e' h => (by cases h; exact C07_rule_total r doc d hr hdoc e ht), fun t c' h => by cases h⟩
    | ok t =>
      simp only
      exact ⟨fun e h => (by cases h), fun t' c' h => by cases h; exact hrel⟩
  | false =>
    rw [test_casting r doc copy d hdoc hce]
    apply castTail_spec r hr doc d hdoc
    · intro e h
      unfold castCopy at h
      split at h
      · rename_i e' hsel
        cases h
        exact C07_selection_total r.path doc hr.datum hr.multi hr.source htr _ hsel
      · cases h
      · rename_i sub hsel
        have hsub := selection_truth r.path doc hwf hr.datum hr.multi hr.source sub hsel
        exact (castLoop_spec r.cast hc hP doc hwf sub hsub copy hrel).1 e h
    · intro c' h
      unfold castCopy at h
      split at h
      · cases h
      · cases h; exact hrel
      · rename_i sub hsel
        have hsub := selection_truth r.path doc hwf hr.datum hr.multi hr.source sub hsel
        exact (castLoop_spec r.cast hc hP doc hwf sub hsub copy hrel).2 c' h

theorem validateLoop_spec (doc : PyVal) (hwf : DocWF doc) (d : DataV) (hdoc : DataV.ofPy doc = .ok d)
    (rs : List RuleM) (hr : ∀ r ∈ rs, RuleOK r) (hc : ∀ r ∈ rs, ∀ tf ∈ r.cast, tf.1 = PyType.str)
    (hP : ∀ r ∈ rs, ∀ s fn v, (PyType.str, fn) ∈ r.cast → applyCast fn (.str s) = .ok v → P s v) :
    ∀ copy, Rel P doc copy →
      (∀ e, validateLoop rs doc copy = .error e → e = .unmodelled) ∧
      (∀ ts c', validateLoop rs doc copy = .ok (ts, c') → Rel P doc c') := by
  induction rs with
  | nil =>
    intro copy hrel
    simp only [validateLoop]
    exact ⟨fun e h => (by cases h), fun ts c' h => by cases h; exact hrel⟩
  | cons r rest ih =>
    intro copy hrel
    have ihr := ih (fun r' h => hr r' (by simp [h])) (fun r' h => hc r' (by simp [h]))
      (fun r' h => hP r' (by simp [h]))
    obtain ⟨h1, h2⟩ := test_spec r (hr r (by simp)) (hc r (by simp)) (hP r (by simp)) doc hwf d hdoc copy hrel
    simp only [validateLoop, bind, Except.bind, pure, Except.pure]
    cases ht : r.test doc copy with
    | error e =>
      simp only
      exact ⟨fun e' h => (by cases h; exact h1 e ht), fun ts c' h => by cases h⟩
    | ok tc =>
      obtain ⟨t, copy'⟩ := tc
      simp only
      obtain ⟨h3, h4⟩ := ihr copy' (h2 t copy' ht)
      cases hl : validateLoop rest doc copy' with
      | error e =>
        simp only
        exact ⟨fun e' h => (by cases h; exact h3 e hl), fun ts c' h => by cases h⟩
      | ok tsc =>
        obtain ⟨ts, copy''⟩ := tsc
        simp only
        exact ⟨fun e h => (by cases h), fun ts' c' h => by cases h; exact h4 ts copy'' hl⟩

end

/-! ### the schema -/

/-- what a declared cast may put in place of the string `s` -/
def CastOf (casts : List (PyType × String)) (s : String) (v : PyVal) : Prop :=
  ∃ fn, (PyType.str, fn) ∈ casts ∧ applyCast fn (.str s) = .ok v

/-- every cast any rule of the schema declares -/
def allCasts (rs : List RuleM) : List (PyType × String) := rs.flatMap (·.cast)

theorem castOf_all (rs : List RuleM) :
    ∀ r ∈ rs, ∀ s fn v, (PyType.str, fn) ∈ r.cast → applyCast fn (.str s) = .ok v → CastOf (allCasts rs) s v := by
  intro r hr s fn v hmem happ
  exact ⟨fn, List.mem_flatMap.2 ⟨r, hr, hmem⟩, happ⟩

theorem validate_total (rs : List RuleM) (doc : PyVal) (d : DataV)
    (hr : ∀ r ∈ rs, RuleOK r) (hwf : DocWF doc) (hdoc : DataV.ofPy doc = .ok d)
    (hcasts : ∀ r ∈ rs, ∀ tf ∈ r.cast, tf.1 = PyType.str) :
    ∀ e, validate rs doc = .error e → e = .unmodelled := by
  intro e h
  obtain ⟨h1, _⟩ := validateLoop_spec (P := CastOf (allCasts rs)) doc hwf d hdoc rs hr hcasts (castOf_all rs)
    doc (rel_refl _ doc)
  unfold validate at h
  simp only [hdoc, bind, Except.bind, pure, Except.pure] at h
  cases hl : validateLoop rs doc doc with
  | error e' => simp only [hl] at h; cases h; exact h1 e hl
  | ok r => simp only [hl] at h; cases h

theorem validate_rel (rs : List RuleM) (doc : PyVal) (v : Validated)
    (hwf : DocWF doc) (hr : ∀ r ∈ rs, RuleOK r) (hcasts : ∀ r ∈ rs, ∀ tf ∈ r.cast, tf.1 = PyType.str)
    (h : validate rs doc = .ok v) : Rel (CastOf (allCasts rs)) doc v.castData := by
  unfold validate at h
  simp only [bind, Except.bind, pure, Except.pure] at h
  cases hdoc : DataV.ofPy doc with
  | error e => simp only [hdoc] at h; cases h
  | ok d =>
    simp only [hdoc] at h
    obtain ⟨_, h2⟩ := validateLoop_spec (P := CastOf (allCasts rs)) doc hwf d hdoc rs hr hcasts (castOf_all rs)
      doc (rel_refl _ doc)
    cases hl : validateLoop rs doc doc with
    | error e' => simp only [hl] at h; cases h
    | ok r =>
      obtain ⟨ts, c⟩ := r
      simp only [hl] at h
      cases h
      exact h2 ts c hl

/-- along every path of the document the cast data has a node of the same shape: a string unchanged or
    replaced by a declared cast's value, every other scalar (and tuple) itself, lists of the same
    length, mappings with the same keys -/
theorem cast_data_index (rs : List RuleM) (doc : PyVal) (v : Validated)
    (hwf : DocWF doc) (hr : ∀ r ∈ rs, RuleOK r) (hcasts : ∀ r ∈ rs, ∀ tf ∈ r.cast, tf.1 = PyType.str)
    (h : validate rs doc = .ok v) :
    ∀ (q : List PyVal) (x : PyVal), index doc q = some x →
      ∃ y, index v.castData q = some y ∧
        (match x with
         | .str s => y = .str s ∨ CastOf (allCasts rs) s y
         | .list xs => ∃ ys, y = .list ys ∧ ys.length = xs.length
         | .tuple xs => y = .tuple xs
         | .dict kvs => ∃ kvs', y = .dict kvs' ∧ kvs'.map (·.1) = kvs.map (·.1)
         | other => y = other) := by
  intro q x hx
  obtain ⟨y, hy, hrel⟩ := rel_index q doc v.castData (validate_rel rs doc v hwf hr hcasts h) x hx
  exact ⟨y, hy, rel_shape x y hrel⟩

end ValidaProofs.C07C
