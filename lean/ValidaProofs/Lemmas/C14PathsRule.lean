/-
  ValidaProofs.Lemmas.C14PathsRule — the rule test of related rules: the selection handed to the condition
  consists of `(value, path)` pairs (whatever document the path is bound to), so stripping the paths
  cannot fail and a condition with literal arguments raises nothing but the pseudo-outcome; the failure
  list is computed from `result`, the stripped data and the paths, which related conditions share.
-/
import Valida.Rule
import ValidaProofs.Lemmas.Filter
import ValidaProofs.Lemmas.C07Rule
import ValidaProofs.Lemmas.C14PathsPart
namespace ValidaProofs.C14P
open Valida ValidaGen
open C05L C07L

/-! ### literal arguments -/

/-- every stored argument of every single condition is a literal (no data-path arguments) -/
def AllLit (c : Cond Arg) : Prop :=
  ∀ l ∈ c.leaves, (∀ a ∈ l.args, ∃ v, a = Arg.lit v) ∧ (∀ kv ∈ l.kwargs, ∃ v, kv.2 = Arg.lit v)

def litOf : Arg → PyVal
  | .lit v => v
  | .path _ => .none

theorem map_id_of_mem {γ : Type} (f : γ → γ) (xs : List γ) (h : ∀ a ∈ xs, f a = a) : xs.map f = xs := by
  rw [List.map_congr_left h, List.map_id']

theorem allLit_bin {op : BinOp} {a b : Cond Arg} (h : AllLit (.bin op a b)) : AllLit a ∧ AllLit b :=
  ⟨fun l hl => h l (by simp [Cond.leaves, hl]), fun l hl => h l (by simp [Cond.leaves, hl])⟩

theorem allLit_eq : ∀ (c : Cond Arg), AllLit c → c = (c.mapArgs litOf).mapArgs Arg.lit
  | .leaf l, h => by
    obtain ⟨h1, h2⟩ := h l (by simp [Cond.leaves])
    obtain ⟨cls, fn, args, kw⟩ := l
    simp only [Cond.mapArgs, List.map_map, Cond.leaf.injEq, Leaf.mk.injEq, true_and]
    constructor
    · refine (map_id_of_mem _ args (fun a ha => ?_)).symm
      obtain ⟨v, rfl⟩ := h1 a ha; rfl
    · refine (map_id_of_mem _ kw (fun kv hkv => ?_)).symm
      obtain ⟨k, a⟩ := kv
      obtain ⟨v, hv⟩ := h2 _ hkv
      simp only at hv; subst hv; rfl
  | .bin op a b, h => by
    obtain ⟨ha, hb⟩ := allLit_bin h
    simp only [Cond.mapArgs, Cond.bin.injEq, true_and]
    exact ⟨allLit_eq a ha, allLit_eq b hb⟩

/-- resolving a condition without data-path arguments against any document just unwraps the literals -/
theorem resolve_allLit (c : Cond Arg) (h : AllLit c) (src : Option PyVal) :
    c.resolve src = (c.mapArgs litOf).lit := by
  conv => lhs; rw [allLit_eq c h]
  exact resolve_lits _ src

theorem same_allLit {c d : Cond Arg} (h : CondSame c d) : AllLit c → AllLit d := by
  induction h with
  | leaf cls fn args kw kw' hperm hnodup =>
    intro hc l hl
    simp only [Cond.leaves, List.mem_singleton] at hl
    subst hl
    obtain ⟨h1, h2⟩ := hc { cls := cls, fn := fn, args := args, kwargs := kw } (by simp [Cond.leaves])
    exact ⟨h1, fun kv hkv => h2 kv (hperm.symm.subset hkv)⟩
  | straight op a b a' b' _ _ iha ihb =>
    intro hc l hl
    obtain ⟨ha, hb⟩ := allLit_bin hc
    simp only [Cond.leaves, List.mem_append] at hl
    exact hl.elim (iha ha l) (ihb hb l)
  | crossed op a b a' b' _ _ iha ihb =>
    intro hc l hl
    obtain ⟨ha, hb⟩ := allLit_bin hc
    simp only [Cond.leaves, List.mem_append] at hl
    exact hl.elim (ihb hb l) (iha ha l)

/-! ### the selection consists of pairs, whatever the path is bound to -/

theorem getData_unbind (p : Path) (doc : PyVal) (rp : Bool) :
    ∃ doc', p.getData (some doc) rp = ({ p with source := none } : Path).getData (some doc') rp := by
  obtain ⟨ps, c, dm, mm, src⟩ := p
  cases src with
  | none => exact ⟨doc, rfl⟩
  | some s =>
    cases hs : PyVal.truthy s with
    | true => exact ⟨s, by simp only [Path.getData, hs, if_true]⟩
    | false => exact ⟨doc, by simp only [Path.getData, hs, Bool.false_eq_true, if_false]⟩

theorem selection_guard (p : Path) (doc : PyVal) (o : Option (List PyVal)) (h : selection p doc = .ok o) :
    p.datum = .none ∧ p.multi = .none := by
  cases hg : (p.datum != .none || p.multi != .none) with
  | true =>
    simp only [selection, hg, if_true, bind, Except.bind, throw, throwThe, MonadExceptOf.throw] at h
    cases h
  | false => simpa using hg

theorem selection_pairs (p : Path) (doc : PyVal) (sub : List PyVal) (h : selection p doc = .ok (some sub)) :
    sub ≠ [] ∧ ∀ x ∈ sub, IsPair x := by
  obtain ⟨hd, hm⟩ := selection_guard p doc _ h
  obtain ⟨doc', hg⟩ := getData_unbind p doc true
  have he : selection p doc = selection ({ p with source := none } : Path) doc' := by
    rw [selection_eq p doc hd hm, selection_eq ({ p with source := none } : Path) doc' hd hm, hg]
  rw [he] at h
  exact selection_shape ({ p with source := none } : Path) doc' hd hm rfl sub h

/-! ### filtering pairs never fails for want of a pair -/

theorem info_error (cls : CClass) (e : Exc) (h : cls.info = .error e) : e = .unmodelled := by
  unfold CClass.info at h
  split at h <;> cases h
  rfl

/-- a condition with literal arguments on data whose paths can be stripped raises nothing but the
    pseudo-outcome -/
theorem filterAux_true_err (hflag : filterUnpacksValuesOnly = true) (d d' : DataV) (ps : List PyVal)
    (hex : extractPaths d = .ok (d', ps)) :
    ∀ (c : Cond PyVal) (e : Exc), filterAux c.lit d true = .error e → e = .unmodelled
  | .leaf l, e, h => by
    obtain ⟨vs, hvs, _⟩ := C14B.extractPaths_ok d d' ps hex
    simp only [Cond.lit, Cond.mapArgs] at h
    rw [C14B.filterAux_leaf_true hflag, hex] at h
    simp only at h
    split at h
    · rename_i e' he'
      cases h
      exact info_error _ _ he'
    · rename_i info hinfo
      have hitem : ∀ (xs : List PyVal) e',
          xs.mapM (evalItem info.pre l.fn (l.args.map .ok) (l.kwargs.map (fun kv => (kv.1, .ok kv.2)))) = .error e' →
            e' = .unmodelled := by
        intro xs e' he'
        obtain ⟨x, _, hx⟩ := mapM_error he'
        exact evalItem_error _ _ _ _ _ (lit_args_raise _) (lit_kw_raise _) _ hx
      split at h
      · rename_i e' he'
        cases h
        split at he'
        · cases he'
        · rw [hvs] at he'; cases he'
      · rename_i data hdata
        split at h
        · rename_i e' he'
          cases h
          exact hitem _ _ he'
        · cases h
  | .bin op a b, e, h => by
    simp only [Cond.lit, Cond.mapArgs] at h
    rw [filterAux_bin] at h
    split at h
    · rename_i e' he'
      cases h
      exact filterAux_true_err hflag d d' ps hex a _ he'
    · rename_i fa d1 pa ha
      split at h
      · rename_i e' he'
        cases h
        exact C02_never_aborts b d1 _ he'
      · cases h

/-! ### the failure list -/

theorem mapM_map_congr {γ δ ε : Type} (F₁ F₂ : γ → Except Exc δ) (proj : δ → ε)
    (h : ∀ i, (F₁ i).map proj = (F₂ i).map proj) :
    ∀ xs : List γ, (xs.mapM F₁).map (List.map proj) = (xs.mapM F₂).map (List.map proj)
  | [] => rfl
  | x :: xs => by
    have hx := h x
    have ih := mapM_map_congr F₁ F₂ proj h xs
    rw [List.mapM_cons, List.mapM_cons]
    cases h1 : F₁ x <;> cases h2 : F₂ x <;> rw [h1, h2] at hx <;>
      simp only [Except.map, Except.error.injEq, Except.ok.injEq, reduceCtorEq] at hx
    · subst hx; rfl
    · cases m1 : xs.mapM F₁ <;> cases m2 : xs.mapM F₂ <;> rw [m1, m2] at ih <;>
        simp only [Except.map, Except.error.injEq, Except.ok.injEq, reduceCtorEq] at ih
      · subst ih; rfl
      · simp only [bind, Except.bind, pure, Except.pure, Except.map, List.map_cons, hx, ih]

/-- what `C14_rule_same_verdict` compares: tested, verdict, and index, value and path of every failure -/
abbrev view (t : RuleTestR) : Bool × Bool × List (Nat × PyVal × PyVal) :=
  (t.tested, t.isValid, t.failures.map (fun f => (f.index, f.value, f.path)))

theorem finish_same (F₁ F₂ : Nat → Except Exc Failure)
    (hF : ∀ i, (F₁ i).map (fun f => (f.index, f.value, f.path)) = (F₂ i).map (fun f => (f.index, f.value, f.path)))
    (xs : List Nat) (doc : PyVal) :
    Except.map view (Except.bind (xs.mapM F₁)
      (fun v => Except.ok { tested := true, isValid := false, failures := v, data := doc })) =
    Except.map view (Except.bind (xs.mapM F₂)
      (fun v => Except.ok { tested := true, isValid := false, failures := v, data := doc })) := by
  have hm := mapM_map_congr F₁ F₂ _ hF xs
  cases m1 : xs.mapM F₁ <;> cases m2 : xs.mapM F₂ <;> rw [m1, m2] at hm <;>
    simp only [Except.map, Except.error.injEq, Except.ok.injEq, reduceCtorEq] at hm
  · subst hm; rfl
  · simp only [Except.bind, Except.map, view, hm]

/-- the rule test of two rules with the same selection and related conditions (literal arguments) -/
theorem ruleTest_same (hflag : filterUnpacksValuesOnly = true) (r s : RuleM) (doc : PyVal)
    (hsel : selection r.path doc = selection s.path doc) (hc : CondSame r.cond s.cond) (hlit : AllLit r.cond) :
    (ruleTestOn r doc).map view = (ruleTestOn s doc).map view := by
  have hlit' : AllLit s.cond := same_allLit hc hlit
  have hcc : CondSame (r.cond.mapArgs litOf) (s.cond.mapArgs litOf) := same_mapArgs litOf hc
  unfold ruleTestOn
  rw [← hsel, resolve_allLit r.cond hlit, resolve_allLit s.cond hlit']
  generalize r.cond.mapArgs litOf = c at hcc
  generalize s.cond.mapArgs litOf = c' at hcc
  cases DataV.ofPy doc with
  | error e => rfl
  | ok _ =>
    simp only [bind, Except.bind]
    cases hs : selection r.path doc with
    | error e => rfl
    | ok o =>
      cases o with
      | none => rfl
      | some sub =>
        simp only
        obtain ⟨_, hpairs⟩ := selection_pairs r.path doc sub hs
        obtain ⟨pairs, rfl⟩ := exists_pairs sub hpairs
        cases hd : DataV.ofPy (.list (pairs.map (fun vp => PyVal.tuple [vp.1, vp.2]))) with
        | error e => rfl
        | ok d =>
          have hdv : d = pairD pairs := by
            rw [DataV.ofPy_list] at hd
            split at hd
            · cases hd
            · cases hd; simp [pairD]
          subst hdv
          have hex := extractPaths_pairD pairs
          simp only
          rw [kindCheck_same (same_lit hcc)]
          cases kindCheck c'.lit (pairD pairs) with
          | error e => rfl
          | ok _ =>
            simp only
            cases hf : filterAux c.lit (pairD pairs) true with
            | error e =>
              have he := filterAux_true_err hflag _ _ _ hex c e hf
              subst he
              cases hf' : filterAux c'.lit (pairD pairs) true with
              | error e' =>
                have he' := filterAux_true_err hflag _ _ _ hex c' e' hf'
                subst he'
                rfl
              | ok t =>
                obtain ⟨f', d', p⟩ := t
                obtain ⟨f, hf'', _⟩ := C14_same_behaviour_lit c' c (same_lit hcc).symm' _ true f' d' p hf'
                rw [hf] at hf''; cases hf''
            | ok t =>
              obtain ⟨f, d', p⟩ := t
              obtain ⟨f', hf', er, _⟩ := C14_same_behaviour_lit c c' (same_lit hcc) _ true f d' p hf
              rw [hf']
              simp only [er]
              split
              · rfl
              · cases p with
                | none => rfl
                | some ps =>
                  simp only [pure, Except.pure]
                  refine finish_same _ _ (fun i => ?_) _ _
                  cases d'.values[i]? <;> cases ps[i]? <;> rfl

end ValidaProofs.C14P
