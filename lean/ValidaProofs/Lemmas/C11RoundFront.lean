/-
  ValidaProofs.Lemmas.C11RoundFront — one unfolding of `parseCond` on a one-key mapping whose key is
  `label.callable` (two tokens) or `label.pre.callable` (three tokens): the part that depends on the key
  only (class, pre-processor, constructor), and the rest (`parseTail`: data-path sniffing of the
  argument and the call of the constructor according to its signature).
-/
import Valida.Spec.Ser
import ValidaProofs.Lemmas.C11Leaf
set_option linter.unusedSimpArgs false
namespace ValidaProofs.C11R
open Valida ValidaGen

/-- the part of `ConditionLike.from_spec` after the class and the constructor have been found -/
def parseTail (fuel : Nat) (cls : CClass) (ctor : Ctor) (val : PyVal) : Except Exc (Cond Arg) := do
  let sn ← sniffArg fuel val
  let k := ctor.kinds
  let leaf ← (
    if k.posOrKw.isEmpty && !k.varPos && !k.varKw then
      buildLeaf Arg.lit cls ctor [] []
    else if k.posOrKw.length == 1 && !k.varPos && !k.varKw then
      buildLeaf Arg.lit cls ctor [sn.toArg] []
    else if k.posOrKw.length > 1 && !k.varPos && !k.varKw then
      match sn with
      | .dictS items => do buildLeaf Arg.lit cls ctor [] (← strKeysS items)
      | .val (.dict items) => do
          buildLeaf Arg.lit cls ctor [] ((← strKeys items).map (fun kv => (kv.1, argOfVal kv.2)))
      | .listS xs => buildLeaf Arg.lit cls ctor (xs.map SElem.toArg) []
      | .tupleS xs => buildLeaf Arg.lit cls ctor (xs.map SElem.toArg) []
      | _ => throw .malformedCond
    else if k.varPos && k.posOrKw.isEmpty && !k.varKw then
      match sn with
      | .listS xs => buildLeaf Arg.lit cls ctor (xs.map SElem.toArg) []
      | _ => throw .malformedCond
    else if k.varKw && !k.varPos then
      match sn with
      | .dictS items => do buildLeaf Arg.lit cls ctor [] (← strKeysS items)
      | .val (.dict items) => do
          buildLeaf Arg.lit cls ctor [] ((← strKeys items).map (fun kv => (kv.1, argOfVal kv.2)))
      | _ => throw .malformedCond
    else throw .malformedCond)
  pure (.leaf leaf)

/-- closes `parser's tail = parseTail` (same code, different auxiliary matchers) by cases on the sniffed value -/
local macro "tail_cases " f:term:max v:term:max : tactic => `(tactic|
  (cases sniffArg $f $v with
    | error e => rfl
    | ok sn => cases sn with
      | val v => cases v <;> rfl
      | path p => rfl
      | dictS _ => rfl
      | listS _ => rfl
      | tupleS _ => rfl))

/-- a two-token key `datum.callable` -/
theorem parse_front2 (fuel : Nat) (key : String) (val : PyVal) (t0 last clsName call : String)
    (cls : CClass) (info : CondClassInfo) (ctor : Ctor) (inst : Bool)
    (hop : lookupStr key binaryOps = none)
    (htoks : (splitDot key).mapM pyLower = .ok [t0, last])
    (hdt : lookupStr t0 conditionDatumTypes = some clsName)
    (hpp : preProcLookup.any (fun p => p.1 == last) = false)
    (hbase : CClass.all.find? (fun c => c.name == clsName) = some cls)
    (hcall : (lookupStr last callableLookup).getD last = call)
    (hinst : (call == "is_instance" || call == "keys_is_instance") = inst)
    (hinfo : cls.info = .ok info)
    (hflag : callableFromCtorTables = true)
    (hctor : (ctorsOf info).find? (fun c => c.name.toList.map Char.toLower == call.toList) = some ctor) :
    parseCond (fuel + 1) (.dict [(.str key, val)]) =
      (do let v ← (if inst then convTypes val else pure val); parseTail fuel cls ctor v) := by
  subst hinst
  rw [parseCond.eq_2]
  cases hi : (call == "is_instance" || call == "keys_is_instance")
  · simp [hop, htoks, hdt, hpp, hbase, hcall, hi, hinfo, hflag, hctor, PyVal.truthy,
      bind, Except.bind, pure, Except.pure, parseTail]
    tail_cases fuel val
  · simp [hop, htoks, hdt, hpp, hbase, hcall, hi, hinfo, hflag, hctor, PyVal.truthy,
      bind, Except.bind, pure, Except.pure, parseTail]
    cases convTypes val with
    | error e => rfl
    | ok v0 =>
      simp only []
      tail_cases fuel v0

/-- a three-token key `datum.pre.callable` -/
theorem parse_front3 (fuel : Nat) (key : String) (val : PyVal) (t0 tok last clsName pre call : String)
    (base cls : CClass) (cp : String × String × String) (info : CondClassInfo) (ctor : Ctor) (dt inst : Bool)
    (hop : lookupStr key binaryOps = none)
    (htoks : (splitDot key).mapM pyLower = .ok [t0, tok, last])
    (hdt : lookupStr t0 conditionDatumTypes = some clsName)
    (hbase : CClass.all.find? (fun c => c.name == clsName) = some base)
    (hpre : lookupStr tok preProcLookup = some pre)
    (hdtype : (pre == "dtype") = dt)
    (hcp : classProps.find? (fun cp => cp.1 == base.name && cp.2.1 == pre) = some cp)
    (hcls : CClass.all.find? (fun c => c.name == cp.2.2) = some cls)
    (hcall : (lookupStr last callableLookup).getD last = call)
    (hinst : (call == "is_instance" || call == "keys_is_instance") = inst)
    (hinfo : cls.info = .ok info)
    (hflag : callableFromCtorTables = true)
    (hctor : (ctorsOf info).find? (fun c => c.name.toList.map Char.toLower == call.toList) = some ctor) :
    parseCond (fuel + 1) (.dict [(.str key, val)]) =
      (do let v1 ← (if dt then convTypes val else pure val)
          let v2 ← (if inst then convTypes v1 else pure v1)
          parseTail fuel cls ctor v2) := by
  subst hinst hdtype
  rw [parseCond.eq_2]
  cases hi : (call == "is_instance" || call == "keys_is_instance") <;>
  cases hd : (pre == "dtype")
  · simp [hop, htoks, hdt, hbase, hpre, hd, hcp, hcls, hcall, hi, hinfo, hflag, hctor, PyVal.truthy,
      bind, Except.bind, pure, Except.pure, parseTail]
    tail_cases fuel val
  · cases hc : convTypes val with
    | error e =>
      simp [hop, htoks, hdt, hbase, hpre, hd, hcp, hcls, hcall, hi, hinfo, hflag, hctor, PyVal.truthy,
        bind, Except.bind, pure, Except.pure, parseTail, hc]
    | ok v0 =>
      simp [hop, htoks, hdt, hbase, hpre, hd, hcp, hcls, hcall, hi, hinfo, hflag, hctor, PyVal.truthy,
        bind, Except.bind, pure, Except.pure, parseTail, hc]
      tail_cases fuel v0
  · simp [hop, htoks, hdt, hbase, hpre, hd, hcp, hcls, hcall, hi, hinfo, hflag, hctor, PyVal.truthy,
      bind, Except.bind, pure, Except.pure, parseTail]
    cases convTypes val with
    | error e => rfl
    | ok v0 =>
      simp only []
      tail_cases fuel v0
  · cases hc : convTypes val with
    | error e =>
      simp [hop, htoks, hdt, hbase, hpre, hd, hcp, hcls, hcall, hi, hinfo, hflag, hctor, PyVal.truthy,
        bind, Except.bind, pure, Except.pure, parseTail, hc]
    | ok v0 =>
      simp [hop, htoks, hdt, hbase, hpre, hd, hcp, hcls, hcall, hi, hinfo, hflag, hctor, PyVal.truthy,
        bind, Except.bind, pure, Except.pure, parseTail, hc]
      cases convTypes v0 with
      | error e => rfl
      | ok v1 =>
        simp only []
        tail_cases fuel v1

end ValidaProofs.C11R
