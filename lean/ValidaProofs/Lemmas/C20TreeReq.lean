/-
  ValidaProofs.Lemmas.C20TreeReq — the `required` flag over the whole loop of `to_tree`: the flag of a
  node is determined by the sequence of key conditions that named its key.
-/
import Valida.Tree
import ValidaProofs.Lemmas.C20Tree
import ValidaProofs.Lemmas.C20TreeFold
namespace ValidaProofs.C20H
open Valida ValidaGen ValidaProofs.C20L

/-- an always-applicable key condition names a key: (key of the node, is it `required_keys`) -/
abbrev Ev := List String × Bool

/-- the flag after a sequence of namings -/
def reqVal (evs : List Ev) (q : List String) : Option Bool :=
  if evs.any (fun e => e.1 == q) then some (evs.any (fun e => e.1 == q && e.2)) else none

theorem reqVal_nil (q : List String) : reqVal [] q = none := rfl

theorem reqVal_snoc (evs : List Ev) (k : List String) (b : Bool) (q : List String) :
    reqVal (evs ++ [(k, b)]) q = if k = q then some ((reqVal evs q).getD false || b) else reqVal evs q := by
  unfold reqVal
  simp only [List.any_append, List.any_cons, List.any_nil, Bool.or_false]
  by_cases hk : k = q
  · subst hk
    simp only [beq_self_eq_true, Bool.or_true, if_true, Bool.true_and]
    by_cases ha : evs.any (fun e => e.1 == k) = true
    · simp [ha]
    · have hb : evs.any (fun e => e.1 == k && e.2) = false := by
        rw [Bool.eq_false_iff]
        intro h
        apply ha
        rw [List.any_eq_true] at h ⊢
        obtain ⟨x, hx, hp⟩ := h
        exact ⟨x, hx, by simp only [Bool.and_eq_true] at hp; exact hp.1⟩
      simp [ha, hb]
  · have : (k == q) = false := by simpa using hk
    simp [this, hk]

theorem reqVal_eq_none (evs : List Ev) (q : List String) : reqVal evs q = none ↔ ∀ e ∈ evs, e.1 ≠ q := by
  unfold reqVal
  by_cases ha : evs.any (fun e => e.1 == q) = true
  · rw [if_pos ha]
    simp only [reduceCtorEq, false_iff]
    intro h
    obtain ⟨x, hx, hp⟩ := List.any_eq_true.1 ha
    exact h x hx (by simpa using hp)
  · rw [if_neg ha]
    simp only [true_iff]
    intro e he heq
    exact ha (List.any_eq_true.2 ⟨e, he, by simp [heq]⟩)

theorem reqVal_eq_true (evs : List Ev) (q : List String) : reqVal evs q = some true ↔ (q, true) ∈ evs := by
  unfold reqVal
  constructor
  · intro h
    split at h
    · have h' : evs.any (fun e => e.1 == q && e.2) = true := by simpa using h
      obtain ⟨x, hx, hp⟩ := List.any_eq_true.1 h'
      simp only [Bool.and_eq_true, beq_iff_eq] at hp
      have : x = (q, true) := Prod.ext hp.1 hp.2
      exact this ▸ hx
    · cases h
  · intro h
    have h1 : evs.any (fun e => e.1 == q) = true := List.any_eq_true.2 ⟨_, h, by simp⟩
    have h2 : evs.any (fun e => e.1 == q && e.2) = true := List.any_eq_true.2 ⟨_, h, by simp⟩
    rw [if_pos h1, h2]

theorem reqVal_eq_false (evs : List Ev) (q : List String) :
    reqVal evs q = some false ↔ (q, false) ∈ evs ∧ (q, true) ∉ evs := by
  constructor
  · intro h
    have hne : reqVal evs q ≠ none := by rw [h]; simp
    have hnt : reqVal evs q ≠ some true := by rw [h]; simp
    rw [Ne, reqVal_eq_none] at hne
    rw [Ne, reqVal_eq_true] at hnt
    refine ⟨?_, hnt⟩
    apply Classical.byContradiction
    intro hnf
    apply hne
    intro e he heq
    obtain ⟨e1, e2⟩ := e
    cases e2
    · exact hnf (by subst heq; exact he)
    · exact hnt (by subst heq; exact he)
  · rintro ⟨hf, hnt⟩
    have h1 : reqVal evs q ≠ none := by
      rw [Ne, reqVal_eq_none]
      intro h
      exact h _ hf rfl
    have h2 : reqVal evs q ≠ some true := by
      rw [Ne, reqVal_eq_true]
      exact hnt
    cases hv : reqVal evs q with
    | none => exact absurd hv h1
    | some b =>
      cases b
      · rfl
      · exact absurd hv h2

/-- the invariant: every node's flag is the value of the namings so far, every named key has a node -/
def ReqInv (evs : List Ev) (items : Items) : Prop :=
  (∀ it ∈ items, it.required = reqVal evs it.pathStr) ∧ (∀ e ∈ evs, e.1 ∈ items.map (·.pathStr))

/-- an update that leaves the flag alone -/
def OpTr (o : Op) : Prop := o.WF ∧ (∀ i, (o.f i).required = i.required) ∧ o.init.required = none
/-- an update by a key condition -/
def OpEv (o : Op) (b : Bool) : Prop :=
  o.WF ∧ (∀ i, (o.f i).required = some (i.required.getD false || b)) ∧ o.init.required = none

theorem keys_upsert_sub (items : Items) (o : Op) (h : o.WF) :
    (∀ k ∈ items.map (·.pathStr), k ∈ (items.upsert o.k o.init o.f).map (·.pathStr)) ∧
      o.k ∈ (items.upsert o.k o.init o.f).map (·.pathStr) := by
  rw [upsert_keys items o h]
  split
  · rename_i hk; exact ⟨fun k hk' => hk', hk⟩
  · exact ⟨fun k hk' => List.mem_append_left _ hk', by simp⟩

theorem upsert_tr (evs : List Ev) (items : Items) (o : Op) (ho : OpTr o) (h : ReqInv evs items) :
    ReqInv evs (items.upsert o.k o.init o.f) := by
  obtain ⟨hwf, hf, hinit⟩ := ho
  obtain ⟨hsub, _⟩ := keys_upsert_sub items o hwf
  refine ⟨?_, fun e he => hsub _ (h.2 e he)⟩
  intro it' hit'
  unfold Items.upsert at hit'
  by_cases hany : items.any (fun i => i.pathStr == o.k) = true
  · rw [if_pos hany] at hit'
    obtain ⟨x, hx, rfl⟩ := List.mem_map.1 hit'
    split
    · rw [hf, hwf.1]; exact h.1 x hx
    · exact h.1 x hx
  · rw [if_neg hany] at hit'
    rcases List.mem_append.1 hit' with hold | hnew
    · exact h.1 _ hold
    · simp only [List.mem_singleton] at hnew
      subst hnew
      rw [hf, hwf.1, hinit, hwf.2]
      symm
      rw [reqVal_eq_none]
      intro e he heq
      apply hany
      rw [any_key_iff, ← heq]
      exact h.2 e he

theorem upsert_ev (evs : List Ev) (items : Items) (o : Op) (b : Bool) (ho : OpEv o b) (h : ReqInv evs items) :
    ReqInv (evs ++ [(o.k, b)]) (items.upsert o.k o.init o.f) := by
  obtain ⟨hwf, hf, hinit⟩ := ho
  obtain ⟨hsub, hk⟩ := keys_upsert_sub items o hwf
  refine ⟨?_, ?_⟩
  · intro it' hit'
    rw [reqVal_snoc]
    unfold Items.upsert at hit'
    by_cases hany : items.any (fun i => i.pathStr == o.k) = true
    · rw [if_pos hany] at hit'
      obtain ⟨x, hx, rfl⟩ := List.mem_map.1 hit'
      by_cases hxk : x.pathStr = o.k
      · have : (x.pathStr == o.k) = true := by simp [hxk]
        rw [if_pos this, hf, hwf.1, if_pos hxk.symm, h.1 x hx]
      · have : ¬ ((x.pathStr == o.k) = true) := by simpa using hxk
        rw [if_neg this, if_neg (fun e => hxk e.symm)]
        exact h.1 x hx
    · rw [if_neg hany] at hit'
      rcases List.mem_append.1 hit' with hold | hnew
      · have hne : o.k ≠ it'.pathStr := by
          intro e
          apply hany
          exact List.any_eq_true.2 ⟨it', hold, by simp [e]⟩
        rw [if_neg hne]
        exact h.1 _ hold
      · simp only [List.mem_singleton] at hnew
        subst hnew
        rw [hf, hwf.1, hwf.2, if_pos rfl, hinit]
        have : reqVal evs o.k = none := by
          rw [reqVal_eq_none]
          intro e he heq
          apply hany
          rw [any_key_iff, ← heq]
          exact h.2 e he
        rw [this]
  · intro e he
    rcases List.mem_append.1 he with he | he
    · exact hsub _ (h.2 e he)
    · simp only [List.mem_singleton] at he
      subst he
      exact hk

/-- a sequence of updates and the namings it performs -/
inductive Trace : List Op → List Ev → Prop
  | nil : Trace [] []
  | tr {o : Op} {ops : List Op} {evs : List Ev} : OpTr o → Trace ops evs → Trace (o :: ops) evs
  | ev {o : Op} {ops : List Op} {evs : List Ev} {b : Bool} : OpEv o b → Trace ops evs → Trace (o :: ops) ((o.k, b) :: evs)

theorem Trace.append {a b : List Op} {ea eb : List Ev} (ha : Trace a ea) (hb : Trace b eb) :
    Trace (a ++ b) (ea ++ eb) := by
  induction ha with
  | nil => exact hb
  | tr ho _ ih => exact Trace.tr ho ih
  | ev ho _ ih => exact Trace.ev ho ih

theorem Trace.of_tr (ops : List Op) (h : ∀ o ∈ ops, OpTr o) : Trace ops [] := by
  induction ops with
  | nil => exact Trace.nil
  | cons o ops ih => exact Trace.tr (h o (by simp)) (ih (fun o' ho' => h o' (by simp [ho'])))

theorem applyOps_trace {ops : List Op} {evs' : List Ev} (ht : Trace ops evs') :
    ∀ (evs : List Ev) (items : Items), ReqInv evs items → ReqInv (evs ++ evs') (applyOps ops items) := by
  induction ht with
  | nil => intro evs items h; simpa [applyOps_nil] using h
  | tr ho _ ih =>
    intro evs items h
    rw [applyOps_cons]
    exact ih evs _ (upsert_tr evs items _ ho h)
  | @ev o ops evs1 b ho _ ih =>
    intro evs items h
    rw [applyOps_cons]
    have := ih (evs ++ [(o.k, b)]) _ (upsert_ev evs items o b ho h)
    simpa using this

/-- the namings of the key conditions of one rule at (relative) path `p` -/
def keyEvs (p : List String) (conds : List TLeaf) : List Ev :=
  conds.flatMap (fun l => (l.keyStrs.zip l.keyDisp).map (fun kd => (p ++ [kd.1], l.fn == "required_keys")))

theorem opReq_ev (p ps : List String) (l : TLeaf) (kd : String × String) :
    OpEv (opReq p ps l kd) (l.fn == "required_keys") := by
  refine ⟨⟨fun _ => rfl, rfl⟩, fun i => ?_, rfl⟩
  have hs : treeRequiredSticky = true := rfl
  simp [opReq, fReq, hs]

theorem keysOps_trace (p ps : List String) (conds : List TLeaf) :
    Trace (keysOps p ps conds) (keyEvs p conds) := by
  induction conds with
  | nil => exact Trace.nil
  | cons l ls ih =>
    simp only [keysOps, keyEvs, List.flatMap_cons]
    refine Trace.append ?_ ih
    generalize l.keyStrs.zip l.keyDisp = kds
    induction kds with
    | nil => exact Trace.nil
    | cons kd kds ih2 =>
      simp only [List.map_cons]
      exact Trace.ev (o := opReq p ps l kd) (opReq_ev p ps l kd) ih2

theorem tailOps_tr (r : TRule) (p : List String) (sel : Bool) : ∀ o ∈ tailOps r p sel, OpTr o := by
  intro o ho
  unfold tailOps at ho
  split at ho
  · cases ho
  · rename_i parImp _
    simp only [List.mem_append, List.mem_singleton] at ho
    rcases ho with (ho | ho) | ho
    · subst ho
      exact ⟨⟨fun i => fPar_pathStr parImp i, rfl⟩, fun i => fPar_required parImp i, rfl⟩
    · split at ho
      · simp only [List.mem_cons, List.mem_nil_iff, or_false] at ho
        rcases ho with rfl | rfl
        · exact ⟨⟨fun _ => rfl, rfl⟩, fun _ => rfl, rfl⟩
        · exact ⟨⟨fun _ => rfl, rfl⟩, fun _ => rfl, rfl⟩
      · cases ho
    · split at ho
      · simp only [List.mem_cons, List.mem_nil_iff, or_false] at ho
        rcases ho with rfl | rfl
        · exact ⟨⟨fun _ => rfl, rfl⟩, fun _ => rfl, rfl⟩
        · exact ⟨⟨fun _ => rfl, rfl⟩, fun _ => rfl, rfl⟩
      · cases ho

theorem stepOps_trace (r : TRule) (idx k : Nat) (sel : Bool) :
    Trace (stepOps r idx k sel) (keyEvs (r.partStrs.drop k) (keyCondsOf r)) := by
  have h1 : Trace [opRule (r.partStrs.drop k) (r.simpleDisp.drop k) idx] [] :=
    Trace.of_tr _ (by
      intro o ho
      simp only [List.mem_singleton] at ho
      subst ho
      exact ⟨⟨fun _ => rfl, rfl⟩, fun _ => rfl, rfl⟩)
  have h2 := keysOps_trace (r.partStrs.drop k) (r.simpleDisp.drop k) (keyCondsOf r)
  have h3 : Trace (if (leavesOf r).any TLeaf.isKeyType then [opKeyT (r.partStrs.drop k)] else []) [] :=
    Trace.of_tr _ (by
      intro o ho
      split at ho
      · simp only [List.mem_singleton] at ho
        subst ho
        exact ⟨⟨fun _ => rfl, rfl⟩, fun _ => rfl, rfl⟩
      · cases ho)
  have h4 : Trace (if (leavesOf r).any TLeaf.isValueType then [opValT (r.partStrs.drop k)] else []) [] :=
    Trace.of_tr _ (by
      intro o ho
      split at ho
      · simp only [List.mem_singleton] at ho
        subst ho
        exact ⟨⟨fun _ => rfl, rfl⟩, fun _ => rfl, rfl⟩
      · cases ho)
  have h5 := Trace.of_tr _ (tailOps_tr r (r.partStrs.drop k) sel)
  have := (((h1.append h2).append h3).append h4).append h5
  simpa [stepOps] using this

/-- the namings of one rule of the schema, for the sub-tree at `fromStr` -/
def ruleEvs (fromStr : List String) (r : TRule) : List Ev :=
  if Sel fromStr r then keyEvs (rel fromStr r) (keyCondsOf r) else []

theorem treeStep_reqInv (fromStr : List String) (evs : List Ev) (items : Items) (idx : Nat) (r : TRule)
    (h : ReqInv evs items) : ReqInv (evs ++ ruleEvs fromStr r) (treeStep fromStr items idx r) := by
  unfold ruleEvs
  by_cases hs : Sel fromStr r
  · obtain ⟨sel, he⟩ := treeStep_sel fromStr items idx r hs
    rw [he, if_pos hs]
    exact applyOps_trace (stepOps_trace r idx fromStr.length sel) evs items h
  · rw [treeStep_not_sel fromStr items idx r hs, if_neg hs]
    simpa using h

theorem stepsFrom_reqInv (fromStr : List String) (irs : List (Nat × TRule)) :
    ∀ (evs : List Ev) (items : Items), ReqInv evs items →
      ReqInv (evs ++ (irs.map (·.2)).flatMap (ruleEvs fromStr)) (stepsFrom fromStr irs items) := by
  induction irs with
  | nil => intro evs items h; simpa [stepsFrom_nil] using h
  | cons ir irs ih =>
    intro evs items h
    rw [stepsFrom_cons]
    have := ih _ _ (treeStep_reqInv fromStr evs items ir.1 ir.2 h)
    simpa using this

theorem treeItems_reqInv (rules : List TRule) (fromStr : List String) :
    ReqInv (rules.flatMap (ruleEvs fromStr)) (treeItems rules fromStr) := by
  have := stepsFrom_reqInv fromStr (List.zip (List.range rules.length) rules) [] [] ⟨by simp, by simp⟩
  rw [enum_snd] at this
  simpa [treeItems] using this

/-- membership in the namings of the schema -/
theorem mem_ruleEvs (fromStr : List String) (rules : List TRule) (q : List String) (b : Bool) :
    (q, b) ∈ rules.flatMap (ruleEvs fromStr) ↔
      ∃ r ∈ rules, Sel fromStr r ∧ r.cond.alwaysApplicable = true ∧
        ∃ l ∈ r.cond.leaves, (l.fn = "allowed_keys" ∨ l.fn = "required_keys") ∧ (l.fn == "required_keys") = b ∧
          ∃ kd ∈ l.keyStrs.zip l.keyDisp, q = rel fromStr r ++ [kd.1] := by
  simp only [List.mem_flatMap, ruleEvs, keyEvs]
  constructor
  · rintro ⟨r, hr, h⟩
    split at h
    · rename_i hs
      simp only [List.mem_flatMap, List.mem_map, Prod.mk.injEq] at h
      obtain ⟨l, hl, kd, hkd, hq, hb⟩ := h
      unfold keyCondsOf at hl
      split at hl
      · rename_i ha
        simp only [List.mem_filter, Bool.or_eq_true, beq_iff_eq] at hl
        exact ⟨r, hr, hs, ha, l, hl.1, hl.2, hb, kd, hkd, hq.symm⟩
      · cases hl
    · cases h
  · rintro ⟨r, hr, hs, ha, l, hl, hfn, hb, kd, hkd, hq⟩
    refine ⟨r, hr, ?_⟩
    rw [if_pos hs]
    simp only [List.mem_flatMap, List.mem_map, Prod.mk.injEq]
    refine ⟨l, ?_, kd, hkd, hq.symm, hb⟩
    unfold keyCondsOf
    rw [if_pos ha]
    simp only [List.mem_filter, Bool.or_eq_true, beq_iff_eq]
    exact ⟨hl, hfn⟩

end ValidaProofs.C20H
