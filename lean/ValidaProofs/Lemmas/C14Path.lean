/-
  ValidaProofs.Lemmas.C14Path — `partEq`, `pathEq`, `castEq`, `ruleEq` are equivalences wherever
  Python `==` is one on the stored values (keyword names / cast types pairwise distinct).
-/
import ValidaProofs.Lemmas.C14Eq
namespace ValidaProofs.C14L
open Valida ValidaGen
open PyVal (pyEq)

variable {α : Type}

/-- `R` is an equivalence on the elements of `xs` -/
def EquivOn (R : α → α → Bool) (xs : List α) : Prop :=
  (∀ a ∈ xs, R a a = true) ∧ (∀ a ∈ xs, ∀ b ∈ xs, R a b = R b a) ∧
  (∀ a ∈ xs, ∀ b ∈ xs, ∀ c ∈ xs, R a b = true → R b c = true → R a c = true)

theorem EquivOn.mono {R : α → α → Bool} {xs ys : List α} (hs : xs ⊆ ys) (h : EquivOn R ys) : EquivOn R xs :=
  ⟨fun a ha => h.1 a (hs ha), fun a ha b hb => h.2.1 a (hs ha) b (hs hb),
   fun a ha b hb c hc => h.2.2 a (hs ha) b (hs hb) c (hs hc)⟩

/-! ### optional values -/

theorem optValEq_eq (a b : Option PyVal) : optValEq a b = pyEq (a.getD .none) (b.getD .none) := by
  cases a <;> cases b <;> simp only [optValEq, Option.getD]
  rfl

/-! ### parts -/

def partVals (p : Part) : List PyVal :=
  args p.cond ++ args p.listCond ++ args p.mapCond ++ p.label.toList ++ [PyVal.none]

def PartKwNodup (p : Part) : Prop := KwNodup p.cond ∧ KwNodup p.listCond ∧ KwNodup p.mapCond

theorem mem_partVals_cond {p : Part} {a : PyVal} (h : a ∈ args p.cond) : a ∈ partVals p := by
  simp [partVals, h]
theorem mem_partVals_list {p : Part} {a : PyVal} (h : a ∈ args p.listCond) : a ∈ partVals p := by
  simp [partVals, h]
theorem mem_partVals_map {p : Part} {a : PyVal} (h : a ∈ args p.mapCond) : a ∈ partVals p := by
  simp [partVals, h]
theorem mem_partVals_label (p : Part) : p.label.getD .none ∈ partVals p := by
  cases h : p.label <;> simp [partVals, h]

theorem part_refl (p : Part) (hn : PartKwNodup p) (hr : ∀ a ∈ partVals p, pyEq a a = true) :
    partEq p p = true := by
  simp only [partEq, condEqLit, optValEq_eq, Bool.and_eq_true, beq_self_eq_true, true_and]
  rw [cond_refl pyEq p.cond hn.1 (fun a ha => hr a (mem_partVals_cond ha)),
    cond_refl pyEq p.listCond hn.2.1 (fun a ha => hr a (mem_partVals_list ha)),
    cond_refl pyEq p.mapCond hn.2.2 (fun a ha => hr a (mem_partVals_map ha)),
    hr _ (mem_partVals_label p)]
  simp

theorem part_symm (p q : Part) (hp : PartKwNodup p) (hq : PartKwNodup q)
    (hs : ∀ a ∈ partVals p, ∀ b ∈ partVals q, pyEq a b = pyEq b a) : partEq p q = partEq q p := by
  simp only [partEq, condEqLit, optValEq_eq]
  rw [cond_symm pyEq p.cond q.cond hp.1 hq.1 (fun a ha b hb => hs a (mem_partVals_cond ha) b (mem_partVals_cond hb)),
    cond_symm pyEq p.listCond q.listCond hp.2.1 hq.2.1
      (fun a ha b hb => hs a (mem_partVals_list ha) b (mem_partVals_list hb)),
    cond_symm pyEq p.mapCond q.mapCond hp.2.2 hq.2.2
      (fun a ha b hb => hs a (mem_partVals_map ha) b (mem_partVals_map hb)),
    hs _ (mem_partVals_label p) _ (mem_partVals_label q)]
  by_cases hk : p.kind = q.kind
  · rw [hk]
  · have h1 : (p.kind == q.kind) = false := by simpa using hk
    have h2 : (q.kind == p.kind) = false := by simpa using fun e => hk e.symm
    simp [h1, h2]

theorem part_trans (p q r : Part)
    (ht : ∀ a ∈ partVals p, ∀ b ∈ partVals q, ∀ c ∈ partVals r,
      pyEq a b = true → pyEq b c = true → pyEq a c = true)
    (h1 : partEq p q = true) (h2 : partEq q r = true) : partEq p r = true := by
  simp only [partEq, condEqLit, optValEq_eq, Bool.and_eq_true, beq_iff_eq, Bool.or_eq_true, bne_iff_ne, ne_eq] at h1 h2 ⊢
  obtain ⟨⟨⟨k1, c1⟩, l1⟩, m1⟩ := h1
  obtain ⟨⟨⟨k2, c2⟩, l2⟩, m2⟩ := h2
  refine ⟨⟨⟨k1.trans k2, ?_⟩, ?_⟩, ?_⟩
  · exact cond_trans pyEq _ _ _ (fun a ha b hb c hc => ht a (mem_partVals_cond ha) b (mem_partVals_cond hb) c
      (mem_partVals_cond hc)) c1 c2
  · exact ht _ (mem_partVals_label p) _ (mem_partVals_label q) _ (mem_partVals_label r) l1 l2
  · by_cases hk : p.kind = .molv
    · have hk' : q.kind = .molv := k1 ▸ hk
      simp only [hk, hk', not_true_eq_false, false_or] at m1 m2 ⊢
      exact ⟨cond_trans pyEq _ _ _ (fun a ha b hb c hc => ht a (mem_partVals_list ha) b (mem_partVals_list hb) c
          (mem_partVals_list hc)) m1.1 m2.1,
        cond_trans pyEq _ _ _ (fun a ha b hb c hc => ht a (mem_partVals_map ha) b (mem_partVals_map hb) c
          (mem_partVals_map hc)) m1.2 m2.2⟩
    · exact Or.inl (by simpa using hk)

theorem part_equiv (p q r : Part) (hp : PartKwNodup p) (hq : PartKwNodup q)
    (h : EquivOn pyEq (partVals p ++ partVals q ++ partVals r)) :
    partEq p p = true ∧ partEq p q = partEq q p ∧ (partEq p q = true → partEq q r = true → partEq p r = true) := by
  have mp : ∀ a ∈ partVals p, a ∈ partVals p ++ partVals q ++ partVals r := fun a ha => by simp [ha]
  have mq : ∀ a ∈ partVals q, a ∈ partVals p ++ partVals q ++ partVals r := fun a ha => by simp [ha]
  have mr : ∀ a ∈ partVals r, a ∈ partVals p ++ partVals q ++ partVals r := fun a ha => by simp [ha]
  exact ⟨part_refl p hp (fun a ha => h.1 a (mp a ha)),
    part_symm p q hp hq (fun a ha b hb => h.2.1 a (mp a ha) b (mq b hb)),
    part_trans p q r (fun a ha b hb c hc => h.2.2 a (mp a ha) b (mq b hb) c (mr c hc))⟩

/-! ### paths -/

def pathVals (p : Path) : List PyVal := p.parts.flatMap partVals ++ p.source.toList ++ [PyVal.none]

def PathKwNodup (p : Path) : Prop := ∀ x ∈ p.parts, PartKwNodup x

theorem mem_pathVals_part {p : Path} {x : Part} {a : PyVal} (hx : x ∈ p.parts) (h : a ∈ partVals x) :
    a ∈ pathVals p := by
  simp only [pathVals, List.mem_append, List.mem_flatMap]
  exact Or.inl (Or.inl ⟨x, hx, h⟩)
theorem mem_pathVals_source (p : Path) : p.source.getD .none ∈ pathVals p := by
  cases h : p.source <;> simp [pathVals, h]

theorem path_refl (p : Path) (hn : PathKwNodup p) (hr : ∀ a ∈ pathVals p, pyEq a a = true) :
    pathEq p p = true := by
  simp only [pathEq, optValEq_eq, Bool.and_eq_true, beq_self_eq_true, and_true]
  exact ⟨listEq_refl partEq _ (fun x hx => part_refl x (hn x hx) (fun a ha => hr a (mem_pathVals_part hx ha))),
    hr _ (mem_pathVals_source p)⟩

theorem path_symm (p q : Path) (hp : PathKwNodup p) (hq : PathKwNodup q)
    (hs : ∀ a ∈ pathVals p, ∀ b ∈ pathVals q, pyEq a b = pyEq b a) : pathEq p q = pathEq q p := by
  simp only [pathEq, optValEq_eq]
  rw [listEq_symm partEq p.parts q.parts (fun x hx y hy => part_symm x y (hp x hx) (hq y hy)
      (fun a ha b hb => hs a (mem_pathVals_part hx ha) b (mem_pathVals_part hy hb))),
    hs _ (mem_pathVals_source p) _ (mem_pathVals_source q),
    Bool.beq_comm (a := p.concrete), Bool.beq_comm (a := p.datum), Bool.beq_comm (a := p.multi)]

theorem path_trans (p q r : Path)
    (ht : ∀ a ∈ pathVals p, ∀ b ∈ pathVals q, ∀ c ∈ pathVals r,
      pyEq a b = true → pyEq b c = true → pyEq a c = true)
    (h1 : pathEq p q = true) (h2 : pathEq q r = true) : pathEq p r = true := by
  simp only [pathEq, optValEq_eq, Bool.and_eq_true, beq_iff_eq] at h1 h2 ⊢
  obtain ⟨⟨⟨⟨l1, c1⟩, d1⟩, m1⟩, s1⟩ := h1
  obtain ⟨⟨⟨⟨l2, c2⟩, d2⟩, m2⟩, s2⟩ := h2
  refine ⟨⟨⟨⟨?_, c1.trans c2⟩, d1.trans d2⟩, m1.trans m2⟩, ?_⟩
  · exact listEq_trans partEq _ _ _ (fun x hx y hy z hz => part_trans x y z (fun a ha b hb c hc =>
      ht a (mem_pathVals_part hx ha) b (mem_pathVals_part hy hb) c (mem_pathVals_part hz hc))) l1 l2
  · exact ht _ (mem_pathVals_source p) _ (mem_pathVals_source q) _ (mem_pathVals_source r) s1 s2

theorem path_equiv (p q r : Path) (hp : PathKwNodup p) (hq : PathKwNodup q)
    (h : EquivOn pyEq (pathVals p ++ pathVals q ++ pathVals r)) :
    pathEq p p = true ∧ pathEq p q = pathEq q p ∧ (pathEq p q = true → pathEq q r = true → pathEq p r = true) := by
  have mp : ∀ a ∈ pathVals p, a ∈ pathVals p ++ pathVals q ++ pathVals r := fun a ha => by simp [ha]
  have mq : ∀ a ∈ pathVals q, a ∈ pathVals p ++ pathVals q ++ pathVals r := fun a ha => by simp [ha]
  have mr : ∀ a ∈ pathVals r, a ∈ pathVals p ++ pathVals q ++ pathVals r := fun a ha => by simp [ha]
  exact ⟨path_refl p hp (fun a ha => h.1 a (mp a ha)),
    path_symm p q hp hq (fun a ha b hb => h.2.1 a (mp a ha) b (mq b hb)),
    path_trans p q r (fun a ha b hb c hc => h.2.2 a (mp a ha) b (mq b hb) c (mr c hc))⟩

/-! ### casts -/

theorem castEq_iff (a b : List (PyType × String)) :
    castEq a b = true ↔ a.length = b.length ∧ a ⊆ b := by
  simp only [castEq, Bool.and_eq_true, beq_iff_eq, List.all_eq_true, List.any_eq_true]
  refine and_congr Iff.rfl ⟨fun h x hx => ?_, fun h x hx => ⟨x, h hx, rfl, rfl⟩⟩
  obtain ⟨y, hy, h1, h2⟩ := h x hx
  have : x = y := Prod.ext h1 h2
  exact this ▸ hy

theorem castEq_refl (a : List (PyType × String)) : castEq a a = true :=
  (castEq_iff a a).2 ⟨rfl, List.Subset.refl _⟩

theorem nodup_of_keys_nodup {a : List (PyType × String)} (h : (a.map (·.1)).Nodup) : a.Nodup := by
  induction a with
  | nil => exact List.nodup_nil
  | cons x t ih =>
    simp only [List.map_cons, List.nodup_cons] at h ⊢
    exact ⟨fun hx => h.1 (List.mem_map_of_mem (f := (·.1)) hx), ih h.2⟩

theorem castEq_symm (a b : List (PyType × String)) (ha : (a.map (·.1)).Nodup) (hb : (b.map (·.1)).Nodup) :
    castEq a b = castEq b a := by
  rw [Bool.eq_iff_iff, castEq_iff, castEq_iff]
  constructor
  · rintro ⟨hl, hs⟩
    exact ⟨hl.symm, (subset_of_nodup_length a b (nodup_of_keys_nodup ha) hs (by omega)).1⟩
  · rintro ⟨hl, hs⟩
    exact ⟨hl.symm, (subset_of_nodup_length b a (nodup_of_keys_nodup hb) hs (by omega)).1⟩

theorem castEq_trans (a b c : List (PyType × String)) (h1 : castEq a b = true) (h2 : castEq b c = true) :
    castEq a c = true := by
  rw [castEq_iff] at *
  exact ⟨h1.1.trans h2.1, fun x hx => h2.2 (h1.2 hx)⟩

/-! ### rules -/

theorem condEq_lit (c d : Cond PyVal) : condEq (c.mapArgs Arg.lit) (d.mapArgs Arg.lit) = condEqWith pyEq c d := by
  unfold condEq
  rw [cond_map]
  rfl

/-- distinct keys everywhere: keyword names of every condition, types of the `cast` dict -/
def RuleKeysNodup (r : RuleM) : Prop :=
  PathKwNodup r.path ∧ KwNodup r.cond ∧ (r.cast.map (·.1)).Nodup

theorem rule_equiv (p q r : RuleM) (cp cq cr : Cond PyVal)
    (hp : p.cond = cp.mapArgs Arg.lit) (hq : q.cond = cq.mapArgs Arg.lit) (hr : r.cond = cr.mapArgs Arg.lit)
    (np : RuleKeysNodup p) (nq : RuleKeysNodup q)
    (h : EquivOn pyEq (pathVals p.path ++ pathVals q.path ++ pathVals r.path ++ args cp ++ args cq ++ args cr)) :
    ruleEq p p = true ∧ ruleEq p q = ruleEq q p ∧ (ruleEq p q = true → ruleEq q r = true → ruleEq p r = true) := by
  obtain ⟨pp, pc, pk⟩ := np
  obtain ⟨qp, qc, qk⟩ := nq
  rw [hp, kwNodup_map] at pc
  rw [hq, kwNodup_map] at qc
  obtain ⟨e1, e2, e3⟩ := path_equiv p.path q.path r.path pp qp (h.mono (fun a ha => by
    simp only [List.mem_append] at ha ⊢; exact Or.inl (Or.inl (Or.inl ha))))
  have mp : ∀ a ∈ args cp, a ∈ pathVals p.path ++ pathVals q.path ++ pathVals r.path ++ args cp ++ args cq ++ args cr :=
    fun a ha => by simp [ha]
  have mq : ∀ a ∈ args cq, a ∈ pathVals p.path ++ pathVals q.path ++ pathVals r.path ++ args cp ++ args cq ++ args cr :=
    fun a ha => by simp [ha]
  have mr : ∀ a ∈ args cr, a ∈ pathVals p.path ++ pathVals q.path ++ pathVals r.path ++ args cp ++ args cq ++ args cr :=
    fun a ha => by simp [ha]
  simp only [ruleEq, hp, hq, hr, condEq_lit]
  refine ⟨?_, ?_, ?_⟩
  · rw [e1, cond_refl pyEq cp pc (fun a ha => h.1 a (mp a ha)), castEq_refl]; rfl
  · rw [e2, cond_symm pyEq cp cq pc qc (fun a ha b hb => h.2.1 a (mp a ha) b (mq b hb)), castEq_symm _ _ pk qk]
  · simp only [Bool.and_eq_true]
    rintro ⟨⟨a1, a2⟩, a3⟩ ⟨⟨b1, b2⟩, b3⟩
    exact ⟨⟨e3 a1 b1, cond_trans pyEq cp cq cr (fun a ha b hb c hc => h.2.2 a (mp a ha) b (mq b hb) c (mr c hc)) a2 b2⟩,
      castEq_trans _ _ _ a3 b3⟩

end ValidaProofs.C14L
