/-
  ValidaProofs.Lemmas.C13Ser — helper lemmas for C13: the cast block of `ruleToJson` as a function of
  its own, the shape of `ruleToJson`, evaluation of the cast block and of `parseCasts` on the casts
  of the source tables.
-/
import Valida.Spec.Ser
namespace ValidaProofs.C13L
open Valida ValidaGen

/-- the cast block of `Rule.to_json_like()` -/
def castJson (cast : List (PyType × String)) : Except Exc PyVal :=
  if cast.isEmpty then pure PyVal.none else do
    let items ← cast.mapM (fun (tf : PyType × String) => do
      let nameOf (t : PyType) : Except Exc String :=
        match castDtypeLookup.find? (fun p => p.2 == t) with
        | some p => pure p.1
        | none => throw .keyError
      let toT ← match castLookup.reverse.find? (fun e => e.2 == tf.2) with
        | some e => pure e.1.2
        | none => throw .keyError
      pure (PyVal.str (← nameOf tf.1), PyVal.str (← nameOf toT)))
    pure (PyVal.dict items)

theorem ruleToJson_eq (r : RuleM) :
    ruleToJson r = (do
      let cast ← castJson r.cast
      let c ← condToJson r.cond
      let ps ← toPartSpecs r.path
      pure (.dict [(.str "condition", c), (.str "cast", cast), (.str "path", .list ps)])) := rfl

theorem castJson_none_iff (cast : List (PyType × String)) (v : PyVal) (h : castJson cast = .ok v) :
    cast = [] ↔ v = .none := by
  unfold castJson at h
  cases cast with
  | nil => cases h; simp
  | cons x xs =>
    simp only [List.isEmpty_cons, Bool.false_eq_true, if_false] at h
    generalize List.mapM (m := Except Exc) _ (x :: xs) = m at h
    cases m with
    | error e => simp [bind, Except.bind] at h
    | ok items =>
      simp only [bind, Except.bind, pure, Except.pure, Except.ok.injEq] at h
      subst h; simp

/-- what `ruleToJson` returns -/
theorem ruleToJson_ok (r : RuleM) (js : PyVal) (h : ruleToJson r = .ok js) :
    ∃ c cast ps, js = .dict [(.str "condition", c), (.str "cast", cast), (.str "path", .list ps)] ∧
      castJson r.cast = .ok cast ∧ condToJson r.cond = .ok c ∧ toPartSpecs r.path = .ok ps := by
  rw [ruleToJson_eq] at h
  cases h1 : castJson r.cast with
  | error e => simp [h1, bind, Except.bind] at h
  | ok cast =>
    cases h2 : condToJson r.cond with
    | error e => simp [h1, h2, bind, Except.bind] at h
    | ok c =>
      cases h3 : toPartSpecs r.path with
      | error e => simp [h1, h2, h3, bind, Except.bind] at h
      | ok ps =>
        simp only [h1, h2, h3, bind, Except.bind, pure, Except.pure, Except.ok.injEq] at h
        exact ⟨c, cast, ps, h.symm, rfl, rfl, rfl⟩

theorem ruleToJson_of (r : RuleM) (c cast : PyVal) (ps : List PyVal)
    (h1 : castJson r.cast = .ok cast) (h2 : condToJson r.cond = .ok c) (h3 : toPartSpecs r.path = .ok ps) :
    ruleToJson r = .ok (.dict [(.str "condition", c), (.str "cast", cast), (.str "path", .list ps)]) := by
  rw [ruleToJson_eq, h1, h2, h3]; rfl

/-! ### the casts of the source tables -/

theorem castJson_nil : castJson [] = .ok .none := rfl

theorem castJson_str_int :
    castJson [(PyType.str, "int")] = .ok (.dict [(.str "str", .str "int")]) := by rfl

theorem castJson_str_bool :
    castJson [(PyType.str, "cast_string_to_bool")] = .ok (.dict [(.str "str", .str "bool")]) := by rfl

theorem parseCasts_none : parseCasts (some .none) = .ok [] := rfl

theorem parseCasts_str_int :
    parseCasts (some (.dict [(.str "str", .str "int")])) = .ok [(PyType.str, "int")] := by rfl

theorem parseCasts_str_bool :
    parseCasts (some (.dict [(.str "str", .str "bool")])) = .ok [(PyType.str, "cast_string_to_bool")] := by rfl

/-! ### reading a serialised rule back -/

theorem dictGet_json (c cast ps : PyVal) :
    Py.dictGet (.str "path") [(.str "condition", c), (.str "cast", cast), (.str "path", ps)] = some ps ∧
    Py.dictGet (.str "condition") [(.str "condition", c), (.str "cast", cast), (.str "path", ps)] = some c ∧
    Py.dictGet (.str "cast") [(.str "condition", c), (.str "cast", cast), (.str "path", ps)] = some cast ∧
    Py.dictGet (.str "doc") [(.str "condition", c), (.str "cast", cast), (.str "path", ps)] = none :=
  ⟨rfl, rfl, rfl, rfl⟩

theorem parseRule_json (fuel : Nat) (c cast : PyVal) (items : List PyVal) (c' : Cond Arg) (p' : Path)
    (casts : List (PyType × String))
    (hc : parseCond fuel c = .ok c') (hp : fromPartSpecs fuel items = .ok p')
    (hcast : parseCasts (some cast) = .ok casts) :
    parseRule fuel (.dict [(.str "condition", c), (.str "cast", cast), (.str "path", .list items)]) =
      .ok { rule := { path := p', cond := c', cast := casts }, doc := none } := by
  obtain ⟨h1, h2, h3, h4⟩ := dictGet_json c cast (.list items)
  simp only [parseRule, h1, h2, h3, h4, Py.iter, hc, hp, hcast, normDoc, bind, Except.bind, pure, Except.pure]

end ValidaProofs.C13L
