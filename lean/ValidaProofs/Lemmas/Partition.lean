/-
  ValidaProofs.Lemmas.Partition — `pickBy` / `failureIndices` (pure list facts).
-/
import ValidaProofs.Lemmas.Basic
namespace ValidaProofs
open Valida

theorem pickBy_sublist (res : List Bool) (xs : List PyVal) : (pickBy res xs).Sublist xs := by
  unfold pickBy
  induction xs generalizing res with
  | nil => simp
  | cons x xs ih =>
    cases res with
    | nil => simp
    | cons b res =>
      simp only [List.zip_cons_cons, List.filterMap_cons]
      cases b
      · exact (ih res).cons _
      · exact (ih res).cons_cons _

theorem pickBy_eq (res : List Bool) (xs : List PyVal) (h : res.length = xs.length) :
    pickBy res xs = (List.range xs.length).filterMap (fun i => if res.getD i false then xs[i]? else none) := by
  unfold pickBy
  induction xs generalizing res with
  | nil => simp
  | cons x xs ih =>
    cases res with
    | nil => simp at h
    | cons b res =>
      simp only [List.length_cons, Nat.add_right_cancel_iff] at h
      simp only [List.zip_cons_cons, List.filterMap_cons, List.length_cons, List.range_succ_eq_map,
        List.filterMap_map]
      rw [ih res h]
      cases b <;> simp [Function.comp_def]

theorem failureIndices_cons (b : Bool) (res : List Bool) :
    failureIndices (b :: res) = (if b then [] else [0]) ++ (failureIndices res).map (· + 1) := by
  unfold failureIndices
  simp only [List.length_cons, List.range_succ_eq_map, List.filter_cons, List.filter_map]
  cases b <;> simp [Function.comp_def]

theorem mem_failureIndices (res : List Bool) (i : Nat) :
    i ∈ failureIndices res ↔ (i < res.length ∧ res[i]? = some false) := by
  unfold failureIndices
  simp only [List.mem_filter, List.mem_range, List.getD_eq_getElem?_getD]
  constructor
  · rintro ⟨hi, h⟩
    refine ⟨hi, ?_⟩
    rw [List.getElem?_eq_getElem hi] at h ⊢
    simpa using h
  · rintro ⟨hi, h⟩
    exact ⟨hi, by simp [h]⟩

theorem failureIndices_pairwise (res : List Bool) : (failureIndices res).Pairwise (· < ·) := by
  unfold failureIndices
  exact List.Pairwise.filter _ List.pairwise_lt_range

theorem partition_count (res : List Bool) (xs : List PyVal) (h : res.length = xs.length) :
    (pickBy res xs).length + (failureIndices res).length = xs.length := by
  induction xs generalizing res with
  | nil =>
    cases res with
    | nil => rfl
    | cons => simp at h
  | cons x xs ih =>
    cases res with
    | nil => simp at h
    | cons b res =>
      simp only [List.length_cons, Nat.add_right_cancel_iff] at h
      have := ih res h
      rw [failureIndices_cons]
      unfold pickBy at this ⊢
      cases b <;> simp <;> omega

end ValidaProofs
