/-
  ValidaProofs.Lemmas.C10SpecApi — helper lemmas for the C10 headline: the API constructors
  `MapValue` / `ListValue` / `MapOrListValue` on the conditions of the entries, compared with what
  `ContainerValue.from_spec` builds from the mapping (`PartSame`: the same part, up to the order of the
  two operands of the one `&` that joins a key / index condition with a value condition).
-/
import Valida.Spec.Parse
import Valida.Eq
import ValidaProofs.Lemmas.C10Parse
import ValidaProofs.Lemmas.C10SpecPop
import ValidaProofs.Lemmas.C10SpecEnt
import ValidaProofs.Lemmas.C10SpecPart
namespace ValidaProofs.C10S
open Valida ValidaGen

/-- the same condition, or the same `&` with its two operands exchanged -/
def CondSame (a b : Cond PyVal) : Prop := a = b ∨ ∃ x y, a = .bin .and x y ∧ b = .bin .and y x

/-- the same part up to the order of the operands of the top `&` of its condition -/
structure PartSame (p q : Part) : Prop where
  kind : p.kind = q.kind
  cond : CondSame p.cond q.cond
  listCond : p.listCond = q.listCond
  mapCond : p.mapCond = q.mapCond
  label : p.label = q.label

theorem PartSame.rfl' (p : Part) : PartSame p p := ⟨rfl, Or.inl rfl, rfl, rfl, rfl⟩

/-- parts that are the same in this sense are equal (`ContainerValue.__eq__`, which compares `&`
    pairwise or crosswise) as soon as the second one equals itself -/
theorem partSame_partEq (p q : Part) (h : PartSame p q) (hq : partEq q q = true) : partEq p q = true := by
  obtain ⟨k, c, lc, mc, l⟩ := p
  obtain ⟨k', c', lc', mc', l'⟩ := q
  obtain ⟨h1, h2, h3, h4, h5⟩ := h
  simp only at h1 h2 h3 h4 h5
  subst h1 h3 h4 h5
  rcases h2 with rfl | ⟨x, y, rfl, rfl⟩
  · exact hq
  · simp only [partEq, condEqLit, condEqWith, Bool.and_eq_true, Bool.or_eq_true, beq_iff_eq] at hq ⊢
    obtain ⟨⟨⟨hk, ⟨_, hc⟩⟩, hl⟩, hm⟩ := hq
    refine ⟨⟨⟨hk, ⟨trivial, ?_⟩⟩, hl⟩, hm⟩
    rcases hc with ⟨a, b⟩ | ⟨a, b⟩
    · exact Or.inr ⟨b, a⟩
    · exact Or.inl ⟨b, a⟩

/-! ### the API constructors on the conditions of the entries -/

/-- the constructor argument for an optional entry: nothing, or its condition -/
def dspec : Option Ent → DatumSpec
  | none => .none
  | some e => .cond (litCond e.c)

theorem containerCond_some (d : Dat) (pc : PyVal → Except Exc (Cond Arg)) (cls : CClass) (a : Cond PyVal)
    (o : Option Ent) (ho : OptOk d pc o) : containerCond (some a) (dspec o) cls d.name = addC a o := by
  cases o with
  | none => rfl
  | some e =>
    have h1 := ent_not_null d pc e (ho e rfl)
    have h2 := ent_isLike d pc e (ho e rfl)
    simp [containerCond, dspec, h1, h2, addC]

theorem containerCond_none (d : Dat) (pc : PyVal → Except Exc (Cond Arg)) (cls : CClass)
    (o : Option Ent) (ho : OptOk d pc o) : containerCond none (dspec o) cls d.name = .ok (condOf o) := by
  have : containerCond none (dspec o) cls d.name = containerCond (some Cond.null) (dspec o) cls d.name := rfl
  rw [this, containerCond_some d pc cls _ o ho, addC_null d pc o ho]

theorem condOf_isLike (d : Dat) (pc : PyVal → Except Exc (Cond Arg)) (e : Ent) (ho : OptOk d pc (some e)) :
    (condOf (some e)).isLike d.name = true := ent_isLike d pc e (ho e rfl)

/-- joining the conditions of two datums in either order -/
theorem addC_pair (d1 d2 : Dat) (pc : PyVal → Except Exc (Cond Arg)) (A B : Option Ent) (avoid : String)
    (hA : OptOk d1 pc A) (hB : OptOk d2 pc B) (havoid : avoid = "key" ∨ avoid = "index")
    (h1 : d1.name ≠ avoid) (h2 : d2.name ≠ avoid) :
    ∃ x y, addC (condOf A) B = .ok x ∧ addC (condOf B) A = .ok y ∧ CondSame x y := by
  cases A with
  | none =>
    cases B with
    | none => exact ⟨_, _, rfl, rfl, Or.inl rfl⟩
    | some b => exact ⟨_, _, addC_null d2 pc _ hB, rfl, Or.inl rfl⟩
  | some a =>
    cases B with
    | none => exact ⟨_, _, rfl, addC_null d1 pc _ hA, Or.inl rfl⟩
    | some b =>
      have ia := ent_isLike d1 pc a (hA a rfl)
      have ib := ent_isLike d2 pc b (hB b rfl)
      have n1 : d1.name ≠ "null" := by cases d1 <;> decide
      have n2 : d2.name ≠ "null" := by cases d2 <;> decide
      exact ⟨_, _, mkBin_ok .and _ _ d1.name d2.name avoid ia ib n1 n2 havoid h1 h2,
        mkBin_ok .and _ _ d2.name d1.name avoid ib ia n2 n1 havoid h2 h1, Or.inr ⟨_, _, rfl, rfl⟩⟩

/-! ### entries after the value entry -/

theorem restOk_append (a b : List KV) (ha : RestOk a) (hb : RestOk b) : RestOk (a ++ b) :=
  ⟨(foreign_append _ _ _).2 ⟨ha.ty, hb.ty⟩, (foreign_append _ _ _).2 ⟨ha.cond, hb.cond⟩,
   (foreign_append _ _ _).2 ⟨ha.lcond, hb.lcond⟩, (foreign_append _ _ _).2 ⟨ha.mcond, hb.mcond⟩,
   (foreign_append _ _ _).2 ⟨ha.value, hb.value⟩, (foreign_append _ _ _).2 ⟨ha.valueDot, hb.valueDot⟩⟩

theorem restOk_kvs (d : Dat) (hd : d ≠ .value) (pc : PyVal → Except Exc (Cond Arg)) (o : Option Ent)
    (ho : OptOk d pc o) : RestOk (kvs o) :=
  ⟨foreign_kvs_name d pc o ho "type" (by cases d <;> decide) (by cases d <;> decide),
   foreign_kvs_name d pc o ho "condition" (by cases d <;> decide) (by cases d <;> decide),
   foreign_kvs_name d pc o ho "list_condition" (by cases d <;> decide) (by cases d <;> decide),
   foreign_kvs_name d pc o ho "map_condition" (by cases d <;> decide) (by cases d <;> decide),
   foreign_kvs_name d pc o ho "value" (by cases d <;> first | exact absurd rfl hd | decide) (by cases d <;> decide),
   foreign_kvs_pref d .value hd pc o ho⟩

theorem restOk_label (L : Option PyVal) : RestOk (optKv "label" L) :=
  ⟨foreign_optKv_name _ _ _ (by decide), foreign_optKv_name _ _ _ (by decide), foreign_optKv_name _ _ _ (by decide),
   foreign_optKv_name _ _ _ (by decide), foreign_optKv_name _ _ _ (by decide), foreign_optKv_pref _ _ _ (by decide)⟩

/-! ### the three kinds -/

theorem mkMap_plain (c : Cond PyVal) (l : Option PyVal) :
    Part.mkMap .none .none (some c) l =
      .ok { kind := .map, cond := c, listCond := Cond.null, mapCond := Cond.null, label := l } := rfl

theorem mkList_plain (c : Cond PyVal) (l : Option PyVal) :
    Part.mkList .none .none (some c) l =
      .ok { kind := .list, cond := c, listCond := Cond.null, mapCond := Cond.null, label := l } := rfl

theorem mkMolv_plain (c lc mc : Cond PyVal) (l : Option PyVal) :
    Part.mkMolv .none .none .none (some lc) (some mc) (some c) l =
      .ok { kind := .molv, cond := c, listCond := lc, mapCond := mc, label := l } := rfl

/-- `{type: map_value, key…, value…, label}` in any order against `MapValue(key, value, label=…)` -/
theorem part_map (pc : PyVal → Except Exc (Cond Arg)) (s : List KV) (K V : Option Ent) (L : Option PyVal)
    (hK : OptOk .key pc K) (hV : OptOk .value pc V)
    (hs : s.Perm (optKv "type" (some (.str "map_value")) ++ (kvs V ++ (kvs K ++ optKv "label" L)))) :
    ∃ p q, C10L.partBody pc s = .ok p ∧ Part.mkMap (dspec K) (dspec V) none (normLabel L) = .ok q ∧
      PartSame p q := by
  obtain ⟨s6, p6, hfront⟩ := partBody_front pc s _ _ .map V hV (Or.inl ⟨rfl, rfl⟩) hs
    (restOk_append _ _ (restOk_kvs .key (by decide) pc K hK) (restOk_label L))
  obtain ⟨x, y, hx, hy, hxy⟩ := addC_pair .value .key pc V K "index" hV hK (Or.inr rfl) (by decide) (by decide)
  refine ⟨{ kind := .map, cond := x, listCond := Cond.null, mapCond := Cond.null, label := normLabel L },
    { kind := .map, cond := y, listCond := Cond.null, mapCond := Cond.null, label := normLabel L }, ?_, ?_,
    ⟨rfl, hxy, rfl, rfl, rfl⟩⟩
  · rw [hfront, addC_null .value pc V hV]
    simp only [Except.bind, finish_map pc _ _ _ s6 K L hK p6, hx, mkMap_plain]
  · have h1 := containerCond_none .key pc .key K hK
    have h2 := containerCond_some .value pc .value (condOf K) V hV
    simp only [Dat.name] at h1 h2
    simp only [Part.mkMap, h1, h2, hy, bind, Except.bind, pure, Except.pure]

/-- `{type: list_value, index…, value…, label}` against `ListValue(index, value, label=…)` -/
theorem part_list (pc : PyVal → Except Exc (Cond Arg)) (s : List KV) (I V : Option Ent) (L : Option PyVal)
    (hI : OptOk .index pc I) (hV : OptOk .value pc V)
    (hs : s.Perm (optKv "type" (some (.str "list_value")) ++ (kvs V ++ (kvs I ++ optKv "label" L)))) :
    ∃ p q, C10L.partBody pc s = .ok p ∧ Part.mkList (dspec I) (dspec V) none (normLabel L) = .ok q ∧
      PartSame p q := by
  obtain ⟨s6, p6, hfront⟩ := partBody_front pc s _ _ .list V hV (Or.inr (Or.inl ⟨rfl, rfl⟩)) hs
    (restOk_append _ _ (restOk_kvs .index (by decide) pc I hI) (restOk_label L))
  obtain ⟨x, y, hx, hy, hxy⟩ := addC_pair .value .index pc V I "key" hV hI (Or.inl rfl) (by decide) (by decide)
  refine ⟨{ kind := .list, cond := x, listCond := Cond.null, mapCond := Cond.null, label := normLabel L },
    { kind := .list, cond := y, listCond := Cond.null, mapCond := Cond.null, label := normLabel L }, ?_, ?_,
    ⟨rfl, hxy, rfl, rfl, rfl⟩⟩
  · rw [hfront, addC_null .value pc V hV]
    simp only [Except.bind, finish_list pc _ _ _ s6 I L hI p6, hx, mkList_plain]
  · have h1 := containerCond_none .index pc .index I hI
    have h2 := containerCond_some .value pc .value (condOf I) V hV
    simp only [Dat.name] at h1 h2
    simp only [Part.mkList, h1, h2, hy, bind, Except.bind, pure, Except.pure]

/-- `{[type: map_or_list_value,] key…, index…, value…, label}` against
    `MapOrListValue(key, index, value, label=…)`: the very same part -/
theorem part_molv (pc : PyVal → Except Exc (Cond Arg)) (s : List KV) (ty : Option PyVal) (K I V : Option Ent)
    (L : Option PyVal) (hty : ty = none ∨ ty = some (.str "map_or_list_value"))
    (hK : OptOk .key pc K) (hI : OptOk .index pc I) (hV : OptOk .value pc V)
    (hs : s.Perm (optKv "type" ty ++ (kvs V ++ (kvs I ++ (kvs K ++ optKv "label" L))))) :
    ∃ p, C10L.partBody pc s = .ok p ∧
      Part.mkMolv (dspec K) (dspec I) (dspec V) none none none (normLabel L) = .ok p := by
  have hty' : TyOk ty .molv := by
    rcases hty with rfl | rfl
    · exact Or.inr (Or.inr (Or.inr ⟨rfl, rfl⟩))
    · exact Or.inr (Or.inr (Or.inl ⟨rfl, rfl⟩))
  obtain ⟨s6, p6, hfront⟩ := partBody_front pc s _ ty .molv V hV hty' hs
    (restOk_append _ _ (restOk_kvs .index (by decide) pc I hI)
      (restOk_append _ _ (restOk_kvs .key (by decide) pc K hK) (restOk_label L)))
  refine ⟨{ kind := .molv, cond := condOf V, listCond := condOf I, mapCond := condOf K, label := normLabel L },
    ?_, ?_⟩
  · rw [hfront, addC_null .value pc V hV]
    simp only [Except.bind, finish_molv pc _ s6 I K L hI hK p6, mkMolv_plain]
  · have h1 := containerCond_none .index pc .index I hI
    have h2 := containerCond_none .key pc .key K hK
    have h3 := containerCond_none .value pc .value V hV
    simp only [Dat.name] at h1 h2 h3
    simp only [Part.mkMolv, h1, h2, h3, bind, Except.bind, pure, Except.pure]

end ValidaProofs.C10S
