/-
  ValidaProofs.Lemmas.C13BehavePart — helper lemmas for the behavioural half of C13: what the round trip
  through `to_part_specs` / `from_part_specs` may change in a part (`PartClose`: nothing that a walk
  looks at, except a key written as a number that is `==` to the index), and that such parts take the
  same step of the walk on every node.
-/
import Valida.Spec.Ser
import Valida.Eq
import ValidaProofs.Lemmas.PyEq
import ValidaProofs.Lemmas.C12Parts
import ValidaProofs.Lemmas.C14PathsPart
namespace ValidaProofs.C13B
open Valida ValidaGen

/-! ### equality against the null condition / an `equal_to` condition is (almost) identity -/

theorem listEq_nil_left {α : Type} (eqA : α → α → Bool) (ys : List α) (h : listEq eqA [] ys = true) : ys = [] := by
  cases ys with
  | nil => rfl
  | cons y ys => simp [listEq] at h

theorem condEqLit_null_left (c : Cond PyVal) (h : condEqLit Cond.null c = true) : c = Cond.null := by
  cases c with
  | bin op a b => simp [condEqLit, condEqWith, Cond.null] at h
  | leaf l =>
    obtain ⟨cls, fn, args, kwargs⟩ := l
    simp only [condEqLit, condEqWith, Cond.null, Bool.and_eq_true, beq_iff_eq, kwEq, List.length_nil,
      List.all_nil, and_true] at h
    obtain ⟨⟨⟨h1, h2⟩, h3⟩, h4⟩ := h
    have h3' := listEq_nil_left _ _ h3
    have h4' : kwargs = [] := List.length_eq_zero_iff.1 h4.symm
    subst h1 h2 h3' h4'
    rfl

/-- a condition equal to `cls.equal_to(value=v)` is `cls.equal_to(value=w)` with `v == w` -/
theorem condEqLit_eqLeaf (cls : CClass) (v : PyVal) (c : Cond PyVal) (h : condEqLit (eqLeaf cls v) c = true) :
    ∃ w, c = eqLeaf cls w ∧ PyVal.pyEq v w = true := by
  cases c with
  | bin op a b => simp [condEqLit, condEqWith, eqLeaf] at h
  | leaf l =>
    obtain ⟨cls', fn, args, kwargs⟩ := l
    simp only [condEqLit, condEqWith, eqLeaf, Bool.and_eq_true, beq_iff_eq, kwEq, List.length_cons,
      List.length_nil, List.all_cons, List.all_nil, Bool.and_true] at h
    obtain ⟨⟨⟨h1, h2⟩, h3⟩, h4, h5⟩ := h
    have h3' := listEq_nil_left _ _ h3
    subst h1 h2 h3'
    match kwargs, h4, h5 with
    | [(k, w)], _, h5 =>
      simp only [lookupStr] at h5
      by_cases hk : ("value" == k) = true
      · simp only [hk, if_true] at h5
        have : k = "value" := (beq_iff_eq.1 hk).symm
        subst this
        exact ⟨w, rfl, h5⟩
      · simp [hk] at h5

theorem eqLeaf_inj (cls : CClass) (v w : PyVal) (h : eqLeaf cls v = eqLeaf cls w) : v = w := by
  simp only [eqLeaf, Cond.leaf.injEq, Leaf.mk.injEq, List.cons.injEq, Prod.mk.injEq, and_true, true_and] at h
  exact h

/-! ### what the round trip may change -/

/-- numbers that are `==`: the same exact value (`1 == 1.0 == True`) -/
def NumEq (v w : PyVal) : Prop := ∃ a, PyVal.numKey v = some a ∧ PyVal.numKey w = some a

/-- `q` (rebuilt) against `part` (original): the same kind and condition; for a map-or-list part the same
    list condition, and the same map condition or `Key.equal_to` of numbers that are `==` (then without
    a value condition) -/
structure PartClose (q part : Part) : Prop where
  kind : q.kind = part.kind
  cond : q.cond = part.cond
  listCond : part.kind = .molv → q.listCond = part.listCond
  mapCond : part.kind = .molv → q.mapCond = part.mapCond ∨
    (∃ v w, q.mapCond = eqLeaf .key v ∧ part.mapCond = eqLeaf .key w ∧ NumEq v w ∧ part.cond = Cond.null ∧
      q.listCond = eqLeaf .index v)

theorem partClose_bare (part : Part) (k : PartKind) (h : partEq part (barePart k) = true) :
    PartClose (barePart k) part := by
  obtain ⟨kind, c, lc, mc, l⟩ := part
  simp only [partEq, barePart, Bool.and_eq_true, beq_iff_eq, Bool.or_eq_true, bne_iff_ne, ne_eq] at h
  obtain ⟨⟨⟨h1, h2⟩, _⟩, h4⟩ := h
  subst h1
  have h2' := C12L.condEqLit_null_right _ h2
  subst h2'
  refine ⟨rfl, rfl, ?_, ?_⟩
  · intro hk
    rcases h4 with h4 | ⟨h4, _⟩
    · exact absurd hk h4
    · exact (C12L.condEqLit_null_right _ h4).symm
  · intro hk
    rcases h4 with h4 | ⟨_, h5⟩
    · exact absurd hk h4
    · exact Or.inl (C12L.condEqLit_null_right _ h5).symm

theorem numEq_of_pyEq_int (n : Int) (w : PyVal) (h : PyVal.pyEq (.int n) w = true) : NumEq (.int n) w := by
  cases w <;> simp [PyVal.pyEq, PyVal.atomEq, PyVal.numKey] at h
  all_goals exact ⟨_, rfl, by simp [PyVal.numKey, h]⟩

theorem numEq_of_pyEq_bool (b : Bool) (w : PyVal) (h : PyVal.pyEq (.bool b) w = true) : NumEq (.bool b) w := by
  cases w <;> simp [PyVal.pyEq, PyVal.atomEq, PyVal.numKey] at h
  all_goals exact ⟨_, rfl, by simp [PyVal.numKey, h]⟩

/-- a plain key (str / float) read out of a map part -/
theorem partClose_prim_map (v : PyVal) (part : Part)
    (hs : simplifyPart part = some v)
    (hpe : partEq { kind := .map, cond := eqLeaf .key v, listCond := Cond.null, mapCond := Cond.null, label := none } part = true) :
    PartClose { kind := .map, cond := eqLeaf .key v, listCond := Cond.null, mapCond := Cond.null, label := none } part := by
  obtain ⟨kind, c, lc, mc, l⟩ := part
  simp only [partEq, Bool.and_eq_true, beq_iff_eq, Bool.or_eq_true, bne_iff_ne, ne_eq] at hpe
  obtain ⟨⟨⟨h1, h2⟩, _⟩, _⟩ := hpe
  subst h1
  obtain ⟨w, rfl, _⟩ := condEqLit_eqLeaf .key v c h2
  have : w = v := by
    simpa [simplifyPart, eqLeaf, lookupStr] using hs
  subst this
  exact ⟨rfl, rfl, (fun h => by cases h), (fun h => by cases h)⟩

/-- a plain index / key (int / bool) read out of a map-or-list part -/
theorem partClose_prim_molv (v : PyVal) (hv : (∃ n, v = .int n) ∨ (∃ b, v = .bool b)) (part : Part)
    (hs : simplifyPart part = some v)
    (hpe : partEq { kind := .molv, cond := Cond.null, listCond := eqLeaf .index v, mapCond := eqLeaf .key v, label := none } part = true) :
    PartClose { kind := .molv, cond := Cond.null, listCond := eqLeaf .index v, mapCond := eqLeaf .key v, label := none } part := by
  obtain ⟨kind, c, lc, mc, l⟩ := part
  simp only [partEq, Bool.and_eq_true, beq_iff_eq, Bool.or_eq_true, bne_iff_ne, ne_eq, not_true_eq_false,
    false_or] at hpe
  obtain ⟨⟨⟨h1, h2⟩, _⟩, h4, h5⟩ := hpe
  subst h1
  have h2' := condEqLit_null_left c h2
  subst h2'
  obtain ⟨w1, rfl, _⟩ := condEqLit_eqLeaf .index v lc h4
  obtain ⟨w2, rfl, e2⟩ := condEqLit_eqLeaf .key v mc h5
  have : w1 = v := by
    have hn : condEqLit (Cond.null : Cond PyVal) Cond.null = true := rfl
    simpa [simplifyPart, eqLeaf, lookupStr, hn] using hs
  subst this
  refine ⟨rfl, rfl, fun _ => rfl, fun _ => Or.inr ⟨w1, w2, rfl, rfl, ?_, rfl, rfl⟩⟩
  rcases hv with ⟨n, rfl⟩ | ⟨b, rfl⟩
  · exact numEq_of_pyEq_int n w2 e2
  · exact numEq_of_pyEq_bool b w2 e2

/-- a condition of a rebuilt part: null or `cls.equal_to(value=v)` -/
def SimpleCond (c : Cond PyVal) : Prop := c = Cond.null ∨ ∃ cls v, c = eqLeaf cls v

/-- what every rebuilt part looks like: no label, list / map conditions only in a map-or-list part,
    conditions null or `equal_to` -/
structure Rebuilt (q : Part) : Prop where
  label : q.label = none
  plain : q.kind ≠ .molv → q.listCond = Cond.null ∧ q.mapCond = Cond.null
  cond : SimpleCond q.cond
  listCond : SimpleCond q.listCond
  mapCond : SimpleCond q.mapCond

theorem rebuilt_bare (k : PartKind) : Rebuilt (barePart k) :=
  ⟨rfl, fun _ => ⟨rfl, rfl⟩, Or.inl rfl, Or.inl rfl, Or.inl rfl⟩

theorem rebuilt_map (v : PyVal) :
    Rebuilt { kind := .map, cond := eqLeaf .key v, listCond := Cond.null, mapCond := Cond.null, label := none } :=
  ⟨rfl, fun _ => ⟨rfl, rfl⟩, Or.inr ⟨_, _, rfl⟩, Or.inl rfl, Or.inl rfl⟩

theorem rebuilt_molv (v : PyVal) :
    Rebuilt { kind := .molv, cond := Cond.null, listCond := eqLeaf .index v, mapCond := eqLeaf .key v, label := none } :=
  ⟨rfl, fun h => absurd rfl h, Or.inl rfl, Or.inr ⟨_, _, rfl⟩, Or.inr ⟨_, _, rfl⟩⟩

/-- **one part**: what is emitted for a part is read back as a part that is close to it -/
theorem emit_close (fuel : Nat) (part : Part) (spec : PyVal) (h : C12L.emit part = .ok spec) :
    ∃ q, C12L.rebuild (fuel + 1) spec = .ok q ∧ PartClose q part ∧ partEq q part = true ∧ Rebuilt q := by
  unfold C12L.emit at h
  split at h
  · next h1 => cases h; exact ⟨_, (C12L.bare_specs_parse fuel).1, partClose_bare _ _ h1, C12L.partEq_bare_symm _ _ h1, rebuilt_bare _⟩
  split at h
  · next h1 => cases h; exact ⟨_, (C12L.bare_specs_parse fuel).2.1, partClose_bare _ _ h1, C12L.partEq_bare_symm _ _ h1, rebuilt_bare _⟩
  split at h
  · next h1 => cases h; exact ⟨_, (C12L.bare_specs_parse fuel).2.2, partClose_bare _ _ h1, C12L.partEq_bare_symm _ _ h1, rebuilt_bare _⟩
  split at h
  · next v hv =>
    split at h
    · next s =>
      obtain ⟨rfl, q, hq, hpe⟩ := C12L.checkPrim_ok _ _ _ h
      have : q = { kind := .map, cond := eqLeaf .key (.str s), listCond := Cond.null, mapCond := Cond.null, label := none } := by
        cases hq; rfl
      subst this
      exact ⟨_, hq, partClose_prim_map _ part hv hpe, hpe, rebuilt_map _⟩
    · next x =>
      obtain ⟨rfl, q, hq, hpe⟩ := C12L.checkPrim_ok _ _ _ h
      have : q = { kind := .map, cond := eqLeaf .key (.float x), listCond := Cond.null, mapCond := Cond.null, label := none } := by
        cases hq; rfl
      subst this
      exact ⟨_, hq, partClose_prim_map _ part hv hpe, hpe, rebuilt_map _⟩
    · next n =>
      obtain ⟨rfl, q, hq, hpe⟩ := C12L.checkPrim_ok _ _ _ h
      have : q = { kind := .molv, cond := Cond.null, listCond := eqLeaf .index (.int n), mapCond := eqLeaf .key (.int n), label := none } := by
        cases hq; rfl
      subst this
      exact ⟨_, hq, partClose_prim_molv _ (Or.inl ⟨n, rfl⟩) part hv hpe, hpe, rebuilt_molv _⟩
    · next b =>
      obtain ⟨rfl, q, hq, hpe⟩ := C12L.checkPrim_ok _ _ _ h
      have : q = { kind := .molv, cond := Cond.null, listCond := eqLeaf .index (.bool b), mapCond := eqLeaf .key (.bool b), label := none } := by
        cases hq; rfl
      subst this
      exact ⟨_, hq, partClose_prim_molv _ (Or.inr ⟨b, rfl⟩) part hv hpe, hpe, rebuilt_molv _⟩
    · cases h
  · cases h

end ValidaProofs.C13B
