/-
  ValidaProofs.Lemmas.C13BehaveWalk — helper lemmas for the behavioural half of C13: parts that are close
  (`PartClose`) filter every node identically, hence paths whose parts are pairwise close select the
  same nodes; rules with the same condition, the same casts and the same selection give the same test;
  lists of such rules the same validation.
-/
import Valida.Spec.Ser
import Valida.Eq
import Valida.Rule
import ValidaProofs.Lemmas.PyEq
import ValidaProofs.Lemmas.C12Parts
import ValidaProofs.Lemmas.C14PathsPart
import ValidaProofs.Lemmas.C13BehavePart
namespace ValidaProofs.C13B
open Valida ValidaGen

/-! ### `Key.equal_to` of numbers that are `==` -/

theorem callFn_equal_to (x v : PyVal) : callFn "equal_to" x [] [("value", v)] = .ok (.bool (PyVal.pyEq x v)) := by
  rfl

theorem atomEq_of_numKey (x y : PyVal) (b : Int) (h : PyVal.numKey y = some b) :
    PyVal.atomEq x y = (PyVal.numKey x == some b) := by
  cases y <;> simp [PyVal.numKey] at h <;> cases x <;> simp [PyVal.atomEq, PyVal.numKey, h]

theorem pyEq_of_numKey (x y : PyVal) (b : Int) (h : PyVal.numKey y = some b) :
    PyVal.pyEq x y = (PyVal.numKey x == some b) := by
  rw [← atomEq_of_numKey x y b h]
  refine pyEq_atom_right x y ?_
  cases y <;> first | trivial | simp [PyVal.numKey] at h

theorem pyEq_numEq (x v w : PyVal) (h : NumEq v w) : PyVal.pyEq x v = PyVal.pyEq x w := by
  obtain ⟨a, h1, h2⟩ := h
  rw [pyEq_of_numKey x v a h1, pyEq_of_numKey x w a h2]

theorem evalItem_numEq (pre : String) (v w : PyVal) (h : NumEq v w) :
    evalItem pre "equal_to" [] [("value", .ok v)] = evalItem pre "equal_to" [] [("value", .ok w)] := by
  funext datum
  unfold evalItem
  cases applyPre pre datum with
  | error e => rfl
  | ok processed =>
    have : callLeaf "equal_to" [] [("value", .ok v)] processed = callLeaf "equal_to" [] [("value", .ok w)] processed := by
      simp only [callLeaf, resolveAll, resolveKw, bind, Except.bind, pure, Except.pure, callFn_equal_to,
        pyEq_numEq processed v w h]
    simp only [this]

theorem filterData_key_numEq (v w : PyVal) (h : NumEq v w) (d : DataV) :
    filterData (eqLeaf .key v).lit d = filterData (eqLeaf .key w).lit d := by
  simp only [filterData, filterAux, kindCheck, Cond.lit, Cond.mapArgs, eqLeaf, List.map_cons, List.map_nil,
    evalItem_numEq _ v w h]

/-! ### close parts take the same step -/

theorem filter_close (q part : Part) (h : PartClose q part) (node : PyVal) :
    Part.filter q node = Part.filter part node := by
  obtain ⟨k, c, lc, mc, l⟩ := q
  obtain ⟨k', c', lc', mc', l'⟩ := part
  obtain ⟨h1, h2, h3, h4⟩ := h
  simp only at h1 h2 h3 h4
  subst h1 h2
  cases k with
  | map => rfl
  | list => rfl
  | molv =>
    have e3 := h3 rfl
    subst e3
    rcases h4 rfl with rfl | ⟨v, w, rfl, rfl, hn, rfl, _⟩
    · rfl
    · unfold Part.filter
      cases DataV.ofPy node with
      | error e => rfl
      | ok d =>
        simp only [bind, Except.bind]
        by_cases hl : d.isList = true
        · simp only [hl, if_true]
        · have m1 : Cond.mkBin .and (eqLeaf .key v) (Cond.null : Cond PyVal) = .ok (eqLeaf .key v) := rfl
          have m2 : Cond.mkBin .and (eqLeaf .key w) (Cond.null : Cond PyVal) = .ok (eqLeaf .key w) := rfl
          simp only [hl, Bool.false_eq_true, if_false, m1, m2, filterData_key_numEq v w hn d]

theorem stepNode_close (q part : Part) (h : PartClose q part) (node : PyVal) :
    stepNode q node = stepNode part node := by
  unfold stepNode
  rw [filter_close q part h node]

/-! ### paths -/

/-- the rebuilt path against the original: parts pairwise close, everything else identical -/
structure PathClose (a b : Path) : Prop where
  len : a.parts.length = b.parts.length
  parts : ∀ x ∈ a.parts.zip b.parts, PartClose x.1 x.2
  concrete : a.concrete = b.concrete
  datum : a.datum = b.datum
  multi : a.multi = b.multi
  source : a.source = b.source

theorem getData_close (a b : Path) (h : PathClose a b) (data : Option PyVal) (rp : Bool) :
    a.getData data rp = b.getData data rp := by
  obtain ⟨hl, hparts, hc, hd, hm, hs⟩ := h
  obtain ⟨ps, c, dm, mm, src⟩ := a
  obtain ⟨qs, c', dm', mm', src'⟩ := b
  simp only at hl hparts hc hd hm hs
  subst hc hd hm hs
  exact C14P.getData_same ps qs hl (fun x hx node => stepNode_close x.1 x.2 (hparts x hx) node) _ _ _ _ data rp

theorem selection_close (a b : Path) (h : PathClose a b) (doc : PyVal) : selection a doc = selection b doc := by
  unfold selection
  rw [getData_close a b h, h.datum, h.multi, h.concrete]

/-- the emitted specs are read back part by part as close parts -/
theorem rebuild_close_list (fuel : Nat) :
    ∀ (parts : List Part) (specs : List PyVal), parts.mapM C12L.emit = .ok specs →
      ∃ parts', specs.mapM (C12L.rebuild (fuel + 1)) = .ok parts' ∧ parts'.length = parts.length ∧
        ∀ x ∈ parts'.zip parts, PartClose x.1 x.2 ∧ partEq x.1 x.2 = true ∧ Rebuilt x.1 := by
  intro parts
  induction parts with
  | nil => intro specs h; rw [(C12L.mapM_nil_ok _ _).1 h]; exact ⟨[], rfl, rfl, by simp⟩
  | cons p ps ih =>
    intro specs h
    obtain ⟨s, ss, hs, hss, rfl⟩ := (C12L.mapM_cons_ok _ _ _ _).1 h
    obtain ⟨qs, h1, h2, h3⟩ := ih ss hss
    obtain ⟨q, hq, hc⟩ := emit_close fuel p s hs
    refine ⟨q :: qs, (C12L.mapM_cons_ok _ _ _ _).2 ⟨q, qs, hq, h1, rfl⟩, by simp [h2], ?_⟩
    intro x hx
    simp only [List.zip_cons_cons, List.mem_cons] at hx
    rcases hx with rfl | hx
    · exact hc
    · exact h3 x hx

/-! ### rules and schemas: the same selection, condition and casts give the same test -/

theorem ruleTestOn_congr (r s : RuleM) (hc : r.cond = s.cond) (hsel : ∀ doc, selection r.path doc = selection s.path doc)
    (doc : PyVal) : ruleTestOn r doc = ruleTestOn s doc := by
  unfold ruleTestOn
  rw [hc, hsel doc]

theorem test_congr (r s : RuleM) (hc : r.cond = s.cond) (hk : r.cast = s.cast)
    (hsel : ∀ doc, selection r.path doc = selection s.path doc) (doc copy : PyVal) :
    r.test doc copy = s.test doc copy := by
  have ht := ruleTestOn_congr r s hc hsel
  unfold RuleM.test
  rw [castSource_eq]
  simp only [hk, hsel doc, ht]

/-- the rebuilt rule against the original -/
structure RuleClose (a b : RuleM) : Prop where
  cond : a.cond = b.cond
  cast : a.cast = b.cast
  path : PathClose a.path b.path

theorem ruleClose_test (a b : RuleM) (h : RuleClose a b) (doc copy : PyVal) : a.test doc copy = b.test doc copy :=
  test_congr a b h.cond h.cast (selection_close a.path b.path h.path) doc copy

/-- lists related rule by rule -/
inductive AllClose : List RuleM → List RuleM → Prop
  | nil : AllClose [] []
  | cons {a b : RuleM} {as bs : List RuleM} (h : RuleClose a b) (t : AllClose as bs) : AllClose (a :: as) (b :: bs)

theorem validateLoop_close (as bs : List RuleM) (h : AllClose as bs) (doc : PyVal) :
    ∀ copy, validateLoop as doc copy = validateLoop bs doc copy := by
  induction h with
  | nil => intro copy; rfl
  | cons h1 _ ih =>
    intro copy
    simp only [validateLoop, ruleClose_test _ _ h1 doc copy]
    cases RuleM.test _ doc copy with
    | error e => rfl
    | ok tc =>
      simp only [bind, Except.bind]
      rw [ih tc.2]

theorem validate_close (as bs : List RuleM) (h : AllClose as bs) (doc : PyVal) : validate as doc = validate bs doc := by
  unfold validate
  simp only [validateLoop_close as bs h doc]

theorem allClose_lengths : ∀ (as bs : List RuleM), AllClose as bs →
    as.map (fun r => r.path.parts.length) = bs.map (fun r => r.path.parts.length) := by
  intro as bs h
  induction h with
  | nil => rfl
  | cons h1 _ ih => simp [h1.path.len, ih]

end ValidaProofs.C13B
