/-
  ValidaProofs.Lemmas.C20TreeSort — `sorted(items)` in a form the kernel can evaluate: since the keys
  of the items are pairwise distinct and `keyLe` is a total order on keys, the (stable merge) sort of
  the model is the insertion sort.  `List.mergeSort` is defined by well-founded recursion and does
  not reduce in the kernel; `isort` is structural.
-/
import Valida.Tree
import ValidaProofs.Lemmas.C20Tree
import ValidaProofs.Lemmas.C20TreeOrder
import ValidaProofs.Lemmas.C20TreeFold
import ValidaProofs.Lemmas.C20TreeFlat
namespace ValidaProofs.C20H
open Valida ValidaGen ValidaProofs.C20L

theorem keyLe_antisymm : ∀ (a b : List String), keyLe a b = true → keyLe b a = true → a = b := by
  intro a
  induction a with
  | nil =>
    intro b _ h2
    cases b with
    | nil => rfl
    | cons y ys => simp [keyLe_cons_nil] at h2
  | cons x xs ih =>
    intro b h1 h2
    cases b with
    | nil => simp [keyLe_cons_nil] at h1
    | cons y ys =>
      rw [keyLe_cons_cons] at h1 h2
      by_cases hxy : x = y
      · subst hxy
        rw [if_pos rfl] at h1 h2
        rw [ih ys h1 h2]
      · rw [if_neg hxy] at h1
        rw [if_neg (fun e => hxy e.symm)] at h2
        have := strLt_trans _ _ _ h1 h2
        rw [strLt_irrefl] at this
        cases this

section
variable {α : Type} (le : α → α → Bool)

def insertBy (a : α) : List α → List α
  | [] => [a]
  | b :: l => if le a b then a :: b :: l else b :: insertBy a l

def isort : List α → List α
  | [] => []
  | a :: l => insertBy le a (isort l)

theorem insertBy_perm (a : α) : ∀ (l : List α), (insertBy le a l).Perm (a :: l)
  | [] => List.Perm.refl _
  | b :: l => by
    unfold insertBy
    split
    · exact List.Perm.refl _
    · exact ((insertBy_perm a l).cons b).trans (List.Perm.swap a b l)

theorem isort_perm : ∀ (l : List α), (isort le l).Perm l
  | [] => List.Perm.refl _
  | a :: l => (insertBy_perm le a (isort le l)).trans ((isort_perm l).cons a)

theorem insertBy_pairwise (trans : ∀ a b c, le a b = true → le b c = true → le a c = true)
    (total : ∀ a b, (le a b || le b a) = true) (a : α) :
    ∀ (l : List α), l.Pairwise (fun x y => le x y = true) → (insertBy le a l).Pairwise (fun x y => le x y = true)
  | [], _ => by simp [insertBy]
  | b :: l, h => by
    unfold insertBy
    rw [List.pairwise_cons] at h
    split
    · rename_i hab
      rw [List.pairwise_cons]
      refine ⟨?_, List.pairwise_cons.2 h⟩
      intro c hc
      rcases List.mem_cons.1 hc with rfl | hc
      · exact hab
      · exact trans _ _ _ hab (h.1 c hc)
    · rename_i hab
      have hba : le b a = true := by
        have := total a b
        simp only [Bool.or_eq_true] at this
        rcases this with h' | h'
        · exact absurd h' hab
        · exact h'
      rw [List.pairwise_cons]
      refine ⟨?_, insertBy_pairwise trans total a l h.2⟩
      intro c hc
      rcases List.mem_cons.1 ((insertBy_perm le a l).mem_iff.1 hc) with rfl | hc
      · exact hba
      · exact h.1 c hc

theorem isort_pairwise (trans : ∀ a b c, le a b = true → le b c = true → le a c = true)
    (total : ∀ a b, (le a b || le b a) = true) :
    ∀ (l : List α), (isort le l).Pairwise (fun x y => le x y = true)
  | [] => List.Pairwise.nil
  | a :: l => insertBy_pairwise le trans total a _ (isort_pairwise trans total l)

/-- on a list where `le` is antisymmetric, merge sort and insertion sort agree -/
theorem mergeSort_eq_isort (trans : ∀ a b c, le a b = true → le b c = true → le a c = true)
    (total : ∀ a b, (le a b || le b a) = true) (l : List α)
    (anti : ∀ a b, a ∈ l → b ∈ l → le a b = true → le b a = true → a = b) :
    l.mergeSort le = isort le l := by
  apply List.Perm.eq_of_pairwise (le := fun x y => le x y = true)
  · intro a b ha hb
    exact anti a b ((List.mergeSort_perm l le).mem_iff.1 ha) ((isort_perm le l).mem_iff.1 hb)
  · exact List.pairwise_mergeSort trans total l
  · exact isort_pairwise le trans total l
  · exact (List.mergeSort_perm l le).trans (isort_perm le l).symm
end

theorem eq_of_key_eq (l : List TItem) (hn : (l.map (·.pathStr)).Nodup) :
    ∀ a b, a ∈ l → b ∈ l → a.pathStr = b.pathStr → a = b := by
  induction l with
  | nil => intro a b ha; cases ha
  | cons x l ih =>
    rw [List.map_cons, List.nodup_cons] at hn
    intro a b ha hb hk
    rcases List.mem_cons.1 ha with ha' | ha'
    · rcases List.mem_cons.1 hb with hb' | hb'
      · rw [ha', hb']
      · subst ha'
        exact (hn.1 (List.mem_map.2 ⟨b, hb', hk.symm⟩)).elim
    · rcases List.mem_cons.1 hb with hb' | hb'
      · subst hb'
        exact (hn.1 (List.mem_map.2 ⟨a, ha', hk⟩)).elim
      · exact ih hn.2 a b ha' hb' hk

/-- the order of the nodes: the insertion sort of the items by their keys -/
theorem sortedItems_eq_isort (rules : List TRule) (fromStr : List String) :
    sortedItems rules fromStr = isort (fun a b => keyLe a.pathStr b.pathStr) (treeItems rules fromStr) := by
  unfold sortedItems
  apply mergeSort_eq_isort
  · exact fun a b c => keyLe_trans a.pathStr b.pathStr c.pathStr
  · exact fun a b => keyLe_total a.pathStr b.pathStr
  · intro a b ha hb h1 h2
    exact eq_of_key_eq _ (treeItems_keys_nodup rules fromStr) a b ha hb (keyLe_antisymm _ _ h1 h2)

/-- `toTreeFlat` with the kernel-evaluable sort -/
def toTreeFlatK (rules : List TRule) (fromStr : List String) (fromLastStr fromLastDisp : Option String) :
    Except Exc (List TItem) := do
  let items := (List.zip (List.range rules.length) rules).foldl (fun acc ir => treeStep fromStr acc ir.1 ir.2) []
  let sorted := isort (fun a b => keyLe a.pathStr b.pathStr) items
  let lst ← assignParents sorted [([], -1)] 0
  match fromLastStr, fromLastDisp with
  | some s, some d =>
      if lst.any (fun i => i.path.isNone) then throw .keyError
      pure (lst.map (fun i => { i with pathStr := s :: i.pathStr, path := i.path.map (d :: ·) }))
  | _, _ => pure lst

theorem toTreeFlat_eq_K (rules : List TRule) (fromStr : List String) (a b : Option String) :
    toTreeFlat rules fromStr a b = toTreeFlatK rules fromStr a b := by
  have := sortedItems_eq_isort rules fromStr
  unfold sortedItems treeItems stepsFrom at this
  unfold toTreeFlat toTreeFlatK
  simp only [this]
  cases a <;> cases b <;> rfl

end ValidaProofs.C20H
