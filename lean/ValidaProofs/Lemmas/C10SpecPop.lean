/-
  ValidaProofs.Lemmas.C10SpecPop — helper lemmas for the C10 headline: `popStr` and the shorthand scan
  on a mapping given up to the order of its entries (`List.Perm`), and which entry names the parser
  can confuse (none: reserved names and the three shorthand prefixes are pairwise apart).
-/
import Valida.Spec.Parse
import Valida.Eq
import ValidaProofs.Lemmas.C10Parse
namespace ValidaProofs.C10S
open Valida ValidaGen

abbrev KV := PyVal × PyVal

/-- the entry's key is the string `name` -/
def keyIs (name : String) (kv : KV) : Bool := PyVal.pyEq (.str name) kv.1

theorem keyIs_str (name k : String) (v : PyVal) : keyIs name (.str k, v) = (name == k) := rfl

theorem popStr_eq (name : String) (s : List KV) :
    popStr name s = ((s.find? (keyIs name)).map (·.2), s.filter (fun kv => !keyIs name kv)) := by
  unfold popStr
  cases h : s.find? (fun kv => PyVal.pyEq (.str name) kv.1) with
  | some kv =>
    have h' : s.find? (keyIs name) = some kv := h
    simp only [h', Option.map_some]
    rfl
  | none =>
    have h' : s.find? (keyIs name) = none := h
    simp only [h', Option.map_none]
    congr 1
    symm
    rw [List.filter_eq_self]
    intro kv hkv
    rw [List.find?_eq_none] at h
    simpa [keyIs] using h kv hkv

/-! ### under a permutation of the entries -/

theorem find?_perm_unique {α : Type} (p : α → Bool) (s rest : List α) (x : α) (h : s.Perm (x :: rest))
    (hx : p x = true) (hr : ∀ y ∈ rest, p y = false) : s.find? p = some x := by
  cases hf : s.find? p with
  | none =>
    rw [List.find?_eq_none] at hf
    exact absurd hx (hf x (h.mem_iff.2 (by simp)))
  | some y =>
    have hy := List.find?_some hf
    have hm := h.mem_iff.1 (List.mem_of_find?_eq_some hf)
    rcases List.mem_cons.1 hm with rfl | hm
    · rfl
    · rw [hr y hm] at hy; cases hy

theorem find?_perm_none {α : Type} (p : α → Bool) (s rest : List α) (h : s.Perm rest)
    (hr : ∀ y ∈ rest, p y = false) : s.find? p = none := by
  rw [List.find?_eq_none]
  intro y hy
  simp [hr y (h.mem_iff.1 hy)]

/-- no entry of the list satisfies `q` -/
def Foreign (q : KV → Bool) (l : List KV) : Prop := ∀ kv ∈ l, q kv = false

theorem foreign_nil (q : KV → Bool) : Foreign q [] := by intro kv h; cases h

theorem foreign_append (q : KV → Bool) (a b : List KV) : Foreign q (a ++ b) ↔ Foreign q a ∧ Foreign q b := by
  simp only [Foreign, List.mem_append]
  exact ⟨fun h => ⟨fun kv hk => h kv (Or.inl hk), fun kv hk => h kv (Or.inr hk)⟩,
    fun h kv hk => hk.elim (h.1 kv) (h.2 kv)⟩

theorem foreign_cons (q : KV → Bool) (a : KV) (b : List KV) : Foreign q (a :: b) ↔ q a = false ∧ Foreign q b := by
  simp only [Foreign, List.mem_cons, forall_eq_or_imp]

theorem foreign_perm (q : KV → Bool) (a b : List KV) (h : a.Perm b) (hb : Foreign q b) : Foreign q a :=
  fun kv hk => hb kv (h.mem_iff.1 hk)

theorem filter_foreign (q : KV → Bool) (l : List KV) (h : Foreign q l) : l.filter (fun kv => !q kv) = l := by
  rw [List.filter_eq_self]; intro kv hk; simp [h kv hk]

theorem filter_foreign_nil (q : KV → Bool) (l : List KV) (h : Foreign q l) : l.filter q = [] := by
  rw [List.filter_eq_nil_iff]; intro kv hk; simp [h kv hk]

/-- the entry `name: x` is present once: it is popped, whatever the order -/
theorem pop_hit (name : String) (x : PyVal) (s rest : List KV) (h : s.Perm ((.str name, x) :: rest))
    (hr : Foreign (keyIs name) rest) : ∃ s', popStr name s = (some x, s') ∧ s'.Perm rest := by
  refine ⟨s.filter (fun kv => !keyIs name kv), ?_, ?_⟩
  · rw [popStr_eq, find?_perm_unique (keyIs name) s rest _ h (by simp [keyIs_str]) hr]
    rfl
  · have := h.filter (fun kv => !keyIs name kv)
    rw [List.filter_cons] at this
    simpa [keyIs_str, filter_foreign _ _ hr] using this

/-- no entry `name: …`: nothing is popped -/
theorem pop_miss (name : String) (s rest : List KV) (h : s.Perm rest) (hr : Foreign (keyIs name) rest) :
    popStr name s = (none, s) := by
  rw [popStr_eq, find?_perm_none (keyIs name) s rest h hr, filter_foreign _ _ (foreign_perm _ _ _ h hr)]
  rfl

def optKv (name : String) (o : Option PyVal) : List KV :=
  match o with
  | some x => [(.str name, x)]
  | none => []

/-- an optional entry -/
theorem pop_opt (name : String) (o : Option PyVal) (s rest : List KV) (h : s.Perm (optKv name o ++ rest))
    (hr : Foreign (keyIs name) rest) : ∃ s', popStr name s = (o, s') ∧ s'.Perm rest := by
  cases o with
  | none => exact ⟨s, pop_miss name s rest h hr, h⟩
  | some x => exact pop_hit name x s rest h hr

/-- at most one shorthand entry of the prefix: it is taken out, whatever the order -/
theorem short_perm (pref : String) (sh s rest : List KV) (h : s.Perm (sh ++ rest)) (hlen : sh.length ≤ 1)
    (hsh : ∀ kv ∈ sh, C10L.hasPref pref kv = true) (hr : Foreign (C10L.hasPref pref) rest) :
    ∃ s', C10L.shortOf pref s = (sh, s') ∧ s'.Perm rest := by
  refine ⟨s.filter (fun kv => !C10L.hasPref pref kv), ?_, ?_⟩
  · unfold C10L.shortOf
    rw [List.partition_eq_filter_filter]
    have h1 := h.filter (C10L.hasPref pref)
    have e : sh.filter (C10L.hasPref pref) = sh := List.filter_eq_self.2 (fun kv hk => hsh kv hk)
    rw [List.filter_append, filter_foreign_nil _ _ hr, List.append_nil, e] at h1
    have : s.filter (C10L.hasPref pref) = sh := by
      match sh, hlen, h1 with
      | [], _, h1 => exact List.perm_nil.1 h1
      | [a], _, h1 => exact List.perm_singleton.1 h1
    rw [this]
    congr 1
  · have h2 := h.filter (fun kv => !C10L.hasPref pref kv)
    rw [List.filter_append, filter_foreign _ _ hr] at h2
    have : sh.filter (fun kv => !C10L.hasPref pref kv) = [] := by
      rw [List.filter_eq_nil_iff]; intro kv hk; simp [hsh kv hk]
    rwa [this, List.nil_append] at h2

/-! ### names: reserved names and shorthand prefixes are apart -/

/-- a name with the prefix `p` is not the name `n`, if `n` does not have the prefix -/
theorem ne_of_prefix (p n k : String) (hk : p.toList.isPrefixOf k.toList = true)
    (hn : p.toList.isPrefixOf n.toList = false) : (n == k) = false := by
  rw [beq_eq_false_iff_ne]
  rintro rfl
  rw [hk] at hn; cases hn

/-- a name cannot have two prefixes that start differently -/
theorem prefix_apart (p p' k : String) (c c' : Char) (hp : p.toList.head? = some c) (hp' : p'.toList.head? = some c')
    (hcc : c ≠ c') (hk : p.toList.isPrefixOf k.toList = true) : p'.toList.isPrefixOf k.toList = false := by
  rw [Bool.eq_false_iff]
  intro hk'
  simp only [List.isPrefixOf_iff_prefix] at hk hk'
  obtain ⟨t, ht⟩ := hk
  obtain ⟨t', ht'⟩ := hk'
  cases hpl : p.toList with
  | nil => rw [hpl] at hp; cases hp
  | cons a as =>
    cases hpl' : p'.toList with
    | nil => rw [hpl'] at hp'; cases hp'
    | cons a' as' =>
      rw [hpl] at hp ht; rw [hpl'] at hp' ht'
      simp only [List.head?_cons, Option.some.injEq] at hp hp'
      rw [← ht'] at ht
      simp only [List.cons_append, List.cons.injEq] at ht
      exact hcc (hp ▸ hp' ▸ ht.1)

end ValidaProofs.C10S
