/-
  ValidaProofs.Lemmas.C05Rule — helper lemmas for C05: filtering `(value, path)` pairs with paths is
  filtering the plain values; failure reasons; the verdict of `ruleTestOn`.
-/
import Valida.Rule
import ValidaProofs.Lemmas.Basic
import ValidaProofs.Lemmas.DataGuard
import ValidaProofs.Lemmas.C02Tree
namespace ValidaProofs.C05L
open Valida ValidaGen

/-- the selection as wrapped data (`pairData` of C05) -/
def pairD (sub : List (PyVal × PyVal)) : DataV :=
  { isList := true, keys := rangeVals sub.length, values := sub.map (fun vp => PyVal.tuple [vp.1, vp.2]) }

/-- the selection with the paths stripped (`plainData` of C05) -/
def plainD (sub : List (PyVal × PyVal)) : DataV :=
  { isList := true, keys := rangeVals sub.length, values := sub.map (·.1) }

/-! ### `mapM` -/

theorem mapM_ok_of_forall {ε α β : Type} (f : α → Except ε β) (g : α → β) (xs : List α)
    (h : ∀ x ∈ xs, f x = .ok (g x)) : xs.mapM f = .ok (xs.map g) := by
  induction xs with
  | nil => rfl
  | cons x xs ih =>
    rw [List.mapM_cons, h x (by simp), ih (fun y hy => h y (by simp [hy]))]
    rfl

/-- every result of a successful `mapM` comes from an element, position by position -/
theorem mapM_ok_getElem? {ε α β : Type} (f : α → Except ε β) :
    ∀ (xs : List α) (ys : List β), xs.mapM f = .ok ys →
      ∀ (j : Nat) (y : β), ys[j]? = some y → ∃ x, xs[j]? = some x ∧ f x = .ok y := by
  intro xs
  induction xs with
  | nil =>
    intro ys h j y hy
    simp [pure, Except.pure] at h
    subst h; simp at hy
  | cons x xs ih =>
    intro ys h j y hy
    rw [List.mapM_cons] at h
    cases hx : f x with
    | error e => simp [hx, bind, Except.bind] at h
    | ok b =>
      cases hxs : xs.mapM f with
      | error e => simp [hx, hxs, bind, Except.bind] at h
      | ok bs =>
        simp [hx, hxs, bind, Except.bind, pure, Except.pure] at h
        subst h
        cases j with
        | zero => simp at hy; subst hy; exact ⟨x, rfl, hx⟩
        | succ j => simpa using ih bs hxs j y (by simpa using hy)

theorem mapM_ok_map_eq {ε α β : Type} (f : α → Except ε β) (g : β → α) (xs : List α) (ys : List β)
    (h : xs.mapM f = .ok ys) (hg : ∀ x y, f x = .ok y → g y = x) : ys.map g = xs := by
  induction xs generalizing ys with
  | nil => simp [pure, Except.pure] at h; subst h; rfl
  | cons x xs ih =>
    rw [List.mapM_cons] at h
    cases hx : f x with
    | error e => simp [hx, bind, Except.bind] at h
    | ok b =>
      cases hxs : xs.mapM f with
      | error e => simp [hx, hxs, bind, Except.bind] at h
      | ok bs =>
        simp [hx, hxs, bind, Except.bind, pure, Except.pure] at h
        subst h
        simp [hg x b hx, ih bs hxs]

/-! ### filtering pairs -/

theorem unpack2_pairs (sub : List (PyVal × PyVal)) :
    (sub.map (fun vp => PyVal.tuple [vp.1, vp.2])).mapM unpack2 = .ok (sub.map (·.1)) := by
  have := mapM_ok_of_forall unpack2 (fun x => match x with | .tuple [a, _] => a | _ => .none)
    (sub.map (fun vp => PyVal.tuple [vp.1, vp.2])) (by
      intro x hx
      obtain ⟨vp, _, rfl⟩ := List.mem_map.1 hx
      rfl)
  rw [this, List.map_map]
  rfl

theorem mapM_pairs_snd (f : PyVal → Except Exc PyVal) (hf : ∀ v p, f (.tuple [v, p]) = .ok p)
    (sub : List (PyVal × PyVal)) :
    (sub.map (fun vp => PyVal.tuple [vp.1, vp.2])).mapM f = .ok (sub.map (·.2)) := by
  induction sub with
  | nil => rfl
  | cons x xs ih => rw [List.map_cons, List.mapM_cons, hf, ih]; rfl

theorem extractPaths_pairD (sub : List (PyVal × PyVal)) :
    extractPaths (pairD sub) = .ok (plainD sub, sub.map (·.2)) := by
  simp only [extractPaths, pairD, unpack2_pairs, bind, Except.bind, pure, Except.pure]
  rw [mapM_pairs_snd _ (fun _ _ => rfl)]
  rfl

theorem filterAux_leaf_pairs (l : Leaf RArg) (sub : List (PyVal × PyVal))
    (hv : (l.cls.info.map (·.readsKeys)) = .ok false) :
    filterAux (.leaf l) (pairD sub) true =
      (filterAux (.leaf l) (plainD sub) false).map (fun r => (r.1, plainD sub, some (sub.map (·.2)))) := by
  cases hi : l.cls.info with
  | error e => rw [hi] at hv; cases hv
  | ok info =>
    rw [hi] at hv
    have hr : info.readsKeys = false := by simpa [Except.map] using hv
    simp only [filterAux, hi, hr, bind, Except.bind, pure, Except.pure, Bool.false_eq_true, if_false,
      if_true, extractPaths_pairD]
    simp only [pairD, plainD, unpack2_pairs]
    cases (sub.map (·.1)).mapM (evalItem info.pre l.fn l.args l.kwargs) <;> rfl

theorem filterAux_pairs (c : Cond RArg) (sub : List (PyVal × PyVal))
    (hv : ∀ l ∈ c.leaves, (l.cls.info.map (·.readsKeys)) = .ok false) :
    filterAux c (pairD sub) true =
      (filterAux c (plainD sub) false).map (fun r => (r.1, plainD sub, some (sub.map (·.2)))) := by
  induction c with
  | leaf l => exact filterAux_leaf_pairs l sub (hv l (by simp [Cond.leaves]))
  | bin op a b iha _ =>
    have ha := iha (fun l hl => hv l (by simp [Cond.leaves, hl]))
    rw [filterAux_bin, filterAux_bin, ha]
    cases hfa : filterAux a (plainD sub) false with
    | error e => rfl
    | ok ra =>
      obtain ⟨fa, d1, pa⟩ := ra
      obtain ⟨rfl, rfl⟩ := filterAux_frame _ _ _ _ _ hfa
      simp only [Except.map]
      cases hfb : filterAux b (plainD sub) false with
      | error e => rfl
      | ok rb =>
        obtain ⟨fb, d2, pb⟩ := rb
        obtain ⟨rfl, rfl⟩ := filterAux_frame _ _ _ _ _ hfb
        rfl

/-! ### reasons -/

theorem pick_ne_nil_of_result (f : ItemFlags) (h : f.result = false) :
    FD.pick f.preErr f.cErr f.cFalse ≠ [] := by
  obtain ⟨p, c, k⟩ := f
  cases p <;> cases c <;> cases k <;> simp_all [ItemFlags.result, FD.pick]

theorem pick_true_ne_nil (p c : Bool) : FD.pick p c true ≠ [] := by
  cases p <;> cases c <;> simp [FD.pick]

theorem reasonsAt_ne_nil (fd : FD) (i : Nat) (hi : fd.result[i]? = some false) : fd.reasonsAt i ≠ [] := by
  induction fd with
  | leaf cls fn flags =>
    simp only [FD.result, List.getElem?_map, Option.map_eq_some_iff] at hi
    obtain ⟨f, hf, hr⟩ := hi
    simp only [FD.reasonsAt, hf]
    exact pick_ne_nil_of_result f hr
  | bin op a b iha ihb =>
    have hi' := hi
    simp only [FD.result, List.getElem?_zipWith] at hi
    cases hx : a.result[i]? with
    | none => simp [hx] at hi
    | some x =>
      cases hy : b.result[i]? with
      | none => simp [hx, hy] at hi
      | some y =>
        simp [hx, hy] at hi
        cases op with
        | and =>
          simp only [BinOp.apply, Bool.and_eq_false_iff] at hi
          rcases hi with rfl | rfl
          · simp [FD.reasonsAt, iha hx]
          · simp [FD.reasonsAt, ihb hy]
        | or =>
          simp only [BinOp.apply, Bool.or_eq_false_iff] at hi
          obtain ⟨rfl, rfl⟩ := hi
          simp [FD.reasonsAt, iha hx]
        | xor =>
          have hc : (FD.bin .xor a b).cFalse.getD i false = true := by
            simp [FD.cFalse, List.getD, List.getElem?_map, hi']
          simp only [FD.reasonsAt, hc]
          have := pick_true_ne_nil ((FD.bin .xor a b).preErr.getD i false) ((FD.bin .xor a b).cErr.getD i false)
          intro h
          have h2 := (List.append_eq_nil_iff.1 h).2
          exact this (by simpa using h2)

/-! ### failure indices -/

theorem length_failureIndices (res : List Bool) :
    (failureIndices res).length = (res.filter (!·)).length := by
  unfold failureIndices
  simp only [List.getD_eq_getElem?_getD]
  induction res with
  | nil => rfl
  | cons x xs ih =>
    rw [List.length_cons, List.range_succ_eq_map, List.filter_cons, List.filter_map]
    have : ((fun i => !(x :: xs)[i]?.getD true) ∘ Nat.succ) = (fun i => !xs[i]?.getD true) := by
      funext i; simp
    rw [this]
    cases x <;> simp [ih]

theorem failureIndices_mem_false (res : List Bool) (i : Nat) (h : i ∈ failureIndices res) :
    res[i]? = some false := by
  simp only [failureIndices, List.mem_filter, List.mem_range] at h
  obtain ⟨hlt, hb⟩ := h
  simp only [List.getD, List.getElem?_eq_getElem hlt, Option.getD_some] at hb
  rw [List.getElem?_eq_getElem hlt]
  simpa using hb

theorem failureIndices_eq_nil (res : List Bool) (h : res.all id = true) : failureIndices res = [] := by
  simp only [failureIndices, List.filter_eq_nil_iff, List.mem_range]
  intro i hi
  have : res[i] = true := by
    have := List.all_eq_true.1 h res[i] (List.getElem_mem hi)
    simpa using this
  simp [List.getD, List.getElem?_eq_getElem hi, this]

theorem filter_not_eq_nil (res : List Bool) (h : res.all id = true) : res.filter (!·) = [] := by
  simp only [List.filter_eq_nil_iff]
  intro b hb
  have := List.all_eq_true.1 h b hb
  simpa using this

theorem length_rangeVals (n : Nat) : (rangeVals n).length = n := by simp [rangeVals]

theorem plainD_lengths (sub : List (PyVal × PyVal)) :
    (plainD sub).keys.length = (plainD sub).values.length := by
  simp [plainD, length_rangeVals]

/-! ### the verdict -/

theorem ruleTestOn_untested (r : RuleM) (doc : PyVal) (d : DataV) (hdoc : DataV.ofPy doc = .ok d)
    (h : selection r.path doc = .ok none) :
    ruleTestOn r doc = .ok { tested := false, isValid := true, failures := [], data := doc } := by
  simp [ruleTestOn, hdoc, h, bind, Except.bind, pure, Except.pure]

theorem ruleTestOn_verdict (r : RuleM) (doc : PyVal) (t : RuleTestR) (sub : List (PyVal × PyVal))
    (hsel : selection r.path doc = .ok (some (sub.map (fun vp => PyVal.tuple [vp.1, vp.2]))))
    (hne : sub ≠ [])
    (hv : ∀ l ∈ (r.cond.resolve (some doc)).leaves, (l.cls.info.map (·.readsKeys)) = .ok false)
    (h : ruleTestOn r doc = .ok t) :
    ∃ fd, filterAux (r.cond.resolve (some doc)) (plainD sub) false = .ok (fd, plainD sub, none) ∧
      t.tested = true ∧
      t.isValid = fd.result.all id ∧
      t.failures.map (·.index) = failureIndices fd.result ∧
      (∀ f ∈ t.failures, sub[f.index]? = some (f.value, f.path) ∧ f.reasons ≠ [] ∧ fd.result[f.index]? = some false) ∧
      t.failures.length = (fd.result.filter (!·)).length := by
  have hd : DataV.ofPy (.list (sub.map (fun vp => PyVal.tuple [vp.1, vp.2]))) = .ok (pairD sub) := by
    cases sub with
    | nil => exact absurd rfl hne
    | cons x xs => simp [DataV.ofPy_list, pairD]
  unfold ruleTestOn at h
  simp only [bind, Except.bind, pure, Except.pure, hsel, hd, filterAux_pairs _ sub hv] at h
  split at h
  · cases h
  split at h
  · cases h
  cases hf : filterAux (r.cond.resolve (some doc)) (plainD sub) false with
  | error e => simp [hf, Except.map] at h
  | ok res =>
    obtain ⟨fd, d', p⟩ := res
    obtain ⟨rfl, rfl⟩ := filterAux_frame _ _ _ _ _ hf
    refine ⟨fd, rfl, ?_⟩
    simp only [hf, Except.map] at h
    split at h
    · rename_i hall
      cases h
      simp [hall, failureIndices_eq_nil _ hall, filter_not_eq_nil _ hall]
    · rename_i hall
      split at h
      · cases h
      · rename_i fails hm
        cases h
        have hone : ∀ i f,
            (match (plainD sub).values[i]?, (List.map (fun x => x.snd) sub)[i]? with
              | some v, some p => Except.ok { index := i, value := v, path := p, reasons := FD.reasonsAt i fd : Failure }
              | _, _ => throw Exc.indexError) = Except.ok f →
            f.index = i ∧ sub[i]? = some (f.value, f.path) ∧ f.reasons = fd.reasonsAt i := by
          intro i f hF
          split at hF
          · rename_i v p hv' hp'
            cases hF
            simp only [plainD, List.getElem?_map, Option.map_eq_some_iff] at hv' hp'
            obtain ⟨x, hx, rfl⟩ := hv'
            obtain ⟨y, hy, rfl⟩ := hp'
            rw [hx] at hy; cases hy
            exact ⟨rfl, hx, rfl⟩
          · cases hF
        refine ⟨rfl, ?_, ?_, ?_, ?_⟩
        · simp [hall]
        · exact mapM_ok_map_eq _ (·.index) _ _ hm (fun i f hF => (hone i f hF).1)
        · intro f hfm
          obtain ⟨j, hj⟩ := List.getElem?_of_mem hfm
          obtain ⟨i, hi, hF⟩ := mapM_ok_getElem? _ _ _ hm j f hj
          obtain ⟨h1, h2, h3⟩ := hone i f hF
          have hmem : i ∈ failureIndices fd.result := List.mem_of_getElem? hi
          have hres := failureIndices_mem_false _ _ hmem
          rw [h1, h3]
          exact ⟨h2, reasonsAt_ne_nil fd i hres, hres⟩
        · rw [mapM_except_length _ _ _ hm, length_failureIndices]

end ValidaProofs.C05L
