/-
  ValidaProofs.Lemmas.C03Prim — primitive path parts: what `Part.ofPrim` builds and what one step
  with such a part selects.
-/
import ValidaProofs.Lemmas.C03Step
namespace ValidaProofs.C03
open Valida ValidaGen ValidaSpec

/-! ### what the constructor builds (evaluates `containerCond`, `Cond.mkBin`, the class table) -/

/-- `MapValue(v)` -/
def keyPart (v : PyVal) : Part :=
  { kind := .map, cond := eqLeaf .key v, listCond := Cond.null, mapCond := Cond.null, label := none }

/-- `MapOrListValue(key=v, index=v)` -/
def keyOrIndexPart (v : PyVal) : Part :=
  { kind := .molv, cond := Cond.null, listCond := eqLeaf .index v, mapCond := eqLeaf .key v, label := none }

theorem ofPrim_str (s : String) : Part.ofPrim (.str s) = .ok (keyPart (.str s)) := rfl
theorem ofPrim_float (k : Int) : Part.ofPrim (.float k) = .ok (keyPart (.float k)) := rfl
theorem ofPrim_int (n : Int) : Part.ofPrim (.int n) = .ok (keyOrIndexPart (.int n)) := rfl
theorem ofPrim_bool (b : Bool) : Part.ofPrim (.bool b) = .ok (keyOrIndexPart (.bool b)) := rfl

theorem ofPrim_other (v : PyVal)
    (h : (∀ s, v ≠ .str s) ∧ (∀ k, v ≠ .float k) ∧ (∀ n, v ≠ .int n) ∧ (∀ b, v ≠ .bool b)) :
    Part.ofPrim v = .error .typeError := by
  obtain ⟨h1, h2, h3, h4⟩ := h
  cases v with
  | str s => exact absurd rfl (h1 s)
  | float k => exact absurd rfl (h2 k)
  | int n => exact absurd rfl (h3 n)
  | bool b => exact absurd rfl (h4 b)
  | _ => rfl

/-! ### filtering with `cls.equal_to(v)` -/

theorem mapM_ok {α β : Type} (f : α → Except Exc β) (g : α → β) (hf : ∀ x, f x = .ok (g x)) (xs : List α) :
    xs.mapM f = .ok (xs.map g) := by
  induction xs with
  | nil => rfl
  | cons x xs ih => simp [List.mapM_cons, ih, hf, bind, Except.bind, pure, Except.pure]

theorem evalItem_equal_to (v k : PyVal) :
    evalItem "" "equal_to" [] [("value", .ok v)] k = .ok ⟨false, false, !PyVal.pyEq k v⟩ := rfl

theorem filterData_key_eq (v : PyVal) (d : DataV) (hl : d.isList = false) :
    filterData (eqLeaf .key v).lit d =
      .ok (.leaf .key "equal_to" (d.keys.map (fun k => ⟨false, false, !PyVal.pyEq k v⟩))) := by
  have hk : kindCheck (eqLeaf .key v).lit d = .ok () := by
    simp [kindCheck, eqLeaf, Cond.lit, Cond.mapArgs, hl]
    decide
  have hi : CClass.info .key = .ok ⟨"Key", "key", true, "", true, true, "key"⟩ := rfl
  simp only [filterData, bind, Except.bind, hk]
  simp only [eqLeaf, Cond.lit, Cond.mapArgs, filterAux, bind, Except.bind, hi, List.map_nil, List.map_cons,
    Bool.false_and, Bool.false_eq_true, if_false, if_true, pure, Except.pure]
  rw [mapM_ok _ _ (evalItem_equal_to v)]

theorem filterData_index_eq (v : PyVal) (d : DataV) (hl : d.isList = true) :
    filterData (eqLeaf .index v).lit d =
      .ok (.leaf .index "equal_to" (d.keys.map (fun k => ⟨false, false, !PyVal.pyEq k v⟩))) := by
  have hk : kindCheck (eqLeaf .index v).lit d = .ok () := by
    simp [kindCheck, eqLeaf, Cond.lit, Cond.mapArgs, hl]
    decide
  have hi : CClass.info .index = .ok ⟨"Index", "index", true, "", true, false, "index"⟩ := rfl
  simp only [filterData, bind, Except.bind, hk]
  simp only [eqLeaf, Cond.lit, Cond.mapArgs, filterAux, bind, Except.bind, hi, List.map_nil, List.map_cons,
    Bool.false_and, Bool.false_eq_true, if_false, if_true, pure, Except.pure]
  rw [mapM_ok _ _ (evalItem_equal_to v)]

theorem result_eq_flags (cls : CClass) (fn : String) (ks : List PyVal) (v : PyVal) :
    (FD.leaf cls fn (ks.map (fun k => (⟨false, false, !PyVal.pyEq k v⟩ : ItemFlags)))).result =
      ks.map (fun k => PyVal.pyEq k v) := by
  simp [FD.result, ItemFlags.result]

/-- selecting with a result computed from the keys is filtering the items by key -/
theorem select_by_key (d : DataV) (v : PyVal) :
    (pickBy (d.keys.map (fun k => PyVal.pyEq k v)) d.keys).zip
        (pickBy (d.keys.map (fun k => PyVal.pyEq k v)) d.values) =
      (d.keys.zip d.values).filter (fun kv => PyVal.pyEq kv.1 v) := by
  rw [pickBy_zip, filterMap_sel_keys]

/-! ### one step with a primitive part -/

theorem ofPy_dict (kvs : List (PyVal × PyVal)) (hne : kvs ≠ []) :
    DataV.ofPy (.dict kvs) = .ok ⟨false, kvs.map (·.1), kvs.map (·.2)⟩ := by
  cases kvs with
  | nil => exact absurd rfl hne
  | cons x xs => rfl

theorem ofPy_list (xs : List PyVal) (hne : xs ≠ []) :
    DataV.ofPy (.list xs) = .ok ⟨true, rangeVals xs.length, xs⟩ := by
  cases xs with
  | nil => exact absurd rfl hne
  | cons x xs => rfl

theorem stepNode_keyPart_dict (v : PyVal) (kvs : List (PyVal × PyVal)) :
    stepNode (keyPart v) (.dict kvs) = .ok (kvs.filter (fun kv => PyVal.pyEq kv.1 v)) := by
  by_cases hne : kvs = []
  · subst hne
    exact stepNode_of_filter_typeError _ _ (filter_of_ofPy_error _ _ _ rfl)
  · have hf : (keyPart v).filter (.dict kvs) =
        .ok (.leaf .key "equal_to" ((kvs.map (·.1)).map (fun k => ⟨false, false, !PyVal.pyEq k v⟩)),
             ⟨false, kvs.map (·.1), kvs.map (·.2)⟩) := by
      rw [Part.filter_eq, ofPy_dict kvs hne]
      simp [keyPart, filterWith, filterData_key_eq]
    unfold stepNode
    rw [hf]
    simp only [result_eq_flags]
    rw [select_by_key ⟨false, kvs.map (·.1), kvs.map (·.2)⟩ v]
    simp [zip_map_fst_snd']

theorem stepNode_keyPart_list (v : PyVal) (xs : List PyVal) :
    stepNode (keyPart v) (.list xs) = .ok [] := by
  apply stepNode_of_filter_typeError
  by_cases hne : xs = []
  · subst hne
    exact filter_of_ofPy_error _ _ _ rfl
  · rw [Part.filter_eq, ofPy_list xs hne]
    simp [keyPart]

theorem stepNode_keyOrIndexPart_dict (v : PyVal) (kvs : List (PyVal × PyVal)) :
    stepNode (keyOrIndexPart v) (.dict kvs) = .ok (kvs.filter (fun kv => PyVal.pyEq kv.1 v)) := by
  by_cases hne : kvs = []
  · subst hne
    exact stepNode_of_filter_typeError _ _ (filter_of_ofPy_error _ _ _ rfl)
  · have hb : Cond.mkBin BinOp.and (eqLeaf .key v) (Cond.null : Cond PyVal) = .ok (eqLeaf .key v) := rfl
    have hf : (keyOrIndexPart v).filter (.dict kvs) =
        .ok (.leaf .key "equal_to" ((kvs.map (·.1)).map (fun k => ⟨false, false, !PyVal.pyEq k v⟩)),
             ⟨false, kvs.map (·.1), kvs.map (·.2)⟩) := by
      rw [Part.filter_eq, ofPy_dict kvs hne]
      simp [keyOrIndexPart, hb, filterWith, filterData_key_eq]
    unfold stepNode
    rw [hf]
    simp only [result_eq_flags]
    rw [select_by_key ⟨false, kvs.map (·.1), kvs.map (·.2)⟩ v]
    simp [zip_map_fst_snd']

theorem stepNode_keyOrIndexPart_list (v : PyVal) (xs : List PyVal) :
    stepNode (keyOrIndexPart v) (.list xs) =
      .ok (((rangeVals xs.length).zip xs).filter (fun kv => PyVal.pyEq kv.1 v)) := by
  by_cases hne : xs = []
  · subst hne
    exact stepNode_of_filter_typeError _ _ (filter_of_ofPy_error _ _ _ rfl)
  · have hb : Cond.mkBin BinOp.and (eqLeaf .index v) (Cond.null : Cond PyVal) = .ok (eqLeaf .index v) := rfl
    have hf : (keyOrIndexPart v).filter (.list xs) =
        .ok (.leaf .index "equal_to" ((rangeVals xs.length).map (fun k => ⟨false, false, !PyVal.pyEq k v⟩)),
             ⟨true, rangeVals xs.length, xs⟩) := by
      rw [Part.filter_eq, ofPy_list xs hne]
      simp [keyOrIndexPart, hb, filterWith, filterData_index_eq]
    unfold stepNode
    rw [hf]
    simp only [result_eq_flags]
    rw [select_by_key ⟨true, rangeVals xs.length, xs⟩ v]

/-! ### a primitive part matches at most one child of a mapping with distinct keys -/

/-- the values a primitive path part can be -/
def isPrim : PyVal → Bool
  | .str _ | .float _ | .int _ | .bool _ => true
  | _ => false

theorem pyEq_prim_right (a v : PyVal) (hv : isPrim v = true) : PyVal.pyEq a v = PyVal.atomEq a v := by
  cases v <;> simp [isPrim] at hv <;> cases a <;> simp [PyVal.pyEq]

theorem atomEq_euclid_prim (a b v : PyVal) (hv : isPrim v = true) (ha : PyVal.atomEq a v = true)
    (hb : PyVal.atomEq b v = true) : PyVal.pyEq a b = true := by
  cases v <;> simp [isPrim] at hv <;> cases a <;> simp [PyVal.atomEq, PyVal.numKey] at ha <;>
    cases b <;> simp [PyVal.atomEq, PyVal.numKey] at hb <;>
    simp [PyVal.pyEq, PyVal.atomEq, PyVal.numKey] <;> simp_all

/-- two keys equal to the same primitive are equal to each other -/
theorem pyEq_euclid_prim (a b v : PyVal) (hv : isPrim v = true) (ha : PyVal.pyEq a v = true)
    (hb : PyVal.pyEq b v = true) : PyVal.pyEq a b = true := by
  rw [pyEq_prim_right _ _ hv] at ha hb
  exact atomEq_euclid_prim a b v hv ha hb

theorem filter_length_le_one {α : Type} (R : α → α → Prop) (P : α → Bool) (l : List α)
    (hp : l.Pairwise R) (hR : ∀ a b, P a = true → P b = true → ¬ R a b) : (l.filter P).length ≤ 1 := by
  induction l with
  | nil => simp
  | cons x l ih =>
    rw [List.pairwise_cons] at hp
    cases hx : P x with
    | false => simpa [List.filter_cons, hx] using ih hp.2
    | true =>
      have : l.filter P = [] := by
        rw [List.filter_eq_nil_iff]
        intro b hb hpb
        exact hR x b hx hpb (hp.1 b hb)
      simp [hx, this]

theorem filter_key_prim_le_one (v : PyVal) (hv : isPrim v = true) (kvs : List (PyVal × PyVal))
    (hd : DistinctKeys kvs) : (kvs.filter (fun kv => PyVal.pyEq kv.1 v)).length ≤ 1 := by
  apply filter_length_le_one _ _ kvs hd
  intro a b ha hb hab
  have := pyEq_euclid_prim a.1 b.1 v hv ha hb
  simp [this] at hab

theorem ofPrim_cases (v : PyVal) (p : Part) (hp : Part.ofPrim v = .ok p) :
    isPrim v = true ∧ (p = keyPart v ∨ p = keyOrIndexPart v) := by
  cases v with
  | str s => rw [ofPrim_str] at hp; cases hp; exact ⟨rfl, Or.inl rfl⟩
  | float k => rw [ofPrim_float] at hp; cases hp; exact ⟨rfl, Or.inl rfl⟩
  | int n => rw [ofPrim_int] at hp; cases hp; exact ⟨rfl, Or.inr rfl⟩
  | bool b => rw [ofPrim_bool] at hp; cases hp; exact ⟨rfl, Or.inr rfl⟩
  | _ => simp [Part.ofPrim, primCoercions, primCoercionElse, PyVal.instOf, PyVal.typeOf] at hp

end ValidaProofs.C03
