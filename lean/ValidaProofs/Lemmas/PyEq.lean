/-
  ValidaProofs.Lemmas.PyEq — facts about Python `==` on the value domain: it is an equivalence on
  hashable values (it is not on arbitrary association lists with duplicate keys).
-/
import ValidaProofs.Lemmas.Basic
namespace ValidaProofs
open Valida
open PyVal (pyEq pyEqL pyEqD numKey scale hashable hashableL atomEq)

/-- neither a list, a tuple nor a mapping -/
def NonContainer : PyVal → Prop
  | .list _ | .tuple _ | .dict _ => False
  | _ => True

theorem pyEq_atom_left (x y : PyVal) (hx : NonContainer x) : pyEq x y = atomEq x y := by
  cases x <;> first | exact hx.elim | (cases y <;> simp only [pyEq])

theorem pyEq_atom_right (x y : PyVal) (hy : NonContainer y) : pyEq x y = atomEq x y := by
  cases y <;> first | exact hy.elim | (cases x <;> simp only [pyEq])

theorem pyEq_int_right (x : PyVal) (n : Int) : pyEq x (.int n) = atomEq x (.int n) :=
  pyEq_atom_right x _ trivial

/-- the key under which `atomEq` compares: numbers by value, the other atoms by themselves -/
inductive AKey
  | num (k : Int) | none | str (s : String) | type (t : PyType) | obj (n : Nat)
  deriving DecidableEq

def akey : PyVal → Option AKey
  | .none => some .none
  | .bool b => some (.num (if b then scale else 0))
  | .int n => some (.num (n * scale))
  | .float k => some (.num k)
  | .str s => some (.str s)
  | .type t => some (.type t)
  | .obj n => some (.obj n)
  | _ => Option.none

theorem atomEq_iff (x y : PyVal) : atomEq x y = true ↔ ∃ k, akey x = some k ∧ akey y = some k := by
  cases x <;> cases y <;> simp [atomEq, numKey, akey] <;> exact eq_comm

theorem atomEq_symm (x y : PyVal) : atomEq x y = atomEq y x := by
  rw [Bool.eq_iff_iff, atomEq_iff, atomEq_iff]
  constructor <;> (rintro ⟨k, h1, h2⟩; exact ⟨k, h2, h1⟩)

theorem atomEq_trans {x y z : PyVal} (h1 : atomEq x y = true) (h2 : atomEq y z = true) :
    atomEq x z = true := by
  rw [atomEq_iff] at *
  obtain ⟨k, hx, hy⟩ := h1
  obtain ⟨k', hy', hz⟩ := h2
  rw [hy] at hy'; cases hy'
  exact ⟨k, hx, hz⟩

theorem nonContainer_of_atomEq_left {x y : PyVal} (h : atomEq x y = true) : NonContainer x := by
  rw [atomEq_iff] at h
  obtain ⟨k, hx, _⟩ := h
  cases x <;> first | trivial | simp [akey] at hx

theorem nonContainer_of_hashable {x : PyVal} (h : hashable x = true) (ht : ∀ xs, x ≠ .tuple xs) :
    NonContainer x := by
  cases x <;> first | trivial | exact absurd rfl (ht _) | simp [hashable] at h

theorem pyEq_tuple_right {x : PyVal} {ys : List PyVal} (h : pyEq x (.tuple ys) = true) :
    ∃ xs, x = .tuple xs ∧ pyEqL xs ys = true := by
  cases x <;> simp [pyEq, atomEq, numKey] at h
  exact ⟨_, rfl, h⟩

theorem pyEq_tuple_left {xs : List PyVal} {y : PyVal} (h : pyEq (.tuple xs) y = true) :
    ∃ ys, y = .tuple ys ∧ pyEqL xs ys = true := by
  cases y <;> simp [pyEq, atomEq, numKey] at h
  exact ⟨_, rfl, h⟩

mutual
theorem pyEq_refl (x : PyVal) (h : hashable x = true) : pyEq x x = true := by
  cases x with
  | tuple xs => simp only [pyEq]; exact pyEqL_refl xs (by simpa [hashable] using h)
  | list _ => simp [hashable] at h
  | dict _ => simp [hashable] at h
  | obj _ => simp [hashable] at h
  | _ => simp [pyEq, atomEq, numKey]
termination_by structural x
theorem pyEqL_refl (xs : List PyVal) (h : hashableL xs = true) : pyEqL xs xs = true := by
  cases xs with
  | nil => simp [pyEqL]
  | cons x xs =>
    simp only [hashableL, Bool.and_eq_true] at h
    simp only [pyEqL, Bool.and_eq_true]
    exact ⟨pyEq_refl x h.1, pyEqL_refl xs h.2⟩
termination_by structural xs
end

mutual
theorem pyEq_symm (x y : PyVal) (h : hashable x = true) : pyEq x y = pyEq y x := by
  have key : NonContainer x → pyEq x y = pyEq y x := fun hx => by
    rw [pyEq_atom_left x y hx, pyEq_atom_right y x hx, atomEq_symm]
  cases x with
  | tuple xs =>
    cases y with
    | tuple ys => simp only [pyEq]; exact pyEqL_symm xs ys (by simpa [hashable] using h)
    | _ => simp [pyEq, atomEq, numKey]
  | list _ => simp [hashable] at h
  | dict _ => simp [hashable] at h
  | obj _ => simp [hashable] at h
  | _ => exact key trivial
termination_by structural x
theorem pyEqL_symm (xs ys : List PyVal) (h : hashableL xs = true) : pyEqL xs ys = pyEqL ys xs := by
  cases xs with
  | nil => cases ys <;> simp [pyEqL]
  | cons x xs =>
    cases ys with
    | nil => simp [pyEqL]
    | cons y ys =>
      simp only [hashableL, Bool.and_eq_true] at h
      simp only [pyEqL]
      rw [pyEq_symm x y h.1, pyEqL_symm xs ys h.2]
termination_by structural xs
end

mutual
theorem pyEq_trans (x y z : PyVal) (hy : hashable y = true)
    (h1 : pyEq x y = true) (h2 : pyEq y z = true) : pyEq x z = true := by
  have key : NonContainer y → pyEq x z = true := fun hy' => by
    rw [pyEq_atom_right _ _ hy'] at h1
    rw [pyEq_atom_left _ _ hy'] at h2
    rw [pyEq_atom_left _ _ (nonContainer_of_atomEq_left h1)]
    exact atomEq_trans h1 h2
  cases y with
  | tuple ys =>
    obtain ⟨xs, rfl, hxs⟩ := pyEq_tuple_right h1
    obtain ⟨zs, rfl, hzs⟩ := pyEq_tuple_left h2
    simp only [pyEq]
    exact pyEqL_trans xs ys zs (by simpa [hashable] using hy) hxs hzs
  | list _ => simp [hashable] at hy
  | dict _ => simp [hashable] at hy
  | obj _ => simp [hashable] at hy
  | _ => exact key trivial
termination_by structural y
theorem pyEqL_trans (xs ys zs : List PyVal) (hy : hashableL ys = true)
    (h1 : pyEqL xs ys = true) (h2 : pyEqL ys zs = true) : pyEqL xs zs = true := by
  cases ys with
  | nil =>
    cases xs with
    | nil => exact h2
    | cons => simp [pyEqL] at h1
  | cons y ys =>
    cases xs with
    | nil => simp [pyEqL] at h1
    | cons x xs =>
      cases zs with
      | nil => simp [pyEqL] at h2
      | cons z zs =>
        simp only [hashableL, Bool.and_eq_true] at hy
        simp only [pyEqL, Bool.and_eq_true] at h1 h2 ⊢
        exact ⟨pyEq_trans x y z hy.1 h1.1 h2.1, pyEqL_trans xs ys zs hy.2 h1.2 h2.2⟩
termination_by structural ys
end

end ValidaProofs
