/-
  ValidaProofs.Lemmas.C10SpecPath — helper lemmas for the C10 headline: `DataPath.from_part_specs` on
  primitives and mappings against `DataPath(...)` on the primitives and the API parts; the modifier
  methods; equality of the rebuilt path / rule with the API object.
-/
import Valida.Spec.Parse
import Valida.Eq
import ValidaProofs.Lemmas.C10Parse
import ValidaProofs.Lemmas.C10Path
import ValidaProofs.Lemmas.C10SpecApi
namespace ValidaProofs.C10S
open Valida ValidaGen

/-- two lists related element by element -/
inductive All2 {α β : Type} (R : α → β → Prop) : List α → List β → Prop
  | nil : All2 R [] []
  | cons {a : α} {b : β} {as : List α} {bs : List β} (h : R a b) (t : All2 R as bs) : All2 R (a :: as) (b :: bs)

/-- a part spec and the argument handed to `DataPath(...)` in the API: the primitive itself, or – for a
    mapping – a part object that is the same as the parsed one -/
inductive ArgRel (fuel : Nat) : PyVal → PartArg → Prop
  | prim (v : PyVal) (h : ∀ kvs, v ≠ .dict kvs) : ArgRel fuel v (.prim v)
  | part (kvs : List KV) (p q : Part) (hp : parsePart fuel kvs = .ok p) (hs : PartSame p q) :
      ArgRel fuel (.dict kvs) (.part q)

/-- the same path: parts pairwise the same, everything else identical -/
structure PathSame (a b : Path) : Prop where
  parts : All2 PartSame a.parts b.parts
  concrete : a.concrete = b.concrete
  datum : a.datum = b.datum
  multi : a.multi = b.multi
  source : a.source = b.source

def ofArg (a : PartArg) : Except Exc Part :=
  match a with
  | .prim v => Part.ofPrim v
  | .part p => pure p

theorem mk'_eq (args : List PartArg) :
    Path.mk' args = (do
      let parts ← args.mapM ofArg
      pure { parts := parts, concrete := args.all C10L.argIsPrim, datum := .none, multi := .none, source := none }) := rfl

/-- the arguments `from_part_specs` hands on, against the API arguments -/
inductive ArgSame : PartArg → PartArg → Prop
  | prim (v : PyVal) : ArgSame (.prim v) (.prim v)
  | part (p q : Part) (h : PartSame p q) : ArgSame (.part p) (.part q)

theorem toArg_rel (fuel : Nat) (spec : PyVal) (arg : PartArg) (h : ArgRel fuel spec arg) :
    ∃ a, C10L.toArg fuel spec = .ok a ∧ ArgSame a arg := by
  cases h with
  | prim _ hv =>
    refine ⟨.prim spec, ?_, .prim spec⟩
    cases spec <;> first | rfl | exact absurd rfl (hv _)
  | part kvs p q hp hs =>
    exact ⟨.part p, by simp [C10L.toArg, hp, bind, Except.bind, pure, Except.pure], .part p q hs⟩

theorem toArgs_rel (fuel : Nat) (specs : List PyVal) (args : List PartArg)
    (h : All2 (ArgRel fuel) specs args) :
    ∃ as, specs.mapM (C10L.toArg fuel) = .ok as ∧ All2 ArgSame as args := by
  induction h with
  | nil => exact ⟨[], rfl, .nil⟩
  | cons h1 _ ih =>
    obtain ⟨a, ha, hs⟩ := toArg_rel fuel _ _ h1
    obtain ⟨as, has, hss⟩ := ih
    exact ⟨a :: as, (C10L.mapM_cons_ok _ _ _ _).2 ⟨a, as, ha, has, rfl⟩, .cons hs hss⟩

theorem ofArgs_same (as args : List PartArg) (h : All2 ArgSame as args) (parts : List Part)
    (hp : args.mapM ofArg = .ok parts) :
    ∃ parts', as.mapM ofArg = .ok parts' ∧ All2 PartSame parts' parts ∧
      as.all C10L.argIsPrim = args.all C10L.argIsPrim := by
  induction h generalizing parts with
  | nil =>
    have : parts = [] := by simpa [pure, Except.pure, eq_comm] using hp
    subst this
    exact ⟨[], rfl, .nil, rfl⟩
  | cons h1 _ ih =>
    obtain ⟨q, qs, hq, hqs, rfl⟩ := (C10L.mapM_cons_ok _ _ _ _).1 hp
    obtain ⟨ps, h2, h3, h4⟩ := ih qs hqs
    cases h1 with
    | prim v =>
      exact ⟨q :: ps, (C10L.mapM_cons_ok _ _ _ _).2 ⟨q, ps, hq, h2, rfl⟩, .cons (PartSame.rfl' q) h3,
        by simp [List.all_cons, h4]⟩
    | part p q' hs =>
      have : q' = q := by simpa [ofArg, pure, Except.pure] using hq
      subst this
      exact ⟨p :: ps, (C10L.mapM_cons_ok _ _ _ _).2 ⟨p, ps, rfl, h2, rfl⟩, .cons hs h3,
        by simp [List.all_cons, C10L.argIsPrim, h4]⟩

/-- `from_part_specs(*specs)` against `DataPath(*args)` -/
theorem path_spec (fuel : Nat) (specs : List PyVal) (args : List PartArg) (P : Path)
    (h : All2 (ArgRel fuel) specs args) (hP : Path.mk' args = .ok P) :
    ∃ P', fromPartSpecs (fuel + 1) specs = .ok P' ∧ PathSame P' P := by
  obtain ⟨as, h1, h2⟩ := toArgs_rel fuel specs args h
  rw [mk'_eq] at hP
  cases hp : args.mapM ofArg with
  | error e => simp [hp, bind, Except.bind] at hP
  | ok parts =>
    simp only [hp, bind, Except.bind, pure, Except.pure, Except.ok.injEq] at hP
    subst hP
    obtain ⟨parts', h3, h4, h5⟩ := ofArgs_same as args h2 parts hp
    refine ⟨{ parts := parts', concrete := as.all C10L.argIsPrim, datum := .none, multi := .none, source := none },
      ?_, ⟨h4, h5, rfl, rfl, rfl⟩⟩
    rw [C10L.fromPartSpecs_eq, h1]
    simp only [bind, Except.bind, mk'_eq, h3, pure, Except.pure]

/-! ### equality with the API object -/

theorem listEq_partEq_of_same (ps qs : List Part) (h : All2 PartSame ps qs)
    (hq : listEq partEq qs qs = true) : listEq partEq ps qs = true := by
  induction h with
  | nil => rfl
  | cons h1 _ ih =>
    simp only [listEq, Bool.and_eq_true] at hq ⊢
    exact ⟨partSame_partEq _ _ h1 hq.1, ih hq.2⟩

theorem pathSame_pathEq (a b : Path) (h : PathSame a b) (hb : pathEq b b = true) : pathEq a b = true := by
  obtain ⟨h1, h2, h3, h4, h5⟩ := h
  simp only [pathEq, Bool.and_eq_true] at hb ⊢
  obtain ⟨⟨⟨⟨g1, g2⟩, g3⟩, g4⟩, g5⟩ := hb
  rw [h2, h3, h4, h5]
  exact ⟨⟨⟨⟨listEq_partEq_of_same _ _ h1 g1, g2⟩, g3⟩, g4⟩, g5⟩

/-! ### the modifier methods -/

/-- the same result: the same exception, or the same path -/
def SameResult (r' r : Except Exc Path) : Prop :=
  match r', r with
  | .ok a, .ok b => PathSame a b
  | .error e, .error e' => e = e'
  | _, _ => False

theorem withDatum_same (a b : Path) (h : PathSame a b) (m : DatumMod) :
    SameResult (a.withDatum m) (b.withDatum m) := by
  unfold Path.withDatum
  rw [h.datum]
  by_cases hd : (b.datum != DatumMod.none) = true
  · simp only [hd, if_true]; exact rfl
  · simp only [hd, Bool.false_eq_true, if_false]
    exact ⟨h.parts, h.concrete, rfl, h.multi, h.source⟩

theorem withMulti_same (a b : Path) (h : PathSame a b) (m : MultiMod) :
    SameResult (a.withMulti m) (b.withMulti m) := by
  unfold Path.withMulti
  rw [h.multi, h.concrete]
  by_cases hd : (b.multi != MultiMod.none) = true
  · simp only [hd, if_true]; exact rfl
  · by_cases hc : (b.concrete && m != MultiMod.none) = true
    · simp only [hd, hc, Bool.false_eq_true, if_false, if_true]; exact rfl
    · simp only [hd, hc, Bool.false_eq_true, if_false]
      exact ⟨h.parts, rfl, h.datum, rfl, h.source⟩

theorem bind_same (r' r : Except Exc Path) (f : Path → Except Exc Path) (h : SameResult r' r)
    (hf : ∀ a b, PathSame a b → SameResult (f a) (f b)) : SameResult (r'.bind f) (r.bind f) := by
  cases r' with
  | error e =>
    cases r with
    | error e' => exact h
    | ok b => exact h.elim
  | ok a =>
    cases r with
    | error e' => exact h.elim
    | ok b => exact hf a b h

end ValidaProofs.C10S
