/-
  ValidaProofs.Lemmas.CallSafe — every generated callable is safe (raises only caught exceptions,
  returns a bool), hence so are `applyFn` and `callFn`.
-/
import ValidaProofs.Lemmas.Prim
namespace ValidaProofs
open Valida ValidaGen ValidaGen.Callables
open PyVal (pyEq numKey scale hashable truthy instOf)

/-- one step of the compositional safety proof of a callable body -/
macro "safe_step" : tactic =>
  `(tactic| first
    | exact eq_safe _ _ | exact ne_safe _ _
    | exact lt_safe _ _ | exact le_safe _ _ | exact gt_safe _ _ | exact ge_safe _ _
    | exact contains_safe _ _ | exact notContains_safe _ _
    | exact inRange_safe _ _ _ | exact notInRange_safe _ _ _
    | exact not_safe _ | exact isinstance_safe _ _ | exact setEq_safe _ _
    | exact Safe.okb _ | exact ⟨RaisesOnly.pure _, ReturnsBool.okbool _⟩
    | exact (contains_safe _ _).1
    | exact mod_raises _ _ | exact sub_raises _ _ | exact abs_raises _
    | exact keys_raises _ | exact iter_raises _ | exact set_raises _
    | exact setDiff_raises _ _ | exact setInter_raises _ _ | exact getItem_raises _ _
    | exact (ne_safe _ _).1
    | (apply anyM_safe; intro _) | (apply allM_safe; intro _)
    | (apply sumM_raises; intro _)
    | (apply allItemsM_safe; intro _ _)
    | exact (isinstance_safe _ _).1
    | refine RaisesOnly.bind ?_ (fun _ => ?_)
    | refine Safe.bind ?_ (fun _ => ?_))

macro "safe_callable" : tactic => `(tactic| repeat safe_step)

theorem equal_to_safe (x v : PyVal) : Safe (equal_to x v) := by unfold equal_to; safe_callable
theorem not_equal_to_safe (x v : PyVal) : Safe (not_equal_to x v) := by unfold not_equal_to; safe_callable
theorem less_than_safe (x v : PyVal) : Safe (less_than x v) := by unfold less_than; safe_callable
theorem greater_than_safe (x v : PyVal) : Safe (greater_than x v) := by unfold greater_than; safe_callable
theorem less_than_or_equal_to_safe (x v : PyVal) : Safe (less_than_or_equal_to x v) := by
  unfold less_than_or_equal_to; safe_callable
theorem greater_than_or_equal_to_safe (x v : PyVal) : Safe (greater_than_or_equal_to x v) := by
  unfold greater_than_or_equal_to; safe_callable
theorem in__safe (x v : PyVal) : Safe (in_ x v) := by unfold in_; safe_callable
theorem not_in_safe (x v : PyVal) : Safe (not_in x v) := by unfold not_in; safe_callable
theorem in_range_safe (x l u : PyVal) : Safe (in_range x l u) := by unfold in_range; safe_callable
theorem not_in_range_safe (x l u : PyVal) : Safe (not_in_range x l u) := by unfold not_in_range; safe_callable
theorem factor_of_safe (x v : PyVal) : Safe (factor_of x v) := by unfold factor_of; safe_callable
theorem has_factor_safe (x v : PyVal) : Safe (has_factor x v) := by unfold has_factor; safe_callable
theorem keys_contain_safe (x v : PyVal) : Safe (keys_contain x v) := by unfold keys_contain; safe_callable
theorem keys_contain_any_of_safe (x : PyVal) (ks : List PyVal) : Safe (keys_contain_any_of x ks) := by
  unfold keys_contain_any_of; safe_callable
theorem keys_contain_all_of_safe (x : PyVal) (ks : List PyVal) : Safe (keys_contain_all_of x ks) := by
  unfold keys_contain_all_of; safe_callable
theorem keys_contain_N_of_safe (x n ks : PyVal) : Safe (keys_contain_N_of x n ks) := by
  unfold keys_contain_N_of; safe_callable
theorem keys_contain_at_least_N_of_safe (x n ks : PyVal) : Safe (keys_contain_at_least_N_of x n ks) := by
  unfold keys_contain_at_least_N_of; safe_callable
theorem keys_contain_at_most_N_of_safe (x n ks : PyVal) : Safe (keys_contain_at_most_N_of x n ks) := by
  unfold keys_contain_at_most_N_of; safe_callable
theorem keys_contain_one_of_safe (x : PyVal) (ks : List PyVal) : Safe (keys_contain_one_of x ks) :=
  keys_contain_N_of_safe _ _ _
theorem keys_contain_at_least_one_of_safe (x ks : PyVal) : Safe (keys_contain_at_least_one_of x ks) :=
  keys_contain_at_least_N_of_safe _ _ _
theorem keys_contain_at_most_one_of_safe (x ks : PyVal) : Safe (keys_contain_at_most_one_of x ks) :=
  keys_contain_at_most_N_of_safe _ _ _
theorem keys_equal_to_safe (x : PyVal) (ks : List PyVal) : Safe (keys_equal_to x ks) := by
  unfold keys_equal_to; safe_callable
theorem keys_is_instance_safe (x : PyVal) (ks : List PyVal) : Safe (keys_is_instance x ks) := by
  unfold keys_is_instance; safe_callable
theorem items_contain_safe (x : PyVal) (items : List (String × PyVal)) : Safe (items_contain x items) := by
  unfold items_contain; safe_callable
theorem allowed_keys_safe (x : PyVal) (ks : List PyVal) : Safe (allowed_keys x ks) := by
  unfold allowed_keys; safe_callable
theorem required_keys_safe (x : PyVal) (ks : List PyVal) : Safe (required_keys x ks) := by
  unfold required_keys; safe_callable
theorem forbidden_keys_safe (x : PyVal) (ks : List PyVal) : Safe (forbidden_keys x ks) := by
  unfold forbidden_keys; safe_callable
theorem equal_to_approx_safe (x v t : PyVal) : Safe (equal_to_approx x v t) := by
  unfold equal_to_approx; safe_callable
theorem truthy_safe (x : PyVal) : Safe (Callables.truthy x) := by unfold Callables.truthy; safe_callable
theorem falsy_safe (x : PyVal) : Safe (falsy x) := by unfold falsy; safe_callable
theorem null_safe (x : PyVal) : Safe (null x) := by unfold null; safe_callable
theorem is_instance_safe (x : PyVal) (cs : List PyVal) : Safe (is_instance x cs) := by
  unfold is_instance; safe_callable

/-- whatever the name and the bound arguments, the dispatcher is safe -/
theorem applyFn_safe (name : String) (datum : PyVal) (ps star : List PyVal) (skw : List (String × PyVal)) :
    Safe (applyFn name datum ps star skw) := by
  unfold applyFn
  split
  all_goals first
    | exact equal_to_safe _ _ | exact not_equal_to_safe _ _ | exact less_than_safe _ _
    | exact greater_than_safe _ _ | exact less_than_or_equal_to_safe _ _
    | exact greater_than_or_equal_to_safe _ _ | exact in__safe _ _ | exact not_in_safe _ _
    | exact in_range_safe _ _ _ | exact not_in_range_safe _ _ _ | exact factor_of_safe _ _
    | exact has_factor_safe _ _ | exact keys_contain_safe _ _ | exact keys_contain_any_of_safe _ _
    | exact keys_contain_all_of_safe _ _ | exact keys_contain_N_of_safe _ _ _
    | exact keys_contain_at_least_N_of_safe _ _ _ | exact keys_contain_at_most_N_of_safe _ _ _
    | exact keys_contain_one_of_safe _ _ | exact keys_contain_at_least_one_of_safe _ _
    | exact keys_contain_at_most_one_of_safe _ _ | exact keys_equal_to_safe _ _
    | exact keys_is_instance_safe _ _ | exact items_contain_safe _ _ | exact allowed_keys_safe _ _
    | exact required_keys_safe _ _ | exact forbidden_keys_safe _ _ | exact equal_to_approx_safe _ _ _
    | exact truthy_safe _ | exact falsy_safe _ | exact null_safe _ | exact is_instance_safe _ _
    | exact Safe.error (by decide)

theorem callFn_safe (fn : String) (x : PyVal) (pos : List PyVal) (kw : List (String × PyVal)) :
    Safe (callFn fn x pos kw) := by
  unfold callFn
  split
  · exact Safe.error (by decide)
  · exact Safe.bind (bindArgs_raises _ _ _) fun _ => applyFn_safe _ _ _ _ _

end ValidaProofs
