/-
  ValidaProofs.Lemmas.C09SpecFront — the front part of `ConditionLike.from_spec` on ANY key whose
  lower-cased dot-tokens spell a class and one of its constructors: datum token, optional pre-processor
  token (aliases included), callable token (lower-cased constructor name or a `CALLABLE_LOOKUP` alias of
  it).  Closed facts about the generated tables by kernel evaluation.
-/
import Valida.Spec.Parse
import ValidaProofs.Lemmas.C11RoundFront
import ValidaProofs.Lemmas.C11RoundFacts
import ValidaProofs.Lemmas.C11RoundBuild
namespace ValidaProofs.C09S
open Valida ValidaGen ValidaProofs.C11R

/-! ### facts about the tables -/

/-- an operator symbol is a single token -/
theorem binops_one_token : ∀ p ∈ binaryOps, (splitDot p.1).length = 1 := by decide +kernel

/-- no pre-processor token is a `CALLABLE_LOOKUP` key -/
theorem preproc_not_callable : ∀ p ∈ preProcLookup, lookupStr p.1 callableLookup = none := by decide +kernel

/-- per constructor a class may offer (aliases included): its lower-cased name is no pre-processor
    token, it is one of the two instance tests exactly when its callable is, and its parameter names
    are ASCII and not `path…` -/
def CtorFacts (c : Ctor) : Prop :=
  (∀ p ∈ preProcLookup, lowName c ≠ p.1.toList) ∧
  (lowName c == "is_instance".toList || lowName c == "keys_is_instance".toList) = isInst c.target ∧
  (∀ p ∈ c.params, isAscii p = true ∧ (splitDot p).head?.map low ≠ some "path")

instance (c : Ctor) : Decidable (CtorFacts c) := by unfold CtorFacts; infer_instance

theorem ctor_facts_all : ∀ g m : Bool, ∀ c ∈ ctorsOfFlags g m, CtorFacts c := by decide +kernel

/-- per class: only classes without pre-processor are datum types; a class property is the `dtype`
    property exactly when the class it returns has the `type` pre-processor -/
def ClassFacts (cls : CClass) (info : CondClassInfo) : Prop :=
  (conditionDatumTypes.any (fun p => p.2 == cls.name) = true → (info.pre == "type") = false) ∧
  (∀ cp ∈ classProps, cp.2.2 = cls.name → (cp.2.1 == "dtype") = (info.pre == "type"))

instance (cls : CClass) (info : CondClassInfo) : Decidable (ClassFacts cls info) := by
  unfold ClassFacts; infer_instance

theorem class_facts_all :
    CClass.all.all (fun cls =>
      match cls.info with
      | .ok info => decide (ClassFacts cls info)
      | .error _ => true) = true := by
  decide +kernel

theorem class_facts_at (cls : CClass) (info : CondClassInfo) (hinfo : cls.info = .ok info) : ClassFacts cls info := by
  have h := List.all_eq_true.mp class_facts_all cls (mem_all cls)
  simp only [hinfo] at h
  exact of_decide_eq_true h

theorem find_class (cls : CClass) : CClass.all.find? (fun c => c.name == cls.name) = some cls := by
  cases cls <;> decide

/-! ### generic -/

theorem mapM_length {α β : Type} (f : α → Except Exc β) : ∀ (xs : List α) (ys : List β),
    xs.mapM f = .ok ys → ys.length = xs.length
  | [], ys, h => by
      simp only [List.mapM_nil, pure, Except.pure, Except.ok.injEq] at h
      subst h; rfl
  | x :: xs, ys, h => by
      simp only [List.mapM_cons, bind, Except.bind] at h
      cases hx : f x with
      | error e => simp [hx] at h
      | ok b =>
        cases hr : xs.mapM f with
        | error e => simp [hx, hr] at h
        | ok bs =>
          simp only [hx, hr, pure, Except.pure, Except.ok.injEq] at h
          subst h
          simp [mapM_length f xs bs hr]

/-- a key with two or three tokens is no operator symbol -/
theorem not_binop (k : String) (toks : List String) (htoks : (splitDot k).mapM pyLower = .ok toks)
    (hlen : toks.length ≠ 1) : lookupStr k binaryOps = none := by
  cases h : lookupStr k binaryOps with
  | none => rfl
  | some v =>
    have h1 := binops_one_token (k, v) (lookupStr_mem h)
    have h2 := mapM_length pyLower _ _ htoks
    rw [h1] at h2
    exact absurd h2 hlen

theorem beq_of_toList (a b : String) : (a == b) = (a.toList == b.toList) := by
  by_cases h : a = b
  · subst h; simp
  · have : a.toList ≠ b.toList := fun h' => h (String.toList_inj.mp h')
    rw [beq_eq_false_iff_ne.mpr h, beq_eq_false_iff_ne.mpr this]

/-- the callable token names constructor `c`: `CALLABLE_LOOKUP.get(tok, tok)` is its lower-cased name -/
def CallableTok (c : Ctor) (fn : String) : Prop :=
  c.name.toList.map Char.toLower = ((lookupStr fn callableLookup).getD fn).toList

section
variable (cls : CClass) (info : CondClassInfo) (c : Ctor) (hinfo : cls.info = .ok info)
  (hc : c ∈ ctorsOf info) (fn : String) (htok : CallableTok c fn)
include hc htok

theorem tok_inst :
    (((lookupStr fn callableLookup).getD fn) == "is_instance" ||
     ((lookupStr fn callableLookup).getD fn) == "keys_is_instance") = isInst c.target := by
  have hf := (ctor_facts_all info.general info.map c (by rw [← ctorsOf_flags]; exact hc)).2.1
  rw [beq_of_toList, beq_of_toList, ← htok]
  exact hf

theorem tok_find :
    (ctorsOf info).find? (fun c' => c'.name.toList.map Char.toLower ==
      ((lookupStr fn callableLookup).getD fn).toList) = some c := by
  have h := find_unique lowName (ctorsOf info) (by rw [ctorsOf_flags]; exact low_names_nodup _ _) c hc
  rw [← htok]; exact h

theorem tok_not_preproc : preProcLookup.any (fun p => p.1 == fn) = false := by
  have hf := (ctor_facts_all info.general info.map c (by rw [← ctorsOf_flags]; exact hc)).1
  rw [List.any_eq_false]
  intro p hp heq
  have hpe : p.1 = fn := by simpa using heq
  have hcl := preproc_not_callable p hp
  unfold CallableTok at htok
  rw [← hpe, hcl] at htok
  exact hf p hp htok

end

/-- two tokens `datum.callable` -/
theorem front_spelling2 (cls : CClass) (info : CondClassInfo) (c : Ctor) (hinfo : cls.info = .ok info)
    (hc : c ∈ ctorsOf info) (k d fn : String)
    (htoks : (splitDot k).mapM pyLower = .ok [d, fn])
    (hd : lookupStr d conditionDatumTypes = some cls.name) (htok : CallableTok c fn)
    (fuel : Nat) (val : PyVal) :
    parseCond (fuel + 1) (.dict [(.str k, val)]) =
      (do let v1 ← (if info.pre == "type" then convTypes val else pure val)
          let v2 ← (if isInst c.target then convTypes v1 else pure v1)
          parseTail fuel cls c v2) := by
  have hpre : (info.pre == "type") = false := by
    apply (class_facts_at cls info hinfo).1
    rw [List.any_eq_true]
    exact ⟨(d, cls.name), lookupStr_mem hd, by simp⟩
  rw [parse_front2 fuel k val d fn cls.name _ cls info c (isInst c.target)
    (not_binop k _ htoks (by simp)) htoks hd (tok_not_preproc info c hc fn htok) (find_class cls) rfl
    (tok_inst info c hc fn htok) hinfo rfl (tok_find info c hc fn htok), hpre]
  rfl

/-- three tokens `datum.pre-processor.callable` -/
theorem front_spelling3 (cls : CClass) (info : CondClassInfo) (c : Ctor) (hinfo : cls.info = .ok info)
    (hc : c ∈ ctorsOf info) (k d p fn pp : String) (base : CClass) (cp : String × String × String)
    (htoks : (splitDot k).mapM pyLower = .ok [d, p, fn])
    (hd : lookupStr d conditionDatumTypes = some base.name)
    (hp : lookupStr p preProcLookup = some pp)
    (hcp : classProps.find? (fun cp => cp.1 == base.name && cp.2.1 == pp) = some cp)
    (hcpn : cp.2.2 = cls.name) (htok : CallableTok c fn)
    (fuel : Nat) (val : PyVal) :
    parseCond (fuel + 1) (.dict [(.str k, val)]) =
      (do let v1 ← (if info.pre == "type" then convTypes val else pure val)
          let v2 ← (if isInst c.target then convTypes v1 else pure v1)
          parseTail fuel cls c v2) := by
  have hdt : (pp == "dtype") = (info.pre == "type") := by
    have h := (class_facts_at cls info hinfo).2 cp (List.mem_of_find?_eq_some hcp) hcpn
    have hpp : cp.2.1 = pp := by
      have := List.find?_some hcp
      simp only [Bool.and_eq_true, beq_iff_eq] at this
      exact this.2
    rw [← hpp]; exact h
  exact parse_front3 fuel k val d p fn base.name pp _ base cls cp info c (info.pre == "type") (isInst c.target)
    (not_binop k _ htoks (by simp)) htoks hd (find_class base) hp hdt hcp (by rw [hcpn]; exact find_class cls) rfl
    (tok_inst info c hc fn htok) hinfo rfl (tok_find info c hc fn htok)

theorem nodup_of_map {α β : Type} (g : α → β) : ∀ (l : List α), (l.map g).Nodup → l.Nodup
  | [], _ => List.nodup_nil
  | x :: xs, h => by
      simp only [List.map_cons, List.nodup_cons] at h ⊢
      exact ⟨fun hx => h.1 (List.mem_map_of_mem hx), nodup_of_map g xs h.2⟩

/-- the DSL finds the constructor by its name -/
theorem find_by_name (info : CondClassInfo) (c : Ctor) (hc : c ∈ ctorsOf info) :
    (ctorsOf info).find? (fun c' => c'.name == c.name) = some c := by
  have hnd : ((ctorsOf info).map Ctor.name).Nodup := by
    have h := low_names_nodup info.general info.map
    rw [← ctorsOf_flags] at h
    have : (ctorsOf info).map lowName = ((ctorsOf info).map Ctor.name).map (fun n => n.toList.map Char.toLower) := by
      rw [List.map_map]; rfl
    rw [this] at h
    exact nodup_of_map _ _ h
  exact find_unique Ctor.name (ctorsOf info) hnd c hc

end ValidaProofs.C09S
