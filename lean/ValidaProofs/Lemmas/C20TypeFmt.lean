/-
  ValidaProofs.Lemmas.C20TypeFmt — helper lemmas for C20 (type texts): `mapM` in `Except`, `repr` of
  plain literals, the generated class / type-name tables as the formatter reads them.
-/
import Valida.TypeFmt
namespace ValidaProofs.C20T
open Valida ValidaGen Valida.TypeFmt Valida.Repr

/-! ### `mapM` in `Except` -/

theorem mapM_ok_map {α β ε : Type} (f : α → Except ε β) (g : α → β) :
    ∀ (xs : List α), (∀ x ∈ xs, f x = .ok (g x)) → xs.mapM f = .ok (xs.map g)
  | [], _ => rfl
  | x :: xs, h => by
      have hx := h x (by simp)
      have ih := mapM_ok_map f g xs (fun y hy => h y (by simp [hy]))
      simp only [List.mapM_cons, hx, ih, List.map_cons]
      rfl

theorem mapM_ok {α β ε : Type} (f : α → Except ε β) :
    ∀ (xs : List α), (∀ x ∈ xs, ∃ y, f x = .ok y) → ∃ ys, xs.mapM f = .ok ys
  | [], _ => ⟨[], rfl⟩
  | x :: xs, h => by
      obtain ⟨y, hy⟩ := h x (by simp)
      obtain ⟨ys, hys⟩ := mapM_ok f xs (fun z hz => h z (by simp [hz]))
      refine ⟨y :: ys, ?_⟩
      simp only [List.mapM_cons, hy, hys]
      rfl

theorem mapM_map_ok_map {α β γ ε : Type} (h : γ → α) (f : α → Except ε β) (g : γ → β) :
    ∀ (xs : List γ), (∀ x ∈ xs, f (h x) = .ok (g x)) → (xs.map h).mapM f = .ok (xs.map g)
  | [], _ => rfl
  | x :: xs, hh => by
      have hx := hh x (by simp)
      have ih := mapM_map_ok_map h f g xs (fun y hy => hh y (by simp [hy]))
      simp only [List.map_cons, List.mapM_cons, hx, ih]
      rfl

theorem mapM_ok_nil {α β ε : Type} {f : α → Except ε β} {xs : List α} (h : xs.mapM f = .ok []) : xs = [] := by
  cases xs with
  | nil => rfl
  | cons x xs =>
      simp only [List.mapM_cons] at h
      cases hx : f x with
      | error e => rw [hx] at h; cases h
      | ok y =>
          rw [hx] at h
          cases hxs : xs.mapM f with
          | error e => rw [hxs] at h; cases h
          | ok ys => rw [hxs] at h; cases h

theorem ok_bind {α β ε : Type} (a : α) (f : α → Except ε β) : (Except.ok a >>= f) = f a := rfl

/-! ### the class table -/

theorem preOf_value : preOf .value = "" := by decide
theorem preOf_valueLength : preOf .valueLength = "len" := by decide
theorem preOf_valueDataType : preOf .valueDataType = "type" := by decide
theorem preOf_keyDataType : preOf .keyDataType = "type" := by decide

theorem preOf_dtype_ne_len (cls : CClass) (hc : cls = .valueDataType ∨ cls = .keyDataType) :
    (preOf cls == "len") = false := by
  rcases hc with rfl | rfl <;> decide

theorem preOf_value_ne_len : (preOf .value == "len") = false := by decide
theorem preOf_valueLength_len : (preOf .valueLength == "len") = true := by decide

/-! ### `repr` -/

theorem escChar_ok (q c : Char) (h : c.toNat < 127) : ∃ r, escChar q c = .ok r := by
  unfold escChar
  repeat' split
  all_goals first | exact ⟨_, rfl⟩ | omega

theorem escChars_ok (q : Char) : ∀ (cs : List Char), (∀ c ∈ cs, c.toNat < 127) → ∃ r, escChars q cs = .ok r
  | [], _ => ⟨[], rfl⟩
  | c :: cs, h => by
      obtain ⟨a, ha⟩ := escChar_ok q c (h c (by simp))
      obtain ⟨b, hb⟩ := escChars_ok q cs (fun d hd => h d (by simp [hd]))
      exact ⟨a ++ b, by simp only [escChars, ha, hb]; rfl⟩

theorem reprStr_ok (s : String) (h : ∀ c ∈ s.toList, c.toNat < 127) : ∃ r, Valida.Repr.reprStr s = .ok r := by
  unfold Valida.Repr.reprStr
  obtain ⟨b, hb⟩ := escChars_ok
    (if s.toList.contains '\'' && !s.toList.contains '"' then '"' else '\'') s.toList h
  simp only [hb]
  exact ⟨_, rfl⟩

theorem typeName_ok (t : PyType) (h : t ≠ .obj) : ∃ n, typeName t = .ok n := by
  cases t <;> first | exact ⟨_, rfl⟩ | exact absurd rfl h

theorem pyRepr_type_ok (t : PyType) (h : t ≠ .obj) : ∃ s, pyRepr (.type t) = .ok s := by
  obtain ⟨n, hn⟩ := typeName_ok t h
  exact ⟨"<class '" ++ n ++ "'>", by simp only [pyRepr, hn]; rfl⟩

/-- `repr(n)` of an int within the digit limit (`sys.get_int_max_str_digits()`) -/
theorem pyRepr_int (n : Int) (hn : n.natAbs < 10 ^ 4300) : pyRepr (.int n) = .ok (toString n) := by
  simp only [pyRepr]
  exact if_neg (Nat.not_le.mpr hn)

theorem pyStr_int (n : Int) (hn : n.natAbs < 10 ^ 4300) : pyStr (.int n) = .ok (toString n) := by
  simp only [pyStr]
  exact pyRepr_int n hn

theorem argRepr_int (n : Int) (hn : n.natAbs < 10 ^ 4300) : argRepr (.lit (.int n)) = .ok (toString n) := by
  simp only [argRepr]
  exact pyRepr_int n hn

/-! ### the type-name table -/

/-- a listed type is shown by its name (the table has distinct keys) -/
theorem invDtype_named (t : PyType) (n : String) (h : (t, n) ∈ invDtypeLookup) :
    invDtype (.type t) = .ok (.str n) := by
  simp only [invDtypeLookup, List.mem_cons, Prod.mk.injEq, List.mem_nil_iff, or_false] at h
  rcases h with h | h | h | h | h | h | h <;> obtain ⟨rfl, rfl⟩ := h <;> rfl

theorem typeText_named (t : PyType) (n : String) (h : (t, n) ∈ invDtypeLookup) :
    typeText (.type t) = .ok n := by
  simp only [typeText, invDtypeLenient, invDtype_named t n h]
  rfl

theorem typeText_type_ok (t : PyType) (h : t ≠ .obj) : ∃ s, typeText (.type t) = .ok s := by
  cases t <;> first | exact ⟨_, rfl⟩ | exact absurd rfl h

/-! ### the keyword `value` -/

theorem kwValue_value (cls : CClass) (fn : String) (v : PyVal) :
    kwValue { cls := cls, fn := fn, args := [], kwargs := [("value", .lit v)] } = .ok v := by
  rfl

end ValidaProofs.C20T
