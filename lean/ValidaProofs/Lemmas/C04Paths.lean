/-
  ValidaProofs.Lemmas.C04Paths — truthfulness of reported keys (`childAt`, `index`), distinctness of
  the reported paths, `==` on hashable keys.
-/
import Valida.Path
import ValidaSpec.Walk
import ValidaProofs.Lemmas.Basic
namespace ValidaProofs.C04
open Valida ValidaGen ValidaSpec
open PyVal (pyEq pyEqL hashable hashableL atomEq numKey)

/-! ### `==` is reflexive and symmetric on hashable values -/

theorem atomEq_comm (x y : PyVal) : atomEq x y = atomEq y x := by
  cases x <;> cases y <;> simp [atomEq, numKey, Bool.beq_comm] <;> exact Bool.beq_comm ..

mutual
theorem pyEq_symm_of_hashable (x y : PyVal) (h : hashable x = true) : pyEq x y = pyEq y x := by
  cases x with
  | tuple xs =>
    cases y with
    | tuple ys => simp only [pyEq]; exact pyEqL_symm_of_hashable xs ys (by simpa [hashable] using h)
    | _ => simp [pyEq, atomEq, numKey]
  | list _ => simp [hashable] at h
  | dict _ => simp [hashable] at h
  | obj _ => simp [hashable] at h
  | _ => cases y <;> simp only [pyEq] <;> exact atomEq_comm ..
termination_by structural x
theorem pyEqL_symm_of_hashable (xs ys : List PyVal) (h : hashableL xs = true) : pyEqL xs ys = pyEqL ys xs := by
  cases xs with
  | nil => cases ys <;> simp [pyEqL]
  | cons x xs =>
    cases ys with
    | nil => simp [pyEqL]
    | cons y ys =>
      simp only [hashableL, Bool.and_eq_true] at h
      simp only [pyEqL]
      rw [pyEq_symm_of_hashable x y h.1, pyEqL_symm_of_hashable xs ys h.2]
termination_by structural xs
end

mutual
theorem pyEq_refl_of_hashable (x : PyVal) (h : hashable x = true) : pyEq x x = true := by
  cases x with
  | tuple xs => simp only [pyEq]; exact pyEqL_refl_of_hashable xs (by simpa [hashable] using h)
  | list _ => simp [hashable] at h
  | dict _ => simp [hashable] at h
  | obj _ => simp [hashable] at h
  | _ => simp [pyEq, atomEq, numKey]
termination_by structural x
theorem pyEqL_refl_of_hashable (xs : List PyVal) (h : hashableL xs = true) : pyEqL xs xs = true := by
  cases xs with
  | nil => simp [pyEqL]
  | cons x xs =>
    simp only [hashableL, Bool.and_eq_true] at h
    simp only [pyEqL, Bool.and_eq_true]
    exact ⟨pyEq_refl_of_hashable x h.1, pyEqL_refl_of_hashable xs h.2⟩
termination_by structural xs
end

/-! ### looking a key up gives the item at its position -/

theorem dictGet_of_mem (items : List (PyVal × PyVal)) (hd : DistinctKeys items)
    (hrefl : ∀ kv ∈ items, pyEq kv.1 kv.1 = true)
    (hsym : ∀ a ∈ items, ∀ b ∈ items, pyEq a.1 b.1 = pyEq b.1 a.1)
    (kv : PyVal × PyVal) (hm : kv ∈ items) : Py.dictGet kv.1 items = some kv.2 := by
  induction items with
  | nil => simp at hm
  | cons x rest ih =>
    obtain ⟨k', v'⟩ := x
    unfold DistinctKeys at hd
    rw [List.pairwise_cons] at hd
    rcases List.mem_cons.mp hm with rfl | hm'
    · simp [Py.dictGet, hrefl (k', v') (by simp)]
    · have h1 : pyEq k' kv.1 = false := hd.1 kv hm'
      have h2 : pyEq kv.1 k' = false := by
        rw [hsym kv (by simp [hm']) (k', v') (by simp)]; exact h1
      simp only [Py.dictGet, h2, Bool.false_eq_true, if_false]
      exact ih hd.2 (fun a ha => hrefl a (by simp [ha]))
        (fun a ha b hb => hsym a (by simp [ha]) b (by simp [hb])) hm'

theorem getElem_rangeVals (n i : Nat) (h : i < (rangeVals n).length) : (rangeVals n)[i] = .int (Int.ofNat i) := by
  simp [rangeVals]

theorem childAt_of_mem_zip_range (xs : List PyVal) (kv : PyVal × PyVal)
    (hm : kv ∈ (rangeVals xs.length).zip xs) : childAt (.list xs) kv.1 = some kv.2 := by
  obtain ⟨i, hi, heq⟩ := List.mem_iff_getElem.mp hm
  rw [List.getElem_zip] at heq
  have hi' : i < xs.length := by simp [rangeVals] at hi; exact hi
  subst heq
  simp [childAt, getElem_rangeVals, Py.asInt, hi']

/-! ### `index` along a reported path -/

theorem index_append (doc : PyVal) (pre : List PyVal) (k : PyVal) :
    index doc (pre ++ [k]) = (index doc pre).bind (fun c => childAt c k) := by
  induction pre generalizing doc with
  | nil => simp [index]
  | cons a pre ih =>
    simp only [List.cons_append, index]
    cases childAt doc a with
    | none => rfl
    | some c => simpa using ih c

section
variable {P : Type} (children : P → PyVal → List (PyVal × PyVal))

theorem walk_truthful (doc : PyVal)
    (htr : ∀ p node kv, kv ∈ children p node → childAt node kv.1 = some kv.2)
    (parts : List P) (node : PyVal) (pre : List PyVal) (hpre : index doc pre = some node) :
    ∀ vq ∈ walk children parts node pre, index doc vq.2 = some vq.1 := by
  induction parts generalizing node pre with
  | nil => intro vq hv; simp [walk] at hv; subst hv; exact hpre
  | cons p ps ih =>
    intro vq hv
    simp only [walk, List.mem_flatMap] at hv
    obtain ⟨kv, hkv, hv⟩ := hv
    apply ih kv.2 (pre ++ [kv.1]) _ vq hv
    rw [index_append, hpre]
    exact htr p node kv hkv

theorem walk_prefix (parts : List P) (node : PyVal) (pre : List PyVal) :
    ∀ vq ∈ walk children parts node pre, pre <+: vq.2 := by
  induction parts generalizing node pre with
  | nil => intro vq hv; simp [walk] at hv; subst hv; exact List.prefix_refl _
  | cons p ps ih =>
    intro vq hv
    simp only [walk, List.mem_flatMap] at hv
    obtain ⟨kv, _, hv⟩ := hv
    exact List.IsPrefix.trans (List.prefix_append _ _) (ih kv.2 (pre ++ [kv.1]) vq hv)

theorem key_eq_of_prefix (pre q : List PyVal) (k k' : PyVal)
    (h : (pre ++ [k]) <+: q) (h' : (pre ++ [k']) <+: q) : k = k' := by
  obtain ⟨t, rfl⟩ := h
  obtain ⟨t', ht'⟩ := h'
  simp only [List.append_assoc, List.append_cancel_left_eq] at ht'
  simp at ht'
  exact ht'.1.symm

theorem walk_paths_nodup (hk : ∀ p node, ((children p node).map (·.1)).Nodup)
    (parts : List P) (node : PyVal) (pre : List PyVal) :
    ((walk children parts node pre).map (·.2)).Nodup := by
  induction parts generalizing node pre with
  | nil => simp [walk]
  | cons p ps ih =>
    simp only [walk, List.map_flatMap]
    rw [List.nodup_iff_pairwise_ne, List.pairwise_flatMap]
    refine ⟨fun kv _ => ih kv.2 (pre ++ [kv.1]), ?_⟩
    have hkeys := hk p node
    rw [List.nodup_iff_pairwise_ne, List.pairwise_map] at hkeys
    refine hkeys.imp ?_
    intro a b hab x hx y hy hxy
    subst hxy
    simp only [List.mem_map] at hx hy
    obtain ⟨vx, hvx, rfl⟩ := hx
    obtain ⟨vy, hvy, hy⟩ := hy
    have p1 := walk_prefix children ps a.2 (pre ++ [a.1]) vx hvx
    have p2 := walk_prefix children ps b.2 (pre ++ [b.1]) vy hvy
    rw [hy] at p2
    exact hab (key_eq_of_prefix pre _ _ _ p1 p2)

end

end ValidaProofs.C04
