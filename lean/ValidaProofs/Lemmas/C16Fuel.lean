/-
  ValidaProofs.Lemmas.C16Fuel — the spec parsers are monotone in their fuel: any outcome other than
  `RecursionError` is kept when more fuel is given.
-/
import Valida.Spec.Parse
namespace ValidaProofs.C16L
open Valida ValidaGen

/-- `r'` is `r` unless `r` ran out of fuel -/
def Le {α : Type} (r r' : Except Exc α) : Prop := r = .error .recursion ∨ r = r'

theorem Le.refl {α : Type} (r : Except Exc α) : Le r r := Or.inr rfl

theorem Le.bot {α : Type} (r : Except Exc α) : Le (.error .recursion) r := Or.inl rfl

theorem Le.bind {α β : Type} {x x' : Except Exc α} {k k' : α → Except Exc β}
    (h : Le x x') (hk : ∀ a, Le (k a) (k' a)) : Le (x >>= k) (x' >>= k') := by
  rcases h with h | h
  · subst h; exact Or.inl rfl
  · subst h
    cases x with
    | error e => exact Or.inr rfl
    | ok a => exact hk a

theorem Le.mapM {α β : Type} {f g : α → Except Exc β} (h : ∀ a, Le (f a) (g a)) (xs : List α) :
    Le (xs.mapM f) (xs.mapM g) := by
  induction xs with
  | nil => exact Le.refl _
  | cons x xs ih =>
    simp only [List.mapM_cons]
    exact Le.bind (h x) (fun a => Le.bind ih (fun _ => Le.refl _))

theorem Le.foldlM {α β : Type} {f g : β → α → Except Exc β} (h : ∀ b a, Le (f b a) (g b a))
    (xs : List α) (init : β) : Le (xs.foldlM f init) (xs.foldlM g init) := by
  induction xs generalizing init with
  | nil => exact Le.refl _
  | cons x xs ih =>
    simp only [List.foldlM_cons]
    exact Le.bind (h init x) (fun a => ih a)

theorem throw_bind' {α β : Type} (e : Exc) (k : α → Except Exc β) : (throw e : Except Exc α) >>= k = throw e := rfl
theorem Le.ite {α : Type} {c : Prop} [Decidable c] {a a' b b' : Except Exc α} (h1 : c → Le a a') (h2 : ¬c → Le b b') :
    Le (if c then a else b) (if c then a' else b') := by
  by_cases hc : c
  · simp only [hc, if_true]; exact h1 hc
  · simp only [hc, if_false]; exact h2 hc
theorem Le.matchOp {α : Type} (X : Option String) {a a' b b' c c' : Unit → Except Exc α} {d d' : Option String → Except Exc α}
    (ha : ∀ u, Le (a u) (a' u)) (hb : ∀ u, Le (b u) (b' u)) (hc : ∀ u, Le (c u) (c' u)) (hd : ∀ u, Le (d u) (d' u)) :
    Le (parseCond.match_1 (fun _ => Except Exc α) X a b c d)
       (parseCond.match_1 (fun _ => Except Exc α) X a' b' c' d') := by
  split <;> apply_assumption
syntax "le_walk" (ppSpace ident)+ : tactic
macro_rules
  | `(tactic| le_walk $hs*) => `(tactic| repeat' with_reducible (first
      | exact Le.refl _
      | (first $[| exact $hs _]*)
      | refine Le.bind ?_ (fun _ => ?_)
      | refine Le.mapM (fun _ => ?_) _
      | refine Le.foldlM (fun _ _ => ?_) _ _
      | refine Le.ite (fun _ => ?_) (fun _ => ?_)
      | refine Le.matchOp _ (fun _ => ?_) (fun _ => ?_) (fun _ => ?_) (fun _ => ?_)
      | split))
theorem pc_step (n m : Nat) (h : ∀ s, Le (parseCond n s) (parseCond m s))
    (h' : ∀ s, Le (sniffArg n s) (sniffArg m s)) (s) :
    Le (parseCond (n+1) s) (parseCond (m+1) s) := by
  simp only [parseCond, throw_bind', pure_bind]
  generalize parseCond m = g at *
  generalize parseCond n = f at *
  generalize sniffArg m = g' at *
  generalize sniffArg n = f' at *
  le_walk h h'

theorem sa_step (n m : Nat) (h : ∀ s, Le (parsePathSpec n s) (parsePathSpec m s)) (s) :
    Le (sniffArg (n+1) s) (sniffArg (m+1) s) := by
  cases s <;> simp only [sniffArg]
  all_goals try exact Le.refl _
  all_goals generalize parsePathSpec m = g at *
  all_goals generalize parsePathSpec n = f at *
  · refine Le.bind (Le.mapM (fun x => ?_) _) (fun _ => Le.refl _)
    rcases h x with h1 | h1 <;> rw [h1] <;> first | exact Le.bot _ | exact Le.refl _
  · refine Le.bind (Le.mapM (fun x => ?_) _) (fun _ => Le.refl _)
    rcases h x with h1 | h1 <;> rw [h1] <;> first | exact Le.bot _ | exact Le.refl _
  · rename_i kvs
    rcases h (.dict kvs) with h1 | h1
    · rw [h1]; exact Le.bot _
    · rw [h1]
      split
      · exact Le.refl _
      · refine Le.bind (Le.mapM (fun x => ?_) _) (fun _ => Le.refl _)
        rcases h x.2 with h1 | h1 <;> rw [h1] <;> first | exact Le.bot _ | exact Le.refl _
      · exact Le.refl _

theorem fps_step (n m : Nat) (h : ∀ s, Le (parsePart n s) (parsePart m s)) (s) :
    Le (fromPartSpecs (n+1) s) (fromPartSpecs (m+1) s) := by
  simp only [fromPartSpecs]
  generalize parsePart m = g at *
  generalize parsePart n = f at *
  le_walk h

theorem pps_step (n m : Nat) (h : ∀ s, Le (fromPartSpecs n s) (fromPartSpecs m s)) (s) :
    Le (parsePathSpec (n+1) s) (parsePathSpec (m+1) s) := by
  simp only [parsePathSpec, throw_bind']
  generalize fromPartSpecs m = g at *
  generalize fromPartSpecs n = f at *
  le_walk h

theorem pp_step (n m : Nat) (h : ∀ s, Le (parseCond n s) (parseCond m s)) (s) :
    Le (parsePart (n+1) s) (parsePart (m+1) s) := by
  simp only [parsePart, throw_bind', pure_bind]
  generalize parseCond m = g at *
  generalize parseCond n = f at *
  le_walk h

/-- all five parsers at once -/
structure Mono (n : Nat) : Prop where
  pc : ∀ s, Le (parseCond n s) (parseCond (n+1) s)
  sa : ∀ s, Le (sniffArg n s) (sniffArg (n+1) s)
  pps : ∀ s, Le (parsePathSpec n s) (parsePathSpec (n+1) s)
  fps : ∀ s, Le (fromPartSpecs n s) (fromPartSpecs (n+1) s)
  pp : ∀ s, Le (parsePart n s) (parsePart (n+1) s)

theorem mono : ∀ n, Mono n
  | 0 => ⟨fun _ => Le.bot _, fun _ => Le.bot _, fun _ => Le.bot _, fun _ => Le.bot _, fun _ => Le.bot _⟩
  | n + 1 =>
    have ih := mono n
    ⟨pc_step n (n+1) ih.pc ih.sa, sa_step n (n+1) ih.pps, pps_step n (n+1) ih.fps,
     fps_step n (n+1) ih.pp, pp_step n (n+1) ih.pc⟩

/-- an outcome other than running out of fuel is kept with more fuel -/
theorem parseCond_mono (n : Nat) (s : PyVal) (r : Except Exc (Cond Arg)) (hr : r ≠ .error .recursion)
    (h : parseCond n s = r) : parseCond (n + 1) s = r := by
  rcases (mono n).pc s with h' | h'
  · exact absurd (h.symm.trans h') hr
  · rw [← h', h]

end ValidaProofs.C16L
