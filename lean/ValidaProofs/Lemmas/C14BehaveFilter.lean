/-
  ValidaProofs.Lemmas.C14BehaveFilter — `filterAux` level: a single condition with its keyword arguments
  in another order; and, for data that carries paths (`data_has_paths=True`), the relation between
  filtering with paths and filtering the path-stripped data (valid for every condition tree since the
  repair of the unpacking in `Condition._filter`: generated flag `filterUnpacksValuesOnly`).
-/
import Valida.Cond
import ValidaProofs.Lemmas.C02Tree
import ValidaProofs.Lemmas.C14BehaveCall
namespace ValidaProofs.C14B
open Valida ValidaGen

/-- `mapM` with a function that returns at least whatever the first returns -/
theorem mapM_ok_of_imp {α β : Type} (f g : α → Except Exc β) :
    ∀ (xs : List α) (ys : List β), (∀ x ∈ xs, ∀ y, f x = .ok y → g x = .ok y) →
      xs.mapM f = .ok ys → xs.mapM g = .ok ys := by
  intro xs
  induction xs with
  | nil => intro ys _ h; simpa using h
  | cons x xs ih =>
    intro ys hfg h
    rw [List.mapM_cons] at h ⊢
    cases hx : f x with
    | error e => simp [hx, bind, Except.bind] at h
    | ok y =>
      cases hxs : xs.mapM f with
      | error e => simp [hx, hxs, bind, Except.bind] at h
      | ok ys' =>
        simp [hx, hxs, bind, Except.bind, pure, Except.pure] at h
        subst h
        rw [hfg x List.mem_cons_self y hx, ih ys' (fun z hz => hfg z (List.mem_cons_of_mem _ hz)) hxs]
        rfl

/-- a single condition whose keyword arguments are given in another order filters identically -/
theorem filterAux_leaf_perm (cls : CClass) (fn : String) (args : List RArg) {kw kw' : List (String × RArg)}
    (hp : kw.Perm kw') (hn : (kw.map (·.1)).Nodup) (ha : ErrAgree kw) (d : DataV) (f : FD) (d' : DataV)
    (p : Option (List PyVal))
    (h : filterAux (.leaf { cls := cls, fn := fn, args := args, kwargs := kw }) d false = .ok (f, d', p)) :
    filterAux (.leaf { cls := cls, fn := fn, args := args, kwargs := kw' }) d false = .ok (f, d', p) := by
  rw [filterAux_leaf_false] at h ⊢
  simp only at h ⊢
  cases hi : cls.info with
  | error e => rw [hi] at h; cases h
  | ok info =>
    rw [hi] at h
    simp only at h ⊢
    cases hm : (if info.readsKeys then d.keys else d.values).mapM (evalItem info.pre fn args kw) with
    | error e => rw [hm] at h; cases h
    | ok flags =>
      rw [hm] at h
      rw [mapM_ok_of_imp _ (evalItem info.pre fn args kw') _ flags
        (fun x _ y hy => evalItem_perm info.pre fn args hp hn ha x y hy) hm]
      exact h

/-! ### data with paths -/

/-- `extract_paths()` replaces the values by their first components and leaves the rest alone -/
theorem extractPaths_ok (d d' : DataV) (ps : List PyVal) (h : extractPaths d = .ok (d', ps)) :
    ∃ vs, d.values.mapM unpack2 = .ok vs ∧ d' = { d with values := vs } := by
  unfold extractPaths at h
  cases hvs : d.values.mapM unpack2 with
  | error e => rw [hvs] at h; cases h
  | ok vs =>
    rw [hvs] at h
    simp only [bind, Except.bind, pure, Except.pure] at h
    split at h
    · cases h
    · cases h; exact ⟨vs, rfl, rfl⟩

/-- the leaf case of `filterAux` with paths, as a plain case distinction (with the repaired unpacking:
    only a value-reading condition unpacks `datum, _ = datum`; keys / indices are read as they are) -/
theorem filterAux_leaf_true (hflag : filterUnpacksValuesOnly = true) (l : Leaf RArg) (d : DataV) :
    filterAux (.leaf l) d true =
      match l.cls.info with
      | .error e => .error e
      | .ok info =>
        match (if info.readsKeys then (.ok d.keys : Except Exc (List PyVal)) else d.values.mapM unpack2) with
        | .error e => .error e
        | .ok data =>
          match data.mapM (evalItem info.pre l.fn l.args l.kwargs) with
          | .error e => .error e
          | .ok flags =>
            match extractPaths d with
            | .error e => .error e
            | .ok (d', ps) => .ok (.leaf l.cls l.fn flags, d', some ps) := by
  simp only [filterAux, hflag]
  cases l.cls.info with
  | error e => simp [bind, Except.bind]
  | ok info =>
    simp only [bind, Except.bind, pure, Except.pure, if_true, Bool.true_and]
    cases hr : info.readsKeys with
    | true =>
      simp only [Bool.not_true, Bool.false_eq_true, if_false, if_true]
      cases d.keys.mapM (evalItem info.pre l.fn l.args l.kwargs) with
      | error e => simp
      | ok flags =>
        simp only
        cases extractPaths d with
        | error e => simp
        | ok r => obtain ⟨d', ps⟩ := r; simp
    | false =>
      simp only [Bool.not_false, if_true, Bool.false_eq_true, if_false]
      cases d.values.mapM unpack2 with
      | error e => simp
      | ok data =>
        simp only
        cases data.mapM (evalItem info.pre l.fn l.args l.kwargs) with
        | error e => simp
        | ok flags =>
          simp only
          cases extractPaths d with
          | error e => simp
          | ok r => obtain ⟨d', ps⟩ := r; simp

/-- filtering data that carries paths = stripping the paths, then filtering: the left-most single
    condition strips them from the shared `Data`; a value-reading one sees the stripped values either
    way, a key / index reading one the untouched keys either way -/
theorem filterAux_true_iff (hflag : filterUnpacksValuesOnly = true) (c : Cond RArg) :
    ∀ (d : DataV) (f : FD) (d' : DataV) (ps : Option (List PyVal)),
      filterAux c d true = .ok (f, d', ps) ↔
        ∃ ps', extractPaths d = .ok (d', ps') ∧ ps = some ps' ∧ filterAux c d' false = .ok (f, d', none) := by
  induction c with
  | leaf l =>
    intro d f d' ps
    rw [filterAux_leaf_true hflag]
    cases hi : l.cls.info with
    | error e =>
      simp only
      constructor
      · intro h; cases h
      · rintro ⟨ps', _, _, h⟩
        rw [filterAux_leaf_false, hi] at h; cases h
    | ok info =>
      simp only
      cases hr : info.readsKeys with
      | true =>
        simp only [if_true]
        constructor
        · intro h
          split at h
          · cases h
          · rename_i flags hfl
            split at h
            · cases h
            · rename_i d'' ps'' hex
              cases h
              obtain ⟨vs', _, rfl⟩ := extractPaths_ok _ _ _ hex
              refine ⟨ps'', hex, rfl, ?_⟩
              rw [filterAux_leaf_false, hi]
              simp only [hr, if_true, hfl]
        · rintro ⟨ps', hex, rfl, h2⟩
          obtain ⟨vs, _, rfl⟩ := extractPaths_ok _ _ _ hex
          rw [filterAux_leaf_false, hi] at h2
          simp only [hr, if_true] at h2
          split at h2
          · cases h2
          · rename_i flags hfl
            cases h2
            rw [hfl]
            simp only
            rw [hex]
      | false =>
        simp only [Bool.false_eq_true, if_false]
        constructor
        · intro h
          split at h
          · cases h
          · rename_i vs hvs
            split at h
            · cases h
            · rename_i flags hfl
              split at h
              · cases h
              · rename_i d'' ps'' hex
                cases h
                obtain ⟨vs', hvs', rfl⟩ := extractPaths_ok _ _ _ hex
                rw [hvs] at hvs'; cases hvs'
                refine ⟨ps'', hex, rfl, ?_⟩
                rw [filterAux_leaf_false, hi]
                simp only [hr, Bool.false_eq_true, if_false, hfl]
        · rintro ⟨ps', hex, rfl, h2⟩
          obtain ⟨vs, hvs, rfl⟩ := extractPaths_ok _ _ _ hex
          rw [filterAux_leaf_false, hi] at h2
          simp only [hr, Bool.false_eq_true, if_false] at h2
          split at h2
          · cases h2
          · rename_i flags hfl
            cases h2
            rw [hvs]
            simp only
            rw [hfl]
            simp only
            rw [hex]
  | bin op a b iha _ =>
    intro d f d' ps
    constructor
    · intro h
      rw [filterAux_bin] at h
      split at h
      · cases h
      · rename_i fa d1 pa ha
        split at h
        · cases h
        · rename_i fb d2 pb hb
          obtain ⟨ps', hex, rfl, ha'⟩ := (iha d fa d1 pa).1 ha
          obtain ⟨rfl, rfl⟩ := filterAux_frame _ _ _ _ _ hb
          cases h
          exact ⟨ps', hex, rfl, filterAux_bin_ok op a b _ fa fb ha' hb⟩
    · rintro ⟨ps', hex, rfl, h⟩
      obtain ⟨fa, fb, ha, hb, rfl⟩ := filterAux_bin_inv op a b d' f d' none h
      have ha' := (iha d fa d' (some ps')).2 ⟨ps', hex, rfl, ha⟩
      rw [filterAux_bin, ha']
      simp only
      rw [hb]

end ValidaProofs.C14B
