/-
  ValidaProofs.Lemmas.C08ThreadsAlloc — allocation is the same wherever it happens: allocating one
  value in two stores gives the same block of cells up to the shift of all references by the
  difference of the store sizes; inside the block children precede their parents.
-/
import Valida.Store
import ValidaProofs.Lemmas.C08Store
import ValidaProofs.Lemmas.C08ThreadsEmb
namespace ValidaProofs.C08T
open Valida ValidaGen
open ValidaProofs.C08L

/-- move a reference from a block starting at `b` to a block starting at `b'` -/
def sh (b b' : Nat) : Nat → Nat := fun i => i + b' - b

structure AllocSh (s s' : Store) (fuel : Nat) (v : PyVal) : Prop where
  size : (Store.alloc s fuel v).1.size + s'.size = (Store.alloc s' fuel v).1.size + s.size
  root : (Store.alloc s fuel v).2 + s'.size = (Store.alloc s' fuel v).2 + s.size
  cell : ∀ i c, s.size ≤ i → (Store.alloc s fuel v).1[i]? = some c →
    (Store.alloc s' fuel v).1[i + s'.size - s.size]? = some (ren (sh s.size s'.size) c)
  down : ∀ i c, s.size ≤ i → (Store.alloc s fuel v).1[i]? = some c → ∀ r ∈ refs c, s.size ≤ r ∧ r < i

/-- the accumulators of the two folds of `Store.alloc` correspond -/
structure Rel {γ : Type} (s s' : Store) (g : γ → γ) (rf : γ → Nat) (acc acc' : Store × List γ) : Prop where
  le : s.size ≤ acc.1.size
  size : acc.1.size + s'.size = acc'.1.size + s.size
  cell : ∀ i c, s.size ≤ i → acc.1[i]? = some c →
    acc'.1[i + s'.size - s.size]? = some (ren (sh s.size s'.size) c)
  down : ∀ i c, s.size ≤ i → acc.1[i]? = some c → ∀ r ∈ refs c, s.size ≤ r ∧ r < i
  lst : acc'.2 = acc.2.map g
  rfs : ∀ x ∈ acc.2, s.size ≤ rf x ∧ rf x < acc.1.size

theorem rel_init {γ : Type} (s s' : Store) (g : γ → γ) (rf : γ → Nat) : Rel s s' g rf (s, []) (s', []) := by
  refine ⟨Nat.le_refl _, Nat.add_comm _ _, ?_, ?_, rfl, by simp⟩
  · intro i c h1 h2; have := lt_of_getElem?_some h2; simp only at this; omega
  · intro i c h1 h2; have := lt_of_getElem?_some h2; simp only at this; omega

theorem rel_step {β γ : Type} (fuel : Nat) (ih : ∀ s s' v, AllocSh s s' fuel v) (val : β → PyVal)
    (mk : β → Nat → γ) (rf : γ → Nat) (hrf : ∀ y r, rf (mk y r) = r) (s s' : Store) (g : γ → γ)
    (hg : ∀ y r, g (mk y r) = mk y (r + s'.size - s.size)) (acc acc' : Store × List γ) (y : β)
    (R : Rel s s' g rf acc acc') : Rel s s' g rf (step fuel val mk acc y) (step fuel val mk acc' y) := by
  have H := ih acc.1 acc'.1 (val y)
  have OK := alloc_ok fuel acc.1 (val y)
  have OK' := alloc_ok fuel acc'.1 (val y)
  have hle := R.le
  have hsz := R.size
  refine ⟨?_, ?_, ?_, ?_, ?_, ?_⟩
  · exact Nat.le_trans R.le OK.ext.size_le
  · have := H.size; simp only [step]; omega
  · intro i c h1 h2
    simp only [step] at h2 ⊢
    rcases Nat.lt_or_ge i acc.1.size with hi | hi
    · rw [OK.ext.below i hi] at h2
      exact OK'.ext _ _ (R.cell i c h1 h2)
    · have e : i + s'.size - s.size = i + acc'.1.size - acc.1.size := by omega
      rw [e, H.cell i c hi h2]
      congr 1
      refine ren_congr c (fun x hx => ?_)
      have := (H.down i c hi h2 x hx).1
      simp only [sh]; omega
  · intro i c h1 h2 r hr
    simp only [step] at h2
    rcases Nat.lt_or_ge i acc.1.size with hi | hi
    · rw [OK.ext.below i hi] at h2
      exact R.down i c h1 h2 r hr
    · have := H.down i c hi h2 r hr; omega
  · simp only [step, R.lst, List.map_append, List.map_cons, List.map_nil, hg]
    congr 3
    have := H.root; have := OK.lo; omega
  · intro x hx
    simp only [step, List.mem_append, List.mem_singleton] at hx ⊢
    rcases hx with hx | rfl
    · have := R.rfs x hx; have := OK.ext.size_le; omega
    · rw [hrf]; have := OK.lo; have := OK.hi; omega

theorem rel_fold {β γ : Type} (fuel : Nat) (ih : ∀ s s' v, AllocSh s s' fuel v) (val : β → PyVal)
    (mk : β → Nat → γ) (rf : γ → Nat) (hrf : ∀ y r, rf (mk y r) = r) (s s' : Store) (g : γ → γ)
    (hg : ∀ y r, g (mk y r) = mk y (r + s'.size - s.size)) :
    ∀ (ys : List β) (acc acc' : Store × List γ), Rel s s' g rf acc acc' →
      Rel s s' g rf (ys.foldl (step fuel val mk) acc) (ys.foldl (step fuel val mk) acc') := by
  intro ys
  induction ys with
  | nil => intro acc acc' R; exact R
  | cons y ys ihy =>
    intro acc acc' R
    rw [List.foldl_cons, List.foldl_cons]
    exact ihy _ _ (rel_step fuel ih val mk rf hrf s s' g hg acc acc' y R)

/-- the container cell pushed after the fold -/
theorem rel_push {γ : Type} (s s' : Store) (g : γ → γ) (rf : γ → Nat) (R R' : Store × List γ)
    (mkc : List γ → Cell) (hren : ∀ l, ren (sh s.size s'.size) (mkc l) = mkc (l.map g))
    (hrefs : ∀ l, refs (mkc l) = l.map rf) (fuel : Nat) (v : PyVal)
    (e : Store.alloc s fuel v = (R.1.push (mkc R.2), R.1.size))
    (e' : Store.alloc s' fuel v = (R'.1.push (mkc R'.2), R'.1.size))
    (H : Rel s s' g rf R R') : AllocSh s s' fuel v := by
  have hle := H.le
  have hsz := H.size
  refine ⟨?_, ?_, ?_, ?_⟩
  · rw [e, e']; simp only [Array.size_push]; omega
  · rw [e, e']; simp only; omega
  · intro i c h1 h2
    rw [e] at h2; rw [e']
    simp only at h2 ⊢
    rw [Array.getElem?_push] at h2
    split at h2
    · rename_i hi
      cases h2
      have : i + s'.size - s.size = R'.1.size := by omega
      rw [this, Array.getElem?_push_size, hren, H.lst]
    · have h3 := H.cell i c h1 h2
      rw [Array.getElem?_push, if_neg (Nat.ne_of_lt (lt_of_getElem?_some h3))]
      exact h3
  · intro i c h1 h2 r hr
    rw [e] at h2
    simp only at h2
    rw [Array.getElem?_push] at h2
    split at h2
    · rename_i hi
      cases h2
      rw [hrefs, List.mem_map] at hr
      obtain ⟨x, hx, rfl⟩ := hr
      have := H.rfs x hx; omega
    · exact H.down i c h1 h2 r hr

theorem alloc_scalar_sh (s s' : Store) (fuel : Nat) (v : PyVal)
    (h : Store.alloc s fuel v = (s.push (.scalar v), s.size))
    (h' : Store.alloc s' fuel v = (s'.push (.scalar v), s'.size)) : AllocSh s s' fuel v := by
  refine ⟨?_, ?_, ?_, ?_⟩
  · rw [h, h']; simp only [Array.size_push]; omega
  · rw [h, h']; simp only; omega
  · intro i c h1 h2
    rw [h] at h2; rw [h']
    simp only at h2 ⊢
    rw [Array.getElem?_push] at h2
    split at h2
    · rename_i hi
      cases h2
      have : i + s'.size - s.size = s'.size := by omega
      rw [this, Array.getElem?_push_size]; rfl
    · have := lt_of_getElem?_some h2; omega
  · intro i c h1 h2 r hr
    rw [h] at h2
    simp only at h2
    rw [Array.getElem?_push] at h2
    split at h2
    · cases h2; simp [refs] at hr
    · have := lt_of_getElem?_some h2; omega

theorem alloc_sh : ∀ (fuel : Nat) (s s' : Store) (v : PyVal), AllocSh s s' fuel v := by
  intro fuel
  induction fuel with
  | zero => intro s s' v; exact alloc_scalar_sh s s' 0 v rfl rfl
  | succ fuel ih =>
    intro s s' v
    cases v with
    | list xs =>
      have hg : ∀ (y : PyVal) (r : Nat), sh s.size s'.size ((fun _ r => r) y r) =
          (fun (_ : PyVal) (r : Nat) => r) y (r + s'.size - s.size) := fun _ _ => rfl
      have R := rel_fold fuel ih id (fun (_ : PyVal) (r : Nat) => r) id (fun _ _ => rfl) s s'
        (sh s.size s'.size) hg xs _ _ (rel_init s s' _ _)
      exact rel_push s s' _ _ _ _ Cell.list (fun l => rfl) (fun l => by simp [refs]) (fuel + 1) (.list xs)
        (alloc_list_eq s fuel xs) (alloc_list_eq s' fuel xs) R
    | dict kvs =>
      have hg : ∀ (y : PyVal × PyVal) (r : Nat),
          (fun kv : PyVal × Nat => (kv.1, sh s.size s'.size kv.2)) ((fun (kv : PyVal × PyVal) r => (kv.1, r)) y r) =
          (fun (kv : PyVal × PyVal) (r : Nat) => (kv.1, r)) y (r + s'.size - s.size) := fun _ _ => rfl
      have R := rel_fold fuel ih (·.2) (fun (kv : PyVal × PyVal) (r : Nat) => (kv.1, r)) (·.2)
        (fun _ _ => rfl) s s' (fun kv : PyVal × Nat => (kv.1, sh s.size s'.size kv.2)) hg kvs _ _
        (rel_init s s' _ _)
      exact rel_push s s' _ _ _ _ Cell.dict (fun l => rfl) (fun l => rfl) (fuel + 1) (.dict kvs)
        (alloc_dict_eq s fuel kvs) (alloc_dict_eq s' fuel kvs) R
    | none => exact alloc_scalar_sh _ _ _ _ rfl rfl
    | bool b => exact alloc_scalar_sh _ _ _ _ rfl rfl
    | int n => exact alloc_scalar_sh _ _ _ _ rfl rfl
    | float k => exact alloc_scalar_sh _ _ _ _ rfl rfl
    | str s => exact alloc_scalar_sh _ _ _ _ rfl rfl
    | tuple xs => exact alloc_scalar_sh _ _ _ _ rfl rfl
    | type t => exact alloc_scalar_sh _ _ _ _ rfl rfl
    | obj n => exact alloc_scalar_sh _ _ _ _ rfl rfl

/-- **allocating the same value in a second store embeds the first block into the second** -/
theorem alloc_emb (s0 s : Store) (fuel : Nat) (v : PyVal) (hs : s0.size ≤ s.size) :
    Emb (sh s0.size s.size) s0.size (Store.alloc s0 fuel v).1 (Store.alloc s fuel v).1 ∧
      sh s0.size s.size (Store.alloc s0 fuel v).2 = (Store.alloc s fuel v).2 ∧
      ∀ i, s0.size ≤ i → s.size ≤ sh s0.size s.size i := by
  have H := alloc_sh fuel s0 s v
  have OK := alloc_ok fuel s0 v
  refine ⟨⟨?_, ?_, ?_, ?_⟩, ?_, ?_⟩
  · intro i c h1 h2
    exact H.cell i c h1 h2
  · intro i c h1 h2 x hx
    have := H.down i c h1 h2 x hx
    have := lt_of_getElem?_some h2
    omega
  · intro i j hi1 _ hj1 _ e
    simp only [sh] at e; omega
  · intro i h1 _
    simp only [sh]; omega
  · have := H.root; have := OK.lo
    simp only [sh]; omega
  · intro i hi
    simp only [sh]; omega

end ValidaProofs.C08T
