/-
  ValidaProofs.Lemmas.C03Walk — the frontier walk (`stepFrontier`, `walkParts`) against the
  depth-first `walk`, for an arbitrary total `children` function that agrees with `stepNode`.
-/
import Valida.Path
import ValidaSpec.Walk
import ValidaProofs.Lemmas.Basic
namespace ValidaProofs.C03
open Valida ValidaGen ValidaSpec

/-! ### lock-step (no assumption on the steps) -/

theorem stepFrontier_length (part : Part) (first : Bool) (data : List PyVal) (paths : List (List PyVal))
    (idx : Nat) (d' : List PyVal) (p' : List (List PyVal))
    (h : stepFrontier part first data paths idx = .ok (d', p')) : d'.length = p'.length := by
  induction data generalizing idx d' p' with
  | nil => simp [stepFrontier] at h; obtain ⟨rfl, rfl⟩ := h; rfl
  | cons node rest ih =>
    simp only [stepFrontier, bind, Except.bind] at h
    cases hs : stepNode part node with
    | error e => simp [hs] at h
    | ok kvs =>
      simp only [hs] at h
      cases hr : stepFrontier part first rest paths (idx + 1) with
      | error e =>
        cases first <;> simp [hr, pure, Except.pure] at h
        · split at h <;> try split at h
          all_goals simp at h
      | ok r =>
        obtain ⟨d2, p2⟩ := r
        have hl := ih (idx + 1) d2 p2 hr
        cases first with
        | true =>
          simp [hr, pure, Except.pure] at h
          obtain ⟨rfl, rfl⟩ := h
          simp [hl]
        | false =>
          simp only [hr, Bool.false_eq_true, if_false] at h
          split at h
          · simp [pure, Except.pure] at h
            obtain ⟨rfl, rfl⟩ := h
            simp [hl]
          · split at h
            · rename_i hk
              simp [pure, Except.pure] at h
              obtain ⟨rfl, rfl⟩ := h
              simp at hk
              simp [hl, hk]
            · simp [throw, throwThe, MonadExceptOf.throw] at h

theorem walkParts_length (parts : List Part) (first : Bool) (data : List PyVal) (paths : List (List PyVal))
    (d' : List PyVal) (p' : List (List PyVal))
    (hlen : parts ≠ [] ∨ data.length = paths.length)
    (h : walkParts parts first data paths = .ok (d', p')) : d'.length = p'.length := by
  induction parts generalizing first data paths with
  | nil =>
    simp [walkParts] at h
    obtain ⟨rfl, rfl⟩ := h
    simpa using hlen
  | cons part rest ih =>
    simp only [walkParts, bind, Except.bind] at h
    cases hs : stepFrontier part first data paths 0 with
    | error e => simp [hs] at h
    | ok r =>
      obtain ⟨d1, p1⟩ := r
      simp only [hs] at h
      exact ih false d1 p1 (Or.inr (stepFrontier_length _ _ _ _ _ _ _ hs)) h

/-! ### the frontier walk is the depth-first walk -/

section
variable (ch : Part → PyVal → List (PyVal × PyVal))

/-- one level, every node of the frontier expanded with its own prefix -/
def expand (part : Part) (np : PyVal × List PyVal) : List (PyVal × List PyVal) :=
  (ch part np.1).map (fun kv => (kv.2, np.2 ++ [kv.1]))

theorem stepFrontier_false (part : Part) (hs : ∀ node, stepNode part node = .ok (ch part node))
    (data : List PyVal) (paths : List (List PyVal)) (idx : Nat)
    (hlen : idx + data.length ≤ paths.length) :
    ∃ d' p', stepFrontier part false data paths idx = .ok (d', p') ∧ d'.length = p'.length ∧
      d'.zip p' = (data.zip (paths.drop idx)).flatMap (expand ch part) := by
  induction data generalizing idx with
  | nil => exact ⟨[], [], by simp [stepFrontier]⟩
  | cons node rest ih =>
    simp only [List.length_cons] at hlen
    obtain ⟨d2, p2, h2, hl2, hz2⟩ := ih (idx + 1) (by omega)
    have hi : idx < paths.length := by omega
    have hdrop : paths.drop idx = paths[idx] :: paths.drop (idx + 1) := List.drop_eq_getElem_cons hi
    refine ⟨(ch part node).map (·.2) ++ d2, (ch part node).map (fun kv => paths[idx] ++ [kv.1]) ++ p2, ?_, ?_, ?_⟩
    · simp [stepFrontier, bind, Except.bind, hs, h2, List.getElem?_eq_getElem hi, pure, Except.pure]
    · simp [hl2]
    · rw [List.zip_append (by simp), hz2, hdrop]
      simp only [List.zip_cons_cons, List.flatMap_cons, List.zip_map']
      simp [expand]

theorem walkParts_false (parts : List Part)
    (hs : ∀ p ∈ parts, ∀ node, stepNode p node = .ok (ch p node))
    (data : List PyVal) (paths : List (List PyVal)) (hlen : data.length = paths.length) :
    ∃ d' p', walkParts parts false data paths = .ok (d', p') ∧ d'.length = p'.length ∧
      d'.zip p' = (data.zip paths).flatMap (fun np => walk ch parts np.1 np.2) := by
  induction parts generalizing data paths with
  | nil => exact ⟨data, paths, by simp [walkParts, hlen, walk]⟩
  | cons part rest ih =>
    obtain ⟨d1, p1, h1, hl1, hz1⟩ :=
      stepFrontier_false ch part (hs part (by simp)) data paths 0 (by omega)
    obtain ⟨d2, p2, h2, hl2, hz2⟩ := ih (fun p hp => hs p (by simp [hp])) d1 p1 hl1
    refine ⟨d2, p2, ?_, hl2, ?_⟩
    · simp [walkParts, bind, Except.bind, h1, h2]
    · rw [hz2, hz1, List.drop_zero, List.flatMap_assoc]
      congr 1
      funext np
      simp [expand, walk, List.flatMap_map]

theorem walkParts_true (parts : List Part) (hne : parts ≠ [])
    (hs : ∀ p ∈ parts, ∀ node, stepNode p node = .ok (ch p node)) (doc : PyVal) :
    ∃ d' p', walkParts parts true [doc] [] = .ok (d', p') ∧ d'.length = p'.length ∧
      d'.zip p' = walk ch parts doc [] := by
  cases parts with
  | nil => exact absurd rfl hne
  | cons part rest =>
    obtain ⟨d2, p2, h2, hl2, hz2⟩ := walkParts_false ch rest (fun p hp => hs p (by simp [hp]))
      ((ch part doc).map (·.2)) ((ch part doc).map (fun kv => [kv.1])) (by simp)
    refine ⟨d2, p2, ?_, hl2, ?_⟩
    · simp [walkParts, stepFrontier, bind, Except.bind, hs part (by simp) doc, pure, Except.pure, h2]
    · rw [hz2]
      simp [walk, List.zip_map', List.flatMap_map]

end

/-! ### small facts used by `C03_get_data` / C04 -/

theorem mapM_ok_id (xs : List PyVal) : xs.mapM (datumFn .none) = .ok xs := by
  induction xs with
  | nil => rfl
  | cons x xs ih => simp [List.mapM_cons, ih, datumFn, bind, Except.bind, pure, Except.pure]

theorem mapM_except_length {α β : Type} (f : α → Except Exc β) (xs : List α) (ys : List β)
    (h : xs.mapM f = .ok ys) : ys.length = xs.length := by
  induction xs generalizing ys with
  | nil => simp [pure, Except.pure] at h; subst h; rfl
  | cons x xs ih =>
    simp only [List.mapM_cons, bind, Except.bind] at h
    cases hx : f x with
    | error e => simp [hx] at h
    | ok y =>
      simp only [hx] at h
      cases hxs : xs.mapM f with
      | error e => simp [hxs] at h
      | ok ys' =>
        simp [hxs, pure, Except.pure] at h
        subst h
        simp [ih ys' hxs]

/-- `get_data(return_paths=True)` of a modifier-free path, given the outcome of the frontier walk -/
theorem getData_of_walk (p : Path) (doc : PyVal) (nodes : List PyVal) (paths : List (List PyVal))
    (hne : p.parts ≠ []) (hsrc : p.source = none) (hdoc : PyVal.truthy doc = true)
    (hd : p.datum = .none) (hm : p.multi = .none)
    (h : walkParts p.parts true [doc] [] = .ok (nodes, paths)) (hl : nodes.length = paths.length) :
    p.getData (some doc) true =
      (let sel := (nodes.zip paths).map (fun vq => PyVal.tuple [vq.1, .tuple vq.2])
       if sel.isEmpty then .ok (if p.concrete then .none else .list [])
       else if p.concrete then (match sel.head? with | some v => .ok v | none => .error .indexError)
       else .ok (.list sel)) := by
  have hne' : p.parts.isEmpty = false := by cases hp : p.parts <;> simp_all
  have hemp : (nodes.zip paths).isEmpty = nodes.isEmpty := by
    cases nodes <;> cases paths <;> simp_all
  simp only [Path.getData, hsrc, hdoc, hd, hm, hne', h, bind, Except.bind, pure, Except.pure, if_true,
    Bool.false_eq_true, if_false, mapM_ok_id, matchMulti, List.isEmpty_map, hemp]
  cases nodes.isEmpty <;> simp
  cases p.concrete <;> simp
  cases (nodes.zip paths).head? <;> rfl

end ValidaProofs.C03
