/-
  Lemmas for C13FloatText: the float `repr` model reads back.
  * `nearestDoubleQ` depends only on the rational number `num / den` (`ndq_of_cross`);
  * what `shortestAt` / `shortestFrom` return passed the read-back test (`shortestAt_spec`);
  * the plain-decimal reader `pyFloatOfStr` on `digits.digits` text (`pyFloatOfStr_plain`).
-/
import Valida.Repr
import Valida.Spec.Parse
namespace ValidaProofs.C13F
open Valida Valida.Repr

/-! ### the rounding function depends only on the rational -/

/-- `nearestDoubleQ` with the scaled numerator made explicit -/
def roundN (n den : Nat) : Nat :=
  let q := n / den
  let bits := if q == 0 then 0 else Nat.log2 q + 1
  let shift := bits - 53
  let d := den * 2 ^ shift
  let q' := n / d
  let rem := n % d
  let q'' := if 2 * rem > d || (2 * rem == d && q' % 2 == 1) then q' + 1 else q'
  q'' * 2 ^ shift

theorem ndq_eq_roundN (num den : Nat) : nearestDoubleQ num den = roundN (num * 2 ^ 1074) den := rfl

theorem roundN_scale (n den c : Nat) (hc : 0 < c) : roundN (n * c) (den * c) = roundN n den := by
  unfold roundN
  simp only [Nat.mul_div_mul_right n den hc]
  generalize (if (n / den == 0) = true then 0 else (n / den).log2 + 1) - 53 = shift
  have hd : den * c * 2 ^ shift = (den * 2 ^ shift) * c := Nat.mul_right_comm _ _ _
  rw [hd, Nat.mul_div_mul_right _ _ hc, Nat.mul_mod_mul_right]
  generalize den * 2 ^ shift = D
  generalize n % D = r
  have h1 : (2 * (r * c) > D * c) ↔ (2 * r > D) := by
    rw [← Nat.mul_assoc]; exact Nat.mul_lt_mul_right hc
  have h2 : (2 * (r * c) == D * c) = (2 * r == D) := by
    rw [← Nat.mul_assoc, Bool.eq_iff_iff]
    simp only [beq_iff_eq]
    exact Nat.mul_right_cancel_iff hc
  rw [h2]
  simp only [h1]

/-- scaling numerator and denominator by the same positive factor does not change the result -/
theorem ndq_scale (a b c : Nat) (hc : 0 < c) : nearestDoubleQ (a * c) (b * c) = nearestDoubleQ a b := by
  rw [ndq_eq_roundN, ndq_eq_roundN, Nat.mul_right_comm a c, roundN_scale _ _ _ hc]

/-- equal rationals (cross-multiplied) round to the same double -/
theorem ndq_of_cross (a b a' b' : Nat) (hb : 0 < b) (hb' : 0 < b') (h : a * b' = a' * b) :
    nearestDoubleQ a b = nearestDoubleQ a' b' := by
  rw [← ndq_scale a b b' hb', h, Nat.mul_comm b b', ndq_scale a' b' b hb]

/-! ### `candFrac` -/

/-- the double a candidate `m · 10^(-sh)` reads back as -/
def readBack (m : Nat) (sh : Int) : Nat := nearestDoubleQ (candFrac m sh).1 (candFrac m sh).2

theorem candFrac_spec (m : Nat) (sh : Int) :
    0 < (candFrac m sh).2 ∧
      (candFrac m sh).1 * 10 ^ sh.toNat = m * 10 ^ (-sh).toNat * (candFrac m sh).2 := by
  unfold candFrac
  split
  · rename_i h
    have : (-sh).toNat = 0 := by omega
    simp [this, Nat.pow_pos]
  · rename_i h
    have : sh.toNat = 0 := by omega
    simp [this]

/-- `readBack` through any fraction equal to `m · 10^(-sh)` -/
theorem readBack_eq (m : Nat) (sh : Int) (a b : Nat) (hb : 0 < b)
    (h : a * 10 ^ sh.toNat = m * 10 ^ (-sh).toNat * b) : readBack m sh = nearestDoubleQ a b := by
  obtain ⟨hp, hs⟩ := candFrac_spec m sh
  unfold readBack
  apply ndq_of_cross _ _ _ _ hp hb
  have h10 : 0 < 10 ^ sh.toNat := Nat.pow_pos (by decide)
  apply Nat.eq_of_mul_eq_mul_right h10
  calc (candFrac m sh).1 * b * 10 ^ sh.toNat
      = (candFrac m sh).1 * 10 ^ sh.toNat * b := Nat.mul_right_comm _ _ _
    _ = m * 10 ^ (-sh).toNat * (candFrac m sh).2 * b := by rw [hs]
    _ = m * 10 ^ (-sh).toNat * b * (candFrac m sh).2 := Nat.mul_right_comm _ _ _
    _ = a * 10 ^ sh.toNat * (candFrac m sh).2 := by rw [h]
    _ = a * (candFrac m sh).2 * 10 ^ sh.toNat := Nat.mul_right_comm _ _ _

/-- the carry: `10^n` at exponent `e` is `10^(n-1)` at exponent `e+1` -/
theorem readBack_carry (n : Nat) (hn : 1 ≤ n) (sh : Int) :
    readBack (10 ^ (n - 1)) (sh - 1) = readBack (10 ^ n) sh := by
  obtain ⟨p, rfl⟩ : ∃ p, n = p + 1 := ⟨n - 1, by omega⟩
  simp only [Nat.add_sub_cancel]
  symm
  apply readBack_eq _ _ _ _ (candFrac_spec _ _).1
  obtain ⟨hp', hs'⟩ := candFrac_spec (10 ^ p) (sh - 1)
  by_cases h : sh ≥ 1
  · have e1 : sh.toNat = (sh - 1).toNat + 1 := by omega
    have e2 : (-sh).toNat = 0 := by omega
    have e3 : (-(sh - 1)).toNat = 0 := by omega
    rw [e3] at hs'
    rw [e1, e2, Nat.pow_succ, ← Nat.mul_assoc, hs']
    simp only [Nat.pow_zero, Nat.mul_one, Nat.pow_succ]
    rw [Nat.mul_right_comm]
  · have e1 : sh.toNat = 0 := by omega
    have e2 : (sh - 1).toNat = 0 := by omega
    have e3 : (-(sh - 1)).toNat = (-sh).toNat + 1 := by omega
    rw [e2, e3] at hs'
    simp only [Nat.pow_zero, Nat.mul_one] at hs'
    rw [e1, Nat.pow_zero, Nat.mul_one, hs']
    simp only [Nat.pow_succ, Nat.mul_assoc, Nat.mul_comm, Nat.mul_left_comm]

/-! ### `shortestAt` / `shortestFrom` -/

/-- the acceptance test of `shortestAt` -/
def okC (k n : Nat) (sh : Int) (m : Nat) : Bool :=
  decide (m ≥ 10 ^ (n - 1)) && decide (m ≤ 10 ^ n) && readBack m sh == k

/-- the carry normalisation of `shortestAt` -/
def normC (n : Nat) (e : Int) (m : Nat) : Nat × Int :=
  if m == 10 ^ n then (10 ^ (n - 1), e + 1) else (m, e)

theorem shortestAt_cases (k : Nat) (e : Int) (n : Nat) (r : Nat × Int)
    (h : shortestAt k e n = some r) :
    ∃ m, okC k n (Int.ofNat n - e) m = true ∧ r = normC n e m := by
  unfold shortestAt at h
  simp only [] at h
  generalize (if Int.ofNat n - e ≥ 0 then (k * 10 ^ (Int.ofNat n - e).toNat, 2 ^ 1074)
    else (k, 2 ^ 1074 * 10 ^ (-(Int.ofNat n - e)).toNat)) = p at h
  generalize p.1 / p.2 = lo at h
  have hlo : ∀ m, (decide (m ≥ 10 ^ (n - 1)) && decide (m ≤ 10 ^ n) &&
      nearestDoubleQ (candFrac m (Int.ofNat n - e)).fst (candFrac m (Int.ofNat n - e)).snd == k)
      = okC k n (Int.ofNat n - e) m := fun _ => rfl
  have hnm : ∀ m, (if (m == 10 ^ n) = true then (10 ^ (n - 1), e + 1) else (m, e)) = normC n e m :=
    fun _ => rfl
  simp only [hlo, hnm] at h
  clear hlo hnm
  split at h
  · rename_i c; simp only [Bool.and_eq_true] at c
    exact ⟨lo, c.2, (Option.some.inj h).symm⟩
  · split at h
    · rename_i c; simp only [Bool.and_eq_true] at c
      split at h
      · exact ⟨lo, c.1, (Option.some.inj h).symm⟩
      · exact ⟨lo + 1, c.2, (Option.some.inj h).symm⟩
    · split at h
      · rename_i c; exact ⟨lo, c, (Option.some.inj h).symm⟩
      · split at h
        · rename_i c; exact ⟨lo + 1, c, (Option.some.inj h).symm⟩
        · cases h

/-- what `shortestAt` returns: an `n`-digit mantissa, at the exponent asked for or (after a carry)
    one higher, that reads back as `k` -/
theorem shortestAt_spec (k : Nat) (e : Int) (n : Nat) (hn : 1 ≤ n) (m : Nat) (e' : Int)
    (h : shortestAt k e n = some (m, e')) :
    readBack m (Int.ofNat n - e') = k ∧ 10 ^ (n - 1) ≤ m ∧ m < 10 ^ n ∧ (e' = e ∨ e' = e + 1) := by
  obtain ⟨m0, hok, hr⟩ := shortestAt_cases k e n _ h
  unfold okC at hok
  simp only [Bool.and_eq_true, decide_eq_true_eq, beq_iff_eq] at hok
  obtain ⟨⟨h1, h2⟩, h3⟩ := hok
  unfold normC at hr
  have hpow : 10 ^ (n - 1) < 10 ^ n := Nat.pow_lt_pow_right (by decide) (by omega)
  split at hr
  · rename_i c
    have c' : m0 = 10 ^ n := by simpa using c
    cases hr
    subst c'
    refine ⟨?_, Nat.le_refl _, hpow, Or.inr rfl⟩
    have : Int.ofNat n - (e + 1) = (Int.ofNat n - e) - 1 := by omega
    rw [this, readBack_carry n hn, h3]
  · rename_i c
    have c' : m0 ≠ 10 ^ n := by simpa using c
    cases hr
    exact ⟨h3, h1, by omega, Or.inl rfl⟩

theorem shortestFrom_spec (k : Nat) (e : Int) (fuel : Nat) :
    ∀ (n0 : Nat), 1 ≤ n0 → ∀ (m : Nat) (e' : Int) (n : Nat),
      shortestFrom k e fuel n0 = some (m, e', n) →
      shortestAt k e n = some (m, e') ∧ n0 ≤ n ∧ n < n0 + fuel ∧
        ∀ n', n0 ≤ n' → n' < n → shortestAt k e n' = none := by
  induction fuel with
  | zero => intro n0 _ m e' n h; simp [shortestFrom] at h
  | succ fuel ih =>
    intro n0 hn0 m e' n h
    unfold shortestFrom at h
    split at h
    · rename_i m1 e1 heq
      cases h
      exact ⟨heq, Nat.le_refl _, by omega, fun n' h1 h2 => by omega⟩
    · rename_i heq
      obtain ⟨a, b, c, d⟩ := ih (n0 + 1) (by omega) m e' n h
      refine ⟨a, by omega, by omega, fun n' h1 h2 => ?_⟩
      by_cases hh : n' = n0
      · subst hh; exact heq
      · exact d n' (by omega) h2

/-! ### the reader -/

/-- the two rounding functions (written separately in `Parse.lean` and `Repr.lean`) agree -/
theorem nearestDouble_eq_ndq (n j : Nat) : nearestDouble n j = Int.ofNat (nearestDoubleQ n (10 ^ j)) := rfl

theorem foldl_digits_eq (l : List Char) (init : Nat) :
    l.foldl (fun acc c => acc * 10 + (c.toNat - '0'.toNat)) init = Nat.ofDigitChars 10 l init := by
  unfold Nat.ofDigitChars
  congr 1
  funext acc c
  rw [Nat.mul_comm]

theorem not_digit_dot : isAsciiDigit '.' = false := by decide

theorem digit_ne_sign (c : Char) (h : isAsciiDigit c = true) : c ≠ '-' ∧ c ≠ '+' := by
  constructor <;> (intro hc; subst hc; revert h; decide)

/-- the sign stage of `pyFloatOfStr` -/
def signSplit (cs : List Char) : Bool × List Char :=
  match cs with
  | '-' :: r => (true, r)
  | '+' :: r => (false, r)
  | r => (false, r)

/-- the fraction stage of `pyFloatOfStr` -/
def fracSplit (rest : List Char) : List Char × List Char :=
  match rest with
  | '.' :: r => (r.takeWhile isAsciiDigit, r.dropWhile isAsciiDigit)
  | r => ([], r)

/-- `pyFloatOfStr` after the sign has been split off -/
def floatCore (neg : Bool) (ds : List Char) : R :=
  let intPart := ds.takeWhile isAsciiDigit
  let rest := ds.dropWhile isAsciiDigit
  let frac := (fracSplit rest).1
  let tail := (fracSplit rest).2
  if !tail.isEmpty || (intPart.isEmpty && frac.isEmpty) then .error .unmodelled else
  let digits := intPart ++ frac
  let n := digits.foldl (fun acc c => acc * 10 + (c.toNat - '0'.toNat)) 0
  let v := nearestDouble n frac.length
  if v ≥ 2 ^ 2098 then .error .unmodelled else
  .ok (.float (if neg then -v else v))

theorem pyFloatOfStr_eq (s : String) :
    pyFloatOfStr s = floatCore (signSplit s.toList).1 (signSplit s.toList).2 := rfl

theorem signSplit_digit (c : Char) (l : List Char) (h : isAsciiDigit c = true) :
    signSplit (c :: l) = (false, c :: l) := by
  have hc := digit_ne_sign c h
  unfold signSplit
  split
  · rename_i heq; cases heq; exact absurd rfl hc.1
  · rename_i heq; cases heq; exact absurd rfl hc.2
  · rfl

theorem signSplit_minus (l : List Char) : signSplit ('-' :: l) = (true, l) := rfl

theorem takeWhile_all {α} (p : α → Bool) (l : List α) (h : ∀ a ∈ l, p a = true) :
    l.takeWhile p = l ∧ l.dropWhile p = [] := by
  induction l with
  | nil => simp
  | cons a t ih =>
    have ha := h a (by simp)
    have := ih (fun b hb => h b (by simp [hb]))
    simp [ha, this]

/-- `float("digits.digits")` after the sign -/
theorem floatCore_plain (neg : Bool) (ip fr : List Char) (hip : ∀ c ∈ ip, isAsciiDigit c = true)
    (hfr : ∀ c ∈ fr, isAsciiDigit c = true) (hne : ip ≠ [])
    (hv : nearestDouble (Nat.ofDigitChars 10 (ip ++ fr) 0) fr.length < 2 ^ 2098) :
    floatCore neg (ip ++ '.' :: fr) =
      .ok (.float (if neg then -nearestDouble (Nat.ofDigitChars 10 (ip ++ fr) 0) fr.length
        else nearestDouble (Nat.ofDigitChars 10 (ip ++ fr) 0) fr.length)) := by
  have h1 : (ip ++ '.' :: fr).takeWhile isAsciiDigit = ip := by
    rw [List.takeWhile_append_of_pos hip, List.takeWhile_cons, not_digit_dot]; simp
  have h2 : (ip ++ '.' :: fr).dropWhile isAsciiDigit = '.' :: fr := by
    rw [List.dropWhile_append_of_pos hip, List.dropWhile_cons, not_digit_dot]; simp
  have h3 : fracSplit ('.' :: fr) = (fr, []) := by
    show (fr.takeWhile isAsciiDigit, fr.dropWhile isAsciiDigit) = (fr, [])
    rw [(takeWhile_all _ fr hfr).1, (takeWhile_all _ fr hfr).2]
  unfold floatCore
  simp only [h1, h2, h3, foldl_digits_eq]
  have h4 : ip.isEmpty = false := by
    cases ip with
    | nil => exact absurd rfl hne
    | cons => rfl
  simp only [h4, List.isEmpty_nil, Bool.not_true, Bool.false_and, Bool.or_self, Bool.false_eq_true,
    if_false]
  rw [if_neg (Int.not_le.mpr hv)]

/-- `float("digits.digits")` -/
theorem pyFloatOfStr_pos (ip fr : List Char) (hip : ∀ c ∈ ip, isAsciiDigit c = true)
    (hfr : ∀ c ∈ fr, isAsciiDigit c = true) (hne : ip ≠ [])
    (hv : nearestDouble (Nat.ofDigitChars 10 (ip ++ fr) 0) fr.length < 2 ^ 2098) :
    pyFloatOfStr (String.ofList (ip ++ '.' :: fr)) =
      .ok (.float (nearestDouble (Nat.ofDigitChars 10 (ip ++ fr) 0) fr.length)) := by
  rw [pyFloatOfStr_eq, String.toList_ofList]
  have hs : signSplit (ip ++ '.' :: fr) = (false, ip ++ '.' :: fr) := by
    obtain ⟨c, ip', rfl⟩ := List.exists_cons_of_ne_nil hne
    exact signSplit_digit c _ (hip c (by simp))
  rw [hs]
  have h := floatCore_plain false ip fr hip hfr hne hv
  rw [if_neg Bool.false_ne_true] at h
  exact h

/-- `float("-digits.digits")` -/
theorem pyFloatOfStr_neg (ip fr : List Char) (hip : ∀ c ∈ ip, isAsciiDigit c = true)
    (hfr : ∀ c ∈ fr, isAsciiDigit c = true) (hne : ip ≠ [])
    (hv : nearestDouble (Nat.ofDigitChars 10 (ip ++ fr) 0) fr.length < 2 ^ 2098) :
    pyFloatOfStr (String.ofList ('-' :: (ip ++ '.' :: fr))) =
      .ok (.float (-nearestDouble (Nat.ofDigitChars 10 (ip ++ fr) 0) fr.length)) := by
  rw [pyFloatOfStr_eq, String.toList_ofList, signSplit_minus]
  have h := floatCore_plain true ip fr hip hfr hne hv
  rw [if_pos rfl] at h
  exact h

theorem cast_lt_bound (a : Nat) (h : a < 2 ^ 2098) : (a : Int) < 2 ^ 2098 := by
  exact Int.lt_of_lt_of_le (Int.ofNat_lt.mpr h) (Int.le_of_eq (Int.natCast_pow 2 2098))

/-! ### the digits of the mantissa -/

theorem isAsciiDigit_of_isDigit (c : Char) (h : c.isDigit = true) : isAsciiDigit c = true := by
  unfold Char.isDigit at h
  unfold isAsciiDigit
  simp only [Bool.and_eq_true, decide_eq_true_eq] at h ⊢
  exact ⟨by simpa [Char.le_def] using h.1, by simpa [Char.le_def] using h.2⟩

theorem digits_toDigits (m : Nat) : ∀ c ∈ Nat.toDigits 10 m, isAsciiDigit c = true :=
  fun _ hc => isAsciiDigit_of_isDigit _ (Nat.isDigit_of_mem_toDigits (by decide) (by decide) hc)

/-- dropping the trailing zeros -/
theorem strip_zeros (l : List Char) :
    ∃ t, l = (l.reverse.dropWhile (· == '0')).reverse ++ List.replicate t '0' := by
  refine ⟨(l.reverse.takeWhile (· == '0')).length, ?_⟩
  have h1 : l.reverse.takeWhile (· == '0') =
      List.replicate (l.reverse.takeWhile (· == '0')).length '0' := by
    rw [List.eq_replicate_iff]
    refine ⟨rfl, fun b hb => ?_⟩
    have := List.all_eq_true.mp (List.all_takeWhile (p := (· == '0')) (l := l.reverse)) b hb
    simpa using this
  have h2 := List.takeWhile_append_dropWhile (p := (· == '0')) (l := l.reverse)
  have h3 : l = (l.reverse.dropWhile (· == '0')).reverse ++ (l.reverse.takeWhile (· == '0')).reverse := by
    rw [← List.reverse_append, h2, List.reverse_reverse]
  rw [h1, List.reverse_replicate] at h3
  exact h3

theorem length_toDigits_eq (m n : Nat) (hn : 1 ≤ n) (h1 : 10 ^ (n - 1) ≤ m) (h2 : m < 10 ^ n) :
    (Nat.toDigits 10 m).length = n := by
  have a := (Nat.length_toDigits_le_iff (b := 10) (n := m) (k := n) (by decide) hn).mpr h2
  by_cases h : n = 1
  · have := Nat.length_toDigits_pos (b := 10) (n := m); omega
  · have b := (Nat.length_toDigits_le_iff (b := 10) (n := m) (k := n - 1) (by decide) (by omega))
    have : ¬ (Nat.toDigits 10 m).length ≤ n - 1 := fun hh => by have := b.mp hh; omega
    omega

/-- plain decimal text `digits.digits` whose value rounds to `k` -/
def PlainText (s : String) (k : Nat) : Prop :=
  ∃ ip fr, s = String.ofList (ip ++ '.' :: fr) ∧ (∀ c ∈ ip, isAsciiDigit c = true) ∧
    (∀ c ∈ fr, isAsciiDigit c = true) ∧ ip ≠ [] ∧
    nearestDoubleQ (Nat.ofDigitChars 10 (ip ++ fr) 0) (10 ^ fr.length) = k

theorem PlainText.no_e {s : String} {k : Nat} (h : PlainText s k) : 'e' ∉ s.toList := by
  obtain ⟨ip, fr, rfl, hip, hfr, -, -⟩ := h
  rw [String.toList_ofList]
  intro hc
  rcases List.mem_append.mp hc with hc | hc
  · exact absurd (hip _ hc) (by decide)
  · rcases List.mem_cons.mp hc with hc | hc
    · exact absurd hc (by decide)
    · exact absurd (hfr _ hc) (by decide)

/-- the text of `reprPosFloat`: for a decimal point position in `(-4, 16]` plain decimal text whose
    value rounds to `k`; otherwise text with an `e` -/
theorem reprPosFloat_shape (k : Nat) (s : String) (h : reprPosFloat k = .ok s) :
    ∃ m e n0, shortestFrom k (decpt k) 17 1 = some (m, e, n0) ∧
      ((-4 < e ∧ e ≤ 16 ∧ PlainText s k) ∨ (¬(-4 < e ∧ e ≤ 16) ∧ 'e' ∈ s.toList)) := by
  unfold reprPosFloat at h
  split at h
  · cases h
  · rename_i m e n0 hsf
    refine ⟨m, e, n0, hsf, ?_⟩
    simp only [] at h
    obtain ⟨hat, hn0, -, -⟩ := shortestFrom_spec k (decpt k) 17 1 (Nat.le_refl 1) m e n0 hsf
    obtain ⟨hrb, hlo, hhi, -⟩ := shortestAt_spec k (decpt k) n0 hn0 m e hat
    have hds0 : (toString m).toList = Nat.toDigits 10 m := by simp
    rw [hds0] at h
    obtain ⟨t, ht⟩ := strip_zeros (Nat.toDigits 10 m)
    generalize hdsl : (List.dropWhile (fun x => x == '0') (Nat.toDigits 10 m).reverse).reverse = dsl
      at h ht
    have hdig : ∀ c ∈ dsl, isAsciiDigit c = true :=
      fun c hc => digits_toDigits m c (by rw [ht]; simp [hc])
    have hval : m = 10 ^ t * Nat.ofDigitChars 10 dsl 0 := by
      have := Nat.ofDigitChars_ten_toDigits (n := m)
      rw [ht, Nat.ofDigitChars_append, Nat.ofDigitChars_replicate_zero] at this
      exact this.symm
    have hlen : dsl.length + t = n0 := by
      have := length_toDigits_eq m n0 hn0 hlo hhi
      rw [ht] at this
      simpa using this
    have hpos : 0 < m := Nat.lt_of_lt_of_le (Nat.pow_pos (by decide)) hlo
    have hL : dsl.length ≠ 0 := by
      intro h0
      have : dsl = [] := List.length_eq_zero_iff.mp h0
      subst this
      simp at hval
      omega
    have hn : (if (dsl.length == 0) = true then n0 else dsl.length) = dsl.length := by simp [hL]
    simp only [hn, String.toList_ofList] at h
    clear hn hdsl hds0 hsf hat
    generalize hv : Nat.ofDigitChars 10 dsl 0 = v at hval
    have h10 : ∀ j, 0 < 10 ^ j := fun j => Nat.pow_pos (by decide)
    split at h
    · rename_i hfx
      simp only [Bool.and_eq_true, decide_eq_true_eq] at hfx
      refine Or.inl ⟨hfx.1, hfx.2, ?_⟩
      split at h
      · -- 0.000ddd
        rename_i _ he
        have hs := (Except.ok.inj h).symm
        refine ⟨['0'], List.replicate (-e).toNat '0' ++ dsl, ?_, ?_, ?_, by simp, ?_⟩
        · rw [hs]; apply String.toList_inj.mp
          simp [String.toList_append, zeros]
        · intro c hc; simp at hc; subst hc; decide
        · intro c hc
          rcases List.mem_append.mp hc with hc | hc
          · rw [(List.mem_replicate.mp hc).2]; decide
          · exact hdig c hc
        · have hvv : Nat.ofDigitChars 10 (['0'] ++ (List.replicate (-e).toNat '0' ++ dsl)) 0 = v := by
            rw [Nat.ofDigitChars_append, Nat.ofDigitChars_append, Nat.ofDigitChars_replicate_zero]
            simpa [Nat.ofDigitChars_cons] using hv
          rw [hvv, ← hrb]; symm
          apply readBack_eq _ _ _ _ (h10 _)
          have e1 : (Int.ofNat n0 - e).toNat = dsl.length + t + (-e).toNat := by
            simp only [Int.ofNat_eq_natCast]; omega
          have e2 : (-(Int.ofNat n0 - e)).toNat = 0 := by
            simp only [Int.ofNat_eq_natCast]; omega
          rw [e1, e2, hval, List.length_append, List.length_replicate]
          simp only [Nat.pow_add, Nat.pow_zero, Nat.mul_one]
          ac_rfl
      · split at h
        · -- ddd000.0
          rename_i _ he hge
          have hs := (Except.ok.inj h).symm
          refine ⟨dsl ++ List.replicate (e.toNat - dsl.length) '0', ['0'], ?_, ?_, ?_, ?_, ?_⟩
          · rw [hs]; apply String.toList_inj.mp
            simp [String.toList_append, zeros]
          · intro c hc
            rcases List.mem_append.mp hc with hc | hc
            · exact hdig c hc
            · rw [(List.mem_replicate.mp hc).2]; decide
          · intro c hc; simp at hc; subst hc; decide
          · intro h0; exact hL (by simpa using congrArg List.length (List.append_eq_nil_iff.mp h0).1)
          · have hvv : Nat.ofDigitChars 10 (dsl ++ List.replicate (e.toNat - dsl.length) '0' ++ ['0']) 0
                = 10 * (10 ^ (e.toNat - dsl.length) * v) := by
              rw [Nat.ofDigitChars_append, Nat.ofDigitChars_append, Nat.ofDigitChars_replicate_zero, hv]
              simp [Nat.ofDigitChars_cons]
            rw [hvv, ← hrb]; symm
            apply readBack_eq _ _ _ _ (h10 _)
            simp only [List.length_cons, List.length_nil, Nat.zero_add, Nat.pow_one]
            by_cases htu : e.toNat - dsl.length ≤ t
            · have e1 : (Int.ofNat n0 - e).toNat = t - (e.toNat - dsl.length) := by
                simp only [Int.ofNat_eq_natCast]; omega
              have e2 : (-(Int.ofNat n0 - e)).toNat = 0 := by
                simp only [Int.ofNat_eq_natCast]; omega
              have e3 : t = (e.toNat - dsl.length) + (t - (e.toNat - dsl.length)) := by omega
              rw [e1, e2, hval]
              generalize e.toNat - dsl.length = u at e3 ⊢
              generalize t - u = w at e3 ⊢
              subst e3
              simp only [Nat.pow_add, Nat.pow_zero, Nat.mul_one]
              ac_rfl
            · have e1 : (Int.ofNat n0 - e).toNat = 0 := by
                simp only [Int.ofNat_eq_natCast]; omega
              have e2 : (-(Int.ofNat n0 - e)).toNat = (e.toNat - dsl.length) - t := by
                simp only [Int.ofNat_eq_natCast]; omega
              have e3 : e.toNat - dsl.length = t + ((e.toNat - dsl.length) - t) := by omega
              rw [e1, e2, hval]
              generalize e.toNat - dsl.length = u at e3 ⊢
              generalize u - t = w at e3 ⊢
              subst e3
              simp only [Nat.pow_add, Nat.pow_zero, Nat.mul_one]
              ac_rfl
        · -- dd.ddd
          rename_i _ he hge
          have hs := (Except.ok.inj h).symm
          refine ⟨dsl.take e.toNat, dsl.drop e.toNat, ?_, ?_, ?_, ?_, ?_⟩
          · rw [hs]; apply String.toList_inj.mp
            simp [String.toList_append]
          · intro c hc; exact hdig c (List.mem_of_mem_take hc)
          · intro c hc; exact hdig c (List.mem_of_mem_drop hc)
          · intro h0
            have := congrArg List.length h0
            simp only [List.length_take, List.length_nil] at this
            omega
          · rw [List.take_append_drop, hv, ← hrb]; symm
            apply readBack_eq _ _ _ _ (h10 _)
            have e1 : (Int.ofNat n0 - e).toNat = (dsl.length - e.toNat) + t := by
              simp only [Int.ofNat_eq_natCast]; omega
            have e2 : (-(Int.ofNat n0 - e)).toNat = 0 := by
              simp only [Int.ofNat_eq_natCast]; omega
            rw [e1, e2, hval, List.length_drop]
            simp only [Nat.pow_add, Nat.pow_zero, Nat.mul_one]
            ac_rfl
    · rename_i hfx
      simp only [Bool.and_eq_true, decide_eq_true_eq] at hfx
      refine Or.inr ⟨hfx, ?_⟩
      rw [← Except.ok.inj h]
      simp [String.toList_append]

theorem reprPosFloat_fixed (k : Nat) (s : String) (h : reprPosFloat k = .ok s)
    (hne : 'e' ∉ s.toList) : PlainText s k := by
  obtain ⟨m, e, n0, -, h1 | h1⟩ := reprPosFloat_shape k s h
  · exact h1.2.2
  · exact absurd h1.2 hne

end ValidaProofs.C13F
