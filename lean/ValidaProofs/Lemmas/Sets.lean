/-
  ValidaProofs.Lemmas.Sets — `Py.dedup` / `Py.set` and the set operations on hashable values.
-/
import ValidaProofs.Lemmas.PyEq
namespace ValidaProofs
open Valida
open PyVal (pyEq pyEqL numKey scale hashable hashableL atomEq)

theorem acc_subset_dedup (acc xs : List PyVal) : ∀ a ∈ acc, a ∈ Py.dedup acc xs := by
  induction xs generalizing acc with
  | nil => intro a ha; simpa [Py.dedup] using ha
  | cons x xs ih =>
    intro a ha
    unfold Py.dedup
    split
    · exact ih acc a ha
    · exact ih (x :: acc) a (by simp [ha])

theorem dedup_subset (acc xs : List PyVal) : ∀ a ∈ Py.dedup acc xs, a ∈ acc ∨ a ∈ xs := by
  induction xs generalizing acc with
  | nil => intro a ha; simpa [Py.dedup] using ha
  | cons x xs ih =>
    intro a ha
    unfold Py.dedup at ha
    split at ha
    · rcases ih acc a ha with h | h
      · exact Or.inl h
      · exact Or.inr (by simp [h])
    · rcases ih (x :: acc) a ha with h | h
      · rcases List.mem_cons.1 h with rfl | h
        · exact Or.inr (by simp)
        · exact Or.inl h
      · exact Or.inr (by simp [h])

theorem dedup_covers (acc xs : List PyVal) (hxs : ∀ a ∈ xs, hashable a = true) :
    ∀ a ∈ xs, ∃ a' ∈ Py.dedup acc xs, pyEq a a' = true := by
  induction xs generalizing acc with
  | nil => intro a ha; cases ha
  | cons x xs ih =>
    intro a ha
    have hxs' : ∀ a ∈ xs, hashable a = true := fun a ha => hxs a (by simp [ha])
    unfold Py.dedup
    split
    · rename_i hany
      rcases List.mem_cons.1 ha with rfl | ha
      · obtain ⟨c, hc, hac⟩ := List.any_eq_true.1 hany
        exact ⟨c, acc_subset_dedup acc xs c hc, hac⟩
      · exact ih acc hxs' a ha
    · rcases List.mem_cons.1 ha with rfl | ha
      · exact ⟨a, acc_subset_dedup (a :: acc) xs a (by simp), pyEq_refl a (hxs a (by simp))⟩
      · exact ih (x :: acc) hxs' a ha

theorem dedup_nil_subset (xs : List PyVal) : ∀ a ∈ Py.dedup [] xs, a ∈ xs := by
  intro a ha
  rcases dedup_subset [] xs a ha with h | h
  · cases h
  · exact h

/-- membership up to `==` does not see the de-duplication -/
theorem any_dedup (k : PyVal) (xs : List PyVal) (hxs : ∀ a ∈ xs, hashable a = true) :
    (Py.dedup [] xs).any (pyEq k) = xs.any (pyEq k) := by
  rw [Bool.eq_iff_iff, List.any_eq_true, List.any_eq_true]
  constructor
  · rintro ⟨m, hm, hkm⟩
    exact ⟨m, dedup_nil_subset xs m hm, hkm⟩
  · rintro ⟨m, hm, hkm⟩
    obtain ⟨m', hm', hmm'⟩ := dedup_covers [] xs hxs m hm
    exact ⟨m', hm', pyEq_trans k m m' (hxs m hm) hkm hmm'⟩

/-- a predicate that respects `==` holds on all of a list iff it holds on the de-duplicated list -/
theorem all_dedup (Q : PyVal → Bool) (xs : List PyVal) (hxs : ∀ a ∈ xs, hashable a = true)
    (hQ : ∀ a ∈ xs, ∀ a' ∈ xs, pyEq a a' = true → Q a = Q a') :
    (Py.dedup [] xs).all Q = xs.all Q := by
  rw [Bool.eq_iff_iff, List.all_eq_true, List.all_eq_true]
  constructor
  · intro h a ha
    obtain ⟨a', ha', haa'⟩ := dedup_covers [] xs hxs a ha
    rw [hQ a ha a' (dedup_nil_subset xs a' ha') haa']
    exact h a' ha'
  · intro h a ha
    exact h a (dedup_nil_subset xs a ha)

/-- "is `==` to some element of `m`" respects `==` on hashable values -/
theorem any_pyEq_congr (m : List PyVal) (a a' : PyVal) (ha : hashable a = true) (ha' : hashable a' = true)
    (h : pyEq a a' = true) : m.any (pyEq a) = m.any (pyEq a') := by
  rw [Bool.eq_iff_iff, List.any_eq_true, List.any_eq_true]
  constructor
  · rintro ⟨c, hc, hac⟩
    exact ⟨c, hc, pyEq_trans a' a c ha (by rw [← pyEq_symm a a' ha]; exact h) hac⟩
  · rintro ⟨c, hc, hac⟩
    exact ⟨c, hc, pyEq_trans a a' c ha' h hac⟩

theorem all_any_dedup (xs m : List PyVal) (hxs : ∀ a ∈ xs, hashable a = true) :
    (Py.dedup [] xs).all (fun a => m.any (pyEq a)) = xs.all (fun a => m.any (pyEq a)) :=
  all_dedup _ xs hxs fun a ha a' ha' h => any_pyEq_congr m a a' (hxs a ha) (hxs a' ha') h

theorem all_not_any_dedup (xs m : List PyVal) (hxs : ∀ a ∈ xs, hashable a = true) :
    (Py.dedup [] xs).all (fun a => !m.any (pyEq a)) = xs.all (fun a => !m.any (pyEq a)) :=
  all_dedup _ xs hxs fun a ha a' ha' h => by
    rw [any_pyEq_congr m a a' (hxs a ha) (hxs a' ha') h]

/-- `set(xs)` for hashable elements -/
theorem set_tuple (ks : List PyVal) (hk : ∀ k ∈ ks, hashable k = true) :
    Py.set (.tuple ks) = .ok (.list (Py.dedup [] ks)) := by
  have : ks.all hashable = true := List.all_eq_true.2 hk
  simp [Py.set, Py.iter, bind, Except.bind, this, pure, Except.pure]

theorem set_dict (kvs : List (PyVal × PyVal)) (hk : ∀ k ∈ kvs.map (·.1), hashable k = true) :
    Py.set (.dict kvs) = .ok (.list (Py.dedup [] (kvs.map (·.1)))) := by
  have : (kvs.map (·.1)).all hashable = true := List.all_eq_true.2 hk
  simp only [Py.set, Py.iter, bind, Except.bind, this, pure, Except.pure, if_true]

end ValidaProofs
