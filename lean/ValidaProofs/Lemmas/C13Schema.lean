/-
  ValidaProofs.Lemmas.C13Schema — helper lemmas for the C13 headline (`ValidaProofs/C13Schema.lean`):
  the rebuilt path of a serialised path is `pathEq` to the original when the original is one that
  `DataPath(...)` builds; a condition equals itself; `mapM` of the serialiser / the parser over a
  list of rules; re-sorting a list whose path lengths are already in order.
-/
import Valida.Spec.Ser
import Valida.Eq
import ValidaProofs.Lemmas.C06Schema
import ValidaProofs.Lemmas.C12Parts
import ValidaProofs.Lemmas.C13Ser
import ValidaProofs.Lemmas.C14Eq
import ValidaProofs.Lemmas.PyEq
import ValidaProofs.C12
namespace ValidaProofs.C13S
open Valida ValidaGen

/-! ### paths built by `DataPath(...)`: concrete iff nothing is written as a mapping -/

/-- a part coerced from a primitive is never equal to a bare part -/
theorem ofPrim_ne_bare (v : PyVal) (q : Part) (h : Part.ofPrim v = .ok q) (k : PartKind) :
    partEq q (barePart k) = false := by
  cases v with
  | str s =>
    have : Part.ofPrim (.str s) = .ok { kind := .map, cond := eqLeaf .key (.str s), listCond := Cond.null, mapCond := Cond.null, label := none } := rfl
    rw [this] at h; cases h; cases k <;> rfl
  | float f =>
    have : Part.ofPrim (.float f) = .ok { kind := .map, cond := eqLeaf .key (.float f), listCond := Cond.null, mapCond := Cond.null, label := none } := rfl
    rw [this] at h; cases h; cases k <;> rfl
  | int n =>
    have : Part.ofPrim (.int n) = .ok { kind := .molv, cond := Cond.null, listCond := eqLeaf .index (.int n), mapCond := eqLeaf .key (.int n), label := none } := rfl
    rw [this] at h; cases h; cases k <;> rfl
  | bool b =>
    have : Part.ofPrim (.bool b) = .ok { kind := .molv, cond := Cond.null, listCond := eqLeaf .index (.bool b), mapCond := eqLeaf .key (.bool b), label := none } := rfl
    rw [this] at h; cases h; cases k <;> rfl
  | _ => cases h

/-- what is emitted for a part coerced from a primitive is not a mapping -/
theorem emit_ofPrim_not_dict (v : PyVal) (q : Part) (h : Part.ofPrim v = .ok q) (spec : PyVal)
    (he : C12L.emit q = .ok spec) : ∀ kvs, spec ≠ .dict kvs := by
  rcases C12L.emit_ok q spec he with ⟨_, _, _, hnd⟩ | ⟨_, hb⟩ | ⟨_, hb⟩ | ⟨_, hb⟩
  · exact hnd
  · rw [ofPrim_ne_bare v q h] at hb; cases hb
  · rw [ofPrim_ne_bare v q h] at hb; cases hb
  · rw [ofPrim_ne_bare v q h] at hb; cases hb

/-- all arguments primitives: nothing is written as a mapping -/
theorem emit_allPrim_not_dict :
    ∀ (args : List PartArg) (parts : List Part) (specs : List PyVal),
      args.mapM C12L.ofArg = .ok parts → args.all C12L.argIsPrim = true → parts.mapM C12L.emit = .ok specs →
      ∀ s ∈ specs, ∀ kvs, s ≠ .dict kvs := by
  intro args
  induction args with
  | nil =>
    intro parts specs h _ he
    rw [(C12L.mapM_nil_ok _ _).1 h] at he
    rw [(C12L.mapM_nil_ok _ _).1 he]
    intro s hs; cases hs
  | cons a as ih =>
    intro parts specs h hall he
    obtain ⟨q, qs, hq, hqs, rfl⟩ := (C12L.mapM_cons_ok _ _ _ _).1 h
    obtain ⟨s0, ss, hs0, hss, rfl⟩ := (C12L.mapM_cons_ok _ _ _ _).1 he
    simp only [List.all_cons, Bool.and_eq_true] at hall
    intro s hs
    rcases List.mem_cons.1 hs with rfl | hs
    · cases a with
      | prim v => exact emit_ofPrim_not_dict v q hq _ hs0
      | part p => cases hall.1
    · exact ih qs ss hqs hall.2 hss s hs

/-- for a path `DataPath(...)` builds: concrete iff no part is written as a mapping -/
theorem concrete_iff_no_dict (p : Path) (specs : List PyVal) (h : toPartSpecs p = .ok specs)
    (hb : ∃ args, Path.mk' args = .ok p) :
    p.concrete = true ↔ ∀ s ∈ specs, ∀ kvs, s ≠ .dict kvs := by
  obtain ⟨-, -, hm, hc⟩ := (C12L.toPartSpecs_ok p specs).1 h
  constructor
  · intro hcon
    obtain ⟨args, hargs⟩ := hb
    rw [C12L.mk'_eq] at hargs
    cases hp : args.mapM C12L.ofArg with
    | error e => simp [hp, bind, Except.bind] at hargs
    | ok parts =>
      simp only [hp, bind, Except.bind, pure, Except.pure, Except.ok.injEq] at hargs
      subst hargs
      exact emit_allPrim_not_dict args parts specs hp hcon hm
  · intro hnd
    rcases hc with hc | hc
    · exact hc
    · obtain ⟨s, hs, hd⟩ := List.any_eq_true.1 hc
      obtain ⟨kvs, rfl⟩ := (C12L.isDict_iff s).1 hd
      exact absurd rfl (hnd _ hs kvs)

/-- the path rebuilt from the emitted specs equals the original (`DataPath.__eq__`) -/
theorem path_roundtrip_eq (fuel : Nat) (p : Path) (specs : List PyVal) (h : toPartSpecs p = .ok specs)
    (hb : ∃ args, Path.mk' args = .ok p) :
    ∃ p', fromPartSpecs (fuel + 2) specs = .ok p' ∧ pathEq p' p = true := by
  obtain ⟨p', h1, h2, h3, h4, h5, h6⟩ := C12_roundtrip fuel p specs h
  obtain ⟨-, -, g3, g4, g5, -⟩ := C12_sound p specs h
  refine ⟨p', h1, ?_⟩
  have hc : p'.concrete = p.concrete := by
    rw [Bool.eq_iff_iff, h6, concrete_iff_no_dict p specs h hb]
  simp only [pathEq, h2, hc, h3, h4, h5, g3, g4, g5, beq_self_eq_true, Bool.and_self, optValEq]

theorem pathEq_length (p q : Path) (h : pathEq p q = true) : p.parts.length = q.parts.length := by
  simp only [pathEq, Bool.and_eq_true] at h
  exact C14L.listEq_length _ _ _ h.1.1.1.1

/-! ### a condition equals itself -/

/-- sufficient for `condEq c c`: keyword names distinct in every single condition (always so in Python,
    where they are the keys of a dict) and every stored argument a hashable literal (None, bool, int,
    float, str, a type object, a tuple of those) -/
theorem condEq_self (c : Cond Arg) (hn : C14L.KwNodup c)
    (ha : ∀ a ∈ C14L.args c, ∃ v, a = .lit v ∧ PyVal.hashable v = true) : condEq c c = true := by
  refine C14L.cond_refl argEq c hn ?_
  intro a h
  obtain ⟨v, rfl, hv⟩ := ha a h
  exact ValidaProofs.pyEq_refl v hv

theorem castEq_self (cast : List (PyType × String))
    (h : cast = [] ∨ cast = [(PyType.str, "int")] ∨ cast = [(PyType.str, "cast_string_to_bool")]) :
    castEq cast cast = true := by
  rcases h with h | h | h <;> subst h <;> decide

/-! ### lists of rules -/

theorem mapM_ok_of_forall {ε α β : Type} (f : α → Except ε β) :
    ∀ (xs : List α), (∀ x ∈ xs, ∃ b, f x = .ok b) → ∃ bs, xs.mapM f = .ok bs := by
  intro xs
  induction xs with
  | nil => intro _; exact ⟨[], rfl⟩
  | cons x xs ih =>
    intro h
    obtain ⟨b, hb⟩ := h x (by simp)
    obtain ⟨bs, hbs⟩ := ih (fun y hy => h y (by simp [hy]))
    exact ⟨b :: bs, (C12L.mapM_cons_ok _ _ _ _).2 ⟨b, bs, hb, hbs, rfl⟩⟩

/-- the rule parser of `parseSchema` -/
def parseRuleOnly (fuel : Nat) (s : PyVal) : Except Exc RuleM := do pure (← parseRule fuel s).rule

theorem parseRuleOnly_ok (fuel : Nat) (s : PyVal) (pr : ParsedRule) (h : parseRule fuel s = .ok pr) :
    parseRuleOnly fuel s = .ok pr.rule := by
  simp [parseRuleOnly, h, bind, Except.bind, pure, Except.pure]

theorem parseSchema_eq (fuel : Nat) (items : List PyVal) :
    parseSchema fuel (.list items) = (do
      let rules ← items.mapM (parseRuleOnly fuel)
      pure (Schema.mk' rules)) := rfl

/-- rule by rule: written, read back, equal -/
theorem rules_roundtrip (N : Nat) :
    ∀ (rs : List RuleM) (jss : List PyVal), rs.mapM ruleToJson = .ok jss →
      (∀ r ∈ rs, ∀ js, ruleToJson r = .ok js → ∃ pr, parseRule N js = .ok pr ∧ ruleEq pr.rule r = true) →
      ∃ rs', jss.mapM (parseRuleOnly N) = .ok rs' ∧ listEq ruleEq rs' rs = true := by
  intro rs
  induction rs with
  | nil => intro jss h _; rw [(C12L.mapM_nil_ok _ _).1 h]; exact ⟨[], rfl, rfl⟩
  | cons r rs ih =>
    intro jss h hall
    obtain ⟨js, jss', hjs, hjss, rfl⟩ := (C12L.mapM_cons_ok _ _ _ _).1 h
    obtain ⟨rs', h1, h2⟩ := ih jss' hjss (fun x hx => hall x (by simp [hx]))
    obtain ⟨pr, hp, he⟩ := hall r (by simp) js hjs
    exact ⟨pr.rule :: rs', (C12L.mapM_cons_ok _ _ _ _).2 ⟨pr.rule, rs', parseRuleOnly_ok N js pr hp, h1, rfl⟩,
      by simp [listEq, he, h2]⟩

theorem ruleEq_length (a b : RuleM) (h : ruleEq a b = true) : a.path.parts.length = b.path.parts.length := by
  simp only [ruleEq, Bool.and_eq_true] at h
  exact pathEq_length _ _ h.1.1

theorem listEq_ruleEq_lengths : ∀ (as bs : List RuleM), listEq ruleEq as bs = true →
    as.map (fun r => r.path.parts.length) = bs.map (fun r => r.path.parts.length) := by
  intro as
  induction as with
  | nil => intro bs h; cases bs with
    | nil => rfl
    | cons b bs => simp [listEq] at h
  | cons a as ih =>
    intro bs h
    cases bs with
    | nil => simp [listEq] at h
    | cons b bs =>
      simp only [listEq, Bool.and_eq_true] at h
      simp [ruleEq_length a b h.1, ih bs h.2]

theorem sorted_iff_lengths (rs : List RuleM) :
    rs.Pairwise (fun a b => ruleLe a b = true) ↔ (rs.map (fun r => r.path.parts.length)).Pairwise (· ≤ ·) := by
  rw [List.pairwise_map]
  simp only [ruleLe, decide_eq_true_eq]

/-- a list already in applied order (`Schema.__init__` would leave it as it is) -/
theorem pairwise_of_sorted (rs : List RuleM) (h : Schema.mk' rs = rs) :
    rs.Pairwise (fun a b => ruleLe a b = true) := by
  have := List.pairwise_mergeSort C06L.ruleLe_trans C06L.ruleLe_total rs
  unfold Schema.mk' at h
  rwa [h] at this

/-- a rebuilt list whose rules equal the originals one by one is in order when the original was -/
theorem sorted_of_listEq (rs' rs : List RuleM) (h : listEq ruleEq rs' rs = true) (hs : Schema.mk' rs = rs) :
    Schema.mk' rs' = rs' := by
  unfold Schema.mk'
  refine List.mergeSort_of_pairwise ?_
  rw [sorted_iff_lengths, listEq_ruleEq_lengths rs' rs h, ← sorted_iff_lengths]
  exact pairwise_of_sorted rs hs

end ValidaProofs.C13S
