/-
  ValidaProofs.Lemmas.C11RoundSniff — the data-path sniffing of `from_spec` on what the serialiser
  writes for literal arguments: scalars and type objects are left alone, a list of them is kept as a
  list, a mapping of them is kept as a mapping unless the mapping itself looks like a path spec.
-/
import Valida.Spec.Ser
import ValidaProofs.Lemmas.C11Keys
import ValidaProofs.Lemmas.C11RoundFacts
namespace ValidaProofs.C11R
open Valida ValidaGen

/-- not a container: nothing the sniffing looks into -/
def atomB : PyVal → Bool
  | .list _ | .tuple _ | .dict _ => false
  | _ => true

theorem atom_of_scalar {v : PyVal} (h : scalarB v = true) : atomB v = true := by
  cases v <;> simp_all [scalarB, atomB]

theorem sniff_atom (fuel : Nat) (v : PyVal) (h : atomB v = true) : sniffArg (fuel + 1) v = .ok (.val v) := by
  cases v <;> first | rfl | simp [atomB] at h

theorem pps_atom (fuel : Nat) (v : PyVal) (h : atomB v = true) :
    parsePathSpec (fuel + 1) v = .error .malformedPath := by
  cases v <;> first | rfl | simp [atomB] at h

theorem mapM_pointwise {β γ : Type} (f : β → Except Exc γ) (g : β → γ) :
    ∀ (xs : List β), (∀ x ∈ xs, f x = .ok (g x)) → xs.mapM f = .ok (xs.map g)
  | [], _ => rfl
  | x :: xs, h => by
      simp only [List.mapM_cons, h x List.mem_cons_self,
        mapM_pointwise f g xs (fun y hy => h y (List.mem_cons_of_mem _ hy)),
        bind, Except.bind, pure, Except.pure, List.map_cons]

theorem sniff_list (fuel : Nat) (xs : List PyVal) (h : ∀ x ∈ xs, atomB x = true) :
    sniffArg (fuel + 2) (.list xs) = .ok (.listS (xs.map SElem.val)) := by
  rw [sniffArg.eq_3, mapM_pointwise _ SElem.val xs]
  · rfl
  · intro x hx
    simp only [pps_atom fuel x (h x hx)]
    rfl

theorem sniff_dict (fuel : Nat) (kvs : List (PyVal × PyVal)) (hv : ∀ kv ∈ kvs, atomB kv.2 = true)
    (hp : parsePathSpec (fuel + 1) (.dict kvs) = .error .malformedPath) :
    sniffArg (fuel + 2) (.dict kvs) = .ok (.dictS (kvs.map (fun kv => (kv.1, SElem.val kv.2)))) := by
  rw [sniffArg.eq_2]
  simp only [hp]
  rw [mapM_pointwise _ (fun kv => (kv.1, SElem.val kv.2)) kvs]
  · rfl
  · intro x hx
    simp only [pps_atom fuel x.2 (hv x hx)]
    rfl

/-! ### a mapping that is not a path spec -/

theorem pps_dict_empty (fuel : Nat) : parsePathSpec (fuel + 1) (.dict []) = .error .malformedPath := rfl

theorem pps_dict_many (fuel : Nat) (kv1 kv2 : PyVal × PyVal) (rest : List (PyVal × PyVal))
    (hesc : escScan (kv1 :: kv2 :: rest) = .ok false) :
    parsePathSpec (fuel + 1) (.dict (kv1 :: kv2 :: rest)) = .error .malformedPath := by
  obtain ⟨k1, v1⟩ := kv1
  cases k1 <;> simp [parsePathSpec, hesc, bind, Except.bind, pure, Except.pure] <;> rfl

theorem pps_dict_one (fuel : Nat) (k : String) (v : PyVal) (toks : List String)
    (hesc : containsSub "\\path" k = false) (htoks : (splitDot k).mapM pyLower = .ok toks)
    (hh : toks.head? ≠ some "path") :
    parsePathSpec (fuel + 1) (.dict [(.str k, v)]) = .error .malformedPath := by
  rw [parsePathSpec.eq_3]
  simp [escScan, hesc, htoks, hh, bind, Except.bind, pure, Except.pure]
  rfl

theorem escScan_strs (kw : List (String × PyVal)) (f : PyVal → PyVal)
    (h : ∀ kv ∈ kw, containsSub "\\path" kv.1 = false) :
    escScan (kw.map (fun kv => (PyVal.str kv.1, f kv.2))) = .ok false := by
  unfold escScan
  congr 1
  simp only [List.any_map, List.any_eq_false]
  intro kv hkv
  simp [h kv hkv]

/-! ### lower-casing the tokens of an ASCII key -/

theorem splitOnChar_chars (sep : Char) : ∀ (cs acc : List Char) (piece : List Char),
    piece ∈ splitOnChar sep acc cs → ∀ ch ∈ piece, ch ∈ acc ∨ ch ∈ cs
  | [], acc, piece, h, ch, hch => by
      simp [splitOnChar] at h; subst h; left; simpa using hch
  | c :: rest, acc, piece, h, ch, hch => by
      unfold splitOnChar at h
      split at h
      · rcases List.mem_cons.mp h with rfl | h
        · left; simpa using hch
        · rcases splitOnChar_chars sep rest [] piece h ch hch with h' | h'
          · simp at h'
          · right; exact List.mem_cons_of_mem _ h'
      · rcases splitOnChar_chars sep rest (c :: acc) piece h ch hch with h' | h'
        · rcases List.mem_cons.mp h' with rfl | h''
          · right; exact List.mem_cons_self
          · left; exact h''
        · right; exact List.mem_cons_of_mem _ h'

theorem mapM_pyLower : ∀ (ts : List String), (∀ t ∈ ts, isAscii t = true) → ts.mapM pyLower = .ok (ts.map low)
  | [], _ => rfl
  | t :: ts, h => by
      have ht : pyLower t = .ok (low t) := by simp [pyLower, h t List.mem_cons_self, low]
      simp only [List.mapM_cons, ht, mapM_pyLower ts (fun y hy => h y (List.mem_cons_of_mem _ hy)),
        bind, Except.bind, pure, Except.pure, List.map_cons]

theorem toks_of_ascii (k : String) (h : isAscii k = true) :
    (splitDot k).mapM pyLower = .ok ((splitDot k).map low) := by
  apply mapM_pyLower
  intro t ht
  simp only [splitDot, List.mem_map] at ht
  obtain ⟨piece, hp, rfl⟩ := ht
  simp only [isAscii, List.all_eq_true, String.toList_ofList] at h ⊢
  intro ch hch
  rcases splitOnChar_chars '.' _ _ _ hp ch hch with h' | h'
  · simp at h'
  · exact h ch h'

/-! ### keyword names that do not make the written mapping look like a path spec -/

/-- no name contains the escape code `\path`; a single name is ASCII (the model lower-cases ASCII only)
    and its first dot-token, lower-cased, is not `path` -/
def KeysOK (keys : List String) : Prop :=
  (∀ k ∈ keys, containsSub "\\path" k = false) ∧
  (∀ k, keys = [k] → isAscii k = true ∧ (splitDot k).head?.map low ≠ some "path")

theorem pps_kw (fuel : Nat) (kwA : List (String × Arg)) (hkeys : KeysOK (kwA.map (·.1))) :
    parsePathSpec (fuel + 1) (.dict (kwA.map (fun kv => (PyVal.str kv.1, argOut kv.2)))) =
      .error .malformedPath := by
  obtain ⟨h1, h2⟩ := hkeys
  have hesc : escScan (kwA.map (fun kv => (PyVal.str kv.1, argOut kv.2))) = .ok false := by
    unfold escScan
    congr 1
    simp only [List.any_map, List.any_eq_false]
    intro kv hkv
    simpa using h1 kv.1 (List.mem_map_of_mem hkv)
  match kwA, h1, h2, hesc with
  | [], _, _, _ => exact pps_dict_empty fuel
  | [kv], h1, h2, _ =>
    obtain ⟨ha, hh⟩ := h2 kv.1 rfl
    refine pps_dict_one fuel kv.1 _ _ (h1 kv.1 (by simp)) (toks_of_ascii kv.1 ha) ?_
    rw [List.head?_map]; exact hh
  | kv1 :: kv2 :: rest, _, _, hesc => exact pps_dict_many fuel _ _ _ hesc

end ValidaProofs.C11R
