/-
  ValidaProofs.Lemmas.C10SpecEnt — helper lemmas for the C10 headline: the datum entries of a part spec
  (long form `key: <condition spec>` / shorthand `key.<callable>: args`), which parser stage sees
  which entry, and what each stage computes (`addC`: `acc & condition`).
-/
import Valida.Spec.Parse
import Valida.Eq
import ValidaProofs.Lemmas.C10Parse
import ValidaProofs.Lemmas.C10SpecPop
namespace ValidaProofs.C10S
open Valida ValidaGen

/-- the three datums a part spec can put a condition on -/
inductive Dat | value | key | index
  deriving DecidableEq, Repr

def Dat.name : Dat → String
  | .value => "value" | .key => "key" | .index => "index"

def Dat.dot : Dat → String
  | .value => "value." | .key => "key." | .index => "index."

/-- a datum entry `name: arg` of a part spec together with the condition it parses to -/
structure Ent where
  name : String
  arg : PyVal
  c : Cond Arg

def Ent.kv (e : Ent) : KV := (.str e.name, e.arg)

/-- long form `key: <condition spec>` -/
def Ent.Long (d : Dat) (pc : PyVal → Except Exc (Cond Arg)) (e : Ent) : Prop :=
  e.name = d.name ∧ e.arg ≠ .none ∧ pc e.arg = .ok e.c ∧ (litCond e.c).isLike d.name = true

/-- shorthand `key.<callable>: args` (read as the one-entry condition spec `{key.<callable>: args}`) -/
def Ent.Short (d : Dat) (pc : PyVal → Except Exc (Cond Arg)) (e : Ent) : Prop :=
  d.dot.toList.isPrefixOf e.name.toList = true ∧ pc (.dict [e.kv]) = .ok e.c ∧ (litCond e.c).isLike d.name = true

def OptOk (d : Dat) (pc : PyVal → Except Exc (Cond Arg)) (o : Option Ent) : Prop :=
  ∀ e, o = some e → e.Long d pc ∨ e.Short d pc

def kvs : Option Ent → List KV
  | some e => [e.kv]
  | none => []

def longVal (d : Dat) : Option Ent → Option PyVal
  | some e => if e.name = d.name then some e.arg else none
  | none => none

def shortKvs (d : Dat) : Option Ent → List KV
  | some e => if e.name = d.name then [] else [e.kv]
  | none => []

def longPart (d : Dat) : Option Ent → Option Ent
  | some e => if e.name = d.name then some e else none
  | none => none

def shortPart (d : Dat) : Option Ent → Option Ent
  | some e => if e.name = d.name then none else some e
  | none => none

/-- `acc & condition` for an optional condition -/
def addC (acc : Cond PyVal) (o : Option Ent) : Except Exc (Cond PyVal) :=
  match o with
  | none => pure acc
  | some e => Cond.mkBin .and acc (litCond e.c)

theorem addC_none (acc : Cond PyVal) : addC acc none = pure acc := rfl

theorem kvs_split (d : Dat) (o : Option Ent) : kvs o = optKv d.name (longVal d o) ++ shortKvs d o := by
  cases o with
  | none => rfl
  | some e =>
    by_cases h : e.name = d.name
    · simp [kvs, longVal, shortKvs, h, optKv, Ent.kv]
    · simp [kvs, longVal, shortKvs, h, optKv]

theorem parts_cases (d : Dat) (o : Option Ent) :
    (longPart d o = o ∧ shortPart d o = none) ∨ (longPart d o = none ∧ shortPart d o = o) := by
  cases o with
  | none => exact Or.inl ⟨rfl, rfl⟩
  | some e =>
    by_cases h : e.name = d.name
    · exact Or.inl ⟨by simp [longPart, h], by simp [shortPart, h]⟩
    · exact Or.inr ⟨by simp [longPart, h], by simp [shortPart, h]⟩

theorem shortKvs_length (d : Dat) (o : Option Ent) : (shortKvs d o).length ≤ 1 := by
  cases o with
  | none => simp [shortKvs]
  | some e => by_cases h : e.name = d.name <;> simp [shortKvs, h]

/-! ### which stage sees which entry -/

theorem short_not_name (d : Dat) (pc : PyVal → Except Exc (Cond Arg)) (e : Ent) (h : e.Short d pc) :
    e.name ≠ d.name := by
  intro hn
  have := h.1
  rw [hn] at this
  cases d <;> exact absurd this (by decide)

theorem hasPref_kv (p : String) (e : Ent) : C10L.hasPref p e.kv = p.toList.isPrefixOf e.name.toList := rfl

theorem keyIs_kv (n : String) (e : Ent) : keyIs n e.kv = (n == e.name) := rfl

/-- an entry for the datum `d` is not popped under another name -/
theorem ent_keyIs (d : Dat) (pc : PyVal → Except Exc (Cond Arg)) (e : Ent) (h : e.Long d pc ∨ e.Short d pc)
    (n : String) (h1 : n ≠ d.name) (h2 : d.dot.toList.isPrefixOf n.toList = false) : keyIs n e.kv = false := by
  rw [keyIs_kv]
  rcases h with h | h
  · rw [h.1]; simpa using h1
  · exact ne_of_prefix d.dot n e.name h.1 h2

/-- … nor taken for a shorthand of another datum -/
theorem ent_hasPref (d d' : Dat) (hne : d ≠ d') (pc : PyVal → Except Exc (Cond Arg)) (e : Ent)
    (h : e.Long d pc ∨ e.Short d pc) : C10L.hasPref d'.dot e.kv = false := by
  rw [hasPref_kv]
  rcases h with h | h
  · rw [h.1]; cases d <;> cases d' <;> first | exact absurd rfl hne | decide
  · cases d <;> cases d' <;> first
      | exact absurd rfl hne
      | exact prefix_apart _ _ e.name _ _ (by rfl) (by rfl) (by decide) h.1

theorem foreign_kvs_name (d : Dat) (pc : PyVal → Except Exc (Cond Arg)) (o : Option Ent) (ho : OptOk d pc o)
    (n : String) (h1 : n ≠ d.name) (h2 : d.dot.toList.isPrefixOf n.toList = false) : Foreign (keyIs n) (kvs o) := by
  cases o with
  | none => exact foreign_nil _
  | some e =>
    intro kv hkv
    simp only [kvs, List.mem_singleton] at hkv
    subst hkv
    exact ent_keyIs d pc e (ho e rfl) n h1 h2

theorem foreign_kvs_pref (d d' : Dat) (hne : d ≠ d') (pc : PyVal → Except Exc (Cond Arg)) (o : Option Ent)
    (ho : OptOk d pc o) : Foreign (C10L.hasPref d'.dot) (kvs o) := by
  cases o with
  | none => exact foreign_nil _
  | some e =>
    intro kv hkv
    simp only [kvs, List.mem_singleton] at hkv
    subst hkv
    exact ent_hasPref d d' hne pc e (ho e rfl)

theorem mem_shortKvs (d : Dat) (o : Option Ent) (kv : KV) (h : kv ∈ shortKvs d o) :
    ∃ e, o = some e ∧ e.name ≠ d.name ∧ kv = e.kv := by
  cases o with
  | none => simp [shortKvs] at h
  | some e =>
    by_cases hn : e.name = d.name
    · simp [shortKvs, hn] at h
    · simp only [shortKvs, hn, if_false, List.mem_singleton] at h
      exact ⟨e, rfl, hn, h⟩

theorem short_of_not_name (d : Dat) (pc : PyVal → Except Exc (Cond Arg)) (e : Ent)
    (h : e.Long d pc ∨ e.Short d pc) (hn : e.name ≠ d.name) : e.Short d pc := by
  rcases h with h | h
  · exact absurd h.1 hn
  · exact h

theorem long_of_name (d : Dat) (pc : PyVal → Except Exc (Cond Arg)) (e : Ent)
    (h : e.Long d pc ∨ e.Short d pc) (hn : e.name = d.name) : e.Long d pc := by
  rcases h with h | h
  · exact h
  · exact absurd hn (short_not_name d pc e h)

/-- the shorthand entries are not popped under any reserved name, their own datum's included -/
theorem foreign_shortKvs_name (d : Dat) (pc : PyVal → Except Exc (Cond Arg)) (o : Option Ent) (ho : OptOk d pc o)
    (n : String) (h2 : d.dot.toList.isPrefixOf n.toList = false) : Foreign (keyIs n) (shortKvs d o) := by
  intro kv hkv
  obtain ⟨e, rfl, hn, rfl⟩ := mem_shortKvs d _ kv hkv
  rw [keyIs_kv]
  exact ne_of_prefix d.dot n e.name (short_of_not_name d pc e (ho e rfl) hn).1 h2

theorem shortKvs_hasPref (d : Dat) (pc : PyVal → Except Exc (Cond Arg)) (o : Option Ent) (ho : OptOk d pc o) :
    ∀ kv ∈ shortKvs d o, C10L.hasPref d.dot kv = true := by
  intro kv hkv
  obtain ⟨e, rfl, hn, rfl⟩ := mem_shortKvs d _ kv hkv
  rw [hasPref_kv]
  exact (short_of_not_name d pc e (ho e rfl) hn).1

theorem foreign_shortKvs_pref (d d' : Dat) (hne : d ≠ d') (pc : PyVal → Except Exc (Cond Arg)) (o : Option Ent)
    (ho : OptOk d pc o) : Foreign (C10L.hasPref d'.dot) (shortKvs d o) := by
  intro kv hkv
  obtain ⟨e, rfl, _, rfl⟩ := mem_shortKvs d _ kv hkv
  exact ent_hasPref d d' hne pc e (ho e rfl)

/-- a long-form entry is not a shorthand of any datum -/
theorem foreign_longKvs_pref (d d' : Dat) (o : Option Ent) :
    Foreign (C10L.hasPref d'.dot) (optKv d.name (longVal d o)) := by
  cases h : longVal d o with
  | none => exact foreign_nil _
  | some x =>
    intro kv hkv
    simp only [optKv, List.mem_singleton] at hkv
    subst hkv
    cases d <;> cases d' <;> (change List.isPrefixOf _ _ = false; decide)

theorem foreign_longKvs_name (d : Dat) (o : Option Ent) (n : String) (h1 : n ≠ d.name) :
    Foreign (keyIs n) (optKv d.name (longVal d o)) := by
  cases h : longVal d o with
  | none => exact foreign_nil _
  | some x =>
    intro kv hkv
    simp only [optKv, List.mem_singleton] at hkv
    subst hkv
    rw [keyIs_str]; simpa using h1

/-- a plain entry `name: x` (type, label) -/
theorem foreign_optKv_name (name : String) (o : Option PyVal) (n : String) (h : n ≠ name) :
    Foreign (keyIs n) (optKv name o) := by
  cases o with
  | none => exact foreign_nil _
  | some x =>
    intro kv hkv
    simp only [optKv, List.mem_singleton] at hkv
    subst hkv
    rw [keyIs_str]; simpa using h

theorem foreign_optKv_pref (name : String) (o : Option PyVal) (p : String)
    (h : p.toList.isPrefixOf name.toList = false) : Foreign (C10L.hasPref p) (optKv name o) := by
  cases o with
  | none => exact foreign_nil _
  | some x =>
    intro kv hkv
    simp only [optKv, List.mem_singleton] at hkv
    subst hkv
    exact h

/-! ### what the stages compute -/

theorem valueLong_sem (pc : PyVal → Except Exc (Cond Arg)) (acc : Cond PyVal) (o : Option Ent)
    (ho : OptOk .value pc o) : C10L.valueLong pc acc (longVal .value o) = addC acc (longPart .value o) := by
  cases o with
  | none => rfl
  | some e =>
    by_cases hn : e.name = Dat.value.name
    · obtain ⟨_, harg, hc, hlike⟩ := long_of_name .value pc e (ho e rfl) hn
      have hlike' : (litCond e.c).isLike "value" = true := hlike
      simp only [longVal, longPart, hn, if_true, addC]
      cases ha : e.arg <;> first
        | exact absurd ha harg
        | (rw [ha] at hc
           simp [C10L.valueLong, hc, hlike', bind, Except.bind])
    · simp only [longVal, longPart, hn, if_false]; rfl

theorem foldShort_sem (d : Dat) (pc : PyVal → Except Exc (Cond Arg)) (acc : Cond PyVal) (o : Option Ent)
    (ho : OptOk d pc o) : C10L.foldShort pc acc (shortKvs d o) = addC acc (shortPart d o) := by
  cases o with
  | none => rfl
  | some e =>
    by_cases hn : e.name = d.name
    · simp only [shortKvs, shortPart, hn, if_true]; rfl
    · obtain ⟨_, hc, _⟩ := short_of_not_name d pc e (ho e rfl) hn
      simp only [shortKvs, shortPart, hn, if_false, addC, C10L.foldShort, List.foldlM_cons, List.foldlM_nil, hc,
        bind, Except.bind]
      cases Cond.mkBin BinOp.and acc (litCond e.c) <;> rfl

theorem longForm_sem (d : Dat) (pc : PyVal → Except Exc (Cond Arg)) (acc : Cond PyVal) (o : Option Ent)
    (ho : OptOk d pc o) (sp sp' : List KV) (hp : popStr d.name sp = (longVal d o, sp')) :
    C10L.longForm pc d.name d.name sp acc = (addC acc (longPart d o)).map (fun c => (c, sp')) := by
  unfold C10L.longForm
  simp only [hp]
  cases o with
  | none => rfl
  | some e =>
    by_cases hn : e.name = d.name
    · obtain ⟨_, harg, hc, hlike⟩ := long_of_name d pc e (ho e rfl) hn
      simp only [longVal, longPart, hn, if_true, addC]
      cases ha : e.arg <;> first
        | exact absurd ha harg
        | (rw [ha] at hc
           simp only [hc, hlike, bind, Except.bind, Bool.not_true, Bool.false_eq_true, if_false]
           cases Cond.mkBin BinOp.and acc (litCond e.c) <;> rfl)
    · simp only [longVal, longPart, hn, if_false]; rfl

/-! ### `&` on conditions of known kinds -/

theorem isNull_of_isLike (like : String) (c : Cond PyVal) (h : c.isLike like = true) (hl : like ≠ "null") :
    c.isNull = false := by
  cases c with
  | bin op a b => rfl
  | leaf l =>
    simp only [Cond.isLike, Cond.leaves, List.all_cons, List.all_nil, Bool.and_true, beq_iff_eq] at h
    simp only [Cond.isNull, beq_eq_false_iff_ne, ne_eq]
    intro hc
    rw [hc] at h
    exact hl (h ▸ (by rfl))

theorem mkBin_null_left (op : BinOp) (c : Cond PyVal) (h : c.isNull = false) : Cond.mkBin op Cond.null c = .ok c := by
  have : (Cond.null : Cond PyVal).isNull = true := rfl
  simp [Cond.mkBin, h, this]

theorem countP_of_isLike (like like' : String) (c : Cond PyVal) (h : c.isLike like = true) (hne : like ≠ like') :
    c.leaves.countP (fun l => Cond.likeOf l.cls == like') = 0 := by
  rw [List.countP_eq_zero]
  intro l hl
  simp only [Cond.isLike, List.all_eq_true, beq_iff_eq] at h
  simp only [beq_iff_eq]
  rw [h l hl]
  exact hne

/-- `a & b` of two non-null conditions that do not mix key-like with index-like conditions -/
theorem mkBin_ok (op : BinOp) (a b : Cond PyVal) (la lb avoid : String) (ha : a.isLike la = true)
    (hb : b.isLike lb = true) (hna : la ≠ "null") (hnb : lb ≠ "null")
    (havoid : avoid = "key" ∨ avoid = "index") (h1 : la ≠ avoid) (h2 : lb ≠ avoid) :
    Cond.mkBin op a b = .ok (.bin op a b) := by
  have e1 := isNull_of_isLike la a ha hna
  have e2 := isNull_of_isLike lb b hb hnb
  have z : (a.leaves ++ b.leaves).countP (fun l => Cond.likeOf l.cls == avoid) = 0 := by
    rw [List.countP_append, countP_of_isLike la avoid a ha h1, countP_of_isLike lb avoid b hb h2]
  unfold Cond.mkBin
  rcases havoid with rfl | rfl <;> simp [e1, e2, z]

end ValidaProofs.C10S
