/-
  ValidaProofs.Lemmas.C05Walk — helper lemmas for the headline form of C05 (`C05Walk.lean`):
  `selection` of a modifier-free path in terms of the depth-first walk, the failure list in
  `zip`/`filter` form, and the comparison of a re-rooted rule with the original one.
-/
import Valida.AddSchema
import ValidaSpec.Walk
import ValidaProofs.Lemmas.Basic
import ValidaProofs.Lemmas.Partition
import ValidaProofs.C03
import ValidaProofs.C05
import ValidaProofs.C07
import ValidaProofs.C18
namespace ValidaProofs.C05W
open Valida ValidaGen ValidaSpec

/-- a selected node as the `(value, path)` tuple `get_data(return_paths=True)` reports -/
def tup (vq : PyVal × List PyVal) : PyVal := PyVal.tuple [vq.1, .tuple vq.2]

/-- a selected node as the pair `C05_verdict` speaks about -/
def pr (vq : PyVal × List PyVal) : PyVal × PyVal := (vq.1, PyVal.tuple vq.2)

theorem map_pr_tup (sel : List (PyVal × List PyVal)) :
    (sel.map pr).map (fun vp => PyVal.tuple [vp.1, vp.2]) = sel.map tup := by
  simp [List.map_map, Function.comp_def, pr, tup]

/-! ### `selection` is the walk -/

/-- a path with parts: `selection` is `none` iff the walk is empty, the first node for a concrete
    path, all the nodes otherwise -/
theorem selection_parts (p : Path) (doc : PyVal) (hne : p.parts ≠ []) (hs : StepsOk p.parts)
    (hsrc : p.source = none) (hdoc : PyVal.truthy doc = true) (hd : p.datum = .none) (hm : p.multi = .none) :
    selection p doc =
      (match walk childrenOf p.parts doc [] with
       | [] => .ok none
       | x :: rest => if p.concrete then .ok (some [tup x]) else .ok (some ((x :: rest).map tup))) := by
  unfold selection
  simp only [hd, hm, bne_self_eq_false, Bool.or_self, Bool.false_eq_true, if_false, bind, Except.bind,
    pure, Except.pure]
  rw [C03_get_data p doc hne hs hsrc hdoc hd hm]
  cases walk childrenOf p.parts doc [] with
  | nil => cases p.concrete <;> rfl
  | cons x rest => cases p.concrete <;> rfl

/-- a path without parts selects the document itself (and `RuleTest._test` only works for the
    concrete one) -/
theorem selection_no_parts (p : Path) (doc : PyVal) (he : p.parts = [])
    (hsrc : p.source = none) (hdoc : PyVal.truthy doc = true) (hd : p.datum = .none) (hm : p.multi = .none) :
    selection p doc = (if p.concrete then .ok (some [tup (doc, [])]) else .error .unmodelled) := by
  unfold selection Path.getData
  simp only [hd, hm, hsrc, hdoc, he, bne_self_eq_false, Bool.or_self, Bool.false_eq_true, if_false, bind,
    Except.bind, pure, Except.pure, if_true, List.isEmpty_nil, datumFn]
  cases p.concrete <;> rfl

/-- whenever `selection` returns, it returns the walk (under the "a concrete path reaches at most
    one node" hypothesis of the headline theorem) -/
theorem selection_eq_walk (p : Path) (doc : PyVal) (o : Option (List PyVal)) (hs : StepsOk p.parts)
    (hsrc : p.source = none) (hdoc : PyVal.truthy doc = true) (hd : p.datum = .none) (hm : p.multi = .none)
    (hconc : p.concrete = true → (walk childrenOf p.parts doc []).length ≤ 1)
    (h : selection p doc = .ok o) :
    o = (if (walk childrenOf p.parts doc []).isEmpty then none
         else some ((walk childrenOf p.parts doc []).map tup)) := by
  by_cases he : p.parts = []
  · rw [selection_no_parts p doc he hsrc hdoc hd hm] at h
    rw [he]
    split at h
    · cases h; simp [walk]
    · cases h
  · rw [selection_parts p doc he hs hsrc hdoc hd hm] at h
    cases hw : walk childrenOf p.parts doc [] with
    | nil => rw [hw] at h; cases h; rfl
    | cons x rest =>
      rw [hw] at h
      simp only at h
      split at h
      · rename_i hc
        have hl := hconc hc
        rw [hw] at hl
        have : rest = [] := by
          cases rest with
          | nil => rfl
          | cons y ys => simp at hl
        subst this
        cases h; rfl
      · cases h; rfl

/-! ### the condition of a rule with literal arguments -/

theorem resolve_lit (c : Cond PyVal) (src : Option PyVal) : (c.mapArgs Arg.lit).resolve src = c.lit :=
  C07L.resolve_lits c src

theorem valueKind_lit (c : Cond PyVal)
    (hv : ∀ l ∈ c.leaves, (l.cls.info.map (·.readsKeys)) = .ok false) : ValueKind c.lit := by
  intro l hl
  obtain ⟨l0, h0, he⟩ := C07L.leaves_mapArgs_cls _ _ l hl
  rw [he]; exact hv l0 h0

/-! ### failure indices as `zip` / `filter` -/

theorem failureIndices_zip {α : Type} (sub : List α) (res : List Bool) (hl : res.length = sub.length) :
    (failureIndices res).map (fun i => sub[i]?) =
      ((sub.zip res).filter (fun x => !x.2)).map (fun x => some x.1) := by
  induction sub generalizing res with
  | nil =>
    cases res with
    | nil => rfl
    | cons => simp at hl
  | cons x xs ih =>
    cases res with
    | nil => simp at hl
    | cons b res =>
      simp only [List.length_cons, Nat.add_right_cancel_iff] at hl
      rw [failureIndices_cons, List.map_append, List.map_map]
      have : ((fun i => (x :: xs)[i]?) ∘ (· + 1)) = (fun i => xs[i]?) := by
        funext i; simp
      rw [this, ih res hl]
      cases b <;> simp

/-- a list of records whose indices are the failure indices and whose payloads are the entries at
    those indices is the filtered zip -/
theorem failures_eq_filter_zip {F α : Type} (fs : List F) (idx : F → Nat) (val : F → α)
    (sub : List α) (res : List Bool) (hl : res.length = sub.length)
    (hi : fs.map idx = failureIndices res) (hv : ∀ f ∈ fs, sub[idx f]? = some (val f)) :
    fs.map val = ((sub.zip res).filter (fun x => !x.2)).map (fun x => x.1) := by
  have h1 : (fs.map val).map some = (fs.map idx).map (fun i => sub[i]?) := by
    rw [List.map_map, List.map_map]
    apply List.map_congr_left
    intro f hf
    simp [hv f hf]
  rw [hi, failureIndices_zip sub res hl] at h1
  have h2 : ((sub.zip res).filter (fun x => !x.2)).map (fun x => some x.1) =
      (((sub.zip res).filter (fun x => !x.2)).map (fun x => x.1)).map some := by
    rw [List.map_map]; rfl
  rw [h2] at h1
  exact (List.map_inj_right (fun _ _ h => Option.some.inj h)).1 h1

/-! ### the headline theorem, hypotheses spelled out -/

theorem verdict_walk (r : RuleM) (c : Cond PyVal) (doc : PyVal) (d : DataV) (t : RuleTestR)
    (hdatum : r.path.datum = .none) (hmulti : r.path.multi = .none) (hsource : r.path.source = none)
    (hsteps : StepsOk r.path.parts) (hlits : r.cond = c.mapArgs Arg.lit)
    (hvk : ∀ l ∈ c.leaves, (l.cls.info.map (·.readsKeys)) = .ok false)
    (hdoc : DataV.ofPy doc = .ok d)
    (hconc : r.path.concrete = true → (walk childrenOf r.path.parts doc []).length ≤ 1)
    (ht : ruleTestOn r doc = .ok t) :
    let sel := walk childrenOf r.path.parts doc []
    t.tested = !sel.isEmpty ∧
    (sel = [] → t.isValid = true ∧ t.failures = []) ∧
    (sel ≠ [] → ∃ fd, filterAux c.lit (plainData (sel.map pr)) false = .ok (fd, plainData (sel.map pr), none) ∧
        fd.result.length = sel.length ∧
        t.isValid = fd.result.all id ∧
        t.failures.map (fun f => (f.value, f.path)) =
          ((sel.zip fd.result).filter (fun x => !x.2)).map (fun x => (x.1.1, PyVal.tuple x.1.2)) ∧
        ∀ f ∈ t.failures, f.reasons ≠ []) := by
  intro sel
  have htruthy := C07L.truthy_of_ofPy doc d hdoc
  cases hsel : selection r.path doc with
  | error e =>
    exfalso
    simp [ruleTestOn, hdoc, hsel, bind, Except.bind] at ht
  | ok o =>
    have ho := selection_eq_walk r.path doc o hsteps hsource htruthy hdatum hmulti hconc hsel
    by_cases hempty : sel = []
    · have hnil : walk childrenOf r.path.parts doc [] = [] := hempty
      rw [hnil] at ho
      simp only [List.isEmpty_nil, if_true] at ho
      subst ho
      have := C05_untested r doc d hdoc hsel
      rw [ht] at this
      cases this
      refine ⟨by simp [hempty], fun _ => ⟨rfl, rfl⟩, fun h => absurd hempty h⟩
    · have hne : (walk childrenOf r.path.parts doc []).isEmpty = false := by
        cases hw : walk childrenOf r.path.parts doc [] with
        | nil => exact absurd hw hempty
        | cons => rfl
      rw [hne] at ho
      simp only [Bool.false_eq_true, if_false] at ho
      subst ho
      have hres : r.cond.resolve (some doc) = c.lit := by rw [hlits]; exact resolve_lit c _
      have hv : ValueKind (r.cond.resolve (some doc)) := by rw [hres]; exact valueKind_lit c hvk
      have hsub : (sel.map pr) ≠ [] := by
        intro h; exact hempty (List.map_eq_nil_iff.1 h)
      rw [← map_pr_tup] at hsel
      obtain ⟨fd, hf, htested, hvalid, hidx, hfail, _⟩ := C05_verdict r doc t (sel.map pr) hsel hsub hv ht
      have hlen : fd.result.length = sel.length := by
        have := C05_one_per_node r doc (sel.map pr) fd _ _ hf
        simpa using this
      rw [hres] at hf
      refine ⟨?_, fun h => absurd h hempty, fun _ => ⟨fd, hf, hlen, hvalid, ?_, fun f hfm => (hfail f hfm).2.1⟩⟩
      · rw [htested]
        show true = !(walk childrenOf r.path.parts doc []).isEmpty
        rw [hne]; rfl
      · have := failures_eq_filter_zip t.failures (·.index) (fun f => (f.value, f.path)) (sel.map pr) fd.result
          (by simpa using hlen) hidx (fun f hfm => (hfail f hfm).1)
        rw [this, List.zip_map_left, List.filter_map, List.map_map]
        rfl

/-! ### re-rooting -/

/-- the wrapped data the condition filters depends only on the selected values -/
theorem plainData_prefix (sel : List (PyVal × List PyVal)) (pre : List PyVal) :
    plainData ((sel.map (fun nq => (nq.1, pre ++ nq.2))).map pr) = plainData (sel.map pr) := by
  simp [plainData, pr, List.map_map, Function.comp_def]

theorem stepsOk_append (ps qs : List Part) (hp : StepsOk ps) (hq : StepsOk qs) : StepsOk (ps ++ qs) := by
  intro p hmem
  rcases List.mem_append.1 hmem with h | h
  · exact hp p h
  · exact hq p h

/-- what the re-rooted rule selects in the document: the selection of the original rule in the
    sub-document, concrete paths prefixed -/
theorem reroot_walk (root : Path) (r : RuleM) (doc sub : PyVal) (rootPath : List PyVal)
    (hroot : walk childrenOf root.parts doc [] = [(sub, rootPath)]) :
    walk childrenOf (reroot root r).path.parts doc [] =
      (walk childrenOf r.path.parts sub []).map (fun nq => (nq.1, rootPath ++ nq.2)) := by
  rw [C18_reroot_selection root r doc sub rootPath hroot, C18_walk_prefix]

theorem reroot_not_concrete (root : Path) (r : RuleM) (hrootne : root.parts ≠ []) :
    (reroot root r).path.concrete = false := by
  cases h : root.parts with
  | nil => exact absurd h hrootne
  | cons x xs => simp [reroot, Path.div, h]

theorem judges_subdocument (root : Path) (r : RuleM) (c : Cond PyVal) (doc sub : PyVal)
    (rootPath : List PyVal) (d ds : DataV) (t t' : RuleTestR) (pp : PyVal → PyVal)
    (hpp : ∀ q, pp (.tuple q) = .tuple (rootPath ++ q))
    (hroot : walk childrenOf root.parts doc [] = [(sub, rootPath)]) (hrootne : root.parts ≠ [])
    (hrootsteps : StepsOk root.parts)
    (hdatum : r.path.datum = .none) (hmulti : r.path.multi = .none) (hsource : r.path.source = none)
    (hsteps : StepsOk r.path.parts) (hlits : r.cond = c.mapArgs Arg.lit)
    (hvk : ∀ l ∈ c.leaves, (l.cls.info.map (·.readsKeys)) = .ok false)
    (hdoc : DataV.ofPy doc = .ok d) (hsub : DataV.ofPy sub = .ok ds)
    (hconc : r.path.concrete = true → (walk childrenOf r.path.parts sub []).length ≤ 1)
    (ht : ruleTestOn r sub = .ok t) (ht' : ruleTestOn (reroot root r) doc = .ok t') :
    t'.tested = t.tested ∧ t'.isValid = t.isValid ∧
    t'.failures.map (·.value) = t.failures.map (·.value) ∧
    t'.failures.map (·.path) = t.failures.map (fun f => pp f.path) := by
  have hnc := reroot_not_concrete root r hrootne
  have hw := reroot_walk root r doc sub rootPath hroot
  obtain ⟨a1, a2, a3⟩ := verdict_walk r c sub ds t hdatum hmulti hsource hsteps hlits hvk hsub hconc ht
  obtain ⟨b1, b2, b3⟩ := verdict_walk (reroot root r) c doc d t' rfl rfl rfl
    (stepsOk_append _ _ hrootsteps hsteps) hlits hvk hdoc (by rw [hnc]; intro h; cases h) ht'
  rw [hw] at b1 b2 b3
  generalize walk childrenOf r.path.parts sub [] = sel at a1 a2 a3 b1 b2 b3
  by_cases he : sel = []
  · subst he
    obtain ⟨v, f⟩ := a2 rfl
    obtain ⟨v', f'⟩ := b2 rfl
    rw [a1, b1, v, v', f, f']
    simp
  · have he' : sel.map (fun nq => (nq.1, rootPath ++ nq.2)) ≠ [] := by
      intro h; exact he (List.map_eq_nil_iff.1 h)
    obtain ⟨fd, hf, hl, hval, hfl, _⟩ := a3 he
    obtain ⟨fd', hf', hl', hval', hfl', _⟩ := b3 he'
    rw [plainData_prefix] at hf'
    rw [hf] at hf'
    have hfd : fd = fd' := by
      have := Except.ok.inj hf'
      exact (Prod.mk.inj this).1
    subst hfd
    rw [List.zip_map_left, List.filter_map, List.map_map] at hfl'
    refine ⟨?_, ?_, ?_, ?_⟩
    · rw [a1, b1]; simp
    · rw [hval, hval']
    · have e1 := congrArg (List.map Prod.fst) hfl
      have e2 := congrArg (List.map Prod.fst) hfl'
      simp only [List.map_map] at e1 e2
      exact e2.trans e1.symm
    · have e1 := congrArg (List.map (fun x : PyVal × PyVal => pp x.2)) hfl
      have e2 := congrArg (List.map Prod.snd) hfl'
      simp only [List.map_map] at e1 e2
      refine e2.trans (Eq.trans ?_ e1.symm)
      apply List.map_congr_left
      intro x _
      simp [Function.comp_def, hpp]

theorem absent_root (root : Path) (r : RuleM) (doc : PyVal) (d : DataV)
    (hroot : walk childrenOf root.parts doc [] = []) (hrootne : root.parts ≠ [])
    (hrootsteps : StepsOk root.parts) (hsteps : StepsOk r.path.parts) (hdoc : DataV.ofPy doc = .ok d) :
    ruleTestOn (reroot root r) doc = .ok { tested := false, isValid := true, failures := [], data := doc } := by
  apply C05_untested (reroot root r) doc d hdoc
  have hne : (reroot root r).path.parts ≠ [] := by
    show root.parts ++ r.path.parts ≠ []
    simp [hrootne]
  rw [selection_parts (reroot root r).path doc hne (stepsOk_append _ _ hrootsteps hsteps) rfl
    (C07L.truthy_of_ofPy doc d hdoc) rfl rfl, C18_absent_root root r doc hroot]

end ValidaProofs.C05W
