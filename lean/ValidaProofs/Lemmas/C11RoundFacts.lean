/-
  ValidaProofs.Lemmas.C11RoundFacts — the closed facts about the generated tables that the round trip
  of a single condition uses, checked by kernel evaluation of the tables as they are: per class (its
  label leads the parser back to the class), per constructor (its callable's name is a plain token, its
  signature agrees with the callable's, it forwards every parameter by keyword under its own name), per
  constructor list (lower-cased names are distinct).  The facts for a pair (class, constructor of the
  class – an alias included) are put together from these (`facts_at`); an alias is the constructor it
  names up to the name.
-/
import Valida.Spec.Ser
import ValidaProofs.Lemmas.C11Keys
import ValidaProofs.Lemmas.C11Leaf
import ValidaProofs.Lemmas.C11RoundFront
namespace ValidaProofs.C11R
open Valida ValidaGen

/-- `str.lower()` on an ASCII token -/
def low (t : String) : String := String.ofList (t.toList.map Char.toLower)

/-- the key `to_json_like` writes -/
def keyOf (info : CondClassInfo) (c : Ctor) : String := info.label ++ "." ++ c.target

def isInst (fn : String) : Bool := fn == "is_instance" || fn == "keys_is_instance"

def scalarB : PyVal → Bool
  | .none | .bool _ | .int _ | .float _ | .str _ => true
  | _ => false

/-- how the constructor forwards its parameters: everything by keyword under the parameter's name,
    `*args` / `**kwargs` forwarded as such, var-constructors without named parameters -/
def Shape (c : Ctor) : Prop :=
  c.fwdPos = [] ∧ c.params.Nodup ∧ c.fwdKw = c.params.map (fun p => (p, p)) ∧
  c.fwdStar = c.varPos.isSome ∧ c.fwdStarStar = c.varKw.isSome ∧
  ((c.varPos.isSome = true ∨ c.varKw.isSome = true) → c.params = []) ∧
  ¬(c.varPos.isSome = true ∧ c.varKw.isSome = true) ∧
  (∀ d ∈ c.defaults, scalarB d.2 = true) ∧
  (∀ p ∈ c.params, containsSub "\\path" p = false)

instance (c : Ctor) : Decidable (Shape c) := by unfold Shape; infer_instance

def sigD (fn : String) : Sig := (sigOf fn).getD ⟨"", [], false, false⟩

/-- the callable's signature has the constructor's shape -/
def SigAgrees (c : Ctor) : Prop :=
  sigOf c.target = some (sigD c.target) ∧ (sigD c.target).params.length = c.params.length ∧
  (sigD c.target).varPos = c.varPos.isSome ∧ (sigD c.target).varKw = c.varKw.isSome

instance (c : Ctor) : Decidable (SigAgrees c) := by unfold SigAgrees; infer_instance

/-- type names are written exactly for the dtype classes and the two instance tests -/
def CastAgrees (info : CondClassInfo) (c : Ctor) : Prop :=
  (containsSub "dtype" (keyOf info c) || containsSub "is_instance" (keyOf info c)) =
    (info.pre == "type" || isInst c.target)

def baseOf : CClass → CClass
  | .valueLength | .valueDataType => .value
  | .keyLength | .keyDataType => .key
  | c => c

/-- the parser on the key written for constructor `c` of class `cls`: conversions of type names as the
    key asks for them, then the rest of the parser with `c` (up to its name) -/
def Front (cls : CClass) (info : CondClassInfo) (c : Ctor) : Prop :=
  ∀ (fuel : Nat) (val : PyVal),
    parseCond (fuel + 1) (.dict [(.str (keyOf info c), val)]) =
      (do let v1 ← (if info.pre == "type" then convTypes val else pure val)
          let v2 ← (if isInst c.target then convTypes v1 else pure v1)
          parseTail fuel cls c v2)

def Facts (cls : CClass) (info : CondClassInfo) (c : Ctor) : Prop :=
  Front cls info c ∧ Shape c ∧ SigAgrees c ∧ CastAgrees info c

/-! ### per class -/

/-- the label leads the parser back to the class (one token: the class itself; two tokens: a class
    property of the base class), and says whether type names are written -/
def LabelFacts (cls : CClass) (info : CondClassInfo) : Prop :=
  let toks := (splitDot info.label).map low
  let t0 := toks.headD ""
  let tok := toks.getD 1 ""
  (splitDot info.label).mapM pyLower = .ok toks ∧
  containsSub "dtype" info.label = (info.pre == "type") ∧ containsSub "is_instance" info.label = false ∧
  ((toks = [t0] ∧ lookupStr t0 conditionDatumTypes = some cls.name ∧
      CClass.all.find? (fun c => c.name == cls.name) = some cls ∧ (info.pre == "type") = false) ∨
   (toks = [t0, tok] ∧ lookupStr t0 conditionDatumTypes = some (baseOf cls).name ∧
      CClass.all.find? (fun c => c.name == (baseOf cls).name) = some (baseOf cls) ∧
      (lookupStr tok preProcLookup).isSome = true ∧
      (((lookupStr tok preProcLookup).getD "") == "dtype") = (info.pre == "type") ∧
      (classProps.find? (fun cp => cp.1 == (baseOf cls).name &&
          cp.2.1 == (lookupStr tok preProcLookup).getD "")).isSome = true ∧
      CClass.all.find? (fun c => c.name == ((classProps.find? (fun cp => cp.1 == (baseOf cls).name &&
          cp.2.1 == (lookupStr tok preProcLookup).getD "")).getD ("", "", "")).2.2) = some cls))

instance (cls : CClass) (info : CondClassInfo) : Decidable (LabelFacts cls info) := by
  unfold LabelFacts; infer_instance

theorem label_facts_all :
    CClass.all.all (fun cls =>
      match cls.info with
      | .ok info => cls == .null || decide (LabelFacts cls info)
      | .error _ => false) = true := by
  decide +kernel

theorem mem_all (cls : CClass) : cls ∈ CClass.all := by cases cls <;> decide

theorem label_facts_at (cls : CClass) (info : CondClassInfo) (hinfo : cls.info = .ok info)
    (hnull : (cls == .null) = false) : LabelFacts cls info := by
  have h := List.all_eq_true.mp label_facts_all cls (mem_all cls)
  simp only [hinfo, hnull, Bool.false_or] at h
  exact of_decide_eq_true h

/-! ### per constructor (the classmethods themselves; aliases are reduced to them) -/

/-- the callable's name is one plain lower-casable token that is neither a pre-processor name nor a
    `CALLABLE_LOOKUP` key, the classmethod is named like the callable, it has the regular shape and the
    callable's signature -/
def TargetFacts (c : Ctor) : Prop :=
  c.name = c.target ∧ c.target.toList.contains '.' = false ∧ pyLower c.target = .ok (low c.target) ∧
  lookupStr (low c.target) callableLookup = none ∧ isInst (low c.target) = isInst c.target ∧
  preProcLookup.any (fun p => p.1 == low c.target) = false ∧
  containsSub "dtype" c.target = false ∧ containsSub "is_instance" c.target = isInst c.target ∧
  Shape c ∧ SigAgrees c

instance (c : Ctor) : Decidable (TargetFacts c) := by unfold TargetFacts; infer_instance

theorem target_facts_all : ∀ c ∈ generalCtors ++ mapCtors, TargetFacts c := by decide +kernel

/-! ### per constructor list -/

/-- `ctorsOf` depends on the class through its two flags only -/
def ctorsOfFlags (g m : Bool) : List Ctor :=
  let own := (if g then generalCtors else []) ++ (if m then mapCtors else [])
  let als := (if g then generalAliases else []) ++ (if m then mapAliases else [])
  own ++ als.filterMap (fun (a : String × String) =>
    (own.find? (fun c => c.name == a.2)).map (fun c => { c with name := a.1 }))

theorem ctorsOf_flags (info : CondClassInfo) : ctorsOf info = ctorsOfFlags info.general info.map := rfl

def lowName (c : Ctor) : List Char := c.name.toList.map Char.toLower

/-- no two constructors a class offers (aliases included) have names that differ in letter case only -/
theorem low_names_nodup : ∀ g m : Bool, ((ctorsOfFlags g m).map lowName).Nodup := by decide +kernel

/-- no binary operator symbol contains a dot -/
theorem binary_ops_no_dot : ∀ p ∈ binaryOps, p.1.toList.contains '.' = false := by decide +kernel

theorem needles_no_dot : '.' ∉ "dtype".toList ∧ '.' ∉ "is_instance".toList := by decide +kernel

/-! ### putting the facts together -/

theorem find_unique {α β : Type} [BEq β] [LawfulBEq β] (f : α → β) :
    ∀ (l : List α), (l.map f).Nodup → ∀ a ∈ l, l.find? (fun x => f x == f a) = some a
  | [], _, a, ha => by simp at ha
  | x :: xs, hnd, a, ha => by
      simp only [List.map_cons, List.nodup_cons] at hnd
      by_cases hx : f x = f a
      · have : x = a := by
          rcases List.mem_cons.mp ha with rfl | ha'
          · rfl
          · exact absurd (hx ▸ List.mem_map_of_mem ha') hnd.1
        subst this
        simp
      · have ha' : a ∈ xs := by
          rcases List.mem_cons.mp ha with rfl | ha'
          · exact absurd rfl hx
          · exact ha'
        simp [hx, find_unique f xs hnd.2 a ha']

theorem lookupStr_none {α : Type} (k : String) : ∀ (l : List (String × α)), (∀ p ∈ l, k ≠ p.1) → lookupStr k l = none
  | [], _ => rfl
  | (k', v) :: rest, h => by
      have hne : k ≠ k' := h (k', v) List.mem_cons_self
      simp [lookupStr, hne, lookupStr_none k rest (fun p hp => h p (List.mem_cons_of_mem _ hp))]

theorem mapM_append_one {α β : Type} (f : α → Except Exc β) (t : α) (y : β) (ht : f t = .ok y) :
    ∀ (xs : List α) (ys : List β), xs.mapM f = .ok ys → (xs ++ [t]).mapM f = .ok (ys ++ [y])
  | [], ys, h => by
      simp only [List.mapM_nil, pure, Except.pure, Except.ok.injEq] at h
      subst h
      simp [List.mapM_cons, ht, bind, Except.bind, pure, Except.pure]
  | x :: xs, ys, h => by
      simp only [List.mapM_cons, bind, Except.bind] at h
      cases hx : f x with
      | error e => simp [hx] at h
      | ok b =>
        cases hr : xs.mapM f with
        | error e => simp [hx, hr] at h
        | ok bs =>
          simp only [hx, hr, pure, Except.pure, Except.ok.injEq] at h
          subst h
          simp [List.mapM_cons, hx, mapM_append_one f t y ht xs bs hr, bind, Except.bind, pure, Except.pure]

/-- a needle without a dot occurs in `a.b` iff it occurs in `a` or in `b` -/
theorem isPrefixOf_dot (n : List Char) (hn : '.' ∉ n) : ∀ (a b : List Char), n ≠ [] →
    n.isPrefixOf (a ++ '.' :: b) = n.isPrefixOf a := by
  induction n with
  | nil => intro a b h; exact absurd rfl h
  | cons x n ih =>
    intro a b _
    have hx : x ≠ '.' := fun h => hn (h ▸ List.mem_cons_self)
    have hn' : '.' ∉ n := fun h => hn (List.mem_cons_of_mem _ h)
    cases a with
    | nil => simp [List.isPrefixOf, hx]
    | cons y a =>
      cases n with
      | nil => simp [List.isPrefixOf]
      | cons z n => simp only [List.cons_append, List.isPrefixOf]; rw [ih hn' a b (by simp)]

theorem isInfix_dot (n : List Char) (hn : '.' ∉ n) (hne : n ≠ []) : ∀ (a b : List Char),
    Py.isInfix n (a ++ '.' :: b) = (Py.isInfix n a || Py.isInfix n b)
  | [], b => by
      obtain ⟨x, n', rfl⟩ := List.exists_cons_of_ne_nil hne
      have hx : x ≠ '.' := fun h => hn (h ▸ List.mem_cons_self)
      simp [Py.isInfix, List.isPrefixOf, hx]
  | y :: a, b => by
      obtain ⟨x, n', rfl⟩ := List.exists_cons_of_ne_nil hne
      have h1 := isPrefixOf_dot (x :: n') hn (y :: a) b hne
      simp only [List.cons_append] at h1
      simp only [List.cons_append, Py.isInfix, h1, isInfix_dot (x :: n') hn hne a b, Bool.or_assoc]

theorem containsSub_key (needle label target : String) (hn : '.' ∉ needle.toList) (hne : needle.toList ≠ []) :
    containsSub needle (label ++ "." ++ target) = (containsSub needle label || containsSub needle target) := by
  have hd : (".".toList : List Char) = ['.'] := rfl
  simp only [containsSub, String.toList_append, hd, List.append_assoc, List.singleton_append]
  exact isInfix_dot _ hn hne _ _

/-- a constructor a class offers is one of the classmethods of the tables, or an alias of one: the same
    record up to the name -/
theorem ctorsOf_cases (info : CondClassInfo) (c : Ctor) (hc : c ∈ ctorsOf info) :
    ∃ c0, c0 ∈ generalCtors ++ mapCtors ∧ c0 ∈ ctorsOf info ∧ c = { c0 with name := c.name } := by
  have hsub : ∀ x ∈ (if info.general then generalCtors else []) ++ (if info.map then mapCtors else []),
      x ∈ generalCtors ++ mapCtors := by
    intro x hx
    simp only [List.mem_append] at hx ⊢
    rcases hx with hx | hx
    · left; split at hx
      · exact hx
      · cases hx
    · right; split at hx
      · exact hx
      · cases hx
  unfold ctorsOf at hc
  simp only [List.mem_append, List.mem_filterMap] at hc
  rcases hc with hc | ⟨a, _, ha⟩
  · exact ⟨c, hsub c (List.mem_append.mpr hc), by unfold ctorsOf; exact List.mem_append_left _ (List.mem_append.mpr hc), rfl⟩
  · cases hf : List.find? (fun c => c.name == a.2)
        ((if info.general then generalCtors else []) ++ (if info.map then mapCtors else [])) with
    | none => simp [hf] at ha
    | some c0 =>
      simp only [hf, Option.map_some, Option.some.injEq] at ha
      have hm := List.mem_of_find?_eq_some hf
      refine ⟨c0, hsub c0 hm, by unfold ctorsOf; exact List.mem_append_left _ hm, ?_⟩
      subst ha
      rfl

theorem parseTail_name (fuel : Nat) (cls : CClass) (c : Ctor) (n : String) (v : PyVal) :
    parseTail fuel cls { c with name := n } v = parseTail fuel cls c v := rfl

/-- the facts for a given class and constructor -/
theorem facts_at (cls : CClass) (info : CondClassInfo) (c : Ctor) (hinfo : cls.info = .ok info)
    (hnull : (cls == .null) = false) (hc : c ∈ ctorsOf info) : Facts cls info c := by
  obtain ⟨c0, hown, hc0, hceq⟩ := ctorsOf_cases info c hc
  obtain ⟨hname, hdot, hlow, hcall, hinst, hpp, hdty, hisin, hshape, hsig⟩ := target_facts_all c0 hown
  have hl := label_facts_at cls info hinfo hnull
  dsimp only [LabelFacts] at hl
  obtain ⟨hltoks, hldt, hlin, hrest⟩ := hl
  have htarget : c.target = c0.target := by rw [hceq]
  -- the key
  have hsplit : splitDot (info.label ++ "." ++ c0.target) = splitDot info.label ++ [c0.target] := by
    rw [C11K.splitDot_append, C11K.splitDot_of_no_dot _ hdot]
  have htoks : (splitDot (info.label ++ "." ++ c0.target)).mapM pyLower =
      .ok ((splitDot info.label).map low ++ [low c0.target]) := by
    rw [hsplit]; exact mapM_append_one pyLower _ _ hlow _ _ hltoks
  have hop : lookupStr (info.label ++ "." ++ c0.target) binaryOps = none := by
    apply lookupStr_none
    intro p hp heq
    have h1 := binary_ops_no_dot p hp
    rw [← heq] at h1
    have hd : (".".toList : List Char) = ['.'] := rfl
    simp [String.toList_append, hd] at h1
  -- the constructor found by the lower-cased name
  have hfind : (ctorsOf info).find? (fun c' => c'.name.toList.map Char.toLower == (low c0.target).toList) =
      some c0 := by
    have h := find_unique lowName (ctorsOf info) (by rw [ctorsOf_flags]; exact low_names_nodup _ _) c0 hc0
    have hl : (low c0.target).toList = lowName c0 := by
      simp [low, lowName, String.toList_ofList, hname]
    rw [hl]; exact h
  have hfront : Front cls info c := by
    intro fuel val
    have hpt : ∀ v, parseTail fuel cls c0 v = parseTail fuel cls c v := by
      intro v; rw [hceq]; exact (parseTail_name _ _ _ _ _).symm
    unfold keyOf
    rw [htarget]
    rcases hrest with ⟨htk, hdt, hbase, hpre⟩ | ⟨htk, hdt, hbase, hpsome, hdtype, hcpsome, hcls⟩
    · rw [htk] at htoks
      rw [parse_front2 fuel _ val _ _ _ (low c0.target) cls info c0 (isInst c0.target) hop htoks hdt hpp hbase
        (by rw [hcall]; rfl) hinst hinfo
        rfl hfind, hpre]
      simp only [hpt]
      rfl
    · rw [htk] at htoks
      obtain ⟨pre, hpre⟩ := Option.isSome_iff_exists.mp hpsome
      rw [hpre, Option.getD_some] at hdtype hcpsome hcls
      obtain ⟨cp, hcp⟩ := Option.isSome_iff_exists.mp hcpsome
      rw [hcp, Option.getD_some] at hcls
      rw [parse_front3 fuel _ val _ _ _ _ pre (low c0.target) (baseOf cls) cls cp info c0 (info.pre == "type")
        (isInst c0.target) hop htoks hdt hbase hpre hdtype hcp hcls (by rw [hcall]; rfl) hinst hinfo rfl hfind]
      simp only [hpt]
  have hcast : CastAgrees info c := by
    unfold CastAgrees keyOf
    rw [htarget, containsSub_key _ _ _ needles_no_dot.1 (by decide),
      containsSub_key _ _ _ needles_no_dot.2 (by decide), hldt, hlin, hdty, hisin]
    simp
  refine ⟨hfront, ?_, ?_, hcast⟩
  · rw [hceq]; exact hshape
  · rw [hceq]; exact hsig

end ValidaProofs.C11R
