/-
  ValidaProofs.Lemmas.C04GetData — `Path.getData` split into its three stages (which data, the walk,
  what is done with the selected nodes) and the modifier lemmas.
-/
import Valida.Path
import ValidaSpec.Walk
import ValidaProofs.Lemmas.Basic
import ValidaProofs.Lemmas.C03Walk
namespace ValidaProofs.C04
open Valida ValidaGen ValidaSpec
open ValidaProofs.C03

/-- which document `get_data` walks: the path's own source if it has a truthy one, else the argument -/
def resolveData (p : Path) (data : Option PyVal) : Except Exc PyVal :=
  match p.source with
  | some s => if PyVal.truthy s then pure s else
      match data with
      | some d => if PyVal.truthy d then pure d else throw .valueError
      | none => throw .valueError
  | none => match data with
      | some d => if PyVal.truthy d then pure d else throw .valueError
      | none => throw .valueError

/-- what `get_data` does with the selected nodes and their paths -/
def afterWalk (p : Path) (returnPaths : Bool) (nodes : List PyVal) (paths : List (List PyVal)) : R :=
  if nodes.isEmpty then
    pure (if p.concrete then .none else .list [])
  else do
    let vals ← nodes.mapM (datumFn p.datum)
    let out := if returnPaths then (vals.zip paths).map (fun vp => PyVal.tuple [vp.1, .tuple vp.2]) else vals
    matchMulti p.multi p.concrete out

theorem getData_eq (p : Path) (data : Option PyVal) (rp : Bool) (hne : p.parts ≠ []) :
    p.getData data rp =
      (resolveData p data).bind (fun d =>
        (walkParts p.parts true [d] []).bind (fun np => afterWalk p rp np.1 np.2)) := by
  have hne' : p.parts.isEmpty = false := by cases hp : p.parts <;> simp_all
  unfold Path.getData resolveData afterWalk
  simp only [hne', Bool.false_eq_true, if_false]
  cases p.source with
  | none =>
    cases data with
    | none => rfl
    | some d => cases hd : PyVal.truthy d <;> simp only [hd, Bool.false_eq_true, if_false, if_true] <;> rfl
  | some s =>
    cases hs : PyVal.truthy s <;> simp only [hs, Bool.false_eq_true, if_false, if_true]
    · cases data with
      | none => rfl
      | some d => cases hd : PyVal.truthy d <;> simp only [hd, Bool.false_eq_true, if_false, if_true] <;> rfl
    · rfl

theorem resolveData_doc (p : Path) (doc : PyVal) (hdoc : PyVal.truthy doc = true) :
    resolveData p (some doc) =
      .ok (match p.source with | some s => if PyVal.truthy s then s else doc | none => doc) := by
  unfold resolveData
  cases p.source with
  | none => simp [hdoc, pure, Except.pure]
  | some s => cases hs : PyVal.truthy s <;> simp [hdoc, hs, pure, Except.pure]

theorem afterWalk_nil (p : Path) (rp : Bool) (paths : List (List PyVal)) (hc : p.concrete = false) :
    afterWalk p rp [] paths = .ok (.list []) := by
  simp [afterWalk, hc, pure, Except.pure]

theorem afterWalk_same_values (p : Path) (nodes : List PyVal) (paths : List (List PyVal))
    (hl : nodes.length = paths.length) (hm : p.multi = .none ∨ p.multi = .all) (hc : p.concrete = false)
    (withP : List PyVal) (h : afterWalk p true nodes paths = .ok (.list withP)) :
    ∃ vals, afterWalk p false nodes paths = .ok (.list vals) ∧
      vals.length = withP.length ∧
      ∀ (i : Nat) (v : PyVal), vals[i]? = some v → ∃ q, withP[i]? = some (PyVal.tuple [v, q]) := by
  unfold afterWalk at h ⊢
  cases hn : nodes.isEmpty with
  | true =>
    simp [hn, hc, pure, Except.pure] at h ⊢
    subst h
    simp
  | false =>
    simp only [hn, Bool.false_eq_true, if_false, if_true, bind, Except.bind] at h ⊢
    cases hv : nodes.mapM (datumFn p.datum) with
    | error e => simp [hv] at h
    | ok vals =>
      have hlen : vals.length = paths.length := by rw [mapM_except_length _ _ _ hv, hl]
      simp only [hv] at h ⊢
      have hout : withP = (vals.zip paths).map (fun vp => PyVal.tuple [vp.1, .tuple vp.2]) := by
        rcases hm with hm | hm <;> simp [hm, matchMulti, hc] at h <;> exact h.symm
      refine ⟨vals, ?_, ?_, ?_⟩
      · rcases hm with hm | hm <;> simp [hm, matchMulti, hc]
      · simp [hout, hlen]
      · intro i v hi
        have hi' : i < vals.length := by
          rcases Nat.lt_or_ge i vals.length with h | h
          · exact h
          · simp [List.getElem?_eq_none h] at hi
        have hp : i < paths.length := hlen ▸ hi'
        refine ⟨.tuple paths[i], ?_⟩
        rw [List.getElem?_eq_getElem hi'] at hi
        cases hi
        simp only [hout, List.getElem?_map]
        have hz : (vals.zip paths)[i]? = some (vals[i], paths[i]) :=
          List.getElem?_zip_eq_some.mpr ⟨List.getElem?_eq_getElem hi', List.getElem?_eq_getElem hp⟩
        rw [hz]
        rfl

theorem getData_same_values (p : Path) (doc : PyVal) (hne : p.parts ≠ []) (hm : p.multi = .none ∨ p.multi = .all)
    (hc : p.concrete = false) (withP : List PyVal)
    (h : p.getData (some doc) true = .ok (.list withP)) :
    ∃ vals, p.getData (some doc) false = .ok (.list vals) ∧
      vals.length = withP.length ∧
      ∀ (i : Nat) (v : PyVal), vals[i]? = some v → ∃ q, withP[i]? = some (PyVal.tuple [v, q]) := by
  rw [getData_eq _ _ _ hne] at h ⊢
  cases hr : resolveData p (some doc) with
  | error e => simp [hr, Except.bind] at h
  | ok d =>
    simp only [hr, Except.bind] at h ⊢
    cases hw : walkParts p.parts true [d] [] with
    | error e => simp [hw] at h
    | ok np =>
      obtain ⟨nodes, paths⟩ := np
      simp only [hw] at h ⊢
      exact afterWalk_same_values p nodes paths
        (walkParts_length _ _ _ _ _ _ (Or.inl hne) hw) hm hc withP h

theorem getData_empty_selection (p : Path) (doc : PyVal) (rp : Bool) (hne : p.parts ≠ []) (hc : p.concrete = false)
    (h : ∃ paths, walkParts p.parts true [match p.source with | some s => if PyVal.truthy s then s else doc | none => doc] [] = .ok ([], paths))
    (hdoc : PyVal.truthy doc = true) :
    p.getData (some doc) rp = .ok (.list []) := by
  obtain ⟨paths, h⟩ := h
  rw [getData_eq _ _ _ hne, resolveData_doc p doc hdoc]
  simp only [Except.bind, h]
  exact afterWalk_nil p rp paths hc

/-! ### modifiers -/

theorem withDatum_withMulti (p : Path) (d : DatumMod) (m : MultiMod) :
    (p.withDatum d).bind (fun q => q.withMulti m) = (p.withMulti m).bind (fun q => q.withDatum d) := by
  unfold Path.withDatum Path.withMulti
  cases hd : (p.datum != .none) <;> cases hmm : (p.multi != .none) <;>
    cases hcm : (p.concrete && m != .none) <;> simp [Except.bind, hd, hmm, hcm]

end ValidaProofs.C04
