/-
  ValidaProofs.Lemmas.C20TreeGen — the composed facts about the flat list of `to_tree` for any
  sub-tree root `fromStr`, before the last component of `from_path` is put back on to the paths:
  `lst` with `assignParents (sortedItems rules fromStr) [([], -1)] 0 = .ok lst`.
-/
import Valida.Tree
import ValidaProofs.Lemmas.C20Tree
import ValidaProofs.Lemmas.C20TreeOrder
import ValidaProofs.Lemmas.C20TreeFold
import ValidaProofs.Lemmas.C20TreeReq
import ValidaProofs.Lemmas.C20TreeFlat
namespace ValidaProofs.C20H
open Valida ValidaGen ValidaProofs.C20L

/-- `lst` is the flat list for the sub-tree at `fromStr`, before re-attachment of the root -/
def Assigned (rules : List TRule) (fromStr : List String) (lst : List TItem) : Prop :=
  assignParents (sortedItems rules fromStr) [([], -1)] 0 = .ok lst

/-- the key strings a key condition names -/
def leafKeys (l : TLeaf) : List String := (l.keyStrs.zip l.keyDisp).map (·.1)

/-- the (relative) node path `q` is named by a condition `fn` of a rule of the sub-tree whose
    condition is always applicable -/
def KeyNamedIn (fromStr : List String) (rules : List TRule) (fn : String) (q : List String) : Prop :=
  ∃ r ∈ rules, Sel fromStr r ∧ r.cond.alwaysApplicable = true ∧ ∃ l ∈ r.cond.leaves, l.fn = fn ∧
    ∃ k ∈ leafKeys l, q = rel fromStr r ++ [k]

/-- closure of the rule paths of the sub-tree, one component at a time -/
def SubClosed (fromStr : List String) (rules : List TRule) : Prop :=
  ∀ r ∈ rules, Sel fromStr r → (rel fromStr r).dropLast ≠ [] →
    ∃ r' ∈ rules, Sel fromStr r' ∧ rel fromStr r' = (rel fromStr r).dropLast

/-- … including the root of the sub-tree -/
def SubtreeClosed (fromStr : List String) (rules : List TRule) : Prop :=
  ∀ r ∈ rules, Sel fromStr r → rel fromStr r ≠ [] →
    ∃ r' ∈ rules, Sel fromStr r' ∧ rel fromStr r' = (rel fromStr r).dropLast

theorem SubtreeClosed.subClosed {fromStr : List String} {rules : List TRule} (h : SubtreeClosed fromStr rules) :
    SubClosed fromStr rules := by
  intro r hr hs hne
  apply h r hr hs
  intro e
  rw [e] at hne
  exact hne rfl

theorem mem_rules_enum (rules : List TRule) (r : TRule) (hr : r ∈ rules) :
    ∃ j, (j, r) ∈ List.zip (List.range rules.length) rules := by
  obtain ⟨j, hj⟩ := List.mem_iff_getElem?.1 hr
  exact ⟨j, (mem_enum_iff rules j r).2 hj⟩

theorem enum_mem_rules (rules : List TRule) (ir : Nat × TRule)
    (h : ir ∈ List.zip (List.range rules.length) rules) : ir.2 ∈ rules :=
  List.mem_of_getElem? ((mem_enum_iff rules ir.1 ir.2).1 h)

/-! ### totality -/

theorem rule_has_item (rules : List TRule) (fromStr : List String) (r : TRule) (hr : r ∈ rules)
    (hs : Sel fromStr r) : ∃ it ∈ treeItems rules fromStr, it.pathStr = rel fromStr r := by
  obtain ⟨j, hj⟩ := mem_rules_enum rules r hr
  exact stepsFrom_rule_key fromStr _ [] (j, r) hj hs

theorem items_closed (rules : List TRule) (fromStr : List String) (h : SubClosed fromStr rules) :
    KeysClosed (treeItems rules fromStr) := by
  intro it hit
  have hrule : ∀ r ∈ rules, Sel fromStr r → (rel fromStr r).dropLast = [] ∨
      ∃ p ∈ treeItems rules fromStr, p.pathStr = (rel fromStr r).dropLast := by
    intro r hr hs
    by_cases h0 : (rel fromStr r).dropLast = []
    · exact Or.inl h0
    · obtain ⟨r', hr', hs', hk⟩ := h r hr hs h0
      obtain ⟨p, hp, hpk⟩ := rule_has_item rules fromStr r' hr' hs'
      exact Or.inr ⟨p, hp, hpk.trans hk⟩
  rcases stepsFrom_keys_from fromStr _ [] it hit with ⟨_, h0, _⟩ | ⟨ir, hir, hs, hkey⟩
  · cases h0
  · have hr : ir.2 ∈ rules := enum_mem_rules rules ir hir
    rcases hkey with hq | ⟨k, hq⟩ | hq | hq
    · rw [hq]; exact hrule _ hr hs
    · obtain ⟨p, hp, hpk⟩ := rule_has_item rules fromStr ir.2 hr hs
      exact Or.inr ⟨p, hp, by rw [hq, List.dropLast_concat]; exact hpk⟩
    · rw [hq]; exact Or.inl rfl
    · by_cases h0 : (rel fromStr ir.2).dropLast = []
      · rw [hq, h0]; exact Or.inl rfl
      · obtain ⟨r', hr', hs', hk⟩ := h _ hr hs h0
        rw [hq, ← hk]
        exact hrule r' hr' hs'

theorem gen_total (rules : List TRule) (fromStr : List String) (h : SubClosed fromStr rules) :
    ∃ lst, Assigned rules fromStr lst :=
  assigned_total rules fromStr (items_closed rules fromStr h)

/-! ### order, distinct paths -/

theorem gen_paths_nodup (rules : List TRule) (fromStr : List String) (lst : List TItem)
    (h : Assigned rules fromStr lst) : (lst.map (·.pathStr)).Nodup :=
  assigned_keys_nodup rules fromStr lst h

theorem gen_sorted (rules : List TRule) (fromStr : List String) (lst : List TItem)
    (h : Assigned rules fromStr lst) : lst.Pairwise (fun a b => keyLe a.pathStr b.pathStr = true) := by
  have h1 := assignParents_noParent _ _ _ _ h
  have h3 : (lst.map noParent).Pairwise (fun a b => keyLe a.pathStr b.pathStr = true) := by
    rw [h1, List.pairwise_map]
    exact sortedItems_sorted rules fromStr
  rw [List.pairwise_map] at h3
  exact h3

theorem getElem?_lt {α : Type} {l : List α} {i : Nat} {a : α} (h : l[i]? = some a) : i < l.length := by
  rcases Nat.lt_or_ge i l.length with h' | h'
  · exact h'
  · rw [List.getElem?_eq_none h'] at h; cases h

theorem gen_index_unique (rules : List TRule) (fromStr : List String) (lst : List TItem)
    (h : Assigned rules fromStr lst) (j j' : Nat) (p p' : TItem) (hj : lst[j]? = some p) (hj' : lst[j']? = some p')
    (hk : p.pathStr = p'.pathStr) : j = j' := by
  have hn := gen_paths_nodup rules fromStr lst h
  have hlj := getElem?_lt hj
  have hlj' := getElem?_lt hj'
  rw [List.getElem?_eq_getElem hlj] at hj
  rw [List.getElem?_eq_getElem hlj'] at hj'
  cases hj; cases hj'
  rw [List.Nodup, List.pairwise_map] at hn
  have hpw := List.pairwise_iff_getElem.1 hn
  rcases Nat.lt_trichotomy j j' with hlt | heq | hgt
  · exact absurd hk (hpw j j' hlj hlj' hlt)
  · exact heq
  · exact absurd hk.symm (hpw j' j hlj' hlj hgt)

/-! ### rules -/

theorem gen_rule_index_sound (rules : List TRule) (fromStr : List String) (lst : List TItem)
    (h : Assigned rules fromStr lst) :
    ∀ it ∈ lst, ∀ j, it.rule = some j →
      ∃ r, rules[j]? = some r ∧ Sel fromStr r ∧ it.pathStr = rel fromStr r ∧
        it.path = some (relDisp fromStr r) := by
  intro it hit j hj
  obtain ⟨it0, h0, he⟩ := (assigned_mem rules fromStr lst h).1 it hit
  have hr0 : it0.rule = some j := by
    have := congrArg TItem.rule he
    rw [noParent_rule, noParent_rule] at this
    rw [← this]; exact hj
  obtain ⟨r, hr, hs, hk, hp⟩ := treeItems_ruleOK rules fromStr it0 h0 j hr0
  refine ⟨r, (mem_enum_iff rules j r).1 hr, hs, ?_, ?_⟩
  · have := congrArg TItem.pathStr he
    rw [noParent_pathStr, noParent_pathStr] at this
    rw [this]; exact hk
  · have := congrArg TItem.path he
    rw [noParent_path, noParent_path] at this
    rw [this]; exact hp

theorem gen_each_rule_once (rules : List TRule) (fromStr : List String) (lst : List TItem)
    (h : Assigned rules fromStr lst) (hd : (rules.map (·.partStrs)).Nodup) :
    ∀ (i : Nat) (r : TRule), rules[i]? = some r → Sel fromStr r →
      lst.countP (fun it => it.rule == some i) = 1 ∧
      ∃ it ∈ lst, it.rule = some i ∧ it.pathStr = rel fromStr r ∧ it.path = some (relDisp fromStr r) := by
  intro i r hir hs
  obtain ⟨it0, h0, hk0, hr0⟩ := stepsFrom_rule_node fromStr _ (enum_pairwise rules hd) [] (i, r)
    ((mem_enum_iff rules i r).2 hir) hs
  obtain ⟨it, hit, he⟩ := (assigned_mem rules fromStr lst h).2 it0 h0
  have hrule : it.rule = some i := by
    have := congrArg TItem.rule he
    rw [noParent_rule, noParent_rule] at this
    rw [this]; exact hr0
  obtain ⟨r', hr', _, hk, hp⟩ := gen_rule_index_sound rules fromStr lst h it hit i hrule
  have : r' = r := by rw [hir] at hr'; exact (Option.some.inj hr').symm
  subst this
  refine ⟨?_, it, hit, hrule, hk, hp⟩
  apply countP_eq_one lst _ it (gen_paths_nodup rules fromStr lst h) hit (by simp [hrule])
  intro y hy hpy
  have hyr : y.rule = some i := by simpa using hpy
  obtain ⟨r'', hr'', _, hk'', _⟩ := gen_rule_index_sound rules fromStr lst h y hy i hyr
  have : r'' = r' := by rw [hir] at hr''; exact (Option.some.inj hr'').symm
  subst this
  rw [hk'', hk]

/-- a rule outside the sub-tree does not appear -/
theorem gen_unselected_absent (rules : List TRule) (fromStr : List String) (lst : List TItem)
    (h : Assigned rules fromStr lst) (i : Nat) (r : TRule) (hir : rules[i]? = some r) (hs : ¬ Sel fromStr r) :
    lst.countP (fun it => it.rule == some i) = 0 := by
  rw [List.countP_eq_zero]
  intro it hit hp
  have hr : it.rule = some i := by simpa using hp
  obtain ⟨r', hr', hs', _⟩ := gen_rule_index_sound rules fromStr lst h it hit i hr
  have : r' = r := by rw [hir] at hr'; exact (Option.some.inj hr').symm
  subst this
  exact hs hs'

/-! ### parents -/

theorem gen_parents (rules : List TRule) (fromStr : List String) (lst : List TItem)
    (h : Assigned rules fromStr lst) :
    ∀ (i : Nat) (it : TItem), lst[i]? = some it →
      (it.parent = -1 ∧ it.pathStr.dropLast = []) ∨
      (∃ (j : Nat) (p : TItem), j < i ∧ it.parent = (j : Int) ∧ lst[j]? = some p ∧
        p.pathStr = it.pathStr.dropLast) := by
  intro i it hi
  obtain ⟨_, hall⟩ := assignParents_spec _ _ 0 lst h (by simp)
  obtain ⟨hlt, hex⟩ := hall i it hi
  rcases hex with ⟨r, hr, hk, hp⟩ | ⟨j, p, hj, hpk, hpp⟩
  · left
    simp only [List.mem_singleton] at hr
    subst hr
    exact ⟨hp.symm, hk.symm⟩
  · right
    simp only [Nat.zero_add] at hpp hlt
    exact ⟨j, p, by omega, hpp, hj, hpk⟩

/-! ### the `required` flag -/

theorem mem_evs_true (fromStr : List String) (rules : List TRule) (q : List String) :
    (q, true) ∈ rules.flatMap (ruleEvs fromStr) ↔ KeyNamedIn fromStr rules "required_keys" q := by
  rw [mem_ruleEvs]
  constructor
  · rintro ⟨r, hr, hs, ha, l, hl, _, hb, kd, hkd, hq⟩
    exact ⟨r, hr, hs, ha, l, hl, by simpa using hb, kd.1, List.mem_map.2 ⟨kd, hkd, rfl⟩, hq⟩
  · rintro ⟨r, hr, hs, ha, l, hl, hfn, k, hk, hq⟩
    obtain ⟨kd, hkd, rfl⟩ := List.mem_map.1 hk
    exact ⟨r, hr, hs, ha, l, hl, Or.inr hfn, by simp [hfn], kd, hkd, hq⟩

theorem mem_evs_false (fromStr : List String) (rules : List TRule) (q : List String) :
    (q, false) ∈ rules.flatMap (ruleEvs fromStr) ↔ KeyNamedIn fromStr rules "allowed_keys" q := by
  rw [mem_ruleEvs]
  constructor
  · rintro ⟨r, hr, hs, ha, l, hl, hfn, hb, kd, hkd, hq⟩
    have hne : l.fn ≠ "required_keys" := by simpa using hb
    rcases hfn with hfn | hfn
    · exact ⟨r, hr, hs, ha, l, hl, hfn, kd.1, List.mem_map.2 ⟨kd, hkd, rfl⟩, hq⟩
    · exact absurd hfn hne
  · rintro ⟨r, hr, hs, ha, l, hl, hfn, k, hk, hq⟩
    obtain ⟨kd, hkd, rfl⟩ := List.mem_map.1 hk
    exact ⟨r, hr, hs, ha, l, hl, Or.inl hfn, by rw [hfn]; decide, kd, hkd, hq⟩

theorem gen_required (rules : List TRule) (fromStr : List String) (lst : List TItem)
    (h : Assigned rules fromStr lst) :
    ∀ it ∈ lst, it.required = reqVal (rules.flatMap (ruleEvs fromStr)) it.pathStr := by
  intro it hit
  obtain ⟨it0, h0, he⟩ := (assigned_mem rules fromStr lst h).1 it hit
  have h1 := congrArg TItem.required he
  have h2 := congrArg TItem.pathStr he
  rw [noParent_required, noParent_required] at h1
  rw [noParent_pathStr, noParent_pathStr] at h2
  rw [h1, h2]
  exact (treeItems_reqInv rules fromStr).1 it0 h0

theorem gen_required_iff (rules : List TRule) (fromStr : List String) (lst : List TItem)
    (h : Assigned rules fromStr lst) :
    ∀ it ∈ lst,
      (it.required = some true ↔ KeyNamedIn fromStr rules "required_keys" it.pathStr) ∧
      (it.required = some false ↔
        KeyNamedIn fromStr rules "allowed_keys" it.pathStr ∧ ¬ KeyNamedIn fromStr rules "required_keys" it.pathStr) ∧
      (it.required = none ↔
        ¬ KeyNamedIn fromStr rules "allowed_keys" it.pathStr ∧ ¬ KeyNamedIn fromStr rules "required_keys" it.pathStr) := by
  intro it hit
  rw [gen_required rules fromStr lst h it hit]
  refine ⟨?_, ?_, ?_⟩
  · rw [reqVal_eq_true, mem_evs_true]
  · rw [reqVal_eq_false, mem_evs_true, mem_evs_false]
  · rw [reqVal_eq_none, ← mem_evs_true, ← mem_evs_false]
    constructor
    · intro hno
      exact ⟨fun hm => hno _ hm rfl, fun hm => hno _ hm rfl⟩
    · rintro ⟨hf, ht⟩ e he heq
      obtain ⟨e1, e2⟩ := e
      cases e2
      · exact hf (by subst heq; exact he)
      · exact ht (by subst heq; exact he)

theorem gen_named_has_node (rules : List TRule) (fromStr : List String) (lst : List TItem)
    (h : Assigned rules fromStr lst) (q : List String)
    (hq : KeyNamedIn fromStr rules "required_keys" q ∨ KeyNamedIn fromStr rules "allowed_keys" q) :
    ∃ it ∈ lst, it.pathStr = q := by
  have hmem : ∃ b, (q, b) ∈ rules.flatMap (ruleEvs fromStr) := by
    rcases hq with hq | hq
    · exact ⟨true, (mem_evs_true fromStr rules q).2 hq⟩
    · exact ⟨false, (mem_evs_false fromStr rules q).2 hq⟩
  obtain ⟨b, hb⟩ := hmem
  have := (treeItems_reqInv rules fromStr).2 _ hb
  obtain ⟨it0, h0, hk0⟩ := List.mem_map.1 this
  obtain ⟨it, hit, he⟩ := (assigned_mem rules fromStr lst h).2 it0 h0
  refine ⟨it, hit, ?_⟩
  have h2 := congrArg TItem.pathStr he
  rw [noParent_pathStr, noParent_pathStr] at h2
  rw [h2]; exact hk0

end ValidaProofs.C20H
