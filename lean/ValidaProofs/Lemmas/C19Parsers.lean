/-
  ValidaProofs.Lemmas.C19Parsers — every error of the five mutually recursive spec parsers (and of
  `normDoc`, `parseCasts`, `parseRule`) is a spec error: one step per parser given the others one fuel
  unit below, then a simultaneous induction on the fuel.
-/
import ValidaProofs.Lemmas.C19Allowed
namespace ValidaProofs.C19L
open Valida ValidaGen


theorem fromPartSpecs_step (fuel : Nat) (ih : ∀ kvs, AllErr (parsePart fuel kvs)) (parts : List PyVal) :
    AllErr (fromPartSpecs (fuel + 1) parts) := by
  rw [fromPartSpecs.eq_2]; ae

theorem sniffArg_step (fuel : Nat) (ih : ∀ s, AllErr (parsePathSpec fuel s)) (v : PyVal) :
    AllErr (sniffArg (fuel + 1) v) := by
  cases v with
  | dict kvs => rw [sniffArg.eq_2]; ae
  | list xs => rw [sniffArg.eq_3]; ae
  | tuple xs => rw [sniffArg.eq_4]; ae
  | _ => exact AllErr.ok _

theorem parsePathSpec_step (fuel : Nat) (ih : ∀ ps, AllErr (fromPartSpecs fuel ps)) (spec : PyVal) :
    AllErr (parsePathSpec (fuel + 1) spec) := by
  unfold parsePathSpec; ae

theorem parseCond_step (fuel : Nat) (ihc : ∀ s, AllErr (parseCond fuel s)) (ihs : ∀ s, AllErr (sniffArg fuel s)) (spec : PyVal) :
    AllErr (parseCond (fuel + 1) spec) := by
  unfold parseCond; ae
  

theorem parsePart_step (fuel : Nat) (ihc : ∀ s, AllErr (parseCond fuel s)) (spec : List (PyVal × PyVal)) :
    AllErr (parsePart (fuel + 1) spec) := by
  rw [parsePart.eq_2]; ae


/-- the five parsers, simultaneously, by induction on the fuel -/
theorem parsers_all (fuel : Nat) :
    (∀ s, AllErr (parseCond fuel s)) ∧ (∀ v, AllErr (sniffArg fuel v)) ∧ (∀ s, AllErr (parsePathSpec fuel s)) ∧
    (∀ ps, AllErr (fromPartSpecs fuel ps)) ∧ (∀ kvs, AllErr (parsePart fuel kvs)) := by
  induction fuel with
  | zero =>
    refine ⟨fun _ => ?_, fun _ => ?_, fun _ => ?_, fun _ => ?_, fun _ => ?_⟩ <;> exact AllErr.err (by decide)
  | succ fuel ih =>
    obtain ⟨hc, hs, hp, hf, hq⟩ := ih
    exact ⟨parseCond_step fuel hc hs, sniffArg_step fuel hp, parsePathSpec_step fuel hf,
      fromPartSpecs_step fuel hq, parsePart_step fuel hc⟩

theorem parseCond_all (fuel : Nat) (s : PyVal) : AllErr (parseCond fuel s) := (parsers_all fuel).1 s
theorem fromPartSpecs_all (fuel : Nat) (ps : List PyVal) : AllErr (fromPartSpecs fuel ps) := (parsers_all fuel).2.2.2.1 ps

theorem normDoc_all (d : Option PyVal) : AllErr (normDoc d) := by
  unfold normDoc; ae

theorem parseCasts_all (d : Option PyVal) : AllErr (parseCasts d) := by
  unfold parseCasts; ae

theorem parseRule_err (fuel : Nat) (spec : PyVal) (e : Exc) (h : parseRule fuel spec = .error e) :
    SpecErr e ∨ (e = .keyError ∧ ∃ kvs, spec = .dict kvs ∧
        (Py.dictGet (.str "path") kvs = none ∨ Py.dictGet (.str "condition") kvs = none)) := by
  have hc := parseCond_all fuel
  have hf := fromPartSpecs_all fuel
  have hn := normDoc_all
  have hk := parseCasts_all
  cases spec with
  | dict kvs =>
    unfold parseRule at h
    cases hp : Py.dictGet (.str "path") kvs with
    | none =>
      simp only [hp] at h
      cases h
      exact Or.inr ⟨rfl, kvs, rfl, Or.inl hp⟩
    | some v =>
      cases hcd : Py.dictGet (.str "condition") kvs with
      | none =>
        simp only [hp, hcd, pure_bind] at h
        cases hi : Py.iter v with
        | error e' => rw [hi] at h; cases h; exact Or.inl ((iter_all v).h _ hi)
        | ok parts =>
          rw [hi] at h
          change (fromPartSpecs fuel parts >>= _) = _ at h
          cases hps : fromPartSpecs fuel parts with
          | error e' =>
            rw [hps] at h
            cases h; exact Or.inl ((hf parts).h _ hps)
          | ok pth =>
            rw [hps] at h
            cases h
            exact Or.inr ⟨rfl, kvs, rfl, Or.inr hcd⟩
      | some c =>
        simp only [hp, hcd] at h
        refine Or.inl (AllErr.h ?_ e h)
        ae
  | obj n => unfold parseRule at h; cases h; exact Or.inl (by decide)
  | _ => unfold parseRule at h; cases h; exact Or.inl (by decide)

end ValidaProofs.C19L
