/-
  ValidaProofs.Lemmas.C11RoundBuild — what `buildLeaf` stores for a constructor that forwards every
  parameter by keyword under the parameter's own name (`Shape`), and that re-building from the stored
  keyword arguments gives the same record.
-/
import Valida.Dsl
import ValidaProofs.Lemmas.C11RoundFacts
namespace ValidaProofs.C11R
open Valida ValidaGen

variable {α : Type}

theorem lookupStr_mem {k : String} {v : α} : ∀ {l : List (String × α)}, lookupStr k l = some v → (k, v) ∈ l
  | [], h => by simp [lookupStr] at h
  | (k', v') :: rest, h => by
      unfold lookupStr at h
      split at h
      · rename_i hk
        have hk' : k = k' := by simpa using hk
        cases h; subst hk'; exact List.mem_cons_self
      · exact List.mem_cons_of_mem _ (lookupStr_mem h)

theorem lookupStr_of_nodup : ∀ {l : List (String × α)}, (l.map (·.1)).Nodup → ∀ x ∈ l, lookupStr x.1 l = some x.2
  | [], _, x, hx => by simp at hx
  | (k', v') :: rest, hnd, x, hx => by
      simp only [List.map_cons, List.nodup_cons] at hnd
      rcases List.mem_cons.mp hx with rfl | hx'
      · simp [lookupStr]
      · have hne : x.1 ≠ k' := by
          intro h; apply hnd.1; rw [← h]; exact List.mem_map_of_mem hx'
        simp [lookupStr, hne, lookupStr_of_nodup hnd.2 x hx']

/-- names of the bound parameters -/
theorem bind_keys (lit : PyVal → α) (defs : List (String × PyVal)) :
    ∀ (ps : List String) (pos : List α) (kw bound : List (String × α)),
      bindCtorParams lit defs ps pos kw = .ok bound → bound.map (·.1) = ps
  | [], _, _, bound, h => by simp [bindCtorParams] at h; simp [← h]
  | p :: ps, v :: vs, kw, bound, h => by
      unfold bindCtorParams at h
      split at h
      · cases h
      · cases hr : bindCtorParams lit defs ps vs kw with
        | error e => simp [hr, bind, Except.bind] at h
        | ok b =>
          simp [hr, bind, Except.bind, pure, Except.pure] at h
          subst h; simp [bind_keys lit defs ps vs kw b hr]
  | p :: ps, [], kw, bound, h => by
      unfold bindCtorParams at h
      split at h
      · cases hr : bindCtorParams lit defs ps [] kw with
        | error e => simp [hr, bind, Except.bind] at h
        | ok b =>
          simp [hr, bind, Except.bind, pure, Except.pure] at h
          subst h; simp [bind_keys lit defs ps [] kw b hr]
      · split at h
        · cases hr : bindCtorParams lit defs ps [] kw with
          | error e => simp [hr, bind, Except.bind] at h
          | ok b =>
            simp [hr, bind, Except.bind, pure, Except.pure] at h
            subst h; simp [bind_keys lit defs ps [] kw b hr]
        · cases h

/-- every bound value is a positional value, a keyword value or a default -/
theorem bind_vals (lit : PyVal → α) (defs : List (String × PyVal)) (P : α → Prop) :
    ∀ (ps : List String) (pos : List α) (kw bound : List (String × α)),
      (∀ a ∈ pos, P a) → (∀ kv ∈ kw, P kv.2) → (∀ d ∈ defs, P (lit d.2)) →
      bindCtorParams lit defs ps pos kw = .ok bound → ∀ b ∈ bound, P b.2
  | [], _, _, bound, _, _, _, h => by simp [bindCtorParams] at h; subst h; simp
  | p :: ps, v :: vs, kw, bound, hp, hk, hd, h => by
      unfold bindCtorParams at h
      split at h
      · cases h
      · cases hr : bindCtorParams lit defs ps vs kw with
        | error e => simp [hr, bind, Except.bind] at h
        | ok b =>
          simp [hr, bind, Except.bind, pure, Except.pure] at h
          subst h
          intro x hx
          rcases List.mem_cons.mp hx with rfl | hx
          · exact hp v List.mem_cons_self
          · exact bind_vals lit defs P ps vs kw b (fun a ha => hp a (List.mem_cons_of_mem _ ha)) hk hd hr x hx
  | p :: ps, [], kw, bound, hp, hk, hd, h => by
      unfold bindCtorParams at h
      split at h
      · rename_i v hv
        cases hr : bindCtorParams lit defs ps [] kw with
        | error e => simp [hr, bind, Except.bind] at h
        | ok b =>
          simp [hr, bind, Except.bind, pure, Except.pure] at h
          subst h
          intro x hx
          rcases List.mem_cons.mp hx with rfl | hx
          · exact hk _ (lookupStr_mem hv)
          · exact bind_vals lit defs P ps [] kw b hp hk hd hr x hx
      · split at h
        · rename_i d hdv
          cases hr : bindCtorParams lit defs ps [] kw with
          | error e => simp [hr, bind, Except.bind] at h
          | ok b =>
            simp [hr, bind, Except.bind, pure, Except.pure] at h
            subst h
            intro x hx
            rcases List.mem_cons.mp hx with rfl | hx
            · exact hd _ (lookupStr_mem hdv)
            · exact bind_vals lit defs P ps [] kw b hp hk hd hr x hx
        · cases h

/-- binding from keywords only, when every parameter has its keyword -/
theorem bind_from_kw (lit : PyVal → α) (defs : List (String × PyVal)) (kw : List (String × α)) :
    ∀ (xs : List (String × α)), (∀ x ∈ xs, lookupStr x.1 kw = some x.2) →
      bindCtorParams lit defs (xs.map (·.1)) [] kw = .ok xs
  | [], _ => rfl
  | x :: xs, h => by
      have hx := h x List.mem_cons_self
      have ih := bind_from_kw lit defs kw xs (fun y hy => h y (List.mem_cons_of_mem _ hy))
      simp [bindCtorParams, hx, ih, bind, Except.bind, pure, Except.pure]

/-- forwarding every bound parameter under its own name gives back the bound list -/
theorem fwd_all (bound : List (String × α)) (f : String × String → Except Exc (String × α))
    (hf : ∀ kv v, lookupStr kv.2 bound = some v → f kv = .ok (kv.1, v)) :
    ∀ (xs : List (String × α)), (∀ x ∈ xs, lookupStr x.1 bound = some x.2) →
      ((xs.map (·.1)).map (fun p => (p, p))).mapM f = .ok xs
  | [], _ => rfl
  | x :: xs, h => by
      have hx := hf (x.1, x.1) x.2 (h x List.mem_cons_self)
      have ih := fwd_all bound f hf xs (fun y hy => h y (List.mem_cons_of_mem _ hy))
      simp only [List.map_cons, List.mapM_cons, hx, ih, bind, Except.bind, pure, Except.pure]

/-- `buildLeaf` for a constructor of the regular shape -/
theorem buildLeaf_eq (lit : PyVal → α) (cls : CClass) (c : Ctor) (hs : Shape c) (pos : List α)
    (kw : List (String × α)) :
    buildLeaf lit cls c pos kw =
      (if pos.length > c.params.length && c.varPos.isNone then throw .typeError
       else if !(kw.filter (fun kv => !c.params.contains kv.1)).isEmpty && c.varKw.isNone then throw .typeError
       else if (kw.filter (fun kv => !c.params.contains kv.1)).any (fun kv => reservedKwNames.contains kv.1) then
        throw .typeError
       else do
        let bound ← bindCtorParams lit c.defaults c.params (pos.take c.params.length) kw
        pure { cls := cls, fn := c.target,
               args := if c.varPos.isSome then pos.drop c.params.length else [],
               kwargs := bound ++ (if c.varKw.isSome then kw.filter (fun kv => !c.params.contains kv.1) else []) }) := by
  obtain ⟨h1, h2, h3, h4, h5, _, _, _, _⟩ := hs
  unfold buildLeaf
  simp only [bind, Except.bind, pure, Except.pure]
  split
  · rfl
  · split
    · rfl
    · split
      · rfl
      · cases hb : bindCtorParams lit c.defaults c.params (List.take c.params.length pos) kw with
        | error e => rfl
        | ok bound =>
          have hk := bind_keys lit c.defaults _ _ _ _ hb
          have hnd : (bound.map (·.1)).Nodup := by rw [hk]; exact h2
          have h3' : c.fwdKw = (bound.map (·.1)).map (fun p => (p, p)) := by rw [hk, h3]
          simp only [h1, List.mapM_nil, pure, Except.pure, h4, h5, List.nil_append]
          rw [h3', fwd_all bound _ _ bound (lookupStr_of_nodup hnd)]
          · intro kv v hv
            simp only [hv]

/-- what a successful constructor call stores, by the kind of the constructor -/
theorem buildLeaf_cases (lit : PyVal → α) (cls : CClass) (c : Ctor) (hs : Shape c) (pos : List α)
    (kw : List (String × α)) (l : Leaf α) (h : buildLeaf lit cls c pos kw = .ok l) :
    (c.varPos = none ∧ c.varKw = none ∧ ∃ bound,
        bindCtorParams lit c.defaults c.params (pos.take c.params.length) kw = .ok bound ∧
        l = { cls := cls, fn := c.target, args := [], kwargs := bound }) ∨
    (c.varPos.isSome = true ∧ c.varKw = none ∧ c.params = [] ∧ kw = [] ∧
        l = { cls := cls, fn := c.target, args := pos, kwargs := [] }) ∨
    (c.varPos = none ∧ c.varKw.isSome = true ∧ c.params = [] ∧ pos = [] ∧
        kw.any (fun kv => reservedKwNames.contains kv.1) = false ∧
        l = { cls := cls, fn := c.target, args := [], kwargs := kw }) := by
  rw [buildLeaf_eq lit cls c hs] at h
  obtain ⟨_, _, _, _, _, h6, h7, _, _⟩ := hs
  split at h
  · cases h
  · rename_i hlen
    split at h
    · cases h
    · rename_i hextra
      split at h
      · cases h
      rename_i hres
      cases hvp : c.varPos with
      | none =>
        cases hvk : c.varKw with
        | none =>
          left
          refine ⟨rfl, rfl, ?_⟩
          cases hb : bindCtorParams lit c.defaults c.params (List.take c.params.length pos) kw with
          | error e => simp [hb, bind, Except.bind] at h
          | ok bound =>
            simp [hb, bind, Except.bind, pure, Except.pure, hvp, hvk] at h
            exact ⟨bound, rfl, h.symm⟩
        | some k =>
          right; right
          have hp : c.params = [] := h6 (Or.inr (by simp [hvk]))
          have hpos : pos = [] := by
            simp [hp, hvp] at hlen
            exact hlen
          simp [hp, hvp, hvk, bindCtorParams, bind, Except.bind, pure, Except.pure] at h
          have hft : ∀ (l : List (String × α)), List.filter (fun _ => true) l = l := by
            intro l; induction l <;> simp_all
          rw [hft] at h
          simp only [hp, List.contains_nil, Bool.not_false, hft, Bool.not_eq_true] at hres
          exact ⟨rfl, by simp, hp, hpos, hres, h.symm⟩
      | some k =>
        right; left
        have hvk : c.varKw = none := by
          cases hvk : c.varKw with
          | none => rfl
          | some k' => exact absurd ⟨by simp [hvp], by simp [hvk]⟩ h7
        have hp : c.params = [] := h6 (Or.inl (by simp [hvp]))
        have hkw : kw = [] := by
          simp [hp, hvk] at hextra
          cases kw with
          | nil => rfl
          | cons x xs => exact absurd List.mem_cons_self (hextra x.1 x.2)
        simp [hp, hvp, hvk, hkw, bindCtorParams, bind, Except.bind, pure, Except.pure] at h
        exact ⟨by simp, hvk, hp, hkw, h.symm⟩

/-- re-building from the stored keyword arguments -/
theorem rebuild_novar (lit : PyVal → α) (cls : CClass) (c : Ctor) (hs : Shape c) (hvp : c.varPos = none)
    (hvk : c.varKw = none) (bound : List (String × α)) (hk : bound.map (·.1) = c.params) :
    buildLeaf lit cls c [] bound = .ok { cls := cls, fn := c.target, args := [], kwargs := bound } := by
  rw [buildLeaf_eq lit cls c hs]
  have hnd : (bound.map (·.1)).Nodup := by rw [hk]; exact hs.2.1
  have hb := bind_from_kw lit c.defaults bound bound (lookupStr_of_nodup hnd)
  rw [hk] at hb
  have hex : bound.filter (fun kv => !c.params.contains kv.1) = [] := by
    rw [List.filter_eq_nil_iff]
    intro kv hkv
    have : kv.1 ∈ c.params := by rw [← hk]; exact List.mem_map_of_mem (f := (·.1)) hkv
    simp [this]
  simp only [hex]
  simp [hvp, hvk, hb, bind, Except.bind, pure, Except.pure]

/-- re-building a one-parameter constructor from the value, passed positionally -/
theorem rebuild_single (lit : PyVal → α) (cls : CClass) (c : Ctor) (hs : Shape c) (hvp : c.varPos = none)
    (hvk : c.varKw = none) (p : String) (hp : c.params = [p]) (a : α) :
    buildLeaf lit cls c [a] [] = .ok { cls := cls, fn := c.target, args := [], kwargs := [(p, a)] } := by
  rw [buildLeaf_eq lit cls c hs]
  simp [hp, hvp, hvk, bindCtorParams, lookupStr, bind, Except.bind, pure, Except.pure]

theorem rebuild_varpos (lit : PyVal → α) (cls : CClass) (c : Ctor) (hs : Shape c) (hvp : c.varPos.isSome = true)
    (hvk : c.varKw = none) (hp : c.params = []) (pos : List α) :
    buildLeaf lit cls c pos [] = .ok { cls := cls, fn := c.target, args := pos, kwargs := [] } := by
  rw [buildLeaf_eq lit cls c hs]
  have : c.varPos.isNone = false := by cases h : c.varPos <;> simp_all
  simp [hp, hvp, hvk, this, bindCtorParams, bind, Except.bind, pure, Except.pure]

theorem rebuild_varkw (lit : PyVal → α) (cls : CClass) (c : Ctor) (hs : Shape c) (hvp : c.varPos = none)
    (hvk : c.varKw.isSome = true) (hp : c.params = []) (kw : List (String × α))
    (hres : kw.any (fun kv => reservedKwNames.contains kv.1) = false) :
    buildLeaf lit cls c [] kw = .ok { cls := cls, fn := c.target, args := [], kwargs := kw } := by
  rw [buildLeaf_eq lit cls c hs]
  have : c.varKw.isNone = false := by cases h : c.varKw <;> simp_all
  have hft : ∀ (l : List (String × α)), List.filter (fun _ => true) l = l := by
    intro l; induction l <;> simp_all
  simp only [hp, List.contains_nil, Bool.not_false, hft, hres]
  simp [hvp, hvk, this, bindCtorParams, bind, Except.bind, pure, Except.pure]

end ValidaProofs.C11R
