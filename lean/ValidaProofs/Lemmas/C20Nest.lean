/-
  ValidaProofs.Lemmas.C20Nest — helper lemmas for C20: the nested tree contains the nodes of the flat one.

  The flattening function is a parameter (`fl` with its defining equation), so that the lemmas do not
  depend on how the property file defines it.
-/
import Valida.Tree
namespace ValidaProofs.C20L
open Valida

/-- the indexed nodes `nestFrom` / `toTreeNested` work on -/
def Z (flat : List TItem) : List (Nat × TItem) := List.zip (List.range flat.length) flat

theorem Z_get {flat : List TItem} {j : Nat} {ix : Nat × TItem} (h : (Z flat)[j]? = some ix) :
    ix.1 = j ∧ flat[j]? = some ix.2 := by
  unfold Z at h
  rw [List.getElem?_zip_eq_some] at h
  obtain ⟨h1, h2⟩ := h
  refine ⟨?_, h2⟩
  rw [List.getElem?_range] at h1
  · cases h1; rfl
  · rcases Nat.lt_or_ge j flat.length with h | h
    · exact h
    · rw [List.getElem?_eq_none (by simpa using h)] at h1; cases h1

theorem Z_mem {flat : List TItem} {ix : Nat × TItem} (h : ix ∈ Z flat) : flat[ix.1]? = some ix.2 := by
  obtain ⟨j, hj⟩ := List.mem_iff_getElem?.1 h
  obtain ⟨h1, h2⟩ := Z_get hj
  rw [h1]; exact h2

theorem Z_split {flat : List TItem} {pre suf : List (Nat × TItem)} {x : Nat × TItem}
    (h : Z flat = pre ++ x :: suf) :
    x.1 = pre.length ∧ flat[pre.length]? = some x.2 ∧ ∀ y ∈ pre, y.1 < pre.length := by
  have hx : (Z flat)[pre.length]? = some x := by rw [h]; simp
  obtain ⟨h1, h2⟩ := Z_get hx
  refine ⟨h1, h2, ?_⟩
  intro y hy
  obtain ⟨j, hj⟩ := List.mem_iff_getElem?.1 hy
  have hjl : j < pre.length := by
    rcases Nat.lt_or_ge j pre.length with h | h
    · exact h
    · rw [List.getElem?_eq_none h] at hj; cases hj
  have : (Z flat)[j]? = some y := by rw [h, List.getElem?_append_left hjl]; exact hj
  rw [(Z_get this).1]; exact hjl

theorem flatMap_congr' {α β} {l : List α} {f g : α → List β} (h : ∀ a ∈ l, f a = g a) :
    l.flatMap f = l.flatMap g := by
  induction l with
  | nil => rfl
  | cons a l ih =>
    rw [List.flatMap_cons, List.flatMap_cons, h a (by simp), ih (fun b hb => h b (by simp [hb]))]

theorem nestFrom_succ (flat : List TItem) (fuel p : Nat) :
    nestFrom flat (fuel + 1) p =
      ((Z flat).reverse.filter (fun ix => ix.2.parent == Int.ofNat p)).map
        (fun ix => TNode.mk ix.2 (nestFrom flat fuel ix.1)) := rfl

section
variable (flat : List TItem)
  (hpar : ∀ (i : Nat) (it : TItem), flat[i]? = some it → it.parent < (i : Int) ∧ -1 ≤ it.parent)
include hpar

/-- one more unit of fuel changes nothing once the fuel covers the indices above `p` -/
theorem nest_fuel (fuel : Nat) : ∀ p, flat.length ≤ fuel + p + 1 →
    nestFrom flat (fuel + 1) p = nestFrom flat fuel p := by
  induction fuel with
  | zero =>
    intro p hp
    rw [nestFrom_succ]
    have : (Z flat).reverse.filter (fun ix => ix.2.parent == Int.ofNat p) = [] := by
      rw [List.filter_eq_nil_iff]
      intro ix hix
      have hm := Z_mem (List.mem_reverse.1 hix)
      have hlt : ix.1 < flat.length := by
        rcases Nat.lt_or_ge ix.1 flat.length with h | h
        · exact h
        · rw [List.getElem?_eq_none h] at hm; cases hm
      have := (hpar _ _ hm).1
      simp only [beq_iff_eq]
      intro heq
      rw [heq] at this
      have : (p : Int) < (ix.1 : Int) := this
      omega
    rw [this]
    rfl
  | succ fuel ih =>
    intro p hp
    rw [nestFrom_succ flat (fuel + 1), nestFrom_succ flat fuel]
    apply List.map_congr_left
    intro ix hix
    rw [List.mem_filter] at hix
    have hm := Z_mem (List.mem_reverse.1 hix.1)
    have := (hpar _ _ hm).1
    have heq : ix.2.parent = Int.ofNat p := by simpa using hix.2
    rw [heq] at this
    have : (p : Int) < (ix.1 : Int) := this
    rw [ih ix.1 (by omega)]

variable (fl : TNode → List TItem) (hfl : ∀ item cs, fl (TNode.mk item cs) = item :: cs.flatMap fl)
include hfl

/-- the flattened sub-tree of an indexed node, with the full fuel -/
def blk (flat : List TItem) (fl : TNode → List TItem) (ix : Nat × TItem) : List TItem :=
  fl (TNode.mk ix.2 (nestFrom flat flat.length ix.1))

theorem blk_eq (hn : 0 < flat.length) (ix : Nat × TItem) :
    blk flat fl ix = ix.2 :: ((Z flat).reverse.filter (fun c => c.2.parent == Int.ofNat ix.1)).flatMap (blk flat fl) := by
  unfold blk
  rw [hfl]
  obtain ⟨m, hm⟩ : ∃ m, flat.length = m + 1 := ⟨flat.length - 1, by omega⟩
  congr 1
  rw [hm, nestFrom_succ, List.flatMap_map]
  apply flatMap_congr'
  intro c _
  show fl _ = fl _
  rw [nest_fuel flat hpar m c.1 (by omega)]

omit hpar hfl in
theorem filter_or_perm {α} (p q : α → Bool) (l : List α) (h : ∀ x ∈ l, ¬(p x = true ∧ q x = true)) :
    (l.filter (fun x => p x || q x)).Perm (l.filter p ++ l.filter q) := by
  induction l with
  | nil => exact List.Perm.refl _
  | cons a l ih =>
    have ih' := ih (fun x hx => h x (by simp [hx]))
    have ha := h a (by simp)
    cases hp : p a <;> cases hq : q a
    · simpa [List.filter_cons, hp, hq] using ih'
    · simp only [List.filter_cons, hp, hq, Bool.or_true, if_true, Bool.false_eq_true, if_false]
      exact (List.Perm.cons a ih').trans List.perm_middle.symm
    · simpa [List.filter_cons, hp, hq] using ih'
    · exact absurd ⟨hp, hq⟩ ha

/-- the nodes from position `pre.length` on are exactly the nodes of the sub-trees hanging below the
    earlier positions -/
theorem nest_suffix (suf : List (Nat × TItem)) : ∀ (pre : List (Nat × TItem)), Z flat = pre ++ suf →
    ((suf.filter (fun ix => decide (ix.2.parent < (pre.length : Int)))).flatMap (blk flat fl)).Perm (suf.map (·.2)) := by
  induction suf with
  | nil => intro pre _; exact List.Perm.refl _
  | cons x suf ih =>
    intro pre hZ
    obtain ⟨hx1, hx2, hpre⟩ := Z_split hZ
    have hxpar := (hpar _ _ hx2).1
    have hn : 0 < flat.length := by
      rcases Nat.lt_or_ge pre.length flat.length with h | h
      · omega
      · rw [List.getElem?_eq_none h] at hx2; cases hx2
    have hZ' : Z flat = (pre ++ [x]) ++ suf := by rw [hZ]; simp
    have ih' := ih (pre ++ [x]) hZ'
    rw [List.filter_cons, if_pos (by simpa using hxpar), List.flatMap_cons, List.map_cons,
      blk_eq flat hpar fl hfl hn x, List.cons_append]
    apply List.Perm.cons
    -- children of `x` are found in `suf` only
    have hrev : (((Z flat).reverse.filter (fun c => c.2.parent == Int.ofNat x.1)).flatMap (blk flat fl)).Perm
        ((suf.filter (fun c => c.2.parent == Int.ofNat x.1)).flatMap (blk flat fl)) := by
      have h1 : ((Z flat).reverse.filter (fun c => c.2.parent == Int.ofNat x.1)).Perm
          (suf.filter (fun c => c.2.parent == Int.ofNat x.1)) := by
        refine ((List.reverse_perm (Z flat)).filter _).trans ?_
        rw [hZ, List.filter_append, List.filter_cons]
        have hpre0 : pre.filter (fun c => c.2.parent == Int.ofNat x.1) = [] := by
          rw [List.filter_eq_nil_iff]
          intro y hy
          have hym : y ∈ Z flat := by rw [hZ]; simp [hy]
          have h1 := (hpar _ _ (Z_mem hym)).1
          have h2 := hpre y hy
          simp only [beq_iff_eq]
          intro heq
          rw [heq, hx1] at h1
          have : (pre.length : Int) < (y.1 : Int) := h1
          omega
        have hx0 : ¬ ((x.2.parent == Int.ofNat x.1) = true) := by
          simp only [beq_iff_eq]
          intro heq
          rw [heq, hx1] at hxpar
          have : (pre.length : Int) < (pre.length : Int) := hxpar
          omega
        rw [hpre0, if_neg hx0]
        exact List.Perm.refl _
      exact h1.flatMap_right _
    refine (List.Perm.append_right _ hrev).trans ?_
    rw [← List.flatMap_append]
    refine List.Perm.trans ?_ ih'
    apply List.Perm.flatMap_right
    have hsplit : suf.filter (fun ix => decide (ix.2.parent < ((pre ++ [x]).length : Int))) =
        suf.filter (fun ix => (ix.2.parent == Int.ofNat x.1) || decide (ix.2.parent < (pre.length : Int))) := by
      apply List.filter_congr
      intro y _
      rw [hx1, Bool.eq_iff_iff]
      simp only [List.length_append, List.length_singleton, decide_eq_true_eq, Bool.or_eq_true, beq_iff_eq,
        Int.ofNat_eq_natCast]
      omega
    rw [hsplit]
    refine (filter_or_perm _ _ suf ?_).symm
    intro y _ ⟨h1, h2⟩
    rw [hx1] at h1
    have h1' : y.2.parent = (pre.length : Int) := by simpa using h1
    have h2' : y.2.parent < (pre.length : Int) := by simpa using h2
    omega

theorem nested_perm : ((toTreeNested flat).flatMap fl).Perm flat := by
  have h := nest_suffix flat hpar fl hfl (Z flat) [] rfl
  have hsnd : (Z flat).map (·.2) = flat := by
    unfold Z
    exact List.map_snd_zip (by simp)
  rw [hsnd] at h
  refine List.Perm.trans (List.Perm.of_eq ?_) h
  unfold toTreeNested
  rw [List.flatMap_map]
  have : (List.zip (List.range flat.length) flat).filter (fun ix => ix.2.parent == -1) =
      (Z flat).filter (fun ix => decide (ix.2.parent < (([] : List (Nat × TItem)).length : Int))) := by
    apply List.filter_congr
    intro y hy
    have := (hpar _ _ (Z_mem hy)).2
    simp only [List.length_nil]
    by_cases h1 : y.2.parent = -1
    · simp [h1]
    · have : ¬ (y.2.parent < 0) := by omega
      simp [h1, this]
  rw [this]
  rfl

end

end ValidaProofs.C20L
