/-
  ValidaProofs.Lemmas.C20TreeFold — the loop of `to_tree` over all rules: invariants of the items
  dictionary (keys, rule indices, which keys exist), for any sub-tree root `fromStr`.
-/
import Valida.Tree
import ValidaProofs.Lemmas.C20Tree
import ValidaProofs.Lemmas.C20TreeOrder
namespace ValidaProofs.C20H
open Valida ValidaGen ValidaProofs.C20L

/-- the items dictionary after the loop over (index, rule) pairs -/
def stepsFrom (fromStr : List String) (irs : List (Nat × TRule)) (items : Items) : Items :=
  irs.foldl (fun acc ir => treeStep fromStr acc ir.1 ir.2) items

/-- the items dictionary `to_tree` sorts -/
def treeItems (rules : List TRule) (fromStr : List String) : Items :=
  stepsFrom fromStr (List.zip (List.range rules.length) rules) []

theorem stepsFrom_nil (fromStr : List String) (items : Items) : stepsFrom fromStr [] items = items := rfl
theorem stepsFrom_cons (fromStr : List String) (ir : Nat × TRule) (irs : List (Nat × TRule)) (items : Items) :
    stepsFrom fromStr (ir :: irs) items = stepsFrom fromStr irs (treeStep fromStr items ir.1 ir.2) := rfl
theorem stepsFrom_append (fromStr : List String) (a b : List (Nat × TRule)) (items : Items) :
    stepsFrom fromStr (a ++ b) items = stepsFrom fromStr b (stepsFrom fromStr a items) := by
  simp [stepsFrom, List.foldl_append]

/-- the rule lies in the sub-tree -/
def Sel (fromStr : List String) (r : TRule) : Prop := r.partStrs.take fromStr.length = fromStr
instance (fromStr : List String) (r : TRule) : Decidable (Sel fromStr r) :=
  inferInstanceAs (Decidable (_ = _))
/-- its path relative to the sub-tree root -/
def rel (fromStr : List String) (r : TRule) : List String := r.partStrs.drop fromStr.length
def relDisp (fromStr : List String) (r : TRule) : List String := r.simpleDisp.drop fromStr.length

theorem Sel_nil (r : TRule) : Sel [] r := rfl
theorem rel_nil (r : TRule) : rel [] r = r.partStrs := rfl
theorem relDisp_nil (r : TRule) : relDisp [] r = r.simpleDisp := rfl

theorem treeStep_not_sel (fromStr : List String) (items : Items) (idx : Nat) (r : TRule) (h : ¬ Sel fromStr r) :
    treeStep fromStr items idx r = items := by
  rw [treeStep_eq, if_pos]
  simpa [Sel] using h

theorem treeStep_sel (fromStr : List String) (items : Items) (idx : Nat) (r : TRule) (h : Sel fromStr r) :
    ∃ sel, treeStep fromStr items idx r = applyOps (stepOps r idx fromStr.length sel) items := by
  obtain ⟨sel, hs⟩ := treeStep_ops fromStr items idx r
  refine ⟨sel, ?_⟩
  rw [hs, if_neg]
  simpa [Sel] using h

/-! ### invariants that hold node by node -/

theorem upsert_forall (J : TItem → Prop) (items : Items) (o : Op)
    (h1 : ∀ i, i.pathStr = o.k → J i → J (o.f i)) (h2 : J (o.f o.init)) (h : ∀ it ∈ items, J it) :
    ∀ it ∈ items.upsert o.k o.init o.f, J it := by
  intro it' hit'
  rcases upsert_bwd items o.k o.init o.f it' hit' with ⟨it, hit, rfl | ⟨hk, rfl⟩⟩ | rfl
  · exact h _ hit
  · exact h1 it hk (h it hit)
  · exact h2

theorem applyOps_forall (J : TItem → Prop) (ops : List Op)
    (h1 : ∀ o ∈ ops, ∀ i, i.pathStr = o.k → J i → J (o.f i)) (h2 : ∀ o ∈ ops, J (o.f o.init)) :
    ∀ (items : Items), (∀ it ∈ items, J it) → ∀ it ∈ applyOps ops items, J it := by
  induction ops with
  | nil => intro items h; exact h
  | cons o ops ih =>
    intro items h
    rw [applyOps_cons]
    exact ih (fun o' ho' => h1 o' (by simp [ho'])) (fun o' ho' => h2 o' (by simp [ho'])) _
      (upsert_forall J items o (h1 o (by simp)) (h2 o (by simp)) h)

/-- a node-wise invariant kept by every update of a step is kept by the step -/
theorem treeStep_forall (J : TItem → Prop) (fromStr : List String) (items : Items) (idx : Nat) (r : TRule)
    (hops : Sel fromStr r → ∀ sel, ∀ o ∈ stepOps r idx fromStr.length sel,
      (∀ i, i.pathStr = o.k → J i → J (o.f i)) ∧ J (o.f o.init))
    (h : ∀ it ∈ items, J it) : ∀ it ∈ treeStep fromStr items idx r, J it := by
  by_cases hs : Sel fromStr r
  · obtain ⟨sel, he⟩ := treeStep_sel fromStr items idx r hs
    rw [he]
    exact applyOps_forall J _ (fun o ho => (hops hs sel o ho).1) (fun o ho => (hops hs sel o ho).2) items h
  · rw [treeStep_not_sel fromStr items idx r hs]
    exact h

/-! ### keys -/

theorem stepsFrom_keys_nodup (fromStr : List String) (irs : List (Nat × TRule)) :
    ∀ (items : Items), (items.map (·.pathStr)).Nodup → ((stepsFrom fromStr irs items).map (·.pathStr)).Nodup := by
  induction irs with
  | nil => intro items h; exact h
  | cons ir irs ih =>
    intro items h
    rw [stepsFrom_cons]
    exact ih _ (step_keys_nodup fromStr items ir.1 ir.2 h)

theorem treeItems_keys_nodup (rules : List TRule) (fromStr : List String) :
    ((treeItems rules fromStr).map (·.pathStr)).Nodup :=
  stepsFrom_keys_nodup fromStr _ [] (by simp)

/-- the keys a rule can create: its own (relative) path, that path plus one key string of an
    always-applicable `allowed_keys` / `required_keys` condition, its implicitly typed parent -/
def RuleKey (fromStr : List String) (r : TRule) (q : List String) : Prop :=
  q = rel fromStr r ∨ (∃ k, q = rel fromStr r ++ [k]) ∨
    (q = [] ∨ q = (rel fromStr r).dropLast)

theorem stepOps_key (fromStr : List String) (r : TRule) (idx : Nat) (sel : Bool) :
    ∀ o ∈ stepOps r idx fromStr.length sel, RuleKey fromStr r o.k := by
  apply forall_stepOps
  · exact Or.inl rfl
  · intro l _ kd _; exact Or.inr (Or.inl ⟨kd.1, rfl⟩)
  · exact Or.inl rfl
  · exact Or.inl rfl
  · intro p
    refine Or.inr (Or.inr ?_)
    show parentStrOf r _ = [] ∨ parentStrOf r _ = _
    unfold parentStrOf
    split
    · exact Or.inl rfl
    · exact Or.inr rfl
  · refine Or.inr (Or.inr ?_)
    show parentStrOf r _ = [] ∨ parentStrOf r _ = _
    unfold parentStrOf
    split
    · exact Or.inl rfl
    · exact Or.inr rfl
  · refine Or.inr (Or.inr ?_)
    show parentStrOf r _ = [] ∨ parentStrOf r _ = _
    unfold parentStrOf
    split
    · exact Or.inl rfl
    · exact Or.inr rfl
  · exact Or.inl rfl

/-- every key of the dictionary comes from a rule of the sub-tree -/
theorem stepsFrom_keys_from (fromStr : List String) (irs : List (Nat × TRule)) :
    ∀ (items : Items), ∀ it ∈ stepsFrom fromStr irs items,
      (∃ it₀ ∈ items, it₀.pathStr = it.pathStr) ∨
      (∃ ir ∈ irs, Sel fromStr ir.2 ∧ RuleKey fromStr ir.2 it.pathStr) := by
  induction irs with
  | nil => intro items it h; exact Or.inl ⟨it, h, rfl⟩
  | cons ir irs ih =>
    intro items it h
    rw [stepsFrom_cons] at h
    rcases ih _ it h with ⟨it1, h1, hk1⟩ | ⟨ir', hir', hs', hk'⟩
    · have := treeStep_forall
        (fun x => (∃ it₀ ∈ items, it₀.pathStr = x.pathStr) ∨ (Sel fromStr ir.2 ∧ RuleKey fromStr ir.2 x.pathStr))
        fromStr items ir.1 ir.2
        (by
          intro hs sel o ho
          have hwf := stepOps_WF ir.2 ir.1 fromStr.length sel o ho
          have hkey := stepOps_key fromStr ir.2 ir.1 sel o ho
          refine ⟨fun i _ hJ => by rw [hwf.1 i]; exact hJ, ?_⟩
          rw [hwf.1, hwf.2]
          exact Or.inr ⟨hs, hkey⟩)
        (fun x hx => Or.inl ⟨x, hx, rfl⟩) it1 h1
      rcases this with ⟨it0, h0, hk0⟩ | ⟨hs, hk⟩
      · exact Or.inl ⟨it0, h0, hk0.trans hk1⟩
      · exact Or.inr ⟨ir, by simp, hs, hk1 ▸ hk⟩
    · exact Or.inr ⟨ir', by simp [hir'], hs', hk'⟩

/-- nodes are never removed -/
theorem stepsFrom_keeps_key (fromStr : List String) (irs : List (Nat × TRule)) :
    ∀ (items : Items), ∀ it ∈ items, ∃ it' ∈ stepsFrom fromStr irs items, it'.pathStr = it.pathStr := by
  induction irs with
  | nil => intro items it h; exact ⟨it, h, rfl⟩
  | cons ir irs ih =>
    intro items it h
    rw [stepsFrom_cons]
    obtain ⟨it1, h1, hk1, _⟩ := step_keeps_nodes fromStr items ir.1 ir.2 it h
    obtain ⟨it2, h2, hk2⟩ := ih _ it1 h1
    exact ⟨it2, h2, hk2.trans hk1⟩

/-- … and keep the rule index they carry as long as no later rule of the sub-tree has their path -/
theorem stepsFrom_keeps_rule (fromStr : List String) (irs : List (Nat × TRule)) :
    ∀ (items : Items), ∀ it ∈ items, it.rule.isSome →
      (∀ ir ∈ irs, Sel fromStr ir.2 → rel fromStr ir.2 ≠ it.pathStr) →
      ∃ it' ∈ stepsFrom fromStr irs items, it'.pathStr = it.pathStr ∧ it'.rule = it.rule := by
  induction irs with
  | nil => intro items it h _ _; exact ⟨it, h, rfl, rfl⟩
  | cons ir irs ih =>
    intro items it h hsome hne
    rw [stepsFrom_cons]
    have h1 : ∃ it1 ∈ treeStep fromStr items ir.1 ir.2, it1.pathStr = it.pathStr ∧ it1.rule = it.rule := by
      by_cases hs : Sel fromStr ir.2
      · obtain ⟨it1, h1, hk1, hr1⟩ := step_keeps_nodes fromStr items ir.1 ir.2 it h
        exact ⟨it1, h1, hk1, hr1 hsome (fun e => hne ir (by simp) hs e.symm)⟩
      · rw [treeStep_not_sel fromStr items ir.1 ir.2 hs]
        exact ⟨it, h, rfl, rfl⟩
    obtain ⟨it1, h1, hk1, hr1⟩ := h1
    obtain ⟨it2, h2, hk2, hr2⟩ := ih _ it1 h1 (by rw [hr1]; exact hsome)
      (fun ir' hir' hs' => by rw [hk1]; exact hne ir' (by simp [hir']) hs')
    exact ⟨it2, h2, hk2.trans hk1, hr2.trans hr1⟩

/-- every rule of the sub-tree has a node -/
theorem stepsFrom_rule_key (fromStr : List String) (irs : List (Nat × TRule)) :
    ∀ (items : Items), ∀ ir ∈ irs, Sel fromStr ir.2 →
      ∃ it ∈ stepsFrom fromStr irs items, it.pathStr = rel fromStr ir.2 := by
  induction irs with
  | nil => intro items ir h; cases h
  | cons ir0 irs ih =>
    intro items ir hir hs
    rw [stepsFrom_cons]
    rcases List.mem_cons.1 hir with rfl | hir
    · obtain ⟨it1, h1, hk1, _⟩ := step_rule_node fromStr items ir.1 ir.2 hs
      obtain ⟨it2, h2, hk2⟩ := stepsFrom_keeps_key fromStr irs _ it1 h1
      exact ⟨it2, h2, hk2.trans hk1⟩
    · exact ih _ ir hir hs

/-- with one rule per path, every rule of the sub-tree has a node that carries its index -/
theorem stepsFrom_rule_node (fromStr : List String) (irs : List (Nat × TRule))
    (hd : irs.Pairwise (fun a b => a.2.partStrs ≠ b.2.partStrs)) :
    ∀ (items : Items), ∀ ir ∈ irs, Sel fromStr ir.2 →
      ∃ it ∈ stepsFrom fromStr irs items, it.pathStr = rel fromStr ir.2 ∧ it.rule = some ir.1 := by
  induction irs with
  | nil => intro items ir h; cases h
  | cons ir0 irs ih =>
    intro items ir hir hs
    rw [stepsFrom_cons]
    rw [List.pairwise_cons] at hd
    rcases List.mem_cons.1 hir with rfl | hir
    · obtain ⟨it1, h1, hk1, hr1⟩ := step_rule_node fromStr items ir.1 ir.2 hs
      obtain ⟨it2, h2, hk2, hr2⟩ := stepsFrom_keeps_rule fromStr irs _ it1 h1 (by simp [hr1])
        (by
          intro ir' hir' hs' e
          apply hd.1 ir' hir'
          have e' : rel fromStr ir'.2 = rel fromStr ir.2 := e.trans hk1
          unfold Sel at hs hs'
          unfold rel at e'
          rw [← List.take_append_drop fromStr.length ir.2.partStrs,
            ← List.take_append_drop fromStr.length ir'.2.partStrs, hs, hs', e'])
      exact ⟨it2, h2, hk2.trans hk1, hr2.trans hr1⟩
    · exact ih hd.2 _ ir hir hs

/-! ### rule indices -/

/-- the ops after the first keep key, rule index and path display; fresh nodes carry no rule -/
theorem restOps_rule_path (r : TRule) (k : Nat) (sel : Bool) :
    ∀ o ∈ restOps r k sel, (∀ i, (o.f i).rule = i.rule ∧ (o.f i).path = i.path) ∧ o.init.rule = none := by
  apply forall_restOps
  · intro l _ kd _; exact ⟨fun i => ⟨rfl, rfl⟩, rfl⟩
  · exact ⟨fun i => ⟨rfl, rfl⟩, rfl⟩
  · exact ⟨fun i => ⟨rfl, rfl⟩, rfl⟩
  · intro p
    refine ⟨fun i => ?_, rfl⟩
    obtain ⟨t, h⟩ := fPar_eq p i
    show (fPar p i).rule = _ ∧ (fPar p i).path = _
    rw [h]
    exact ⟨rfl, rfl⟩
  · exact ⟨fun i => ⟨rfl, rfl⟩, rfl⟩
  · exact ⟨fun i => ⟨rfl, rfl⟩, rfl⟩
  · exact ⟨fun i => ⟨rfl, rfl⟩, rfl⟩

/-- a node that carries a rule index carries the index of a rule of the sub-tree that has been
    processed, sits at that rule's path and shows that rule's path display -/
def RuleOK (fromStr : List String) (done : List (Nat × TRule)) (it : TItem) : Prop :=
  ∀ j, it.rule = some j → ∃ r, (j, r) ∈ done ∧ Sel fromStr r ∧ it.pathStr = rel fromStr r ∧
    it.path = some (relDisp fromStr r)

theorem RuleOK_mono (fromStr : List String) (d1 d2 : List (Nat × TRule)) (h : ∀ x ∈ d1, x ∈ d2) (it : TItem) :
    RuleOK fromStr d1 it → RuleOK fromStr d2 it := by
  intro h1 j hj
  obtain ⟨r, hr, rest⟩ := h1 j hj
  exact ⟨r, h _ hr, rest⟩

theorem stepsFrom_ruleOK (fromStr : List String) (irs : List (Nat × TRule)) :
    ∀ (done : List (Nat × TRule)) (items : Items), (∀ it ∈ items, RuleOK fromStr done it) →
      ∀ it ∈ stepsFrom fromStr irs items, RuleOK fromStr (done ++ irs) it := by
  induction irs with
  | nil => intro done items h; simpa [stepsFrom_nil] using h
  | cons ir irs ih =>
    intro done items h
    rw [stepsFrom_cons]
    have := ih (done ++ [ir]) (treeStep fromStr items ir.1 ir.2) (by
      apply treeStep_forall (RuleOK fromStr (done ++ [ir]))
      · intro hs sel o ho
        rw [stepOps_cons, List.mem_cons] at ho
        rcases ho with rfl | ho
        · refine ⟨fun i hi _ j hj => ?_, fun j hj => ?_⟩
          · have : j = ir.1 := by
              have : some ir.1 = some j := hj
              exact (Option.some.inj this).symm
            subst this
            exact ⟨ir.2, by simp, hs, hi, rfl⟩
          · have : j = ir.1 := by
              have : some ir.1 = some j := hj
              exact (Option.some.inj this).symm
            subst this
            exact ⟨ir.2, by simp, hs, rfl, rfl⟩
        · have hwf := stepOps_WF ir.2 ir.1 fromStr.length sel o (by rw [stepOps_cons]; simp [ho])
          obtain ⟨hkeep, hinit⟩ := restOps_rule_path ir.2 fromStr.length sel o ho
          refine ⟨fun i _ hJ j hj => ?_, fun j hj => ?_⟩
          · rw [(hkeep i).1] at hj
            rw [(hkeep i).2, hwf.1]
            exact hJ j hj
          · rw [(hkeep _).1, hinit] at hj
            cases hj
      · intro it hit
        exact RuleOK_mono fromStr done _ (by intro x hx; simp [hx]) it (h it hit))
    simpa using this

theorem treeItems_ruleOK (rules : List TRule) (fromStr : List String) :
    ∀ it ∈ treeItems rules fromStr, RuleOK fromStr (List.zip (List.range rules.length) rules) it := by
  have := stepsFrom_ruleOK fromStr (List.zip (List.range rules.length) rules) [] [] (by simp)
  simpa [treeItems] using this

/-! ### the enumeration of the rules -/

theorem mem_enum_iff (rules : List TRule) (j : Nat) (r : TRule) :
    (j, r) ∈ List.zip (List.range rules.length) rules ↔ rules[j]? = some r := by
  rw [List.mem_iff_getElem?]
  constructor
  · rintro ⟨n, hn⟩
    rw [List.getElem?_zip_eq_some] at hn
    obtain ⟨h1, h2⟩ := hn
    rw [List.getElem?_range] at h1
    · cases h1; exact h2
    · rcases Nat.lt_or_ge n rules.length with h | h
      · exact h
      · rw [List.getElem?_eq_none h] at h2; cases h2
  · intro h
    refine ⟨j, ?_⟩
    rw [List.getElem?_zip_eq_some]
    have hj : j < rules.length := by
      rcases Nat.lt_or_ge j rules.length with h' | h'
      · exact h'
      · rw [List.getElem?_eq_none h'] at h; cases h
    exact ⟨by simp [hj], h⟩

theorem enum_snd (rules : List TRule) : (List.zip (List.range rules.length) rules).map (·.2) = rules := by
  rw [List.map_snd_zip]
  simp

theorem enum_pairwise (rules : List TRule) (hd : (rules.map (·.partStrs)).Nodup) :
    (List.zip (List.range rules.length) rules).Pairwise (fun a b => a.2.partStrs ≠ b.2.partStrs) := by
  have h1 : ((List.zip (List.range rules.length) rules).map (fun a => a.2.partStrs)).Nodup := by
    have : (List.zip (List.range rules.length) rules).map (fun a => a.2.partStrs) =
        ((List.zip (List.range rules.length) rules).map (·.2)).map (·.partStrs) := by
      rw [List.map_map]; rfl
    rw [this, enum_snd]
    exact hd
  rw [List.Nodup, List.pairwise_map] at h1
  exact h1

end ValidaProofs.C20H
