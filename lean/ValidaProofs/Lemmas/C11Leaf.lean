/-
  ValidaProofs.Lemmas.C11Leaf — one unfolding of the serialiser (`condToJson` on a leaf) and of the
  parser (`parseCond` on a one-key mapping) for generic class / callable / argument, given the closed
  facts about the generated tables that select the branch.  The property files instantiate these
  lemmas and discharge the closed facts by kernel evaluation of the tables.
-/
import Valida.Spec.Ser
namespace ValidaProofs.C11L
open Valida ValidaGen

deriving instance DecidableEq for Except

/-- scalars of the JSON-like domain -/
def Scalar (v : PyVal) : Prop :=
  (∃ n, v = .int n) ∨ (∃ s, v = .str s) ∨ (∃ b, v = .bool b) ∨ v = .none ∨ (∃ k, v = .float k)

/-- data-path sniffing leaves a scalar argument alone -/
theorem sniff_scalar (fuel : Nat) (v : PyVal) (hv : Scalar v) : sniffArg (fuel + 1) v = .ok (.val v) := by
  rcases hv with ⟨n, rfl⟩ | ⟨s, rfl⟩ | ⟨b, rfl⟩ | rfl | ⟨k, rfl⟩ <;> rfl

theorem mkBin_null_left (op : BinOp) (a : Cond Arg) (h : a.isNull = false) :
    Cond.mkBin op Cond.null a = .ok a := by
  have hn : (Cond.null : Cond Arg).isNull = true := rfl
  simp [Cond.mkBin, h, hn]

/-! ### the serialiser -/

/-- branch "one parameter": the value of the first keyword argument, no type names involved -/
theorem ser_single (cls : CClass) (fn : String) (info : CondClassInfo) (sig : Sig) (k : String) (a : Arg)
    (rest : List (String × Arg))
    (hcls : (cls == .null) = false) (hinfo : cls.info = .ok info) (hsig : sigOf fn = some sig)
    (hp : sig.params.length = 1) (hvp : sig.varPos = false) (hvk : sig.varKw = false)
    (hcast : (containsSub "dtype" (info.label ++ "." ++ fn) ||
              containsSub "is_instance" (info.label ++ "." ++ fn)) = false) :
    condToJson (.leaf { cls := cls, fn := fn, args := [], kwargs := (k, a) :: rest }) =
      .ok (.dict [(.str (info.label ++ "." ++ fn), argOut a)]) := by
  have hne : sig.params ≠ [] := by intro h; simp [h] at hp
  simp only [Bool.or_eq_false_iff] at hcast
  simp [condToJson, leafToJson, hcls, hinfo, hsig, hp, hvp, hvk, hcast, hne, bind, Except.bind, pure, Except.pure]

/-- branches "several parameters" and "var-keyword": the mapping of the keyword arguments, no type
    names involved -/
theorem ser_kw (cls : CClass) (fn : String) (info : CondClassInfo) (sig : Sig) (args : List Arg)
    (kwargs : List (String × Arg))
    (hcls : (cls == .null) = false) (hinfo : cls.info = .ok info) (hsig : sigOf fn = some sig)
    (hbr : (sig.params.isEmpty && !sig.varPos && !sig.varKw) = false ∧
           (sig.params.length == 1 && !sig.varPos && !sig.varKw) = false ∧
           ((decide (sig.params.length > 1) && !sig.varPos && !sig.varKw) = true ∨
            ((sig.varPos && sig.params.isEmpty && !sig.varKw) = false ∧ (sig.varKw && !sig.varPos) = true)))
    (hcast : (containsSub "dtype" (info.label ++ "." ++ fn) ||
              containsSub "is_instance" (info.label ++ "." ++ fn)) = false) :
    condToJson (.leaf { cls := cls, fn := fn, args := args, kwargs := kwargs }) =
      .ok (.dict [(.str (info.label ++ "." ++ fn),
                   .dict (kwargs.map (fun kv => (PyVal.str kv.1, argOut kv.2))))]) := by
  have hm : ∀ l : List (String × PyVal),
      l.mapM (fun kv => (Except.ok (PyVal.str kv.1, kv.2) : Except Exc (PyVal × PyVal))) =
        .ok (l.map (fun kv => (PyVal.str kv.1, kv.2))) := by
    intro l
    induction l with
    | nil => rfl
    | cons x xs ih => simp [List.mapM_cons, ih, bind, Except.bind, pure, Except.pure]
  obtain ⟨h1, h2, h3⟩ := hbr
  rcases h3 with h3 | ⟨h3, h4⟩ <;>
    simp [condToJson, leafToJson, bind, Except.bind, pure, Except.pure, List.map_map, Function.comp_def, *]

/-! ### the parser -/

/-- a two-token key `datum.callable` naming a one-parameter constructor -/
theorem parse_single (fuel : Nat) (key : String) (v : PyVal) (t0 last clsName : String)
    (cls : CClass) (info : CondClassInfo) (ctor : Ctor)
    (hop : lookupStr key binaryOps = none)
    (htoks : (splitDot key).mapM pyLower = .ok [t0, last])
    (hdt : lookupStr t0 conditionDatumTypes = some clsName)
    (hpp : preProcLookup.any (fun p => p.1 == last) = false)
    (hbase : CClass.all.find? (fun c => c.name == clsName) = some cls)
    (hcall : lookupStr last callableLookup = none)
    (hinst : (last == "is_instance" || last == "keys_is_instance") = false)
    (hinfo : cls.info = .ok info)
    (hflag : callableFromCtorTables = true)
    (hctor : (ctorsOf info).find? (fun c => c.name.toList.map Char.toLower == last.toList) = some ctor)
    (hp : ctor.params.length = 1) (hvp : ctor.varPos = none) (hvk : ctor.varKw = none)
    (hsn : sniffArg fuel v = .ok (.val v)) :
    parseCond (fuel + 1) (.dict [(.str key, v)]) =
      (buildLeaf Arg.lit cls ctor [.lit v] []).map Cond.leaf := by
  have hne : ctor.params ≠ [] := by intro h; simp [h] at hp
  rw [parseCond.eq_2]
  simp [hop, htoks, hdt, hpp, hbase, hcall, hinst, hinfo, hflag, hctor, hp, hvp, hvk, hsn, hne, PyVal.truthy,
    bind, Except.bind, pure, Except.pure, Ctor.kinds, Sniffed.toArg]
  cases buildLeaf Arg.lit cls ctor [Arg.lit v] [] <;> rfl

/-! ### round trip of a one-parameter leaf with a scalar argument -/

/-- the closed facts about the tables used by `leaf_scalar_of` (all decidable) -/
def ScalarFacts (cls : CClass) (fn : String) (info : CondClassInfo) (sig : Sig) (ctor : Ctor) : Prop :=
  (cls == .null) = false ∧ sig.params.length = 1 ∧ sig.varPos = false ∧ sig.varKw = false ∧
  (containsSub "dtype" (info.label ++ "." ++ fn) || containsSub "is_instance" (info.label ++ "." ++ fn)) = false ∧
  lookupStr (info.label ++ "." ++ fn) binaryOps = none ∧
  (splitDot (info.label ++ "." ++ fn)).mapM pyLower = .ok [info.label, fn] ∧
  lookupStr info.label conditionDatumTypes = some info.name ∧
  preProcLookup.any (fun p => p.1 == fn) = false ∧
  CClass.all.find? (fun c => c.name == info.name) = some cls ∧
  lookupStr fn callableLookup = none ∧
  (fn == "is_instance" || fn == "keys_is_instance") = false ∧
  callableFromCtorTables = true ∧
  ctor.params.length = 1 ∧ ctor.varPos = none ∧ ctor.varKw = none

instance (cls : CClass) (fn : String) (info : CondClassInfo) (sig : Sig) (ctor : Ctor) :
    Decidable (ScalarFacts cls fn info sig ctor) := by unfold ScalarFacts; infer_instance

/-- what `C11_leaf_scalar` says for one class and one callable -/
def ScalarRoundTrip (cls : CClass) (fn : String) : Prop :=
  ∀ (fuel : Nat) (v : PyVal), Scalar v →
    ∃ js, condToJson (.leaf { cls := cls, fn := fn, args := [], kwargs := [("value", .lit v)] }) = .ok js ∧
      parseCond (fuel + 3) js = .ok (.leaf { cls := cls, fn := fn, args := [], kwargs := [("value", .lit v)] })

theorem leaf_scalar_of (cls : CClass) (fn : String) (info : CondClassInfo) (sig : Sig) (ctor : Ctor)
    (hinfo : cls.info = .ok info) (hsig : sigOf fn = some sig)
    (hctor : (ctorsOf info).find? (fun c => c.name.toList.map Char.toLower == fn.toList) = some ctor)
    (hb : ∀ a, buildLeaf Arg.lit cls ctor [a] [] =
            .ok { cls := cls, fn := fn, args := [], kwargs := [("value", a)] })
    (hclosed : ScalarFacts cls fn info sig ctor) : ScalarRoundTrip cls fn := by
  intro fuel v hv
  obtain ⟨h1, h2, h3, h4, h5, h6, h7, h8, h9, h10, h11, h12, h13, h14, h15, h16⟩ := hclosed
  refine ⟨_, ser_single cls fn info sig "value" (.lit v) [] h1 hinfo hsig h2 h3 h4 h5, ?_⟩
  rw [argOut, parse_single (fuel + 2) _ v info.label fn info.name cls info ctor h6 h7 h8 h9 h10 h11 h12 hinfo h13
    hctor h14 h15 h16 (sniff_scalar _ v hv), hb]
  rfl

end ValidaProofs.C11L
