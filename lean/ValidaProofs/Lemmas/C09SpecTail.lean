/-
  ValidaProofs.Lemmas.C09SpecTail — the rest of `ConditionLike.from_spec` (data-path sniffing of the
  argument, call of the constructor as its signature admits) on an argument value in each of the forms:
  anything atomic for no parameter, the value for one parameter, list / tuple of positionals or mapping
  of keywords for several, list for var-positional, mapping for var-keyword.  In every form the parser
  makes exactly the constructor call the form stands for.
-/
import Valida.Spec.Parse
import ValidaProofs.Lemmas.C11RoundLeaf
import ValidaProofs.Lemmas.C09SpecFront
namespace ValidaProofs.C09S
open Valida ValidaGen ValidaProofs.C11R

theorem sniff_tuple (fuel : Nat) (xs : List PyVal) (h : ∀ x ∈ xs, atomB x = true) :
    sniffArg (fuel + 2) (.tuple xs) = .ok (.tupleS (xs.map SElem.val)) := by
  rw [sniffArg.eq_4, mapM_pointwise _ SElem.val xs]
  · rfl
  · intro x hx
    simp only [pps_atom fuel x (h x hx)]
    rfl

theorem tail_multi_list (fuel : Nat) (cls : CClass) (c : Ctor) (v : PyVal) (xs : List SElem) (l : Leaf Arg)
    (p q : String) (r : List String)
    (hp : c.params = p :: q :: r) (hvp : c.varPos = none) (hvk : c.varKw = none)
    (hsn : sniffArg fuel v = .ok (.listS xs)) (hb : buildLeaf Arg.lit cls c (xs.map SElem.toArg) [] = .ok l) :
    parseTail fuel cls c v = .ok (.leaf l) := by
  simp [parseTail, Ctor.kinds, hp, hvp, hvk, hsn, hb, bind, Except.bind, pure, Except.pure]

theorem tail_multi_tuple (fuel : Nat) (cls : CClass) (c : Ctor) (v : PyVal) (xs : List SElem) (l : Leaf Arg)
    (p q : String) (r : List String)
    (hp : c.params = p :: q :: r) (hvp : c.varPos = none) (hvk : c.varKw = none)
    (hsn : sniffArg fuel v = .ok (.tupleS xs)) (hb : buildLeaf Arg.lit cls c (xs.map SElem.toArg) [] = .ok l) :
    parseTail fuel cls c v = .ok (.leaf l) := by
  simp [parseTail, Ctor.kinds, hp, hvp, hvk, hsn, hb, bind, Except.bind, pure, Except.pure]

theorem elems_lit (pos : List PyVal) : (pos.map SElem.val).map SElem.toArg = pos.map Arg.lit := by
  rw [List.map_map]; rfl

/-- the keywords as the DSL call passes them -/
def kwArgs (kw : List (String × PyVal)) : List (String × Arg) := kw.map (fun kv => (kv.1, Arg.lit kv.2))

/-- the keywords as a spec writes them -/
def kwDict (kw : List (String × PyVal)) : List (PyVal × PyVal) := kw.map (fun kv => (PyVal.str kv.1, kv.2))

theorem kwArgs_dict (kw : List (String × PyVal)) :
    (kwArgs kw).map (fun kv => (PyVal.str kv.1, argOut kv.2)) = kwDict kw := by
  simp [kwArgs, kwDict, List.map_map, Function.comp_def, argOut]

theorem kwArgs_keys (kw : List (String × PyVal)) : (kwArgs kw).map (·.1) = kw.map (·.1) := by
  simp [kwArgs, List.map_map, Function.comp_def]

theorem kwArgs_lits (kw : List (String × PyVal)) (h : ∀ kv ∈ kw, atomB kv.2 = true) :
    ∀ kv ∈ kwArgs kw, LitP atomB kv.2 := by
  intro kv hkv
  obtain ⟨kv', hkv', rfl⟩ := List.mem_map.mp hkv
  exact ⟨kv'.2, rfl, h kv' hkv'⟩

/-- sniffing a mapping of keywords that is not a path spec, and reading its keys back -/
theorem sniff_kw (fuel : Nat) (kw : List (String × PyVal)) (h : ∀ kv ∈ kw, atomB kv.2 = true)
    (hkeys : KeysOK (kw.map (·.1))) :
    ∃ items, sniffArg (fuel + 2) (.dict (kwDict kw)) = .ok (.dictS items) ∧ strKeysS items = .ok (kwArgs kw) := by
  refine ⟨(kwDict kw).map (fun kv => (kv.1, SElem.val kv.2)), ?_, ?_⟩
  · apply sniff_dict
    · intro kv hkv
      obtain ⟨kv', hkv', rfl⟩ := List.mem_map.mp hkv
      exact h kv' hkv'
    · have := pps_kw fuel (kwArgs kw) (by rw [kwArgs_keys]; exact hkeys)
      rw [kwArgs_dict] at this
      exact this
  · have := strKeysS_lits atomB (kwArgs kw) (kwArgs_lits kw h)
    rw [kwArgs_dict] at this
    exact this

/-- an accepted call of a constructor without `**kwargs` names parameters only -/
theorem keys_in_params {α : Type} (lit : PyVal → α) (cls : CClass) (c : Ctor) (hs : Shape c) (hvk : c.varKw = none)
    (pos : List α) (kw : List (String × α)) (l : Leaf α) (h : buildLeaf lit cls c pos kw = .ok l) :
    ∀ kv ∈ kw, kv.1 ∈ c.params := by
  rw [buildLeaf_eq lit cls c hs] at h
  split at h
  · cases h
  · split at h
    · cases h
    · rename_i hextra
      intro kv hkv
      simp only [hvk, Option.isNone_none, Bool.and_true, Bool.not_eq_true'] at hextra
      have he : (List.filter (fun kv => !c.params.contains kv.fst) kw).isEmpty = true := by
        cases h' : (List.filter (fun kv => !c.params.contains kv.fst) kw).isEmpty
        · exact absurd h' hextra
        · rfl
      have := List.filter_eq_nil_iff.mp (List.isEmpty_iff.mp he) kv hkv
      simpa using this

/-- the parameter names of a constructor a class offers never look like a path spec -/
theorem params_keysOK (info : CondClassInfo) (c : Ctor) (hc : c ∈ ctorsOf info) (hs : Shape c)
    (keys : List String) (h : ∀ k ∈ keys, k ∈ c.params) : KeysOK keys := by
  have hf := (ctor_facts_all info.general info.map c (by rw [← ctorsOf_flags]; exact hc)).2.2
  refine ⟨fun k hk => hs.2.2.2.2.2.2.2.2 k (h k hk), ?_⟩
  intro k hk
  exact hf k (h k (by rw [hk]; exact List.mem_cons_self))

section
variable (cls : CClass) (info : CondClassInfo) (c : Ctor) (hc : c ∈ ctorsOf info) (hs : Shape c) (fuel : Nat)
  (pos : List PyVal) (kw : List (String × PyVal)) (l : Leaf Arg)
  (hpos : ∀ v ∈ pos, atomB v = true) (hkw : ∀ kv ∈ kw, atomB kv.2 = true)

/-- no parameter: the argument value (anything atomic) is ignored -/
theorem form_nullary (val : PyVal) (hvp : c.varPos = none) (hvk : c.varKw = none) (hp : c.params = [])
    (hval : atomB val = true) (hl : buildLeaf Arg.lit cls c [] [] = .ok l) :
    parseTail (fuel + 2) cls c val = .ok (.leaf l) :=
  tail_nullary _ cls c _ _ _ hp hvp hvk (sniff_atom _ _ hval) hl

/-- one parameter: the value -/
theorem form_single (val : PyVal) (hvp : c.varPos = none) (hvk : c.varKw = none) (hp : c.params.length = 1)
    (hval : atomB val = true) (hl : buildLeaf Arg.lit cls c [.lit val] [] = .ok l) :
    parseTail (fuel + 2) cls c val = .ok (.leaf l) := by
  obtain ⟨p, hps⟩ : ∃ p, c.params = [p] := by
    match h : c.params, hp with
    | [p], _ => exact ⟨p, rfl⟩
  exact tail_single _ cls c _ _ _ p hps hvp hvk (sniff_atom _ _ hval) hl

theorem vals_id (xs : List PyVal) : (xs.map SElem.val).map SElem.toVal = xs := by
  rw [List.map_map]
  conv => rhs; rw [← List.map_id xs]
  rfl

/-- one parameter: a list of literals as the value -/
theorem form_single_list (xs : List PyVal) (hxs : ∀ x ∈ xs, atomB x = true) (hvp : c.varPos = none)
    (hvk : c.varKw = none) (hp : c.params.length = 1)
    (hl : buildLeaf Arg.lit cls c [.lit (.list xs)] [] = .ok l) :
    parseTail (fuel + 2) cls c (.list xs) = .ok (.leaf l) := by
  obtain ⟨p, hps⟩ : ∃ p, c.params = [p] := by
    match h : c.params, hp with
    | [p], _ => exact ⟨p, rfl⟩
  refine tail_single _ cls c _ _ _ p hps hvp hvk (sniff_list fuel xs hxs) ?_
  simp only [Sniffed.toArg, vals_id]
  exact hl

/-- one parameter: a tuple of literals as the value -/
theorem form_single_tuple (xs : List PyVal) (hxs : ∀ x ∈ xs, atomB x = true) (hvp : c.varPos = none)
    (hvk : c.varKw = none) (hp : c.params.length = 1)
    (hl : buildLeaf Arg.lit cls c [.lit (.tuple xs)] [] = .ok l) :
    parseTail (fuel + 2) cls c (.tuple xs) = .ok (.leaf l) := by
  obtain ⟨p, hps⟩ : ∃ p, c.params = [p] := by
    match h : c.params, hp with
    | [p], _ => exact ⟨p, rfl⟩
  refine tail_single _ cls c _ _ _ p hps hvp hvk (sniff_tuple fuel xs hxs) ?_
  simp only [Sniffed.toArg, vals_id]
  exact hl

include hpos in
/-- several parameters: the list of positional values -/
theorem form_multi_list (hvp : c.varPos = none) (hvk : c.varKw = none) (hp : 1 < c.params.length)
    (hl : buildLeaf Arg.lit cls c (pos.map Arg.lit) [] = .ok l) :
    parseTail (fuel + 2) cls c (.list pos) = .ok (.leaf l) := by
  obtain ⟨p, q, r, hps⟩ : ∃ p q r, c.params = p :: q :: r := by
    match h : c.params, hp with
    | p :: q :: r, _ => exact ⟨p, q, r, rfl⟩
  refine tail_multi_list _ cls c _ _ _ p q r hps hvp hvk (sniff_list fuel pos hpos) ?_
  rw [elems_lit]; exact hl

include hpos in
/-- several parameters: the tuple of positional values -/
theorem form_multi_tuple (hvp : c.varPos = none) (hvk : c.varKw = none) (hp : 1 < c.params.length)
    (hl : buildLeaf Arg.lit cls c (pos.map Arg.lit) [] = .ok l) :
    parseTail (fuel + 2) cls c (.tuple pos) = .ok (.leaf l) := by
  obtain ⟨p, q, r, hps⟩ : ∃ p q r, c.params = p :: q :: r := by
    match h : c.params, hp with
    | p :: q :: r, _ => exact ⟨p, q, r, rfl⟩
  refine tail_multi_tuple _ cls c _ _ _ p q r hps hvp hvk (sniff_tuple fuel pos hpos) ?_
  rw [elems_lit]; exact hl

include hc hs hkw in
/-- several parameters: the mapping of keyword values -/
theorem form_multi_dict (hvp : c.varPos = none) (hvk : c.varKw = none) (hp : 1 < c.params.length)
    (hl : buildLeaf Arg.lit cls c [] (kwArgs kw) = .ok l) :
    parseTail (fuel + 2) cls c (.dict (kwDict kw)) = .ok (.leaf l) := by
  obtain ⟨p, q, r, hps⟩ : ∃ p q r, c.params = p :: q :: r := by
    match h : c.params, hp with
    | p :: q :: r, _ => exact ⟨p, q, r, rfl⟩
  have hin := keys_in_params Arg.lit cls c hs hvk [] (kwArgs kw) l hl
  have hkeys : KeysOK (kw.map (·.1)) := by
    apply params_keysOK info c hc hs
    intro k hk
    obtain ⟨kv, hkv, rfl⟩ := List.mem_map.mp hk
    exact hin (kv.1, Arg.lit kv.2) (List.mem_map.mpr ⟨kv, hkv, rfl⟩)
  obtain ⟨items, hsn, hks⟩ := sniff_kw fuel kw hkw hkeys
  exact tail_multi _ cls c _ items _ _ p q r hps hvp hvk hsn hks hl

include hs hpos in
/-- var-positional: the list of values -/
theorem form_varpos (hvp : c.varPos.isSome = true)
    (hl : buildLeaf Arg.lit cls c (pos.map Arg.lit) [] = .ok l) :
    parseTail (fuel + 2) cls c (.list pos) = .ok (.leaf l) := by
  have hp : c.params = [] := hs.2.2.2.2.2.1 (Or.inl hvp)
  have hvk : c.varKw = none := by
    cases h : c.varKw with
    | none => rfl
    | some k => exact absurd ⟨hvp, by simp [h]⟩ hs.2.2.2.2.2.2.1
  refine tail_varpos _ cls c _ _ _ hp hvp hvk (sniff_list fuel pos hpos) ?_
  rw [elems_lit]; exact hl

include hs hkw in
/-- var-keyword: the mapping of keyword values, whose names do not make it look like a path spec -/
theorem form_varkw (hvk : c.varKw.isSome = true) (hkeys : KeysOK (kw.map (·.1)))
    (hl : buildLeaf Arg.lit cls c [] (kwArgs kw) = .ok l) :
    parseTail (fuel + 2) cls c (.dict (kwDict kw)) = .ok (.leaf l) := by
  have hp : c.params = [] := hs.2.2.2.2.2.1 (Or.inr hvk)
  have hvp : c.varPos = none := by
    cases h : c.varPos with
    | none => rfl
    | some k => exact absurd ⟨by simp [h], hvk⟩ hs.2.2.2.2.2.2.1
  obtain ⟨items, hsn, hks⟩ := sniff_kw fuel kw hkw hkeys
  exact tail_varkw _ cls c _ items _ _ hp hvp hvk hsn hks hl

end

end ValidaProofs.C09S
